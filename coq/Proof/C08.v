(* C08 - proofs.  Part 1: the boolean equalities decide equality; the comparison of
   observations decides equality of their abstractions. *)
From Coq Require Import Permutation.
From TT Require Import Lib.Base Lib.Sort Model.Adapters Spec.C08 Corr.C08.

(* ================= boolean equalities ================= *)
Lemma nat_eqb_spec a b : (a =? b) = true <-> a = b.
Proof. apply Nat.eqb_eq. Qed.

Lemma text_eqb_spec a b : text_eqb a b = true <-> a = b.
Proof. apply list_eqb_spec. exact nat_eqb_spec. Qed.

Lemma errv_eqb_spec a b : errv_eqb a b = true <-> a = b.
Proof.
  destruct a, b; simpl; split; intro H; try discriminate; try reflexivity.
  - apply Nat.eqb_eq in H. congruence.
  - injection H as ->. apply Nat.eqb_refl.
  - apply text_eqb_spec in H. congruence.
  - injection H as ->. apply text_eqb_spec. reflexivity.
Qed.

Lemma dkind_eqb_spec a b : dkind_eqb a b = true <-> a = b.
Proof.
  destruct a, b; simpl; split; intro H; try discriminate.
  - apply text_eqb_spec in H. congruence.
  - injection H as ->. apply text_eqb_spec. reflexivity.
  - apply (list_eqb_spec _ nat_eqb_spec) in H. congruence.
  - injection H as ->. apply (list_eqb_spec _ nat_eqb_spec). reflexivity.
  - apply errv_eqb_spec in H. congruence.
  - injection H as ->. apply errv_eqb_spec. reflexivity.
Qed.

Lemma detail_eqb_spec a b : detail_eqb a b = true <-> a = b.
Proof. apply pair_eqb_spec. exact text_eqb_spec. exact dkind_eqb_spec. Qed.

Lemma details_eqb_spec a b : details_eqb a b = true <-> a = b.
Proof. apply list_eqb_spec. exact detail_eqb_spec. Qed.

Lemma tkind_eqb_spec a b : tkind_eqb a b = true <-> a = b.
Proof. destruct a, b; simpl; split; congruence. Qed.

Lemma test_eqb_spec a b : test_eqb a b = true <-> a = b.
Proof.
  destruct a as [i k], b as [j l]; unfold test_eqb; simpl; split; intro H.
  - apply andb_true_iff in H as [H1 H2]. apply Nat.eqb_eq in H1. apply tkind_eqb_spec in H2. congruence.
  - injection H as -> ->. rewrite Nat.eqb_refl. apply tkind_eqb_spec. reflexivity.
Qed.

Lemma ekind_eqb_spec a b : ekind_eqb a b = true <-> a = b.
Proof. destruct a, b; simpl; split; congruence. Qed.
Lemma okind_eqb_spec a b : okind_eqb a b = true <-> a = b.
Proof. destruct a, b; simpl; split; congruence. Qed.
Lemma exn_eqb_spec a b : exn_eqb a b = true <-> a = b.
Proof. destruct a, b; simpl; split; congruence. Qed.

Lemma sum_eqb_spec {A B} (ea : A -> A -> bool) (eb : B -> B -> bool) :
  (forall a b, ea a b = true <-> a = b) -> (forall a b, eb a b = true <-> a = b) ->
  forall x y, sum_eqb ea eb x y = true <-> x = y.
Proof.
  intros HA HB [a|b] [a'|b']; simpl; split; intro H; try discriminate.
  - apply HA in H. congruence.
  - injection H as ->. apply HA. reflexivity.
  - apply HB in H. congruence.
  - injection H as ->. apply HB. reflexivity.
Qed.

Lemma tags_eqb_spec a b : tags_eqb a b = true <-> a = b.
Proof. apply list_eqb_spec. exact nat_eqb_spec. Qed.

Lemma text_eqb_refl a : text_eqb a a = true. Proof. apply text_eqb_spec; reflexivity. Qed.
Lemma errv_eqb_refl a : errv_eqb a a = true. Proof. apply errv_eqb_spec; reflexivity. Qed.
Lemma details_eqb_refl a : details_eqb a a = true. Proof. apply details_eqb_spec; reflexivity. Qed.
Lemma test_eqb_refl a : test_eqb a a = true. Proof. apply test_eqb_spec; reflexivity. Qed.
Lemma ekind_eqb_refl a : ekind_eqb a a = true. Proof. apply ekind_eqb_spec; reflexivity. Qed.
Lemma okind_eqb_refl a : okind_eqb a a = true. Proof. apply okind_eqb_spec; reflexivity. Qed.
Lemma tags_eqb_refl a : tags_eqb a a = true. Proof. apply tags_eqb_spec; reflexivity. Qed.
Lemma opt_nat_eqb_refl a : option_eqb Nat.eqb a a = true.
Proof. apply (option_eqb_spec _ nat_eqb_spec); reflexivity. Qed.
Lemma opt_details_eqb_refl a : option_eqb details_eqb a a = true.
Proof. apply (option_eqb_spec _ details_eqb_spec); reflexivity. Qed.

Ltac split_andb H :=
  repeat match type of H with
         | (_ && _) = true => let H1 := fresh H in apply andb_true_iff in H as [H H1]
         end.

Lemma call_eqb_spec a b : call_eqb a b = true <-> a = b.
Proof.
  split.
  - destruct a, b; simpl; intro H; try discriminate; try reflexivity; split_andb H.
    + apply tags_eqb_spec in H, H0. congruence.
    + apply Nat.eqb_eq in H. congruence.
    + apply Nat.eqb_eq in H, H0. congruence.
    + apply test_eqb_spec in H. congruence.
    + apply test_eqb_spec in H. congruence.
    + apply ekind_eqb_spec in H. apply test_eqb_spec in H1.
      apply (sum_eqb_spec _ _ errv_eqb_spec details_eqb_spec) in H0. congruence.
    + apply test_eqb_spec in H. apply (sum_eqb_spec _ _ text_eqb_spec details_eqb_spec) in H0. congruence.
    + apply okind_eqb_spec in H. apply test_eqb_spec in H1.
      apply (option_eqb_spec _ details_eqb_spec) in H0. congruence.
  - intros <-. destruct a; simpl;
      rewrite ?tags_eqb_refl, ?Nat.eqb_refl, ?test_eqb_refl, ?ekind_eqb_refl, ?okind_eqb_refl; simpl;
      try reflexivity.
    + apply (sum_eqb_spec _ _ errv_eqb_spec details_eqb_spec). reflexivity.
    + apply (sum_eqb_spec _ _ text_eqb_spec details_eqb_spec). reflexivity.
    + apply (option_eqb_spec _ details_eqb_spec). reflexivity.
Qed.

Lemma cb_eqb_spec a b : cb_eqb a b = true <-> a = b.
Proof.
  destruct a as [t1 s1 a1 z1 g1 d1], b as [t2 s2 a2 z2 g2 d2]; unfold cb_eqb; simpl; split; intro H.
  - split_andb H.
    apply test_eqb_spec in H. apply (option_eqb_spec _ nat_eqb_spec) in H4, H3, H2.
    apply tags_eqb_spec in H1. apply (option_eqb_spec _ details_eqb_spec) in H0. congruence.
  - injection H as -> -> -> -> -> ->.
    rewrite test_eqb_refl, !opt_nat_eqb_refl, tags_eqb_refl, opt_details_eqb_refl. reflexivity.
Qed.

Lemma leaf_obs_eqb_spec a b : leaf_obs_eqb a b = true <-> a = b.
Proof.
  destruct a, b; simpl; split; intro H; try discriminate.
  - apply (list_eqb_spec _ call_eqb_spec) in H. congruence.
  - injection H as ->. apply (list_eqb_spec _ call_eqb_spec). reflexivity.
  - apply (list_eqb_spec _ cb_eqb_spec) in H. congruence.
  - injection H as ->. apply (list_eqb_spec _ cb_eqb_spec). reflexivity.
Qed.

Lemma raw_eqb_spec a b : raw_eqb a b = true <-> a = b.
Proof.
  destruct a as [l1 r1], b as [l2 r2]; unfold raw_eqb; simpl; split; intro H.
  - apply andb_true_iff in H as [H1 H2].
    apply (list_eqb_spec _ leaf_obs_eqb_spec) in H1.
    apply (list_eqb_spec _ (pair_eqb_spec _ _ nat_eqb_spec exn_eqb_spec)) in H2. congruence.
  - injection H as -> ->. apply andb_true_iff; split.
    + apply (list_eqb_spec _ leaf_obs_eqb_spec). reflexivity.
    + apply (list_eqb_spec _ (pair_eqb_spec _ _ nat_eqb_spec exn_eqb_spec)). reflexivity.
Qed.

Lemma obs_eqb_spec a b : obs_eqb a b = true <-> alpha a = alpha b.
Proof. unfold obs_eqb. apply raw_eqb_spec. Qed.

(* ================= substrings and _details_to_str ================= *)
Lemma prefixb_app p b : prefixb p (p ++ b) = true.
Proof. induction p as [|x p IH]; simpl; [reflexivity|]. rewrite Nat.eqb_refl. exact IH. Qed.

Lemma substringb_intro p a b : substringb p (a ++ p ++ b) = true.
Proof.
  induction a as [|x a IH]; simpl.
  - destruct (p ++ b) eqn:E; simpl.
    + destruct p; [reflexivity|discriminate].
    + rewrite <- E. rewrite prefixb_app. reflexivity.
  - rewrite IH. apply orb_true_r.
Qed.

Lemma prefixb_sound p s : prefixb p s = true -> exists b, s = p ++ b.
Proof.
  revert s; induction p as [|x p IH]; intros s H; simpl in *.
  - exists s; reflexivity.
  - destruct s as [|y s]; [discriminate|].
    apply andb_true_iff in H as [H1 H2]. apply Nat.eqb_eq in H1; subst y.
    destruct (IH _ H2) as [b ->]. exists b; reflexivity.
Qed.

Lemma substringb_sound p s : substringb p s = true -> Substring p s.
Proof.
  induction s as [|y s IH]; simpl; intro H.
  - rewrite orb_false_r in H. destruct (prefixb_sound _ _ H) as [b E]. exists [], b. exact E.
  - apply orb_true_iff in H as [H|H].
    + destruct (prefixb_sound _ _ H) as [b E]. exists [], b. exact E.
    + destruct (IH H) as (a & b & ->). exists (y :: a), b. reflexivity.
Qed.

Lemma substringb_complete p s : Substring p s -> substringb p s = true.
Proof. intros (a & b & ->). apply substringb_intro. Qed.

Lemma Substring_refl p : Substring p p.
Proof. exists [], []. simpl. rewrite app_nil_r. reflexivity. Qed.

Lemma Substring_wrap p x a b : Substring p x -> Substring p (a ++ x ++ b).
Proof.
  intros (u & v & ->). exists (a ++ u), (v ++ b). repeat rewrite <- app_assoc. reflexivity.
Qed.

Lemma Substring_app_r p x a : Substring p x -> Substring p (a ++ x).
Proof. intro H. rewrite <- (app_nil_r x). apply Substring_wrap. exact H. Qed.

Lemma Substring_app_l p x b : Substring p x -> Substring p (x ++ b).
Proof. intro H. apply (Substring_wrap p x [] b H). Qed.

Lemma Substring_join p x sep l : In x l -> Substring p x -> Substring p (join sep l).
Proof.
  induction l as [|y l IH]; intros Hin Hs; [destruct Hin|].
  destruct l as [|z l].
  - destruct Hin as [->|[]]. exact Hs.
  - change (join sep (y :: z :: l)) with (y ++ sep ++ join sep (z :: l)).
    destruct Hin as [->|Hin].
    + apply Substring_app_l. exact Hs.
    + apply Substring_app_r. apply Substring_app_r. apply IH; assumption.
Qed.

Lemma format_attachment_contains n t : Substring t (format_attachment n t).
Proof.
  unfold format_attachment. destruct (existsb (Nat.eqb nl) t).
  - exists (n ++ t_open ++ [nl]), ([nl] ++ t_close ++ [nl]). repeat rewrite <- app_assoc. reflexivity.
  - exists (n ++ t_open), t_close. repeat rewrite <- app_assoc. reflexivity.
Qed.

Lemma nodupb_NoDup l : nodupb l = true -> NoDup l.
Proof.
  induction l as [|x l IH]; simpl; intro H; [constructor|].
  apply andb_true_iff in H as [H1 H2]. constructor; [|apply IH; exact H2].
  intro Hin. apply negb_true_iff in H1.
  assert (existsb (text_eqb x) l = true); [|congruence].
  apply existsb_exists. exists x. split; [exact Hin|apply text_eqb_refl].
Qed.

Lemma name_eqb_spec a b : name_eqb a b = true <-> a = b.
Proof. exact (text_eqb_spec a b). Qed.

Local Arguments option_eqb : simpl never.

(* what the scan of _details_to_str keeps of a text attachment that is not blank *)
Lemma d2s_scan_keeps special ds n t :
  NoDup (map fst ds) -> In (n, DText t) ds -> strip t <> [] ->
  let '(bin, emp, txt, sp) := d2s_scan special ds in
  if option_eqb name_eqb (Some n) special
  then sp = Some (strip t ++ [nl])
  else In (format_attachment n (strip t)) txt.
Proof.
  induction ds as [|[m k] r IH]; intros Hnd Hin Hne; [destruct Hin|].
  simpl in Hnd. inversion Hnd as [|? ? Hnotin Hnd']; subst.
  simpl. destruct (d2s_scan special r) as [[[bin emp] txt] sp] eqn:E.
  destruct Hin as [Heq|Hin].
  - injection Heq as -> ->. simpl.
    destruct (strip t) eqn:Es; [congruence|].
    destruct (option_eqb name_eqb (Some n) special); simpl; [reflexivity|left; reflexivity].
  - specialize (IH Hnd' Hin Hne).
    assert (Hmn : m <> n).
    { intro; subst m. apply Hnotin. change n with (fst (n, DText t)). apply in_map. exact Hin. }
    destruct (dtext k) as [tk|]; [|exact IH].
    destruct (strip tk) eqn:Etk; [exact IH|].
    destruct (option_eqb name_eqb (Some m) special) eqn:Em; simpl.
    + destruct (option_eqb name_eqb (Some n) special) eqn:En; [|exact IH].
      exfalso. destruct special as [s|]; unfold option_eqb in Em, En; [|discriminate].
      apply name_eqb_spec in Em, En. congruence.
    + destruct (option_eqb name_eqb (Some n) special); [exact IH|right; exact IH].
Qed.

(* the text _details_to_str makes contains every text attachment that is not blank *)
Lemma details_to_str_contains ds special :
  NoDup (map fst ds) -> ContainsAll ds (details_to_str ds special).
Proof.
  intros Hnd n t Hin Hne. unfold details_to_str.
  pose proof (isort_perm detail_leb ds) as Hp.
  assert (Hnd' : NoDup (map fst (isort detail_leb ds))).
  { eapply Permutation_NoDup; [apply Permutation_map; exact Hp|exact Hnd]. }
  assert (Hin' : In (n, DText t) (isort detail_leb ds)) by (eapply Permutation_in; eassumption).
  pose proof (d2s_scan_keeps special _ n t Hnd' Hin' Hne) as K.
  destruct (d2s_scan special (isort detail_leb ds)) as [[[bin emp] txt] sp].
  set (txt1 := if negb (is_nil txt) && negb (ends_nl (last txt [])) then txt ++ [[]] else txt).
  set (txt2 := match sp with Some s => txt1 ++ [s] | None => txt1 end).
  assert (H1 : forall x, In x txt -> In x txt2).
  { intros x Hx. assert (In x txt1).
    { unfold txt1. destruct (negb (is_nil txt) && negb (ends_nl (last txt []))); [apply in_or_app; left|]; exact Hx. }
    unfold txt2. destruct sp; [apply in_or_app; left|]; assumption. }
  assert (Hsub : exists x, In x txt2 /\ Substring (strip t) x).
  { destruct (option_eqb name_eqb (Some n) special).
    - subst sp. exists (strip t ++ [nl]). split.
      + unfold txt2. apply in_or_app. right. left. reflexivity.
      + apply Substring_app_l. apply Substring_refl.
    - exists (format_attachment n (strip t)). split; [apply H1; exact K|apply format_attachment_contains]. }
  destruct Hsub as (x & Hx & Hs).
  do 3 apply Substring_app_r. eapply Substring_join; eassumption.
Qed.

Lemma contains_all_spec d s : contains_all d s = true <-> ContainsAll d s.
Proof.
  unfold contains_all, ContainsAll. rewrite forallb_forall. split.
  - intros H n t Hin Hne. specialize (H _ Hin). simpl in H.
    apply orb_true_iff in H as [H|H].
    + destruct (strip t); [congruence|discriminate].
    + apply substringb_sound. exact H.
  - intros H [n k] Hin. simpl. destruct k as [t| |]; try reflexivity.
    destruct (strip t) eqn:E; [reflexivity|]. rewrite <- E. apply orb_true_iff. right.
    apply substringb_complete. apply H with n; [exact Hin|congruence].
Qed.

(* ================= the degradation table ================= *)
Lemma details_ok_contains d sp : details_okb d = true -> contains_all d (details_to_str d sp) = true.
Proof.
  intro H. unfold details_okb in H. split_andb H.
  apply contains_all_spec. apply details_to_str_contains. apply nodupb_NoDup. exact H.
Qed.

Ltac crush_refl :=
  rewrite ?test_eqb_refl, ?errv_eqb_refl, ?details_eqb_refl, ?text_eqb_refl, ?ekind_eqb_refl, ?okind_eqb_refl,
    ?opt_details_eqb_refl.

(* what an ExtendedToOriginalDecorator sends to a result with capabilities c, for one
   startTest / outcome / stopTest, is one call, which the result has a method for, and it is the
   one the table names *)
Lemma e2o_conv_delivers c hc : is_bracket hc = true -> call_okb hc = true ->
  exists lc, e2o_conv c hc = [lc] /\ is_bracket lc = true /\ supports c lc = true /\ delivered_ok c hc lc = true.
Proof.
  intros Hb Hok.
  destruct hc as [ | | | | | t | t | k t a | t a | k t od | | ]; try discriminate Hb; clear Hb.
  - exists (StartTest t). simpl. crush_refl. auto.
  - exists (StopTest t). simpl. crush_refl. auto.
  - destruct a as [e|d].
    + destruct k; simpl; destruct (c_xfail c) eqn:X; simpl; eexists; (split; [reflexivity|]); simpl;
        rewrite ?X; crush_refl; auto.
    + assert (Hc : contains_all d (details_to_str d (Some n_traceback)) = true)
        by (apply details_ok_contains; destruct k; exact Hok).
      destruct k; simpl; destruct (c_xfail c) eqn:X; destruct (c_details c) eqn:D; simpl; eexists;
        (split; [reflexivity|]); simpl; rewrite ?X, ?D; crush_refl; rewrite ?Hc; auto.
  - destruct a as [r|d].
    + simpl; destruct (c_skip c) eqn:X; simpl; eexists; (split; [reflexivity|]); simpl;
        rewrite ?X; crush_refl; auto.
    + simpl in Hok.
      simpl; destruct (c_skip c) eqn:X; destruct (c_details c) eqn:D; simpl; eexists;
        (split; [reflexivity|]); simpl; rewrite ?X, ?D; crush_refl; auto.
      repeat split. unfold skip_reason.
      destruct (lookup n_reason d) as [[r| |]|] eqn:L; simpl; crush_refl; auto.
      apply details_ok_contains. exact Hok.
  - destruct k, od as [d|]; simpl; destruct (c_uxs c) eqn:X; destruct (c_details c) eqn:D; simpl; eexists;
      (split; [reflexivity|]); simpl; rewrite ?X, ?D; crush_refl; auto.
Qed.

Definition blog (c : caps) (l : list call) : list call := bracket (target_log c l).

Lemma bracket_app a b : bracket (a ++ b) = bracket a ++ bracket b.
Proof. apply filter_app. Qed.

Lemma blog_app c a b : blog c (a ++ b) = blog c a ++ blog c b.
Proof. unfold blog, target_log, bracket. rewrite !filter_app. reflexivity. Qed.

Lemma e2o_conv_noise c hc : is_bracket hc = false -> bracket (e2o_conv c hc) = [].
Proof.
  destruct hc; try discriminate; intros _; simpl;
    repeat match goal with |- context [if ?b then _ else _] => destruct b end; reflexivity.
Qed.

Lemma blog_nil_of_bracket_nil c l : bracket l = [] -> blog c l = [].
Proof.
  unfold blog, target_log, bracket. induction l as [|x l IH]; simpl; [reflexivity|].
  destruct (is_bracket x) eqn:B; [discriminate|]. intro H.
  destruct (supports c x); simpl; rewrite ?B; apply IH; exact H.
Qed.

Lemma multi_conv_bracket ci hc : bracket (multi_conv ci hc) = bracket (e2o_conv ci hc).
Proof. destruct hc; try reflexivity. simpl. destruct (c_progress ci); reflexivity. Qed.

Lemma multi_conv_blog c ci hc : blog c (multi_conv ci hc) = blog c (e2o_conv ci hc).
Proof.
  destruct hc; try reflexivity. unfold blog. simpl. destruct (c_progress ci); [|reflexivity].
  simpl. destruct (c_progress c); reflexivity.
Qed.

(* directly below an ExtendedToOriginalDecorator (or as a member of a MultiTestResult): any result *)
Lemma e2o_layer_delivers c h : forallb call_okb (bracket h) = true ->
  forall2b (delivered_ok c) (bracket h) (blog c (flat_map (e2o_conv c) h)) = true.
Proof.
  induction h as [|hc h IH]; intro Hok; [reflexivity|].
  simpl flat_map. rewrite blog_app. unfold bracket at 1. simpl filter. fold (bracket h).
  destruct (is_bracket hc) eqn:B.
  - unfold bracket in Hok. simpl in Hok. rewrite B in Hok. simpl in Hok.
    apply andb_true_iff in Hok as [Hc Hr].
    destruct (e2o_conv_delivers c hc B Hc) as (lc & -> & Bl & Sl & Dl).
    unfold blog at 1, target_log, bracket. simpl. rewrite Sl. simpl. rewrite Bl. simpl.
    rewrite Dl. apply IH. exact Hr.
  - rewrite (blog_nil_of_bracket_nil c _ (e2o_conv_noise c hc B)). simpl. apply IH.
    unfold bracket in Hok. simpl in Hok. rewrite B in Hok. exact Hok.
Qed.

Lemma flat_map_blog_ext c (f g : call -> list call) h :
  (forall x, blog c (f x) = blog c (g x)) -> blog c (flat_map f h) = blog c (flat_map g h).
Proof.
  intro H. induction h as [|x h IH]; [reflexivity|]. simpl. rewrite !blog_app, H, IH. reflexivity.
Qed.

Lemma multi_layer_delivers c h : forallb call_okb (bracket h) = true ->
  forall2b (delivered_ok c) (bracket h) (blog c (flat_map (multi_conv c) h)) = true.
Proof.
  intro Hok. rewrite (flat_map_blog_ext c (multi_conv c) (e2o_conv c)).
  - apply e2o_layer_delivers. exact Hok.
  - intro x. apply multi_conv_blog.
Qed.

(* a layer above something that accepts every outcome with details passes startTest / outcome /
   stopTest on unchanged *)
Definition oext (c : caps) : bool := c_skip c && c_xfail c && c_uxs c && c_details c.

Lemma e2o_conv_transparent ci hc : oext ci = true -> bracket (e2o_conv ci hc) = bracket [hc].
Proof.
  unfold oext. intro H. split_andb H.
  destruct hc as [ | | | | | t | t | k t a | t a | k t od | | ].
  1-5, 11-12: simpl; repeat match goal with |- context [if ?b then _ else _] => destruct b end; reflexivity.
  - reflexivity.
  - reflexivity.
  - destruct k, a; simpl; rewrite ?H2, ?H0; reflexivity.
  - destruct a; simpl; rewrite ?H, ?H0; reflexivity.
  - destruct k, od; simpl; rewrite ?H1, ?H0; reflexivity.
Qed.

Lemma layer_conv_transparent l ci hc : oext ci = true -> bracket (layer_conv l ci hc) = bracket [hc].
Proof.
  intro H. destruct l; simpl.
  - apply e2o_conv_transparent; exact H.
  - rewrite multi_conv_bracket. apply e2o_conv_transparent; exact H.
  - destruct hc; reflexivity.
  - destruct hc; reflexivity.
Qed.

Lemma flat_map_bracket (f : call -> list call) h :
  (forall x, bracket (f x) = bracket [x]) -> bracket (flat_map f h) = bracket h.
Proof.
  intro H. induction h as [|x h IH]; [reflexivity|]. simpl flat_map. rewrite bracket_app, H, IH.
  change (x :: h) with ([x] ++ h). rewrite bracket_app. reflexivity.
Qed.

(* a result that speaks the whole extended protocol, called without conversion *)
Lemma direct_delivers c h : ext_caps c = true ->
  forall2b (delivered_ok c) (bracket h) (blog c h) = true.
Proof.
  unfold ext_caps. intro H. split_andb H.
  induction h as [|hc h IH]; [reflexivity|].
  change (hc :: h) with ([hc] ++ h). rewrite blog_app, bracket_app.
  assert (K : blog c [hc] = bracket [hc] /\
              (is_bracket hc = true -> delivered_ok c hc hc = true)).
  { unfold blog, target_log, bracket.
    destruct hc as [ | | | | | t | t | k t a | t a | k t od | | ];
      try (destruct k); try (destruct a); try (destruct od); simpl;
      rewrite ?H, ?H0, ?H1, ?H2, ?H3, ?H4, ?H5, ?H6, ?H7; simpl; crush_refl;
      (split; [try reflexivity|intro; try discriminate; try reflexivity]).
    destruct (c_progress c); reflexivity. }
  destruct K as [K1 K2]. rewrite K1.
  unfold bracket at 1 3. simpl. destruct (is_bracket hc) eqn:B; simpl; [|exact IH].
  rewrite (K2 eq_refl). exact IH.
Qed.

(* ================= paths of a well-formed stack ================= *)
Definition leaf_ext (lf : leaf) : bool := match lf with LfTarget c => ext_caps c | LfByTest _ => true end.
(* the object a path starts with speaks the extended protocol *)
Definition pext (ls : list layer) (lf : leaf) : bool := match ls with [] => leaf_ext lf | _ => true end.
(* every TestResultDecorator / Tagger on the path decorates something that does *)
Fixpoint pwf (ls : list layer) (lf : leaf) : bool :=
  match ls with
  | [] => true
  | LDeco :: r | LTagger _ _ :: r => pext r lf && pwf r lf
  | _ :: r => pwf r lf
  end.

(* induction on the adapter tree, with the hypothesis for every member of a MultiTestResult *)
Section AdapterInd.
  Variable P : adapter -> Prop.
  Hypothesis HT : forall c, P (Target c).
  Hypothesis HB : forall bad, P (ByTest bad).
  Hypothesis HE : forall a, P a -> P (E2O a).
  Hypothesis HM : forall l, (forall a, In a l -> P a) -> P (Multi l).
  Hypothesis HD : forall a, P a -> P (Deco a).
  Hypothesis HG : forall n g a, P a -> P (Tagger n g a).
  Fixpoint adapter_ind' (a : adapter) : P a :=
    match a with
    | Target c => HT c
    | ByTest bad => HB bad
    | E2O a' => HE a' (adapter_ind' a')
    | Multi l =>
        HM l ((fix go (l : list adapter) : forall a, In a l -> P a :=
                 match l with
                 | [] => fun a H => match H with end
                 | x :: r => fun a H => match H with
                                        | or_introl e => eq_ind x P (adapter_ind' x) a e
                                        | or_intror H' => go r a H'
                                        end
                 end) l)
    | Deco a' => HD a' (adapter_ind' a')
    | Tagger n g a' => HG n g a' (adapter_ind' a')
    end.
End AdapterInd.

Lemma paths_wf a : wf_stack a = true ->
  forall p, In p (paths a) ->
    pwf (fst p) (snd p) = true /\ (ext_ok a = true -> pext (fst p) (snd p) = true).
Proof.
  induction a as [c|bad|a IH|l IH|a IH|n g a IH] using adapter_ind'; simpl; intros Hwf p Hin.
  - destruct Hin as [<-|[]]. simpl. auto.
  - destruct Hin as [<-|[]]. simpl. auto.
  - apply in_map_iff in Hin as (q & <- & Hq). destruct (IH Hwf q Hq) as [H1 _]. simpl. auto.
  - apply andb_true_iff in Hwf as [_ Hwf]. rewrite forallb_forall in Hwf.
    apply in_flat_map in Hin as (a & Ha & Hin).
    apply in_map_iff in Hin as (q & <- & Hq). destruct (IH a Ha (Hwf a Ha) q Hq) as [H1 _]. simpl. auto.
  - apply andb_true_iff in Hwf as [He Hwf].
    apply in_map_iff in Hin as (q & <- & Hq). destruct (IH Hwf q Hq) as [H1 H2]. simpl.
    rewrite (H2 He), H1. auto.
  - apply andb_true_iff in Hwf as [He Hwf].
    apply in_map_iff in Hin as (q & <- & Hq). destruct (IH Hwf q Hq) as [H1 H2]. simpl.
    rewrite (H2 He), H1. auto.
Qed.

(* the tag changes of the Taggers on a path, innermost first *)
Fixpoint ptaggers (ls : list layer) : list tag_change :=
  match ls with
  | [] => []
  | LTagger n g :: r => ptaggers r ++ [(n, g)]
  | _ :: r => ptaggers r
  end.
Definition spec_of_path (p : path) : leaf * list tag_change := (snd p, ptaggers (fst p)).

Lemma spec_leaves_paths a : spec_leaves a = map spec_of_path (paths a).
Proof.
  induction a as [c|bad|a IH|l IH|a IH|n g a IH] using adapter_ind'; simpl; try reflexivity.
  - rewrite IH, map_map. reflexivity.
  - induction l as [|x l IHl]; [reflexivity|]. simpl. rewrite map_app, map_map.
    rewrite (IH x (or_introl eq_refl)). f_equal. apply IHl. intros a Ha. apply IH. right; exact Ha.
  - rewrite IH, map_map. reflexivity.
  - rewrite IH, !map_map. reflexivity.
Qed.

Lemma piface_oext l r lf : oext (piface (l :: r) lf) = true.
Proof. destruct l; reflexivity. Qed.

(* startTest / outcome / stopTest at a logging result below any well-formed path: each once, in
   order, in the form the table gives for the capabilities of that result *)
Lemma target_path_delivers c ls : forall h,
  pwf ls (LfTarget c) = true -> pext ls (LfTarget c) = true -> forallb call_okb (bracket h) = true ->
  forall2b (delivered_ok c) (bracket h) (blog c (through ls (LfTarget c) h)) = true.
Proof.
  induction ls as [|l r IH]; intros h Hwf Hext Hok.
  - simpl in *. apply direct_delivers. exact Hext.
  - simpl through. destruct r as [|l2 r'].
    + simpl through. simpl piface.
      destruct l; simpl layer_conv.
      * apply e2o_layer_delivers. exact Hok.
      * apply multi_layer_delivers. exact Hok.
      * simpl in Hwf. rewrite andb_true_r in Hwf.
        rewrite <- (flat_map_bracket deco_conv h) at 1 by (intro x; destruct x; reflexivity).
        apply direct_delivers. exact Hwf.
      * simpl in Hwf. rewrite andb_true_r in Hwf.
        rewrite <- (flat_map_bracket (tagger_conv new gone) h) at 1 by (intro x; destruct x; reflexivity).
        apply direct_delivers. exact Hwf.
    + set (h' := flat_map (layer_conv l (piface (l2 :: r') (LfTarget c))) h).
      assert (Hb : bracket h' = bracket h).
      { apply flat_map_bracket. intro x. apply layer_conv_transparent. apply piface_oext. }
      rewrite <- Hb. apply IH.
      * destruct l; simpl in Hwf; try exact Hwf; apply andb_true_iff in Hwf as [_ Hwf]; exact Hwf.
      * reflexivity.
      * rewrite Hb. exact Hok.
Qed.

(* ================= TestByTestResult ================= *)
(* calls a TestByTestResult does nothing with *)
Definition relevant (c : call) : bool := match c with Progress _ _ | Stop | Done => false | _ => true end.
Definition sig (l : list call) : list call := filter relevant l.
Definition tag_calls (tg : list tag_change) : list call := map (fun ch => Tags (fst ch) (snd ch)) tg.
Definition inject1 (tg : list tag_change) (c : call) : list call :=
  match c with StartTest _ => c :: tag_calls tg | _ => [c] end.
(* the history with the Taggers' tags() calls put after every startTest *)
Definition inject (tg : list tag_change) (h : list call) : list call := flat_map (inject1 tg) h.

Lemma sig_app a b : sig (a ++ b) = sig a ++ sig b.
Proof. apply filter_app. Qed.
Lemma inject_app tg a b : inject tg (a ++ b) = inject tg a ++ inject tg b.
Proof. apply flat_map_app. Qed.

Lemma inject_nil h : inject [] h = h.
Proof. induction h as [|c h IH]; [reflexivity|]. simpl. rewrite IH. destruct c; reflexivity. Qed.

Lemma sig_tag_calls tg : sig (tag_calls tg) = tag_calls tg.
Proof. induction tg as [|x tg IH]; [reflexivity|]. simpl. f_equal. exact IH. Qed.

Lemma sig_inject tg h : sig (inject tg h) = inject tg (sig h).
Proof.
  induction h as [|c h IH]; [reflexivity|]. simpl. rewrite sig_app, IH.
  destruct c; simpl; try reflexivity. rewrite sig_tag_calls. reflexivity.
Qed.

Lemma flat_map_sig_inject tg tg2 (f : call -> list call) h :
  (forall c, sig (inject tg (f c)) = sig (inject tg2 [c])) ->
  sig (inject tg (flat_map f h)) = sig (inject tg2 h).
Proof.
  intro H. induction h as [|c h IH]; [reflexivity|].
  simpl flat_map. rewrite inject_app, sig_app, H, IH.
  change (c :: h) with ([c] ++ h). rewrite inject_app, sig_app. reflexivity.
Qed.

(* has everything a TestByTestResult reacts to *)
Definition tcaps (c : caps) : bool := oext c && c_startrun c && c_stoprun c && c_tags c && c_time c.

Lemma e2o_conv_sig ci c : tcaps ci = true -> sig (e2o_conv ci c) = sig [c].
Proof.
  unfold tcaps, oext. intro H. split_andb H.
  destruct c as [ | | | | | t | t | k t a | t a | k t od | | ];
    try (destruct k); try (destruct a); try (destruct od); simpl;
    rewrite ?H, ?H0, ?H1, ?H2, ?H3, ?H4, ?H5, ?H6; try reflexivity;
    repeat match goal with |- context [if ?b then _ else _] => destruct b end; reflexivity.
Qed.

Lemma piface_tcaps bad r : tcaps (piface r (LfByTest bad)) = true.
Proof. destruct r as [|[]]; reflexivity. Qed.

Lemma through_bytest bad ls : forall h,
  sig (through ls (LfByTest bad) h) = sig (inject (ptaggers ls) h).
Proof.
  induction ls as [|l r IH]; intro h.
  - simpl. rewrite inject_nil. reflexivity.
  - simpl through. rewrite IH.
    pose proof (piface_tcaps bad r) as Hc. set (ci := piface r (LfByTest bad)) in *.
    apply flat_map_sig_inject. intro c.
    destruct l; simpl ptaggers; simpl layer_conv.
    + rewrite !sig_inject, (e2o_conv_sig ci c Hc). reflexivity.
    + rewrite !sig_inject. destruct c; unfold multi_conv; try (rewrite (e2o_conv_sig ci _ Hc); reflexivity). reflexivity.
    + destruct c; reflexivity.
    + destruct c; try reflexivity. simpl. unfold tag_calls. rewrite map_app. simpl.
      rewrite !app_nil_r. reflexivity.
Qed.

Lemma bt_run_sig l : forall s, bt_run s (sig l) = bt_run s l.
Proof.
  induction l as [|c l IH]; intro s; [reflexivity|].
  destruct c; simpl; rewrite ?IH; reflexivity.
Qed.

(* the status words are the documented ones (table obligation on Gen/Bytest.v) *)
Lemma bt_words_documented :
  (forall k t a, Some (bt_word_err k) = word_of (AddErr k t a))
  /\ (forall t a, Some Gen.Bytest.bt_word_addSkip = word_of (AddSkip t a))
  /\ (forall k t d, Some (bt_word_ok k) = word_of (AddOk k t d)).
Proof. repeat split; intros; try destruct k; reflexivity. Qed.

Definition bt_with_cur (b : bt) (cur : list tag) : bt :=
  {| b_cur := cur; b_parents := b_parents b; b_now := b_now b; b_start := b_start b;
     b_status := b_status b; b_details := b_details b |}.

Lemma bt_run_tag_calls tg : forall b rest,
  bt_run b (tag_calls tg ++ rest) = bt_run (bt_with_cur b (apply_changes (b_cur b) tg)) rest.
Proof.
  induction tg as [|[n g] tg IH]; intros b rest.
  - destruct b; reflexivity.
  - simpl. rewrite IH. reflexivity.
Qed.

(* the TagContext chain against the two-level reading *)
Definition R (p : phase) (b : bt) (s : sst) : Prop :=
  b_now b = s_now s /\ b_start b = s_start s /\ b_status b = s_word s /\ b_details b = s_det s /\
  match p with
  | Outside => s_loc s = None /\ b_cur b = s_glob s /\ b_parents b = []
  | _ => s_loc s = Some (b_cur b) /\ b_parents b = [s_glob s]
  end.

Lemma bytest_simulation tg h : forall p b s,
  R p b s -> bracketed_from p h = true -> bt_run b (inject tg h) = expected_cbs tg s h.
Proof.
  destruct bt_words_documented as (We & Ws & Wo).
  induction h as [|c h IH]; intros p b s HR Hb; [reflexivity|].
  destruct b as [cur par now st wd dt], s as [gl lo snow sst swd sdt].
  unfold R in HR; simpl in HR. destruct HR as (E1 & E2 & E3 & E4 & E5). subst snow sst swd sdt.
  destruct p; simpl in E5;
    [destruct E5 as (-> & -> & ->) | destruct E5 as (-> & ->) | destruct E5 as (-> & ->)];
    destruct c as [ | | n g | tm | o w | t' | t' | k t' a | t' a | k t' od | | ];
    simpl in Hb; try discriminate Hb;
    try (apply andb_true_iff in Hb as [_ Hb]);
    simpl; rewrite ?bt_run_tag_calls; simpl;
    match goal with |- _ :: _ = _ :: _ => f_equal | _ => idtac end;
    match type of Hb with bracketed_from ?q _ = true => apply (IH q); [|exact Hb] end;
    unfold R, bt_with_cur; simpl; repeat split; try reflexivity; auto;
    try (destruct a; reflexivity);
    try (apply (We k t' a)); try (apply (Wo k t' None)).
Qed.

Lemma bytest_path_callbacks bad ls h : bracketed_from Outside h = true ->
  bt_run bt_init (through ls (LfByTest bad) h) = expected_cbs (ptaggers ls) sst_init h.
Proof.
  intro Hb. rewrite <- bt_run_sig, through_bytest, bt_run_sig.
  apply bytest_simulation with Outside; [|exact Hb].
  unfold R; simpl. repeat split; reflexivity.
Qed.

Lemma subsetb_refl a : subsetb a a = true.
Proof.
  unfold subsetb. apply forallb_forall. intros x Hx. apply existsb_exists. exists x.
  split; [exact Hx|apply Nat.eqb_refl].
Qed.

Lemma cb_ok_refl c : cb_ok c c = true.
Proof.
  unfold cb_ok, set_eqb.
  rewrite test_eqb_refl, !opt_nat_eqb_refl, subsetb_refl, opt_details_eqb_refl. reflexivity.
Qed.

Lemma forall2b_refl {A} (p : A -> A -> bool) l : (forall x, p x x = true) -> forall2b p l l = true.
Proof. intro H. induction l as [|x l IH]; simpl; [reflexivity|]. rewrite H, IH. reflexivity. Qed.

Lemma forall2b_map {A B C} (p : B -> C -> bool) (f : A -> B) (g : A -> C) l :
  (forall x, In x l -> p (f x) (g x) = true) -> forall2b p (map f l) (map g l) = true.
Proof.
  induction l as [|x l IH]; intro H; simpl; [reflexivity|].
  rewrite (H x (or_introl eq_refl)). apply IH. intros y Hy. apply H. right; exact Hy.
Qed.

(* ================= raising calls ================= *)
Lemma raises_only a c e : raises a c = Some e ->
  e = AttributeError /\ (c = Done \/ exists o w, c = Progress o w).
Proof.
  destruct c; try (destruct a; discriminate).
  - (* progress *) intro H. split; [|right; eauto].
    induction a as [cp|bad|a IH|l|a IH|n g a IH]; simpl in H.
    + destruct (c_progress cp); congruence.
    + congruence.
    + destruct (c_progress (iface a)); [apply IH; exact H|discriminate].
    + congruence.
    + apply IH; exact H.
    + apply IH; exact H.
  - (* done *) intro H. split; [|left; reflexivity].
    destruct a as [cp|bad|a|l|a|n g a]; simpl in H; try congruence.
    destruct (c_done cp); congruence.
Qed.

Lemma existsb_map {A B} (f : B -> bool) (g : A -> B) l : existsb f (map g l) = existsb (fun x => f (g x)) l.
Proof. induction l as [|x l IH]; simpl; [reflexivity|]. rewrite IH. reflexivity. Qed.

Lemma spec_leaves_leaves a : map fst (spec_leaves a) = map snd (paths a).
Proof. rewrite spec_leaves_paths, map_map. reflexivity. Qed.

(* what comes out of a stopTest is what the on_test of one of the TestByTestResults raises for that test *)
Lemma aborts_only a c : aborts (paths a) c = true ->
  exists t, c = StopTest t /\ bad_for (map fst (spec_leaves a)) t = true.
Proof.
  destruct c; simpl; try discriminate. intro H. exists t. split; [reflexivity|].
  unfold bad_for. rewrite spec_leaves_leaves, existsb_map. exact H.
Qed.

Lemma raised_from_ok a h' : forall pre,
  raised_okb (map fst (spec_leaves a)) (pre ++ h') (raised_from a (length pre) h') = true.
Proof.
  induction h' as [|c r IH]; intro pre; [reflexivity|].
  assert (Hrest : raised_okb (map fst (spec_leaves a)) (pre ++ c :: r) (raised_from a (S (length pre)) r) = true).
  { specialize (IH (pre ++ [c])). rewrite <- app_assoc, app_length in IH. simpl in IH.
    rewrite Nat.add_1_r in IH. exact IH. }
  simpl. destruct (raises a c) as [e|] eqn:E.
  - destruct (raises_only _ _ _ E) as [-> Hc].
    unfold raised_okb. simpl. rewrite nth_error_app2, Nat.sub_diag by apply Nat.le_refl. simpl.
    fold (raised_okb (map fst (spec_leaves a)) (pre ++ c :: r) (raised_from a (S (length pre)) r)). rewrite Hrest.
    destruct Hc as [->|(o & w & ->)]; reflexivity.
  - destruct (aborts (paths a) c) eqn:A; [|exact Hrest].
    destruct (aborts_only _ _ A) as (t & -> & Hb).
    unfold raised_okb. simpl. rewrite nth_error_app2, Nat.sub_diag by apply Nat.le_refl. simpl.
    fold (raised_okb (map fst (spec_leaves a)) (pre ++ StopTest t :: r) (raised_from a (S (length pre)) r)).
    rewrite Hrest, Hb. reflexivity.
Qed.

(* ================= results dispatched to after a faulty on_test (excluded by wf) ================= *)
Lemma existsb_false_In {A} (f : A -> bool) l : existsb f l = false -> forall x, In x l -> f x = false.
Proof.
  induction l as [|y l IH]; simpl; intros H x Hx; [destruct Hx|].
  apply orb_false_iff in H as [H1 H2]. destruct Hx as [<-|Hx]; [exact H1|apply IH; assumption].
Qed.

Lemma abort_reaches_before (before : list path) (p : path) (r : list path) t :
  abort_reaches (map snd (before ++ p :: r)) t = false -> existsb (fun q => leaf_bad (snd q) t) before = false.
Proof.
  induction before as [|q before IH]; simpl; intro H; [reflexivity|].
  apply orb_false_iff in H as [H1 H2]. rewrite (IH H2), orb_false_r.
  destruct (leaf_bad (snd q) t); [|reflexivity].
  exfalso. clear IH H2. destruct before; simpl in H1; discriminate H1.
Qed.

(* no stopTest of the history is for a test that a TestByTestResult with a result after it raises for *)
Definition clean (ps : list path) (h : list call) : Prop :=
  forall t, In (StopTest t) h -> abort_reaches (map snd ps) t = false.

Lemma reaching_clean (before : list path) (p : path) (r : list path) h : clean (before ++ p :: r) h -> reaching before h = h.
Proof.
  intro Hc. unfold reaching. induction h as [|c h IH]; [reflexivity|]. simpl.
  assert (A : aborts before c = false).
  { destruct c; try reflexivity. simpl. eapply abort_reaches_before. apply Hc. left; reflexivity. }
  rewrite A. simpl. f_equal. apply IH. intros t Ht. apply Hc. right; exact Ht.
Qed.

Lemma run_leaves_clean rest : forall before h, clean (before ++ rest) h ->
  run_leaves before rest h = map (leaf_run h) rest.
Proof.
  induction rest as [|p r IH]; intros before h Hc; [reflexivity|].
  simpl. rewrite (reaching_clean before p r h Hc). f_equal.
  apply IH. rewrite <- app_assoc. exact Hc.
Qed.

Lemma no_sibling_clean i : fault_reaches_sibling i = false -> clean (paths (stack i)) (hist i).
Proof.
  unfold fault_reaches_sibling, clean. intros H t Ht.
  pose proof (existsb_false_In _ _ H _ Ht) as K. simpl in K.
  rewrite spec_leaves_leaves in K. exact K.
Qed.

(* ================= a call that raises delivers nothing ================= *)
(* [run] pushes every call of the history through every path, including those that raise at the
   top: that is right because such a call reaches no log and no TestByTestResult *)
Lemma through_nil ls lf : through ls lf [] = [].
Proof. induction ls as [|l r IH]; [reflexivity|]. simpl. exact IH. Qed.

Lemma through_app ls lf : forall h1 h2, through ls lf (h1 ++ h2) = through ls lf h1 ++ through ls lf h2.
Proof.
  induction ls as [|l r IH]; intros h1 h2; [reflexivity|]. simpl. rewrite flat_map_app. apply IH.
Qed.

Lemma piface_paths a p : In p (paths a) -> piface (fst p) (snd p) = iface a.
Proof.
  destruct a as [c|bad|a|l|a|n g a]; simpl; intro H.
  - destruct H as [<-|[]]. reflexivity.
  - destruct H as [<-|[]]. reflexivity.
  - apply in_map_iff in H as (q & <- & _). reflexivity.
  - apply in_flat_map in H as (x & _ & H). apply in_map_iff in H as (q & <- & _). reflexivity.
  - apply in_map_iff in H as (q & <- & _). reflexivity.
  - apply in_map_iff in H as (q & <- & _). reflexivity.
Qed.

Definition silent (lf : leaf) (cs : list call) : Prop :=
  match lf with
  | LfTarget cp => target_log cp cs = []
  | LfByTest _ => sig cs = []
  end.

Lemma through_done ls lf : silent lf (through ls lf [Done]).
Proof.
  induction ls as [|l r IH].
  - destruct lf; reflexivity.
  - simpl through. rewrite app_nil_r.
    assert (H : layer_conv l (piface r lf) Done = [] \/ layer_conv l (piface r lf) Done = [Done]).
    { destruct l; simpl; try (destruct (c_done (piface r lf))); auto. }
    destruct H as [-> | ->]; [|exact IH]. rewrite through_nil. destruct lf; reflexivity.
Qed.

Lemma raising_call_delivers_nothing a c e : raises a c = Some e ->
  forall p, In p (paths a) -> silent (snd p) (through (fst p) (snd p) [c]).
Proof.
  intro H. destruct (raises_only _ _ _ H) as [_ [->|(o & w & ->)]].
  - intros p _. apply through_done.
  - revert H. induction a as [cp|bad|a IH|l IH|a IH|n g a IH] using adapter_ind'; simpl; intros H p Hin.
    + destruct Hin as [<-|[]]. simpl. destruct (c_progress cp); [discriminate|reflexivity].
    + destruct Hin as [<-|[]]. reflexivity.
    + apply in_map_iff in Hin as (q & <- & Hq). simpl. rewrite app_nil_r.
      rewrite (piface_paths a q Hq). destruct (c_progress (iface a)); [|discriminate].
      apply IH; assumption.
    + apply in_flat_map in Hin as (x & _ & Hin). apply in_map_iff in Hin as (q & <- & _).
      simpl. rewrite through_nil. destruct (snd q); reflexivity.
    + apply in_map_iff in Hin as (q & <- & Hq). simpl. apply IH; assumption.
    + apply in_map_iff in Hin as (q & <- & Hq). simpl. apply IH; assumption.
Qed.

(* ================= the model meets the statement ================= *)
Lemma forallb_filter {A} (p q : A -> bool) l : forallb p l = true -> forallb p (filter q l) = true.
Proof.
  induction l as [|x l IH]; simpl; intro H; [reflexivity|].
  apply andb_true_iff in H as [H1 H2]. destruct (q x); simpl; [rewrite H1|]; apply IH; exact H2.
Qed.

Lemma path_meets_spec a h p :
  ext_ok a = true -> wf_stack a = true -> forallb call_okb h = true -> bracketed_from Outside h = true ->
  In p (paths a) -> leaf_okb h (spec_of_path p) (leaf_run h p) = true.
Proof.
  intros He Hwf Hok Hb Hin. destruct (paths_wf a Hwf p Hin) as [Hp Hx]. specialize (Hx He).
  destruct p as [ls [c|bad]]; unfold leaf_okb, leaf_run, spec_of_path; simpl in *.
  - apply (target_path_delivers c ls h Hp Hx). apply forallb_filter. exact Hok.
  - rewrite bytest_path_callbacks by exact Hb. apply forall2b_refl. exact cb_ok_refl.
Qed.

Lemma wf_parts i : wf i ->
  ext_ok (stack i) = true /\ wf_stack (stack i) = true /\ forallb call_okb (hist i) = true
  /\ bracketed_from Outside (hist i) = true /\ fault_reaches_sibling i = false.
Proof.
  unfold wf, wfb. intro H. repeat (apply andb_true_iff in H as [H ?]).
  repeat split; try assumption. apply negb_true_iff. assumption.
Qed.

Theorem model_meets_spec i : wf i -> spec_okb i (model i) = true.
Proof.
  intro H. destruct (wf_parts i H) as (He & Hw & Hc & Hb & NF).
  unfold spec_okb, model, run. simpl. apply andb_true_iff. split.
  - exact (raised_from_ok (stack i) (hist i) []).
  - rewrite (run_leaves_clean _ [] _ (no_sibling_clean i NF)).
    rewrite spec_leaves_paths. apply forall2b_map. intros p Hp.
    apply (path_meets_spec (stack i)); assumption.
Qed.

(* ================= the executable statement implies the readable one ================= *)
Lemma forall2b_Forall2 {A B} (p : A -> B -> bool) (P : A -> B -> Prop) :
  (forall a b, p a b = true -> P a b) -> forall l m, forall2b p l m = true -> Forall2 P l m.
Proof.
  intros H l. induction l as [|a l IH]; intros [|b m] E; simpl in E; try discriminate; constructor.
  - apply H. apply andb_true_iff in E as [E _]. exact E.
  - apply IH. apply andb_true_iff in E as [_ E]. exact E.
Qed.

Lemma delivered_ok_sound c hc lc : delivered_ok c hc lc = true -> Delivered c hc lc.
Proof.
  destruct hc as [ | | | | | t | t | k t a | t a | k t od | | ]; simpl; try discriminate.
  - destruct lc; try discriminate. intro H. apply test_eqb_spec in H; subst. constructor.
  - destruct lc; try discriminate. intro H. apply test_eqb_spec in H; subst. constructor.
  - destruct (has_err c k) eqn:Hk.
    + destruct lc as [ | | | | | | | k' t' a' | | | | ]; try discriminate. intro H. split_andb H.
      apply ekind_eqb_spec in H. apply test_eqb_spec in H1. subst k' t'.
      destruct a as [e|d], a' as [e'|d']; try discriminate.
      * apply errv_eqb_spec in H0. subst. constructor. exact Hk.
      * destruct e'; try discriminate. apply andb_true_iff in H0 as [D C].
        apply negb_true_iff in D. apply contains_all_spec in C. constructor; assumption.
      * apply andb_true_iff in H0 as [D E]. apply details_eqb_spec in E. subst. constructor; assumption.
    + destruct lc as [ | | | | | | | | | k' t' od' | | ]; try discriminate.
      destruct k'; try discriminate. destruct od'; try discriminate.
      intro H. apply test_eqb_spec in H. subst.
      destruct k; simpl in Hk; try discriminate. constructor. exact Hk.
  - destruct (c_skip c) eqn:Hs.
    + destruct lc as [ | | | | | | | | t' a' | | | ]; try discriminate. intro H. split_andb H.
      apply test_eqb_spec in H. subst t'.
      destruct a as [r|d], a' as [r'|d']; try discriminate.
      * apply text_eqb_spec in H0. subst. constructor. exact Hs.
      * apply andb_true_iff in H0 as [D C]. apply negb_true_iff in D.
        destruct (lookup n_reason d) as [k|] eqn:L.
        -- destruct k as [r| |].
           ++ apply text_eqb_spec in C. subst. apply D_skip_key; assumption.
           ++ eapply D_skip_odd; try eassumption. intros r Hr. discriminate.
           ++ eapply D_skip_odd; try eassumption. intros r Hr. discriminate.
        -- apply contains_all_spec in C. apply D_skip_str; assumption.
      * apply andb_true_iff in H0 as [D E]. apply details_eqb_spec in E. subst. constructor; assumption.
    + destruct lc as [ | | | | | | | | | k' t' od' | | ]; try discriminate.
      destruct k'; try discriminate. destruct od'; try discriminate.
      intro H. apply test_eqb_spec in H. subst. constructor. exact Hs.
  - destruct (has_ok c k) eqn:Hk.
    + destruct lc as [ | | | | | | | | | k' t' od' | | ]; try discriminate. intro H. split_andb H.
      apply okind_eqb_spec in H. apply test_eqb_spec in H1. subst k' t'.
      destruct (c_details c) eqn:D.
      * apply orb_true_iff in H0 as [E|E].
        -- apply (option_eqb_spec _ details_eqb_spec) in E. subst. constructor; assumption.
        -- destruct k; try discriminate. destruct od as [[|]|]; try discriminate.
           destruct od'; try discriminate. apply D_ok_empty. exact D.
      * destruct od'; try discriminate. apply D_ok_plain; assumption.
    + destruct lc as [ | | | | | | | k' t' a' | | | | ]; try discriminate.
      destruct k'; try discriminate. destruct a' as [e|]; try discriminate. destruct e; try discriminate.
      intro H. apply test_eqb_spec in H. subst.
      destruct k; simpl in Hk; try discriminate. constructor. exact Hk.
Qed.

Lemma subsetb_spec a b : subsetb a b = true -> forall x, In x a -> In x b.
Proof.
  unfold subsetb. rewrite forallb_forall. intros H x Hx. specialize (H x Hx).
  apply existsb_exists in H as (y & Hy & E). apply Nat.eqb_eq in E. subst. exact Hy.
Qed.

Lemma cb_ok_sound e c : cb_ok e c = true -> CbSpec e c.
Proof.
  unfold cb_ok, CbSpec, set_eqb. intro H. split_andb H.
  apply test_eqb_spec in H. apply (option_eqb_spec _ nat_eqb_spec) in H4, H3, H2.
  apply andb_true_iff in H1 as [S1 S2]. apply (option_eqb_spec _ details_eqb_spec) in H0.
  repeat split; try assumption; apply subsetb_spec; assumption.
Qed.

Lemma raised_okb_sound ls h r : raised_okb ls h r = true -> RaisedSpec ls h r.
Proof.
  unfold raised_okb, RaisedSpec. rewrite forallb_forall. intros H j e Hin.
  specialize (H _ Hin). simpl in H.
  destruct (nth_error h j) as [[ | | | |o w| |t| | | | | ]|]; try discriminate.
  - left. apply exn_eqb_spec in H. split; [exact H|]. right. eauto.
  - right. apply andb_true_iff in H as [H1 H2]. apply exn_eqb_spec in H1. split; [exact H1|]. eauto.
  - left. apply exn_eqb_spec in H. split; [exact H|]. left. reflexivity.
Qed.

Lemma leaf_okb_sound h lt lo : leaf_okb h lt lo = true -> LeafSpec h lt lo.
Proof.
  unfold leaf_okb, LeafSpec. destruct (fst lt), lo; try discriminate.
  - apply forall2b_Forall2. apply delivered_ok_sound.
  - apply forall2b_Forall2. apply cb_ok_sound.
Qed.

Theorem spec_okb_sound i o : spec_okb i o = true -> Spec i o.
Proof.
  unfold spec_okb, Spec. intro H. apply andb_true_iff in H as [H1 H2]. split.
  - apply raised_okb_sound. exact H1.
  - revert H2. apply forall2b_Forall2. apply leaf_okb_sound.
Qed.

(* ================= the clauses, for any observation that meets the statement ================= *)
Lemma Forall2_nth {A B} (P : A -> B -> Prop) l m : Forall2 P l m ->
  forall k a, nth_error l k = Some a -> exists b, nth_error m k = Some b /\ P a b.
Proof.
  induction 1 as [|x y l m Hxy H IH]; intros k a Hk.
  - destruct k; discriminate.
  - destruct k; simpl in *.
    + injection Hk as <-. eauto.
    + apply IH. exact Hk.
Qed.

Lemma Delivered_shape c hc lc : Delivered c hc lc -> shape hc = shape lc.
Proof. destruct 1; reflexivity. Qed.

Lemma Delivered_fail c hc lc : Delivered c hc lc -> is_fail hc = true -> is_fail lc = true.
Proof. destruct 1; simpl; try congruence; try (destruct k; congruence). Qed.

Lemma Forall2_map_eq {A B C} (f : A -> C) (g : B -> C) l m :
  Forall2 (fun a b => f a = g b) l m -> map f l = map g m.
Proof. induction 1; simpl; congruence. Qed.

Lemma Forall2_impl {A B} (P Q : A -> B -> Prop) l m :
  (forall a b, P a b -> Q a b) -> Forall2 P l m -> Forall2 Q l m.
Proof. intros H; induction 1; constructor; auto. Qed.

(* the log of a logging result at position k *)
Lemma spec_target i o k c tg : Spec i o -> nth_error (spec_leaves (stack i)) k = Some (LfTarget c, tg) ->
  exists l, nth_error (o_leaves o) k = Some (OLog l) /\ Forall2 (Delivered c) (bracket (hist i)) (bracket l).
Proof.
  intros [_ H] Hk. destruct (Forall2_nth _ _ _ H k _ Hk) as (lo & Hlo & HL).
  unfold LeafSpec in HL. simpl in HL. destruct lo as [l|cbs]; [|destruct HL]. eauto.
Qed.

Lemma spec_bytest i o k bad tg : Spec i o -> nth_error (spec_leaves (stack i)) k = Some (LfByTest bad, tg) ->
  exists cbs, nth_error (o_leaves o) k = Some (OCbs cbs)
              /\ Forall2 CbSpec (expected_cbs tg sst_init (hist i)) cbs.
Proof.
  intros [_ H] Hk. destruct (Forall2_nth _ _ _ H k _ Hk) as (lo & Hlo & HL).
  unfold LeafSpec in HL. simpl in HL. destruct lo as [l|cbs]; [destruct HL|]. eauto.
Qed.

Lemma once_in_order i o k c tg : Spec i o -> nth_error (spec_leaves (stack i)) k = Some (LfTarget c, tg) ->
  exists l, nth_error (o_leaves o) k = Some (OLog l)
            /\ map shape (bracket l) = map shape (bracket (hist i)).
Proof.
  intros HS Hk. destruct (spec_target i o k c tg HS Hk) as (l & Hl & HD). exists l. split; [exact Hl|].
  symmetry. apply Forall2_map_eq. eapply Forall2_impl; [|exact HD]. apply Delivered_shape.
Qed.

Lemma no_pass_from_fail i o k c tg : Spec i o -> nth_error (spec_leaves (stack i)) k = Some (LfTarget c, tg) ->
  exists l, nth_error (o_leaves o) k = Some (OLog l)
            /\ Forall2 (fun hc lc => is_fail hc = true -> is_fail lc = true) (bracket (hist i)) (bracket l).
Proof.
  intros HS Hk. destruct (spec_target i o k c tg HS Hk) as (l & Hl & HD). exists l. split; [exact Hl|].
  eapply Forall2_impl; [|exact HD]. apply Delivered_fail.
Qed.

(* one callback per stopTest, for its test *)
Lemma expected_cbs_tests tg h : forall s, map cb_test (expected_cbs tg s h) = stop_tests h.
Proof.
  induction h as [|c h IH]; intro s; [reflexivity|].
  destruct c; simpl; rewrite ?IH; try reflexivity;
    try (destruct (s_loc s); simpl; apply IH).
Qed.

Definition phase_tests (p : phase) : list test :=
  match p with Outside => [] | Started t | Reported t => [t] end.

(* in a bracketed history the tests stopped are the tests started, in the same order *)
Lemma bracketed_tests h : forall p, bracketed_from p h = true ->
  phase_tests p ++ start_tests h = stop_tests h.
Proof.
  induction h as [|c h IH]; intros p Hb.
  - destruct p; try discriminate. reflexivity.
  - destruct c; simpl in Hb; destruct p; try discriminate; simpl;
      try (apply andb_true_iff in Hb as [Ht Hb]; apply test_eqb_spec in Ht; subst);
      try (match goal with |- _ :: _ = _ :: _ => f_equal end);
      match type of Hb with bracketed_from ?q _ = true => exact (IH q Hb) end.
Qed.

Lemma CbSpec_tests l m : Forall2 CbSpec l m -> map cb_test m = map cb_test l.
Proof. induction 1 as [|x y l m [H _] _ IH]; simpl; congruence. Qed.

Lemma bytest_clause i o k bad tg : wf i -> Spec i o ->
  nth_error (spec_leaves (stack i)) k = Some (LfByTest bad, tg) ->
  exists cbs, nth_error (o_leaves o) k = Some (OCbs cbs)
              /\ Forall2 CbSpec (expected_cbs tg sst_init (hist i)) cbs
              /\ map cb_test cbs = stop_tests (hist i)
              /\ stop_tests (hist i) = start_tests (hist i).
Proof.
  intros Hwf HS Hk. destruct (spec_bytest i o k bad tg HS Hk) as (cbs & Hc & HF).
  exists cbs. repeat split; try assumption.
  - rewrite (CbSpec_tests _ _ HF). apply expected_cbs_tests.
  - destruct (wf_parts i Hwf) as (_ & _ & _ & Hb & _). symmetry. exact (bracketed_tests _ Outside Hb).
Qed.

(* the observation has exactly one entry per innermost result, of the right kind *)
Lemma spec_leaves_shape i o : Spec i o ->
  Forall2 (fun lt lo => match fst lt, lo with LfTarget _, OLog _ | LfByTest _, OCbs _ => True | _, _ => False end)
          (spec_leaves (stack i)) (o_leaves o).
Proof.
  intros [_ H]. eapply Forall2_impl; [|exact H]. intros [lf tg] lo. unfold LeafSpec. simpl.
  destruct lf, lo; auto.
Qed.

(* non-vacuity of the two synthetic-text clauses: the model's texts *)
Lemma skip_reason_key d r : lookup n_reason d = Some (DText r) -> skip_reason d = r.
Proof. unfold skip_reason. intros ->. reflexivity. Qed.

(* ================= the clauses, for the model ================= *)
Lemma model_spec i : wf i -> Spec i (model i).
Proof. intros H. apply spec_okb_sound. apply model_meets_spec; assumption. Qed.

Lemma model_once_in_order i : wf i -> forall k c tg,
  nth_error (spec_leaves (stack i)) k = Some (LfTarget c, tg) ->
  exists l, nth_error (o_leaves (model i)) k = Some (OLog l)
            /\ map shape (bracket l) = map shape (bracket (hist i)).
Proof. intros H k c tg. apply once_in_order. apply model_spec; assumption. Qed.

Lemma model_degradation i : wf i -> forall k c tg,
  nth_error (spec_leaves (stack i)) k = Some (LfTarget c, tg) ->
  exists l, nth_error (o_leaves (model i)) k = Some (OLog l)
            /\ Forall2 (Delivered c) (bracket (hist i)) (bracket l).
Proof. intros H k c tg. apply spec_target. apply model_spec; assumption. Qed.

Lemma model_no_pass_from_fail i : wf i -> forall k c tg,
  nth_error (spec_leaves (stack i)) k = Some (LfTarget c, tg) ->
  exists l, nth_error (o_leaves (model i)) k = Some (OLog l)
            /\ Forall2 (fun hc lc => is_fail hc = true -> is_fail lc = true) (bracket (hist i)) (bracket l).
Proof. intros H k c tg. apply no_pass_from_fail. apply model_spec; assumption. Qed.

(* whatever the on_test of this TestByTestResult raises for (bad) *)
Lemma model_bytest i : wf i -> forall k bad tg,
  nth_error (spec_leaves (stack i)) k = Some (LfByTest bad, tg) ->
  exists cbs, nth_error (o_leaves (model i)) k = Some (OCbs cbs)
              /\ Forall2 CbSpec (expected_cbs tg sst_init (hist i)) cbs
              /\ map cb_test cbs = stop_tests (hist i)
              /\ stop_tests (hist i) = start_tests (hist i).
Proof. intros H k bad tg. apply bytest_clause; [exact H|]. apply model_spec; assumption. Qed.

Lemma model_leaves i : wf i ->
  Forall2 (fun lt lo => match fst lt, lo with LfTarget _, OLog _ | LfByTest _, OCbs _ => True | _, _ => False end)
          (spec_leaves (stack i)) (o_leaves (model i)).
Proof. intros H. apply spec_leaves_shape. apply model_spec; assumption. Qed.

(* what comes out of the calls of the history: AttributeError from done() / progress() where they do not
   exist, and from the stopTest of a test what the on_test of a TestByTestResult raises for it *)
Lemma model_raised i : wf i ->
  RaisedSpec (map fst (spec_leaves (stack i))) (hist i) (o_raised (model i)).
Proof. intros H. exact (proj1 (model_spec i H)). Qed.

(* the substring lemma, under its public name *)
Lemma details_text d sp : NoDup (map fst d) -> ContainsAll d (details_to_str d sp).
Proof. apply details_to_str_contains. Qed.
