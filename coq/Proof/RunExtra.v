(* Lemmas about the machine of Model/Run.v used by C02 and C05 (and offered to C01, C03) on top of
   Proof/RunCore.v: decidable equality of classes, the whole of _run_core, _run_prepared_result
   and TestCase.run characterised by the declarative reading of Spec/Run.v. *)
From TT Require Import Lib.Base Gen.Handlers Model.Run Spec.Run Proof.RunCore.

Lemma cls_eqb_spec a : forall b, cls_eqb a b = true <-> a = b.
Proof.
  induction a as [| | | | | | | | | | | | |p IH k]; intros b; destruct b; simpl; split; intro H;
    try reflexivity; try discriminate.
  - apply andb_true_iff in H as [H1 H2]. apply IH in H1. apply Nat.eqb_eq in H2. congruence.
  - injection H as -> ->. apply andb_true_iff; split; [apply IH; reflexivity | apply Nat.eqb_refl].
Qed.
Lemma cls_eqb_refl a : cls_eqb a a = true.
Proof. apply cls_eqb_spec; reflexivity. Qed.

(* ------------------------------------------------------------------ *)
(* pieces of a run compose                                              *)
(* ------------------------------------------------------------------ *)
Lemma ran_trans a b c l1 l2 x1 x2 f1 f2 i1 i2 e1 e2 :
  ran a b l1 x1 f1 i1 e1 -> ran b c l2 x2 f2 i2 e2 ->
  ran a c (l1 ++ l2) (x1 ++ x2) (f1 || f2) (i1 ++ i2) (e1 ++ e2).
Proof.
  intros [A1 A2 A3 A4 A5 A6] [B1 B2 B3 B4 B5 B6]. constructor.
  - rewrite B1, A1, app_assoc. reflexivity.
  - rewrite B2, A2, app_assoc. reflexivity.
  - rewrite B3, A3, orb_assoc. reflexivity.
  - congruence.
  - rewrite B5, A5, rev_app_distr, app_assoc. reflexivity.
  - rewrite prun_app. congruence.
Qed.
Lemma ran_eq s s' l x f i e l' x' f' i' e' :
  ran s s' l x f i e -> l = l' -> x = x' -> f = f' -> i = i' -> e = e' -> ran s s' l' x' f' i' e'.
Proof. intros H -> -> -> -> ->. exact H. Qed.

Lemma ran_got_exception e s : ran s (got_exception e s) [] (flatten e) false [] (exc_events (Some e)).
Proof.
  destruct (got_exception_spec e s) as (G1 & G2 & G3 & G4 & G5 & G6 & G7 & G8).
  constructor; rewrite ?app_nil_r, ?orb_false_r; simpl; congruence.
Qed.

(* ------------------------------------------------------------------ *)
(* _run_core                                                            *)
(* ------------------------------------------------------------------ *)
(* the exceptions a run of [p] collects when force_failure is [f0] at its start *)
Definition collected (p : prog) (f0 : bool) : list exc :=
  raised_by_user p ++ (if f0 || forced p then [Exc CFail None] else []).
(* ... and what happens to details and handlers *)
Definition core_events (p : prog) (f0 : bool) : list devent :=
  acts_events (snd (p_setup p)) ++ exc_events (setup_raise p)
  ++ (if setup_returns p
      then body_events p ++ acts_events (snd (p_teardown p)) ++ exc_events (teardown_raise p)
      else [])
  ++ flat_map entry_events (cleanup_entries p)
  ++ exc_events (if f0 || forced p then Some (Exc CFail None) else None).

Lemma collected_fresh p : skipped p = false -> collected p false = raised p.
Proof.
  intros H. unfold collected, raised, forced_failure. rewrite H. cbn [negb andb orb]. reflexivity.
Qed.
Lemma core_events_fresh p : skipped p = false -> core_events p false = events p.
Proof.
  intros H. unfold core_events, events, forced_failure. rewrite H. cbn [negb andb orb].
  destruct (forced p); reflexivity.
Qed.

(* _run_core on a program that is not skip-decorated: [t] is the state when everything has run,
   the success - if nothing was caught - is reported from there *)
Theorem run_core_spec p fuel s :
  p_skip p = None -> stack s = [] -> prog_size p <= fuel ->
  exists t,
    run_core p fuel s
    = (if is_nil (collected p (force s)) then add_tr [TOut OSuccess (current_details t)] t else t, false)
    /\ ran s t (expected_log p) (collected p (force s)) (forced p) (inserted p) (core_events p (force s))
    /\ stack t = [] /\ attrs t = attrs s.
Proof.
  intros Hskip Hst Hfuel.
  unfold run_core, collected, core_events, expected_log, raised_by_user, inserted, forced, cleanup_entries, skipped.
  rewrite Hskip. unfold prog_size in Hfuel.
  (* setUp *)
  destruct (run_method_spec (p_setup p) (p_up_setup p) s) as [A1 (n1 & B1 & C1 & D1)].
  fold (setup_raise p) in A1.
  destruct (run_method (p_setup p) (p_up_setup p) s) as [s1' oe1]. cbn [fst snd] in A1, B1. subst oe1.
  pose proof (run_user_spec _ _ (setup_raise p) _ _ _ _ _ B1) as U1. cbv zeta in U1.
  destruct (run_user (s1', setup_raise p)) as [s1 f1]. cbn [fst snd] in U1.
  destruct U1 as (F1 & R1 & K1 & T1). subst f1. rewrite Hst, app_nil_r in K1. rewrite Hst in T1.
  cbn [undo_all fold_left] in T1.
  unfold setup_returns. destruct (setup_raise p) as [e1|] eqn:Es; cbn [raisedb].
  - (* setUp failed: only the cleanups, then the forced failure *)
    assert (Hsz : stack_size (stack s1) <= fuel) by (rewrite K1; lia).
    destruct (run_cleanups_spec fuel s1 Hsz) as (s2 & failing & I1 & I2 & I3 & I4 & I5). rewrite I1.
    rewrite K1, C1 in *.
    pose proof (ran_trans _ _ _ _ _ _ _ _ _ _ _ _ _ R1 I2) as R2.
    assert (F2 : force s2 = force s || (existsb sets_force (executed (snd (p_setup p))) || false
                                        || existsb entry_forces (pending (snd (p_setup p))))).
    { destruct R2 as [_ _ F _ _ _]. rewrite F. cbn [andb]. rewrite orb_false_r. reflexivity. }
    assert (N : forall tl, is_nil ((caught (Some e1) ++ [] ++ flat_map (fun e => caught (entry_raise e)) (pending (snd (p_setup p)))) ++ tl) = false).
    { intros tl. rewrite !is_nil_app. cbn [caught]. pose proof (flatten_nonempty e1). destruct (flatten e1); [contradiction | reflexivity]. }
    cbn [andb]. rewrite N, F2.
    destruct (force s || _) eqn:Ef.
    + exists (got_exception (Exc CFail None) s2).
      destruct (got_exception_spec (Exc CFail None) s2) as (G1 & G2 & G3 & G4 & G5 & G6 & G7 & G8).
      split; [reflexivity|]. split; [|split; [congruence | rewrite G4, I5; exact T1]].
      eapply ran_eq; [exact (ran_trans _ _ _ _ _ _ _ _ _ _ _ _ _ R2 (ran_got_exception _ _)) | ..];
        cbn [exc_events caught map app andb]; rewrite ?app_nil_r, ?orb_false_r, <- ?app_assoc; reflexivity.
    + exists s2. split; [reflexivity|]. split; [|split; [exact I4 | rewrite I5; exact T1]].
      eapply ran_eq; [exact R2 | ..]; cbn [exc_events caught map app andb];
        rewrite ?app_nil_r, ?orb_false_r, <- ?app_assoc; reflexivity.
  - (* setUp returned *)
    destruct (run_test_method_spec p s1) as [A2 (n2 & B2 & C2 & D2)].
    destruct (run_test_method p s1) as [s2' oe2]. cbn [fst snd] in A2, B2. subst oe2.
    pose proof (run_user_spec _ _ (body_raise p) _ _ _ _ _ B2) as U2. cbv zeta in U2.
    destruct (run_user (s2', body_raise p)) as [s2 f2]. cbn [fst snd] in U2.
    destruct U2 as (F2 & R2 & K2 & T2). subst f2.
    destruct (run_method_spec (p_teardown p) (p_up_teardown p) s2) as [A3 (n3 & B3 & C3 & D3)].
    fold (teardown_raise p) in A3.
    destruct (run_method (p_teardown p) (p_up_teardown p) s2) as [s3' oe3]. cbn [fst snd] in A3, B3. subst oe3.
    pose proof (run_user_spec _ _ (teardown_raise p) _ _ _ _ _ B3) as U3. cbv zeta in U3.
    destruct (run_user (s3', teardown_raise p)) as [s3 f3]. cbn [fst snd] in U3.
    destruct U3 as (F3 & R3 & K3 & T3). subst f3.
    assert (K3' : stack s3 = n3 ++ n2 ++ n1) by (rewrite K3, K2, K1; reflexivity).
    assert (Hsz : stack_size (stack s3) <= fuel) by (rewrite K3', !stack_size_app; lia).
    destruct (run_cleanups_spec fuel s3 Hsz) as (s4 & failing & I1 & I2 & I3 & I4 & I5). rewrite I1.
    rewrite K3', !entries_of_app, C1, C2, C3 in I2, I3.
    set (E := pending (snd (p_teardown p)) ++ pending (snd (p_body p)) ++ pending (snd (p_setup p))) in *.
    rewrite <- body_events_split in *.
    pose proof (ran_trans _ _ _ _ _ _ _ _ _ _ _ _ _ (ran_trans _ _ _ _ _ _ _ _ _ _ _ _ _
                 (ran_trans _ _ _ _ _ _ _ _ _ _ _ _ _ R1 R2) R3) I2) as R4.
    assert (A4 : attrs s4 = attrs s) by (rewrite I5, T3, T2; exact T1).
    cbn [andb caught app] in *. rewrite !app_nil_r in R4.
    fold (entries_excs E) (entries_log E) (entries_events E) (entries_inserts E) (entries_force E) in *.
    set (forcedp := existsb sets_force (executed (snd (p_setup p)))
                    || (existsb sets_force (executed (snd (p_body p)))
                        || existsb sets_force (executed (snd (p_teardown p))))
                    || entries_force E) in *.
    assert (F4 : force s4 = force s || forcedp).
    { destruct R4 as [_ _ F _ _ _]. rewrite F. unfold forcedp. rewrite <- !orb_assoc. reflexivity. }
    rewrite F4. subst failing. rewrite !raisedb_caught.
    destruct (force s || forcedp) eqn:Ef.
    + (* the forced failure *)
      exists (got_exception (Exc CFail None) s4).
      destruct (got_exception_spec (Exc CFail None) s4) as (G1 & G2 & G3 & G4 & G5 & G6 & G7 & G8).
      rewrite !orb_true_r, !is_nil_app. cbn [is_nil]. rewrite !andb_false_r.
      split; [reflexivity|]. split; [|split; congruence]. subst forcedp.
      eapply ran_eq; [exact (ran_trans _ _ _ _ _ _ _ _ _ _ _ _ _ R4 (ran_got_exception _ _)) | ..];
        cbn [exc_events caught map app]; rewrite ?app_nil_r, ?orb_false_r, <- ?app_assoc, <- ?orb_assoc; reflexivity.
    + exists s4. rewrite orb_false_r, app_nil_r, !is_nil_app.
      split.
      { destruct (is_nil (caught (body_raise p))), (is_nil (caught (teardown_raise p))), (is_nil (entries_excs E));
          reflexivity. }
      split; [|split; assumption]. subst forcedp.
      eapply ran_eq; [exact R4 | ..]; cbn [exc_events caught map];
        rewrite ?app_nil_r, ?orb_false_r, <- ?app_assoc, <- ?orb_assoc; reflexivity.
Qed.

(* ------------------------------------------------------------------ *)
(* the whole run                                                        *)
(* ------------------------------------------------------------------ *)
Definition dresolve (d : dst) (c : content) : ocontent :=
  match c with
  | CLazy loc => OBytes (dcell loc d) | CSnap v => OBytes v
  | CTb => OTb | CStack => OStack | CReason r => OReason r
  end.
(* the dict as the result reads it when the detail part of the state is [d] *)
Definition details_at (d : dst) : list (dname * ocontent) :=
  map (fun nc => (fst nc, dresolve d (snd nc))) (d_dets d).
Lemma current_details_proj s : current_details s = details_at (proj s).
Proof.
  unfold current_details, details_at. cbn [proj d_dets]. apply map_ext. intros [n c]. destruct c; reflexivity.
Qed.

Lemma proj_add_call e s : is_call e = true -> proj (add_tr [e] s) = proj s.
Proof.
  intros H. unfold proj. cbn [dets tbgen cells onexc tr add_tr set_tr]. rewrite hcalls_app.
  destruct e; try discriminate; cbn; rewrite app_nil_r; reflexivity.
Qed.

(* what a run collects / does to details when force_failure is [f0] at its start *)
Definition collected_run (p : prog) (f0 : bool) : list exc := if skipped p then [] else collected p f0.
Definition run_events (p : prog) (f0 : bool) : list devent := if skipped p then [] else core_events p f0.

(* _run_prepared_result once everything has run: the outcome call (with the dict it carries), what
   run() lets out, the detail part afterwards *)
(* [lr]: what the RunTest's handler of last resort reports *)
Definition conclude_with (lr : option outcome) (p : prog) (hs : list handler) (X : list exc) (D : dst) : list tev * option exc * dst :=
  match p_skip p with
  | Some r => ([TOut OSkip [(n_reason, OReason (Some r))]], None, D)
  | None =>
      match choose hs X with
      | None => ([TOut OSuccess (details_at D)], None, D)
      | Some e =>
          match lookup hs e with
          | Some h =>
              let D' := if h_reason h then d_put n_reason (CReason (arg_of e)) D else D in
              (match h_out h with Some o => [TOut o (details_at D')] | None => [] end, None, D')
          | None => (match lr with Some o => [TOut o (details_at D)] | None => [] end, Some e, D)
          end
      end
  end.

(* ... for the RunTest TestCase.run builds by default *)
Definition conclude (p : prog) (hs : list handler) (X : list exc) (D : dst) : list tev * option exc * dst :=
  match p_skip p with
  | Some r => ([TOut OSkip [(n_reason, OReason (Some r))]], None, D)
  | None =>
      match choose hs X with
      | None => ([TOut OSuccess (details_at D)], None, D)
      | Some e =>
          match lookup hs e with
          | Some h =>
              let D' := if h_reason h then d_put n_reason (CReason (arg_of e)) D else D in
              (match h_out h with Some o => [TOut o (details_at D')] | None => [] end, None, D')
          | None => (match last_resort with Some o => [TOut o (details_at D)] | None => [] end, Some e, D)
          end
      end
  end.
Lemma conclude_default p hs X D : conclude p hs X D = conclude_with last_resort p hs X D.
Proof. reflexivity. Qed.

Lemma choose_nil hs : choose hs [] = None.
Proof. reflexivity. Qed.
Lemma choose_some hs X : X <> [] -> exists e, choose hs X = Some e.
Proof.
  intros H. unfold choose. destruct (rev X) as [|l r] eqn:E.
  - apply (f_equal (@rev exc)) in E. rewrite rev_involutive in E. simpl in E. contradiction.
  - destruct (find _ _); eexists; reflexivity.
Qed.
Lemma inserted_skipped p : skipped p = true -> inserted p = [].
Proof. unfold inserted. now intros ->. Qed.

(* TestCase.run on an instance in any state *)
Theorem run_from_with_spec lr p s :
  let X := collected_run p (force s) in
  let hs := handlers_of (rev (inserted p) ++ uh s) in
  let D := prun (run_events p (force s)) (proj (reset s)) in
  let c := conclude_with lr p hs X D in
  exists s' tr0,
    run_from_with lr p s = (s', snd (fst c), false)
    /\ map shape (log s') = map shape (log s) ++ expected_log p
    /\ excs s' = X
    /\ force s' = force s || (negb (skipped p) && forced p)
    /\ stack s' = [] /\ attrs s' = attrs s
    /\ uh s' = rev (inserted p) ++ uh s
    /\ tr s' = tr0 ++ fst (fst c) ++ [TStop]
    /\ calls tr0 = calls (tr s) ++ [TStart]
    /\ hcalls tr0 = d_calls D
    /\ proj s' = snd c.
Proof.
  cbv zeta. unfold run_from_with, run_prepared_with, conclude_with, collected_run, run_events, expected_log, skipped.
  destruct (p_skip p) as [r|] eqn:Hskip; fold (skipped p); fold (expected_log p).
  - (* skip-decorated: nothing runs *)
    rewrite (inserted_skipped p) by (unfold skipped; now rewrite Hskip).
    unfold run_core. rewrite Hskip.
    cbn [excs add_tr set_tr set_excs tr reset set_tbgen set_dets set_stack choose rev].
    eexists. exists (tr s ++ [TStart]). split; [reflexivity|].
    cbn [log excs force stack attrs uh tr add_tr set_tr set_excs reset set_tbgen set_dets set_stack fst snd negb andb
         prun fold_left rev app].
    rewrite app_nil_r, orb_false_r, calls_app, <- !app_assoc.
    repeat (split; [reflexivity|]).
    split; unfold proj; cbn [dets tbgen cells onexc tr d_calls add_tr set_tr set_excs reset set_tbgen set_dets set_stack];
      rewrite !hcalls_app; cbn; rewrite ?app_nil_r; reflexivity.
  - set (s0 := set_excs [] (add_tr [TStart] (reset s))).
    assert (H0 : stack s0 = []) by reflexivity.
    destruct (run_core_spec p (S (prog_size p)) s0 Hskip H0 (Nat.le_succ_diag_r _)) as (t0 & R & RN & K1 & A1).
    rewrite R. destruct RN as [L1 X1 F1 C1 U1 P1]. unfold expected_log, skipped in L1. rewrite Hskip in L1.
    assert (P0 : proj s0 = proj (reset s)).
    { unfold s0, proj. cbn [dets tbgen cells onexc tr add_tr set_tr set_excs]. rewrite hcalls_app. cbn.
      now rewrite app_nil_r. }
    rewrite P0 in P1.
    subst s0. cbn [log excs force stack attrs uh tr add_tr set_tr set_excs reset set_tbgen set_dets set_stack app] in *.
    cbn [negb andb]. set (X := collected p (force s)) in *.
    set (D := prun (core_events p (force s)) (proj (reset s))) in *.
    assert (C0 : calls (tr s ++ [TStart]) = calls (tr s) ++ [TStart]) by (rewrite calls_app; reflexivity).
    rewrite C0 in C1.
    assert (HC : hcalls (tr t0) = d_calls D) by (rewrite <- P1; reflexivity).
    destruct X as [|x0 xr] eqn:EX.
    + (* nothing was caught: the success already reported *)
      cbn [is_nil excs uh add_tr set_tr]. rewrite U1, X1, !choose_nil.
      eexists. exists (tr t0). split; [reflexivity|].
      cbn [log excs force stack attrs uh tr add_tr set_tr fst snd].
      rewrite current_details_proj, P1, <- !app_assoc.
      repeat (split; [first [assumption | reflexivity]|]).
      rewrite !proj_add_call by reflexivity. exact P1.
    + cbn [is_nil]. rewrite U1, X1.
      destruct (choose_some (handlers_of (rev (inserted p) ++ uh s)) (x0 :: xr)) as [e He]; [discriminate|].
      rewrite He.
      destruct (lookup (handlers_of (rev (inserted p) ++ uh s)) e) as [h|] eqn:Hl; cbn [fst snd].
      * (* a handler claims it *)
        unfold call_handler.
        set (t1 := if h_reason h then add_detail n_reason (CReason (arg_of e)) t0 else t0).
        assert (Q : log t1 = log t0 /\ excs t1 = excs t0 /\ force t1 = force t0 /\ stack t1 = stack t0
                    /\ attrs t1 = attrs t0 /\ uh t1 = uh t0 /\ tr t1 = tr t0
                    /\ proj t1 = if h_reason h then d_put n_reason (CReason (arg_of e)) D else D).
        { subst t1. destruct (h_reason h); [rewrite <- P1|]; repeat split; try reflexivity. exact P1. }
        destruct Q as (Q1 & Q2 & Q3 & Q4 & Q5 & Q6 & Q7 & Q8).
        destruct (h_out h) as [o|].
        -- eexists. exists (tr t0). split; [reflexivity|].
           cbn [log excs force stack attrs uh tr add_tr set_tr fst snd].
           rewrite Q1, Q2, Q3, Q4, Q5, Q6, Q7, current_details_proj, Q8, <- !app_assoc.
           repeat (split; [first [assumption | reflexivity]|]).
           rewrite !proj_add_call by reflexivity. exact Q8.
        -- eexists. exists (tr t0). split; [reflexivity|].
           cbn [log excs force stack attrs uh tr add_tr set_tr fst snd].
           rewrite Q1, Q2, Q3, Q4, Q5, Q6, Q7.
           repeat (split; [first [assumption | reflexivity]|]).
           rewrite !proj_add_call by reflexivity. exact Q8.
      * (* no handler claims it: last resort, then it propagates *)
        destruct lr as [o|].
        -- eexists. exists (tr t0). split; [reflexivity|].
           cbn [log excs force stack attrs uh tr add_tr set_tr fst snd].
           rewrite current_details_proj, P1, <- !app_assoc.
           repeat (split; [first [assumption | reflexivity]|]).
           rewrite !proj_add_call by reflexivity. exact P1.
        -- eexists. exists (tr t0). split; [reflexivity|].
           cbn [log excs force stack attrs uh tr add_tr set_tr fst snd].
           repeat (split; [first [assumption | reflexivity]|]).
           rewrite !proj_add_call by reflexivity. exact P1.
Qed.

(* TestCase.run with the default RunTest *)
Theorem run_from_spec p s :
  let X := collected_run p (force s) in
  let hs := handlers_of (rev (inserted p) ++ uh s) in
  let D := prun (run_events p (force s)) (proj (reset s)) in
  let c := conclude p hs X D in
  exists s' tr0,
    run_from p s = (s', snd (fst c), false)
    /\ map shape (log s') = map shape (log s) ++ expected_log p
    /\ excs s' = X
    /\ force s' = force s || (negb (skipped p) && forced p)
    /\ stack s' = [] /\ attrs s' = attrs s
    /\ uh s' = rev (inserted p) ++ uh s
    /\ tr s' = tr0 ++ fst (fst c) ++ [TStop]
    /\ calls tr0 = calls (tr s) ++ [TStart]
    /\ hcalls tr0 = d_calls D
    /\ proj s' = snd c.
Proof. exact (run_from_with_spec last_resort p s). Qed.

(* the configuration does not matter - whatever the factory of the case is and however it is installed, also
   when it cannot be called with last_resort= (fix F27): the run is the run with the default RunTest
   (C01 carries the configuration in its input; C02, C03, C05 sample configured cases on this ground) *)
Lemma runner_last_resort_default r : runner_last_resort r = last_resort.
Proof. unfold runner_last_resort. destruct (accepts_last_resort (r_factory r)); reflexivity. Qed.
Theorem factory_irrelevant r p s : run_from_runner r p s = run_from p s.
Proof. unfold run_from_runner, run_from. now rewrite runner_last_resort_default. Qed.

(* ------------------------------------------------------------------ *)
(* induction over statements with the bodies of registered cleanups     *)
(* ------------------------------------------------------------------ *)
Section act_nest_ind.
  Variable P : act -> Prop.
  Hypothesis HC : forall t body, Forall P body -> P (ACleanup t body).
  Hypothesis HO : forall a, (forall t body, a <> ACleanup t body) -> P a.
  Fixpoint act_nest_ind (a : act) : P a.
  Proof.
    destruct a as [n loc | loc v | mm | mm | t body | x v | fx | h | | c o | r p | pk | e];
      try (apply HO; intros; discriminate).
    apply HC. induction body as [|x r IH]; constructor; [apply act_nest_ind | exact IH].
  Defined.
End act_nest_ind.

(* a fresh run: nothing forced, so the run is the one Spec/Run.v describes *)
Lemma collected_run_fresh p : collected_run p false = raised p.
Proof.
  unfold collected_run. destruct (skipped p) eqn:E; [|now apply collected_fresh].
  unfold raised, raised_by_user, forced_failure. now rewrite E.
Qed.
Lemma run_events_fresh p : run_events p false = events p.
Proof.
  unfold run_events. destruct (skipped p) eqn:E; [|now apply core_events_fresh].
  unfold events. now rewrite E.
Qed.
