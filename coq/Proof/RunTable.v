(* Shared by C01 and C03 (usable by C02, C05): the class order, the facts about the handler table
   regenerated from the live code (Gen/Handlers.v) proved by computation, and the choice of the
   reported exception (runtest.py:108-118) read declaratively. *)
From TT Require Import Lib.Base Gen.Handlers Model.Run Spec.Run Proof.RunCore.

(* ---------- decidable equality of classes, the class order ---------- *)
Lemma cls_eqb_spec a : forall b, cls_eqb a b = true <-> a = b.
Proof.
  induction a as [| | | | | | | | | | | | |p IH k]; intros b; destruct b; simpl; split; intro H;
    try reflexivity; try discriminate.
  - apply andb_true_iff in H as [H1 H2]. apply IH in H1. apply Nat.eqb_eq in H2. congruence.
  - injection H as -> ->. apply andb_true_iff; split; [apply IH; reflexivity | apply Nat.eqb_refl].
Qed.
Lemma cls_eqb_refl a : cls_eqb a a = true.
Proof. apply cls_eqb_spec; reflexivity. Qed.

Lemma subclass_in c d : subclass c d = true <-> In d (supers c).
Proof.
  unfold subclass. rewrite existsb_exists. split.
  - intros (x & Hx & E). apply cls_eqb_spec in E. subst. exact Hx.
  - intros H. exists d. split; [exact H | apply cls_eqb_refl].
Qed.
Lemma supers_incl c : forall d, In d (supers c) -> incl (supers d) (supers c).
Proof.
  induction c as [| | | | | | | | | | | | |p IH k]; intros d H;
    try (simpl in H; repeat (destruct H as [H|H]; [subst d; intros x Hx; simpl in *; tauto|]); contradiction).
  cbn [supers] in *. destruct H as [H|H].
  - subst d. cbn [supers]. apply incl_refl.
  - apply incl_tl. apply IH. exact H.
Qed.
(* isinstance is transitive along subclassing and reflexive *)
Lemma subclass_trans a b c : subclass a b = true -> subclass b c = true -> subclass a c = true.
Proof. rewrite !subclass_in. intros H1 H2. exact (supers_incl a b H1 c H2). Qed.
Lemma subclass_refl a : subclass a a = true.
Proof. apply subclass_in. destruct a; simpl; auto. Qed.
Lemma subclass_sub p k d : subclass (CSub p k) d = cls_eqb d (CSub p k) || subclass p d.
Proof. reflexivity. Qed.
(* every class derives from BaseException *)
Lemma subclass_base c : subclass c CBaseException = true.
Proof. induction c; try reflexivity. rewrite subclass_sub, IHc. apply orb_true_r. Qed.

(* ---------- list helpers ---------- *)
Lemma find_app {A} (f : A -> bool) a b :
  find f (a ++ b) = match find f a with Some x => Some x | None => find f b end.
Proof. induction a as [|x r IH]; simpl; [reflexivity|]. destruct (f x); [reflexivity | exact IH]. Qed.
Lemma find_ext' {A} (f g : A -> bool) l : (forall x, f x = g x) -> find f l = find g l.
Proof. intros H. induction l as [|x r IH]; simpl; [reflexivity|]. rewrite H, IH. reflexivity. Qed.
Lemma find_ext_in {A} (f g : A -> bool) l : (forall x, In x l -> f x = g x) -> find f l = find g l.
Proof.
  induction l as [|x r IH]; intros H; simpl; [reflexivity|].
  rewrite (H x (or_introl eq_refl)), IH; [reflexivity|]. intros y Hy. apply H. right; exact Hy.
Qed.
Lemma find_map {A B} (f : B -> bool) (g : A -> B) l : find f (map g l) = option_map g (find (fun a => f (g a)) l).
Proof. induction l as [|x r IH]; simpl; [reflexivity|]. destruct (f (g x)); [reflexivity | exact IH]. Qed.
Lemma existsb_find {A} (f : A -> bool) l : existsb f l = match find f l with Some _ => true | None => false end.
Proof. induction l as [|x r IH]; simpl; [reflexivity|]. destruct (f x); [reflexivity | exact IH]. Qed.

(* ---------- facts about the generated handler table (by computation; they are re-stated
   against the table of the tree under test on every run) ---------- *)
Lemma table_outcomes : forallb (fun h => match h_out h with Some _ => true | None => false end) generated_handlers = true.
Proof. vm_compute. reflexivity. Qed.
Lemma table_last_resort : last_resort = Some OErr.
Proof. vm_compute. reflexivity. Qed.
Lemma table_within_Exception : forallb (fun h => subclass (h_cls h) CException) generated_handlers = true.
Proof. vm_compute. reflexivity. Qed.
Lemma table_catch_all_last :
  match rev generated_handlers with h :: _ => cls_eqb (h_cls h) CException | [] => false end = true.
Proof. vm_compute. reflexivity. Qed.
Lemma table_complete : run_passes_table = true /\ length generated_handlers = length exception_handlers.
Proof. vm_compute. split; reflexivity. Qed.
Lemma table_not_sub :
  forallb (fun h => match h_cls h with CSub _ _ => false | _ => true end) generated_handlers = true.
Proof. vm_compute. reflexivity. Qed.

Lemma catch_all_in : exists h, In h generated_handlers /\ h_cls h = CException.
Proof.
  pose proof table_catch_all_last as H. destruct (rev generated_handlers) as [|h r] eqn:E; [discriminate|].
  exists h. split; [|apply cls_eqb_spec; exact H].
  apply in_rev. rewrite E. left; reflexivity.
Qed.

(* looking a class up in the generated table, in list order, subclasses included *)
Definition table_outcome (c : cls) : option outcome :=
  match find (fun h => subclass c (h_cls h)) generated_handlers with
  | Some h => h_out h
  | None => last_resort
  end.

(* ... gives the standard mapping of the statement, for every class incl. user subclasses to any depth *)
Lemma table_outcome_spec c : table_outcome c = Some (standard_outcome c).
Proof.
  induction c as [| | | | | | | | | | | | |p IH k]; try (vm_compute; reflexivity).
  assert (T : table_outcome (CSub p k) = table_outcome p).
  { unfold table_outcome. erewrite find_ext_in; [reflexivity|]. intros h Hin. cbv beta.
    rewrite subclass_sub. pose proof table_not_sub as N. rewrite forallb_forall in N. specialize (N h Hin).
    destruct (h_cls h); try discriminate; reflexivity. }
  rewrite T, IH. unfold standard_outcome. rewrite !subclass_sub. reflexivity.
Qed.

Lemma generated_claims e : existsb (fun h => isinstance e (h_cls h)) generated_handlers = isinstance e CException.
Proof.
  apply eq_true_iff_eq. rewrite existsb_exists. split.
  - intros (h & Hin & Hh). pose proof table_within_Exception as T. rewrite forallb_forall in T.
    eapply subclass_trans; [exact Hh | exact (T h Hin)].
  - intros H. destruct catch_all_in as (h & Hin & Hc). exists h. split; [exact Hin|]. rewrite Hc. exact H.
Qed.

(* ---------- the handler list with [u] in front of the generated table ---------- *)
(* the first entry of [u], in list order, whose class the exception is an instance of *)
Definition uclaim (u : list (cls * outcome)) (e : exc) : option (cls * outcome) :=
  find (fun co => isinstance e (fst co)) u.
Definition uclaimed (u : list (cls * outcome)) (e : exc) : bool :=
  match uclaim u e with Some _ => true | None => isinstance e CException end.
Definition uoutcome (u : list (cls * outcome)) (e : exc) : outcome :=
  match uclaim u e with Some co => snd co | None => standard_outcome (cls_of e) end.

Lemma claims_handlers_of u e : claims (handlers_of u) e = uclaimed u e.
Proof.
  unfold claims, handlers_of, uclaimed, uclaim. rewrite existsb_app, generated_claims, existsb_find, find_map.
  cbn [user_handler h_cls]. destruct (find (fun a => isinstance e (fst a)) u); reflexivity.
Qed.

(* what the handler list does with an exception is what the statement says it stands for *)
Lemma lookup_handlers_of u e :
  match lookup (handlers_of u) e with Some h => h_out h | None => last_resort end = Some (uoutcome u e).
Proof.
  unfold lookup, handlers_of, uoutcome, uclaim. rewrite find_app, find_map. cbn [user_handler h_cls].
  destruct (find (fun a => isinstance e (fst a)) u) as [co|]; cbn [option_map]; [reflexivity|].
  exact (table_outcome_spec (cls_of e)).
Qed.

Lemma lookup_none hs e : lookup hs e = None <-> claims hs e = false.
Proof.
  unfold lookup, claims. induction hs as [|h r IH]; simpl; [tauto|].
  destruct (isinstance e (h_cls h)); simpl; [split; discriminate | exact IH].
Qed.
Lemma lookup_in hs e h : lookup hs e = Some h -> In h hs.
Proof. unfold lookup. intros H. apply find_some in H. tauto. Qed.

(* with Spec.Run's names, for the handlers in front when the outcome is chosen *)
Lemma uclaimed_claimed p e : uclaimed (user_handlers p) e = claimed p e.
Proof. reflexivity. Qed.
Lemma uoutcome_outcome_of p e : uoutcome (user_handlers p) e = outcome_of p e.
Proof. reflexivity. Qed.

(* an exception no handler is responsible for does not derive from Exception and stands for an error *)
Lemma unclaimed_not_exception u e : uclaimed u e = false -> isinstance e CException = false.
Proof. unfold uclaimed. destruct (uclaim u e); [discriminate | auto]. Qed.
Lemma not_exception_is_error c : subclass c CException = false -> standard_outcome c = OErr.
Proof.
  intros C. unfold standard_outcome.
  assert (N : forall d, subclass d CException = true -> subclass c d = false).
  { intros d Hd. destruct (subclass c d) eqn:Sd; [|reflexivity]. rewrite (subclass_trans _ _ _ Sd Hd) in C. discriminate. }
  rewrite !N by reflexivity. reflexivity.
Qed.
Lemma unclaimed_is_error u e : uclaimed u e = false -> uoutcome u e = OErr.
Proof.
  unfold uclaimed, uoutcome. destruct (uclaim u e); [discriminate|]. intros C. now apply not_exception_is_error.
Qed.

(* ---------- choosing the exception to report ---------- *)
Lemma choose_nil hs : choose hs [] = None.
Proof. reflexivity. Qed.
(* the first exception no handler claims, else the last one caught *)
Lemma choose_spec hs X :
  X <> [] ->
  choose hs X = match find (fun e => negb (claims hs e)) X with
                | Some e => Some e
                | None => Some (last X (Exc CFail None))
                end.
Proof.
  intros HX. unfold choose.
  destruct (exists_last HX) as (front & lst & ->).
  rewrite rev_unit, removelast_last, find_app, last_last. simpl.
  destruct (find _ front); [reflexivity|]. destruct (negb (claims hs lst)); reflexivity.
Qed.

(* the outcome reported for the caught exceptions X with [u] in front of the table, and what propagates *)
Definition decide_u (u : list (cls * outcome)) (X : list exc) : outcome * option exc :=
  match X with
  | [] => (OSuccess, None)
  | _ => match find (fun e => negb (uclaimed u e)) X with
         | Some e => (OErr, Some e)
         | None => (uoutcome u (last X (Exc CFail None)), None)
         end
  end.

(* the tail of _run_prepared_result, runtest.py:108-118, in these terms *)
Lemma choose_decide u X :
  X <> [] ->
  exists e, choose (handlers_of u) X = Some e
            /\ match lookup (handlers_of u) e with
               | Some h => h_out h = Some (fst (decide_u u X)) /\ snd (decide_u u X) = None
               | None => last_resort = Some (fst (decide_u u X)) /\ snd (decide_u u X) = Some e
               end.
Proof.
  intros HX. rewrite (choose_spec _ X HX). unfold decide_u.
  rewrite (find_ext' _ (fun e => negb (uclaimed u e)) X (fun e => f_equal negb (claims_handlers_of u e))).
  destruct X as [|x r]; [contradiction|]. set (Y := x :: r) in *.
  destruct (find (fun e => negb (uclaimed u e)) Y) as [e|] eqn:F.
  - exists e. split; [reflexivity|]. apply find_some in F. destruct F as [_ F]. apply negb_true_iff in F.
    pose proof F as F'. rewrite <- claims_handlers_of in F'. apply lookup_none in F'. rewrite F'.
    split; [exact table_last_resort | reflexivity].
  - exists (last Y (Exc CFail None)). split; [reflexivity|].
    assert (C : uclaimed u (last Y (Exc CFail None)) = true).
    { pose proof (find_none _ _ F (last Y (Exc CFail None))) as N.
      destruct (exists_last HX) as (front & lst & E). rewrite E in *. rewrite last_last in *.
      assert (I : In lst (front ++ [lst])) by (apply in_or_app; right; left; reflexivity).
      specialize (N I). now apply negb_false_iff in N. }
    pose proof (lookup_handlers_of u (last Y (Exc CFail None))) as L.
    destruct (lookup (handlers_of u) (last Y (Exc CFail None))) as [h|] eqn:Lk.
    + split; [exact L | reflexivity].
    + apply lookup_none in Lk. rewrite claims_handlers_of in Lk. congruence.
Qed.
