(* C05 - proofs. *)
From TT Require Import Lib.Base Gen.Handlers Model.Run Spec.Run Spec.C05 Corr.C05 Proof.RunCore Proof.RunExtra Proof.RunTable.

(* ---------- comparisons ---------- *)
Lemma ocontent_eqb_spec a b : ocontent_eqb a b = true <-> a = b.
Proof.
  destruct a as [x| | |x], b as [y| | |y]; simpl; split; intro H; try discriminate; try reflexivity.
  - apply Nat.eqb_eq in H; congruence.
  - injection H as ->; apply Nat.eqb_refl.
  - apply (option_eqb_spec Nat.eqb Nat.eqb_eq) in H; congruence.
  - injection H as ->. apply (option_eqb_spec Nat.eqb Nat.eqb_eq); reflexivity.
Qed.
Lemma odetail_eqb_spec a b : odetail_eqb a b = true <-> a = b.
Proof. apply pair_eqb_spec; [apply Nat.eqb_eq | apply ocontent_eqb_spec]. Qed.
Lemma call_eqb_spec a b : call_eqb a b = true <-> a = b.
Proof. apply pair_eqb_spec; [apply Nat.eqb_eq | intros; apply cls_eqb_spec]. Qed.

(* what the comparison of observations identifies: the details as a multiset of (base name, content) *)
Definition obs_equiv (a b : obs) : Prop :=
  o_outs a = o_outs b /\ (forall d, count d (o_details a) = count d (o_details b))
  /\ o_calls a = o_calls b /\ o_late a = o_late b.

Lemma count_notin d l : ~ In d l -> count d l = 0.
Proof.
  unfold count. induction l as [|x r IH]; simpl; intros H; [reflexivity|].
  destruct (odetail_eqb d x) eqn:E.
  - apply odetail_eqb_spec in E. subst. tauto.
  - apply IH. tauto.
Qed.

Lemma odetail_dec (a b : odetail) : {a = b} + {a <> b}.
Proof.
  destruct (odetail_eqb a b) eqn:E; [left; now apply odetail_eqb_spec | right; intro H].
  apply odetail_eqb_spec in H. congruence.
Qed.

Lemma same_details_spec a b : same_details a b = true <-> forall d, count d a = count d b.
Proof.
  unfold same_details. rewrite forallb_forall. split.
  - intros H d. destruct (in_dec odetail_dec d (a ++ b)) as [I|N].
    + apply Nat.eqb_eq. exact (H d I).
    + rewrite !count_notin; [reflexivity | |]; intro; apply N; apply in_or_app; tauto.
  - intros H d _. apply Nat.eqb_eq. apply H.
Qed.

Lemma obs_eqb_spec a b : obs_eqb a b = true <-> obs_equiv a b.
Proof.
  unfold obs_eqb, obs_equiv. rewrite !andb_true_iff, !Nat.eqb_eq, same_details_spec,
    (list_eqb_spec call_eqb call_eqb_spec). tauto.
Qed.

(* ---------- the executable statement implies the readable one ---------- *)
Theorem spec_okb_sound i o : spec_okb i o = true -> Spec i o.
Proof.
  unfold spec_okb, Spec. cbv zeta. rewrite !andb_true_iff, !Nat.eqb_eq, forallb_forall, !Nat.leb_le,
    (list_eqb_spec call_eqb call_eqb_spec).
  intros [[[[[H1 H2] H3] H4] H5] H6]. repeat split; try assumption.
  intros d Hd. apply Nat.leb_le. exact (H2 d Hd).
Qed.

(* ------------------------------------------------------------------ *)
(* names                                                                *)
(* ------------------------------------------------------------------ *)
Lemma dname_eqb_spec a b : dname_eqb a b = true <-> a = b.
Proof.
  destruct a as [a1 a2], b as [b1 b2]; unfold dname_eqb; cbn [fst snd].
  rewrite andb_true_iff, Nat.eqb_eq, (list_eqb_spec Nat.eqb Nat.eqb_eq).
  split; [intros [-> ->]; reflexivity | intros H; injection H; auto].
Qed.
Lemma dname_eqb_refl a : dname_eqb a a = true.
Proof. now apply dname_eqb_spec. Qed.
Lemma dname_eqb_neq a b : a <> b -> dname_eqb a b = false.
Proof. intros H. destruct (dname_eqb a b) eqn:E; [apply dname_eqb_spec in E; contradiction | reflexivity]. Qed.
Lemma dname_eqb_base a b : fst a <> fst b -> dname_eqb a b = false.
Proof. intros H. apply dname_eqb_neq. congruence. Qed.

Lemma dmem_in n d : dmem n d = true <-> In n (map fst d).
Proof.
  induction d as [|[m c] r IH]; simpl; [split; [discriminate | tauto]|].
  rewrite orb_true_iff, IH, dname_eqb_spec. split; intros [H|H]; auto.
Qed.
Lemma dput_fresh n c d : dmem n d = false -> dput n c d = d ++ [(n, c)].
Proof.
  induction d as [|[m x] r IH]; simpl; [reflexivity|]. intros H. apply orb_false_iff in H as [H1 H2].
  rewrite H1, (IH H2). reflexivity.
Qed.

(* ------------------------------------------------------------------ *)
(* C05_unique_fresh: the unique-name loops return a name that is not taken (pigeonhole) *)
(* ------------------------------------------------------------------ *)
Lemma suffixed_inj n j k : suffixed n j = suffixed n k -> j = k.
Proof. unfold suffixed. intros H. injection H as H. apply app_inj_tail in H. tauto. Qed.
Lemma suffixed_longer n k : length (snd (suffixed n k)) = S (length (snd n)).
Proof. unfold suffixed. cbn [snd]. rewrite app_length. simpl. lia. Qed.
Lemma suffixed_neq n k : n <> suffixed n k.
Proof. intros H. apply (f_equal (fun x => length (snd x))) in H. rewrite suffixed_longer in H. lia. Qed.

(* addDetailUniqueName / gather_details: [seen] are candidates already found taken *)
Lemma first_free_fresh n d : forall fuel k seen,
  NoDup seen -> incl seen (map fst d) ->
  (forall m j, In m seen -> k <= j -> m <> suffixed n j) ->
  length d < length seen + fuel ->
  dmem (first_free n d k fuel) d = false.
Proof.
  induction fuel as [|f IH]; intros k seen ND INC DIS LEN.
  - exfalso. pose proof (NoDup_incl_length ND INC) as H. rewrite map_length in H. lia.
  - cbn [first_free]. destruct (dmem (suffixed n k) d) eqn:E; [|exact E].
    apply (IH (S k) (suffixed n k :: seen)).
    + constructor; [|exact ND]. intro HIn. exact (DIS _ k HIn (le_n _) eq_refl).
    + intros m [<-|Hm]; [apply dmem_in; exact E | apply INC; exact Hm].
    + intros m j [<-|Hm] Hj; [intro H; apply suffixed_inj in H; lia | apply DIS; [exact Hm | lia]].
    + cbn [length]. lia.
Qed.
Lemma first_free_base n d : forall fuel k, fst (first_free n d k fuel) = fst n.
Proof. induction fuel as [|f IH]; intros k; cbn [first_free]; [reflexivity|]. destruct (dmem _ d); [apply IH | reflexivity]. Qed.

Theorem unique_name_fresh n d : dmem (unique_name n d) d = false /\ fst (unique_name n d) = fst n.
Proof.
  unfold unique_name. destruct (dmem n d) eqn:E; [|split; [exact E | reflexivity]].
  split; [|apply first_free_base].
  apply (first_free_fresh n d (length d) 1 [n]).
  - constructor; [intros [] | constructor].
  - intros m [<-|[]]. now apply dmem_in.
  - intros m j [<-|[]] _. apply suffixed_neq.
  - cbn [length]. lia.
Qed.

(* _report_traceback: the label accumulates, so every candidate is longer than the ones before *)
Definition tb_next (id : nat) (lab : dname) : dname := match id with 0 => lab | _ => suffixed lab id end.
Lemma tb_label_eq fuel id lab d :
  tb_label fuel id lab d
  = if dmem (tb_next id lab) d
    then match fuel with 0 => (tb_next id lab, S id) | S f => tb_label f (S id) (tb_next id lab) d end
    else (tb_next id lab, S id).
Proof. destruct fuel; reflexivity. Qed.

Lemma tb_label_fresh d : forall fuel id lab seen,
  NoDup seen -> incl seen (map fst d) ->
  Forall (fun m => length (snd m) < length (snd (tb_next id lab))) seen ->
  length d <= length seen + fuel ->
  dmem (fst (tb_label fuel id lab d)) d = false.
Proof.
  induction fuel as [|f IH]; intros id lab seen ND INC LT LEN; rewrite tb_label_eq;
    destruct (dmem (tb_next id lab) d) eqn:E; try exact E.
  - exfalso.
    assert (ND' : NoDup (tb_next id lab :: seen)).
    { constructor; [|exact ND]. intro HIn. rewrite Forall_forall in LT. specialize (LT _ HIn). lia. }
    assert (INC' : incl (tb_next id lab :: seen) (map fst d)).
    { intros m [<-|Hm]; [now apply dmem_in | now apply INC]. }
    pose proof (NoDup_incl_length ND' INC') as H. rewrite map_length in H. cbn [length] in H. unfold dname in *. lia.
  - apply (IH (S id) (tb_next id lab) (tb_next id lab :: seen)).
    + constructor; [|exact ND]. intro HIn. rewrite Forall_forall in LT. specialize (LT _ HIn). lia.
    + intros m [<-|Hm]; [now apply dmem_in | now apply INC].
    + cbn [tb_next]. rewrite suffixed_longer. constructor; [lia|].
      eapply Forall_impl; [|exact LT]. cbv beta. intros; lia.
    + cbn [length]. lia.
Qed.
Lemma tb_label_base d : forall fuel id lab, fst (fst (tb_label fuel id lab d)) = fst lab.
Proof.
  assert (B : forall id lab, fst (tb_next id lab) = fst lab) by (intros [|id] lab; reflexivity).
  induction fuel as [|f IH]; intros id lab; rewrite tb_label_eq; destruct (dmem _ d); cbn [fst]; rewrite ?IH; apply B.
Qed.

Theorem tb_label_spec d id :
  dmem (fst (tb_label (length d) id n_traceback d)) d = false
  /\ fst (fst (tb_label (length d) id n_traceback d)) = fst n_traceback.
Proof.
  split; [|apply tb_label_base].
  apply (tb_label_fresh d (length d) id n_traceback []).
  - constructor.
  - intros m Hm. destruct Hm.
  - constructor.
  - exact (le_n _).
Qed.

(* ------------------------------------------------------------------ *)
(* the dict of the machine against the list the statement expects       *)
(* ------------------------------------------------------------------ *)
Definition is_ctb (c : content) : bool := match c with CTb => true | _ => false end.

(* [R G k xl dl]: the dict [dl] is the expected list [xl], in order, with [k] generated traceback
   entries in between; an entry the test attached has its exact name, a generated one a name
   with the expected base; the bases of all generated names are in [G] *)
Inductive R (G : list nat) : nat -> list xentry -> details -> Prop :=
| R_nil : R G 0 [] []
| R_tb m xl dl k : In (fst m) G -> R G k xl dl -> R G (S k) xl ((m, CTb) :: dl)
| R_user n c xl dl k : is_ctb c = false -> R G k xl dl -> R G k ((Some n, fst n, c) :: xl) ((n, c) :: dl)
| R_gen m c xl dl k : In (fst m) G -> is_ctb c = false -> R G k xl dl ->
                      R G k ((None, fst m, c) :: xl) ((m, c) :: dl).

Lemma R_mono G G' k xl dl : incl G G' -> R G k xl dl -> R G' k xl dl.
Proof. intros I H. induction H; constructor; auto. Qed.

Lemma R_app G k1 a b : R G k1 a b -> forall k2 c d, R G k2 c d -> R G (k1 + k2) (a ++ c) (b ++ d).
Proof. induction 1; intros k2 c' d' H'; cbn [app plus]; [exact H' | constructor; auto ..]. Qed.

(* the test (or the skip handler) attaches a detail under a name whose base no generated name has *)
Lemma R_put G k xl dl n c :
  R G k xl dl -> ~ In (fst n) G -> is_ctb c = false -> R G k (kput n c xl) (dput n c dl).
Proof.
  intros H Hn Hc. induction H as [| m xl dl k Hm H IH | n0 c0 xl dl k Hc0 H IH | m c0 xl dl k Hm Hc0 H IH].
  - cbn. apply R_user; [exact Hc | constructor].
  - cbn [dput]. rewrite dname_eqb_base by (intro E; apply Hn; rewrite E; exact Hm). apply R_tb; assumption.
  - cbn [kput dput]. destruct (dname_eqb n n0); constructor; assumption.
  - cbn [kput dput]. rewrite dname_eqb_base by (intro E; apply Hn; rewrite E; exact Hm). apply R_gen; assumption.
Qed.

(* a generated detail goes in under a name that is not taken *)
Lemma R_gen_append G k xl dl m c :
  R G k xl dl -> dmem m dl = false -> In (fst m) G -> is_ctb c = false ->
  R G k (xl ++ [(None, fst m, c)]) (dput m c dl).
Proof.
  intros H F I C. rewrite (dput_fresh _ _ _ F). rewrite <- (Nat.add_0_r k).
  apply R_app; [exact H|]. apply R_gen; [exact I | exact C | constructor].
Qed.
Lemma R_tb_append G k xl dl m :
  R G k xl dl -> dmem m dl = false -> In (fst m) G -> R G (k + 1) xl (dput m CTb dl).
Proof.
  intros H F I. rewrite (dput_fresh _ _ _ F). rewrite <- (app_nil_r xl).
  apply R_app; [exact H|]. apply R_tb; [exact I | constructor].
Qed.

(* what the result reads off the dict *)
Definition out_x (f : content -> ocontent) (e : xentry) : odetail := (snd (fst e), f (snd e)).
Definition out_d (f : content -> ocontent) (nc : dname * content) : odetail := (fst (fst nc), f (snd nc)).

Lemma count_cons d a l : count d (a :: l) = (if odetail_eqb d a then 1 else 0) + count d l.
Proof. unfold count. cbn [filter]. destruct (odetail_eqb d a); reflexivity. Qed.

(* every expected entry is in the dict as often as expected *)
Lemma R_count G k xl dl f : R G k xl dl -> forall d, count d (map (out_x f) xl) <= count d (map (out_d f) dl).
Proof.
  induction 1; intros d; cbn [map]; rewrite ?count_cons; unfold out_x, out_d in *; cbn [fst snd] in *;
    try specialize (IHR d); lia.
Qed.

Lemma is_tb_out_d D nc : is_tb (out_d (dresolve D) nc) = is_ctb (snd nc).
Proof. destruct nc as [n c]. destruct c; reflexivity. Qed.
(* ... and exactly the generated tracebacks are traceback entries *)
Lemma R_tbs G k xl dl D : R G k xl dl -> length (filter is_tb (map (out_d (dresolve D)) dl)) = k.
Proof.
  induction 1; cbn [map filter]; rewrite ?is_tb_out_d; cbn [snd is_ctb]; rewrite ?H, ?H0; cbn [length]; congruence.
Qed.

(* ------------------------------------------------------------------ *)
(* the simulation: the statement's reading of the events against the machine's *)
(* ------------------------------------------------------------------ *)
Record Inv (x : xs) (d : dst) (k : nat) : Prop := {
  iv_cells : x_cells x = d_cells d;
  iv_onexc : x_onexc x = d_onexc d;
  iv_calls : x_calls x = d_calls d;
  iv_R : R (x_gen x) k (x_list x) (d_dets d);
  iv_res : ~ In (fst n_reason) (x_gen x) }.

(* the names the event brings along are not the reserved one *)
Definition ev_wf (e : devent) : bool :=
  match e with DUser n _ | DMis n _ | DFx n _ => wf_name n | _ => true end.
(* the machine generates a traceback detail *)
Definition tbev (e : devent) : bool :=
  match e with DTb => true | DExc c => negb (no_traceback c) | _ => false end.

Lemma d_tb_spec d :
  exists lab, d_dets (d_tb d) = dput lab CTb (d_dets d) /\ dmem lab (d_dets d) = false /\ fst lab = fst n_traceback
              /\ d_cells (d_tb d) = d_cells d /\ d_onexc (d_tb d) = d_onexc d /\ d_calls (d_tb d) = d_calls d.
Proof.
  unfold d_tb. destruct (tb_label_spec (d_dets d) (d_tbgen d)) as [F B].
  destruct (tb_label _ _ _ _) as [lab nxt]. exists lab. cbn [fst d_dets d_cells d_onexc d_calls] in *. repeat split; first [assumption | reflexivity].
Qed.

Lemma wf_name_neq n : wf_name n = true -> fst n <> fst n_reason.
Proof. unfold wf_name. intros H E. rewrite E, Nat.eqb_refl in H. discriminate. Qed.

Lemma inv_gen x d k n c c' :
  Inv x d k -> wf_name n = true -> is_ctb c = false -> c = c' ->
  Inv (xgen (fst n) c x) (d_put (unique_name n (d_dets d)) c' d) k.
Proof.
  intros [I1 I2 I3 I4 I5] W C <-. destruct (unique_name_fresh n (d_dets d)) as [F B].
  constructor; cbn [xgen x_cells x_onexc x_calls x_gen x_list d_put d_cells d_onexc d_calls d_dets]; try assumption.
  - rewrite <- B. apply R_gen_append; [|exact F | rewrite B; left; reflexivity | exact C].
    eapply R_mono; [|exact I4]. intros ? ?; right; assumption.
  - intros [E|E]; [exact (wf_name_neq n W E) | exact (I5 E)].
Qed.

Lemma inv_tb x d k x' :
  Inv x d k -> x_cells x' = x_cells x -> x_onexc x' = x_onexc x -> x_calls x' = x_calls x ->
  x_list x' = x_list x -> x_gen x' = fst n_traceback :: x_gen x ->
  Inv x' (d_tb d) (k + 1).
Proof.
  intros [I1 I2 I3 I4 I5] E1 E2 E3 E4 E5. destruct (d_tb_spec d) as (lab & T1 & T2 & T3 & T4 & T5 & T6).
  constructor; rewrite ?E1, ?E2, ?E3, ?E4, ?E5, ?T1, ?T4, ?T5, ?T6; try assumption.
  - apply R_tb_append; [|exact T2 | rewrite T3; left; reflexivity].
    eapply R_mono; [|exact I4]. intros ? ?; right; assumption.
  - intros [E|E]; [discriminate | exact (I5 E)].
Qed.

Lemma inv_step x d k e :
  Inv x d k -> ev_wf e = true -> x_f14 (xstep x e) = false ->
  Inv (xstep x e) (papply d e) (k + (if tbev e then 1 else 0)).
Proof.
  intros I W F. destruct e as [n loc | loc v | n loc | | n loc | | r | h | c]; cbn [tbev]; rewrite ?Nat.add_0_r.
  - (* the test attaches a detail *)
    destruct I as [I1 I2 I3 I4 I5]. cbn [xstep x_f14] in F. apply orb_false_iff in F as [_ F].
    constructor; cbn [xstep papply d_put x_cells x_onexc x_calls x_gen x_list d_cells d_onexc d_calls d_dets]; try assumption.
    apply R_put; [exact I4 | | reflexivity].
    intros HIn. assert (T : existsb (Nat.eqb (fst n)) (x_gen x) = true); [|congruence].
    apply existsb_exists. exists (fst n). split; [exact HIn | apply Nat.eqb_refl].
  - destruct I as [I1 I2 I3 I4 I5].
    constructor; cbn [xstep papply x_cells x_onexc x_calls x_gen x_list d_cells d_onexc d_calls d_dets]; try assumption.
    now rewrite I1.
  - apply inv_gen; [exact I | exact W | reflexivity | reflexivity].
  - apply (inv_gen x d k n_failed_expectation CStack CStack I); reflexivity.
  - cbn [xstep papply]. apply inv_gen; [exact I | exact W | reflexivity|].
    unfold xcell, dcell. now rewrite (iv_cells _ _ _ I).
  - apply (inv_tb x d k _ I); reflexivity.
  - destruct I as [I1 I2 I3 I4 I5].
    constructor; cbn [xstep papply d_put x_cells x_onexc x_calls x_gen x_list d_cells d_onexc d_calls d_dets]; try assumption.
    apply R_put; [exact I4 | exact I5 | reflexivity].
  - destruct I as [I1 I2 I3 I4 I5].
    constructor; cbn [xstep papply x_cells x_onexc x_calls x_gen x_list d_cells d_onexc d_calls d_dets]; try assumption.
    now rewrite I2.
  - (* an exception is caught: traceback unless it is a signal, then the handlers *)
    cbn [papply]. destruct (no_traceback c); cbn [negb]; rewrite ?Nat.add_0_r.
    + destruct I as [I1 I2 I3 I4 I5].
      constructor; cbn [xstep x_cells x_onexc x_calls x_gen x_list d_cells d_onexc d_calls d_dets]; try assumption.
      * now rewrite I2, I3.
      * eapply R_mono; [|exact I4]. intros ? ?; right; assumption.
      * intros [E|E]; [discriminate | exact (I5 E)].
    + assert (T : Inv {| x_list := x_list x; x_cells := x_cells x; x_gen := fst n_traceback :: x_gen x;
                         x_f14 := x_f14 x; x_onexc := x_onexc x; x_calls := x_calls x |} (d_tb d) (k + 1))
        by (apply (inv_tb x d k _ I); reflexivity).
      destruct T as [T1 T2 T3 T4 T5]. cbn [x_cells x_onexc x_calls x_gen x_list] in *.
      constructor; cbn [xstep x_cells x_onexc x_calls x_gen x_list d_cells d_onexc d_calls d_dets]; try assumption.
      now rewrite T2, T3.
Qed.

Lemma f14_step x e : x_f14 (xstep x e) = false -> x_f14 x = false.
Proof. destruct e; cbn [xstep x_f14 xgen xmark]; try tauto. intros H. now apply orb_false_iff in H. Qed.
Lemma f14_mono l : forall x, x_f14 (fold_left xstep l x) = false -> x_f14 x = false.
Proof. induction l as [|e r IH]; intros x H; [exact H|]. apply (f14_step x e). apply IH. exact H. Qed.

Lemma inv_run l : forall x d k,
  Inv x d k -> Forall (fun e => ev_wf e = true) l -> x_f14 (fold_left xstep l x) = false ->
  Inv (fold_left xstep l x) (prun l d) (k + length (filter tbev l)).
Proof.
  induction l as [|e r IH]; intros x d k I W F; cbn [fold_left prun filter length]; [now rewrite Nat.add_0_r|].
  inversion W as [|? ? We Wr]; subst. cbn [fold_left] in F.
  pose proof (inv_step x d k e I We (f14_mono r _ F)) as I'.
  specialize (IH _ _ _ I' Wr F). unfold prun in IH.
  destruct (tbev e); cbn [length]; [|rewrite Nat.add_0_r in IH; exact IH].
  replace (k + S (length (filter tbev r))) with (k + 1 + length (filter tbev r)) by lia. exact IH.
Qed.

(* ------------------------------------------------------------------ *)
(* well-formed programs bring only well-formed names                    *)
(* ------------------------------------------------------------------ *)
Definition nl_wf (l : list (dname * nat)) : bool := forallb (fun nl => wf_name (fst nl)) l.

Lemma nl_put_wf n loc l : wf_name n = true -> nl_wf l = true -> nl_wf (nl_put n loc l) = true.
Proof.
  intros W. induction l as [|[m x] r IH]; cbn [nl_put nl_wf forallb fst]; intros H.
  - now rewrite W.
  - apply andb_true_iff in H as [H1 H2]. destruct (dname_eqb n m); cbn [forallb fst]; rewrite H1; [exact H2 | exact (IH H2)].
Qed.
Lemma nl_dict_wf l : nl_wf l = true -> nl_wf (nl_dict l) = true.
Proof.
  unfold nl_dict. assert (G : forall acc, nl_wf acc = true -> nl_wf l = true ->
                              nl_wf (fold_left (fun d nl => nl_put (fst nl) (snd nl) d) l acc) = true).
  { induction l as [|[n loc] r IH]; intros acc Ha Hl; [exact Ha|]. cbn [fold_left fst snd].
    cbn [nl_wf forallb fst] in Hl. apply andb_true_iff in Hl as [H1 H2]. apply IH; [apply nl_put_wf; assumption | exact H2]. }
  apply G. reflexivity.
Qed.

Definition evs_wf (l : list devent) : Prop := Forall (fun e => ev_wf e = true) l.
Lemma evs_wf_app a b : evs_wf a -> evs_wf b -> evs_wf (a ++ b).
Proof. intros; apply Forall_app; split; assumption. Qed.
Lemma evs_wf_flat_map {A} (f : A -> list devent) l : (forall a, In a l -> evs_wf (f a)) -> evs_wf (flat_map f l).
Proof.
  induction l as [|a r IH]; intros H; cbn [flat_map]; [constructor|].
  apply evs_wf_app; [apply H; left; reflexivity | apply IH; intros; apply H; right; assumption].
Qed.
Lemma exc_events_wf r : evs_wf (exc_events r).
Proof. unfold exc_events, evs_wf. apply Forall_forall. intros e H. apply in_map_iff in H as (x & <- & _). reflexivity. Qed.
Lemma mm_events_wf mm : nl_wf mm = true -> evs_wf (mm_events mm).
Proof.
  intros H. apply nl_dict_wf in H. unfold mm_events, evs_wf, nl_wf in *. rewrite forallb_forall in H.
  apply Forall_forall. intros e He. apply in_map_iff in He as (x & <- & Hx). exact (H x Hx).
Qed.
Lemma fx_events_wf fx : nl_wf (fx_details fx) = true -> evs_wf (fx_events fx).
Proof.
  intros H. apply nl_dict_wf in H. unfold fx_events, evs_wf, nl_wf in *. rewrite forallb_forall in H.
  apply Forall_forall. intros e He. apply in_map_iff in He as (x & <- & Hx). apply (H x).
  unfold fx_good in Hx. destruct (fx_bad fx) as [[k g]|]; [|exact Hx].
  rewrite <- (firstn_skipn k (nl_dict (fx_details fx))). apply in_or_app. left. exact Hx.
Qed.

Definition acts_wf (l : list act) : bool := forallb wf_names_act l.
Lemma wf_names_cleanup t body : wf_names_act (ACleanup t body) = acts_wf body.
Proof. cbn [wf_names_act]. induction body as [|x r IH]; [reflexivity|]. cbn [acts_wf forallb]. now rewrite IH. Qed.

Lemma act_events_wf a : wf_names_act a = true -> evs_wf (act_events a).
Proof.
  destruct a as [n loc | loc v | mm | mm | t body | x v | fx | h | | c o | r p | pk | e]; cbn [wf_names_act act_events]; intros H;
    try (repeat constructor; fail).
  - repeat constructor. exact H.
  - apply evs_wf_app; [now apply mm_events_wf | repeat constructor].
  - now apply mm_events_wf.
  - destruct (fx_fail fx); [|constructor]. apply evs_wf_app; [now apply fx_events_wf|].
    destruct (fx_eval_raise fx); repeat constructor.
  - destruct p as [e|]; [destruct (isinstance e CFail)|]; repeat constructor.
Qed.
Lemma executed_incl l : incl (executed l) l.
Proof.
  induction l as [|a r IH]; cbn [executed]; [intros ? []|]. destruct (act_raise a).
  - intros x [<-|[]]. left; reflexivity.
  - intros x [<-|H]; [left; reflexivity | right; apply IH; exact H].
Qed.
Lemma acts_events_wf l : acts_wf l = true -> evs_wf (acts_events l).
Proof.
  intros H. unfold acts_events. apply evs_wf_flat_map. intros a Ha. apply act_events_wf.
  unfold acts_wf in H. rewrite forallb_forall in H. apply H. apply executed_incl. exact Ha.
Qed.

Definition entry_wf (e : entry) : bool :=
  match e with
  | EUser _ b => acts_wf b
  | EGather fx | EFx fx => nl_wf (fx_details fx)
  | ERestore _ => true
  end.
Lemma pending_wf_list l :
  Forall (fun a => wf_names_act a = true -> forallb entry_wf (act_entries a) = true) l ->
  acts_wf l = true -> forallb entry_wf (pending l) = true.
Proof.
  induction 1 as [|x r Hx Hr IH]; intros W; [reflexivity|]. cbn [pending].
  cbn [acts_wf forallb] in W. apply andb_true_iff in W as [W1 W2].
  destruct (act_raise x); [reflexivity|]. rewrite forallb_app, (IH W2), (Hx W1). reflexivity.
Qed.
Lemma act_entries_wf a : wf_names_act a = true -> forallb entry_wf (act_entries a) = true.
Proof.
  induction a as [t body IH | a Ha] using act_nest_ind; intros W.
  - rewrite act_entries_cleanup. rewrite wf_names_cleanup in W. cbn [forallb entry_wf]. rewrite W.
    apply pending_wf_list; assumption.
  - destruct a; try (exfalso; eapply Ha; reflexivity); try reflexivity.
    cbn [act_entries]. destruct (fixture_raise fx); [reflexivity|]. cbn [forallb entry_wf wf_names_act] in *.
    fold (nl_wf (fx_details fx)) in W. now rewrite W.
Qed.
Lemma pending_wf l : acts_wf l = true -> forallb entry_wf (pending l) = true.
Proof. apply pending_wf_list. apply Forall_forall. intros a _. apply act_entries_wf. Qed.

Lemma entry_events_wf e : entry_wf e = true -> evs_wf (entry_events e).
Proof.
  destruct e as [t b | a | fx | fx]; cbn [entry_wf entry_events]; intros H.
  - apply evs_wf_app; [now apply acts_events_wf | apply exc_events_wf].
  - constructor.
  - apply evs_wf_app; [now apply fx_events_wf | apply exc_events_wf].
  - apply exc_events_wf.
Qed.

Lemma events_wf i : wf i = true -> evs_wf (events (i_prog i)).
Proof.
  unfold wf. rewrite !andb_true_iff. intros [[[_ W1] W2] W3]. set (p := i_prog i) in *.
  fold (acts_wf (snd (p_setup p))) in W1. fold (acts_wf (snd (p_body p))) in W2. fold (acts_wf (snd (p_teardown p))) in W3.
  unfold events. destruct (skipped p); [constructor|].
  assert (CE : forallb entry_wf (cleanup_entries p) = true).
  { unfold cleanup_entries. destruct (setup_returns p); rewrite ?forallb_app, ?pending_wf by assumption; reflexivity. }
  repeat apply evs_wf_app; try apply exc_events_wf; try (apply acts_events_wf; assumption).
  - destruct (setup_returns p); [|constructor].
    unfold body_events. repeat apply evs_wf_app; try apply exc_events_wf; try (apply acts_events_wf; assumption).
    destruct (p_xfail p); [|constructor]. destruct (acts_raise _) as [e|]; [|constructor].
    destruct (isinstance e CException); repeat constructor.
  - apply evs_wf_flat_map. intros e He. apply entry_events_wf. rewrite forallb_forall in CE. exact (CE e He).
Qed.

(* ------------------------------------------------------------------ *)
(* the handler that reports: which exception, whether it records a skip reason *)
(* ------------------------------------------------------------------ *)
Lemma table_reason :
  forallb (fun h => Bool.eqb (h_reason h) (match h_out h with Some OSkip => true | _ => false end)) generated_handlers = true.
Proof. vm_compute. reflexivity. Qed.
Lemma table_signals :
  forallb (fun h => match cls_of_hclass h with
                    | Some d => match standard_outcome d with OFail | OErr => false | _ => true end
                    | None => true
                    end) no_traceback_classes = true.
Proof. vm_compute. reflexivity. Qed.

Lemma choose_reported p : choose (handlers_of (user_handlers p)) (raised p) = reported p.
Proof.
  unfold reported. destruct (raised p) as [|x r] eqn:E; [reflexivity|]. rewrite <- E.
  rewrite choose_spec by (rewrite E; discriminate).
  rewrite (find_ext' _ (fun e => negb (claimed p e))); [rewrite E; reflexivity|].
  intros e. now rewrite claims_handlers_of, uclaimed_claimed.
Qed.

(* the handler found for [e] records the skip reason iff nobody inserted a handler for it and it
   stands for a skip by its class *)
Lemma lookup_reason p e :
  match lookup (handlers_of (user_handlers p)) e with
  | Some h => h_reason h
  | None => false
  end = match user_claim p e with
        | Some _ => false
        | None => match standard_outcome (cls_of e) with OSkip => true | _ => false end
        end.
Proof.
  unfold lookup, handlers_of, user_claim. rewrite find_app, find_map. cbn [user_handler h_cls].
  destruct (find (fun a => isinstance e (fst a)) (user_handlers p)) as [co|]; cbn [option_map]; [reflexivity|].
  pose proof (table_outcome_spec (cls_of e)) as T. unfold table_outcome in T.
  change (fun h => subclass (cls_of e) (h_cls h)) with (fun h => isinstance e (h_cls h)) in T.
  destruct (find (fun h => isinstance e (h_cls h)) generated_handlers) as [h|] eqn:F.
  - pose proof table_reason as TR. rewrite forallb_forall in TR. apply find_some in F as [Hin _].
    specialize (TR h Hin). apply eqb_prop in TR. rewrite TR, T. reflexivity.
  - assert (N : isinstance e CException = false).
    { rewrite <- generated_claims, existsb_find, F. reflexivity. }
    rewrite (not_exception_is_error _ N). reflexivity.
Qed.

(* ------------------------------------------------------------------ *)
(* the trace of a run                                                   *)
(* ------------------------------------------------------------------ *)
Definition not_out (e : tev) : Prop := match e with TOut _ _ => False | _ => True end.
Lemma no_out_of_calls t : calls t = [TStart] -> Forall not_out t.
Proof.
  intros H. apply Forall_forall. intros e He. destruct e; cbn; auto.
  assert (I : In (TOut o d) (calls t)) by (apply filter_In; split; [exact He | reflexivity]).
  rewrite H in I. destruct I as [I|[]]. discriminate.
Qed.
Lemma before_out_app a b : Forall not_out a -> before_out (a ++ b) = a ++ before_out b.
Proof. induction 1 as [|e r He Hr IH]; [reflexivity|]. destruct e; cbn in *; try contradiction; now rewrite IH. Qed.
Lemma after_out_app a b : Forall not_out a -> after_out (a ++ b) = after_out b.
Proof. induction 1 as [|e r He Hr IH]; [reflexivity|]. destruct e; cbn in *; try contradiction; exact IH. Qed.
Lemma first_out_app a b : Forall not_out a -> first_out (a ++ b) = first_out b.
Proof. induction 1 as [|e r He Hr IH]; [reflexivity|]. destruct e; cbn in *; try contradiction; exact IH. Qed.
Lemma n_outs_app a b : Forall not_out a -> n_outs (a ++ b) = n_outs b.
Proof.
  unfold n_outs. induction 1 as [|e r He Hr IH]; [reflexivity|]. destruct e; cbn in *; try contradiction; exact IH.
Qed.

(* the detail part of a fresh instance *)
Definition d0 : dst := {| d_dets := []; d_tbgen := 0; d_cells := []; d_onexc := []; d_calls := [] |}.
Definition dfinal (p : prog) : dst := prun (events p) d0.
(* the dict handed over with the outcome *)
Definition dreport (p : prog) : dst :=
  match skip_reason p with Some r => d_put n_reason (CReason r) (dfinal p) | None => dfinal p end.
Definition delivered (p : prog) : list (dname * ocontent) :=
  match p_skip p with
  | Some r => [(n_reason, OReason (Some r))]
  | None => details_at (dreport p)
  end.

Lemma skip_reason_none p : reported p = None -> skip_reason p = None.
Proof. unfold skip_reason. now intros ->. Qed.

(* what the model observes, in closed form: one outcome call carrying [delivered p], preceded by
   all handler calls *)
Theorem model_obs i :
  model i = {| o_outs := 1;
               o_details := map (fun nc => (fst (fst nc), snd nc)) (delivered (i_prog i));
               o_calls := d_calls (dfinal (i_prog i));
               o_late := 0 |}.
Proof.
  unfold model, run. set (p := i_prog i).
  pose proof (run_from_spec p (init p [])) as H. cbv zeta in H.
  destruct H as (s & tr0 & Rn & _ & _ & _ & _ & _ & _ & T & C & HC & _).
  rewrite Rn. cbn [tr force uh init calls filter app] in *.
  rewrite collected_run_fresh, run_events_fresh in *.
  change (proj (reset (init p []))) with d0 in *. fold (dfinal p) in *. fold (user_handlers p) in *.
  pose proof (no_out_of_calls _ C) as NO.
  (* the outcome call *)
  assert (O : exists o, fst (fst (conclude p (handlers_of (user_handlers p)) (raised p) (dfinal p)))
                        = [TOut o (delivered p)]).
  { unfold conclude, delivered, dreport. destruct (p_skip p) as [r|]; [eexists; reflexivity|].
    rewrite choose_reported. destruct (reported p) as [e|] eqn:Rp.
    - pose proof (lookup_reason p e) as LR. pose proof (lookup_handlers_of (user_handlers p) e) as LO.
      unfold skip_reason. rewrite Rp.
      destruct (lookup (handlers_of (user_handlers p)) e) as [h|]; cbn [fst].
      + rewrite LO. eexists. f_equal. f_equal. rewrite LR.
        destruct (user_claim p e); [reflexivity|]. destruct (standard_outcome (cls_of e)); reflexivity.
      + rewrite LO. eexists. f_equal. f_equal.
        destruct (user_claim p e); [reflexivity|]. destruct (standard_outcome (cls_of e)); try reflexivity. discriminate.
    - rewrite (skip_reason_none p Rp). eexists; reflexivity. }
  destruct O as [o O]. rewrite O in T. rewrite T.
  rewrite n_outs_app, first_out_app, before_out_app, after_out_app by exact NO.
  cbn [app n_outs filter length first_out before_out after_out]. rewrite app_nil_r.
  f_equal. exact HC.
Qed.

(* ------------------------------------------------------------------ *)
(* the model meets the statement outside F14                            *)
(* ------------------------------------------------------------------ *)
Lemma inv0 : Inv x0 d0 0.
Proof. constructor; try reflexivity; [constructor | intros []]. Qed.

Lemma inv_final i :
  wf i = true -> x_f14 (xrun (i_prog i)) = false ->
  Inv (xrun (i_prog i)) (dfinal (i_prog i)) (length (filter tbev (events (i_prog i)))).
Proof. intros W F. exact (inv_run _ _ _ _ inv0 (events_wf i W) F). Qed.

(* the handler calls do not depend on the details at all *)
Lemma calls_run l : forall x d,
  x_onexc x = d_onexc d -> x_calls x = d_calls d ->
  x_onexc (fold_left xstep l x) = d_onexc (prun l d) /\ x_calls (fold_left xstep l x) = d_calls (prun l d).
Proof.
  induction l as [|e r IH]; intros x d H1 H2; [split; assumption|]. cbn [fold_left prun]. apply IH.
  - destruct e; cbn [xstep papply xgen xmark d_put x_onexc d_onexc]; try assumption; try (now rewrite H1).
    + unfold d_tb. destruct (tb_label _ _ _ _). exact H1.
    + destruct (no_traceback c); [exact H1|]. unfold d_tb. destruct (tb_label _ _ _ _). exact H1.
  - destruct e; cbn [xstep papply xgen xmark d_put x_calls d_calls]; try assumption.
    + unfold d_tb. destruct (tb_label _ _ _ _). exact H2.
    + destruct (no_traceback c); [now rewrite H1, H2|]. unfold d_tb. destruct (tb_label _ _ _ _).
      cbn [d_calls d_onexc]. now rewrite H1, H2.
Qed.
Theorem calls_final p : d_calls (dfinal p) = x_calls (xrun p).
Proof. symmetry. apply (calls_run (events p) x0 d0); reflexivity. Qed.

Lemma resolve_agree x d : x_cells x = d_cells d -> forall c, xresolve x c = dresolve d c.
Proof. intros H c. destruct c; cbn; unfold xcell, dcell; rewrite ?H; reflexivity. Qed.

(* a traceback is generated for everything that needs one, and only for exceptions and assertions *)
Lemma needs_tbev e : needs_tb e = true -> tbev e = true.
Proof.
  destruct e as [| | | | | | | | c]; cbn [needs_tb tbev]; try discriminate; try reflexivity. intros H.
  destruct (no_traceback c) eqn:N; [|reflexivity]. exfalso. unfold no_traceback in N.
  apply existsb_exists in N as (h & Hin & Hh). pose proof table_signals as T. rewrite forallb_forall in T.
  specialize (T h Hin). destruct (cls_of_hclass h) as [d|]; [|discriminate].
  apply cls_eqb_spec in Hh. subst d. destruct (standard_outcome c); discriminate.
Qed.
Lemma tbev_may e : tbev e = true -> may_tb e = true.
Proof. destruct e; cbn; try discriminate; reflexivity. Qed.
Lemma filter_le {A} (f g : A -> bool) l : (forall a, f a = true -> g a = true) -> length (filter f l) <= length (filter g l).
Proof.
  intros H. induction l as [|a r IH]; [apply le_n|]. cbn [filter]. destruct (f a) eqn:E.
  - rewrite (H a E). cbn [length]. lia.
  - destruct (g a); cbn [length]; lia.
Qed.

(* the dict delivered against the list expected (not skip-decorated) *)
Lemma delivered_R i :
  wf i = true -> x_f14 (xrun (i_prog i)) = false ->
  let p := i_prog i in
  let x := xrun p in
  x_cells x = d_cells (dreport p)
  /\ R (x_gen x) (length (filter tbev (events p)))
       (match skip_reason p with Some r => kput n_reason (CReason r) (x_list x) | None => x_list x end)
       (d_dets (dreport p)).
Proof.
  intros W F. cbv zeta. destruct (inv_final i W F) as [I1 I2 I3 I4 I5]. unfold dreport.
  destruct (skip_reason (i_prog i)) as [r|]; cbn [d_put d_cells d_dets]; split; try assumption.
  apply R_put; [exact I4 | exact I5 | reflexivity].
Qed.

Lemma details_out D :
  map (fun nc : dname * ocontent => (fst (fst nc), snd nc)) (details_at D) = map (out_d (dresolve D)) (d_dets D).
Proof. unfold details_at. rewrite map_map. reflexivity. Qed.
Lemma expected_out p :
  p_skip p = None ->
  expected_details p
  = map (out_x (xresolve (xrun p)))
        (match skip_reason p with Some r => kput n_reason (CReason r) (x_list (xrun p)) | None => x_list (xrun p) end).
Proof. unfold expected_details. intros ->. reflexivity. Qed.

Theorem model_meets_spec i : wf i = true -> finding_F14 i = false -> spec_okb i (model i) = true.
Proof.
  intros W F. unfold spec_okb. cbv zeta. rewrite model_obs. cbn [o_outs o_details o_calls o_late].
  set (p := i_prog i) in *. rewrite calls_final.
  rewrite (proj2 (list_eqb_spec call_eqb call_eqb_spec _ _) eq_refl). cbn [Nat.eqb andb]. rewrite !andb_true_r.
  unfold finding_F14 in F. fold p in F.
  destruct (p_skip p) as [r|] eqn:Sk.
  - (* skip-decorated: the reason *)
    assert (E : events p = []) by (unfold events, skipped; now rewrite Sk).
    unfold expected_details, delivered. rewrite Sk, E. cbn.
    rewrite Nat.eqb_refl. reflexivity.
  - assert (E : skipped p = false) by (unfold skipped; now rewrite Sk). rewrite E in F. cbn [negb andb] in F.
    destruct (delivered_R i W F) as [Hc HR]. fold p in Hc, HR.
    rewrite (expected_out p Sk). unfold delivered. rewrite Sk, details_out.
    set (x := xrun p) in *.
    set (xl := match skip_reason p with Some r => kput n_reason (CReason r) (x_list x) | None => x_list x end) in *.
    assert (Ex : map (out_x (xresolve x)) xl = map (out_x (dresolve (dreport p))) xl).
    { apply map_ext. intros e. unfold out_x. now rewrite (resolve_agree x (dreport p) Hc). }
    rewrite Ex, (R_tbs _ _ _ _ (dreport p) HR).
    apply andb_true_iff; split; [apply andb_true_iff; split|].
    + apply forallb_forall. intros d _. apply Nat.leb_le. exact (R_count _ _ _ _ _ HR d).
    + apply Nat.leb_le. apply filter_le, needs_tbev.
    + apply Nat.leb_le. apply filter_le, tbev_may.
Qed.

(* ------------------------------------------------------------------ *)
(* the clauses one by one                                               *)
(* ------------------------------------------------------------------ *)
(* C05_carried: every expected detail arrives as often as expected, and the outcome carries exactly
   one traceback detail per traceback the machine generates *)
Theorem carried i :
  wf i = true -> finding_F14 i = false ->
  (forall d, count d (expected_details (i_prog i)) <= count d (o_details (model i)))
  /\ length (filter is_tb (o_details (model i))) = length (filter tbev (events (i_prog i))).
Proof.
  intros W F. rewrite model_obs. cbn [o_details]. set (p := i_prog i) in *.
  unfold finding_F14 in F. fold p in F.
  destruct (p_skip p) as [r|] eqn:Sk.
  - assert (E : events p = []) by (unfold events, skipped; now rewrite Sk).
    unfold expected_details, delivered. rewrite Sk, E. cbn. split; [intros d; apply le_n | reflexivity].
  - assert (E : skipped p = false) by (unfold skipped; now rewrite Sk). rewrite E in F. cbn [negb andb] in F.
    destruct (delivered_R i W F) as [Hc HR]. fold p in Hc, HR.
    rewrite (expected_out p Sk). unfold delivered. rewrite Sk, details_out.
    set (x := xrun p) in *.
    set (xl := match skip_reason p with Some r => kput n_reason (CReason r) (x_list x) | None => x_list x end) in *.
    assert (Ex : map (out_x (xresolve x)) xl = map (out_x (dresolve (dreport p))) xl).
    { apply map_ext. intros e. unfold out_x. now rewrite (resolve_agree x (dreport p) Hc). }
    rewrite Ex. split; [intros d; exact (R_count _ _ _ _ _ HR d) | exact (R_tbs _ _ _ _ (dreport p) HR)].
Qed.

(* C05_no_clobber: whatever the dict holds, a generated detail (mismatch, expectation, fixture,
   traceback) only ever appends to it *)
Definition generated_ev (e : devent) : bool := match e with DUser _ _ | DReason _ => false | _ => true end.
Theorem no_clobber d e : generated_ev e = true -> exists l, d_dets (papply d e) = d_dets d ++ l.
Proof.
  assert (T : exists l, d_dets (d_tb d) = d_dets d ++ l).
  { destruct (d_tb_spec d) as (lab & T1 & T2 & _). rewrite T1, (dput_fresh _ _ _ T2). eexists; reflexivity. }
  destruct e as [n loc | loc v | n loc | | n loc | | r | h | c]; cbn [generated_ev papply d_put d_dets]; try discriminate; intros _;
    try (exists []; now rewrite app_nil_r);
    try (rewrite (dput_fresh _ _ _ (proj1 (unique_name_fresh _ _))); eexists; reflexivity).
  - exact T.
  - destruct (no_traceback c); [exists []; now rewrite app_nil_r | exact T].
Qed.

(* C05_on_exception: for EVERY program - one outcome call; each handler called once per exception
   caught after its registration, in order; every call before the outcome *)
Theorem on_exception i :
  o_outs (model i) = 1 /\ o_calls (model i) = x_calls (xrun (i_prog i)) /\ o_late (model i) = 0.
Proof. rewrite model_obs. cbn [o_outs o_calls o_late]. rewrite calls_final. auto. Qed.

(* C05_bytes_at_report: the result reads the dict as it is when the outcome is reported - a lazy
   content yields what its cell holds then, a gathered fixture detail what the cell held when it
   was gathered *)
Theorem bytes_at_report :
  (forall i, o_details (model i) = map (fun nc => (fst (fst nc), snd nc)) (delivered (i_prog i)))
  /\ (forall p, p_skip p = None ->
        delivered p = map (fun nc => (fst nc, dresolve (dreport p) (snd nc))) (d_dets (dreport p))
        /\ d_cells (dreport p) = d_cells (dfinal p))
  /\ (forall D loc v, dresolve D (CLazy loc) = OBytes (dcell loc D) /\ dresolve D (CSnap v) = OBytes v)
  /\ (forall d n loc, In (unique_name n (d_dets d), CSnap (dcell loc d)) (d_dets (papply d (DFx n loc)))).
Proof.
  split; [intros i; now rewrite model_obs|]. split; [|split].
  - intros p Sk. unfold delivered, dreport. rewrite Sk. split; [reflexivity|]. destruct (skip_reason p); reflexivity.
  - intros; split; reflexivity.
  - intros d n loc. cbn [papply d_put d_dets].
    rewrite (dput_fresh _ _ _ (proj1 (unique_name_fresh n (d_dets d)))). apply in_or_app. right. left. reflexivity.
Qed.

(* C05_unique_fresh *)
Theorem unique_fresh :
  (forall n d, dmem (unique_name n d) d = false /\ fst (unique_name n d) = fst n)
  /\ (forall d id, dmem (fst (tb_label (length d) id n_traceback d)) d = false
                   /\ fst (fst (tb_label (length d) id n_traceback d)) = fst n_traceback).
Proof. exact (conj unique_name_fresh tb_label_spec). Qed.

(* ------------------------------------------------------------------ *)
(* known finding F14: inside the delimited class the statement is false of the model *)
(* ------------------------------------------------------------------ *)
Definition witness_F14 : input :=
  {| i_prog := {| p_skip := None; p_xfail := false;
                  p_setup := (1, [ACleanup 10 [ADetail n_traceback 1]]); p_up_setup := true;
                  p_body := (2, [ARaise (Exc CFail (Some 1))]);
                  p_teardown := (3, []); p_up_teardown := true; p_handlers := [] |} |}.
Theorem refuted_F14 : exists i, wf i = true /\ finding_F14 i = true /\ spec_okb i (model i) = false.
Proof. exists witness_F14. vm_compute. auto. Qed.
