(* C05 - proofs. *)
From TT Require Import Lib.Base Gen.Handlers Model.Run Spec.Run Spec.C05 Corr.C05 Proof.RunCore Proof.RunExtra Proof.RunTable.

(* ---------- comparisons ---------- *)
Lemma ocontent_eqb_spec a b : ocontent_eqb a b = true <-> a = b.
Proof.
  destruct a as [x| | |x], b as [y| | |y]; simpl; split; intro H; try discriminate; try reflexivity.
  - apply Nat.eqb_eq in H; congruence.
  - injection H as ->; apply Nat.eqb_refl.
  - apply (option_eqb_spec Nat.eqb Nat.eqb_eq) in H; congruence.
  - injection H as ->. apply (option_eqb_spec Nat.eqb Nat.eqb_eq); reflexivity.
Qed.
Lemma odetail_eqb_spec a b : odetail_eqb a b = true <-> a = b.
Proof. apply pair_eqb_spec; [apply Nat.eqb_eq | apply ocontent_eqb_spec]. Qed.
Lemma call_eqb_spec a b : call_eqb a b = true <-> a = b.
Proof. apply pair_eqb_spec; [apply Nat.eqb_eq | intros; apply cls_eqb_spec]. Qed.

(* what the comparison of observations identifies: the details as a multiset of (base name, content) *)
Definition obs_equiv (a b : obs) : Prop :=
  o_outs a = o_outs b /\ (forall d, count d (o_details a) = count d (o_details b))
  /\ o_calls a = o_calls b /\ o_late a = o_late b.

Lemma count_notin d l : ~ In d l -> count d l = 0.
Proof.
  unfold count. induction l as [|x r IH]; simpl; intros H; [reflexivity|].
  destruct (odetail_eqb d x) eqn:E.
  - apply odetail_eqb_spec in E. subst. tauto.
  - apply IH. tauto.
Qed.

Lemma odetail_dec (a b : odetail) : {a = b} + {a <> b}.
Proof.
  destruct (odetail_eqb a b) eqn:E; [left; now apply odetail_eqb_spec | right; intro H].
  apply odetail_eqb_spec in H. congruence.
Qed.

Lemma same_details_spec a b : same_details a b = true <-> forall d, count d a = count d b.
Proof.
  unfold same_details. rewrite forallb_forall. split.
  - intros H d. destruct (in_dec odetail_dec d (a ++ b)) as [I|N].
    + apply Nat.eqb_eq. exact (H d I).
    + rewrite !count_notin; [reflexivity | |]; intro; apply N; apply in_or_app; tauto.
  - intros H d _. apply Nat.eqb_eq. apply H.
Qed.

Lemma obs_eqb_spec a b : obs_eqb a b = true <-> obs_equiv a b.
Proof.
  unfold obs_eqb, obs_equiv. rewrite !andb_true_iff, !Nat.eqb_eq, same_details_spec,
    (list_eqb_spec call_eqb call_eqb_spec). tauto.
Qed.

(* ---------- the executable statement implies the readable one ---------- *)
Theorem spec_okb_sound i o : spec_okb i o = true -> Spec i o.
Proof.
  unfold spec_okb, Spec. cbv zeta. rewrite !andb_true_iff, !Nat.eqb_eq, forallb_forall, !Nat.leb_le,
    (list_eqb_spec call_eqb call_eqb_spec).
  intros [[[[[H1 H2] H3] H4] H5] H6]. repeat split; try assumption.
  intros d Hd. apply Nat.leb_le. exact (H2 d Hd).
Qed.

(* ------------------------------------------------------------------ *)
(* names                                                                *)
(* ------------------------------------------------------------------ *)
Lemma dname_eqb_spec a b : dname_eqb a b = true <-> a = b.
Proof.
  destruct a as [a1 a2], b as [b1 b2]; unfold dname_eqb; cbn [fst snd].
  rewrite andb_true_iff, Nat.eqb_eq, (list_eqb_spec Nat.eqb Nat.eqb_eq).
  split; [intros [-> ->]; reflexivity | intros H; injection H; auto].
Qed.
Lemma dname_eqb_refl a : dname_eqb a a = true.
Proof. now apply dname_eqb_spec. Qed.
Lemma dname_eqb_neq a b : a <> b -> dname_eqb a b = false.
Proof. intros H. destruct (dname_eqb a b) eqn:E; [apply dname_eqb_spec in E; contradiction | reflexivity]. Qed.
Lemma dname_eqb_base a b : fst a <> fst b -> dname_eqb a b = false.
Proof. intros H. apply dname_eqb_neq. congruence. Qed.

Lemma dmem_in n d : dmem n d = true <-> In n (map fst d).
Proof.
  induction d as [|[m c] r IH]; simpl; [split; [discriminate | tauto]|].
  rewrite orb_true_iff, IH, dname_eqb_spec. split; intros [H|H]; auto.
Qed.
Lemma dput_fresh n c d : dmem n d = false -> dput n c d = d ++ [(n, c)].
Proof.
  induction d as [|[m x] r IH]; simpl; [reflexivity|]. intros H. apply orb_false_iff in H as [H1 H2].
  rewrite H1, (IH H2). reflexivity.
Qed.

(* ------------------------------------------------------------------ *)
(* C05_unique_fresh: the unique-name loops return a name that is not taken (pigeonhole) *)
(* ------------------------------------------------------------------ *)
Lemma suffixed_inj n j k : suffixed n j = suffixed n k -> j = k.
Proof. unfold suffixed. intros H. injection H as H. apply app_inj_tail in H. tauto. Qed.
Lemma suffixed_longer n k : length (snd (suffixed n k)) = S (length (snd n)).
Proof. unfold suffixed. cbn [snd]. rewrite app_length. simpl. lia. Qed.
Lemma suffixed_neq n k : n <> suffixed n k.
Proof. intros H. apply (f_equal (fun x => length (snd x))) in H. rewrite suffixed_longer in H. lia. Qed.

(* addDetailUniqueName / gather_details: [seen] are candidates already found taken *)
Lemma first_free_fresh n d : forall fuel k seen,
  NoDup seen -> incl seen (map fst d) ->
  (forall m j, In m seen -> k <= j -> m <> suffixed n j) ->
  length d < length seen + fuel ->
  dmem (first_free n d k fuel) d = false.
Proof.
  induction fuel as [|f IH]; intros k seen ND INC DIS LEN.
  - exfalso. pose proof (NoDup_incl_length ND INC) as H. rewrite map_length in H. lia.
  - cbn [first_free]. destruct (dmem (suffixed n k) d) eqn:E; [|exact E].
    apply (IH (S k) (suffixed n k :: seen)).
    + constructor; [|exact ND]. intro HIn. exact (DIS _ k HIn (le_n _) eq_refl).
    + intros m [<-|Hm]; [apply dmem_in; exact E | apply INC; exact Hm].
    + intros m j [<-|Hm] Hj; [intro H; apply suffixed_inj in H; lia | apply DIS; [exact Hm | lia]].
    + cbn [length]. lia.
Qed.
Lemma first_free_base n d : forall fuel k, fst (first_free n d k fuel) = fst n.
Proof. induction fuel as [|f IH]; intros k; cbn [first_free]; [reflexivity|]. destruct (dmem _ d); [apply IH | reflexivity]. Qed.

Theorem unique_name_fresh n d : dmem (unique_name n d) d = false /\ fst (unique_name n d) = fst n.
Proof.
  unfold unique_name. destruct (dmem n d) eqn:E; [|split; [exact E | reflexivity]].
  split; [|apply first_free_base].
  apply (first_free_fresh n d (length d) 1 [n]).
  - constructor; [intros [] | constructor].
  - intros m [<-|[]]. now apply dmem_in.
  - intros m j [<-|[]] _. apply suffixed_neq.
  - cbn [length]. lia.
Qed.

(* _report_traceback: the label accumulates, so every candidate is longer than the ones before *)
Definition tb_next (id : nat) (lab : dname) : dname := match id with 0 => lab | _ => suffixed lab id end.
Lemma tb_label_eq fuel id lab d :
  tb_label fuel id lab d
  = if dmem (tb_next id lab) d
    then match fuel with 0 => (tb_next id lab, S id) | S f => tb_label f (S id) (tb_next id lab) d end
    else (tb_next id lab, S id).
Proof. destruct fuel; reflexivity. Qed.

Lemma tb_label_fresh d : forall fuel id lab seen,
  NoDup seen -> incl seen (map fst d) ->
  Forall (fun m => length (snd m) < length (snd (tb_next id lab))) seen ->
  length d <= length seen + fuel ->
  dmem (fst (tb_label fuel id lab d)) d = false.
Proof.
  induction fuel as [|f IH]; intros id lab seen ND INC LT LEN; rewrite tb_label_eq;
    destruct (dmem (tb_next id lab) d) eqn:E; try exact E.
  - exfalso.
    assert (ND' : NoDup (tb_next id lab :: seen)).
    { constructor; [|exact ND]. intro HIn. rewrite Forall_forall in LT. specialize (LT _ HIn). lia. }
    assert (INC' : incl (tb_next id lab :: seen) (map fst d)).
    { intros m [<-|Hm]; [now apply dmem_in | now apply INC]. }
    pose proof (NoDup_incl_length ND' INC') as H. rewrite map_length in H. cbn [length] in H. unfold dname in *. lia.
  - apply (IH (S id) (tb_next id lab) (tb_next id lab :: seen)).
    + constructor; [|exact ND]. intro HIn. rewrite Forall_forall in LT. specialize (LT _ HIn). lia.
    + intros m [<-|Hm]; [now apply dmem_in | now apply INC].
    + cbn [tb_next]. rewrite suffixed_longer. constructor; [lia|].
      eapply Forall_impl; [|exact LT]. cbv beta. intros; lia.
    + cbn [length]. lia.
Qed.
Lemma tb_label_base d : forall fuel id lab, fst (fst (tb_label fuel id lab d)) = fst lab.
Proof.
  assert (B : forall id lab, fst (tb_next id lab) = fst lab) by (intros [|id] lab; reflexivity).
  induction fuel as [|f IH]; intros id lab; rewrite tb_label_eq; destruct (dmem _ d); cbn [fst]; rewrite ?IH; apply B.
Qed.

Theorem tb_label_spec d id :
  dmem (fst (tb_label (length d) id n_traceback d)) d = false
  /\ fst (fst (tb_label (length d) id n_traceback d)) = fst n_traceback.
Proof.
  split; [|apply tb_label_base].
  apply (tb_label_fresh d (length d) id n_traceback []).
  - constructor.
  - intros m Hm. destruct Hm.
  - constructor.
  - exact (le_n _).
Qed.

(* ------------------------------------------------------------------ *)
(* the dict of the machine against the list the statement expects       *)
(* ------------------------------------------------------------------ *)
Definition is_ctb (c : content) : bool := match c with CTb => true | _ => false end.

(* [R G k xl dl]: the dict [dl] is the expected list [xl], in order, with [k] generated traceback
   entries in between; an entry the test attached has its exact name, a generated one a name
   with the expected base; the bases of all generated names are in [G] *)
Inductive R (G : list nat) : nat -> list xentry -> details -> Prop :=
| R_nil : R G 0 [] []
| R_tb m xl dl k : In (fst m) G -> R G k xl dl -> R G (S k) xl ((m, CTb) :: dl)
| R_user n c xl dl k : is_ctb c = false -> R G k xl dl -> R G k ((Some n, fst n, c) :: xl) ((n, c) :: dl)
| R_gen m c xl dl k : In (fst m) G -> is_ctb c = false -> R G k xl dl ->
                      R G k ((None, fst m, c) :: xl) ((m, c) :: dl).

Lemma R_mono G G' k xl dl : incl G G' -> R G k xl dl -> R G' k xl dl.
Proof. intros I H. induction H; constructor; auto. Qed.

Lemma R_app G k1 a b : R G k1 a b -> forall k2 c d, R G k2 c d -> R G (k1 + k2) (a ++ c) (b ++ d).
Proof. induction 1; intros k2 c' d' H'; cbn [app plus]; [exact H' | constructor; auto ..]. Qed.

(* the test (or the skip handler) attaches a detail under a name whose base no generated name has *)
Lemma R_put G k xl dl n c :
  R G k xl dl -> ~ In (fst n) G -> is_ctb c = false -> R G k (kput n c xl) (dput n c dl).
Proof.
  intros H Hn Hc. induction H as [| m xl dl k Hm H IH | n0 c0 xl dl k Hc0 H IH | m c0 xl dl k Hm Hc0 H IH].
  - cbn. apply R_user; [exact Hc | constructor].
  - cbn [dput]. rewrite dname_eqb_base by (intro E; apply Hn; rewrite E; exact Hm). apply R_tb; assumption.
  - cbn [kput dput]. destruct (dname_eqb n n0); constructor; assumption.
  - cbn [kput dput]. rewrite dname_eqb_base by (intro E; apply Hn; rewrite E; exact Hm). apply R_gen; assumption.
Qed.

(* a generated detail goes in under a name that is not taken *)
Lemma R_gen_append G k xl dl m c :
  R G k xl dl -> dmem m dl = false -> In (fst m) G -> is_ctb c = false ->
  R G k (xl ++ [(None, fst m, c)]) (dput m c dl).
Proof.
  intros H F I C. rewrite (dput_fresh _ _ _ F). rewrite <- (Nat.add_0_r k).
  apply R_app; [exact H|]. apply R_gen; [exact I | exact C | constructor].
Qed.
Lemma R_tb_append G k xl dl m :
  R G k xl dl -> dmem m dl = false -> In (fst m) G -> R G (k + 1) xl (dput m CTb dl).
Proof.
  intros H F I. rewrite (dput_fresh _ _ _ F). rewrite <- (app_nil_r xl).
  apply R_app; [exact H|]. apply R_tb; [exact I | constructor].
Qed.

(* what the result reads off the dict *)
Definition out_x (f : content -> ocontent) (e : xentry) : odetail := (snd (fst e), f (snd e)).
Definition out_d (f : content -> ocontent) (nc : dname * content) : odetail := (fst (fst nc), f (snd nc)).

Lemma count_cons d a l : count d (a :: l) = (if odetail_eqb d a then 1 else 0) + count d l.
Proof. unfold count. cbn [filter]. destruct (odetail_eqb d a); reflexivity. Qed.

(* every expected entry is in the dict as often as expected *)
Lemma R_count G k xl dl f : R G k xl dl -> forall d, count d (map (out_x f) xl) <= count d (map (out_d f) dl).
Proof.
  induction 1; intros d; cbn [map]; rewrite ?count_cons; unfold out_x, out_d in *; cbn [fst snd] in *;
    try specialize (IHR d); lia.
Qed.

Lemma is_tb_out_d D nc : is_tb (out_d (dresolve D) nc) = is_ctb (snd nc).
Proof. destruct nc as [n c]. destruct c; reflexivity. Qed.
(* ... and exactly the generated tracebacks are traceback entries *)
Lemma R_tbs G k xl dl D : R G k xl dl -> length (filter is_tb (map (out_d (dresolve D)) dl)) = k.
Proof.
  induction 1; cbn [map filter]; rewrite ?is_tb_out_d; cbn [snd is_ctb]; rewrite ?H, ?H0; cbn [length]; congruence.
Qed.

(* ------------------------------------------------------------------ *)
(* the simulation: the statement's reading of the events against the machine's *)
(* ------------------------------------------------------------------ *)
Record Inv (x : xs) (d : dst) (k : nat) : Prop := {
  iv_cells : x_cells x = d_cells d;
  iv_onexc : x_onexc x = d_onexc d;
  iv_calls : x_calls x = d_calls d;
  iv_R : R (x_gen x) k (x_list x) (d_dets d);
  iv_res : ~ In (fst n_reason) (x_gen x) }.

(* the names the event brings along are not the reserved one *)
Definition ev_wf (e : devent) : bool :=
  match e with DUser n _ | DMis n _ | DFx n _ => wf_name n | _ => true end.
(* the machine generates a traceback detail *)
Definition tbev (e : devent) : bool :=
  match e with DTb => true | DExc c => negb (no_traceback c) | _ => false end.

Lemma d_tb_spec d :
  exists lab, d_dets (d_tb d) = dput lab CTb (d_dets d) /\ dmem lab (d_dets d) = false /\ fst lab = fst n_traceback
              /\ d_cells (d_tb d) = d_cells d /\ d_onexc (d_tb d) = d_onexc d /\ d_calls (d_tb d) = d_calls d.
Proof.
  unfold d_tb. destruct (tb_label_spec (d_dets d) (d_tbgen d)) as [F B].
  destruct (tb_label _ _ _ _) as [lab nxt]. exists lab. cbn [fst d_dets d_cells d_onexc d_calls] in *. repeat split; first [assumption | reflexivity].
Qed.

Lemma wf_name_neq n : wf_name n = true -> fst n <> fst n_reason.
Proof. unfold wf_name. intros H E. rewrite E, Nat.eqb_refl in H. discriminate. Qed.

Lemma inv_gen x d k n c c' :
  Inv x d k -> wf_name n = true -> is_ctb c = false -> c = c' ->
  Inv (xgen (fst n) c x) (d_put (unique_name n (d_dets d)) c' d) k.
Proof.
  intros [I1 I2 I3 I4 I5] W C <-. destruct (unique_name_fresh n (d_dets d)) as [F B].
  constructor; cbn [xgen x_cells x_onexc x_calls x_gen x_list d_put d_cells d_onexc d_calls d_dets]; try assumption.
  - rewrite <- B. apply R_gen_append; [|exact F | rewrite B; left; reflexivity | exact C].
    eapply R_mono; [|exact I4]. intros ? ?; right; assumption.
  - intros [E|E]; [exact (wf_name_neq n W E) | exact (I5 E)].
Qed.

Lemma inv_tb x d k x' :
  Inv x d k -> x_cells x' = x_cells x -> x_onexc x' = x_onexc x -> x_calls x' = x_calls x ->
  x_list x' = x_list x -> x_gen x' = fst n_traceback :: x_gen x ->
  Inv x' (d_tb d) (k + 1).
Proof.
  intros [I1 I2 I3 I4 I5] E1 E2 E3 E4 E5. destruct (d_tb_spec d) as (lab & T1 & T2 & T3 & T4 & T5 & T6).
  constructor; rewrite ?E1, ?E2, ?E3, ?E4, ?E5, ?T1, ?T4, ?T5, ?T6; try assumption.
  - apply R_tb_append; [|exact T2 | rewrite T3; left; reflexivity].
    eapply R_mono; [|exact I4]. intros ? ?; right; assumption.
  - intros [E|E]; [discriminate | exact (I5 E)].
Qed.

Lemma inv_step x d k e :
  Inv x d k -> ev_wf e = true -> x_f14 (xstep x e) = false ->
  Inv (xstep x e) (papply d e) (k + (if tbev e then 1 else 0)).
Proof.
  intros I W F. destruct e as [n loc | loc v | n loc | | n loc | | r | h | c]; cbn [tbev]; rewrite ?Nat.add_0_r.
  - (* the test attaches a detail *)
    destruct I as [I1 I2 I3 I4 I5]. cbn [xstep x_f14] in F. apply orb_false_iff in F as [_ F].
    constructor; cbn [xstep papply d_put x_cells x_onexc x_calls x_gen x_list d_cells d_onexc d_calls d_dets]; try assumption.
    apply R_put; [exact I4 | | reflexivity].
    intros HIn. assert (T : existsb (Nat.eqb (fst n)) (x_gen x) = true); [|congruence].
    apply existsb_exists. exists (fst n). split; [exact HIn | apply Nat.eqb_refl].
  - destruct I as [I1 I2 I3 I4 I5].
    constructor; cbn [xstep papply x_cells x_onexc x_calls x_gen x_list d_cells d_onexc d_calls d_dets]; try assumption.
    now rewrite I1.
  - apply inv_gen; [exact I | exact W | reflexivity | reflexivity].
  - apply (inv_gen x d k n_failed_expectation CStack CStack I); reflexivity.
  - cbn [xstep papply]. apply inv_gen; [exact I | exact W | reflexivity|].
    unfold xcell, dcell. now rewrite (iv_cells _ _ _ I).
  - apply (inv_tb x d k _ I); reflexivity.
  - destruct I as [I1 I2 I3 I4 I5].
    constructor; cbn [xstep papply d_put x_cells x_onexc x_calls x_gen x_list d_cells d_onexc d_calls d_dets]; try assumption.
    apply R_put; [exact I4 | exact I5 | reflexivity].
  - destruct I as [I1 I2 I3 I4 I5].
    constructor; cbn [xstep papply x_cells x_onexc x_calls x_gen x_list d_cells d_onexc d_calls d_dets]; try assumption.
    now rewrite I2.
  - (* an exception is caught: traceback unless it is a signal, then the handlers *)
    cbn [papply]. destruct (no_traceback c); cbn [negb]; rewrite ?Nat.add_0_r.
    + destruct I as [I1 I2 I3 I4 I5].
      constructor; cbn [xstep x_cells x_onexc x_calls x_gen x_list d_cells d_onexc d_calls d_dets]; try assumption.
      * now rewrite I2, I3.
      * eapply R_mono; [|exact I4]. intros ? ?; right; assumption.
      * intros [E|E]; [discriminate | exact (I5 E)].
    + assert (T : Inv {| x_list := x_list x; x_cells := x_cells x; x_gen := fst n_traceback :: x_gen x;
                         x_f14 := x_f14 x; x_onexc := x_onexc x; x_calls := x_calls x |} (d_tb d) (k + 1))
        by (apply (inv_tb x d k _ I); reflexivity).
      destruct T as [T1 T2 T3 T4 T5]. cbn [x_cells x_onexc x_calls x_gen x_list] in *.
      constructor; cbn [xstep x_cells x_onexc x_calls x_gen x_list d_cells d_onexc d_calls d_dets]; try assumption.
      now rewrite T2, T3.
Qed.

Lemma f14_step x e : x_f14 (xstep x e) = false -> x_f14 x = false.
Proof. destruct e; cbn [xstep x_f14 xgen xmark]; try tauto. intros H. now apply orb_false_iff in H. Qed.
Lemma f14_mono l : forall x, x_f14 (fold_left xstep l x) = false -> x_f14 x = false.
Proof. induction l as [|e r IH]; intros x H; [exact H|]. apply (f14_step x e). apply IH. exact H. Qed.

Lemma inv_run l : forall x d k,
  Inv x d k -> Forall (fun e => ev_wf e = true) l -> x_f14 (fold_left xstep l x) = false ->
  Inv (fold_left xstep l x) (prun l d) (k + length (filter tbev l)).
Proof.
  induction l as [|e r IH]; intros x d k I W F; cbn [fold_left prun filter length]; [now rewrite Nat.add_0_r|].
  inversion W as [|? ? We Wr]; subst. cbn [fold_left] in F.
  pose proof (inv_step x d k e I We (f14_mono r _ F)) as I'.
  specialize (IH _ _ _ I' Wr F). unfold prun in IH.
  destruct (tbev e); cbn [length]; [|rewrite Nat.add_0_r in IH; exact IH].
  replace (k + S (length (filter tbev r))) with (k + 1 + length (filter tbev r)) by lia. exact IH.
Qed.
