(* C05 - proofs. *)
From TT Require Import Lib.Base Gen.Handlers Model.Run Spec.Run Spec.C05 Corr.C05 Proof.RunCore.
