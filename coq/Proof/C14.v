From TT Require Import Lib.Base Model.AsyncRun Spec.C14 Corr.C14.
