(* C14 - proofs.  The model of AsynchronousDeferredRunTest on a virtual clock
   (Model/AsyncRun.v) meets the statement (Spec/C14.v) for EVERY program: any stage
   behaviours, any number of cleanups, any delays relative to the timeout, any
   interrupt instant, both runner variants, all logging options, any number of
   pre-installed observers.  Induction over the cleanup list / invariants over the
   stage chain; no enumeration. *)
From TT Require Import Lib.Base Model.Reactor Model.AsyncRun Spec.C14 Corr.C14 Gen.Spinnertabs.

Ltac split_ands := repeat match goal with |- _ /\ _ => split end.

(* ================= decidable equalities ================= *)
Lemma cls_eqb_spec a b : cls_eqb a b = true <-> a = b.
Proof. destruct a, b; simpl; split; congruence. Qed.
Lemma ev_eqb_spec a b : ev_eqb a b = true <-> a = b.
Proof. destruct a, b; simpl; split; congruence. Qed.
Lemma log_eqb_spec a b : log_eqb a b = true <-> a = b.
Proof. apply list_eqb_spec, pair_eqb_spec; apply Nat.eqb_eq. Qed.

Lemma obs_eqb_spec a b : obs_eqb a b = true <-> alpha a = alpha b.
Proof.
  destruct a, b; unfold obs_eqb, alpha; simpl. rewrite !andb_true_iff.
  rewrite (list_eqb_spec ev_eqb ev_eqb_spec), !bool_eqb_spec, log_eqb_spec, !Nat.eqb_eq.
  split.
  - intros [[[[[-> ->] ->] ->] ->] ->]; reflexivity.
  - intro E; injection E; intros; subst; repeat split.
Qed.

(* ================= spec_okb <-> Spec ================= *)
Lemma reports_success_iff es : reports_success es = true <-> In AddSuccess es.
Proof.
  unfold reports_success. rewrite existsb_exists. split.
  - intros [x [Hin E]]. apply ev_eqb_spec in E. subst. exact Hin.
  - intro H. exists AddSuccess. split; [exact H | reflexivity].
Qed.

Lemma one_outcome_iff es :
  one_outcome es = true <->
  exists x, es = [StartTest; x; StopTest] /\ In x [AddSuccess; AddError; AddFailure; AddSkip].
Proof.
  split.
  - intro H.
    destruct es as [|a [|x [|b [|c r]]]]; simpl in H; try discriminate;
      destruct a; simpl in H; try discriminate;
      destruct b; simpl in H; try discriminate.
    exists x. split; [reflexivity|]. destruct x; simpl in *; try discriminate; auto.
  - intros [x [-> Hin]]. simpl in *. intuition (subst; reflexivity).
Qed.

Lemma bool_eqb_iff a b : Bool.eqb a b = true <-> (a = true <-> b = true).
Proof. destruct a, b; simpl; intuition congruence. Qed.

Lemma cut_kind_flag p b :
  Bool.eqb b (match cut_kind p with KInterrupt => true | KTimeout => false end) = true
  <-> (b = true <-> cut_kind p = KInterrupt).
Proof. rewrite bool_eqb_iff. destruct (cut_kind p); intuition congruence. Qed.

Lemma spec_okb_iff p o : spec_okb p o = true <-> Spec p o.
Proof.
  unfold spec_okb, Spec. rewrite !andb_true_iff, log_eqb_spec, one_outcome_iff, bool_eqb_iff,
    reports_success_iff, !andb_true_iff, !Nat.eqb_eq.
  assert (T : (if completed p then true
               else list_eqb ev_eqb (o_events o) [StartTest; AddError; StopTest]
                    && Bool.eqb (o_stop o) (match cut_kind p with KInterrupt => true | KTimeout => false end)) = true
              <-> (completed p = false ->
                   o_events o = [StartTest; AddError; StopTest]
                   /\ (o_stop o = true <-> cut_kind p = KInterrupt))).
  { destruct (completed p).
    - split; [discriminate | reflexivity].
    - rewrite andb_true_iff, (list_eqb_spec ev_eqb ev_eqb_spec), cut_kind_flag. tauto. }
  rewrite T. tauto.
Qed.

(* ================= stages ================= *)
Definition noraise (st : stage) : bool := negb (stage_raises st).
Definition exc_of (st : stage) : option cls :=
  match s_ret st with RRaise c => Some c | RLater _ f => f | _ => None end.

Lemma exc_of_none st : exc_of st = None <-> noraise st = true.
Proof.
  unfold exc_of, noraise, stage_raises. destruct (s_ret st) as [|c|d [c|]|]; simpl; split; congruence.
Qed.

Fixpoint count (f : stage -> bool) (l : list stage) : nat :=
  match l with [] => 0 | x :: r => b2n (f x) + count f r end.

Lemma count_app f a b : count f (a ++ b) = count f a + count f b.
Proof. induction a; simpl; lia. Qed.

Lemma count_zero f l : count f l = 0 <-> forallb (fun x => negb (f x)) l = true.
Proof.
  induction l as [|x r IH]; simpl; [tauto|].
  rewrite andb_true_iff, <- IH. destruct (f x); simpl; split; try lia; intuition congruence.
Qed.

Lemma note_now c m : m_now (note_failure c m) = m_now m.
Proof. destruct c; reflexivity. Qed.
Lemma note_log c m : m_log (note_failure c m) = m_log m.
Proof. destruct c; reflexivity. Qed.

Lemma run_stage_done C k st m c m' :
  run_stage C k st m = Done c m' ->
  fires_at C (m_now m) st = Some (m_now m') /\ m_log m' = m_log m ++ [(k, m_now m)] /\ c = exc_of st
  /\ m_excs m' = m_excs m /\ m_fails m' = m_fails m
  /\ m_logged m' = m_logged m + b2n (s_logerr st)
  /\ m_dropped m' = m_dropped m + b2n (s_drop st)
  /\ m_pollers m' = m_pollers m + b2n (s_poll st).
Proof.
  unfold run_stage, fires_at, exc_of, start_stage. destruct (s_ret st) as [|x|d f|]; simpl.
  - intro H; inversion H; subst; simpl; repeat split.
  - intro H; inversion H; subst; simpl; repeat split.
  - destruct (Nat.ltb (m_now m + d) C); intro H; inversion H; subst; simpl; repeat split.
  - discriminate.
Qed.

Lemma run_stage_cut C k st m m' :
  run_stage C k st m = Cut m' ->
  fires_at C (m_now m) st = None /\ m_log m' = m_log m ++ [(k, m_now m)] /\ m_now m' = m_now m.
Proof.
  unfold run_stage, fires_at, start_stage. destruct (s_ret st) as [|x|d f|]; simpl; try discriminate.
  - destruct (Nat.ltb (m_now m + d) C); intro H; inversion H; subst; simpl; repeat split.
  - intro H; inversion H; subst; simpl; repeat split.
Qed.

Lemma expected_log_fire C t k st r t' :
  fires_at C t st = Some t' ->
  expected_log C t ((k, st) :: r) = ((k, t) :: fst (expected_log C t' r), snd (expected_log C t' r)).
Proof. simpl. intros ->. destruct (expected_log C t' r); reflexivity. Qed.

Lemma expected_log_cut C t k st r :
  fires_at C t st = None -> expected_log C t ((k, st) :: r) = ([(k, t)], false).
Proof. simpl. intros ->. reflexivity. Qed.

(* ================= the cleanups: induction over the list ================= *)
Lemma run_cleanups_spec C : forall cs last m,
  match run_cleanups C cs last m with
  | CDone last' m' =>
      snd (expected_log C (m_now m) cs) = true
      /\ m_log m' = m_log m ++ fst (expected_log C (m_now m) cs)
      /\ (last' = None <-> last = None /\ forallb (fun ks => noraise (snd ks)) cs = true)
      /\ m_excs m' = m_excs m /\ m_fails m' = m_fails m
      /\ m_logged m' = m_logged m + count s_logerr (map snd cs)
      /\ m_dropped m' = m_dropped m + count s_drop (map snd cs)
      /\ m_pollers m' = m_pollers m + count s_poll (map snd cs)
  | CCut m' n =>
      snd (expected_log C (m_now m) cs) = false
      /\ m_log m' = m_log m ++ fst (expected_log C (m_now m) cs)
      /\ n < length cs
  end.
Proof.
  induction cs as [|[k st] r IH]; intros last m.
  - simpl. rewrite app_nil_r, !Nat.add_0_r. split_ands; tauto || reflexivity.
  - cbn [run_cleanups]. destruct (run_stage C k st m) as [c m1|m1] eqn:E.
    + apply run_stage_done in E as (Hf & Hl & Hc & He & Hn & H1 & H2 & H3).
      rewrite (expected_log_fire _ _ _ _ _ _ Hf). cbn [fst snd].
      generalize (IH (match c with Some x => Some x | None => last end) m1).
      destruct (run_cleanups C r (match c with Some x => Some x | None => last end) m1) as [last' m'|m' n].
      * intros (I1 & I2 & I3 & I4 & I5 & I6 & I7 & I8).
        cbn [fst snd]. split_ands; [exact I1 | ..].
        -- rewrite I2, Hl, <- app_assoc. reflexivity.
        -- split.
           ++ intro L. apply I3 in L as [L1 L2]. cbn [forallb snd].
           destruct c as [x|]; [discriminate|]. split; [exact L1|].
           rewrite L2, andb_true_r. apply exc_of_none. symmetry; exact Hc.
           ++ intros [L1 L2]. cbn [forallb snd] in L2. apply andb_true_iff in L2 as [L2 L3].
           apply I3. split; [|exact L3]. apply exc_of_none in L2. rewrite <- Hc in L2. rewrite L2. exact L1.
        -- congruence.
        -- congruence.
        -- cbn [map snd count]. lia.
        -- cbn [map snd count]. lia.
        -- cbn [map snd count]. lia.
      * intros (I1 & I2 & I3). cbn [fst snd]. split_ands; [exact I1 | ..].
        -- rewrite I2, Hl, <- app_assoc. reflexivity.
        -- simpl. lia.
    + apply run_stage_cut in E as (Hf & Hl & _).
      rewrite (expected_log_cut _ _ _ _ _ Hf). cbn [fst snd]. split_ands; [reflexivity | exact Hl | simpl; lia].
Qed.

(* ================= the invariant of the stage chain ================= *)
(* ex = the stages executed so far *)
Definition Acc (ex : list stage) (m : sim) : Prop :=
  (m_fails m = 0 <-> forallb noraise ex = true)
  /\ (m_fails m = 0 <-> m_excs m = [])
  /\ m_logged m = count s_logerr ex
  /\ m_dropped m = count s_drop ex
  /\ m_pollers m = count s_poll ex.

Lemma Acc0 : Acc [] sim0.
Proof. unfold Acc; simpl. split; [tauto|]. split; [tauto|]. auto. Qed.

Lemma forallb_snoc {A} (f : A -> bool) l x : forallb f (l ++ [x]) = forallb f l && f x.
Proof. rewrite forallb_app. simpl. rewrite andb_true_r. reflexivity. Qed.

Lemma Acc_note ex m st m' :
  Acc ex m ->
  m_excs m' = m_excs m -> m_fails m' = m_fails m ->
  m_logged m' = m_logged m + b2n (s_logerr st) ->
  m_dropped m' = m_dropped m + b2n (s_drop st) ->
  m_pollers m' = m_pollers m + b2n (s_poll st) ->
  Acc (ex ++ [st]) (note_failure (exc_of st) m').
Proof.
  intros (A1 & A2 & A3 & A4 & A5) He Hn H1 H2 H3. unfold Acc.
  rewrite forallb_snoc, !count_app. cbn [count]. rewrite !Nat.add_0_r.
  destruct (exc_of st) as [x|] eqn:Ex.
  - assert (R : noraise st = false).
    { destruct (noraise st) eqn:N; [|reflexivity]. apply exc_of_none in N. congruence. }
    rewrite R, andb_false_r. simpl. split_ands; try lia.
    all: split; intro HH; try discriminate HH; destruct (m_excs m'); discriminate HH.
  - assert (R : noraise st = true) by (apply exc_of_none; exact Ex).
    rewrite R, andb_true_r. simpl. rewrite He, Hn. split_ands; try tauto; lia.
Qed.

Lemma stage_step C k st ex m :
  Acc ex m ->
  match run_stage C k st m with
  | Done c m' =>
      fires_at C (m_now m) st = Some (m_now m') /\ m_log m' = m_log m ++ [(k, m_now m)]
      /\ c = exc_of st /\ Acc (ex ++ [st]) (note_failure c m')
  | Cut m' => fires_at C (m_now m) st = None /\ m_log m' = m_log m ++ [(k, m_now m)]
  end.
Proof.
  intro A. destruct (run_stage C k st m) as [c m'|m'] eqn:E.
  - apply run_stage_done in E as (Hf & Hl & Hc & He & Hn & H1 & H2 & H3).
    split_ands; try assumption. subst c. eapply Acc_note; eassumption.
  - apply run_stage_cut in E as (Hf & Hl & _). split; assumption.
Qed.

Definition cleanup_plan (p : program) : list (nat * stage) := rev (number_from 0 (i_cleanups p)).

Lemma forallb_map {A B} (f : B -> bool) (g : A -> B) l : forallb f (map g l) = forallb (fun x => f (g x)) l.
Proof. induction l; simpl; congruence. Qed.

Lemma clean_up_spec C p ex m :
  Acc ex m ->
  match clean_up C p m with
  | Completed m' =>
      snd (expected_log C (m_now m) (cleanup_plan p)) = true
      /\ m_log m' = m_log m ++ fst (expected_log C (m_now m) (cleanup_plan p))
      /\ Acc (ex ++ map snd (cleanup_plan p)) m'
  | Stopped m' n =>
      snd (expected_log C (m_now m) (cleanup_plan p)) = false
      /\ m_log m' = m_log m ++ fst (expected_log C (m_now m) (cleanup_plan p))
      /\ n < length (i_cleanups p)
  end.
Proof.
  intros (A1 & A2 & A3 & A4 & A5). unfold clean_up. fold (cleanup_plan p).
  generalize (run_cleanups_spec C (cleanup_plan p) None m).
  destruct (run_cleanups C (cleanup_plan p) None m) as [last m'|m' n].
  - intros (I1 & I2 & I3 & I4 & I5 & I6 & I7 & I8). split_ands.
    + exact I1.
    + rewrite note_log. exact I2.
    + unfold Acc. rewrite forallb_app, !count_app, forallb_map.
      destruct last as [x|]; simpl.
      * assert (R : forallb (fun ks => noraise (snd ks)) (cleanup_plan p) = false).
        { destruct (forallb (fun ks => noraise (snd ks)) (cleanup_plan p)) eqn:F; [|reflexivity].
          destruct I3 as [_ I3]. discriminate I3. split; reflexivity. }
        rewrite R, andb_false_r. split_ands; try lia.
        all: split; intro HH; try discriminate HH; destruct (m_excs m'); discriminate HH.
      * assert (R : forallb (fun ks => noraise (snd ks)) (cleanup_plan p) = true).
        { apply I3. reflexivity. }
        rewrite R, andb_true_r, I4, I5. split_ands; try tauto; lia.
  - intros (I1 & I2 & I3). split_ands; try assumption.
    unfold cleanup_plan in I3. rewrite rev_length in I3.
    assert (L : forall k l, length (number_from k l) = length l).
    { intros k l; revert k; induction l; intro k; simpl; [reflexivity | rewrite IHl; reflexivity]. }
    rewrite L in I3. exact I3.
Qed.

(* ================= _run_deferred ================= *)
Lemma plan_failed_setup p :
  noraise (i_setup p) = false -> plan p = (id_setup, i_setup p) :: cleanup_plan p.
Proof. unfold plan, noraise, cleanup_plan. destruct (stage_raises (i_setup p)); [reflexivity | discriminate]. Qed.

Lemma plan_good_setup p :
  noraise (i_setup p) = true ->
  plan p = (id_setup, i_setup p) :: (id_body, i_body p) :: (id_teardown, i_teardown p) :: cleanup_plan p.
Proof. unfold plan, noraise, cleanup_plan. destruct (stage_raises (i_setup p)); [discriminate | reflexivity]. Qed.

Lemma run_deferred_spec C p :
  match run_deferred C p with
  | Completed m => expected_log C 0 (plan p) = (m_log m, true) /\ Acc (map snd (plan p)) m
  | Stopped m n => expected_log C 0 (plan p) = (m_log m, false) /\ n <= length (i_cleanups p)
  end.
Proof.
  unfold run_deferred.
  generalize (stage_step C id_setup (i_setup p) [] sim0 Acc0).
  destruct (run_stage C id_setup (i_setup p) sim0) as [c m1|m1].
  2:{ intros [Hf Hl]. split; [|lia].
      assert (E : exists r, plan p = (id_setup, i_setup p) :: r) by (unfold plan; eauto).
      destruct E as [r ->]. rewrite (expected_log_cut _ _ _ _ _ Hf), Hl. reflexivity. }
  intros (Hf1 & Hl1 & Hc1 & A1). cbn [app] in A1.
  destruct c as [x|].
  - (* set_up_done: failed setUp, straight to the cleanups *)
    assert (N : noraise (i_setup p) = false).
    { destruct (noraise (i_setup p)) eqn:N; [|reflexivity]. apply exc_of_none in N. congruence. }
    rewrite (plan_failed_setup p N), (expected_log_fire _ _ _ _ _ _ Hf1).
    generalize (clean_up_spec C p _ _ A1). rewrite note_now, note_log.
    destruct (clean_up C p (note_failure (Some x) m1)) as [m'|m' n].
    + intros (I1 & I2 & I3). rewrite I1 at 1. cbn [fst snd map]. split; [|exact I3].
      rewrite I2, Hl1. reflexivity.
    + intros (I1 & I2 & I3). rewrite I1 at 1. cbn [fst snd]. split; [|lia].
      rewrite I2, Hl1. reflexivity.
  - assert (N : noraise (i_setup p) = true) by (apply exc_of_none; congruence).
    rewrite (plan_good_setup p N), (expected_log_fire _ _ _ _ _ _ Hf1).
    cbn [note_failure] in A1.
    generalize (stage_step C id_body (i_body p) _ m1 A1).
    destruct (run_stage C id_body (i_body p) m1) as [c2 m2|m2].
    2:{ intros [Hf Hl]. split; [|lia].
        rewrite (expected_log_cut _ _ _ _ _ Hf). cbn [fst snd]. rewrite Hl, Hl1. reflexivity. }
    intros (Hf2 & Hl2 & Hc2 & A2). cbn [app] in A2.
    rewrite (expected_log_fire _ _ _ _ _ _ Hf2). cbn [fst snd].
    generalize (stage_step C id_teardown (i_teardown p) _ _ A2). rewrite note_now, note_log.
    destruct (run_stage C id_teardown (i_teardown p) (note_failure c2 m2)) as [c3 m3|m3].
    2:{ intros [Hf Hl]. split; [|lia].
        rewrite (expected_log_cut _ _ _ _ _ Hf). cbn [fst snd]. rewrite Hl, Hl2, Hl1. reflexivity. }
    intros (Hf3 & Hl3 & Hc3 & A3). cbn [app] in A3.
    rewrite (expected_log_fire _ _ _ _ _ _ Hf3). cbn [fst snd].
    generalize (clean_up_spec C p _ _ A3). rewrite note_now, note_log.
    destruct (clean_up C p (note_failure c3 m3)) as [m'|m' n].
    + intros (I1 & I2 & I3). rewrite I1 at 1. cbn [fst snd map]. split; [|exact I3].
      rewrite I2, Hl3, Hl2, Hl1. reflexivity.
    + intros (I1 & I2 & I3). rewrite I1 at 1. cbn [fst snd]. split; [|lia].
      rewrite I2, Hl3, Hl2, Hl1. reflexivity.
Qed.

(* ================= choosing the reported exception (runtest.py:108-117) ================= *)
Lemma rev_nil_inv {A} (l : list A) : rev l = [] -> l = [].
Proof. intro H. rewrite <- (rev_involutive l), H. reflexivity. Qed.

Lemma pick_nil_iff l : pick l = None <-> l = [].
Proof.
  unfold pick. split.
  - destruct (rev l) eqn:E; [intros _; apply rev_nil_inv; exact E | discriminate].
  - intros ->. reflexivity.
Qed.

Lemma ev_of_outcome c : is_outcome (ev_of c) = true.
Proof. destruct c; reflexivity. Qed.
Lemma ev_of_not_success c : ev_eqb AddSuccess (ev_of c) = false.
Proof. destruct c; reflexivity. Qed.

(* the reported exception is the last one, or an earlier one that no handler claims *)
Lemma pick_shape l last before :
  rev l = last :: before -> exists c, pick l = Some c /\ (c = last \/ claimed c = false).
Proof.
  intro E. unfold pick. rewrite E.
  destruct (find (fun c => negb (claimed c)) (rev before)) as [c|] eqn:F.
  - exists c. split; [reflexivity|]. right. apply find_some in F as [_ F].
    apply negb_true_iff in F. exact F.
  - exists last. split; [reflexivity | left; reflexivity].
Qed.

Lemma rev_ends_err l tl :
  Forall (eq CErr) tl -> exists before, rev (l ++ CErr :: tl) = CErr :: before.
Proof.
  intro F. rewrite rev_app_distr. cbn [rev].
  destruct (rev tl) as [|y r] eqn:E.
  - simpl. eauto.
  - assert (In y tl) by (apply in_rev; rewrite E; left; reflexivity).
    rewrite Forall_forall in F. rewrite <- (F y H). simpl. eauto.
Qed.

Lemma pick_ends_err l tl :
  Forall (eq CErr) tl -> exists c, pick (l ++ CErr :: tl) = Some c /\ ev_of c = AddError.
Proof.
  intro F. destruct (rev_ends_err l tl F) as [before E].
  destruct (pick_shape _ _ _ E) as [c [P [L|U]]]; exists c; (split; [exact P|]).
  - rewrite L. reflexivity.
  - destruct c; simpl in U; try discriminate; reflexivity.
Qed.

(* ================= _run_core: the verdict ================= *)
Definition successful (p : program) (ok : bool) (u : nat) (m : sim) : bool :=
  ok && Nat.eqb (m_logged m) 0 && Nat.eqb u 0 && negb (dirty p m).
Definition final_excs (p : program) (u : nat) (m : sim) : list cls :=
  m_excs m ++ repeat_err (m_logged m) ++ repeat_err u ++ (if dirty p m then [CErr] else []).

Lemma finish_events p ok u stop n m :
  r_events (finish p ok u stop n m) =
  [StartTest] ++ (if successful p ok u m then [AddSuccess] else [])
    ++ (match pick (final_excs p u m) with Some c => [ev_of c] | None => [] end) ++ [StopTest].
Proof. reflexivity. Qed.

Lemma repeat_err_nil n : repeat_err n = [] <-> n = 0.
Proof. destruct n; simpl; split; try reflexivity; discriminate. Qed.

Lemma final_excs_nil p u m :
  final_excs p u m = [] <-> m_excs m = [] /\ m_logged m = 0 /\ u = 0 /\ dirty p m = false.
Proof.
  unfold final_excs. split.
  - intro H. apply app_eq_nil in H as [H1 H]. apply app_eq_nil in H as [H2 H].
    apply app_eq_nil in H as [H3 H4]. apply repeat_err_nil in H2, H3.
    split_ands; try assumption. destruct (dirty p m); [discriminate | reflexivity].
  - intros (-> & -> & -> & ->). reflexivity.
Qed.

Lemma successful_iff p u m :
  (m_fails m = 0 <-> m_excs m = []) ->
  (successful p (Nat.eqb (m_fails m) 0) u m = true <-> final_excs p u m = []).
Proof.
  intro I. rewrite final_excs_nil. unfold successful.
  rewrite !andb_true_iff, !Nat.eqb_eq, negb_true_iff. tauto.
Qed.

Lemma events_completed p u stop n m :
  (m_fails m = 0 <-> m_excs m = []) ->
  let ok := Nat.eqb (m_fails m) 0 in
  (successful p ok u m = true /\ r_events (finish p ok u stop n m) = [StartTest; AddSuccess; StopTest])
  \/ (successful p ok u m = false
      /\ exists c, r_events (finish p ok u stop n m) = [StartTest; ev_of c; StopTest]).
Proof.
  intros I ok. rewrite finish_events. destruct (successful p ok u m) eqn:S.
  - left. split; [reflexivity|]. apply (successful_iff p u m I) in S. rewrite S. reflexivity.
  - right. split; [reflexivity|]. destruct (pick (final_excs p u m)) as [c|] eqn:P.
    + exists c. reflexivity.
    + apply pick_nil_iff in P. apply (successful_iff p u m I) in P. unfold ok in S. congruence.
Qed.

Lemma events_stopped p C stop n m :
  r_events (finish p false 0 stop n (after_cut C m)) = [StartTest; AddError; StopTest].
Proof.
  rewrite finish_events. unfold successful, final_excs. cbn [andb after_cut m_excs m_logged].
  rewrite <- app_assoc. cbn [app].
  destruct (pick_ends_err (m_excs m)
              (repeat_err (m_logged m) ++ repeat_err 0 ++ (if dirty p (after_cut C m) then [CErr] else [])))
    as [c [P E]].
  - apply Forall_app. split; [|apply Forall_app; split].
    + unfold repeat_err. apply Forall_forall. intros x Hx. apply repeat_spec in Hx. congruence.
    + constructor.
    + destruct (dirty p (after_cut C m)); repeat constructor.
  - fold (after_cut C m). rewrite P, E. reflexivity.
Qed.

Lemma dirty_false p m : dirty p m = false <-> junk_of p m = [] /\ m_pollers m = 0.
Proof.
  unfold dirty. destruct (junk_of p m).
  - rewrite Nat.ltb_ge. split; [intro; split; [reflexivity | lia] | intros [_ ->]; lia].
  - split; [discriminate | intros [H _]; discriminate].
Qed.

Lemma all_clean_list l :
  forallb (fun ks : nat * stage => clean_stage (snd ks)) l = true <->
  forallb noraise (map snd l) = true /\ count s_logerr (map snd l) = 0
  /\ count s_drop (map snd l) = 0 /\ count s_poll (map snd l) = 0.
Proof.
  induction l as [|[k st] r IH]; cbn [forallb map snd count].
  - intuition reflexivity.
  - rewrite !andb_true_iff, IH. unfold clean_stage, noraise.
    destruct (stage_raises st), (s_logerr st), (s_drop st), (s_poll st); simpl;
      intuition (try discriminate; try lia).
Qed.

(* ================= Spinner._clean empties the reactor ================= *)
Lemma spinner_clean_from (l : list (dcall bool)) : forall q,
  (forall c, In c q -> In c l) -> fold_left (fun q' c => remove_seq (dc_seq c) q') l q = [].
Proof.
  induction l as [|a l IH]; intros q H; simpl.
  - destruct q as [|c q]; [reflexivity | destruct (H c); left; reflexivity].
  - apply IH. intros c Hc. unfold remove_seq in Hc. apply filter_In in Hc as [Hc Hs].
    destruct (H c Hc) as [<-|Hl]; [|exact Hl].
    rewrite Nat.eqb_refl in Hs. discriminate.
Qed.

Lemma spinner_clean_nil q : spinner_clean q = [].
Proof. unfold spinner_clean. apply spinner_clean_from. auto. Qed.

(* ================= the log observers are restored ================= *)
Lemma existsb_eqb_false x l : ~ In x l -> existsb (Nat.eqb x) l = false.
Proof.
  induction l as [|a l IH]; simpl; intro H; [reflexivity|].
  destruct (Nat.eqb x a) eqn:E.
  - apply Nat.eqb_eq in E. exfalso. apply H. left. symmetry. exact E.
  - apply IH. tauto.
Qed.

Lemma add_obs_fresh x l : ~ In x l -> add_obs x l = l ++ [x].
Proof. intro H. unfold add_obs. rewrite (existsb_eqb_false x l H). reflexivity. Qed.

Lemma remove_obs_last x l : ~ In x l -> remove_obs x (l ++ [x]) = l.
Proof.
  induction l as [|a l IH]; simpl; intro H.
  - rewrite Nat.eqb_refl. reflexivity.
  - destruct (Nat.eqb x a) eqn:E.
    + apply Nat.eqb_eq in E. exfalso. apply H. left. symmetry. exact E.
    + rewrite IH; tauto.
Qed.

Lemma with_observer_undone x l :
  ~ In x l -> clean_fixture (snd (with_observer x l)) (fst (with_observer x l)) = l.
Proof.
  intro H. unfold with_observer, clean_fixture. cbn [fst snd rev app fold_left apply_undo].
  rewrite (add_obs_fresh x l H). apply remove_obs_last. exact H.
Qed.

Lemma no_observers_fold xs : forall l us,
  fold_left (fun acc x => (remove_obs x (fst acc), snd acc ++ [UAdd x])) xs (l, us)
  = (fold_left (fun l x => remove_obs x l) xs l, us ++ map UAdd xs).
Proof.
  induction xs as [|x xs IH]; intros l us; simpl.
  - rewrite app_nil_r. reflexivity.
  - rewrite IH, <- app_assoc. reflexivity.
Qed.

Lemma remove_all_rev r : NoDup r -> fold_left (fun l x => remove_obs x l) r (rev r) = [].
Proof.
  induction r as [|a r IH]; intro N; [reflexivity|].
  inversion N as [|? ? Ha Nr]; subst. cbn [rev fold_left].
  rewrite remove_obs_last; [apply IH; exact Nr | rewrite <- in_rev; exact Ha].
Qed.

Lemma no_observers_spec l : NoDup l -> no_observers l = ([], map UAdd (rev l)).
Proof.
  intro N. unfold no_observers. rewrite no_observers_fold. cbn [app]. f_equal.
  rewrite <- (rev_involutive l) at 2. apply remove_all_rev. apply NoDup_rev. exact N.
Qed.

Lemma readd_all l : forall acc, NoDup (acc ++ l) -> fold_left apply_undo (map UAdd l) acc = acc ++ l.
Proof.
  induction l as [|a l IH]; intros acc N; simpl.
  - rewrite app_nil_r. reflexivity.
  - assert (Ha : ~ In a acc).
    { apply NoDup_remove_2 in N. intro H. apply N. apply in_or_app. left; exact H. }
    rewrite (add_obs_fresh a acc Ha), IH.
    + rewrite <- app_assoc. reflexivity.
    + rewrite <- app_assoc. exact N.
Qed.

Lemma undo_all l : NoDup l -> clean_fixture (map UAdd (rev l)) [] = l.
Proof.
  intro N. unfold clean_fixture. rewrite <- map_rev, rev_involutive. apply (readd_all l []). exact N.
Qed.

Lemma initial_fresh p x : x < 2 -> ~ In x (initial_observers p).
Proof. unfold initial_observers. intros H Hin. apply in_seq in Hin. lia. Qed.

Lemma observers_restored p : observers_after p = initial_observers p.
Proof.
  unfold observers_after.
  assert (N : NoDup (initial_observers p)) by apply seq_NoDup.
  assert (F0 : ~ In capture_obs (initial_observers p)) by (apply initial_fresh; unfold capture_obs; lia).
  assert (F1 : ~ In error_obs (initial_observers p)) by (apply initial_fresh; unfold error_obs; lia).
  set (l0 := initial_observers p) in *.
  destruct (i_suppress p), (i_store p); try rewrite (no_observers_spec l0 N);
    cbv beta iota; unfold with_observer; cbv beta iota.
  - replace (clean_fixture [URemove capture_obs]
               (clean_fixture [URemove error_obs] (add_obs error_obs (add_obs capture_obs []))))
      with (@nil nat) by reflexivity.
    apply undo_all. exact N.
  - replace (clean_fixture [] (clean_fixture [URemove error_obs] (add_obs error_obs [])))
      with (@nil nat) by reflexivity.
    apply undo_all. exact N.
  - rewrite (add_obs_fresh capture_obs l0 F0).
    assert (F2 : ~ In error_obs (l0 ++ [capture_obs])).
    { intro H. apply in_app_or in H as [H|[H|[]]]; [tauto | discriminate H]. }
    rewrite (add_obs_fresh error_obs _ F2).
    unfold clean_fixture. cbn [rev app fold_left apply_undo].
    rewrite (remove_obs_last error_obs _ F2). apply remove_obs_last. exact F0.
  - rewrite (add_obs_fresh error_obs l0 F1).
    unfold clean_fixture. cbn [rev app fold_left apply_undo]. apply remove_obs_last. exact F1.
Qed.

(* ================= the model meets the statement ================= *)
Lemma finish_unrun p ok u stop n m : r_unrun (finish p ok u stop n m) = length (junk_of p m).
Proof. reflexivity. Qed.
Lemma finish_stop p ok u stop n m : r_stop (finish p ok u stop n m) = stop.
Proof. reflexivity. Qed.
Lemma finish_log p ok u stop n m : r_log (finish p ok u stop n m) = m_log m.
Proof. reflexivity. Qed.
Lemma finish_left p ok u stop n m : r_cleanups_left (finish p ok u stop n m) = n.
Proof. reflexivity. Qed.
Lemma finish_pending p ok u stop n m : r_pending (finish p ok u stop n m) = 0.
Proof. unfold finish. cbn [r_pending]. rewrite spinner_clean_nil. reflexivity. Qed.
Lemma finish_observers p ok u stop n m : r_observers (finish p ok u stop n m) = initial_observers p.
Proof. unfold finish. cbn [r_observers]. apply observers_restored. Qed.

Definition stop_flag (p : program) : bool := match cut_kind p with KInterrupt => true | KTimeout => false end.

(* the three ways a run can end *)
Lemma model_cases p :
  (completed p = true
   /\ o_events (model p) = [StartTest; AddSuccess; StopTest]
   /\ all_clean p = true /\ o_unrun (model p) = 0 /\ o_stop (model p) = false
   /\ o_cleanups_left (model p) = 0)
  \/ (completed p = true
      /\ (exists c, o_events (model p) = [StartTest; ev_of c; StopTest])
      /\ all_clean p && Nat.eqb (o_unrun (model p)) 0 = false /\ o_stop (model p) = false
      /\ o_cleanups_left (model p) = 0)
  \/ (completed p = false
      /\ o_events (model p) = [StartTest; AddError; StopTest]
      /\ o_stop (model p) = stop_flag p
      /\ o_cleanups_left (model p) <= length (i_cleanups p)).
Proof.
  unfold model, run. cbn [o_events o_unrun o_stop o_cleanups_left].
  generalize (run_deferred_spec (cut_instant p) p).
  destruct (run_deferred (cut_instant p) p) as [m|m n].
  - intros [E A].
    assert (Cp : completed p = true) by (unfold completed; rewrite E; reflexivity).
    destruct A as (A1 & A2 & A3 & A4 & A5).
    rewrite finish_unrun, finish_stop, finish_left.
    destruct (events_completed p (m_dropped m) false 0 m A2) as [[S Ev]|[S [c Ev]]].
    + left. split; [exact Cp|]. split; [exact Ev|].
      unfold successful in S. rewrite !andb_true_iff, !Nat.eqb_eq, negb_true_iff in S.
      destruct S as [[[S1 S2] S3] S4]. apply dirty_false in S4 as [S4 S5].
      split_ands; try reflexivity.
      * unfold all_clean. apply all_clean_list. split_ands.
        -- apply A1. exact S1.
        -- rewrite <- A3. exact S2.
        -- rewrite <- A4. exact S3.
        -- rewrite <- A5. exact S5.
      * rewrite S4. reflexivity.
    + right. left. split; [exact Cp|]. split; [exists c; exact Ev|]. split_ands; try reflexivity.
      destruct (all_clean p && Nat.eqb (length (junk_of p m)) 0) eqn:X; [|reflexivity].
      exfalso. apply andb_true_iff in X as [X1 X2].
      apply all_clean_list in X1 as (X1 & X3 & X4 & X5). apply Nat.eqb_eq in X2.
      apply length_zero_iff_nil in X2.
      assert (S' : successful p (Nat.eqb (m_fails m) 0) (m_dropped m) m = true).
      { unfold successful. rewrite !andb_true_iff, !Nat.eqb_eq, negb_true_iff. split_ands.
        - apply A1. exact X1.
        - rewrite A3. exact X3.
        - rewrite A4. exact X4.
        - apply dirty_false. split; [exact X2 | rewrite A5; exact X5]. }
      congruence.
  - intros [E Hn]. right. right.
    rewrite finish_stop, finish_left.
    split; [unfold completed; rewrite E; reflexivity|].
    split; [apply events_stopped|]. split; [reflexivity | exact Hn].
Qed.

Lemma model_log p : o_log (model p) = fst (expected_log (cut_instant p) 0 (plan p)).
Proof.
  unfold model, run. cbn [o_log]. generalize (run_deferred_spec (cut_instant p) p).
  destruct (run_deferred (cut_instant p) p) as [m|m n]; intros [E _]; rewrite E, finish_log; reflexivity.
Qed.

Lemma model_pending p : o_pending (model p) = 0.
Proof.
  unfold model, run. cbn [o_pending].
  destruct (run_deferred (cut_instant p) p); apply finish_pending.
Qed.

Lemma list_eqb_refl l : list_eqb Nat.eqb l l = true.
Proof. apply (list_eqb_spec Nat.eqb Nat.eqb_eq). reflexivity. Qed.

Lemma model_observers p : o_observers_same (model p) = true.
Proof.
  unfold model, run. cbn [o_observers_same].
  destruct (run_deferred (cut_instant p) p); rewrite finish_observers; apply list_eqb_refl.
Qed.

(* -------- per clause -------- *)
(* sequencing: a stage starts at the instant its predecessor fired, and only if it fired before the cut *)
Lemma sequencing p : o_log (model p) = fst (expected_log (cut_instant p) 0 (plan p)).
Proof. exact (model_log p). Qed.

Lemma one_outcome_holds p :
  exists x, o_events (model p) = [StartTest; x; StopTest] /\ In x [AddSuccess; AddError; AddFailure; AddSkip].
Proof.
  destruct (model_cases p) as [(_ & E & _)|[(_ & [c E] & _)|(_ & E & _)]]; rewrite E.
  - exists AddSuccess. simpl. auto.
  - exists (ev_of c). split; [reflexivity|]. destruct c; simpl; auto.
  - exists AddError. simpl. auto.
Qed.

Lemma success_iff p :
  In AddSuccess (o_events (model p))
  <-> completed p = true /\ all_clean p = true /\ o_unrun (model p) = 0.
Proof.
  destruct (model_cases p) as [(Cp & E & Ac & U & _)|[(Cp & [c E] & X & _)|(Cp & E & _)]]; rewrite E.
  - split; [intros _; auto | intros _; simpl; auto].
  - split.
    + intros [H|[H|[H|[]]]]; try discriminate H. destruct c; discriminate H.
    + intros (_ & Ac & U). rewrite Ac, U in X. discriminate X.
  - split.
    + intros [H|[H|[H|[]]]]; discriminate H.
    + intros (Cp' & _). congruence.
Qed.

(* a timeout or an interrupt yields an error; an interrupt also asks the result to stop (and nothing else does) *)
Lemma cut_is_error p :
  completed p = false ->
  o_events (model p) = [StartTest; AddError; StopTest]
  /\ (o_stop (model p) = true <-> cut_kind p = KInterrupt).
Proof.
  intro Cf. destruct (model_cases p) as [(Cp & _)|[(Cp & _)|(_ & E & S & _)]]; try congruence.
  split; [exact E|]. rewrite S. unfold stop_flag. destruct (cut_kind p); split; congruence.
Qed.

Lemma no_stop_without_interrupt p : completed p = true -> o_stop (model p) = false.
Proof.
  intro Ct. destruct (model_cases p) as [(_ & _ & _ & _ & S & _)|[(_ & _ & _ & S & _)|(Cp & _)]]; congruence.
Qed.

(* whatever happened: the reactor holds no delayed call, the observers are those installed before *)
Lemma left_clean p : o_pending (model p) = 0 /\ o_observers_same (model p) = true.
Proof. split; [apply model_pending | apply model_observers]. Qed.

(* every cleanup ran when nothing cut the run short *)
Lemma cleanups_all_run p :
  completed p = true ->
  o_cleanups_left (model p) = 0
  /\ map fst (o_log (model p)) = map fst (plan p).
Proof.
  intro Ct. split.
  - destruct (model_cases p) as [(_ & _ & _ & _ & _ & L)|[(_ & _ & _ & _ & L)|(Cp & _)]]; congruence.
  - rewrite model_log. unfold completed in Ct. revert Ct. generalize 0 at 1 2. generalize (plan p).
    induction l as [|[k st] r IH]; intros t Ct; [reflexivity|].
    cbn [expected_log] in *. destruct (fires_at (cut_instant p) t st) as [t'|]; [|discriminate Ct].
    specialize (IH t'). destruct (expected_log (cut_instant p) t' r) as [l b]. cbn [fst snd map] in *.
    rewrite IH; [reflexivity | exact Ct].
Qed.

Theorem model_meets_spec p : spec_okb p (model p) = true.
Proof.
  apply spec_okb_iff. unfold Spec. split_ands.
  - apply model_log.
  - apply one_outcome_holds.
  - apply success_iff.
  - apply cut_is_error.
  - apply model_pending.
  - apply model_observers.
Qed.

Corollary model_meets_spec_wf p : wf p -> spec_okb p (model p) = true.
Proof. intros _. apply model_meets_spec. Qed.

(* ================= what the expected log says, in words ================= *)
Lemma expected_log_first C t pl k u l : fst (expected_log C t pl) = (k, u) :: l -> u = t.
Proof.
  destruct pl as [|[k0 st] r]; simpl; [discriminate|].
  destruct (fires_at C t st); [destruct (expected_log C t0 r)|]; simpl; intro H; inversion H; reflexivity.
Qed.

(* two consecutive entries: the later stage started at exactly the instant at which the earlier one fired *)
Lemma expected_log_adjacent C : forall pl t l1 k1 t1 k2 t2 l2,
  fst (expected_log C t pl) = l1 ++ (k1, t1) :: (k2, t2) :: l2 ->
  exists st1, In (k1, st1) pl /\ fires_at C t1 st1 = Some t2.
Proof.
  induction pl as [|[k st] r IH]; intros t l1 k1 t1 k2 t2 l2 H.
  - simpl in H. destruct l1; discriminate H.
  - cbn [expected_log] in H. destruct (fires_at C t st) as [t'|] eqn:F.
    + destruct (expected_log C t' r) as [l b] eqn:E. cbn [fst] in H.
      destruct l1 as [|x l1]; cbn [app] in H; inversion H; subst.
      * exists st. split; [left; reflexivity|].
        assert (t2 = t').
        { apply (expected_log_first C t' r k2 t2 l2). rewrite E. reflexivity. }
        subst. exact F.
      * destruct (IH t' l1 k1 t1 k2 t2 l2) as [st1 [Hin Hf]]; [rewrite E; reflexivity|].
        exists st1. split; [right; exact Hin | exact Hf].
    + cbn [fst] in H. destruct l1 as [|x [|y l1]]; discriminate H.
Qed.

(* a stage that fired did so at or after its start, strictly before the cut when it was asynchronous *)
Lemma fires_at_bounds C t st t' :
  fires_at C t st = Some t' ->
  t <= t' /\ (forall d f, s_ret st = RLater d f -> t' = t + d /\ t' < C).
Proof.
  unfold fires_at. destruct (s_ret st) as [|c|d f|].
  - intro H; inversion H; subst. split; [lia | discriminate].
  - intro H; inversion H; subst. split; [lia | discriminate].
  - destruct (Nat.ltb (t + d) C) eqn:L; [|discriminate]. apply Nat.ltb_lt in L.
    intro H; inversion H; subst. split; [lia|]. intros d' f' E. inversion E; subst. split; [reflexivity | exact L].
  - discriminate.
Qed.

(* the stages that ran are an initial segment of the plan *)
Lemma expected_log_prefix C : forall pl t,
  exists rest, map fst pl = map fst (fst (expected_log C t pl)) ++ rest.
Proof.
  induction pl as [|[k st] r IH]; intro t.
  - exists []. reflexivity.
  - cbn [expected_log]. destruct (fires_at C t st) as [t'|].
    + destruct (IH t') as [rest E]. destruct (expected_log C t' r) as [l b]. cbn [fst map] in *.
      exists rest. rewrite E. reflexivity.
    + exists (map fst r). reflexivity.
Qed.

Lemma number_from_ids l : forall k, map fst (number_from k l) = map id_cleanup (seq k (length l)).
Proof. induction l as [|s r IH]; intro k; simpl; [reflexivity | rewrite IH; reflexivity]. Qed.

(* setUp, then the test and tearDown unless setUp failed, then the cleanups: last registered first *)
Lemma plan_ids p :
  map fst (plan p) =
  id_setup :: (if stage_raises (i_setup p) then [] else [id_body; id_teardown])
  ++ rev (map id_cleanup (seq 0 (length (i_cleanups p)))).
Proof.
  unfold plan. cbn [map fst]. rewrite map_app, map_rev, number_from_ids.
  destruct (stage_raises (i_setup p)); reflexivity.
Qed.

Lemma sequencing_words p :
  (* the stages that ran are an initial segment of setUp, test, tearDown, cleanups in reverse *)
  (exists rest, map fst (plan p) = map fst (o_log (model p)) ++ rest)
  (* the first one starts at instant 0 *)
  /\ (forall k u l, o_log (model p) = (k, u) :: l -> k = id_setup /\ u = 0)
  (* each further one starts at exactly the instant its predecessor fired, which was before the cut *)
  /\ (forall l1 k1 t1 k2 t2 l2, o_log (model p) = l1 ++ (k1, t1) :: (k2, t2) :: l2 ->
      exists st1, In (k1, st1) (plan p) /\ fires_at (cut_instant p) t1 st1 = Some t2 /\ t1 <= t2).
Proof.
  rewrite model_log. split_ands.
  - apply expected_log_prefix.
  - intros k u l H. split; [|apply (expected_log_first _ _ _ _ _ _ H)].
    unfold plan in H. cbn [expected_log] in H.
    destruct (fires_at (cut_instant p) 0 (i_setup p)); [destruct (expected_log _ _ _)|];
      cbn [fst] in H; inversion H; reflexivity.
  - intros l1 k1 t1 k2 t2 l2 H.
    destruct (expected_log_adjacent _ _ _ _ _ _ _ _ _ H) as [st1 [Hin Hf]].
    exists st1. split_ands; try assumption. apply (fires_at_bounds _ _ _ _ Hf).
Qed.

(* ================= the two runner variants (table obligations over Gen/Spinnertabs.v) ================= *)
Lemma tab_iterations_le : runner_iterations <= broken_runner_iterations.
Proof. vm_compute. repeat constructor. Qed.
Lemma tab_plain_is_spinner_default : runner_iterations = spinner_iterations.
Proof. vm_compute. reflexivity. Qed.

(* the ForBrokenTwisted variant never reports more junk than the plain one in the same situation *)
Lemma broken_shakes_out p q m :
  i_broken p = true -> i_broken q = false -> incl (junk_of p m) (junk_of q m).
Proof.
  intros Hp Hq. unfold junk_of, iterations. rewrite Hp, Hq.
  pose proof tab_iterations_le as T.
  destruct broken_runner_iterations, runner_iterations; try apply incl_refl.
  - lia.
  - intros x Hx. apply filter_In in Hx. tauto.
Qed.

(* ================= programs that leave no delayed call: the verdict is decided by the input alone ================= *)
Definition no_leftovers (p : program) : Prop :=
  s_leave (i_setup p) = [] /\ s_leave (i_body p) = [] /\ s_leave (i_teardown p) = []
  /\ Forall (fun st => s_leave st = []) (i_cleanups p).

Lemma note_pending c m : m_pending (note_failure c m) = m_pending m.
Proof. destruct c; reflexivity. Qed.

Lemma run_stage_nopend C k st m :
  s_leave st = [] -> m_pending m = [] ->
  match run_stage C k st m with Done _ m' => m_pending m' = [] | Cut m' => m_pending m' = [] end.
Proof.
  intros L P. unfold run_stage, start_stage. rewrite L, P.
  destruct (s_ret st) as [|c|d f|]; simpl; try reflexivity.
  destruct (Nat.ltb (m_now m + d) C); reflexivity.
Qed.

Lemma run_cleanups_nopend C : forall cs last m,
  Forall (fun ks : nat * stage => s_leave (snd ks) = []) cs -> m_pending m = [] ->
  match run_cleanups C cs last m with CDone _ m' => m_pending m' = [] | CCut m' _ => m_pending m' = [] end.
Proof.
  induction cs as [|[k st] r IH]; intros last m F P; [exact P|].
  inversion F as [|? ? Hst Fr]; subst. cbn [run_cleanups snd] in *.
  generalize (run_stage_nopend C k st m Hst P).
  destruct (run_stage C k st m) as [c m1|m1]; intro P1; [apply IH; assumption | exact P1].
Qed.

Lemma number_from_Forall (P : stage -> Prop) l : forall k,
  Forall P l -> Forall (fun ks : nat * stage => P (snd ks)) (number_from k l).
Proof. induction l as [|s r IH]; intros k F; simpl; inversion F; subst; constructor; auto. Qed.

Lemma clean_up_nopend C p m :
  no_leftovers p -> m_pending m = [] ->
  match clean_up C p m with Completed m' => m_pending m' = [] | Stopped m' _ => m_pending m' = [] end.
Proof.
  intros (_ & _ & _ & F) P. unfold clean_up.
  assert (F' : Forall (fun ks : nat * stage => s_leave (snd ks) = []) (rev (number_from 0 (i_cleanups p)))).
  { apply Forall_rev. apply (number_from_Forall (fun st => s_leave st = [])). exact F. }
  generalize (run_cleanups_nopend C _ None m F' P).
  destruct (run_cleanups C (rev (number_from 0 (i_cleanups p))) None m); intro Q;
    [rewrite note_pending|]; exact Q.
Qed.

Lemma run_deferred_nopend C p :
  no_leftovers p ->
  match run_deferred C p with Completed m => m_pending m = [] | Stopped m _ => m_pending m = [] end.
Proof.
  intros N. pose proof N as (L1 & L2 & L3 & _). unfold run_deferred.
  generalize (run_stage_nopend C id_setup (i_setup p) sim0 L1 eq_refl).
  destruct (run_stage C id_setup (i_setup p) sim0) as [[x|] m1|m1]; intro P1; [| |exact P1].
  - apply (clean_up_nopend C p _ N). rewrite note_pending. exact P1.
  - generalize (run_stage_nopend C id_body (i_body p) m1 L2 P1).
    destruct (run_stage C id_body (i_body p) m1) as [c2 m2|m2]; intro P2; [|exact P2].
    assert (P2' : m_pending (note_failure c2 m2) = []) by (rewrite note_pending; exact P2).
    generalize (run_stage_nopend C id_teardown (i_teardown p) _ L3 P2').
    destruct (run_stage C id_teardown (i_teardown p) (note_failure c2 m2)) as [c3 m3|m3]; intro P3; [|exact P3].
    apply (clean_up_nopend C p _ N). rewrite note_pending. exact P3.
Qed.

Lemma junk_of_nil p m : m_pending m = [] -> junk_of p m = [].
Proof. intro P. unfold junk_of. rewrite P. destruct (iterations p); reflexivity. Qed.

Lemma no_leftovers_unrun p : no_leftovers p -> o_unrun (model p) = 0.
Proof.
  intro N. unfold model, run. cbn [o_unrun].
  generalize (run_deferred_nopend (cut_instant p) p N).
  destruct (run_deferred (cut_instant p) p) as [m|m n]; intro P; rewrite finish_unrun, junk_of_nil;
    try reflexivity; [exact P|].
  unfold after_cut. cbn [m_pending]. rewrite P. reflexivity.
Qed.

(* then success is decided by the program text and the timing alone *)
Lemma success_iff_no_leftovers p :
  no_leftovers p ->
  (In AddSuccess (o_events (model p)) <-> completed p = true /\ all_clean p = true).
Proof.
  intro N. rewrite success_iff, (no_leftovers_unrun p N). tauto.
Qed.
