(* C14 - proofs.  The model of AsynchronousDeferredRunTest on a virtual clock
   (Model/AsyncRun.v) meets the statement (Spec/C14.v) for EVERY program: any stage
   behaviours, any number of cleanups, any delays relative to the timeout, any
   interrupt instant, both runner variants, all logging options, any number of
   pre-installed observers.  Induction over the cleanup list / invariants over the
   stage chain; no enumeration. *)
From TT Require Import Lib.Base Model.Reactor Model.AsyncRun Spec.C14 Corr.C14 Gen.Spinnertabs.

Ltac split_ands := repeat match goal with |- _ /\ _ => split end.

(* ================= decidable equalities ================= *)
Lemma cls_eqb_spec a b : cls_eqb a b = true <-> a = b.
Proof. destruct a, b; simpl; split; congruence. Qed.
Lemma ev_eqb_spec a b : ev_eqb a b = true <-> a = b.
Proof. destruct a, b; simpl; split; congruence. Qed.
Lemma log_eqb_spec a b : log_eqb a b = true <-> a = b.
Proof. apply list_eqb_spec, pair_eqb_spec; apply Nat.eqb_eq. Qed.

Lemma obs_eqb_spec a b : obs_eqb a b = true <-> alpha a = alpha b.
Proof.
  destruct a, b; unfold obs_eqb, alpha; simpl. rewrite !andb_true_iff.
  rewrite (list_eqb_spec ev_eqb ev_eqb_spec), !bool_eqb_spec, log_eqb_spec, !Nat.eqb_eq.
  split.
  - intros [[[[[-> ->] ->] ->] ->] ->]; reflexivity.
  - intro E; injection E; intros; subst; repeat split.
Qed.

(* ================= spec_okb <-> Spec ================= *)
Lemma reports_success_iff es : reports_success es = true <-> In AddSuccess es.
Proof.
  unfold reports_success. rewrite existsb_exists. split.
  - intros [x [Hin E]]. apply ev_eqb_spec in E. subst. exact Hin.
  - intro H. exists AddSuccess. split; [exact H | reflexivity].
Qed.

Lemma one_outcome_iff es :
  one_outcome es = true <->
  exists x, es = [StartTest; x; StopTest] /\ In x [AddSuccess; AddError; AddFailure; AddSkip].
Proof.
  split.
  - intro H.
    destruct es as [|a [|x [|b [|c r]]]]; simpl in H; try discriminate;
      destruct a; simpl in H; try discriminate;
      destruct b; simpl in H; try discriminate.
    exists x. split; [reflexivity|]. destruct x; simpl in *; try discriminate; auto.
  - intros [x [-> Hin]]. simpl in *. intuition (subst; reflexivity).
Qed.

Lemma bool_eqb_iff a b : Bool.eqb a b = true <-> (a = true <-> b = true).
Proof. destruct a, b; simpl; intuition congruence. Qed.

Lemma cut_kind_flag p b :
  Bool.eqb b (match cut_kind p with KInterrupt => true | KTimeout => false end) = true
  <-> (b = true <-> cut_kind p = KInterrupt).
Proof. rewrite bool_eqb_iff. destruct (cut_kind p); intuition congruence. Qed.

Lemma is_nil_iff {A} (l : list A) : is_nil l = true <-> l = [].
Proof. destruct l; simpl; split; congruence. Qed.

(* the executable walk checker is the inductive one *)
Lemma log_okb_walk C : forall pl t log, log_okb C t pl log = true <-> Walk C t pl log.
Proof.
  induction pl as [|[k st] r IH]; intros t log.
  - cbn [log_okb]. rewrite is_nil_iff. split; [intros ->; constructor | intro W; inversion W; reflexivity].
  - destruct log as [|[k' t'] lr]; cbn [log_okb].
    + split; [discriminate | intro W; inversion W].
    + rewrite !andb_true_iff, !Nat.eqb_eq. split.
      * intros [[<- <-] H]. destruct (completes t st) as [|u|] eqn:E.
        -- apply W_now; [exact E | apply IH; exact H].
        -- destruct (Nat.ltb u C) eqn:L.
           ++ apply Nat.ltb_lt in L. apply (W_go C t k st r lr u E); [lia | apply IH; exact H].
           ++ apply Nat.ltb_ge in L. destruct (Nat.eqb u C) eqn:Q.
              ** apply Nat.eqb_eq in Q. apply orb_true_iff in H as [H|H].
                 --- apply is_nil_iff in H. subst lr. apply (W_late C t k st r u E). lia.
                 --- apply (W_go C t k st r lr u E); [lia | apply IH; exact H].
              ** apply is_nil_iff in H. subst lr. apply (W_late C t k st r u E). exact L.
        -- apply is_nil_iff in H. subst lr. apply W_never. exact E.
      * intro W.
        inversion W as [ | ? ? ? ? ? Hc Hw | ? ? ? ? ? u Hc Hu Hw | ? ? ? ? u Hc Hu | ? ? ? ? Hc]; subst;
          (split; [split; reflexivity|]); rewrite Hc.
        -- apply IH. exact Hw.
        -- destruct (Nat.ltb u C) eqn:L; [apply IH; exact Hw|].
           apply Nat.ltb_ge in L. assert (u = C) by lia. subst u. rewrite Nat.eqb_refl.
           apply orb_true_iff. right. apply IH. exact Hw.
        -- assert (L : Nat.ltb u C = false) by (apply Nat.ltb_ge; exact Hu). rewrite L.
           destruct (Nat.eqb u C); reflexivity.
        -- reflexivity.
Qed.

Lemma spec_okb_iff p o : spec_okb p o = true <-> Spec p o.
Proof.
  unfold spec_okb, Spec. rewrite !andb_true_iff, log_okb_walk, one_outcome_iff, bool_eqb_iff,
    reports_success_iff, !andb_true_iff, !Nat.eqb_eq.
  assert (T : (if completed p then true
               else list_eqb ev_eqb (o_events o) [StartTest; AddError; StopTest]
                    && Bool.eqb (o_stop o) (match cut_kind p with KInterrupt => true | KTimeout => false end)) = true
              <-> (completed p = false ->
                   o_events o = [StartTest; AddError; StopTest]
                   /\ (o_stop o = true <-> cut_kind p = KInterrupt))).
  { destruct (completed p).
    - split; [discriminate | reflexivity].
    - rewrite andb_true_iff, (list_eqb_spec ev_eqb ev_eqb_spec), cut_kind_flag. tauto. }
  rewrite T. tauto.
Qed.

(* ================= walks that go on: Go B t pl l t' = the stages of pl all completed (the asynchronous ones
   strictly before instant B), one after the other from instant t, the last one at t' ================= *)
Inductive Go (B : time) : time -> list (nat * stage) -> list (nat * time) -> time -> Prop :=
| Go_end : forall t, Go B t [] [] t
| Go_now : forall t k st r l t', completes t st = Immediately -> Go B t r l t' ->
                                 Go B t ((k, st) :: r) ((k, t) :: l) t'
| Go_at : forall t k st r l u t', completes t st = At u -> u < B -> Go B u r l t' ->
                                  Go B t ((k, st) :: r) ((k, t) :: l) t'.

Lemma go_weaken B B' t pl l t' : B <= B' -> Go B t pl l t' -> Go B' t pl l t'.
Proof.
  intros LE G. induction G.
  - constructor.
  - apply Go_now; assumption.
  - apply (Go_at B' t k st r l u t'); [assumption | lia | assumption].
Qed.

Lemma go_app B t p1 l1 t1 p2 l2 t2 :
  Go B t p1 l1 t1 -> Go B t1 p2 l2 t2 -> Go B t (p1 ++ p2) (l1 ++ l2) t2.
Proof.
  intros G1 G2. induction G1; cbn [app].
  - exact G2.
  - apply Go_now; [assumption | apply IHG1; exact G2].
  - apply (Go_at B t k st _ _ u t2); [assumption | assumption | apply IHG1; exact G2].
Qed.

Lemma go_ids B t pl l t' : Go B t pl l t' -> map fst l = map fst pl.
Proof. intro G. induction G; simpl; congruence. Qed.

Lemma go_expected C t pl l t' : Go C t pl l t' -> expected_log C t pl = (l, true).
Proof.
  intro G. induction G.
  - reflexivity.
  - cbn [expected_log]. unfold fires_at. rewrite H, IHG. reflexivity.
  - cbn [expected_log]. unfold fires_at. rewrite H.
    assert (L : Nat.ltb u C = true) by (apply Nat.ltb_lt; assumption). rewrite L, IHG. reflexivity.
Qed.

Lemma go_expected_cut C t p1 l tk k st r :
  Go C t p1 l tk -> fires_at C tk st = None ->
  expected_log C t (p1 ++ (k, st) :: r) = (l ++ [(k, tk)], false).
Proof.
  intros G F. induction G; cbn [app expected_log].
  - rewrite F. reflexivity.
  - unfold fires_at at 1. rewrite H, (IHG F). reflexivity.
  - unfold fires_at at 1. rewrite H.
    assert (L : Nat.ltb u C = true) by (apply Nat.ltb_lt; assumption). rewrite L, (IHG F). reflexivity.
Qed.

Lemma go_walk C t p1 l1 t1 p2 l2 :
  Go (S C) t p1 l1 t1 -> Walk C t1 p2 l2 -> Walk C t (p1 ++ p2) (l1 ++ l2).
Proof.
  intros G W. induction G; cbn [app].
  - exact W.
  - apply W_now; [assumption | apply IHG; exact W].
  - apply (W_go C t k st _ _ u); [assumption | lia | apply IHG; exact W].
Qed.

Lemma go_walk_all C t pl l t' : Go (S C) t pl l t' -> Walk C t pl l.
Proof.
  intro G. rewrite <- (app_nil_r pl), <- (app_nil_r l). apply (go_walk C t pl l t' [] [] G). constructor.
Qed.

(* the stage started at t is not over when the run is cut at C: due = when its Deferred is due *)
Definition stops (C t : time) (st : stage) (due : option time) : Prop :=
  (exists u, completes t st = At u /\ C <= u /\ due = Some u) \/ (completes t st = NeverC /\ due = None).

Lemma stops_fires_none C t st due : stops C t st due -> fires_at C t st = None.
Proof.
  unfold fires_at. intros [[u (E & L & _)]|[E _]]; rewrite E; [|reflexivity].
  assert (X : Nat.ltb u C = false) by (apply Nat.ltb_ge; exact L). rewrite X. reflexivity.
Qed.

Lemma stops_walk C t st due k r : stops C t st due -> Walk C t ((k, st) :: r) [(k, t)].
Proof.
  intros [[u (E & L & _)]|[E _]]; [apply (W_late C t k st r u E L) | apply W_never; exact E].
Qed.

(* ================= stages ================= *)
Definition noraise (st : stage) : bool := negb (stage_raises st).
Definition exc_of (st : stage) : option cls :=
  match s_ret st with RRaise c => Some c | RFired f => f | RLater _ f => f | RChained _ f => f | _ => None end.

Lemma exc_of_none st : exc_of st = None <-> noraise st = true.
Proof.
  unfold exc_of, noraise, stage_raises.
  destruct (s_ret st) as [|c|[c|]|d [c|]|d [c|]|]; simpl; split; congruence.
Qed.

Fixpoint count (f : stage -> bool) (l : list stage) : nat :=
  match l with [] => 0 | x :: r => b2n (f x) + count f r end.

Lemma count_app f a b : count f (a ++ b) = count f a + count f b.
Proof. induction a; simpl; lia. Qed.

Lemma note_now c m : m_now (note_failure c m) = m_now m.
Proof. destruct c; reflexivity. Qed.
Lemma note_log c m : m_log (note_failure c m) = m_log m.
Proof. destruct c; reflexivity. Qed.

(* how a stage that is Done completed *)
Definition went (C : time) (t : time) (st : stage) (t' : time) : Prop :=
  (completes t st = Immediately /\ t' = t) \/ (exists u, completes t st = At u /\ u < C /\ t' = u).

Lemma run_stage_done C k st m c m' :
  run_stage C k st m = Done c m' ->
  went C (m_now m) st (m_now m') /\ m_log m' = m_log m ++ [(k, m_now m)] /\ c = exc_of st
  /\ m_excs m' = m_excs m /\ m_fails m' = m_fails m
  /\ m_logged m' = m_logged m + b2n (s_logerr st)
  /\ m_dropped m' = m_dropped m + b2n (s_drop st)
  /\ m_pollers m' = m_pollers m + b2n (s_poll st).
Proof.
  unfold run_stage, went, completes, exc_of, start_stage.
  destruct (s_ret st) as [|x|f|d f|d f|]; simpl; try discriminate.
  - intro H; inversion H; subst; simpl; split_ands; try reflexivity. left; split; reflexivity.
  - intro H; inversion H; subst; simpl; split_ands; try reflexivity. left; split; reflexivity.
  - intro H; inversion H; subst; simpl; split_ands; try reflexivity. left; split; reflexivity.
  - destruct (Nat.ltb (m_now m + d) C) eqn:L; intro H; inversion H; subst; simpl; split_ands; try reflexivity.
    right. exists (m_now m + d). apply Nat.ltb_lt in L. split_ands; [reflexivity | exact L | reflexivity].
  - destruct (Nat.ltb (m_now m + d) C) eqn:L; intro H; inversion H; subst; simpl; split_ands; try reflexivity.
    right. exists (m_now m + d). apply Nat.ltb_lt in L. split_ands; [reflexivity | exact L | reflexivity].
Qed.

Lemma run_stage_cut C k st m m' due f :
  run_stage C k st m = Cut m' due f ->
  stops C (m_now m) st due /\ m_log m' = m_log m ++ [(k, m_now m)] /\ m_now m' = m_now m /\ f = exc_of st.
Proof.
  unfold run_stage, stops, completes, exc_of, start_stage.
  destruct (s_ret st) as [|x|f0|d f0|d f0|]; simpl; try discriminate.
  - destruct (Nat.ltb (m_now m + d) C) eqn:L; intro H; inversion H; subst; simpl; split_ands; try reflexivity.
    left. exists (m_now m + d). apply Nat.ltb_ge in L. split_ands; [reflexivity | exact L | reflexivity].
  - destruct (Nat.ltb (m_now m + d) C) eqn:L; intro H; inversion H; subst; simpl; split_ands; try reflexivity.
    left. exists (m_now m + d). apply Nat.ltb_ge in L. split_ands; [reflexivity | exact L | reflexivity].
  - intro H; inversion H; subst; simpl; split_ands; try reflexivity. right. split; reflexivity.
Qed.

Lemma go_cons C t k st t1 r l t' :
  went C t st t1 -> Go C t1 r l t' -> Go C t ((k, st) :: r) ((k, t) :: l) t'.
Proof.
  intros [[E ->]|[u (E & L & ->)]] G; [apply Go_now | apply (Go_at C t k st r l u t')]; assumption.
Qed.

(* ================= the cleanups: induction over the list ================= *)
Lemma merge_none c last : merge c last = None <-> c = None /\ last = None.
Proof. destruct c, last; simpl; split; try (intros [? ?]); try split; congruence. Qed.

Lemma run_cleanups_spec C : forall cs last m,
  match run_cleanups C cs last m with
  | CDone last' m' =>
      (exists L, Go C (m_now m) cs L (m_now m') /\ m_log m' = m_log m ++ L)
      /\ (last' = None <-> last = None /\ forallb (fun ks => noraise (snd ks)) cs = true)
      /\ m_excs m' = m_excs m /\ m_fails m' = m_fails m
      /\ m_logged m' = m_logged m + count s_logerr (map snd cs)
      /\ m_dropped m' = m_dropped m + count s_drop (map snd cs)
      /\ m_pollers m' = m_pollers m + count s_poll (map snd cs)
  | CCut m' due f rest last' =>
      exists pl1 k st L,
        cs = pl1 ++ (k, st) :: rest /\ Go C (m_now m) pl1 L (m_now m')
        /\ m_log m' = m_log m ++ L ++ [(k, m_now m')] /\ stops C (m_now m') st due /\ f = exc_of st
  end.
Proof.
  induction cs as [|[k st] r IH]; intros last m.
  - simpl. rewrite !Nat.add_0_r. split_ands; try reflexivity.
    + exists []. split; [constructor | rewrite app_nil_r; reflexivity].
    + tauto.
  - cbn [run_cleanups]. destruct (run_stage C k st m) as [c m1|m1 due f] eqn:E.
    + apply run_stage_done in E as (Hw & Hl & Hc & He & Hn & H1 & H2 & H3).
      generalize (IH (merge c last) m1).
      destruct (run_cleanups C r (merge c last) m1) as [last' m'|m' due f rest last'].
      * intros ([L [G I2]] & I3 & I4 & I5 & I6 & I7 & I8). split_ands.
        -- exists ((k, m_now m) :: L). split; [apply (go_cons C _ k st _ _ _ _ Hw G)|].
           rewrite I2, Hl, <- app_assoc. reflexivity.
        -- rewrite I3, merge_none. cbn [forallb snd]. rewrite andb_true_iff, <- exc_of_none, <- Hc. tauto.
        -- congruence.
        -- congruence.
        -- cbn [map snd count]. lia.
        -- cbn [map snd count]. lia.
        -- cbn [map snd count]. lia.
      * intros (pl1 & k' & st' & L & E1 & G & I2 & I3 & I4).
        exists ((k, st) :: pl1), k', st', ((k, m_now m) :: L). split_ands.
        -- rewrite E1. reflexivity.
        -- apply (go_cons C _ k st _ _ _ _ Hw G).
        -- rewrite I2, Hl, <- !app_assoc. reflexivity.
        -- exact I3.
        -- exact I4.
    + apply run_stage_cut in E as (Hs & Hl & Hn & Hf).
      exists [], k, st, []. rewrite Hn. split_ands; try assumption.
      * reflexivity.
      * constructor.
Qed.

(* ================= the invariant of the stage chain ================= *)
(* ex = the stages executed so far *)
Definition Acc (ex : list stage) (m : sim) : Prop :=
  (m_fails m = 0 <-> forallb noraise ex = true)
  /\ (m_fails m = 0 <-> m_excs m = [])
  /\ m_logged m = count s_logerr ex
  /\ m_dropped m = count s_drop ex
  /\ m_pollers m = count s_poll ex.

Lemma Acc0 : Acc [] sim0.
Proof. unfold Acc; simpl. split; [tauto|]. split; [tauto|]. auto. Qed.

Lemma forallb_snoc {A} (f : A -> bool) l x : forallb f (l ++ [x]) = forallb f l && f x.
Proof. rewrite forallb_app. simpl. rewrite andb_true_r. reflexivity. Qed.

Lemma Acc_note ex m st m' :
  Acc ex m ->
  m_excs m' = m_excs m -> m_fails m' = m_fails m ->
  m_logged m' = m_logged m + b2n (s_logerr st) ->
  m_dropped m' = m_dropped m + b2n (s_drop st) ->
  m_pollers m' = m_pollers m + b2n (s_poll st) ->
  Acc (ex ++ [st]) (note_failure (exc_of st) m').
Proof.
  intros (A1 & A2 & A3 & A4 & A5) He Hn H1 H2 H3. unfold Acc.
  rewrite forallb_snoc, !count_app. cbn [count]. rewrite !Nat.add_0_r.
  destruct (exc_of st) as [x|] eqn:Ex.
  - assert (R : noraise st = false).
    { destruct (noraise st) eqn:N; [|reflexivity]. apply exc_of_none in N. congruence. }
    rewrite R, andb_false_r. simpl. split_ands; try lia.
    all: split; intro HH; try discriminate HH; destruct (m_excs m'); discriminate HH.
  - assert (R : noraise st = true) by (apply exc_of_none; exact Ex).
    rewrite R, andb_true_r. simpl. rewrite He, Hn. split_ands; try tauto; lia.
Qed.

Definition cleanup_plan (p : program) : list (nat * stage) := rev (number_from 0 (i_cleanups p)).

Lemma forallb_map {A B} (f : B -> bool) (g : A -> B) l : forallb f (map g l) = forallb (fun x => f (g x)) l.
Proof. induction l; simpl; congruence. Qed.

(* what is still to do once the Deferred somebody waits for has fired (with f) *)
Definition todo (p : program) (w : waiting) (f : option cls) : list (nat * stage) :=
  match w with
  | WSetup => match f with
              | Some _ => cleanup_plan p
              | None => (id_body, i_body p) :: (id_teardown, i_teardown p) :: cleanup_plan p
              end
  | WBody => (id_teardown, i_teardown p) :: cleanup_plan p
  | WTeardown => cleanup_plan p
  | WCleanup rest _ => rest
  end.

(* a piece of the callback graph, entered in state m with the stages T ahead, behaves: either all of T went
   through, or it is waiting at some stage of T and what is still to do is the rest of T *)
Definition ChainOK (C : time) (p : program) (T : list (nat * stage)) (m : sim) (r : rres) : Prop :=
  match r with
  | Completed m' => exists L, Go C (m_now m) T L (m_now m') /\ m_log m' = m_log m ++ L
  | Stopped m' n due f w =>
      exists pl1 k st L,
        T = pl1 ++ (k, st) :: todo p w f /\ Go C (m_now m) pl1 L (m_now m')
        /\ m_log m' = m_log m ++ L ++ [(k, m_now m')] /\ stops C (m_now m') st due /\ f = exc_of st
  end.
Definition ChainAcc (T : list (nat * stage)) (m : sim) (r : rres) : Prop :=
  forall ex, Acc ex m -> match r with Completed m' => Acc (ex ++ map snd T) m' | Stopped _ _ _ _ _ => True end.

Lemma chainok_note C p T c m r : ChainOK C p T (note_failure c m) r <-> ChainOK C p T m r.
Proof. unfold ChainOK. rewrite note_now, note_log. tauto. Qed.

Lemma k_cleanups_ok C p cs last m :
  ChainOK C p cs m (k_cleanups C cs last m)
  /\ (last = None -> ChainAcc cs m (k_cleanups C cs last m)).
Proof.
  unfold k_cleanups. generalize (run_cleanups_spec C cs last m).
  destruct (run_cleanups C cs last m) as [last' m'|m' due f rest last'].
  - intros ([L [G I2]] & I3 & I4 & I5 & I6 & I7 & I8). split.
    + exists L. rewrite note_now, note_log. split; assumption.
    + intros -> ex (A1 & A2 & A3 & A4 & A5). unfold Acc.
      rewrite forallb_app, !count_app, forallb_map.
      destruct last' as [x|]; simpl.
      * assert (R : forallb (fun ks => noraise (snd ks)) cs = false).
        { destruct (forallb (fun ks => noraise (snd ks)) cs) eqn:F; [|reflexivity].
          destruct I3 as [_ I3]. discriminate I3. split; reflexivity. }
        rewrite R, andb_false_r. split_ands; try lia.
        all: split; intro HH; try discriminate HH; destruct (m_excs m'); discriminate HH.
      * assert (R : forallb (fun ks => noraise (snd ks)) cs = true) by (apply I3; reflexivity).
        rewrite R, andb_true_r, I4, I5. split_ands; try tauto; lia.
  - intros (pl1 & k & st & L & E1 & G & I2 & I3 & I4). split; [|intros _ ex _; exact I].
    exists pl1, k, st, L. cbn [todo]. split_ands; assumption.
Qed.

(* one stage, then a continuation K that has been shown to behave *)
Lemma stage_then C p k st (T : option cls -> list (nat * stage)) (K : option cls -> sim -> rres) w nleft m :
  (forall c m', ChainOK C p (T c) (note_failure c m') (K c m') /\ ChainAcc (T c) (note_failure c m') (K c m')) ->
  (forall f, todo p w f = T f) ->
  let r := match run_stage C k st m with Done c m' => K c m' | Cut m' due f => Stopped m' nleft due f w end in
  ChainOK C p ((k, st) :: T (exc_of st)) m r /\ ChainAcc ((k, st) :: T (exc_of st)) m r.
Proof.
  intros HK HT. cbv zeta. destruct (run_stage C k st m) as [c m1|m1 due f] eqn:E.
  - apply run_stage_done in E as (Hw & Hl & Hc & He & Hn & H1 & H2 & H3). subst c.
    destruct (HK (exc_of st) m1) as [OK AC]. apply chainok_note in OK. split.
    + destruct (K (exc_of st) m1) as [m'|m' n due f w'].
      * destruct OK as [L [G I2]]. exists ((k, m_now m) :: L). split; [apply (go_cons C _ k st _ _ _ _ Hw G)|].
        rewrite I2, Hl, <- app_assoc. reflexivity.
      * destruct OK as (pl1 & k' & st' & L & E1 & G & I2 & I3 & I4).
        exists ((k, st) :: pl1), k', st', ((k, m_now m) :: L). split_ands; try assumption.
        -- rewrite E1. reflexivity.
        -- apply (go_cons C _ k st _ _ _ _ Hw G).
        -- rewrite I2, Hl, <- !app_assoc. reflexivity.
    + intros ex A. pose proof (Acc_note ex m st m1 A He Hn H1 H2 H3) as A'.
      specialize (AC _ A'). destruct (K (exc_of st) m1); [|exact I].
      cbn [map snd]. rewrite <- app_assoc in AC. exact AC.
  - apply run_stage_cut in E as (Hs & Hl & Hn & Hf). split; [|intros ex _; exact I].
    exists [], k, st, []. rewrite Hn, HT, Hf. split_ands; try assumption; try reflexivity. constructor.
Qed.

Lemma clean_up_ok C p m :
  ChainOK C p (cleanup_plan p) m (clean_up C p m) /\ ChainAcc (cleanup_plan p) m (clean_up C p m).
Proof.
  unfold clean_up. fold (cleanup_plan p).
  destruct (k_cleanups_ok C p (cleanup_plan p) None m) as [A B]. split; [exact A | apply B; reflexivity].
Qed.

Definition after_teardown (p : program) (c : option cls) := cleanup_plan p.
Definition after_body (p : program) (c : option cls) := (id_teardown, i_teardown p) :: cleanup_plan p.
Definition after_setup (p : program) (c : option cls) :=
  match c with
  | Some _ => cleanup_plan p
  | None => (id_body, i_body p) :: (id_teardown, i_teardown p) :: cleanup_plan p
  end.

Lemma tear_down_ok C p m :
  ChainOK C p ((id_teardown, i_teardown p) :: cleanup_plan p) m (tear_down C p m)
  /\ ChainAcc ((id_teardown, i_teardown p) :: cleanup_plan p) m (tear_down C p m).
Proof.
  apply (stage_then C p id_teardown (i_teardown p) (after_teardown p) (k_teardown C p) WTeardown).
  - intros c m'. apply clean_up_ok.
  - reflexivity.
Qed.

Lemma run_test_ok C p m :
  ChainOK C p (after_setup p None) m (run_test C p m) /\ ChainAcc (after_setup p None) m (run_test C p m).
Proof.
  apply (stage_then C p id_body (i_body p) (after_body p) (k_body C p) WBody).
  - intros c m'. apply tear_down_ok.
  - reflexivity.
Qed.

Lemma set_up_done_ok C p c m :
  ChainOK C p (after_setup p c) (note_failure c m) (set_up_done C p c m)
  /\ ChainAcc (after_setup p c) (note_failure c m) (set_up_done C p c m).
Proof. destruct c as [x|]; [apply clean_up_ok | apply run_test_ok]. Qed.

Lemma plan_after_setup p : plan p = (id_setup, i_setup p) :: after_setup p (exc_of (i_setup p)).
Proof.
  unfold plan, after_setup. fold (cleanup_plan p).
  destruct (exc_of (i_setup p)) as [x|] eqn:E.
  - assert (R : stage_raises (i_setup p) = true).
    { destruct (stage_raises (i_setup p)) eqn:S; [reflexivity|].
      assert (N : noraise (i_setup p) = true) by (unfold noraise; rewrite S; reflexivity).
      apply exc_of_none in N. congruence. }
    rewrite R. reflexivity.
  - apply exc_of_none in E. unfold noraise in E. apply negb_true_iff in E. rewrite E. reflexivity.
Qed.

(* _run_deferred *)
Lemma run_deferred_ok C p :
  ChainOK C p (plan p) sim0 (run_deferred C p) /\ ChainAcc (plan p) sim0 (run_deferred C p).
Proof.
  rewrite plan_after_setup. unfold run_deferred.
  apply (stage_then C p id_setup (i_setup p) (after_setup p) (set_up_done C p) WSetup).
  - intros c m'. apply set_up_done_ok.
  - intros [x|]; reflexivity.
Qed.

(* the outstanding Deferred fires after all *)
Lemma resume_ok C p w f m : ChainOK C p (todo p w f) m (resume_at C p w f m).
Proof.
  destruct w as [| | |rest last]; cbn [resume_at todo].
  - apply (chainok_note C p _ f m). apply (set_up_done_ok C p f m).
  - unfold k_body. apply (chainok_note C p _ f m). apply tear_down_ok.
  - unfold k_teardown. apply (chainok_note C p _ f m). apply clean_up_ok.
  - apply k_cleanups_ok.
Qed.

(* ================= the passes after the cut ================= *)
(* somebody waits for a stage of the plan; everything before it went through *)
Definition Pend (C : time) (p : program) (log : list (nat * time)) (due f : option _) (w : waiting) : Prop :=
  exists pl1 k st L tk,
    plan p = pl1 ++ (k, st) :: todo p w f /\ Go (S C) 0 pl1 L tk /\ log = L ++ [(k, tk)]
    /\ stops C tk st due /\ f = exc_of st.

Lemma pend_walk C p log due f w : Pend C p log due f w -> Walk C 0 (plan p) log.
Proof.
  intros (pl1 & k & st & L & tk & E & G & -> & Hs & _). rewrite E.
  apply (go_walk C 0 pl1 L tk). exact G. apply (stops_walk C tk st due k _ Hs).
Qed.

Lemma settle_log n m : m_log (settle n m) = m_log m.
Proof. destruct n; reflexivity. Qed.

Lemma late_walk C p : forall n m nleft due f w,
  Pend C p (m_log m) due f w -> Walk C 0 (plan p) (m_log (fst (late n C p m nleft due f w))).
Proof.
  induction n as [|n IH]; intros m nleft due f w P; cbn [late].
  - apply (pend_walk C p _ due f w P).
  - destruct (option_eqb Nat.eqb due (Some C)) eqn:Q.
    + apply (option_eqb_spec Nat.eqb Nat.eqb_eq) in Q. subst due.
      destruct P as (pl1 & k & st & L & tk & E & G & El & Hs & Ef).
      assert (Ec : completes tk st = At C).
      { destruct Hs as [[u (Ec & _ & Eu)]|[_ Eu]]; [|discriminate Eu]. inversion Eu; subst. exact Ec. }
      assert (G1 : Go (S C) 0 (pl1 ++ [(k, st)]) (L ++ [(k, tk)]) C).
      { apply (go_app (S C) 0 pl1 L tk); [exact G|].
        apply (Go_at (S C) tk k st [] [] C C Ec); [lia | constructor]. }
      generalize (resume_ok C p w f (advance C m)).
      destruct (resume_at C p w f (advance C m)) as [m2|m2 n2 due2 f2 w2]; cbn [ChainOK advance m_now m_log].
      * intros [L2 [G2 I2]]. cbn [fst]. rewrite settle_log, I2, El.
        assert (Ep : plan p = (pl1 ++ [(k, st)]) ++ todo p w f).
        { rewrite E, <- app_assoc. reflexivity. }
        rewrite Ep. apply (go_walk_all C 0 _ _ (m_now m2)).
        apply (go_app (S C) 0 _ _ C); [exact G1|]. apply (go_weaken C (S C)); [lia | exact G2].
      * intros (pl2 & k2 & st2 & L2 & E2 & G2 & I2 & Hs2 & Ef2). apply IH.
        exists ((pl1 ++ [(k, st)]) ++ pl2), k2, st2, ((L ++ [(k, tk)]) ++ L2), (m_now m2). split_ands.
        -- rewrite E, E2, <- !app_assoc. reflexivity.
        -- apply (go_app (S C) 0 _ _ C); [exact G1|]. apply (go_weaken C (S C)); [lia | exact G2].
        -- rewrite I2, El, <- !app_assoc. reflexivity.
        -- exact Hs2.
        -- exact Ef2.
    + cbn [fst]. apply (pend_walk C p _ due f w P).
Qed.

(* ================= choosing the reported exception (runtest.py:108-117) ================= *)
Lemma rev_nil_inv {A} (l : list A) : rev l = [] -> l = [].
Proof. intro H. rewrite <- (rev_involutive l), H. reflexivity. Qed.

Lemma pick_nil_iff l : pick l = None <-> l = [].
Proof.
  unfold pick. split.
  - destruct (rev l) eqn:E; [intros _; apply rev_nil_inv; exact E | discriminate].
  - intros ->. reflexivity.
Qed.

Lemma ev_of_outcome c : is_outcome (ev_of c) = true.
Proof. destruct c; reflexivity. Qed.
Lemma ev_of_not_success c : ev_eqb AddSuccess (ev_of c) = false.
Proof. destruct c; reflexivity. Qed.

(* the reported exception is the last one, or an earlier one that no handler claims *)
Lemma pick_shape l last before :
  rev l = last :: before -> exists c, pick l = Some c /\ (c = last \/ claimed c = false).
Proof.
  intro E. unfold pick. rewrite E.
  destruct (find (fun c => negb (claimed c)) (rev before)) as [c|] eqn:F.
  - exists c. split; [reflexivity|]. right. apply find_some in F as [_ F].
    apply negb_true_iff in F. exact F.
  - exists last. split; [reflexivity | left; reflexivity].
Qed.

Lemma rev_ends_err l tl :
  Forall (eq CErr) tl -> exists before, rev (l ++ CErr :: tl) = CErr :: before.
Proof.
  intro F. rewrite rev_app_distr. cbn [rev].
  destruct (rev tl) as [|y r] eqn:E.
  - simpl. eauto.
  - assert (In y tl) by (apply in_rev; rewrite E; left; reflexivity).
    rewrite Forall_forall in F. rewrite <- (F y H). simpl. eauto.
Qed.

Lemma pick_ends_err l tl :
  Forall (eq CErr) tl -> exists c, pick (l ++ CErr :: tl) = Some c /\ ev_of c = AddError.
Proof.
  intro F. destruct (rev_ends_err l tl F) as [before E].
  destruct (pick_shape _ _ _ E) as [c [P [L|U]]]; exists c; (split; [exact P|]).
  - rewrite L. reflexivity.
  - destruct c; simpl in U; try discriminate; reflexivity.
Qed.

(* ================= _run_core: the verdict ================= *)
Definition successful (p : program) (ok : bool) (u : nat) (m : sim) : bool :=
  ok && Nat.eqb (m_logged m) 0 && Nat.eqb u 0 && negb (dirty p m).
Definition final_excs (p : program) (u : nat) (m : sim) : list cls :=
  m_excs m ++ repeat_err (m_logged m) ++ repeat_err u ++ (if dirty p m then [CErr] else []).

Lemma finish_events p ok u stop n m :
  r_events (finish p ok u stop n m) =
  [StartTest] ++ (if successful p ok u m then [AddSuccess] else [])
    ++ (match pick (final_excs p u m) with Some c => [ev_of c] | None => [] end) ++ [StopTest].
Proof. reflexivity. Qed.

Lemma repeat_err_nil n : repeat_err n = [] <-> n = 0.
Proof. destruct n; simpl; split; try reflexivity; discriminate. Qed.

Lemma final_excs_nil p u m :
  final_excs p u m = [] <-> m_excs m = [] /\ m_logged m = 0 /\ u = 0 /\ dirty p m = false.
Proof.
  unfold final_excs. split.
  - intro H. apply app_eq_nil in H as [H1 H]. apply app_eq_nil in H as [H2 H].
    apply app_eq_nil in H as [H3 H4]. apply repeat_err_nil in H2, H3.
    split_ands; try assumption. destruct (dirty p m); [discriminate | reflexivity].
  - intros (-> & -> & -> & ->). reflexivity.
Qed.

Lemma successful_iff p u m :
  (m_fails m = 0 <-> m_excs m = []) ->
  (successful p (Nat.eqb (m_fails m) 0) u m = true <-> final_excs p u m = []).
Proof.
  intro I. rewrite final_excs_nil. unfold successful.
  rewrite !andb_true_iff, !Nat.eqb_eq, negb_true_iff. tauto.
Qed.

Lemma events_completed p u stop n m :
  (m_fails m = 0 <-> m_excs m = []) ->
  let ok := Nat.eqb (m_fails m) 0 in
  (successful p ok u m = true /\ r_events (finish p ok u stop n m) = [StartTest; AddSuccess; StopTest])
  \/ (successful p ok u m = false
      /\ exists c, r_events (finish p ok u stop n m) = [StartTest; ev_of c; StopTest]).
Proof.
  intros I ok. rewrite finish_events. destruct (successful p ok u m) eqn:S.
  - left. split; [reflexivity|]. apply (successful_iff p u m I) in S. rewrite S. reflexivity.
  - right. split; [reflexivity|]. destruct (pick (final_excs p u m)) as [c|] eqn:P.
    + exists c. reflexivity.
    + apply pick_nil_iff in P. apply (successful_iff p u m I) in P. unfold ok in S. congruence.
Qed.

Lemma events_stopped p stop n m :
  r_events (finish p false 0 stop n (note_cut m)) = [StartTest; AddError; StopTest].
Proof.
  rewrite finish_events. unfold successful, final_excs. cbn [andb note_cut m_excs m_logged].
  rewrite <- app_assoc. cbn [app].
  destruct (pick_ends_err (m_excs m)
              (repeat_err (m_logged m) ++ repeat_err 0 ++ (if dirty p (note_cut m) then [CErr] else [])))
    as [c [P E]].
  - apply Forall_app. split; [|apply Forall_app; split].
    + unfold repeat_err. apply Forall_forall. intros x Hx. apply repeat_spec in Hx. congruence.
    + constructor.
    + destruct (dirty p (note_cut m)); repeat constructor.
  - fold (note_cut m). rewrite P, E. reflexivity.
Qed.

Lemma dirty_false p m : dirty p m = false <-> junk_of p m = [] /\ m_pollers m = 0.
Proof.
  unfold dirty. destruct (junk_of p m).
  - rewrite Nat.ltb_ge. split; [intro; split; [reflexivity | lia] | intros [_ ->]; lia].
  - split; [discriminate | intros [H _]; discriminate].
Qed.

Lemma all_clean_list l :
  forallb (fun ks : nat * stage => clean_stage (snd ks)) l = true <->
  forallb noraise (map snd l) = true /\ count s_logerr (map snd l) = 0
  /\ count s_drop (map snd l) = 0 /\ count s_poll (map snd l) = 0.
Proof.
  induction l as [|[k st] r IH]; cbn [forallb map snd count].
  - intuition reflexivity.
  - rewrite !andb_true_iff, IH. unfold clean_stage, noraise.
    destruct (stage_raises st), (s_logerr st), (s_drop st), (s_poll st); simpl;
      intuition (try discriminate; try lia).
Qed.

(* ================= Spinner._clean empties the reactor ================= *)
Lemma spinner_clean_from (l : list (dcall bool)) : forall q,
  (forall c, In c q -> In c l) -> fold_left (fun q' c => remove_seq (dc_seq c) q') l q = [].
Proof.
  induction l as [|a l IH]; intros q H; simpl.
  - destruct q as [|c q]; [reflexivity | destruct (H c); left; reflexivity].
  - apply IH. intros c Hc. unfold remove_seq in Hc. apply filter_In in Hc as [Hc Hs].
    destruct (H c Hc) as [<-|Hl]; [|exact Hl].
    rewrite Nat.eqb_refl in Hs. discriminate.
Qed.

Lemma spinner_clean_nil q : spinner_clean q = [].
Proof. unfold spinner_clean. apply spinner_clean_from. auto. Qed.

(* ================= the log observers are restored ================= *)
Lemma existsb_eqb_false x l : ~ In x l -> existsb (Nat.eqb x) l = false.
Proof.
  induction l as [|a l IH]; simpl; intro H; [reflexivity|].
  destruct (Nat.eqb x a) eqn:E.
  - apply Nat.eqb_eq in E. exfalso. apply H. left. symmetry. exact E.
  - apply IH. tauto.
Qed.

Lemma add_obs_fresh x l : ~ In x l -> add_obs x l = l ++ [x].
Proof. intro H. unfold add_obs. rewrite (existsb_eqb_false x l H). reflexivity. Qed.

Lemma remove_obs_last x l : ~ In x l -> remove_obs x (l ++ [x]) = l.
Proof.
  induction l as [|a l IH]; simpl; intro H.
  - rewrite Nat.eqb_refl. reflexivity.
  - destruct (Nat.eqb x a) eqn:E.
    + apply Nat.eqb_eq in E. exfalso. apply H. left. symmetry. exact E.
    + rewrite IH; tauto.
Qed.

Lemma with_observer_undone x l :
  ~ In x l -> clean_fixture (snd (with_observer x l)) (fst (with_observer x l)) = l.
Proof.
  intro H. unfold with_observer, clean_fixture. cbn [fst snd rev app fold_left apply_undo].
  rewrite (add_obs_fresh x l H). apply remove_obs_last. exact H.
Qed.

Lemma no_observers_fold xs : forall l us,
  fold_left (fun acc x => (remove_obs x (fst acc), snd acc ++ [UAdd x])) xs (l, us)
  = (fold_left (fun l x => remove_obs x l) xs l, us ++ map UAdd xs).
Proof.
  induction xs as [|x xs IH]; intros l us; simpl.
  - rewrite app_nil_r. reflexivity.
  - rewrite IH, <- app_assoc. reflexivity.
Qed.

Lemma remove_all_rev r : NoDup r -> fold_left (fun l x => remove_obs x l) r (rev r) = [].
Proof.
  induction r as [|a r IH]; intro N; [reflexivity|].
  inversion N as [|? ? Ha Nr]; subst. cbn [rev fold_left].
  rewrite remove_obs_last; [apply IH; exact Nr | rewrite <- in_rev; exact Ha].
Qed.

Lemma no_observers_spec l : NoDup l -> no_observers l = ([], map UAdd (rev l)).
Proof.
  intro N. unfold no_observers. rewrite no_observers_fold. cbn [app]. f_equal.
  rewrite <- (rev_involutive l) at 2. apply remove_all_rev. apply NoDup_rev. exact N.
Qed.

Lemma readd_all l : forall acc, NoDup (acc ++ l) -> fold_left apply_undo (map UAdd l) acc = acc ++ l.
Proof.
  induction l as [|a l IH]; intros acc N; simpl.
  - rewrite app_nil_r. reflexivity.
  - assert (Ha : ~ In a acc).
    { apply NoDup_remove_2 in N. intro H. apply N. apply in_or_app. left; exact H. }
    rewrite (add_obs_fresh a acc Ha), IH.
    + rewrite <- app_assoc. reflexivity.
    + rewrite <- app_assoc. exact N.
Qed.

Lemma undo_all l : NoDup l -> clean_fixture (map UAdd (rev l)) [] = l.
Proof.
  intro N. unfold clean_fixture. rewrite <- map_rev, rev_involutive. apply (readd_all l []). exact N.
Qed.

Lemma initial_fresh p x : x < 2 -> ~ In x (initial_observers p).
Proof. unfold initial_observers. intros H Hin. apply in_seq in Hin. lia. Qed.

Lemma observers_restored p : observers_after p = initial_observers p.
Proof.
  unfold observers_after.
  assert (N : NoDup (initial_observers p)) by apply seq_NoDup.
  assert (F0 : ~ In capture_obs (initial_observers p)) by (apply initial_fresh; unfold capture_obs; lia).
  assert (F1 : ~ In error_obs (initial_observers p)) by (apply initial_fresh; unfold error_obs; lia).
  set (l0 := initial_observers p) in *.
  destruct (i_suppress p), (i_store p); try rewrite (no_observers_spec l0 N);
    cbv beta iota; unfold with_observer; cbv beta iota.
  - replace (clean_fixture [URemove capture_obs]
               (clean_fixture [URemove error_obs] (add_obs error_obs (add_obs capture_obs []))))
      with (@nil nat) by reflexivity.
    apply undo_all. exact N.
  - replace (clean_fixture [] (clean_fixture [URemove error_obs] (add_obs error_obs [])))
      with (@nil nat) by reflexivity.
    apply undo_all. exact N.
  - rewrite (add_obs_fresh capture_obs l0 F0).
    assert (F2 : ~ In error_obs (l0 ++ [capture_obs])).
    { intro H. apply in_app_or in H as [H|[H|[]]]; [tauto | discriminate H]. }
    rewrite (add_obs_fresh error_obs _ F2).
    unfold clean_fixture. cbn [rev app fold_left apply_undo].
    rewrite (remove_obs_last error_obs _ F2). apply remove_obs_last. exact F0.
  - rewrite (add_obs_fresh error_obs l0 F1).
    unfold clean_fixture. cbn [rev app fold_left apply_undo]. apply remove_obs_last. exact F1.
Qed.

(* ================= the model meets the statement ================= *)
Lemma finish_unrun p ok u stop n m : r_unrun (finish p ok u stop n m) = length (junk_of p m).
Proof. reflexivity. Qed.
Lemma finish_stop p ok u stop n m : r_stop (finish p ok u stop n m) = stop.
Proof. reflexivity. Qed.
Lemma finish_log p ok u stop n m : r_log (finish p ok u stop n m) = m_log m.
Proof. reflexivity. Qed.
Lemma finish_left p ok u stop n m : r_cleanups_left (finish p ok u stop n m) = n.
Proof. reflexivity. Qed.
Lemma finish_pending p ok u stop n m : r_pending (finish p ok u stop n m) = 0.
Proof. unfold finish. cbn [r_pending]. rewrite spinner_clean_nil. reflexivity. Qed.
Lemma finish_observers p ok u stop n m : r_observers (finish p ok u stop n m) = initial_observers p.
Proof. unfold finish. cbn [r_observers]. apply observers_restored. Qed.

Definition stop_flag (p : program) : bool := match cut_kind p with KInterrupt => true | KTimeout => false end.

Lemma Acc_settle ex n m : Acc ex m -> Acc ex (settle n m).
Proof. destruct n; [tauto|]. unfold Acc. simpl. tauto. Qed.
Lemma settle_fails n m : m_fails (settle n m) = m_fails m.
Proof. destruct n; reflexivity. Qed.
Lemma settle_dropped n m : m_dropped (settle n m) = m_dropped m.
Proof. destruct n; reflexivity. Qed.

(* the Deferred of _run_deferred fired iff every planned stage fired before the cut *)
Lemma completed_iff p :
  match run_deferred (cut_instant p) p with
  | Completed m => completed p = true /\ Acc (map snd (plan p)) m
                   /\ exists L, Go (cut_instant p) 0 (plan p) L (m_now m) /\ m_log m = L
  | Stopped m n due f w => completed p = false /\ Pend (cut_instant p) p (m_log m) due f w
  end.
Proof.
  destruct (run_deferred_ok (cut_instant p) p) as [OK AC]. specialize (AC [] Acc0).
  destruct (run_deferred (cut_instant p) p) as [m|m n due f w].
  - destruct OK as [L [G I2]]. cbn [m_now m_log sim0 app] in *. split_ands.
    + unfold completed. rewrite (go_expected _ _ _ _ _ G). reflexivity.
    + exact AC.
    + exists L. split; assumption.
  - destruct OK as (pl1 & k & st & L & E & G & I2 & Hs & Ef). cbn [m_now m_log sim0 app] in *. split.
    + unfold completed. rewrite E, (go_expected_cut _ _ _ _ _ k st _ G (stops_fires_none _ _ _ _ Hs)). reflexivity.
    + exists pl1, k, st, L, (m_now m). split_ands; try assumption.
      apply (go_weaken (cut_instant p)); [lia | exact G].
Qed.

(* the three ways a run can end *)
Lemma model_cases p :
  (completed p = true
   /\ o_events (model p) = [StartTest; AddSuccess; StopTest]
   /\ all_clean p = true /\ o_unrun (model p) = 0 /\ o_stop (model p) = false
   /\ o_cleanups_left (model p) = 0)
  \/ (completed p = true
      /\ (exists c, o_events (model p) = [StartTest; ev_of c; StopTest])
      /\ all_clean p && Nat.eqb (o_unrun (model p)) 0 = false /\ o_stop (model p) = false
      /\ o_cleanups_left (model p) = 0)
  \/ (completed p = false
      /\ o_events (model p) = [StartTest; AddError; StopTest]
      /\ o_stop (model p) = stop_flag p).
Proof.
  unfold model, run. cbn [o_events o_unrun o_stop o_cleanups_left].
  generalize (completed_iff p).
  destruct (run_deferred (cut_instant p) p) as [m|m n due f w].
  - intros (Cp & A & _).
    rewrite finish_unrun, finish_stop, finish_left.
    rewrite <- (settle_fails (iterations p) m), <- (settle_dropped (iterations p) m).
    apply (Acc_settle _ (iterations p)) in A. set (ms := settle (iterations p) m) in *.
    destruct A as (A1 & A2 & A3 & A4 & A5).
    destruct (events_completed p (m_dropped ms) false 0 ms A2) as [[S Ev]|[S [c Ev]]].
    + left. split; [exact Cp|]. split; [exact Ev|].
      unfold successful in S. rewrite !andb_true_iff, !Nat.eqb_eq, negb_true_iff in S.
      destruct S as [[[S1 S2] S3] S4]. apply dirty_false in S4 as [S4 S5].
      split_ands; try reflexivity.
      * unfold all_clean. apply all_clean_list. split_ands.
        -- apply A1. exact S1.
        -- rewrite <- A3. exact S2.
        -- rewrite <- A4. exact S3.
        -- rewrite <- A5. exact S5.
      * rewrite S4. reflexivity.
    + right. left. split; [exact Cp|]. split; [exists c; exact Ev|]. split_ands; try reflexivity.
      destruct (all_clean p && Nat.eqb (length (junk_of p ms)) 0) eqn:X; [|reflexivity].
      exfalso. apply andb_true_iff in X as [X1 X2].
      apply all_clean_list in X1 as (X1 & X3 & X4 & X5). apply Nat.eqb_eq in X2.
      apply length_zero_iff_nil in X2.
      assert (S' : successful p (Nat.eqb (m_fails ms) 0) (m_dropped ms) ms = true).
      { unfold successful. rewrite !andb_true_iff, !Nat.eqb_eq, negb_true_iff. split_ands.
        - apply A1. exact X1.
        - rewrite A3. exact X3.
        - rewrite A4. exact X4.
        - apply dirty_false. split; [exact X2 | rewrite A5; exact X5]. }
      congruence.
  - intros [Cp _]. right. right.
    destruct (late (passes p) (cut_instant p) p (reach_cut (cut_instant p) m) n due f w) as [m1 n1].
    rewrite finish_stop. split; [exact Cp|]. split; [apply events_stopped | reflexivity].
Qed.

(* clause 1: the stage log is a walk along the plan *)
Lemma model_log p : Walk (cut_instant p) 0 (plan p) (o_log (model p)).
Proof.
  unfold model, run. cbn [o_log]. generalize (completed_iff p).
  destruct (run_deferred (cut_instant p) p) as [m|m n due f w].
  - intros (_ & _ & L & G & E). rewrite finish_log, settle_log, E.
    apply (go_walk_all _ 0 _ _ (m_now m)). apply (go_weaken (cut_instant p)); [lia | exact G].
  - intros [_ P].
    pose proof (late_walk (cut_instant p) p (passes p) (reach_cut (cut_instant p) m) n due f w P) as W.
    destruct (late (passes p) (cut_instant p) p (reach_cut (cut_instant p) m) n due f w) as [m1 n1].
    rewrite finish_log. exact W.
Qed.

Lemma model_pending p : o_pending (model p) = 0.
Proof.
  unfold model, run. cbn [o_pending].
  destruct (run_deferred (cut_instant p) p); [apply finish_pending|].
  destruct (late _ _ _ _ _ _ _ _). apply finish_pending.
Qed.

Lemma list_eqb_refl l : list_eqb Nat.eqb l l = true.
Proof. apply (list_eqb_spec Nat.eqb Nat.eqb_eq). reflexivity. Qed.

Lemma model_observers p : o_observers_same (model p) = true.
Proof.
  unfold model, run. cbn [o_observers_same].
  destruct (run_deferred (cut_instant p) p); [|destruct (late _ _ _ _ _ _ _ _)];
    rewrite finish_observers; apply list_eqb_refl.
Qed.

(* -------- per clause -------- *)
Lemma one_outcome_holds p :
  exists x, o_events (model p) = [StartTest; x; StopTest] /\ In x [AddSuccess; AddError; AddFailure; AddSkip].
Proof.
  destruct (model_cases p) as [(_ & E & _)|[(_ & [c E] & _)|(_ & E & _)]]; rewrite E.
  - exists AddSuccess. simpl. auto.
  - exists (ev_of c). split; [reflexivity|]. destruct c; simpl; auto.
  - exists AddError. simpl. auto.
Qed.

Lemma success_iff p :
  In AddSuccess (o_events (model p))
  <-> completed p = true /\ all_clean p = true /\ o_unrun (model p) = 0.
Proof.
  destruct (model_cases p) as [(Cp & E & Ac & U & _)|[(Cp & [c E] & X & _)|(Cp & E & _)]]; rewrite E.
  - split; [intros _; auto | intros _; simpl; auto].
  - split.
    + intros [H|[H|[H|[]]]]; try discriminate H. destruct c; discriminate H.
    + intros (_ & Ac & U). rewrite Ac, U in X. discriminate X.
  - split.
    + intros [H|[H|[H|[]]]]; discriminate H.
    + intros (Cp' & _). congruence.
Qed.

(* a timeout or an interrupt yields an error - also when the stages that were cut off still ran afterwards -;
   an interrupt also asks the result to stop (and nothing else does) *)
Lemma cut_is_error p :
  completed p = false ->
  o_events (model p) = [StartTest; AddError; StopTest]
  /\ (o_stop (model p) = true <-> cut_kind p = KInterrupt).
Proof.
  intro Cf. destruct (model_cases p) as [(Cp & _)|[(Cp & _)|(_ & E & S)]]; try congruence.
  split; [exact E|]. rewrite S. unfold stop_flag. destruct (cut_kind p); split; congruence.
Qed.

Lemma no_stop_without_interrupt p : completed p = true -> o_stop (model p) = false.
Proof.
  intro Ct. destruct (model_cases p) as [(_ & _ & _ & _ & S & _)|[(_ & _ & _ & S & _)|(Cp & _)]]; congruence.
Qed.

(* whatever happened: the reactor holds no delayed call, the observers are those installed before *)
Lemma left_clean p : o_pending (model p) = 0 /\ o_observers_same (model p) = true.
Proof. split; [apply model_pending | apply model_observers]. Qed.

(* every cleanup ran when nothing cut the run short *)
Lemma cleanups_all_run p :
  completed p = true ->
  o_cleanups_left (model p) = 0
  /\ map fst (o_log (model p)) = map fst (plan p).
Proof.
  intro Ct. split.
  - destruct (model_cases p) as [(_ & _ & _ & _ & _ & L)|[(_ & _ & _ & _ & L)|(Cp & _)]]; congruence.
  - unfold model, run. cbn [o_log]. generalize (completed_iff p).
    destruct (run_deferred (cut_instant p) p) as [m|m n due f w].
    + intros (_ & _ & L & G & E). rewrite finish_log, settle_log, E. apply (go_ids _ _ _ _ _ G).
    + intros [Cf _]. congruence.
Qed.

Theorem model_meets_spec p : spec_okb p (model p) = true.
Proof.
  apply spec_okb_iff. unfold Spec. split_ands.
  - apply model_log.
  - apply one_outcome_holds.
  - apply success_iff.
  - apply cut_is_error.
  - apply model_pending.
  - apply model_observers.
Qed.

Corollary model_meets_spec_wf p : wf p -> spec_okb p (model p) = true.
Proof. intros _. apply model_meets_spec. Qed.

(* ================= what a walk says, in words ================= *)
Lemma walk_first C t pl k u l : Walk C t pl ((k, u) :: l) -> u = t /\ exists st r, pl = (k, st) :: r.
Proof. intro W. inversion W; subst; split; try reflexivity; eauto. Qed.

(* the stages that ran are an initial segment of the plan *)
Lemma walk_prefix C t pl l : Walk C t pl l -> exists rest, map fst pl = map fst l ++ rest.
Proof.
  intro W.
  induction W as [t0|t0 k0 st0 r0 l0 Hc W0 IH|t0 k0 st0 r0 l0 u0 Hc Hu W0 IH|t0 k0 st0 r0 u0 Hc Hu|t0 k0 st0 r0 Hc].
  - exists []. reflexivity.
  - destruct IH as [rest E]. exists rest. cbn [map fst app]. rewrite E. reflexivity.
  - destruct IH as [rest E]. exists rest. cbn [map fst app]. rewrite E. reflexivity.
  - exists (map fst r0). reflexivity.
  - exists (map fst r0). reflexivity.
Qed.

(* two consecutive entries: the later stage started at exactly the instant at which the earlier one completed *)
Lemma walk_adjacent C t pl l : Walk C t pl l ->
  forall l1 k1 t1 k2 t2 l2, l = l1 ++ (k1, t1) :: (k2, t2) :: l2 ->
  exists st1, In (k1, st1) pl
              /\ ((completes t1 st1 = Immediately /\ t2 = t1) \/ (completes t1 st1 = At t2 /\ t2 <= C)).
Proof.
  intro W.
  induction W as [t0|t0 k0 st0 r0 l0 Hc W0 IH|t0 k0 st0 r0 l0 u0 Hc Hu W0 IH|t0 k0 st0 r0 u0 Hc Hu|t0 k0 st0 r0 Hc];
    intros l1 k1 t1 k2 t2 l2 E.
  - destruct l1; discriminate E.
  - destruct l1 as [|x l1]; cbn [app] in E; inversion E; subst.
    + exists st0. split; [left; reflexivity|]. left. split; [assumption|].
      apply (walk_first _ _ _ _ _ _ W0).
    + destruct (IH l1 k1 t1 k2 t2 l2 eq_refl) as [st1 [Hin Hx]]. exists st1. split; [right; exact Hin | exact Hx].
  - destruct l1 as [|x l1]; cbn [app] in E; inversion E; subst.
    + exists st0. split; [left; reflexivity|]. right.
      destruct (walk_first _ _ _ _ _ _ W0) as [-> _]. split; assumption.
    + destruct (IH l1 k1 t1 k2 t2 l2 eq_refl) as [st1 [Hin Hx]]. exists st1. split; [right; exact Hin | exact Hx].
  - destruct l1 as [|x [|y l1]]; discriminate E.
  - destruct l1 as [|x [|y l1]]; discriminate E.
Qed.

(* when the chain of a Deferred-returning stage is over; "fired but paused" is no different from "not fired" *)
Lemma completes_later t st :
  (forall d f, s_ret st = RLater d f \/ s_ret st = RChained d f -> completes t st = At (t + d))
  /\ (s_ret st = RNever -> completes t st = NeverC)
  /\ (completes t st = Immediately ->
      s_ret st = RReturn \/ (exists c, s_ret st = RRaise c) \/ (exists f, s_ret st = RFired f)).
Proof.
  unfold completes. split_ands.
  - intros d f [E|E]; rewrite E; reflexivity.
  - intros ->. reflexivity.
  - destruct (s_ret st); try discriminate; eauto.
Qed.

Lemma fires_at_bounds C t st t' :
  fires_at C t st = Some t' ->
  t <= t' /\ (forall d f, s_ret st = RLater d f \/ s_ret st = RChained d f -> t' = t + d /\ t' < C).
Proof.
  unfold fires_at, completes. destruct (s_ret st) as [|c|f0|d f0|d f0|].
  - intro H; inversion H; subst. split; [lia | intros d f [E|E]; discriminate E].
  - intro H; inversion H; subst. split; [lia | intros d f [E|E]; discriminate E].
  - intro H; inversion H; subst. split; [lia | intros d f [E|E]; discriminate E].
  - destruct (Nat.ltb (t + d) C) eqn:L; [|discriminate]. apply Nat.ltb_lt in L.
    intro H; inversion H; subst. split; [lia|]. intros d' f' [E|E]; inversion E; subst. split; [reflexivity | exact L].
  - destruct (Nat.ltb (t + d) C) eqn:L; [|discriminate]. apply Nat.ltb_lt in L.
    intro H; inversion H; subst. split; [lia|]. intros d' f' [E|E]; inversion E; subst. split; [reflexivity | exact L].
  - discriminate.
Qed.

Lemma number_from_ids l : forall k, map fst (number_from k l) = map id_cleanup (seq k (length l)).
Proof. induction l as [|s r IH]; intro k; simpl; [reflexivity | rewrite IH; reflexivity]. Qed.

(* setUp, then the test and tearDown unless setUp failed, then the cleanups: last registered first *)
Lemma plan_ids p :
  map fst (plan p) =
  id_setup :: (if stage_raises (i_setup p) then [] else [id_body; id_teardown])
  ++ rev (map id_cleanup (seq 0 (length (i_cleanups p)))).
Proof.
  unfold plan. cbn [map fst]. rewrite map_app, map_rev, number_from_ids.
  destruct (stage_raises (i_setup p)); reflexivity.
Qed.

Lemma sequencing_words p :
  (* the stages that ran are an initial segment of setUp, test, tearDown, cleanups in reverse *)
  (exists rest, map fst (plan p) = map fst (o_log (model p)) ++ rest)
  (* the first one starts at instant 0 *)
  /\ (forall k u l, o_log (model p) = (k, u) :: l -> k = id_setup /\ u = 0)
  (* each further one starts at exactly the instant its predecessor completed - at once, or when the chain of
     the Deferred it returned was over, which was not after the cut instant *)
  /\ (forall l1 k1 t1 k2 t2 l2, o_log (model p) = l1 ++ (k1, t1) :: (k2, t2) :: l2 ->
      exists st1, In (k1, st1) (plan p)
                  /\ ((completes t1 st1 = Immediately /\ t2 = t1)
                      \/ (completes t1 st1 = At t2 /\ t2 <= cut_instant p))).
Proof.
  pose proof (model_log p) as W. split_ands.
  - apply (walk_prefix _ _ _ _ W).
  - intros k u l E. rewrite E in W. destruct (walk_first _ _ _ _ _ _ W) as [-> (st & r & Ep)].
    split; [|reflexivity]. unfold plan in Ep. inversion Ep. reflexivity.
  - intros l1 k1 t1 k2 t2 l2 E. apply (walk_adjacent _ _ _ _ W l1 k1 t1 k2 t2 l2 E).
Qed.

(* a Deferred that is due exactly at the cut instant has lost: the run did not complete, whatever the reactor
   still runs afterwards *)
Lemma tie_loses p pl1 L tk k st r :
  plan p = pl1 ++ (k, st) :: r -> Go (cut_instant p) 0 pl1 L tk -> completes tk st = At (cut_instant p) ->
  completed p = false.
Proof.
  intros E G Ec. unfold completed. rewrite E, (go_expected_cut _ _ _ _ _ k st r G); [reflexivity|].
  unfold fires_at. rewrite Ec, Nat.ltb_irrefl. reflexivity.
Qed.

(* ================= the two runner variants (table obligations over Gen/Spinnertabs.v) ================= *)
Lemma tab_iterations_le : runner_iterations <= broken_runner_iterations.
Proof. vm_compute. repeat constructor. Qed.
Lemma tab_plain_is_spinner_default : runner_iterations = spinner_iterations.
Proof. vm_compute. reflexivity. Qed.

(* the ForBrokenTwisted variant never leaves more leftovers than the plain one in the same situation *)
Lemma broken_shakes_out m :
  incl (m_pending (settle broken_runner_iterations m)) (m_pending (settle runner_iterations m)).
Proof.
  pose proof tab_iterations_le as T.
  destruct broken_runner_iterations, runner_iterations; cbn [settle]; try apply incl_refl.
  - lia.
  - intros x Hx. cbn [advance m_pending] in Hx. apply filter_In in Hx. tauto.
Qed.

(* ================= programs that leave no delayed call: the verdict is decided by the input alone ================= *)
Definition noleave (ks : nat * stage) : Prop := s_leave (snd ks) = [].
Definition no_leftovers (p : program) : Prop :=
  s_leave (i_setup p) = [] /\ s_leave (i_body p) = [] /\ s_leave (i_teardown p) = []
  /\ Forall (fun st => s_leave st = []) (i_cleanups p).

Definition wait_ok (w : waiting) : Prop := match w with WCleanup rest _ => Forall noleave rest | _ => True end.
Definition nopend (r : rres) : Prop :=
  match r with Completed m => m_pending m = [] | Stopped m _ _ _ w => m_pending m = [] /\ wait_ok w end.

Lemma note_pending c m : m_pending (note_failure c m) = m_pending m.
Proof. destruct c; reflexivity. Qed.

Lemma run_stage_nopend C k st m :
  s_leave st = [] -> m_pending m = [] ->
  match run_stage C k st m with Done _ m' => m_pending m' = [] | Cut m' _ _ => m_pending m' = [] end.
Proof.
  intros L P. unfold run_stage, start_stage. rewrite L, P.
  destruct (completion_of (s_ret st)) as [f|d f|]; simpl; try reflexivity.
  destruct (Nat.ltb (m_now m + d) C); reflexivity.
Qed.

Lemma k_cleanups_nopend C : forall cs last m,
  Forall noleave cs -> m_pending m = [] -> nopend (k_cleanups C cs last m).
Proof.
  unfold k_cleanups. induction cs as [|[k st] r IH]; intros last m F P; [simpl; rewrite note_pending; exact P|].
  inversion F as [|? ? Hst Fr]; subst. unfold noleave in Hst. cbn [snd] in Hst. cbn [run_cleanups].
  generalize (run_stage_nopend C k st m Hst P).
  destruct (run_stage C k st m) as [c m1|m1 due f]; intro P1.
  - apply IH; assumption.
  - cbn [nopend wait_ok]. split; assumption.
Qed.

Lemma number_from_Forall (P : stage -> Prop) l : forall k,
  Forall P l -> Forall (fun ks : nat * stage => P (snd ks)) (number_from k l).
Proof. induction l as [|s r IH]; intros k F; simpl; inversion F; subst; constructor; auto. Qed.

Lemma clean_up_nopend C p m : no_leftovers p -> m_pending m = [] -> nopend (clean_up C p m).
Proof.
  intros (_ & _ & _ & F) P. unfold clean_up. apply k_cleanups_nopend; [|exact P].
  apply Forall_rev. apply (number_from_Forall (fun st => s_leave st = [])). exact F.
Qed.

Lemma tear_down_nopend C p m : no_leftovers p -> m_pending m = [] -> nopend (tear_down C p m).
Proof.
  intros N P. pose proof N as (_ & _ & L3 & _). unfold tear_down.
  generalize (run_stage_nopend C id_teardown (i_teardown p) m L3 P).
  destruct (run_stage C id_teardown (i_teardown p) m) as [c m1|m1 due f]; intro P1.
  - apply (clean_up_nopend C p _ N). rewrite note_pending. exact P1.
  - cbn [nopend wait_ok]. split; [exact P1 | exact I].
Qed.

Lemma run_test_nopend C p m : no_leftovers p -> m_pending m = [] -> nopend (run_test C p m).
Proof.
  intros N P. pose proof N as (_ & L2 & _ & _). unfold run_test.
  generalize (run_stage_nopend C id_body (i_body p) m L2 P).
  destruct (run_stage C id_body (i_body p) m) as [c m1|m1 due f]; intro P1.
  - apply (tear_down_nopend C p _ N). rewrite note_pending. exact P1.
  - cbn [nopend wait_ok]. split; [exact P1 | exact I].
Qed.

Lemma set_up_done_nopend C p c m : no_leftovers p -> m_pending m = [] -> nopend (set_up_done C p c m).
Proof.
  intros N P. destruct c as [x|]; cbn [set_up_done].
  - apply (clean_up_nopend C p _ N). exact P.
  - apply (run_test_nopend C p _ N P).
Qed.

Lemma run_deferred_nopend C p : no_leftovers p -> nopend (run_deferred C p).
Proof.
  intros N. pose proof N as (L1 & _). unfold run_deferred.
  generalize (run_stage_nopend C id_setup (i_setup p) sim0 L1 eq_refl).
  destruct (run_stage C id_setup (i_setup p) sim0) as [c m1|m1 due f]; intro P1.
  - apply (set_up_done_nopend C p c _ N P1).
  - cbn [nopend wait_ok]. split; [exact P1 | exact I].
Qed.

Lemma resume_nopend C p w f m : no_leftovers p -> wait_ok w -> m_pending m = [] -> nopend (resume_at C p w f m).
Proof.
  intros N W P. destruct w as [| | |rest last]; cbn [resume_at].
  - apply (set_up_done_nopend C p f _ N P).
  - apply (tear_down_nopend C p _ N). rewrite note_pending. exact P.
  - apply (clean_up_nopend C p _ N). rewrite note_pending. exact P.
  - apply k_cleanups_nopend; assumption.
Qed.

Lemma settle_nopend n m : m_pending m = [] -> m_pending (settle n m) = [].
Proof. intro P. destruct n; [exact P|]. cbn [settle advance m_pending]. rewrite P. reflexivity. Qed.

Lemma late_nopend C p : forall n m nleft due f w,
  no_leftovers p -> wait_ok w -> m_pending m = [] -> m_pending (fst (late n C p m nleft due f w)) = [].
Proof.
  induction n as [|n IH]; intros m nleft due f w N W P; cbn [late]; [exact P|].
  assert (P1 : m_pending (advance C m) = []) by (cbn [advance m_pending]; rewrite P; reflexivity).
  destruct (option_eqb Nat.eqb due (Some C)); [|exact P1].
  generalize (resume_nopend C p w f (advance C m) N W P1).
  destruct (resume_at C p w f (advance C m)) as [m2|m2 n2 due2 f2 w2]; cbn [nopend fst].
  - apply settle_nopend.
  - intros [P2 W2]. apply IH; assumption.
Qed.

Lemma no_leftovers_unrun p : no_leftovers p -> o_unrun (model p) = 0.
Proof.
  intro N. unfold model, run. cbn [o_unrun].
  generalize (run_deferred_nopend (cut_instant p) p N).
  destruct (run_deferred (cut_instant p) p) as [m|m n due f w]; cbn [nopend].
  - intro P. rewrite finish_unrun. unfold junk_of. rewrite (settle_nopend _ _ P). reflexivity.
  - intros [P W].
    assert (P0 : m_pending (reach_cut (cut_instant p) m) = []) by (cbn [reach_cut m_pending]; rewrite P; reflexivity).
    pose proof (late_nopend (cut_instant p) p (passes p) _ n due f w N W P0) as Q.
    destruct (late (passes p) (cut_instant p) p (reach_cut (cut_instant p) m) n due f w) as [m1 n1].
    rewrite finish_unrun. unfold junk_of. cbn [note_cut m_pending fst] in *. rewrite Q. reflexivity.
Qed.

(* then success is decided by the program text and the timing alone *)
Lemma success_iff_no_leftovers p :
  no_leftovers p ->
  (In AddSuccess (o_events (model p)) <-> completed p = true /\ all_clean p = true).
Proof.
  intro N. rewrite success_iff, (no_leftovers_unrun p N). tauto.
Qed.
