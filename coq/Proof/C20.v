From TT Require Import Lib.Base Model.Deferred Model.DeferredMatchers Spec.C20 Corr.C20.
