(* C20 - proofs.  Part 1: the Deferred model (reachable states).  Part 2: the
   matchers and extract_result on a Deferred in each state.  Part 3: passivity as
   a simulation between a history and its erasure.  Part 4: the statement. *)
From TT Require Import Lib.Base Model.Deferred Model.DeferredMatchers Spec.C20 Corr.C20.

(* ------------------------------------------------------------------ *)
(* Part 1: reachable Deferreds                                          *)
(* ------------------------------------------------------------------ *)
(* unfired: no result yet; fired: a result and no pending callback *)
Definition wf_d (d : deferred) : Prop :=
  (d_called d = false /\ d_result d = None)
  \/ (d_called d = true /\ d_callbacks d = [] /\ exists x, d_result d = Some x).

Lemma wf_new : wf_d new_deferred.
Proof. left. split; reflexivity. Qed.

Lemma wf_cases d : wf_d d ->
  (exists cbs, d = mkD false None cbs) \/ (exists x, d = mkD true (Some x) []).
Proof.
  destruct d as [c r cbs]. intros [[H1 H2]|[H1 [H2 [x H3]]]]; cbn in *; subst.
  - left. eexists; reflexivity.
  - right. eexists; reflexivity.
Qed.

Lemma add_unfired p cbs lg : add_callbacks p (mkD false None cbs) lg = (mkD false None (cbs ++ [p]), lg).
Proof. reflexivity. Qed.

Lemma add_fired p x lg :
  add_callbacks p (mkD true (Some x) []) lg = (mkD true (Some (fst (step_cb p x lg))) [], snd (step_cb p x lg)).
Proof. unfold add_callbacks, run_callbacks. cbn. destruct (step_cb p x lg). reflexivity. Qed.

Lemma fire_unfired x cbs lg :
  fire x (mkD false None cbs) lg = Some (mkD true (Some (fst (run_cbs cbs x lg))) [], snd (run_cbs cbs x lg)).
Proof. unfold fire, run_callbacks. cbn. destruct (run_cbs cbs x lg). reflexivity. Qed.

Lemma fire_fired x y lg : fire x (mkD true (Some y) []) lg = None.
Proof. reflexivity. Qed.

Lemma step_pass x lg : step_cb (CPass, CPass) x lg = (x, lg).
Proof. destruct x; reflexivity. Qed.

(* ------------------------------------------------------------------ *)
(* Part 2: matchers and extract_result, state by state                  *)
(* ------------------------------------------------------------------ *)
Lemma match_unfired m cbs lg :
  match_deferred m (mkD false None cbs) lg
  = (expect_match m SUnfired, mkD false None (cbs ++ [(CPass, CPass)]), lg).
Proof. destruct m; reflexivity. Qed.

Lemma match_val m v lg :
  match_deferred m (mkD true (Some (RVal v)) []) lg
  = (expect_match m (SVal v), mkD true (Some (RVal v)) [], lg).
Proof. destruct m; reflexivity. Qed.

Lemma match_err m e lg :
  match_deferred m (mkD true (Some (RErr e)) []) lg
  = (expect_match m (SErr e),
     mkD true (Some (match m with MNoResult => RErr e | _ => RVal 0 end)) [], lg).
Proof. destruct m; reflexivity. Qed.

(* the verdict is the one the state names; .called is untouched; an unfired Deferred and a success
   are left as they are; a failure looked at by succeeded()/failed() becomes a None success *)
Lemma match_spec m d lg : wf_d d ->
  let '(b, d', lg') := match_deferred m d lg in
  b = expect_match m (state_of d) /\ d_called d' = d_called d /\ lg' = lg /\ wf_d d'
  /\ state_of d' = (if consumes m (state_of d) then SVal 0 else state_of d).
Proof.
  intros H. destruct (wf_cases d H) as [[cbs ->]|[[v|e] ->]].
  - rewrite match_unfired. repeat split. + left; split; reflexivity. + destruct m; reflexivity.
  - rewrite match_val. repeat split. + right; cbn; eauto. + destruct m; reflexivity.
  - rewrite match_err. repeat split. + right; cbn; eauto. + destruct m; reflexivity.
Qed.

Lemma extract_spec d lg : wf_d d ->
  let '(r, d', lg') := extract_result d lg in
  r = expect_extract (state_of d) /\ lg' = lg /\ wf_d d'.
Proof.
  intros H. destruct (wf_cases d H) as [[cbs ->]|[[v|e] ->]]; cbn; repeat split;
    try (left; split; reflexivity); right; cbn; eauto.
Qed.

Lemma trichotomy d lg : wf_d d ->
  let b1 := fst (fst (match_deferred MNoResult d lg)) in
  let b2 := fst (fst (match_deferred (MSucceeded IAlways) d lg)) in
  let b3 := fst (fst (match_deferred (MFailed IAlways) d lg)) in
  match state_of d with
  | SUnfired => b1 = true /\ b2 = false /\ b3 = false
  | SVal _ => b1 = false /\ b2 = true /\ b3 = false
  | SErr _ => b1 = false /\ b2 = false /\ b3 = true
  end.
Proof.
  intros H. destruct (wf_cases d H) as [[cbs ->]|[[v|e] ->]]; cbn; repeat split.
Qed.

Lemma inner_spec m d lg : wf_d d ->
  (fst (fst (match_deferred (MSucceeded m) d lg)) = true
     <-> exists v, state_of d = SVal v /\ inner_match m v = true)
  /\ (fst (fst (match_deferred (MFailed m) d lg)) = true
     <-> exists e, state_of d = SErr e /\ inner_match m e = true).
Proof.
  intros H. destruct (wf_cases d H) as [[cbs ->]|[[v|e] ->]]; cbn; split; split;
    try discriminate; try (intros [x [E _]]; discriminate).
  - intros E. exists v. split; [reflexivity|exact E].
  - intros [x [E E']]. injection E as ->. exact E'.
  - intros E. exists e. split; [reflexivity|exact E].
  - intros [x [E E']]. injection E as ->. exact E'.
Qed.

(* every operation keeps the Deferred well formed *)
Lemma step_wf o d lg : wf_d d -> wf_d (snd (fst (step o d lg))).
Proof.
  intros H. destruct o as [m|v|e|cb eb|]; cbn [step].
  - pose proof (match_spec m d lg H) as M. destruct (match_deferred m d lg) as [[b d'] lg']. apply M.
  - destruct (wf_cases d H) as [[cbs ->]|[x ->]].
    + rewrite fire_unfired. cbn. right; cbn; eauto.
    + rewrite fire_fired. exact H.
  - destruct (wf_cases d H) as [[cbs ->]|[x ->]].
    + rewrite fire_unfired. cbn. right; cbn; eauto.
    + rewrite fire_fired. exact H.
  - destruct (wf_cases d H) as [[cbs ->]|[x ->]].
    + rewrite add_unfired. cbn. left; split; reflexivity.
    + rewrite add_fired. cbn. right; cbn; eauto.
  - pose proof (extract_spec d lg H) as M. destruct (extract_result d lg) as [[r d'] lg']. apply M.
Qed.

(* ------------------------------------------------------------------ *)
(* Part 3: passivity - a history and its erasure                        *)
(* ------------------------------------------------------------------ *)
Definition is_pass (p : cbpair) : bool :=
  match p with (CPass, CPass) => true | _ => false end.
Definition strip (cbs : list cbpair) : list cbpair := filter (fun p => negb (is_pass p)) cbs.

Lemma run_cbs_strip cbs : forall x lg, run_cbs cbs x lg = run_cbs (strip cbs) x lg.
Proof.
  induction cbs as [|p r IH]; intros; [reflexivity|]. cbn [strip filter].
  destruct (is_pass p) eqn:E; cbn [negb].
  - destruct p as [[] []]; try discriminate. cbn [run_cbs]. rewrite step_pass. apply IH.
  - cbn [run_cbs]. destruct (step_cb p x lg). apply IH.
Qed.

Lemma strip_app a b : strip (a ++ b) = strip a ++ strip b.
Proof. apply filter_app. Qed.

(* same result, same .called, same callbacks up to the capture pairs the matchers leave behind *)
Definition sim (d d' : deferred) : Prop :=
  d_called d = d_called d' /\ d_result d = d_result d' /\ strip (d_callbacks d) = strip (d_callbacks d').

Lemma sim_refl d : sim d d.
Proof. repeat split. Qed.

Lemma sim_cases d d' : wf_d d -> wf_d d' -> sim d d' ->
  (exists cbs cbs', d = mkD false None cbs /\ d' = mkD false None cbs' /\ strip cbs = strip cbs')
  \/ (exists x, d = mkD true (Some x) [] /\ d' = mkD true (Some x) []).
Proof.
  intros H H' (S1 & S2 & S3).
  destruct (wf_cases d H) as [[cbs ->]|[x ->]]; destruct (wf_cases d' H') as [[cbs' ->]|[x' ->]];
    cbn in *; try discriminate.
  - left. eauto.
  - right. injection S2 as ->. eauto.
Qed.

(* one operation that is not a match, performed on both sides *)
Lemma step_sim o d d' lg : wf_d d -> wf_d d' -> sim d d' ->
  (forall m, o <> OMatch m) ->
  let '(out, d1, lg1) := step o d lg in
  let '(out', d1', lg1') := step o d' lg in
  out = out' /\ lg1 = lg1' /\ sim d1 d1'.
Proof.
  intros H H' S Hm.
  destruct (sim_cases d d' H H' S) as [(cbs & cbs' & -> & -> & E)|(x & -> & ->)].
  - destruct o as [m|v|e|cb eb|]; cbn [step].
    + exfalso. eapply Hm; reflexivity.
    + rewrite !fire_unfired. rewrite (run_cbs_strip cbs), (run_cbs_strip cbs'), E. repeat split.
    + rewrite !fire_unfired. rewrite (run_cbs_strip cbs), (run_cbs_strip cbs'), E. repeat split.
    + rewrite !add_unfired. repeat split. cbn. rewrite !strip_app, E. reflexivity.
    + cbn. repeat split. cbn. rewrite !strip_app, E. reflexivity.
  - destruct (step o (mkD true (Some x) []) lg) as [[out d1] lg1]. repeat split.
Qed.

Lemma erase_cons o r d lg :
  erase (o :: r) d lg =
  (match o with
   | OMatch m => if consumes m (state_of d) then [OAdd CPass (CConst 0)] else []
   | _ => [o]
   end) ++ erase r (snd (fst (step o d lg))) (snd (step o d lg)).
Proof. cbn [erase]. destruct (step o d lg) as [[out d'] lg']. reflexivity. Qed.

Lemma run_ops_cons o r d lg :
  run_ops (o :: r) d lg =
  let '(out, d', lg') := step o d lg in
  let '(xs, d'', lg'') := run_ops r d' lg' in
  (mkO (state_of d) (d_called d) out (state_of d') (d_called d') :: xs, d'', lg'').
Proof. reflexivity. Qed.

Definition final_d (r : list oobs * deferred * log) : deferred := snd (fst r).
Definition final_log (r : list oobs * deferred * log) : log := snd r.
Definition step_d (o : op) (d : deferred) (lg : log) : deferred := snd (fst (step o d lg)).
Definition step_log (o : op) (d : deferred) (lg : log) : log := snd (step o d lg).

Lemma run_ops_final o r d lg :
  final_d (run_ops (o :: r) d lg) = final_d (run_ops r (step_d o d lg) (step_log o d lg))
  /\ final_log (run_ops (o :: r) d lg) = final_log (run_ops r (step_d o d lg) (step_log o d lg)).
Proof.
  rewrite run_ops_cons. unfold step_d, step_log, final_d, final_log.
  destruct (step o d lg) as [[out d1] lg1]. cbn [fst snd].
  destruct (run_ops r d1 lg1) as [[xs d2] lg2]. split; reflexivity.
Qed.

(* a match on one side; on the other side nothing, or the consuming errback *)
Lemma match_sim m d d' lg : wf_d d -> wf_d d' -> sim d d' ->
  step_log (OMatch m) d lg = lg
  /\ if consumes m (state_of d)
     then step_log (OAdd CPass (CConst 0)) d' lg = lg
          /\ sim (step_d (OMatch m) d lg) (step_d (OAdd CPass (CConst 0)) d' lg)
     else sim (step_d (OMatch m) d lg) d'.
Proof.
  intros H H' S. unfold step_d, step_log. cbn [step].
  destruct (sim_cases d d' H H' S) as [(cbs & cbs' & -> & -> & E)|([v|e] & -> & ->)].
  - rewrite match_unfired. cbn [fst snd state_of d_result].
    assert (consumes m SUnfired = false) as -> by (destruct m; reflexivity).
    split; [reflexivity|]. repeat split. cbn. rewrite strip_app, E. cbn. apply app_nil_r.
  - rewrite match_val. cbn [fst snd state_of d_result].
    assert (consumes m (SVal v) = false) as -> by (destruct m; reflexivity).
    split; [reflexivity|]. apply sim_refl.
  - rewrite match_err. cbn [fst snd state_of d_result]. split; [reflexivity|].
    destruct m; cbn [consumes]; try apply sim_refl; rewrite add_fired; cbn; split; try reflexivity; apply sim_refl.
Qed.

(* the history and its erasure end in similar Deferreds with the same recorded values *)
Lemma erase_sim ops : forall d d' lg, wf_d d -> wf_d d' -> sim d d' ->
  final_log (run_ops ops d lg) = final_log (run_ops (erase ops d lg) d' lg)
  /\ sim (final_d (run_ops ops d lg)) (final_d (run_ops (erase ops d lg) d' lg)).
Proof.
  induction ops as [|o r IH]; intros d d' lg H H' S.
  - cbn. split; [reflexivity|exact S].
  - rewrite erase_cons. destruct (run_ops_final o r d lg) as [-> ->].
    fold (step_d o d lg). fold (step_log o d lg).
    pose proof (step_wf o d lg H) as Hwf1. fold (step_d o d lg) in Hwf1.
    assert (Hnm : (forall m, o <> OMatch m) ->
                  final_log (run_ops r (step_d o d lg) (step_log o d lg))
                  = final_log (run_ops ([o] ++ erase r (step_d o d lg) (step_log o d lg)) d' lg)
                  /\ sim (final_d (run_ops r (step_d o d lg) (step_log o d lg)))
                         (final_d (run_ops ([o] ++ erase r (step_d o d lg) (step_log o d lg)) d' lg))).
    { intros Hm. cbn [app]. destruct (run_ops_final o (erase r (step_d o d lg) (step_log o d lg)) d' lg) as [-> ->].
      pose proof (step_sim o d d' lg H H' S Hm) as St.
      pose proof (step_wf o d' lg H') as Hwf1'. unfold step_d, step_log in *.
      destruct (step o d lg) as [[out d1] lg1]. destruct (step o d' lg) as [[out' d1'] lg1'].
      cbn [fst snd] in *. destruct St as (_ & <- & S1). apply IH; assumption. }
    destruct o as [m|v|e|cb eb|]; try (apply Hnm; intros; discriminate).
    destruct (match_sim m d d' lg H H' S) as [El Hc]. rewrite El in *.
    destruct (consumes m (state_of d)).
    + destruct Hc as [El' S1]. cbn [app].
      destruct (run_ops_final (OAdd CPass (CConst 0)) (erase r (step_d (OMatch m) d lg) lg) d' lg) as [-> ->].
      rewrite El'. apply IH; [exact Hwf1| |exact S1].
      apply (step_wf (OAdd CPass (CConst 0)) d' lg H').
    + cbn [app]. apply IH; assumption.
Qed.

(* ------------------------------------------------------------------ *)
(* Part 4: the statement                                                *)
(* ------------------------------------------------------------------ *)
Lemma dres_eqb_spec a b : dres_eqb a b = true <-> a = b.
Proof.
  destruct a, b; simpl; split; intro H; try discriminate;
    try (apply Nat.eqb_eq in H; congruence); injection H as ->; apply Nat.eqb_refl.
Qed.
Lemma dstate_eqb_spec a b : dstate_eqb a b = true <-> a = b.
Proof.
  destruct a, b; simpl; split; intro H; try reflexivity; try discriminate;
    try (apply Nat.eqb_eq in H; congruence); injection H as ->; apply Nat.eqb_refl.
Qed.
Lemma xexc_eqb_spec a b : xexc_eqb a b = true <-> a = b.
Proof.
  destruct a, b; simpl; split; intro H; try reflexivity; try discriminate;
    try (apply Nat.eqb_eq in H; congruence); injection H as ->; apply Nat.eqb_refl.
Qed.
Lemma opout_eqb_spec a b : opout_eqb a b = true <-> a = b.
Proof.
  destruct a, b; cbn [opout_eqb]; split; intro H; try reflexivity; try discriminate.
  - apply (proj1 (bool_eqb_spec _ _)) in H; congruence.
  - injection H as ->; apply bool_eqb_spec; reflexivity.
  - apply (proj1 (res_eqb_spec Nat.eqb xexc_eqb Nat.eqb_eq xexc_eqb_spec _ _)) in H; congruence.
  - injection H as ->. apply (res_eqb_spec Nat.eqb xexc_eqb Nat.eqb_eq xexc_eqb_spec). reflexivity.
Qed.
Lemma uret_eqb_spec a b : uret_eqb a b = true <-> a = b.
Proof.
  destruct a, b; simpl; split; intro H; try discriminate;
    try (apply Nat.eqb_eq in H; congruence); try (apply xexc_eqb_spec in H; congruence);
    injection H as ->; try apply Nat.eqb_refl; apply xexc_eqb_spec; reflexivity.
Qed.
Lemma log_eqb_spec a b : log_eqb a b = true <-> a = b.
Proof. apply list_eqb_spec. apply pair_eqb_spec; [apply Nat.eqb_eq|apply dres_eqb_spec]. Qed.

Lemma op_okb_iff o x : op_okb o x = true <-> Op_spec o x.
Proof.
  unfold op_okb, Op_spec. destruct o as [m|v|e|cb eb|]; try tauto.
  - rewrite !andb_true_iff, opout_eqb_spec, bool_eqb_spec. unfold after_okb.
    destruct (p_before x) as [|v|e]; destruct m; rewrite ?dstate_eqb_spec; try tauto.
    + rewrite negb_true_iff. split; intros (H1 & H2 & H3); repeat split; auto.
      * intros e' E. rewrite E in H3. discriminate.
      * destruct (p_after x); try reflexivity. exfalso. eapply H3; reflexivity.
    + rewrite negb_true_iff. split; intros (H1 & H2 & H3); repeat split; auto.
      * intros e' E. rewrite E in H3. discriminate.
      * destruct (p_after x); try reflexivity. exfalso. eapply H3; reflexivity.
  - apply opout_eqb_spec.
Qed.

Lemma forall2b_iff {A B} (p : A -> B -> bool) (P : A -> B -> Prop) :
  (forall a b, p a b = true <-> P a b) -> forall l m, forall2b p l m = true <-> Forall2 P l m.
Proof.
  intros H l; induction l as [|a l IH]; intros [|b m]; cbn [forall2b]; split; intro E;
    try constructor; try discriminate; try (inversion E; fail).
  - apply andb_true_iff in E as [E1 E2]. apply H; exact E1.
  - apply andb_true_iff in E as [E1 E2]. apply IH; exact E2.
  - inversion E; subst. apply andb_true_iff. split; [apply H|apply IH]; assumption.
Qed.

Lemma hist_okb_iff ops h : hist_okb ops h = true <-> Hist_spec ops h.
Proof.
  unfold hist_okb, Hist_spec.
  rewrite !andb_true_iff, (forall2b_iff op_okb Op_spec op_okb_iff), !log_eqb_spec, dstate_eqb_spec, !bool_eqb_spec.
  assert ((is_err (final_state (h_ops h)) || negb (h_unhandled h) = true)
          <-> (h_unhandled h = true -> exists e, final_state (h_ops h) = SErr e)) as ->.
  { destruct (final_state (h_ops h)), (h_unhandled h); cbn; split; intros; eauto; try discriminate;
      match goal with H : true = true -> _ |- _ => destruct (H eq_refl); discriminate end. }
  tauto.
Qed.

Lemma sync_okb_iff s o : sync_okb s o = true <-> Sync_spec s o.
Proof.
  unfold sync_okb, Sync_spec. rewrite !andb_true_iff, !uret_eqb_spec, (list_eqb_spec Nat.eqb Nat.eqb_eq). tauto.
Qed.

Lemma spec_okb_iff i o : spec_okb i o = true <-> Spec i o.
Proof.
  destruct i, o; cbn [spec_okb Spec]; try (split; [discriminate|contradiction]).
  - apply hist_okb_iff.
  - apply sync_okb_iff.
Qed.

(* ---- the model meets it ---- *)
Lemma run_ops_spec ops : forall d lg, wf_d d -> Forall2 Op_spec ops (fst (fst (run_ops ops d lg))).
Proof.
  induction ops as [|o r IH]; intros d lg H; [constructor|]. rewrite run_ops_cons.
  pose proof (step_wf o d lg H) as Hwf. specialize (IH (step_d o d lg) (step_log o d lg) Hwf).
  unfold step_d, step_log in *.
  assert (Hop : Op_spec o (mkO (state_of d) (d_called d) (fst (fst (step o d lg)))
                               (state_of (snd (fst (step o d lg)))) (d_called (snd (fst (step o d lg)))))).
  { destruct o as [m|v|e|cb eb|]; cbn [Op_spec step]; try exact I.
    - pose proof (match_spec m d lg H) as M. destruct (match_deferred m d lg) as [[b d'] lg'].
      destruct M as (-> & Mc & _ & _ & Mst). cbn [fst snd p_out p_before p_after p_cbefore p_cafter].
      split; [reflexivity|]. split; [exact Mc|]. rewrite Mst.
      destruct (state_of d), m; cbn; try reflexivity; try exact I; intros; discriminate.
    - pose proof (extract_spec d lg H) as M. destruct (extract_result d lg) as [[r' d'] lg'].
      destruct M as (-> & _). reflexivity. }
  destruct (step o d lg) as [[out d1] lg1]. cbn [fst snd] in *.
  destruct (run_ops r d1 lg1) as [[xs d2] lg2]. cbn [fst snd] in *. constructor; assumption.
Qed.

Lemma last_cons {A} (a : A) l d : last (a :: l) d = last l a.
Proof. revert a; induction l as [|b l IH]; intros; [reflexivity|]. cbn [last] in *. apply IH. Qed.

Lemma run_ops_last ops : forall d lg,
  last (map p_after (fst (fst (run_ops ops d lg)))) (state_of d) = state_of (final_d (run_ops ops d lg))
  /\ last (map p_cafter (fst (fst (run_ops ops d lg)))) (d_called d) = d_called (final_d (run_ops ops d lg)).
Proof.
  induction ops as [|o r IH]; intros d lg; [split; reflexivity|].
  destruct (run_ops_final o r d lg) as [-> _]. rewrite run_ops_cons. unfold step_d, step_log.
  destruct (step o d lg) as [[out d1] lg1]. cbn [fst snd]. specialize (IH d1 lg1).
  destruct (run_ops r d1 lg1) as [[xs d2] lg2]. cbn [fst snd map p_after p_cafter] in *.
  rewrite !last_cons. exact IH.
Qed.

Lemma model_hist_meets ops : Hist_spec ops (model_hist ops).
Proof.
  unfold model_hist, Hist_spec.
  pose proof (run_ops_spec ops new_deferred [] wf_new) as Hops.
  destruct (run_ops_last ops new_deferred []) as [Hl1 Hl2].
  destruct (erase_sim ops new_deferred new_deferred [] wf_new wf_new (sim_refl _)) as [Hlog (S1 & S2 & _)].
  unfold final_d, final_log in *.
  destruct (run_ops ops new_deferred []) as [[xs d] lg].
  destruct (run_ops (erase ops new_deferred []) new_deferred []) as [[xs' de] lge].
  cbn [fst snd h_ops h_log h_unhandled h_elog h_efinal h_ecalled h_eunhandled] in *.
  unfold final_state, final_called. cbn [state_of new_deferred d_result d_called] in Hl1, Hl2.
  rewrite Hl1, Hl2. unfold state_of, unhandled. rewrite <- S2.
  repeat split; auto.
  intros Hu. destruct (d_result d) as [[v|e]|]; try discriminate. eauto.
Qed.

Lemma sync_like_direct s : sync_run_user (fired_stage s) = direct_run_user s.
Proof. destruct s; reflexivity. Qed.

Lemma sync_unfired : sync_run_user (StDeferred new_deferred) = URaised XNotFired.
Proof. reflexivity. Qed.

Lemma model_meets_Spec i : Spec i (model i).
Proof.
  destruct i as [ops|pos s]; cbn [model Spec].
  - apply model_hist_meets.
  - unfold Sync_spec, model_sync. cbn. rewrite sync_like_direct. repeat split.
Qed.

Lemma model_meets_spec i : spec_okb i (model i) = true.
Proof. apply spec_okb_iff. apply model_meets_Spec. Qed.

(* ---- the comparison ---- *)
Lemma oobs_eqb_spec a b : oobs_eqb a b = true <-> a = b.
Proof.
  destruct a as [a1 a2 a3 a4 a5], b as [b1 b2 b3 b4 b5]. unfold oobs_eqb.
  cbn [p_before p_cbefore p_out p_after p_cafter].
  rewrite !andb_true_iff, !dstate_eqb_spec, !bool_eqb_spec, opout_eqb_spec. split.
  - intros [[[[-> ->] ->] ->] ->]. reflexivity.
  - intros H; injection H as -> -> -> -> ->. repeat split.
Qed.

Lemma hobs_eqb_spec a b : hobs_eqb a b = true <-> a = b.
Proof.
  destruct a as [a1 a2 a3 a4 a5 a6 a7], b as [b1 b2 b3 b4 b5 b6 b7]. unfold hobs_eqb.
  cbn [h_ops h_log h_unhandled h_elog h_efinal h_ecalled h_eunhandled].
  rewrite !andb_true_iff, (list_eqb_spec oobs_eqb oobs_eqb_spec), !log_eqb_spec, !bool_eqb_spec, dstate_eqb_spec.
  split.
  - intros [[[[[[-> ->] ->] ->] ->] ->] ->]. reflexivity.
  - intros H; injection H as -> -> -> -> -> -> ->. repeat split.
Qed.

Lemma obs_eqb_alpha a b : obs_eqb a b = true <-> alpha a = alpha b.
Proof.
  destruct a as [x|x], b as [y|y]; cbn [obs_eqb alpha]; try (split; [discriminate|intros H; discriminate H]).
  - rewrite hobs_eqb_spec. split; intros H; [subst; reflexivity|injection H as ->; reflexivity].
  - unfold sobs_eqb, sobs_alpha. rewrite !andb_true_iff, !uret_eqb_spec, bool_eqb_spec. split.
    + intros [[[-> ->] ->] ->]. reflexivity.
    + intros H; injection H as -> -> -> ->. repeat split.
Qed.

(* ---- passivity, spelled out ---- *)
(* after matching an unfired Deferred, firing it delivers to every later callback what it would have
   delivered without the match; a success is unchanged; a failure looked at by succeeded()/failed() is
   consumed (a None success, nothing left to be logged) *)
Lemma passive_unfired m cbs x lg :
  let d1 := snd (fst (match_deferred m (mkD false None cbs) lg)) in
  d_called d1 = false /\ fire x d1 lg = fire x (mkD false None cbs) lg.
Proof.
  rewrite match_unfired. cbn [fst snd]. split; [reflexivity|]. rewrite !fire_unfired.
  rewrite (run_cbs_strip (cbs ++ _)), strip_app. cbn. rewrite app_nil_r, <- run_cbs_strip. reflexivity.
Qed.

Lemma passive_states m d lg : wf_d d ->
  let d1 := snd (fst (match_deferred m d lg)) in
  d_called d1 = d_called d
  /\ snd (match_deferred m d lg) = lg
  /\ (forall v, state_of d = SVal v -> state_of d1 = SVal v)
  /\ (state_of d = SUnfired -> state_of d1 = SUnfired)
  /\ (forall e, state_of d = SErr e -> m <> MNoResult -> state_of d1 = SVal 0 /\ handled d1 = true).
Proof.
  intros H. pose proof (match_spec m d lg H) as M. destruct (match_deferred m d lg) as [[b d1] lg1].
  destruct M as (_ & Mc & -> & _ & Mst). cbn [fst snd]. split; [exact Mc|]. split; [reflexivity|].
  rewrite Mst. repeat split.
  - intros v E. rewrite E. destruct m; reflexivity.
  - intros E. rewrite E. destruct m; reflexivity.
  - rewrite H0 in Mst. destruct m; [contradiction| |]; exact Mst.
  - rewrite H0 in Mst. unfold handled, unhandled. unfold state_of in Mst.
    destruct m; [contradiction| |]; destruct (d_result d1) as [[?|?]|]; try discriminate; reflexivity.
Qed.

Lemma passive_histories ops :
  final_log (run_ops ops new_deferred []) = final_log (run_ops (erase ops new_deferred []) new_deferred [])
  /\ state_of (final_d (run_ops ops new_deferred []))
     = state_of (final_d (run_ops (erase ops new_deferred []) new_deferred []))
  /\ d_called (final_d (run_ops ops new_deferred []))
     = d_called (final_d (run_ops (erase ops new_deferred []) new_deferred [])).
Proof.
  destruct (erase_sim ops new_deferred new_deferred [] wf_new wf_new (sim_refl _)) as [Hlog (S1 & S2 & _)].
  split; [exact Hlog|]. unfold state_of. rewrite S2. split; [reflexivity|exact S1].
Qed.

Lemma extract_cases d lg : wf_d d ->
  fst (fst (extract_result d lg)) =
  match state_of d with SVal v => Ok v | SErr e => Raised (XUser e) | SUnfired => Raised XNotFired end.
Proof.
  intros H. pose proof (extract_spec d lg H) as M. destruct (extract_result d lg) as [[r d'] lg'].
  destruct M as (-> & _). reflexivity.
Qed.

Lemma reachable_wf ops : wf_d (final_d (run_ops ops new_deferred [])).
Proof.
  assert (forall ops d lg, wf_d d -> wf_d (final_d (run_ops ops d lg))) as G.
  { clear ops. induction ops as [|o r IH]; intros d lg H; [exact H|].
    destruct (run_ops_final o r d lg) as [-> _]. apply IH. apply step_wf. exact H. }
  apply G. exact wf_new.
Qed.
