(* Lemmas behind Props/C20.v. *)
From TT Require Import Lib.Base Model.Deferred Model.DeferredMatchers Spec.C20 Corr.C20.

(* ====================================================================== *)
(* 1. the comparisons are exact                                            *)
(* ====================================================================== *)
Lemma dres_eqb_spec a b : dres_eqb a b = true <-> a = b.
Proof.
  destruct a, b; simpl; rewrite ?Nat.eqb_eq; split; intro H;
    try discriminate; try (injection H as ->); subst; reflexivity.
Qed.

Lemma dstate_eqb_spec a b : dstate_eqb a b = true <-> a = b.
Proof.
  destruct a, b; simpl; rewrite ?Nat.eqb_eq; split; intro H;
    try discriminate; try (injection H as ->); subst; reflexivity.
Qed.

Lemma xexc_eqb_spec a b : xexc_eqb a b = true <-> a = b.
Proof.
  destruct a, b; simpl; rewrite ?Nat.eqb_eq; split; intro H;
    try discriminate; try (injection H as ->); subst; reflexivity.
Qed.

Lemma opout_eqb_spec a b : opout_eqb a b = true <-> a = b.
Proof.
  destruct a as [x| | |x], b as [y| | |y]; simpl; try (split; intro H; (discriminate || reflexivity)).
  - rewrite bool_eqb_spec. split; intro H; [subst|injection H]; auto.
  - rewrite (res_eqb_spec Nat.eqb xexc_eqb Nat.eqb_eq xexc_eqb_spec).
    split; intro H; [subst|injection H]; auto.
Qed.

Lemma uret_eqb_spec a b : uret_eqb a b = true <-> a = b.
Proof.
  destruct a, b; simpl; rewrite ?Nat.eqb_eq, ?xexc_eqb_spec; split; intro H;
    try discriminate; try (injection H as ->); subst; reflexivity.
Qed.

Lemma log_eqb_spec a b : log_eqb a b = true <-> a = b.
Proof. apply list_eqb_spec. apply pair_eqb_spec; [apply Nat.eqb_eq | apply dres_eqb_spec]. Qed.

Lemma cbfun_eqb_spec a b : cbfun_eqb a b = true <-> a = b.
Proof.
  destruct a, b; simpl; rewrite ?Nat.eqb_eq; split; intro H;
    try discriminate; try (injection H as ->); subst; reflexivity.
Qed.

Lemma inner_eqb_spec a : forall b, inner_eqb a b = true <-> a = b.
Proof.
  induction a as [| |k|a IH|a1 IH1 a2 IH2|a1 IH1 a2 IH2]; intros [| |k'|b|b1 b2|b1 b2]; simpl;
    try (split; intro H; (discriminate || reflexivity)).
  - rewrite Nat.eqb_eq. split; intro H; [subst|injection H]; auto.
  - rewrite IH. split; intro H; [subst|injection H]; auto.
  - rewrite andb_true_iff, IH1, IH2. split; [intros [-> ->]; reflexivity | intro H; injection H; auto].
  - rewrite andb_true_iff, IH1, IH2. split; [intros [-> ->]; reflexivity | intro H; injection H; auto].
Qed.

Lemma matcher_eqb_spec a b : matcher_eqb a b = true <-> a = b.
Proof.
  destruct a, b; simpl; rewrite ?inner_eqb_spec; split; intro H;
    try discriminate; try (injection H as ->); subst; reflexivity.
Qed.

Lemma op_eqb_spec a b : op_eqb a b = true <-> a = b.
Proof.
  destruct a, b; simpl; try (split; intro H; (discriminate || reflexivity)).
  - rewrite matcher_eqb_spec. split; intro H; [subst|injection H]; auto.
  - rewrite Nat.eqb_eq. split; intro H; [subst|injection H]; auto.
  - rewrite Nat.eqb_eq. split; intro H; [subst|injection H]; auto.
  - rewrite andb_true_iff, !cbfun_eqb_spec. split; [intros [-> ->]; reflexivity | intro H; injection H; auto].
  - rewrite dres_eqb_spec. split; intro H; [subst|injection H]; auto.
Qed.

Lemma ops_eqb_spec a b : list_eqb op_eqb a b = true <-> a = b.
Proof. apply list_eqb_spec, op_eqb_spec. Qed.

Lemma oobs_eqb_spec a b : oobs_eqb a b = true <-> a = b.
Proof.
  destruct a, b; unfold oobs_eqb; simpl.
  rewrite !andb_true_iff, !dstate_eqb_spec, !bool_eqb_spec, opout_eqb_spec, Nat.eqb_eq.
  split; [intros [[[[[-> ->] ->] ->] ->] ->]; reflexivity | intro H; injection H; intros; subst; tauto].
Qed.

Lemma hobs_eqb_spec a b : hobs_eqb a b = true <-> a = b.
Proof.
  destruct a, b; unfold hobs_eqb; simpl.
  rewrite !andb_true_iff, (list_eqb_spec oobs_eqb oobs_eqb_spec), !log_eqb_spec, !bool_eqb_spec,
    ops_eqb_spec, dstate_eqb_spec.
  split; [intros [[[[[[[-> ->] ->] ->] ->] ->] ->] ->]; reflexivity | intro H; injection H; intros; subst; tauto].
Qed.

Lemma sobs_eqb_spec a b : sobs_eqb a b = true <-> sobs_alpha a = sobs_alpha b.
Proof.
  unfold sobs_eqb, sobs_alpha. rewrite !andb_true_iff, !uret_eqb_spec, bool_eqb_spec.
  split; [intros [[-> ->] ->]; reflexivity | intro H; injection H; auto].
Qed.

(* the correspondence compares observations exactly, up to alpha (which forgets the event lists of
   the two whole-test runs, keeping whether they are equal, and what a history shows after its first
   extract_result: Corr.C20.cut) *)
Theorem obs_eqb_spec a b : obs_eqb a b = true <-> alpha a = alpha b.
Proof.
  destruct a as [x|x], b as [y|y]; simpl; try (split; intro H; discriminate).
  - rewrite hobs_eqb_spec. split; intro H; [rewrite H; reflexivity | injection H as H; exact H].
  - rewrite sobs_eqb_spec. split; intro H; [rewrite H; reflexivity | unfold sobs_alpha in *; congruence].
Qed.

(* ====================================================================== *)
(* 2. the executable statement implies the readable one                    *)
(* ====================================================================== *)
Lemma forall2b_Forall2 {A B} (p : A -> B -> bool) (P : A -> B -> Prop) :
  (forall a b, p a b = true -> P a b) ->
  forall l m, forall2b p l m = true -> Forall2 P l m.
Proof.
  intros H l; induction l as [|a l IH]; intros [|b m] E; simpl in E; try discriminate; constructor.
  - apply andb_true_iff in E as [E _]. apply H, E.
  - apply andb_true_iff in E as [_ E]. apply IH, E.
Qed.

Lemma op_okb_sound o x : op_okb o x = true -> Op_spec o x.
Proof.
  destruct o as [m| | | | | | |]; simpl; try (intros _; exact I).
  - rewrite !andb_true_iff, opout_eqb_spec, bool_eqb_spec, Nat.eqb_eq. intros [[[H1 H2] H3] H4].
    repeat split; try assumption. unfold after_okb in H4.
    destruct (inspects m (p_before x)).
    + destruct (p_after x); try discriminate. eexists; reflexivity.
    + apply dstate_eqb_spec, H4.
  - rewrite opout_eqb_spec. auto.
Qed.

Theorem spec_okb_sound i o : spec_okb i o = true -> Spec i o.
Proof.
  destruct i as [ops|pos s], o as [h|x]; simpl; try discriminate.
  - unfold hist_okb, Hist_spec. rewrite !andb_true_iff.
    intros [[[[[[H1 H2] H3] H4] H5] H6] H7].
    apply ops_eqb_spec in H2. apply log_eqb_spec in H3. apply dstate_eqb_spec in H4.
    apply (proj1 (bool_eqb_spec _ _)) in H5. apply (proj1 (bool_eqb_spec _ _)) in H6.
    repeat split; try assumption.
    + revert H1. apply forall2b_Forall2. exact op_okb_sound.
    + intro U. rewrite U in H7. simpl in H7. rewrite orb_false_r in H7.
      apply orb_true_iff in H7 as [H7|H7].
      * right. destruct (final_state (h_ops h)); try discriminate. eexists; reflexivity.
      * left. apply dstate_eqb_spec, H7.
  - unfold sync_okb, Sync_spec. rewrite !andb_true_iff, !uret_eqb_spec.
    intros [[H1 H2] H3]. apply (list_eqb_spec Nat.eqb Nat.eqb_eq) in H3. auto.
Qed.

(* ====================================================================== *)
(* 3. the Deferred: reachable states                                       *)
(* ====================================================================== *)
(* What every state reached by a history satisfies: a Deferred that can hand out a result
   has handed it to all its callbacks (none are pending) and its DebugInfo remembers exactly
   a Failure result; only a Deferred that was fired can have a Failure on record. *)
Definition good (d : deferred) : Prop :=
  (runnable d = true -> forall x, d_result d = Some x -> d_callbacks d = [] /\ d_debugfail d = is_rerr x)
  /\ (d_debugfail d = true -> d_called d = true).

(* the two shapes of a good Deferred *)
Definition ready (x : dres) : deferred := mkD true (Some x) [] 0 false (is_rerr x).
Definition idle (d : deferred) : Prop := runnable d = false \/ d_result d = None.
Definition with_cb (p : cbpair) (d : deferred) : deferred :=
  mkD (d_called d) (d_result d) (d_callbacks d ++ [p]) (d_paused d) (d_waiting d) (d_debugfail d).

Lemma runnable_fields d : runnable d = true -> d_called d = true /\ d_paused d = 0 /\ d_waiting d = false.
Proof. unfold runnable. rewrite !andb_true_iff, Nat.eqb_eq, negb_true_iff. tauto. Qed.

Lemma good_cases d : good d -> idle d \/ exists x, d = ready x.
Proof.
  intros [G _]. destruct (runnable d) eqn:R; [|left; left; exact R].
  destruct (d_result d) as [x|] eqn:E; [|left; right; exact E].
  right. exists x. destruct (G eq_refl x eq_refl) as [C F]. destruct (runnable_fields d R) as (A & B & W).
  destruct d; simpl in *; subst; reflexivity.
Qed.

Lemma good_ready x : good (ready x).
Proof. split; simpl; [intros _ y H; injection H as <-; auto | auto]. Qed.

Lemma good_new : good new_deferred.
Proof. split; simpl; [discriminate | discriminate]. Qed.

Lemma state_idle d : idle d -> state_of d = if d_called d then SWaiting else SUnfired.
Proof.
  unfold state_of. destruct (d_called d); simpl; [|reflexivity].
  intros [H|H]; [rewrite H; reflexivity|]. destruct (runnable d); simpl; [rewrite H|]; reflexivity.
Qed.

Lemma state_ready x : state_of (ready x) = match x with RVal v => SVal v | RErr e => SErr e end.
Proof. destruct x; reflexivity. Qed.

Lemma run_cbs_done cbs : forall x lg y rest lg', run_cbs cbs x lg = (Some y, rest, lg') -> rest = [].
Proof.
  induction cbs as [|p r IH]; intros x lg y rest lg' H; simpl in H.
  - injection H as _ <- _. reflexivity.
  - destruct (step_cb p x lg) as [[z|] lg1]; [eapply IH; eauto | discriminate].
Qed.

Lemma run_callbacks_good d lg : (d_debugfail d = true -> d_called d = true) -> good (fst (run_callbacks d lg)).
Proof.
  intro G2. unfold run_callbacks. destruct (runnable d) eqn:R.
  - destruct (d_result d) as [x|] eqn:E.
    + destruct (run_cbs (d_callbacks d) x lg) as [[[y|] rest] lg'] eqn:RC; simpl.
      * split; simpl; [|reflexivity]. intros _ z Hz. injection Hz as <-.
        split; [eapply run_cbs_done; eauto | reflexivity].
      * split; simpl; [discriminate | discriminate].
    + simpl. split; [intros _ x Hx; rewrite E in Hx; discriminate | exact G2].
  - simpl. split; [intro H; rewrite R in H; discriminate | exact G2].
Qed.

Lemma add_callbacks_good p d lg : good d -> good (fst (add_callbacks p d lg)).
Proof. intros [_ G2]. unfold add_callbacks. apply run_callbacks_good. exact G2. Qed.

Lemma run_callbacks_idle d lg : idle d -> run_callbacks d lg = (d, lg).
Proof.
  unfold run_callbacks. intros [H|H]; [rewrite H; reflexivity|].
  destruct (runnable d); [rewrite H|]; reflexivity.
Qed.

Lemma add_callbacks_idle p d lg : idle d -> add_callbacks p d lg = (with_cb p d, lg).
Proof. intro H. unfold add_callbacks. apply run_callbacks_idle. exact H. Qed.

(* ---- every operation keeps the Deferred good ---- *)
Lemma match_deferred_good m d lg : good d -> good (snd (fst (match_deferred m d lg))).
Proof.
  intro G. unfold match_deferred.
  pose proof (add_callbacks_good (CPass, CPass) d lg G) as G1.
  destruct (add_callbacks (CPass, CPass) d lg) as [d1 lg1]. simpl in G1.
  pose proof (add_callbacks_good (CPass, CConst 0) d1 lg1 G1) as G2.
  destruct (add_callbacks (CPass, CConst 0) d1 lg1) as [d2 lg2]. simpl in G2.
  destruct m; destruct (if runnable d then d_result d1 else None) as [[v|e]|]; simpl; assumption.
Qed.

Lemma step_good o d lg : good d -> good (snd (fst (step o d lg))).
Proof.
  intro G. pose proof G as [G1 G2]. destruct o as [m|v|e|cb eb| | | |x]; simpl.
  - pose proof (match_deferred_good m d lg G) as H.
    destruct (match_deferred m d lg) as [[b d'] lg']. exact H.
  - unfold fire. destruct (d_called d); simpl; [exact G|].
    match goal with |- context [run_callbacks ?a ?b] =>
      pose proof (run_callbacks_good a b) as H; destruct (run_callbacks a b) end. apply H. reflexivity.
  - unfold fire. destruct (d_called d); simpl; [exact G|].
    match goal with |- context [run_callbacks ?a ?b] =>
      pose proof (run_callbacks_good a b) as H; destruct (run_callbacks a b) end. apply H. reflexivity.
  - pose proof (add_callbacks_good (cb, eb) d lg G) as H.
    destruct (add_callbacks (cb, eb) d lg). exact H.
  - unfold extract_result.
    pose proof (add_callbacks_good (CConst 0, CConst 0) d lg G) as H.
    destruct (add_callbacks (CConst 0, CConst 0) d lg). exact H.
  - split; simpl; [|exact G2]. unfold runnable; simpl. rewrite andb_false_r. discriminate.
  - unfold unpause. destruct (d_paused d) as [|k]; simpl; [exact G|].
    match goal with |- context [run_callbacks ?a ?b] =>
      pose proof (run_callbacks_good a b) as H; destruct (run_callbacks a b) end. apply H. exact G2.
  - unfold resume. destruct (d_waiting d); simpl; [|exact G].
    match goal with |- context [run_callbacks ?a ?b] =>
      pose proof (run_callbacks_good a b) as H; destruct (run_callbacks a b) end. apply H. exact G2.
Qed.

Lemma run_ops_good ops : forall d lg, good d -> good (snd (fst (run_ops ops d lg))).
Proof.
  induction ops as [|o r IH]; intros d lg G; simpl; [exact G|].
  pose proof (step_good o d lg G) as G1.
  destruct (step o d lg) as [[out d1] lg1]. simpl in G1.
  specialize (IH d1 lg1 G1). destruct (run_ops r d1 lg1) as [[xs d2] lg2]. exact IH.
Qed.

(* ====================================================================== *)
(* 4. what a match / extract_result returns and does                       *)
(* ====================================================================== *)
Lemma match_deferred_idle m d lg : idle d ->
  match_deferred m d lg = (match m with MNoResult => true | _ => false end, with_cb (CPass, CPass) d, lg).
Proof.
  intro H. unfold match_deferred. rewrite (add_callbacks_idle _ _ _ H).
  assert (C : (if runnable d then d_result (with_cb (CPass, CPass) d) else None) = None).
  { destruct H as [H|H]; [rewrite H; reflexivity|]. destruct (runnable d); [exact H|reflexivity]. }
  rewrite C. destruct m; reflexivity.
Qed.

Definition consumed : deferred := ready (RVal 0).

Lemma match_deferred_ready m x lg :
  match_deferred m (ready x) lg =
  (expect_match m (state_of (ready x)), (if inspects m (state_of (ready x)) then consumed else ready x), lg).
Proof. destruct x, m; reflexivity. Qed.

Lemma inspects_idle m d : idle d -> inspects m (state_of d) = false.
Proof. intro H. rewrite (state_idle d H). destruct m, (d_called d); reflexivity. Qed.

Lemma expect_idle m d : idle d ->
  expect_match m (state_of d) = match m with MNoResult => true | _ => false end.
Proof. intro H. rewrite (state_idle d H). destruct m, (d_called d); reflexivity. Qed.

Lemma idle_with_cb p d : idle d -> idle (with_cb p d).
Proof. unfold idle, with_cb, runnable; simpl. auto. Qed.

Lemma state_with_cb p d : idle d -> state_of (with_cb p d) = state_of d.
Proof. intro H. rewrite (state_idle _ (idle_with_cb p d H)), (state_idle d H). reflexivity. Qed.

(* verdict, no firing, no callback run, effect on the inspected state *)
Lemma match_deferred_okb m d lg : good d ->
  forall b d1 lg1, match_deferred m d lg = (b, d1, lg1) ->
  b = expect_match m (state_of d) /\ d_called d1 = d_called d /\ lg1 = lg
  /\ (if inspects m (state_of d) then d1 = consumed else state_of d1 = state_of d).
Proof.
  intros G b d1 lg1 E. destruct (good_cases d G) as [I|[x ->]].
  - rewrite (match_deferred_idle m d lg I) in E. injection E as <- <- <-.
    rewrite (expect_idle m d I), (inspects_idle m d I), (state_with_cb _ d I). auto.
  - rewrite match_deferred_ready in E. injection E as <- <- <-.
    repeat split. + destruct (inspects m (state_of (ready x))); reflexivity.
    + destruct (inspects m (state_of (ready x))); reflexivity.
Qed.

Lemma extract_result_okb d lg : good d ->
  fst (fst (extract_result d lg)) = expect_extract (state_of d).
Proof.
  intro G. unfold extract_result. destruct (add_callbacks (CConst 0, CConst 0) d lg) as [d1 lg1]. simpl.
  destruct (good_cases d G) as [I|[x ->]].
  - assert (C : (if runnable d then d_result d else None) = None).
    { destruct I as [H|H]; [rewrite H; reflexivity|]. destruct (runnable d); [exact H|reflexivity]. }
    rewrite C, (state_idle d I). destruct (d_called d); reflexivity.
  - destruct x; reflexivity.
Qed.

(* ====================================================================== *)
(* 5. passivity: a history and the same history without its matches        *)
(* ====================================================================== *)
(* [dp l l']: l is l' with some pass-through pairs (the capture pairs of on_deferred_result) inserted *)
Inductive dp : list cbpair -> list cbpair -> Prop :=
| dp_nil : dp [] []
| dp_keep p l l' : dp l l' -> dp (p :: l) (p :: l')
| dp_skip l l' : dp l l' -> dp ((CPass, CPass) :: l) l'.

(* the Deferred of the run with matches against the Deferred of the run without: equal but for
   capture pairs still waiting in the chain *)
Definition Rel (d d' : deferred) : Prop :=
  d_called d = d_called d' /\ d_result d = d_result d' /\ dp (d_callbacks d) (d_callbacks d')
  /\ d_paused d = d_paused d' /\ d_waiting d = d_waiting d' /\ d_debugfail d = d_debugfail d'.

Lemma dp_refl l : dp l l.
Proof. induction l; constructor; assumption. Qed.

Lemma dp_app p l l' : dp l l' -> dp (l ++ [p]) (l' ++ [p]).
Proof. induction 1; simpl; try (constructor; assumption). apply dp_refl. Qed.

Lemma dp_app_skip l l' : dp l l' -> dp (l ++ [(CPass, CPass)]) l'.
Proof. induction 1; simpl; try (constructor; assumption). apply dp_skip, dp_nil. Qed.

Lemma dp_nil_inv l' : dp [] l' -> l' = [].
Proof. inversion 1; reflexivity. Qed.

Lemma Rel_refl d : Rel d d.
Proof. repeat split; try reflexivity. apply dp_refl. Qed.

Lemma Rel_runnable d d' : Rel d d' -> runnable d = runnable d'.
Proof. intros (A & _ & _ & B & C & _). unfold runnable. rewrite A, B, C. reflexivity. Qed.

Lemma Rel_state d d' : Rel d d' -> state_of d = state_of d'.
Proof.
  intro H. pose proof (Rel_runnable d d' H) as R. destruct H as (A & B & _).
  unfold state_of. rewrite A, B, R. reflexivity.
Qed.

Lemma Rel_ready x d' : Rel (ready x) d' -> d' = ready x.
Proof.
  intros (A & B & C & D & E & F). simpl in *. apply dp_nil_inv in C.
  destruct d'; simpl in *; subst; reflexivity.
Qed.

Lemma step_cb_pass x lg : step_cb (CPass, CPass) x lg = (Some x, lg).
Proof. destruct x; reflexivity. Qed.

(* a capture pair in the chain changes neither what the other callbacks see nor the outcome *)
Lemma run_cbs_dp l l' : dp l l' -> forall x lg r rest lg1, run_cbs l x lg = (r, rest, lg1) ->
  exists rest', run_cbs l' x lg = (r, rest', lg1) /\ dp rest rest'.
Proof.
  induction 1 as [|p l l' H IH|l l' H IH]; intros x lg r rest lg1 E; simpl in *.
  - injection E as <- <- <-. exists []. split; [reflexivity|constructor].
  - destruct (step_cb p x lg) as [[y|] lg2].
    + apply IH, E.
    + injection E as <- <- <-. exists l'. split; [reflexivity|assumption].
  - rewrite step_cb_pass in E. apply IH, E.
Qed.

Lemma run_callbacks_Rel d d' lg : Rel d d' -> forall d1 lg1, run_callbacks d lg = (d1, lg1) ->
  exists d1', run_callbacks d' lg = (d1', lg1) /\ Rel d1 d1'.
Proof.
  intros H d1 lg1 E. pose proof (Rel_runnable d d' H) as R. unfold run_callbacks in *.
  rewrite <- R. destruct (runnable d).
  - pose proof H as (A & B & C & D & F & G). rewrite <- B.
    destruct (d_result d) as [x|].
    + destruct (run_cbs (d_callbacks d) x lg) as [[r rest] lg2] eqn:RC.
      destruct (run_cbs_dp _ _ C _ _ _ _ _ RC) as (rest' & RC' & DP). rewrite RC'.
      destruct r as [y|]; injection E as <- <-; eexists; (split; [reflexivity|]);
        repeat split; simpl; auto.
    + injection E as <- <-. eexists; split; [reflexivity|exact H].
  - injection E as <- <-. eexists; split; [reflexivity|exact H].
Qed.

Lemma Rel_with_cb p d d' : Rel d d' -> Rel (with_cb p d) (with_cb p d').
Proof. intros (A & B & C & D & E & F). repeat split; simpl; auto. apply dp_app, C. Qed.

Lemma add_callbacks_Rel p d d' lg : Rel d d' -> forall d1 lg1, add_callbacks p d lg = (d1, lg1) ->
  exists d1', add_callbacks p d' lg = (d1', lg1) /\ Rel d1 d1'.
Proof. intros H d1 lg1 E. unfold add_callbacks in *. eapply (run_callbacks_Rel (with_cb p d)); [apply Rel_with_cb, H | exact E]. Qed.

Lemma fire_Rel x d d' lg : Rel d d' ->
  match fire x d lg with
  | None => fire x d' lg = None
  | Some (d1, lg1) => exists d1', fire x d' lg = Some (d1', lg1) /\ Rel d1 d1'
  end.
Proof.
  intro H. unfold fire. pose proof H as (A & B & C & D & E & F). rewrite <- A.
  destruct (d_called d); [reflexivity|].
  match goal with |- context [run_callbacks ?a lg] => destruct (run_callbacks a lg) as [d1 lg1] eqn:RC end.
  eapply run_callbacks_Rel in RC as (d1' & RC' & R1).
  - rewrite RC'. eexists; split; [reflexivity|exact R1].
  - repeat split; simpl; auto.
Qed.

(* every operation other than a match does the same to both Deferreds *)
Lemma step_Rel o d d' lg : (forall m, o <> OMatch m) -> Rel d d' ->
  forall out d1 lg1, step o d lg = (out, d1, lg1) ->
  exists d1', step o d' lg = (out, d1', lg1) /\ Rel d1 d1'.
Proof.
  intros NM H out d1 lg1 E. destruct o as [m|v|e|cb eb| | | |x]; simpl in *.
  - exfalso. eapply NM; reflexivity.
  - pose proof (fire_Rel (RVal v) d d' lg H) as F. destruct (fire (RVal v) d lg) as [[d2 lg2]|].
    + destruct F as (d2' & F & R2). rewrite F. injection E as <- <- <-. eexists; split; [reflexivity|exact R2].
    + rewrite F. injection E as <- <- <-. eexists; split; [reflexivity|exact H].
  - pose proof (fire_Rel (RErr e) d d' lg H) as F. destruct (fire (RErr e) d lg) as [[d2 lg2]|].
    + destruct F as (d2' & F & R2). rewrite F. injection E as <- <- <-. eexists; split; [reflexivity|exact R2].
    + rewrite F. injection E as <- <- <-. eexists; split; [reflexivity|exact H].
  - destruct (add_callbacks (cb, eb) d lg) as [d2 lg2] eqn:A.
    destruct (add_callbacks_Rel _ _ _ _ H _ _ A) as (d2' & A' & R2). rewrite A'.
    injection E as <- <- <-. eexists; split; [reflexivity|exact R2].
  - unfold extract_result in *. rewrite <- (Rel_runnable d d' H).
    pose proof H as (_ & B0 & _). rewrite <- B0.
    destruct (add_callbacks (CConst 0, CConst 0) d lg) as [d2 lg2] eqn:A.
    destruct (add_callbacks_Rel _ _ _ _ H _ _ A) as (d2' & A' & R2). rewrite A'.
    injection E as <- <- <-. eexists; split; [reflexivity|exact R2].
  - injection E as <- <- <-. eexists; split; [reflexivity|].
    destruct H as (A & B & C & D & F & G). repeat split; simpl; auto.
  - unfold unpause in *. pose proof H as (A & B & C & D & F & G). rewrite <- D.
    destruct (d_paused d) as [|k].
    + injection E as <- <- <-. eexists; split; [reflexivity|exact H].
    + match type of E with context [run_callbacks ?a lg] => destruct (run_callbacks a lg) as [d2 lg2] eqn:RC end.
      eapply run_callbacks_Rel in RC as (d2' & RC' & R2).
      * rewrite RC'. injection E as <- <- <-. eexists; split; [reflexivity|exact R2].
      * repeat split; simpl; auto.
  - unfold resume in *. pose proof H as (A & B & C & D & F & G). rewrite <- F.
    destruct (d_waiting d).
    + match type of E with context [run_callbacks ?a lg] => destruct (run_callbacks a lg) as [d2 lg2] eqn:RC end.
      eapply run_callbacks_Rel in RC as (d2' & RC' & R2).
      * rewrite RC'. injection E as <- <- <-. eexists; split; [reflexivity|exact R2].
      * repeat split; simpl; auto.
    + injection E as <- <- <-. eexists; split; [reflexivity|exact H].
Qed.

Lemma inspects_consumes m s : inspects m s = consumes m s.
Proof. destruct m, s; reflexivity. Qed.

(* a match against the run without it: nothing, or - after looking at a failure - an errback returning None *)
Lemma match_Rel m d d' lg : good d -> Rel d d' ->
  forall b d1 lg1, match_deferred m d lg = (b, d1, lg1) ->
  lg1 = lg /\
  if consumes m (state_of d)
  then exists d1', add_callbacks (CPass, CConst 0) d' lg = (d1', lg) /\ Rel d1 d1'
  else Rel d1 d'.
Proof.
  intros G H b d1 lg1 E. rewrite <- inspects_consumes. destruct (good_cases d G) as [I|[x ->]].
  - rewrite (match_deferred_idle m d lg I) in E. injection E as <- <- <-.
    rewrite (inspects_idle m d I). split; [reflexivity|].
    destruct H as (A & B & C & D & F & K). repeat split; simpl; auto. apply dp_app_skip, C.
  - rewrite match_deferred_ready in E. injection E as <- <- <-. split; [reflexivity|].
    apply Rel_ready in H. subst d'.
    destruct (inspects m (state_of (ready x))) eqn:J; [|apply Rel_refl].
    exists consumed. split; [|apply Rel_refl].
    destruct x as [v|e]; [destruct m; discriminate|reflexivity].
Qed.

Lemma run_ops_cons o r d lg :
  run_ops (o :: r) d lg =
  let '(out, d', lg') := step o d lg in
  let '(xs, d'', lg'') := run_ops r d' lg' in
  (mkO (state_of d) (d_called d) out (state_of d') (d_called d') (length lg' - length lg) :: xs, d'', lg'').
Proof. reflexivity. Qed.

(* the whole history: same recorded values, related final Deferreds *)
Theorem erase_simulation ops : forall d d' lg, good d -> Rel d d' ->
  forall xs df lgf, run_ops ops d lg = (xs, df, lgf) ->
  exists xs' df', run_ops (erase ops d lg) d' lg = (xs', df', lgf) /\ Rel df df'.
Proof.
  induction ops as [|o r IH]; intros d d' lg G H xs df lgf E.
  - simpl in *. injection E as <- <- <-. eauto.
  - rewrite run_ops_cons in E. simpl erase.
    pose proof (step_good o d lg G) as G1.
    destruct (step o d lg) as [[out d1] lg1] eqn:S. simpl in G1.
    destruct (run_ops r d1 lg1) as [[xs1 d2] lg2] eqn:RO. injection E as <- <- <-.
    assert (NMcase : (forall m, o <> OMatch m) ->
            exists xs' df', run_ops (o :: erase r d1 lg1) d' lg = (xs', df', lg2) /\ Rel d2 df').
    { intro NM. destruct (step_Rel o d d' lg NM H _ _ _ S) as (d1' & S' & R1).
      destruct (IH d1 d1' lg1 G1 R1 _ _ _ RO) as (xs' & df' & RO' & Rf).
      rewrite run_ops_cons, S', RO'. eauto. }
    destruct o as [m|v|e|cb eb| | | |x]; try (apply NMcase; discriminate).
    clear NMcase. simpl in S.
    destruct (match_deferred m d lg) as [[b dm] lgm] eqn:M. injection S as <- <- <-.
    destruct (match_Rel m d d' lg G H _ _ _ M) as [-> MR].
    destruct (consumes m (state_of d)).
    + destruct MR as (d1' & A & R1).
      destruct (IH dm d1' lg G1 R1 _ _ _ RO) as (xs' & df' & RO' & Rf).
      simpl app. rewrite run_ops_cons. simpl step. rewrite A, RO'. eauto.
    + simpl app. apply (IH dm d' lg G1 MR _ _ _ RO).
Qed.

(* ====================================================================== *)
(* 6. the model meets the statement, for every history                     *)
(* ====================================================================== *)
Lemma step_okb o d lg : good d -> forall out d1 lg1, step o d lg = (out, d1, lg1) ->
  op_okb o (mkO (state_of d) (d_called d) out (state_of d1) (d_called d1) (length lg1 - length lg)) = true
  /\ erase_op o (mkO (state_of d) (d_called d) out (state_of d1) (d_called d1) (length lg1 - length lg))
     = match o with
       | OMatch m => if consumes m (state_of d) then [OAdd CPass (CConst 0)] else []
       | _ => [o]
       end.
Proof.
  intros G out d1 lg1 E. destruct o as [m|v|e|cb eb| | | |x]; simpl; try (split; reflexivity).
  - simpl in E. destruct (match_deferred m d lg) as [[b dm] lgm] eqn:M. injection E as <- <- <-.
    destruct (match_deferred_okb m d lg G _ _ _ M) as (-> & C & -> & A).
    pose proof (inspects_consumes m (state_of d)) as IC. unfold after_okb.
    rewrite C, Nat.sub_diag, Bool.eqb_reflx. simpl.
    destruct (inspects m (state_of d)); rewrite <- IC.
    + subst dm. simpl. rewrite Bool.eqb_reflx. split; reflexivity.
    + rewrite A. rewrite Bool.eqb_reflx. simpl. split; [|reflexivity]. apply dstate_eqb_spec. reflexivity.
  - simpl in E. pose proof (extract_result_okb d lg G) as X.
    destruct (extract_result d lg) as [[r dx] lgx]. simpl in X. injection E as <- <- <-.
    rewrite X. split; [|reflexivity]. apply opout_eqb_spec. reflexivity.
Qed.

Lemma run_ops_okb ops : forall d lg, good d ->
  forall xs df lgf, run_ops ops d lg = (xs, df, lgf) ->
  forall2b op_okb ops xs = true /\ erase_obs ops xs = erase ops d lg.
Proof.
  induction ops as [|o r IH]; intros d lg G xs df lgf E.
  - simpl in E. injection E as <- <- <-. split; reflexivity.
  - rewrite run_ops_cons in E. simpl erase.
    pose proof (step_good o d lg G) as G1.
    destruct (step o d lg) as [[out d1] lg1] eqn:S. simpl in G1.
    destruct (run_ops r d1 lg1) as [[xs1 d2] lg2] eqn:RO. injection E as <- <- <-.
    destruct (IH d1 lg1 G1 _ _ _ RO) as [I1 I2].
    destruct (step_okb o d lg G _ _ _ S) as [S1 S2].
    simpl. rewrite S1, I1, S2, I2. split; reflexivity.
Qed.

Lemma last_cons' {A} (l : list A) : forall a d, last (a :: l) d = last l a.
Proof.
  induction l as [|b l IH]; intros a d; [reflexivity|].
  change (last (a :: b :: l) d) with (last (b :: l) d). rewrite (IH b d), (IH b a). reflexivity.
Qed.

Lemma run_ops_final ops : forall d lg xs df lgf, run_ops ops d lg = (xs, df, lgf) ->
  last (map p_after xs) (state_of d) = state_of df /\ last (map p_cafter xs) (d_called d) = d_called df.
Proof.
  induction ops as [|o r IH]; intros d lg xs df lgf E.
  - simpl in E. injection E as <- <- <-. split; reflexivity.
  - rewrite run_ops_cons in E.
    destruct (step o d lg) as [[out d1] lg1].
    destruct (run_ops r d1 lg1) as [[xs1 d2] lg2] eqn:RO. injection E as <- <- <-.
    destruct (IH d1 lg1 _ _ _ RO) as [I1 I2]. simpl map. rewrite !last_cons'. simpl. split; assumption.
Qed.

(* nothing is on record as an unhandled failure unless the Deferred holds a failure or is stuck *)
Lemma good_unhandled d : good d -> d_debugfail d = true ->
  is_err (state_of d) || dstate_eqb (state_of d) SWaiting = true.
Proof.
  intros G U. destruct (good_cases d G) as [I|[x ->]].
  - rewrite (state_idle d I). destruct G as [_ G2]. rewrite (G2 U). reflexivity.
  - destruct x; [discriminate|reflexivity].
Qed.

Lemma model_hist_okb ops : hist_okb ops (model_hist ops) = true.
Proof.
  unfold model_hist.
  destruct (run_ops ops new_deferred []) as [[xs d] lg] eqn:E.
  destruct (erase_simulation ops _ _ _ good_new (Rel_refl _) _ _ _ E) as (xs' & de & E' & R).
  rewrite E'. unfold hist_okb. simpl.
  destruct (run_ops_okb ops _ _ good_new _ _ _ E) as [O1 O2].
  destruct (run_ops_final ops _ _ _ _ _ E) as [F1 F2].
  pose proof (run_ops_good ops new_deferred [] good_new) as G. rewrite E in G. simpl in G.
  change (final_state xs) with (last (map p_after xs) (state_of new_deferred)).
  change (final_called xs) with (last (map p_cafter xs) (d_called new_deferred)).
  rewrite F1, F2, O1, O2. simpl.
  replace (list_eqb op_eqb (erase ops new_deferred []) (erase ops new_deferred [])) with true
    by (symmetry; apply ops_eqb_spec; reflexivity).
  replace (log_eqb lg lg) with true by (symmetry; apply log_eqb_spec; reflexivity).
  pose proof (Rel_state _ _ R) as RS. destruct R as (A & _ & _ & _ & _ & U).
  unfold unhandled. rewrite <- RS, <- A, <- U.
  replace (dstate_eqb (state_of d) (state_of d)) with true by (symmetry; apply dstate_eqb_spec; reflexivity).
  rewrite !Bool.eqb_reflx. simpl.
  destruct (d_debugfail d) eqn:DF; [|apply orb_true_r].
  rewrite orb_false_r. apply good_unhandled; assumption.
Qed.

Lemma sync_fired s : sync_run_user (fired_stage s) = direct_run_user s.
Proof. destruct s; reflexivity. Qed.

Lemma sync_direct s :
  sync_run_user (match s with inl v => StReturn v | inr e => StRaise e end) = direct_run_user s.
Proof. destruct s; reflexivity. Qed.

Theorem model_meets_spec : forall i, spec_okb i (model i) = true.
Proof.
  intros [ops|pos s]; simpl; [apply model_hist_okb|].
  unfold sync_okb, model_sync. simpl. rewrite sync_fired.
  replace (uret_eqb (direct_run_user s) (direct_run_user s)) with true
    by (symmetry; apply uret_eqb_spec; reflexivity).
  reflexivity.
Qed.

(* ====================================================================== *)
(* 7. the clauses one by one                                               *)
(* ====================================================================== *)
Definition verdict (m : matcher) (d : deferred) (lg : log) : bool := fst (fst (match_deferred m d lg)).
Definition after_match (m : matcher) (d : deferred) (lg : log) : deferred := snd (fst (match_deferred m d lg)).
Definition log_after_match (m : matcher) (d : deferred) (lg : log) : log := snd (match_deferred m d lg).
Definition final_of (ops : list op) (d : deferred) (lg : log) : deferred := snd (fst (run_ops ops d lg)).
Definition log_of (ops : list op) (d : deferred) (lg : log) : log := snd (run_ops ops d lg).
Definition obs_of (ops : list op) (d : deferred) (lg : log) : list oobs := fst (fst (run_ops ops d lg)).

(* every state a history can reach is good *)
Theorem reachable_good ops : good (final_of ops new_deferred []).
Proof. apply run_ops_good, good_new. Qed.

Lemma match_parts m d lg :
  match_deferred m d lg = (verdict m d lg, after_match m d lg, log_after_match m d lg).
Proof. unfold verdict, after_match, log_after_match. destruct (match_deferred m d lg) as [[? ?] ?]. reflexivity. Qed.

Theorem verdict_spec m d lg : good d -> verdict m d lg = expect_match m (state_of d).
Proof. intro G. destruct (match_deferred_okb m d lg G _ _ _ (match_parts m d lg)) as (H & _). exact H. Qed.

(* exactly one of has_no_result / succeeded(Always) / failed(Always) matches: the one the state names *)
Theorem trichotomy d lg : good d ->
  let n := verdict MNoResult d lg in
  let s := verdict (MSucceeded IAlways) d lg in
  let f := verdict (MFailed IAlways) d lg in
  match state_of d with
  | SUnfired | SWaiting => n = true /\ s = false /\ f = false
  | SVal _ => n = false /\ s = true /\ f = false
  | SErr _ => n = false /\ s = false /\ f = true
  end.
Proof.
  intro G. simpl. rewrite !verdict_spec by exact G. destruct (state_of d); simpl; auto.
Qed.

Theorem inner_clause m d lg : good d ->
  (verdict MNoResult d lg = true <-> state_of d = SUnfired \/ state_of d = SWaiting)
  /\ (verdict (MSucceeded m) d lg = true <-> exists v, state_of d = SVal v /\ inner_match m v = true)
  /\ (verdict (MFailed m) d lg = true <-> exists e, state_of d = SErr e /\ inner_match m e = true).
Proof.
  intro G. rewrite !verdict_spec by exact G. destruct (state_of d) as [| |v|e]; simpl; repeat split;
    try (intro H; discriminate H); try (intros [H|H]; discriminate H);
    try (intros (x & H & _); discriminate H); auto.
  - intro H. exists v. auto.
  - intros (x & H & I). injection H as ->. exact I.
  - intro H. exists e. auto.
  - intros (x & H & I). injection H as ->. exact I.
Qed.

(* matching fires nothing: no callback runs, .called is what it was, and unless a failure
   was looked at by succeeded()/failed() the inspected state is what it was *)
Theorem nothing_fired m d lg : good d ->
  log_after_match m d lg = lg
  /\ d_called (after_match m d lg) = d_called d
  /\ (inspects m (state_of d) = false -> state_of (after_match m d lg) = state_of d).
Proof.
  intro G. destruct (match_deferred_okb m d lg G _ _ _ (match_parts m d lg)) as (_ & C & L & A).
  repeat split; try assumption. intro I. rewrite I in A. exact A.
Qed.

(* a failure looked at by succeeded()/failed() is consumed: handled, a None success from then on;
   has_no_result() leaves it where it is (and unhandled) *)
Theorem failure_handled m d lg e : good d -> state_of d = SErr e ->
  match m with
  | MNoResult => state_of (after_match m d lg) = SErr e /\ unhandled (after_match m d lg) = unhandled d
  | _ => state_of (after_match m d lg) = SVal 0 /\ handled (after_match m d lg) = true
  end.
Proof.
  intros G S. destruct (good_cases d G) as [I|[x ->]].
  - rewrite (state_idle d I) in S. destruct (d_called d); discriminate.
  - unfold after_match. rewrite match_deferred_ready. rewrite S. destruct x as [v|e']; [discriminate|].
    simpl in S. injection S as ->. destruct m; simpl; split; reflexivity.
Qed.

(* ---- a match that does not consume a failure is invisible to everything that follows ---- *)
Lemma Rel_idle d d' : Rel d d' -> idle d -> idle d'.
Proof.
  intros H I. pose proof (Rel_runnable d d' H) as R. destruct H as (_ & B & _).
  unfold idle in *. rewrite <- R, <- B. exact I.
Qed.

Lemma step_Rel_all o d d' lg : good d -> Rel d d' ->
  forall out d1 lg1, step o d lg = (out, d1, lg1) ->
  exists d1', step o d' lg = (out, d1', lg1) /\ Rel d1 d1'.
Proof.
  intros G H out d1 lg1 E.
  destruct o as [m|v|e|cb eb| | | |x]; try (apply (step_Rel _ d d' lg); [discriminate|assumption|assumption]).
  simpl in *. destruct (match_deferred m d lg) as [[b dm] lgm] eqn:M. injection E as <- <- <-.
  destruct (good_cases d G) as [I|[x ->]].
  - rewrite (match_deferred_idle m d lg I) in M. injection M as <- <- <-.
    rewrite (match_deferred_idle m d' lg (Rel_idle d d' H I)).
    eexists; split; [reflexivity|apply Rel_with_cb, H].
  - apply Rel_ready in H. subst d'. rewrite M. eexists; split; [reflexivity|apply Rel_refl].
Qed.

Lemma run_ops_Rel ops : forall d d' lg, good d -> Rel d d' ->
  forall xs df lgf, run_ops ops d lg = (xs, df, lgf) ->
  exists df', run_ops ops d' lg = (xs, df', lgf) /\ Rel df df'.
Proof.
  induction ops as [|o r IH]; intros d d' lg G H xs df lgf E.
  - simpl in *. injection E as <- <- <-. eauto.
  - rewrite run_ops_cons in *.
    pose proof (step_good o d lg G) as G1.
    destruct (step o d lg) as [[out d1] lg1] eqn:S. simpl in G1.
    destruct (run_ops r d1 lg1) as [[xs1 d2] lg2] eqn:RO. injection E as <- <- <-.
    destruct (step_Rel_all o d d' lg G H _ _ _ S) as (d1' & S' & R1).
    destruct (IH d1 d1' lg1 G1 R1 _ _ _ RO) as (df' & RO' & Rf).
    rewrite S', RO'. rewrite (Rel_state _ _ H), (Rel_state _ _ R1).
    destruct H as (-> & _). destruct R1 as (-> & _). eauto.
Qed.

Theorem match_unobservable m d lg rest : good d -> inspects m (state_of d) = false ->
  obs_of rest (after_match m d lg) lg = obs_of rest d lg
  /\ log_of rest (after_match m d lg) lg = log_of rest d lg
  /\ state_of (final_of rest (after_match m d lg) lg) = state_of (final_of rest d lg)
  /\ d_called (final_of rest (after_match m d lg) lg) = d_called (final_of rest d lg)
  /\ unhandled (final_of rest (after_match m d lg) lg) = unhandled (final_of rest d lg).
Proof.
  intros G I. pose proof (match_Rel m d d lg G (Rel_refl d) _ _ _ (match_parts m d lg)) as [_ MR].
  rewrite <- inspects_consumes, I in MR.
  pose proof (match_deferred_good m d lg G) as G1. fold (after_match m d lg) in G1.
  unfold obs_of, log_of, final_of.
  destruct (run_ops rest (after_match m d lg) lg) as [[xs df] lgf] eqn:E.
  destruct (run_ops_Rel rest _ _ _ G1 MR _ _ _ E) as (df' & E' & R). rewrite E'. simpl.
  pose proof (Rel_state _ _ R) as RS. destruct R as (A & _ & _ & _ & _ & U). unfold unhandled. auto.
Qed.

(* ---- the general form: any history against the history with its matches erased ---- *)
Lemma erase_no_match ops : forall d lg o, In o (erase ops d lg) -> forall m, o <> OMatch m.
Proof.
  induction ops as [|a r IH]; intros d lg o HI m; simpl in HI; [contradiction|].
  destruct (step a d lg) as [[out d1] lg1]. apply in_app_or in HI as [HI|HI]; [|eapply IH; eauto].
  destruct a as [m'|v|e|cb eb| | | |x]; simpl in HI;
    try (destruct HI as [<-|[]]; discriminate).
  destruct (consumes m' (state_of d)); simpl in HI; [destruct HI as [<-|[]]; discriminate|contradiction].
Qed.

Theorem passive ops d lg : good d ->
  (forall o, In o (erase ops d lg) -> forall m, o <> OMatch m)
  /\ log_of (erase ops d lg) d lg = log_of ops d lg
  /\ state_of (final_of (erase ops d lg) d lg) = state_of (final_of ops d lg)
  /\ d_called (final_of (erase ops d lg) d lg) = d_called (final_of ops d lg)
  /\ unhandled (final_of (erase ops d lg) d lg) = unhandled (final_of ops d lg).
Proof.
  intro G. split; [apply erase_no_match|].
  unfold log_of, final_of. destruct (run_ops ops d lg) as [[xs df] lgf] eqn:E.
  destruct (erase_simulation ops d d lg G (Rel_refl d) _ _ _ E) as (xs' & df' & E' & R). rewrite E'. simpl.
  pose proof (Rel_state _ _ R) as RS. destruct R as (A & _ & _ & _ & _ & U). unfold unhandled. auto.
Qed.

Theorem extract_clause d lg : good d -> fst (fst (extract_result d lg)) = expect_extract (state_of d).
Proof. apply extract_result_okb. Qed.

Theorem sync_runner s :
  sync_run_user (fired_stage s) = direct_run_user s
  /\ sync_run_user (match s with inl v => StReturn v | inr e => StRaise e end) = direct_run_user s.
Proof. split; [apply sync_fired | apply sync_direct]. Qed.

(* ---- the runner raises DeferredNotFired for a Deferred without a result, and for nothing else:
   in particular not for a fired Deferred whose failure is a DeferredNotFired ---- *)
Lemma extract_result_idle d lg : idle d ->
  extract_result d lg = (Raised XNotFired, with_cb (CConst 0, CConst 0) d, lg).
Proof.
  intro I. unfold extract_result. rewrite (add_callbacks_idle _ _ _ I).
  assert (C : (if runnable d then d_result d else None) = None).
  { destruct I as [H|H]; [rewrite H; reflexivity|]. destruct (runnable d); [exact H|reflexivity]. }
  rewrite C. reflexivity.
Qed.

Definition stage_good (st : stage) : Prop := match st with StDeferred d => good d | _ => True end.

Lemma sync_idle d : idle d -> sync_run_user (StDeferred d) = URaised XNotFired.
Proof.
  intro I. unfold sync_run_user. rewrite (add_callbacks_idle _ _ _ I).
  rewrite (extract_result_idle _ _ (idle_with_cb _ d I)). reflexivity.
Qed.

Lemma sync_ready x : sync_run_user (StDeferred (ready x)) =
  match x with RVal v => URet v | RErr e => UCaught e end.
Proof. destruct x; reflexivity. Qed.

Theorem sync_notfired_only st : stage_good st ->
  (forall x, sync_run_user st = URaised x -> x = XNotFired /\ exists d, st = StDeferred d /\ idle d)
  /\ (forall d, st = StDeferred d -> idle d -> sync_run_user st = URaised XNotFired)
  /\ (forall e, st = StRaise e \/ st = StDeferred (ready (RErr e)) -> sync_run_user st = UCaught e).
Proof.
  intro G. split; [|split].
  - intros x H. destruct st as [v|e|d].
    + rewrite (sync_direct (inl v)) in H. discriminate.
    + rewrite (sync_direct (inr e)) in H. discriminate.
    + simpl in G. destruct (good_cases d G) as [I|[y ->]].
      * rewrite (sync_idle d I) in H. injection H as <-. split; [reflexivity|]. eauto.
      * rewrite sync_ready in H. destruct y; discriminate.
  - intros d -> I. apply sync_idle, I.
  - intros e [-> | ->]; [apply (sync_direct (inr e)) | apply (sync_ready (RErr e))].
Qed.
