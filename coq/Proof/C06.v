(* C06 proofs: placeholder *)
From TT Require Import Lib.Base Model.Matchers Spec.C06 Corr.C06.
