(* C06 - match() returns None exactly when the documented predicate holds:
   structural induction over matcher expressions. *)
From Coq Require Import Permutation.
From TT Require Import Lib.Base Lib.Sort Model.Matchers Spec.C06 Corr.C06 Proof.C06Setwise Proof.C06Leaves.

(* ---------- induction principle for the nested type ---------- *)
Section MatcherInd.
  Variable P : matcher -> Prop.
  Hypothesis HEquals : forall e, P (Equals e).
  Hypothesis HNotEquals : forall e, P (NotEquals e).
  Hypothesis HIs : forall e, P (Is e).
  Hypothesis HLessThan : forall e, P (LessThan e).
  Hypothesis HGreaterThan : forall e, P (GreaterThan e).
  Hypothesis HContains : forall e, P (Contains e).
  Hypothesis HStartsWith : forall e, P (StartsWith e).
  Hypothesis HEndsWith : forall e, P (EndsWith e).
  Hypothesis HHasLength : forall n, P (HasLength n).
  Hypothesis HIsInstance : forall t, P (IsInstance t).
  Hypothesis HSameMembers : forall e, P (SameMembers e).
  Hypothesis HKeysEqual : forall k, P (KeysEqual k).
  Hypothesis HAlways : P Always.
  Hypothesis HNever : P Never.
  Hypothesis HLeaf : forall n, P (Leaf n).
  Hypothesis HMatchesException : forall i cs a vm, (forall m, vm = Some m -> P m) -> P (MatchesException i cs a vm).
  Hypothesis HRaises : forall em, (forall m, em = Some m -> P m) -> P (Raises em).
  Hypothesis HNot : forall m, P m -> P (Not m).
  Hypothesis HMatchesAll : forall fo ms, Forall P ms -> P (MatchesAll fo ms).
  Hypothesis HMatchesAny : forall ms, Forall P ms -> P (MatchesAny ms).
  Hypothesis HAllMatch : forall m, P m -> P (AllMatch m).
  Hypothesis HAnyMatch : forall m, P m -> P (AnyMatch m).
  Hypothesis HMatchesListwise : forall fo ms, Forall P ms -> P (MatchesListwise fo ms).
  Hypothesis HMatchesSetwise : forall s ms, Forall P ms -> P (MatchesSetwise s ms).
  Hypothesis HMatchesDict : forall kms, Forall (fun km => P (snd km)) kms -> P (MatchesDict kms).
  Hypothesis HContainsDict : forall kms, Forall (fun km => P (snd km)) kms -> P (ContainsDict kms).
  Hypothesis HContainedByDict : forall kms, Forall (fun km => P (snd km)) kms -> P (ContainedByDict kms).
  Hypothesis HMatchesStructure : forall ams, Forall (fun am => P (snd am)) ams -> P (MatchesStructure ams).
  Hypothesis HAfterPreprocessing : forall p a m, P m -> P (AfterPreprocessing p a m).
  Hypothesis HAnnotate : forall n m, P m -> P (Annotate n m).

  Fixpoint matcher_rect' (m : matcher) : P m :=
    let lst := fix lst (ms : list matcher) : Forall P ms :=
                 match ms with [] => Forall_nil _ | m' :: r => Forall_cons _ (matcher_rect' m') (lst r) end in
    let klst := fun K => fix klst (kms : list (K * matcher)) : Forall (fun km => P (snd km)) kms :=
                 match kms with
                 | [] => Forall_nil _
                 | km :: r => Forall_cons km (match km as p return P (snd p) with (_, m') => matcher_rect' m' end)
                                          (klst r)
                 end in
    let opt := fun (o : option matcher) =>
                 match o as o' return (forall m', o' = Some m' -> P m') with
                 | Some m0 => fun m' E => eq_ind m0 P (matcher_rect' m0) m' (f_equal (fun x => match x with Some y => y | None => m0 end) E)
                 | None => fun m' E => False_ind _ (eq_ind None (fun x => match x with None => True | Some _ => False end) I _ E)
                 end in
    match m with
    | Equals e => HEquals e | NotEquals e => HNotEquals e | Is e => HIs e | LessThan e => HLessThan e
    | GreaterThan e => HGreaterThan e | Contains e => HContains e | StartsWith e => HStartsWith e
    | EndsWith e => HEndsWith e | HasLength n => HHasLength n | IsInstance t => HIsInstance t
    | SameMembers e => HSameMembers e | KeysEqual k => HKeysEqual k | Always => HAlways | Never => HNever
    | Leaf n => HLeaf n
    | MatchesException i cs a vm => HMatchesException i cs a vm (opt vm)
    | Raises em => HRaises em (opt em)
    | Not m' => HNot m' (matcher_rect' m')
    | MatchesAll fo ms => HMatchesAll fo ms (lst ms)
    | MatchesAny ms => HMatchesAny ms (lst ms)
    | AllMatch m' => HAllMatch m' (matcher_rect' m')
    | AnyMatch m' => HAnyMatch m' (matcher_rect' m')
    | MatchesListwise fo ms => HMatchesListwise fo ms (lst ms)
    | MatchesSetwise s ms => HMatchesSetwise s ms (lst ms)
    | MatchesDict kms => HMatchesDict kms (klst key kms)
    | ContainsDict kms => HContainsDict kms (klst key kms)
    | ContainedByDict kms => HContainedByDict kms (klst key kms)
    | MatchesStructure ams => HMatchesStructure ams (klst nat ams)
    | AfterPreprocessing p a m' => HAfterPreprocessing p a m' (matcher_rect' m')
    | Annotate n m' => HAnnotate n m' (matcher_rect' m')
    end.
End MatcherInd.

(* ---------- small facts ---------- *)
Lemma leaf_none b : leaf b = None <-> b = true.
Proof. destruct b; simpl; split; congruence. Qed.
Lemma ann_none r : ann r = None <-> r = None.
Proof. destruct r; simpl; split; congruence. Qed.
Lemma is_none_iff {A} (r : option A) b : (r = None <-> b = true) -> is_none r = b.
Proof. destruct r, b; simpl; intros [H1 H2]; try reflexivity; [discriminate (H2 eq_refl)|discriminate (H1 eq_refl)]. Qed.

Lemma Forall_flat_map' {A B} (P : B -> Prop) (f : A -> list B) l :
  Forall P (flat_map f l) <-> Forall (fun x => Forall P (f x)) l.
Proof.
  induction l as [|x l IH]; simpl; [split; constructor|].
  rewrite Forall_app, IH. split; [intros [H1 H2]; constructor; assumption|intro H; inversion H; auto].
Qed.

Lemma Forall_combine {A} (P Q R : A -> Prop) l :
  (forall x, P x -> Q x -> R x) -> Forall P l -> Forall Q l -> Forall R l.
Proof. intros H HP. induction HP; intro HQ; inversion HQ; subst; constructor; auto. Qed.

Lemma map_forall_iff {A} (f : A -> option mm) (g : A -> bool) l :
  Forall (fun x => f x = None <-> g x = true) l ->
  (Forall (fun r => r = None) (map f l) <-> forallb g l = true).
Proof.
  induction 1 as [|x l Hx _ IH]; simpl; [split; [reflexivity|constructor]|].
  rewrite andb_true_iff, <- IH, <- Hx. split; [intro F; inversion F; auto|intros [? ?]; constructor; auto].
Qed.

Lemma map_exists_iff {A} (f : A -> option mm) (g : A -> bool) l :
  Forall (fun x => f x = None <-> g x = true) l ->
  (Exists (fun r => r = None) (map f l) <-> existsb g l = true).
Proof.
  induction 1 as [|x l Hx _ IH]; simpl; [split; [intro E; inversion E|discriminate]|].
  rewrite orb_true_iff, <- IH, <- Hx. split; [intro E; inversion E; auto|intros [?|?]; [left|right]; auto].
Qed.

Lemma labelled_none rs : labelled rs = None <-> Forall (fun r => r = None) rs.
Proof.
  unfold labelled. induction rs as [|r t IH]; simpl; [split; [constructor|reflexivity]|].
  destruct r as [d|]; simpl.
  - split; [discriminate|]. intro F; inversion F; discriminate.
  - rewrite IH. split; [intro; constructor; auto|intro F; inversion F; auto].
Qed.

Lemma dict_mis_none l : dict_mis l = None <-> l = [].
Proof. destruct l; simpl; split; congruence. Qed.

Lemma sub_dict_of_none {A B} (e : list (key * A)) (o : list (key * B)) :
  sub_dict_of e o = None <-> forallb (fun kv => has_key (fst kv) e) o = true.
Proof.
  unfold sub_dict_of. rewrite dict_mis_none. induction o as [|kv o IH]; simpl; [split; reflexivity|].
  destruct (has_key (fst kv) e); simpl; [exact IH|split; discriminate].
Qed.

Section Main.
  Variable leafsem : nat -> val -> bool.
  Variable rank : nat -> nat -> nat.
  Notation M := (match_ leafsem rank).
  Notation Sm := (sem leafsem).
  Notation SA := subapps.

  (* ---------- unfolding equations: the nested fixpoints are maps ---------- *)
  Lemma match_All fo ms v : M (MatchesAll fo ms) v = all_loop fo (map (fun m' => M m' v) ms) [].
  Proof. reflexivity. Qed.
  Lemma match_Any ms v : M (MatchesAny ms) v = any_loop (map (fun m' => M m' v) ms) [].
  Proof. reflexivity. Qed.
  Lemma match_Listwise fo ms l :
    M (MatchesListwise fo ms) (VList l) = listwise fo (Nat.eqb (length l) (length ms)) (zipw M ms l).
  Proof. simpl. f_equal. revert l; induction ms as [|m' r IH]; intros [|x l]; simpl; try reflexivity. f_equal. apply IH. Qed.
  Lemma match_Setwise s ms l :
    M (MatchesSetwise s ms) (VList l)
    = setwise_post (reorder (rank s) (map (fun m' => map (fun x => is_none (M m' x)) l) ms)) (length l).
  Proof. reflexivity. Qed.

  Definition diffs (kms : list (key * matcher)) (obs : list (key * val)) : list mm :=
    flat_map (fun km => match lookup (fst km) obs with
                        | Some x => match M (snd km) x with Some d => [d] | None => [] end
                        | None => []
                        end) kms.
  Lemma match_Dict kms obs :
    M (MatchesDict kms) (VDict obs) = labelled [sub_dict_of kms obs; sub_dict_of obs kms; dict_mis (diffs kms obs)].
  Proof.
    simpl. apply (f_equal (fun z => labelled [sub_dict_of kms obs; sub_dict_of obs kms; dict_mis z])).
    induction kms as [|[k m'] r IH]; simpl; [reflexivity|]. rewrite IH. reflexivity.
  Qed.
  Lemma match_ContainsDict kms obs :
    M (ContainsDict kms) (VDict obs) = labelled [sub_dict_of obs kms; dict_mis (diffs kms obs)].
  Proof.
    simpl. apply (f_equal (fun z => labelled [sub_dict_of obs kms; dict_mis z])).
    induction kms as [|[k m'] r IH]; simpl; [reflexivity|]. rewrite IH. reflexivity.
  Qed.
  Lemma match_ContainedByDict kms obs :
    M (ContainedByDict kms) (VDict obs) = labelled [sub_dict_of kms obs; dict_mis (diffs kms obs)].
  Proof.
    simpl. apply (f_equal (fun z => labelled [sub_dict_of kms obs; dict_mis z])).
    induction kms as [|[k m'] r IH]; simpl; [reflexivity|]. rewrite IH. reflexivity.
  Qed.

  Definition sres (attrs : list (nat * val)) (ams : list (nat * matcher)) : list (nat * option mm) :=
    map (fun am => (fst am, match getattr (fst am) attrs with
                            | Some x => ann (M (snd am) x)
                            | None => Some MLeaf
                            end)) ams.
  Lemma match_Structure ams i attrs :
    M (MatchesStructure ams) (VRec i attrs)
    = listwise false true (map snd (isort (fun a b => Nat.leb (fst a) (fst b)) (sres attrs ams))).
  Proof.
    simpl. apply (f_equal (fun z => listwise false true (map snd (isort (fun a b => Nat.leb (fst a) (fst b)) z)))).
    induction ams as [|[a m'] r IH]; simpl; [reflexivity|]. rewrite IH. reflexivity.
  Qed.

  Lemma diffs_nil kms obs :
    diffs kms obs = [] <->
    Forall (fun km => match lookup (fst km) obs with Some x => M (snd km) x = None | None => True end) kms.
  Proof.
    unfold diffs. induction kms as [|km r IH]; simpl; [split; [constructor|reflexivity]|].
    split.
    - intro H. apply app_eq_nil in H as [H1 H2]. constructor; [|apply IH; exact H2].
      destruct (lookup (fst km) obs); [|exact I]. destruct (M (snd km) v); [discriminate|reflexivity].
    - intro F. inversion F as [|? ? H1 H2]; subst. apply IH in H2. rewrite H2, app_nil_r.
      destruct (lookup (fst km) obs); [|reflexivity]. rewrite H1. reflexivity.
  Qed.

  (* ---------- the theorem ---------- *)
  Definition good (mv : matcher * val) : Prop := local_dom leafsem mv = true /\ local_amb leafsem mv = false.
  Definition TF (m : matcher) : Prop := forall v, Forall good (SA m v) -> (M m v = None <-> Sm m v = true).

  Ltac root H D := inversion H as [|? ? [D _] ?]; subst; simpl in D.

  Lemma tf_children_same ms v :
    Forall TF ms -> Forall good (flat_map (fun m' => SA m' v) ms) ->
    Forall (fun m' => M m' v = None <-> Sm m' v = true) ms.
  Proof.
    intros IH G. apply Forall_flat_map' in G.
    eapply Forall_combine; [|exact IH|exact G]. intros m' T Gm. apply T. exact Gm.
  Qed.

  Lemma tf_elements m' l :
    TF m' -> Forall good (flat_map (SA m') l) -> Forall (fun x => M m' x = None <-> Sm m' x = true) l.
  Proof.
    intros T G. apply Forall_flat_map' in G. eapply Forall_impl; [|exact G]. intros x Gx. apply T. exact Gx.
  Qed.

  Lemma tf_listwise ms : Forall TF ms -> forall l, Forall good (zipcat SA ms l) ->
    (forall2b Sm ms l = true <-> (Nat.eqb (length l) (length ms) = true /\ Forall (fun r => r = None) (zipw M ms l))).
  Proof.
    induction 1 as [|m' ms T _ IH]; intros [|x l] G; simpl.
    - split; [intros _; split; [reflexivity|constructor]|reflexivity].
    - split; [discriminate|intros [? _]; discriminate].
    - split; [discriminate|intros [? _]; discriminate].
    - simpl in G. apply Forall_app in G as [G1 G2]. rewrite andb_true_iff, (IH l G2), <- (T x G1).
      split.
      + intros [H1 [H2 H3]]. split; [exact H2|constructor; assumption].
      + intros [H2 F]. inversion F; subst. auto.
  Qed.

  Lemma tf_dict_entries kms obs :
    Forall (fun km => TF (snd km)) kms ->
    Forall good (flat_map (fun km => match lookup (fst km) obs with Some x => SA (snd km) x | None => [] end) kms) ->
    Forall (fun km => match lookup (fst km) obs with
                      | Some x => M (snd km) x = None <-> Sm (snd km) x = true
                      | None => True end) kms.
  Proof.
    intros IH G. apply Forall_flat_map' in G.
    eapply Forall_combine; [|exact IH|exact G]. intros km T Gm. simpl in *.
    destruct (lookup (fst km) obs); [apply T; exact Gm|exact I].
  Qed.

  Lemma has_key_lookup {A} k (l : list (key * A)) : has_key k l = true <-> lookup k l <> None.
  Proof. unfold has_key. destruct (lookup k l); split; congruence. Qed.

  Theorem truth_functional : forall m, TF m.
  Proof.
    apply matcher_rect'; unfold TF.
    - intros e v H. simpl. apply leaf_none.
    - intros e v H. simpl. apply leaf_none.
    - intros e v H. simpl. apply leaf_none.
    - intros e v H. simpl. apply leaf_none.
    - intros e v H. simpl. apply leaf_none.
    - intros e v H. simpl. apply leaf_none.
    - intros e v H. simpl. apply leaf_none.
    - intros e v H. simpl. apply leaf_none.
    - intros n v H. simpl. apply leaf_none.
    - intros t v H. simpl. apply leaf_none.
    - (* SameMembers *)
      intros e v H. root H D. destruct v; try discriminate. simpl. rewrite leaf_none.
      apply same_members_code. exact D.
    - (* KeysEqual *)
      intros ks v H. destruct v; try (simpl; split; discriminate). simpl.
      rewrite <- same_keys_code. destruct (list_eqb key_eqb _ _); simpl; split; congruence.
    - intros v H. simpl. split; reflexivity.
    - intros v H. simpl. split; discriminate.
    - intros n v H. simpl. apply leaf_none.
    - (* MatchesException *)
      intros i cs a vm IH v H. destruct v; try (simpl; split; discriminate). simpl.
      destruct (existsb (issub c) cs); simpl; [|split; discriminate].
      destruct i; [apply leaf_none|].
      destruct vm as [m'|]; [|split; reflexivity].
      apply (IH m' eq_refl). simpl in H. inversion H; assumption.
    - (* Raises *)
      intros em IH v H. root H D. destruct v; try discriminate; simpl.
      + split; discriminate.
      + destruct em as [m'|]; simpl in *.
        * assert (G : Forall good (SA m' (VExc c args))) by (inversion H; assumption).
          pose proof (IH m' eq_refl _ G) as T. unfold raises_rule. simpl.
          destruct (M m' (VExc c args)) as [d|]; simpl.
          -- destruct (is_user c); simpl; rewrite <- T; split; discriminate.
          -- rewrite <- T. split; reflexivity.
        * rewrite orb_false_r in D. unfold raises_rule. simpl. rewrite D. simpl. split; reflexivity.
    - (* Not *)
      intros m' IH v H. simpl. simpl in H. inversion H as [|? ? _ G]; subst. specialize (IH v G).
      destruct (M m' v), (Sm m' v); simpl; split; try congruence; intro X.
      + destruct IH as [_ I2]. discriminate (I2 eq_refl).
      + destruct IH as [I1 _]. discriminate (I1 eq_refl).
    - (* MatchesAll *)
      intros fo ms IH v H. rewrite match_All, all_loop_none. simpl. simpl in H. inversion H as [|? ? _ G]; subst.
      rewrite <- (map_forall_iff _ _ _ (tf_children_same ms v IH G)). tauto.
    - (* MatchesAny *)
      intros ms IH v H. rewrite match_Any, any_loop_none. simpl. simpl in H. inversion H as [|? ? _ G]; subst.
      apply (map_exists_iff _ _ _ (tf_children_same ms v IH G)).
    - (* AllMatch *)
      intros m' IH v H. destruct v; try (simpl; split; discriminate).
      simpl. simpl in H. inversion H as [|? ? _ G]; subst. rewrite all_loop_none.
      rewrite <- (map_forall_iff _ _ _ (tf_elements m' l IH G)). tauto.
    - (* AnyMatch *)
      intros m' IH v H. destruct v; try (simpl; split; discriminate).
      simpl. simpl in H. inversion H as [|? ? _ G]; subst. rewrite any_loop_none.
      apply (map_exists_iff _ _ _ (tf_elements m' l IH G)).
    - (* MatchesListwise *)
      intros fo ms IH v H. destruct v; try (simpl; split; discriminate).
      rewrite match_Listwise. simpl Sm. simpl in H. inversion H as [|? ? _ G]; subst.
      rewrite (tf_listwise ms IH l G). unfold listwise. rewrite all_loop_none.
      destruct (Nat.eqb (length l) (length ms)); split; intros [? ?]; try discriminate; auto.
    - (* MatchesSetwise *)
      intros s ms IH v H. destruct v; try (simpl; split; discriminate).
      rewrite match_Setwise. simpl Sm.
      inversion H as [|? ? [_ A] G]; subst. simpl in A, G.
      assert (E : map (fun m' => map (fun x => is_none (M m' x)) l) ms = map (fun m' => map (Sm m') l) ms).
      { apply Forall_flat_map' in G. apply map_ext_in. intros m' Hm. apply map_ext_in. intros x Hx.
        apply is_none_iff.
        apply (proj1 (Forall_forall _ _) IH m' Hm).
        pose proof (proj1 (Forall_forall _ _) G m' Hm) as Gm. apply Forall_flat_map' in Gm.
        apply (proj1 (Forall_forall _ _) Gm x Hx). }
      rewrite E. apply setwise_exact_m. exact A.
    - (* MatchesDict *)
      intros kms IH v H. destruct v; try (simpl; split; discriminate).
      rewrite match_Dict, labelled_none. simpl Sm. simpl in H. inversion H as [|? ? _ G]; subst.
      pose proof (tf_dict_entries kms kvs IH G) as E.
      rewrite andb_true_iff, <- sub_dict_of_none.
      split.
      + intro F. inversion F as [|? ? F1 F']; subst. inversion F' as [|? ? F2 F'']; subst.
        inversion F'' as [|? ? F3 _]; subst. split; [exact F1|].
        apply sub_dict_of_none in F2. apply dict_mis_none, diffs_nil in F3.
        apply forallb_forall. intros km Hkm.
        pose proof (proj1 (forallb_forall _ _) F2 km Hkm) as K. apply has_key_lookup in K.
        pose proof (proj1 (Forall_forall _ _) F3 km Hkm) as Dk.
        pose proof (proj1 (Forall_forall _ _) E km Hkm) as Ek.
        cbv beta in *. destruct (lookup (fst km) kvs); [apply Ek; exact Dk|congruence].
      + intros [F1 F2]. constructor; [exact F1|]. constructor; [|constructor; [|constructor]].
        * apply sub_dict_of_none. apply forallb_forall. intros km Hkm.
          pose proof (proj1 (forallb_forall _ _) F2 km Hkm) as K. apply has_key_lookup.
          cbv beta in *. destruct (lookup (fst km) kvs); [discriminate|discriminate].
        * apply dict_mis_none, diffs_nil. apply Forall_forall. intros km Hkm.
          pose proof (proj1 (forallb_forall _ _) F2 km Hkm) as K.
          pose proof (proj1 (Forall_forall _ _) E km Hkm) as Ek.
          cbv beta in *. destruct (lookup (fst km) kvs); [apply Ek; exact K|exact I].
    - (* ContainsDict *)
      intros kms IH v H. destruct v; try (simpl; split; discriminate).
      rewrite match_ContainsDict, labelled_none. simpl Sm. simpl in H. inversion H as [|? ? _ G]; subst.
      pose proof (tf_dict_entries kms kvs IH G) as E.
      split.
      + intro F. inversion F as [|? ? F2 F'']; subst. inversion F'' as [|? ? F3 _]; subst.
        apply sub_dict_of_none in F2. apply dict_mis_none, diffs_nil in F3.
        apply forallb_forall. intros km Hkm.
        pose proof (proj1 (forallb_forall _ _) F2 km Hkm) as K. apply has_key_lookup in K.
        pose proof (proj1 (Forall_forall _ _) F3 km Hkm) as Dk.
        pose proof (proj1 (Forall_forall _ _) E km Hkm) as Ek.
        cbv beta in *. destruct (lookup (fst km) kvs); [apply Ek; exact Dk|congruence].
      + intros F2. constructor; [|constructor; [|constructor]].
        * apply sub_dict_of_none. apply forallb_forall. intros km Hkm.
          pose proof (proj1 (forallb_forall _ _) F2 km Hkm) as K. apply has_key_lookup.
          cbv beta in *. destruct (lookup (fst km) kvs); [discriminate|discriminate].
        * apply dict_mis_none, diffs_nil. apply Forall_forall. intros km Hkm.
          pose proof (proj1 (forallb_forall _ _) F2 km Hkm) as K.
          pose proof (proj1 (Forall_forall _ _) E km Hkm) as Ek.
          cbv beta in *. destruct (lookup (fst km) kvs); [apply Ek; exact K|exact I].
    - (* ContainedByDict *)
      intros kms IH v H. destruct v; try (simpl; split; discriminate).
      rewrite match_ContainedByDict, labelled_none. simpl Sm. simpl in H. inversion H as [|? ? _ G]; subst.
      pose proof (tf_dict_entries kms kvs IH G) as E.
      rewrite andb_true_iff, <- sub_dict_of_none.
      split.
      + intro F. inversion F as [|? ? F1 F'']; subst. inversion F'' as [|? ? F3 _]; subst.
        split; [exact F1|]. apply dict_mis_none, diffs_nil in F3.
        apply forallb_forall. intros km Hkm.
        pose proof (proj1 (Forall_forall _ _) F3 km Hkm) as Dk.
        pose proof (proj1 (Forall_forall _ _) E km Hkm) as Ek.
        cbv beta in *. destruct (lookup (fst km) kvs); [apply Ek; exact Dk|reflexivity].
      + intros [F1 F2]. constructor; [exact F1|]. constructor; [|constructor].
        apply dict_mis_none, diffs_nil. apply Forall_forall. intros km Hkm.
        pose proof (proj1 (forallb_forall _ _) F2 km Hkm) as K.
        pose proof (proj1 (Forall_forall _ _) E km Hkm) as Ek.
        cbv beta in *. destruct (lookup (fst km) kvs); [apply Ek; exact K|exact I].
    - (* MatchesStructure *)
      intros ams IH v H. destruct v; try (simpl; split; discriminate).
      rewrite match_Structure. simpl Sm. simpl in H. inversion H as [|? ? _ G]; subst.
      unfold listwise. rewrite all_loop_none.
      assert (P : Permutation (map snd (sres attrs ams))
                              (map snd (isort (fun a b => Nat.leb (fst a) (fst b)) (sres attrs ams))))
        by (apply Permutation_map, isort_perm).
      transitivity (Forall (fun r : option mm => r = None) (map snd (sres attrs ams))).
      { split; [intros [_ F]; eapply Permutation_Forall; [apply Permutation_sym; exact P|exact F]|].
        intro F. split; [reflexivity|]. eapply Permutation_Forall; [exact P|exact F]. }
      unfold sres. rewrite map_map. simpl.
      apply map_forall_iff.
      apply Forall_flat_map' in G. eapply Forall_combine; [|exact IH|exact G].
      intros am T Gm. simpl in *. destruct (getattr (fst am) attrs); [|split; discriminate].
      rewrite ann_none. apply T. exact Gm.
    - (* AfterPreprocessing *)
      intros p a m' IH v H. simpl. simpl in H. inversion H as [|? ? _ G]; subst.
      destruct (apply_pp p v) as [w|]; [|split; discriminate].
      destruct a; [rewrite ann_none|]; apply IH; exact G.
    - (* Annotate *)
      intros n m' IH v H. simpl. simpl in H. inversion H as [|? ? _ G]; subst.
      rewrite ann_none. apply IH; exact G.
  Qed.
End Main.

(* ---------- consequences at the level of the statement ---------- *)
Lemma good_of_dom_amb leafsem m v :
  dom leafsem m v = true -> amb leafsem m v = false -> Forall (good leafsem) (subapps m v).
Proof.
  unfold dom, amb. intros D A. apply Forall_forall. intros mv Hin. split.
  - apply (proj1 (forallb_forall _ _) D mv Hin).
  - destruct (local_amb leafsem mv) eqn:E; [|reflexivity].
    assert (existsb (local_amb leafsem) (subapps m v) = true) by (apply existsb_exists; exists mv; auto). congruence.
Qed.

Theorem tf_dom leafsem rank m v :
  dom leafsem m v = true -> amb leafsem m v = false ->
  (match_ leafsem rank m v = None <-> sem leafsem m v = true).
Proof. intros D A. apply truth_functional. apply good_of_dom_amb; assumption. Qed.

Theorem pure leafsem rank1 rank2 m v :
  dom leafsem m v = true -> amb leafsem m v = false ->
  (match_ leafsem rank1 m v = None <-> match_ leafsem rank2 m v = None).
Proof. intros D A. rewrite (tf_dom leafsem rank1 m v D A), (tf_dom leafsem rank2 m v D A). tauto. Qed.

Theorem setwise_sound leafsem rank s ms l :
  (forall m' x, In m' ms -> In x l -> (match_ leafsem rank m' x = None <-> sem leafsem m' x = true)) ->
  match_ leafsem rank (MatchesSetwise s ms) (VList l) = None ->
  exists ms', Permutation ms ms' /\ Forall2 (fun m x => sem leafsem m x = true) ms' l.
Proof.
  intros IH H. rewrite match_Setwise in H. apply setwise_sound_m in H.
  apply (assign_matrix (sem leafsem)).
  erewrite map_ext_in; [exact H|]. intros m' Hm. simpl. apply map_ext_in. intros x Hx.
  symmetry. apply is_none_iff. apply IH; assumption.
Qed.

Theorem setwise_complete leafsem rank s ms l :
  dom leafsem (MatchesSetwise s ms) (VList l) = true -> amb leafsem (MatchesSetwise s ms) (VList l) = false ->
  (exists ms', Permutation ms ms' /\ Forall2 (fun m x => sem leafsem m x = true) ms' l) ->
  match_ leafsem rank (MatchesSetwise s ms) (VList l) = None.
Proof.
  intros D A H. apply (tf_dom leafsem rank _ _ D A). simpl. apply (assign_matrix (sem leafsem)). exact H.
Qed.

(* what Raises lets through *)
Theorem raises_rule_spec leafsem rank em c a c' :
  run leafsem rank (Raises em) (VRaise c a) = OProp c' <->
  c' = c /\ is_user c = false /\
  match em with Some m' => match_ leafsem rank m' (VExc c a) <> None | None => True end.
Proof.
  simpl. unfold raises_rule. destruct em as [m'|]; simpl.
  - destruct (match_ leafsem rank m' (VExc c a)) as [d|]; simpl.
    + destruct (is_user c); split; try discriminate.
      * intros [_ [X _]]; discriminate.
      * intro H; injection H as ->. repeat split; discriminate.
      * intros [-> _]. reflexivity.
    + split; [discriminate|]. intros [_ [_ X]]. congruence.
  - destruct (is_user c); split; try discriminate.
    + intros [_ [X _]]; discriminate.
    + intro H; injection H as ->. repeat split.
    + intros [-> _]. reflexivity.
Qed.

Lemma ov_eqb_eq a b : ov_eqb a b = true <-> a = b.
Proof.
  destruct a, b; simpl; split; intro H; try discriminate; try reflexivity; try congruence.
  - apply Nat.eqb_eq in H. congruence.
  - injection H as ->. apply Nat.eqb_refl.
Qed.

Lemma obs_eqb_spec a b : obs_eqb a b = true <-> a = b.
Proof.
  unfold obs_eqb. rewrite andb_true_iff, (list_eqb_spec ov_eqb ov_eqb_eq), bool_eqb_spec.
  destruct a, b; simpl. split; [intros [-> ->]; reflexivity|intro H; injection H as -> ->; auto].
Qed.

Lemma spec_okb_sound i o : spec_okb i o = true -> Spec i o.
Proof.
  unfold spec_okb, Spec. intros H D. rewrite D in H.
  apply andb_true_iff in H as [H H3]. apply andb_true_iff in H as [H1 H2].
  split; [exact H1|]. split; [apply Nat.eqb_eq; exact H2|].
  apply Forall_forall. intros b Hb. apply ov_eqb_eq. apply (proj1 (forallb_forall _ _) H3 b Hb).
Qed.

(* the top-level call: either Raises applied to a raising callable, or the plain verdict *)
Definition lift (r : option mm) : outcome := match r with None => OMatch | Some d => OMis d end.
Lemma top_cases m v :
  (exists em c a, m = Raises em /\ v = VRaise c a) \/
  (forall acc runs ls rk,
      let i := {| i_m := m; i_v := v; i_accept := acc; i_runs := runs |} in
      run ls rk m v = lift (match_ ls rk m v)
      /\ idom i = dom (leafsem_of acc) m v
      /\ expected i = (if isem i m v then Matched else Mismatched)
      /\ finding_F13 i = amb (leafsem_of acc) m v).
Proof.
  destruct m; try (right; intros; repeat split; reflexivity).
  destruct v; try (right; intros; repeat split; try reflexivity; destruct em; reflexivity).
  left. eauto.
Qed.

Theorem model_meets_spec : forall i, finding_F13 i = false -> spec_okb i (model i) = true.
Proof.
  intros [m v acc runs] F. unfold spec_okb, model. simpl verdicts. simpl stable.
  destruct (idom _) eqn:D; [|reflexivity].
  rewrite map_length, Nat.eqb_refl. simpl. apply forallb_forall. intros b Hb.
  apply in_map_iff in Hb as [r [<- _]]. apply ov_eqb_eq.
  destruct (top_cases m v) as [[em [c [a [-> ->]]]]|G].
  - unfold expected, idom, finding_F13, isem in *. simpl in *. unfold raises_rule.
    destruct em as [m'|]; simpl.
    + pose proof (tf_dom (leafsem_of acc) (rank_of r) m' (VExc c a) D F) as T.
      destruct (match_ (leafsem_of acc) (rank_of r) m' (VExc c a)) as [d|]; simpl.
      * destruct (sem (leafsem_of acc) m' (VExc c a)); [destruct T as [_ T]; discriminate (T eq_refl)|].
        destruct (is_user c); reflexivity.
      * destruct T as [T _]. rewrite (T eq_refl). reflexivity.
    + destruct (is_user c); reflexivity.
  - destruct (G acc runs (leafsem_of acc) (rank_of r)) as [G1 [G2 [G3 G4]]].
    rewrite G1, G3. rewrite G2 in D. rewrite G4 in F.
    pose proof (tf_dom (leafsem_of acc) (rank_of r) m v D F) as T. unfold isem. simpl.
    destruct (match_ (leafsem_of acc) (rank_of r) m v) as [d|]; simpl.
    + destruct (sem (leafsem_of acc) m v); [destruct T as [_ T]; discriminate (T eq_refl)|reflexivity].
    + destruct T as [T _]. rewrite (T eq_refl). reflexivity.
Qed.

(* ---------- the documented predicate, clause by clause ---------- *)
Section Clauses.
  Variable ls : nat -> val -> bool.
  Notation Sm := (sem ls).

  Lemma sem_not m v : Sm (Not m) v = negb (Sm m v).
  Proof. reflexivity. Qed.
  Lemma sem_all fo ms v : Sm (MatchesAll fo ms) v = true <-> Forall (fun m => Sm m v = true) ms.
  Proof. simpl. rewrite forallb_forall, Forall_forall. tauto. Qed.
  Lemma sem_any ms v : Sm (MatchesAny ms) v = true <-> Exists (fun m => Sm m v = true) ms.
  Proof. simpl. rewrite existsb_exists, Exists_exists. tauto. Qed.
  Lemma sem_allmatch m l : Sm (AllMatch m) (VList l) = true <-> Forall (fun x => Sm m x = true) l.
  Proof. simpl. rewrite forallb_forall, Forall_forall. tauto. Qed.
  Lemma sem_anymatch m l : Sm (AnyMatch m) (VList l) = true <-> Exists (fun x => Sm m x = true) l.
  Proof. simpl. rewrite existsb_exists, Exists_exists. tauto. Qed.
  Lemma sem_listwise fo ms l :
    Sm (MatchesListwise fo ms) (VList l) = true <-> Forall2 (fun m x => Sm m x = true) ms l.
  Proof.
    simpl. revert l; induction ms as [|m ms IH]; intros [|x l]; simpl; split; intro H;
      try discriminate; try constructor; try (inversion H; fail).
    - apply andb_true_iff in H. tauto.
    - apply IH. apply andb_true_iff in H. tauto.
    - inversion H; subst. apply andb_true_iff. split; [assumption|apply IH; assumption].
  Qed.
  Lemma sem_setwise s ms l :
    Sm (MatchesSetwise s ms) (VList l) = true <->
    exists ms', Permutation ms ms' /\ Forall2 (fun m x => Sm m x = true) ms' l.
  Proof. simpl. apply (assign_matrix Sm). Qed.
  Lemma sem_dict kms obs :
    Sm (MatchesDict kms) (VDict obs) = true <->
    (forall kv, In kv obs -> has_key (fst kv) kms = true) /\
    (forall km, In km kms -> exists x, lookup (fst km) obs = Some x /\ Sm (snd km) x = true).
  Proof.
    simpl. rewrite andb_true_iff, !forallb_forall. split; intros [H1 H2]; (split; [exact H1|]); intros km Hk.
    - specialize (H2 km Hk). destruct (lookup (fst km) obs) as [x|]; [eauto|discriminate].
    - destruct (H2 km Hk) as [x [-> Hx]]. exact Hx.
  Qed.
  Lemma sem_containsdict kms obs :
    Sm (ContainsDict kms) (VDict obs) = true <->
    (forall km, In km kms -> exists x, lookup (fst km) obs = Some x /\ Sm (snd km) x = true).
  Proof.
    simpl. rewrite forallb_forall. split; intros H2 km Hk.
    - specialize (H2 km Hk). destruct (lookup (fst km) obs) as [x|]; [eauto|discriminate].
    - destruct (H2 km Hk) as [x [-> Hx]]. exact Hx.
  Qed.
  Lemma sem_containedbydict kms obs :
    Sm (ContainedByDict kms) (VDict obs) = true <->
    (forall kv, In kv obs -> has_key (fst kv) kms = true) /\
    (forall km x, In km kms -> lookup (fst km) obs = Some x -> Sm (snd km) x = true).
  Proof.
    simpl. rewrite andb_true_iff, !forallb_forall. split; intros [H1 H2]; (split; [exact H1|]).
    - intros km x Hk E. specialize (H2 km Hk). rewrite E in H2. exact H2.
    - intros km Hk. destruct (lookup (fst km) obs) as [x|] eqn:E; [eapply H2; eassumption|reflexivity].
  Qed.
  Lemma sem_structure ams i attrs :
    Sm (MatchesStructure ams) (VRec i attrs) = true <->
    (forall am, In am ams -> exists x, getattr (fst am) attrs = Some x /\ Sm (snd am) x = true).
  Proof.
    simpl. rewrite forallb_forall. split; intros H2 am Hk.
    - specialize (H2 am Hk). destruct (getattr (fst am) attrs) as [x|]; [eauto|discriminate].
    - destruct (H2 am Hk) as [x [-> Hx]]. exact Hx.
  Qed.
  Lemma sem_after p a m v w : apply_pp p v = Some w -> Sm (AfterPreprocessing p a m) v = Sm m w.
  Proof. simpl. intros ->. reflexivity. Qed.
  Lemma sem_annotate n m v : Sm (Annotate n m) v = Sm m v.
  Proof. reflexivity. Qed.
End Clauses.

(* ---------- finding F13: the full statement is false of the faithful model ---------- *)
Definition f13_input : input :=
  {| i_m := MatchesSetwise 0 [MatchesAny [Equals (VInt 1); Equals (VInt 2)]; Equals (VInt 1)];
     i_v := VList [VInt 1; VInt 2];
     i_accept := [];
     i_runs := [[(0, [0; 1])]; [(0, [1; 0])]] |}.

Lemma refuted_F13 : idom f13_input = true /\ finding_F13 f13_input = true
                    /\ verdicts (model f13_input) = [Mismatched; Matched]
                    /\ expected f13_input = Matched
                    /\ spec_okb f13_input (model f13_input) = false.
Proof. vm_compute. repeat split. Qed.
