(* C07 - the literal evaluator gives back the original text: for repr (every
   non-multiline call of text_repr) and for the per-character model of the
   multiline branch; the literal transliteration of text_repr equals the
   per-character model (Section LitTok). *)
From TT Require Import Lib.Base Model.TextRepr.
Local Open Scope N_scope.

(* ---------- hexadecimal escapes decode to the code point ---------- *)
Lemma unhexdigit_hexdigit d : d < 16 -> unhexdigit (hexdigit d) = Some d.
Proof.
  intro H.
  assert (E : d = 0 \/ d = 1 \/ d = 2 \/ d = 3 \/ d = 4 \/ d = 5 \/ d = 6 \/ d = 7 \/ d = 8 \/ d = 9
              \/ d = 10 \/ d = 11 \/ d = 12 \/ d = 13 \/ d = 14 \/ d = 15) by lia.
  repeat (destruct E as [->|E]; [reflexivity|]). subst; reflexivity.
Qed.

Lemma unhex_app l1 : forall acc l2,
  unhex acc (l1 ++ l2) = match unhex acc l1 with Some a => unhex a l2 | None => None end.
Proof.
  induction l1 as [|h l1 IH]; intros acc l2; simpl; [reflexivity|].
  destruct (unhexdigit h); [apply IH|reflexivity].
Qed.

Lemma unhex_hex n : forall c acc, c < 16 ^ N.of_nat n -> unhex acc (hex n c) = Some (acc * 16 ^ N.of_nat n + c).
Proof.
  induction n as [|n IH]; intros c acc H.
  - simpl in *. f_equal. lia.
  - rewrite Nat2N.inj_succ, N.pow_succ_r' in *. simpl hex. rewrite unhex_app.
    assert (Hd : c / 16 < 16 ^ N.of_nat n) by (apply N.div_lt_upper_bound; lia).
    rewrite (IH _ acc Hd). cbn [unhex].
    assert (Hm : c mod 16 < 16) by (apply N.mod_lt; lia).
    rewrite (unhexdigit_hexdigit _ Hm). f_equal.
    assert (E : c = 16 * (c / 16) + c mod 16) by (apply N.div_mod; lia).
    set (d := c / 16) in *. set (m := c mod 16) in *. clearbody d m. subst c. ring.
Qed.

Lemma hex_length n : forall c, length (hex n c) = n.
Proof. induction n as [|n IH]; intro c; simpl; [reflexivity|]. rewrite app_length, IH. simpl. lia. Qed.

Lemma firstn_hex n c rest : firstn n (hex n c ++ rest) = hex n c.
Proof.
  rewrite firstn_app, hex_length, Nat.sub_diag. simpl. rewrite app_nil_r.
  rewrite <- (hex_length n c) at 1. apply firstn_all.
Qed.
Lemma skipn_hex n c rest : skipn n (hex n c ++ rest) = rest.
Proof.
  rewrite skipn_app, hex_length, Nat.sub_diag. simpl.
  rewrite <- (hex_length n c) at 1. rewrite skipn_all. reflexivity.
Qed.


(* one step of the evaluator, with the recursive call abstracted *)
Definition body_step (isb : bool) (q : option N) (rec : list N -> option (list N)) (c : N) (r : list N)
  : option (list N) :=
  let closes :=
    match q with
    | Some qc => N.eqb c qc
    | None => N.eqb c SQ && match r with a :: b :: _ => N.eqb a SQ && N.eqb b SQ | _ => false end
    end in
  if closes then
    (match q, r with
     | Some _, [] => Some []
     | None, [_; _] => Some []
     | _, _ => None
     end)
  else if N.eqb c BS then
    match r with
    | [] => None
    | e :: r2 =>
        if N.eqb e BS then option_map (cons BS) (rec r2)
        else if N.eqb e SQ then option_map (cons SQ) (rec r2)
        else if N.eqb e DQ then option_map (cons DQ) (rec r2)
        else if N.eqb e 110 then option_map (cons NL) (rec r2)
        else if N.eqb e 114 then option_map (cons CR) (rec r2)
        else if N.eqb e 116 then option_map (cons TAB) (rec r2)
        else if N.eqb e NL then rec r2
        else
          let n := (if N.eqb e 120 then 2
                    else if negb isb && N.eqb e 117 then 4
                    else if negb isb && N.eqb e 85 then 8 else 0)%nat in
          match n with
          | O => None
          | _ => if Nat.ltb (length r2) n then None
                 else match unhex 0 (firstn n r2) with
                      | Some v => option_map (cons v) (rec (skipn n r2))
                      | None => None
                      end
          end
    end
  else if N.eqb c NL && negb (is_none_q q) then None
  else if isb && negb (N.ltb c 128) then None
  else option_map (cons c) (rec r).

Lemma eval_body_eq isb q f c r :
  eval_body isb q (S f) (c :: r) = body_step isb q (eval_body isb q f) c r.
Proof. reflexivity. Qed.

Definition okq (q : option N) : Prop := q = None \/ q = Some SQ \/ q = Some DQ.

(* a backslash escape never closes a literal and decodes to its character *)
Lemma step_esc2 isb q rec e v rest : okq q ->
  (e = BS /\ v = BS) \/ (e = SQ /\ v = SQ) \/ (e = DQ /\ v = DQ) \/ (e = 110 /\ v = NL)
  \/ (e = 114 /\ v = CR) \/ (e = 116 /\ v = TAB) ->
  body_step isb q rec BS (e :: rest) = option_map (cons v) (rec rest).
Proof.
  intros [ -> | [ -> | -> ] ] H; unfold body_step;
    repeat (destruct H as [[-> ->]|H]; [reflexivity|]); destruct H as [-> ->]; reflexivity.
Qed.

Lemma step_continuation isb q rec rest : okq q -> body_step isb q rec BS (NL :: rest) = rec rest.
Proof. intros [ -> | [ -> | -> ] ]; reflexivity. Qed.

Lemma step_hex isb q rec e n h c rest : okq q ->
  length h = n -> unhex 0 h = Some c ->
  (e = 120 /\ n = 2%nat) \/ (isb = false /\ e = 117 /\ n = 4%nat) \/ (isb = false /\ e = 85 /\ n = 8%nat) ->
  body_step isb q rec BS (e :: h ++ rest) = option_map (cons c) (rec rest).
Proof.
  intros Q L U H.
  assert (F : firstn n (h ++ rest) = h).
  { rewrite firstn_app, L, Nat.sub_diag. simpl. rewrite app_nil_r. rewrite <- L. apply firstn_all. }
  assert (K : skipn n (h ++ rest) = rest).
  { rewrite skipn_app, L, Nat.sub_diag. simpl. rewrite <- L, skipn_all. reflexivity. }
  assert (G : Nat.ltb (length (h ++ rest)) n = false).
  { apply Nat.ltb_ge. rewrite app_length. lia. }
  destruct Q as [ -> | [ -> | -> ] ]; destruct H as [[-> ->]|[[-> [-> ->]]|[-> [-> ->]]]]; unfold body_step; simpl;
    simpl in G; rewrite ?G; simpl in F, K; rewrite F, K, U; reflexivity.
Qed.

Lemma unhex0_hex n c : c < 16 ^ N.of_nat n -> unhex 0 (hex n c) = Some c.
Proof. intro H. rewrite (unhex_hex n c 0 H). f_equal; try lia. Qed.

Definition starts_sq (l : list N) : bool := match l with a :: _ => N.eqb a SQ | [] => false end.
Definition two_sq (l : list N) : bool :=
  match l with a :: b :: _ => N.eqb a SQ && N.eqb b SQ | _ => false end.
Lemma two_sq_not_start l : starts_sq l = false -> two_sq l = false.
Proof. destruct l as [|a [|b l]]; simpl; intro H; try reflexivity. rewrite H. reflexivity. Qed.
Lemma two_sq_second l : starts_sq l = false -> two_sq (SQ :: l) = false.
Proof. destruct l as [|a l]; simpl; intro H; [reflexivity|]. exact H. Qed.

Lemma eval_lit_single (isb : bool) (q : N) (body : list N) : q = SQ \/ q = DQ -> (q = SQ -> two_sq body = false) ->
  eval_lit ((if isb then [98] else [] : list N) ++ q :: body)
  = option_map (pair isb) (eval_body isb (Some q) (S (length body)) body).
Proof.
  intros [-> | ->] H; destruct isb; unfold eval_lit; simpl; try reflexivity;
    specialize (H eq_refl); unfold two_sq in H; rewrite H; reflexivity.
Qed.

Lemma eval_lit_triple (isb : bool) (body : list N) :
  eval_lit ((if isb then [98] else [] : list N) ++ SQ :: SQ :: SQ :: BS :: NL :: body)
  = option_map (pair isb) (eval_body isb None (S (S (S (S (S (length body)))))) (BS :: NL :: body)).
Proof. destruct isb; reflexivity. Qed.

Section RoundTrip.
  Variable isb : bool.
  Variable nonprint : N -> bool.
  Notation esc := (esc isb nonprint).
  Notation rawc := (rawc isb nonprint).
  Notation esc_ml := (esc_ml isb nonprint).
  Notation body_ml := (body_ml isb nonprint).

  Definition valid (c : N) : Prop := c < (if isb then 256 else 1114112).

  Lemma eval_hexesc q f c rest : okq q -> valid c ->
    eval_body isb q (S f) (hexesc isb c ++ rest) = option_map (cons c) (eval_body isb q f rest).
  Proof.
    unfold valid, hexesc. intros Q V.
    destruct (isb || (c <? 256)) eqn:E1.
    - assert (H : c < 256) by (destruct isb; [exact V|apply N.ltb_lt; exact E1]).
      simpl app. rewrite eval_body_eq. apply (step_hex isb q _ 120 2 (hex 2 c) c rest Q (hex_length 2 c)).
      + apply unhex0_hex. exact H.
      + left. split; reflexivity.
    - apply orb_false_iff in E1 as [Eb E1]. subst isb.
      destruct (c <? 65536) eqn:E2; simpl app; rewrite eval_body_eq.
      + apply (step_hex false q _ 117 4 (hex 4 c) c rest Q (hex_length 4 c)).
        * apply unhex0_hex. apply N.ltb_lt in E2. exact E2.
        * right; left. repeat split; reflexivity.
      + apply (step_hex false q _ 85 8 (hex 8 c) c rest Q (hex_length 8 c)).
        * apply unhex0_hex. simpl in V. change (16 ^ N.of_nat 8) with 4294967296. lia.
        * right; right. repeat split; reflexivity.
  Qed.

  Lemma rawc_bytes c : rawc c = true -> isb && negb (c <? 128) = false.
  Proof.
    unfold TextRepr.rawc. destruct (c <? 128); [intros _; apply andb_false_r|].
    destruct isb; [discriminate|reflexivity].
  Qed.

  (* ---- a character inside '...' or "..." ---- *)
  Lemma eval_esc_single qc f c rest : qc = SQ \/ qc = DQ -> valid c ->
    eval_body isb (Some qc) (S f) (esc qc c ++ rest) = option_map (cons c) (eval_body isb (Some qc) f rest).
  Proof.
    intros Hq V.
    assert (Q : okq (Some qc)) by (destruct Hq as [-> | ->]; [right; left|right; right]; reflexivity).
    unfold TextRepr.esc.
    destruct (N.eqb c BS) eqn:E1.
    { apply N.eqb_eq in E1. subst c. simpl app. rewrite eval_body_eq. apply step_esc2; [exact Q|]. left. split; reflexivity. }
    destruct (N.eqb c qc) eqn:E2.
    { apply N.eqb_eq in E2. subst c. simpl app. rewrite eval_body_eq. apply step_esc2; [exact Q|].
      destruct Hq as [-> | ->]; [right; left|right; right; left]; split; reflexivity. }
    destruct (N.eqb c TAB) eqn:E3.
    { apply N.eqb_eq in E3. subst c. simpl app. rewrite eval_body_eq. apply step_esc2; [exact Q|].
      do 5 right. split; reflexivity. }
    destruct (N.eqb c NL) eqn:E4.
    { apply N.eqb_eq in E4. subst c. simpl app. rewrite eval_body_eq. apply step_esc2; [exact Q|].
      do 3 right; left. split; reflexivity. }
    destruct (N.eqb c CR) eqn:E5.
    { apply N.eqb_eq in E5. subst c. simpl app. rewrite eval_body_eq. apply step_esc2; [exact Q|].
      do 4 right; left. split; reflexivity. }
    destruct (rawc c) eqn:E6.
    - simpl app. rewrite eval_body_eq. unfold body_step. rewrite E2, E1, E4, (rawc_bytes c E6). reflexivity.
    - apply eval_hexesc; assumption.
  Qed.

  Lemma single_body qc s : qc = SQ \/ qc = DQ -> Forall valid s ->
    forall f, (length s < f)%nat -> eval_body isb (Some qc) f (flat_map (esc qc) s ++ [qc]) = Some s.
  Proof.
    intros Hq. induction 1 as [|c s V _ IH]; intros f Hf.
    - destruct f as [|f]; [lia|]. simpl. rewrite N.eqb_refl. reflexivity.
    - destruct f as [|f]; [simpl in Hf; lia|]. simpl flat_map. rewrite <- app_assoc.
      rewrite (eval_esc_single qc f c _ Hq V), IH; [reflexivity|simpl in Hf; lia].
  Qed.

  Lemma esc_nonempty q c : esc q c <> [].
  Proof.
    unfold TextRepr.esc, hexesc.
    repeat match goal with |- context [if ?b then _ else _] => destruct b end; discriminate.
  Qed.

  Lemma esc_not_quote q c : starts_sq (esc q c ++ [q]) = true -> q = SQ -> False.
  Proof.
    intros H ->. unfold TextRepr.esc, hexesc in H.
    destruct (N.eqb c BS); [discriminate|]. destruct (N.eqb c SQ) eqn:E; [discriminate|].
    destruct (N.eqb c TAB); [discriminate|]. destruct (N.eqb c NL); [discriminate|].
    destruct (N.eqb c CR); [discriminate|]. destruct (rawc c); [simpl in H; congruence|].
    repeat match type of H with context [if ?b then _ else _] => destruct b end; discriminate.
  Qed.

  Lemma flat_map_esc_length q s : (length s <= length (flat_map (esc q) s))%nat.
  Proof.
    induction s as [|c s IH]; simpl; [lia|]. rewrite app_length.
    pose proof (esc_nonempty q c). destruct (esc q c); [congruence|]. simpl. lia.
  Qed.

  Lemma quote_for_cases s : quote_for s = SQ \/ quote_for s = DQ.
  Proof. unfold quote_for. destruct (memN SQ s && negb (memN DQ s)); auto. Qed.

  (* ---- repr: every non-multiline call of text_repr ---- *)
  Theorem repr_roundtrip s : Forall valid s -> eval_lit (repr isb nonprint s) = Some (isb, s).
  Proof.
    intro V. unfold repr. set (q := quote_for s). pose proof (quote_for_cases s) as Hq. fold q in Hq.
    set (body := flat_map (esc q) s).
    assert (B : eval_body isb (Some q) (S (length (body ++ [q]))) (body ++ [q]) = Some s).
    { apply single_body; [exact Hq|exact V|]. rewrite app_length. pose proof (flat_map_esc_length q s).
      fold body in H. simpl. lia. }
    assert (T : two_sq (body ++ [q]) = true -> q = SQ -> False).
    { intros H2 E. destruct s as [|c s]; [subst body; simpl in H2; discriminate|].
      subst body. simpl flat_map in H2. rewrite <- app_assoc in H2.
      apply (esc_not_quote q c); [|exact E].
      pose proof (esc_nonempty q c) as Ne. destruct (esc q c) as [|x l] eqn:Ex; [congruence|].
      simpl in H2 |- *. destruct (l ++ flat_map (esc q) s ++ [q]); simpl in H2; [discriminate|].
      apply andb_true_iff in H2. tauto. }
    unfold prefix. change ([q] ++ body ++ [q]) with (q :: (body ++ [q])).
    rewrite (eval_lit_single isb q (body ++ [q]) Hq).
    - rewrite B. reflexivity.
    - intro E. destruct (two_sq (body ++ [q])) eqn:E2; [exfalso; apply T; [reflexivity|exact E]|reflexivity].
  Qed.

  (* ---- a character of a multiline body ---- *)
  Lemma eval_esc_ml f c fl rest : valid c ->
    (N.eqb c SQ = true -> fl = false -> two_sq rest = false) ->
    eval_body isb None (S f) (esc_ml c fl ++ rest) = option_map (cons c) (eval_body isb None f rest).
  Proof.
    intros V Hrest. assert (Q : okq None) by (left; reflexivity).
    unfold TextRepr.esc_ml.
    destruct (N.eqb c SQ) eqn:E0.
    { apply N.eqb_eq in E0. subst c. destruct fl.
      - simpl app. rewrite eval_body_eq. apply step_esc2; [exact Q|]. right; left. split; reflexivity.
      - simpl app. rewrite eval_body_eq. unfold body_step.
        change (N.eqb SQ SQ) with true. simpl andb.
        specialize (Hrest eq_refl eq_refl). unfold two_sq in Hrest. rewrite Hrest.
        change (N.eqb SQ BS) with false. change (N.eqb SQ NL) with false. simpl.
        destruct isb; reflexivity. }
    destruct (N.eqb c DQ) eqn:E0'.
    { apply N.eqb_eq in E0'. subst c. simpl app. rewrite eval_body_eq. unfold body_step.
      change (N.eqb DQ SQ) with false. simpl. destruct isb; reflexivity. }
    destruct (N.eqb c NL) eqn:E4.
    { apply N.eqb_eq in E4. subst c. simpl app. rewrite eval_body_eq. unfold body_step.
      change (N.eqb NL SQ) with false. simpl. destruct isb; reflexivity. }
    unfold TextRepr.esc.
    destruct (N.eqb c BS) eqn:E1.
    { apply N.eqb_eq in E1. subst c. simpl app. rewrite eval_body_eq. apply step_esc2; [exact Q|]. left. split; reflexivity. }
    rewrite E0.
    destruct (N.eqb c TAB) eqn:E3.
    { apply N.eqb_eq in E3. subst c. simpl app. rewrite eval_body_eq. apply step_esc2; [exact Q|].
      do 5 right. split; reflexivity. }
    rewrite E4.
    destruct (N.eqb c CR) eqn:E5.
    { apply N.eqb_eq in E5. subst c. simpl app. rewrite eval_body_eq. apply step_esc2; [exact Q|].
      do 4 right; left. split; reflexivity. }
    destruct (rawc c) eqn:E6.
    - simpl app. rewrite eval_body_eq. unfold body_step. rewrite E0, E1, E4, (rawc_bytes c E6). reflexivity.
    - apply eval_hexesc; assumption.
  Qed.

  Lemma esc_ml_start c fl rest : N.eqb c SQ = false -> starts_sq (esc_ml c fl ++ rest) = false.
  Proof.
    intro E. unfold TextRepr.esc_ml, TextRepr.esc, hexesc. rewrite E.
    destruct (N.eqb c DQ); [reflexivity|]. destruct (N.eqb c NL); [reflexivity|].
    destruct (N.eqb c BS); [reflexivity|]. destruct (N.eqb c TAB); [reflexivity|].
    destruct (N.eqb c CR); [reflexivity|]. destruct (rawc c); [simpl; exact E|].
    repeat match goal with |- context [if ?b then _ else _] => destruct b end; reflexivity.
  Qed.

  Lemma flag_false_rest a b t : N.eqb a SQ && N.eqb b SQ = false ->
    two_sq (body_ml (a :: b :: t) ++ [SQ]) = false.
  Proof.
    intro H. simpl TextRepr.body_ml. rewrite <- !app_assoc.
    destruct (N.eqb a SQ) eqn:Ea.
    - simpl in H. apply N.eqb_eq in Ea. subst a.
      assert (Fl : flag SQ (b :: t) = false) by (unfold flag; destruct t; simpl; rewrite ?H; reflexivity).
      rewrite Fl. unfold TextRepr.esc_ml at 1.
      change (N.eqb SQ SQ) with true. cbv iota. simpl app.
      apply two_sq_second. apply esc_ml_start. exact H.
    - apply two_sq_not_start. apply esc_ml_start. exact Ea.
  Qed.

  Lemma two_more (r : list N) : exists a b t, r ++ [SQ; SQ] = a :: b :: t.
  Proof. destruct r as [|x [|y r']]; simpl; eauto. Qed.

  Lemma ml_body s : Forall valid s ->
    forall f, (length s < f)%nat -> eval_body isb None f (body_ml (s ++ [SQ; SQ]) ++ [SQ]) = Some s.
  Proof.
    induction 1 as [|c s V _ IH]; intros f Hf.
    - destruct f as [|f]; [lia|]. reflexivity.
    - destruct f as [|f]; [simpl in Hf; lia|].
      change ((c :: s) ++ [SQ; SQ]) with (c :: (s ++ [SQ; SQ])).
      destruct (two_more s) as [a [b [t E]]]. specialize (IH f). rewrite E in *.
      change (body_ml (c :: a :: b :: t)) with (esc_ml c (flag c (a :: b :: t)) ++ body_ml (a :: b :: t)).
      rewrite <- app_assoc. rewrite eval_esc_ml; [rewrite IH; [reflexivity|simpl in Hf; lia]|exact V|].
      intros Ec Hfl. unfold flag in Hfl. rewrite Ec in Hfl. simpl in Hfl. apply flag_false_rest. exact Hfl.
  Qed.

  (* ---- the per-character model of text_repr, every multiline setting ---- *)
  Theorem tok_roundtrip s ml : Forall valid s -> eval_lit (text_repr_tok isb nonprint s ml) = Some (isb, s).
  Proof.
    intro V. unfold text_repr_tok.
    destruct (negb match ml with Some b => b | None => memN NL s end); [apply repr_roundtrip; exact V|].
    set (body := body_ml (s ++ [SQ; SQ]) ++ [SQ]).
    assert (B : forall f, (length s < f)%nat -> eval_body isb None f body = Some s) by (apply ml_body; exact V).
    assert (L : (length s < length body)%nat).
    { subst body. rewrite app_length. simpl.
      assert (forall l, (length l <= length (body_ml l))%nat).
      { induction l as [|x l IHl]; simpl; [lia|]. rewrite app_length.
        assert (esc_ml x (flag x l) <> []).
        { unfold TextRepr.esc_ml. pose proof (esc_nonempty SQ x).
          repeat match goal with |- context [if ?b then _ else _] => destruct b end; try discriminate; assumption. }
        destruct (esc_ml x (flag x l)); [congruence|]. simpl. lia. }
      specialize (H (s ++ [SQ; SQ])). rewrite app_length in H. simpl in H. lia. }
    unfold prefix. change ([SQ; SQ; SQ; BS; NL] ++ body) with (SQ :: SQ :: SQ :: BS :: NL :: body).
    rewrite eval_lit_triple, eval_body_eq, step_continuation by (left; reflexivity).
    rewrite B; [reflexivity|lia].
  Qed.
End RoundTrip.

(* ---------- the literal transliteration of text_repr is the per-character formulation ----------
   (i) str.replace of backslash+quote never matches across an escape boundary, so after split / repr /
   slice / replace / join every quote stands raw and every other character as repr escapes it;
   (ii) the find / insert / p += 2 loop puts a backslash exactly before the single quotes that are
   followed by two more single quotes, within its fuel. *)
Section LitTok.
  Variable isb : bool.
  Variable nonprint : N -> bool.
  Notation esc := (esc isb nonprint).
  Notation rawc := (rawc isb nonprint).
  Notation esc_ml := (esc_ml isb nonprint).
  Notation body_ml := (body_ml isb nonprint).
  Notation repr := (repr isb nonprint).
  Notation line_body := (line_body isb nonprint).

  (* ---------- the shape of one escaped character ---------- *)
  Definition plain (x : N) : Prop := x <> BS /\ x <> SQ /\ x <> DQ.

  Lemma hexdigit_plain d : d < 16 -> plain (hexdigit d).
  Proof.
    unfold hexdigit, plain, BS, SQ, DQ. intro H. destruct (d <? 10) eqn:E.
    - apply N.ltb_lt in E. repeat split; lia.
    - apply N.ltb_ge in E. repeat split; lia.
  Qed.

  Lemma hex_plain n : forall c, Forall plain (hex n c).
  Proof.
    induction n as [|n IH]; intro c; simpl; [constructor|].
    apply Forall_app. split; [apply IH|]. constructor; [|constructor].
    apply hexdigit_plain. apply N.mod_lt. discriminate.
  Qed.

  Lemma hexesc_shape c : exists e t, hexesc isb c = BS :: e :: t /\ Forall plain (e :: t).
  Proof.
    unfold hexesc. destruct (isb || (c <? 256)); [|destruct (c <? 65536)];
      eexists _, _; (split; [reflexivity|]); (constructor; [|apply hex_plain]);
      unfold plain, BS, SQ, DQ; repeat split; discriminate.
  Qed.

  Definition isq (q : N) : Prop := q = SQ \/ q = DQ.

  Lemma esc_cases q c : isq q ->
    (c = q /\ esc q c = [BS; q])
    \/ (c = BS /\ esc q c = [BS; BS])
    \/ (c <> q /\ c <> BS /\ exists e t, esc q c = BS :: e :: t /\ Forall plain (e :: t))
    \/ (c <> q /\ c <> BS /\ esc q c = [c]).
  Proof.
    intro Hq. unfold TextRepr.esc.
    destruct (N.eqb c BS) eqn:E1.
    { apply N.eqb_eq in E1. right; left. auto. }
    destruct (N.eqb c q) eqn:E2.
    { apply N.eqb_eq in E2. left. subst. auto. }
    apply N.eqb_neq in E1. apply N.eqb_neq in E2.
    assert (P : forall x, x <> BS -> x <> SQ -> x <> DQ -> Forall plain [x]).
    { intros x A B C. constructor; [|constructor]. repeat split; assumption. }
    destruct (N.eqb c TAB).
    { right; right; left. repeat split; auto. eexists _, _. split; [reflexivity|]. apply P; discriminate. }
    destruct (N.eqb c NL).
    { right; right; left. repeat split; auto. eexists _, _. split; [reflexivity|]. apply P; discriminate. }
    destruct (N.eqb c CR).
    { right; right; left. repeat split; auto. eexists _, _. split; [reflexivity|]. apply P; discriminate. }
    destruct (rawc c).
    - right; right; right. auto.
    - right; right; left. repeat split; auto. apply hexesc_shape.
  Qed.

  Lemma esc_indep q1 q2 c : c <> q1 -> c <> q2 -> esc q1 c = esc q2 c.
  Proof.
    intros H1 H2. unfold TextRepr.esc. apply N.eqb_neq in H1. apply N.eqb_neq in H2. rewrite H1, H2. reflexivity.
  Qed.

  (* one character of a multiline body before the triple-quote pass *)
  Definition e0 (c : N) : list N := esc_ml c false.

  Lemma e0_sq : e0 SQ = [SQ].
  Proof. reflexivity. Qed.
  Lemma e0_dq : e0 DQ = [DQ].
  Proof. reflexivity. Qed.
  Lemma e0_nl : e0 NL = [NL].
  Proof. reflexivity. Qed.
  Lemma e0_other c : c <> SQ -> c <> DQ -> c <> NL -> e0 c = esc SQ c.
  Proof.
    intros A B C. unfold e0, TextRepr.esc_ml. apply N.eqb_neq in A. apply N.eqb_neq in B. apply N.eqb_neq in C.
    rewrite A, B, C. reflexivity.
  Qed.

  (* ---------- str.replace never matches across an escape boundary ---------- *)
  Definition headnq (q : N) (R : list N) : Prop := match R with [] => True | y :: _ => y <> q end.

  Lemma replace2_other q x R : x <> BS -> replace2 BS q (x :: R) = x :: replace2 BS q R.
  Proof.
    intro H. apply N.eqb_neq in H. destruct R as [|y t]; simpl; [reflexivity|]. rewrite H. reflexivity.
  Qed.

  Lemma replace2_bs q R : headnq q R -> replace2 BS q (BS :: R) = BS :: replace2 BS q R.
  Proof.
    destruct R as [|y t]; simpl; intro H; [reflexivity|]. apply N.eqb_neq in H. rewrite H, ?andb_false_r. reflexivity.
  Qed.

  Lemma replace2_hit q R : replace2 BS q (BS :: q :: R) = q :: replace2 BS q R.
  Proof. simpl. rewrite !N.eqb_refl. reflexivity. Qed.

  Lemma replace2_plain q l : Forall plain l -> forall R, replace2 BS q (l ++ R) = l ++ replace2 BS q R.
  Proof.
    induction 1 as [|x l [H _] _ IH]; intro R; [reflexivity|].
    change ((x :: l) ++ R)%list with (x :: (l ++ R))%list. rewrite replace2_other by exact H. rewrite IH. reflexivity.
  Qed.

  Lemma headnq_esc q c X : isq q -> headnq q (esc q c ++ X).
  Proof.
    intro Hq. destruct (esc_cases q c Hq) as [[_ E]|[[_ E]|[[N1 [_ [e [t [E _]]]]]|[N1 [_ E]]]]]; rewrite E; simpl; auto;
      destruct Hq as [-> | ->]; discriminate.
  Qed.

  Lemma headnq_flat q r : isq q -> headnq q (flat_map (esc q) r).
  Proof. intro Hq. destruct r as [|c r]; simpl; [exact I|]. apply headnq_esc. exact Hq. Qed.

  Lemma replace2_esc q c R : isq q -> c <> NL -> headnq q R ->
    replace2 BS q (esc q c ++ R) = (e0 c ++ replace2 BS q R)%list.
  Proof.
    intros Hq NNL HR.
    assert (QB : q <> BS) by (destruct Hq as [-> | ->]; discriminate).
    destruct (esc_cases q c Hq) as [[-> E]|[[-> E]|[[N1 [N2 [e [t [E P]]]]]|[N1 [N2 E]]]]].
    - rewrite E. simpl app. rewrite replace2_hit. destruct Hq as [-> | ->]; reflexivity.
    - rewrite E. simpl app. rewrite replace2_bs by (simpl; auto). rewrite replace2_bs by exact HR.
      reflexivity.
    - assert (E0 : e0 c = esc q c).
      { destruct (N.eq_dec c SQ) as [->|S1].
        - (* q = DQ, the raw single quote: not of this shape *)
          exfalso. destruct Hq as [-> | ->]; [apply N1; reflexivity|].
          inversion P as [|? ? [_ [Hs _]] _]; subst. unfold TextRepr.esc in E. simpl in E. discriminate.
        - destruct (N.eq_dec c DQ) as [->|D1].
          + exfalso. destruct Hq as [-> | ->]; [|apply N1; reflexivity].
            unfold TextRepr.esc in E. simpl in E. discriminate.
          + rewrite e0_other by assumption. apply esc_indep; assumption. }
      rewrite E0, E. change ((BS :: e :: t) ++ R)%list with (BS :: ((e :: t) ++ R))%list.
      rewrite replace2_bs.
      + rewrite replace2_plain by exact P. reflexivity.
      + simpl. inversion P as [|? ? [_ [Hs Hd]] _]; subst. destruct Hq as [-> | ->]; assumption.
    - assert (E0 : e0 c = [c]).
      { destruct (N.eq_dec c SQ) as [->|S1]; [reflexivity|].
        destruct (N.eq_dec c DQ) as [->|D1]; [reflexivity|].
        rewrite e0_other by assumption. rewrite (esc_indep SQ q) by assumption. exact E. }
      rewrite E0, E. simpl app. apply replace2_other. exact N2.
  Qed.

  Lemma replace2_line q line : isq q -> ~ In NL line ->
    replace2 BS q (flat_map (esc q) line) = flat_map e0 line.
  Proof.
    intros Hq. induction line as [|c r IH]; intro H; [reflexivity|].
    simpl flat_map. rewrite replace2_esc; [|exact Hq| |apply headnq_flat; exact Hq].
    - rewrite IH; [reflexivity|]. intro X; apply H; right; exact X.
    - intro X. apply H. left. auto.
  Qed.

  (* ---------- one line ---------- *)
  Lemma skipn_exact {A} (a b : list A) : skipn (length a) (a ++ b) = b.
  Proof. induction a; simpl; auto. Qed.

  Lemma quote_for_isq s : isq (quote_for s).
  Proof. unfold quote_for. destruct (memN SQ s && negb (memN DQ s)); [right|left]; reflexivity. Qed.

  Lemma line_body_eq line : ~ In NL line -> line_body line = flat_map e0 line.
  Proof.
    intro H. unfold TextRepr.line_body, TextRepr.repr.
    set (q := quote_for line). set (body := flat_map (esc q) line).
    replace (prefix isb ++ [q] ++ body ++ [q])%list with (((prefix isb ++ [q]) ++ body) ++ [q])%list
      by (rewrite <- !app_assoc; reflexivity).
    rewrite last_last, removelast_last.
    replace (length (prefix isb) + 1)%nat with (length (prefix isb ++ [q])) by (rewrite app_length; reflexivity).
    rewrite skipn_exact. apply replace2_line; [apply quote_for_isq|exact H].
  Qed.

  (* ---------- split, repr every line, join ---------- *)
  Lemma join_cons (sep l : list N) rest : rest <> [] -> join sep (l :: rest) = (l ++ sep ++ join sep rest)%list.
  Proof. destruct rest; [congruence|reflexivity]. Qed.

  Lemma split_on_nonempty sep s : forall cur, split_on sep s cur <> [].
  Proof. induction s as [|c r IH]; intro cur; simpl; [discriminate|]. destruct (c =? sep); [discriminate|apply IH]. Qed.

  Lemma lines_eq s : forall cur, ~ In NL cur ->
    join [NL] (map line_body (split_on NL s cur)) = flat_map e0 (rev cur ++ s).
  Proof.
    induction s as [|c r IH]; intros cur H; simpl split_on.
    - simpl. rewrite app_nil_r. apply line_body_eq. intro X. apply H. apply in_rev. exact X.
    - destruct (c =? NL) eqn:E.
      + apply N.eqb_eq in E. subst c. simpl map. rewrite join_cons.
        * rewrite line_body_eq by (intro X; apply H; apply in_rev; exact X).
          rewrite (IH [] (fun x => x)). change (rev [] ++ r)%list with r. rewrite flat_map_app. reflexivity.
        * intro X. apply map_eq_nil in X. exact (split_on_nonempty _ _ _ X).
      + apply N.eqb_neq in E. rewrite IH.
        * simpl rev. rewrite <- app_assoc. reflexivity.
        * intros [X|X]; [apply E; auto|apply H; exact X].
  Qed.

  (* ---------- the find / insert loop ---------- *)
  Fixpoint ins (l : list N) : list N :=
    match l with
    | [] => []
    | c :: r => ((if flag c r then [BS; c] else [c]) ++ ins r)%list
    end.

  Definition tri (l : list N) : bool :=
    match l with a :: b :: c :: _ => N.eqb a SQ && N.eqb b SQ && N.eqb c SQ | _ => false end.

  Lemma flag_tri c r : flag c r = tri (c :: r).
  Proof. unfold flag, tri. destruct r as [|a [|b t]]; rewrite ?andb_false_r; try reflexivity. rewrite andb_assoc. reflexivity. Qed.

  Lemma find3_unfold s : find3 s = match s with
                                   | [] => None
                                   | a :: r => if tri s then Some O
                                               else match r with _ :: _ :: _ => option_map S (find3 r) | _ => None end
                                   end.
  Proof. destruct s as [|a [|b [|c t]]]; reflexivity. Qed.

  Lemma find3_short r : (length r < 3)%nat -> find3 r = None.
  Proof. destruct r as [|a [|b [|c t]]]; simpl; intro H; try reflexivity. lia. Qed.

  Lemma find3_none s : find3 s = None -> ins s = s.
  Proof.
    induction s as [|a r IH]; intro H; [reflexivity|]. rewrite find3_unfold in H.
    simpl ins. rewrite flag_tri. destruct (tri (a :: r)); [discriminate|].
    simpl. f_equal. apply IH. destruct r as [|b [|c t]]; try reflexivity.
    destruct (find3 (b :: c :: t)); [discriminate|reflexivity].
  Qed.

  Lemma find3_some s : forall k, find3 s = Some k ->
    exists pre t, s = (pre ++ SQ :: SQ :: SQ :: t)%list /\ length pre = k
                  /\ ins s = (pre ++ BS :: SQ :: ins (SQ :: SQ :: t))%list.
  Proof.
    induction s as [|a r IH]; intros k H; [discriminate|]. rewrite find3_unfold in H.
    destruct (tri (a :: r)) eqn:T.
    - injection H as <-. destruct r as [|b [|c t]]; try discriminate. simpl in T.
      apply andb_true_iff in T as [T T3]. apply andb_true_iff in T as [T1 T2].
      apply N.eqb_eq in T1, T2, T3. subst. exists [], t. repeat split; reflexivity.
    - destruct r as [|b [|c t]]; try discriminate.
      destruct (find3 (b :: c :: t)) as [k'|] eqn:F; [|discriminate]. injection H as <-.
      destruct (IH k' eq_refl) as [pre [t' [E [L I]]]].
      exists (a :: pre), t'. repeat split.
      + simpl. rewrite <- E. reflexivity.
      + simpl. rewrite L. reflexivity.
      + change (ins (a :: b :: c :: t)) with ((if flag a (b :: c :: t) then [BS; a] else [a]) ++ ins (b :: c :: t))%list.
        rewrite flag_tri, T, I. reflexivity.
  Qed.

  Lemma firstn_exact {A} (a b : list A) : firstn (length a) (a ++ b) = a.
  Proof. induction a; simpl; [destruct b; reflexivity|]. f_equal. assumption. Qed.

  Lemma triple_loop_ins fuel : forall done s, (length s <= fuel)%nat ->
    triple_loop fuel done s = (rev done ++ ins s)%list.
  Proof.
    induction fuel as [|f IH]; intros done s L.
    - destruct s; [reflexivity|simpl in L; lia].
    - simpl triple_loop. destruct (find3 s) as [k|] eqn:F.
      + destruct (find3_some s k F) as [pre [t [E [Lp I]]]]. subst k.
        rewrite I. clear I F. subst s. rewrite !skipn_exact, !firstn_exact.
        change (firstn 2 (BS :: SQ :: SQ :: SQ :: t)) with [BS; SQ].
        change (skipn 2 (BS :: SQ :: SQ :: SQ :: t)) with (SQ :: SQ :: t).
        rewrite IH.
        * rewrite !rev_app_distr, rev_involutive. simpl. rewrite <- !app_assoc. reflexivity.
        * rewrite app_length in L. simpl in *. lia.
      + rewrite (find3_none s F). reflexivity.
  Qed.

  (* ---------- the inserted backslashes are those of the per-character formulation ---------- *)
  Lemma plain_nosq l : Forall plain l -> Forall (fun x => x <> SQ) l.
  Proof. induction 1 as [|x l [_ [H _]] _ IH]; constructor; assumption. Qed.

  Lemma e0_shape c : (c = SQ /\ e0 c = [SQ]) \/ (c <> SQ /\ e0 c <> [] /\ Forall (fun x => x <> SQ) (e0 c)).
  Proof.
    destruct (N.eq_dec c SQ) as [->|S1]; [left; auto|right]. split; [exact S1|].
    destruct (N.eq_dec c DQ) as [->|D1]; [rewrite e0_dq; split; [discriminate|repeat constructor; discriminate]|].
    destruct (N.eq_dec c NL) as [->|N1]; [rewrite e0_nl; split; [discriminate|repeat constructor; discriminate]|].
    rewrite e0_other by assumption.
    destruct (esc_cases SQ c (or_introl eq_refl)) as [[-> E]|[[-> E]|[[_ [_ [e [t [E P]]]]]|[_ [_ E]]]]]; rewrite E.
    - contradiction S1; reflexivity.
    - split; [discriminate|repeat constructor; discriminate].
    - split; [discriminate|]. constructor; [discriminate|apply plain_nosq; exact P].
    - split; [discriminate|]. repeat constructor. exact S1.
  Qed.

  Definition two (l : list N) : bool := match l with a :: b :: _ => N.eqb a SQ && N.eqb b SQ | _ => false end.

  Lemma head_nosq_app (l R : list N) : l <> [] -> Forall (fun x => x <> SQ) l ->
    exists h t, (l ++ R)%list = h :: t /\ N.eqb h SQ = false.
  Proof.
    intros NE F. destruct l as [|h t]; [congruence|]. inversion F; subst.
    exists h, (t ++ R)%list. split; [reflexivity|]. apply N.eqb_neq. assumption.
  Qed.

  Lemma starts_flat r : (match flat_map e0 r with a :: _ => N.eqb a SQ | [] => false end)
                        = (match r with a :: _ => N.eqb a SQ | [] => false end).
  Proof.
    destruct r as [|a r]; [reflexivity|]. simpl flat_map.
    destruct (e0_shape a) as [[-> E]|[S1 [NE F]]].
    - rewrite E. reflexivity.
    - destruct (head_nosq_app _ (flat_map e0 r) NE F) as [h [t [E H]]]. rewrite E, H.
      symmetry. apply N.eqb_neq. exact S1.
  Qed.

  Lemma two_flat r : two (flat_map e0 r) = two r.
  Proof.
    destruct r as [|a r]; [reflexivity|]. simpl flat_map.
    destruct (e0_shape a) as [[-> E]|[S1 [NE F]]].
    - rewrite E. simpl app. unfold two. pose proof (starts_flat r) as S.
      destruct (flat_map e0 r) as [|x y]; destruct r as [|b r']; simpl in *; try reflexivity.
      + discriminate S || (rewrite <- S; reflexivity).
      + rewrite S. reflexivity.
      + rewrite S. reflexivity.
    - destruct (head_nosq_app _ (flat_map e0 r) NE F) as [h [t [E H]]]. rewrite E. unfold two.
      apply N.eqb_neq in S1. destruct t; destruct r; rewrite ?H, ?S1; reflexivity.
  Qed.

  Lemma flag_two c r : flag c r = N.eqb c SQ && two r.
  Proof. reflexivity. Qed.

  Lemma ins_nosq l : Forall (fun x => x <> SQ) l -> forall R, ins (l ++ R) = (l ++ ins R)%list.
  Proof.
    induction 1 as [|x l H _ IH]; intro R; [reflexivity|]. simpl. rewrite flag_two.
    apply N.eqb_neq in H. rewrite H. simpl. rewrite IH. reflexivity.
  Qed.

  Lemma ins_flat l : ins (flat_map e0 l) = body_ml l.
  Proof.
    induction l as [|c r IH]; [reflexivity|]. simpl flat_map. simpl TextRepr.body_ml.
    destruct (e0_shape c) as [[-> E]|[S1 [NE F]]].
    - rewrite E. simpl app. simpl ins. rewrite !flag_two, two_flat, IH. reflexivity.
    - rewrite ins_nosq by exact F. rewrite IH. f_equal.
      unfold e0, TextRepr.esc_ml. apply N.eqb_neq in S1. rewrite S1. reflexivity.
  Qed.

  (* ---------- the two formulations of text_repr are the same function ---------- *)
  Theorem lit_eq_tok s ml : text_repr_lit isb nonprint s ml = text_repr_tok isb nonprint s ml.
  Proof.
    unfold text_repr_lit, text_repr_tok.
    destruct (negb (match ml with Some b => b | None => memN NL s end)); [reflexivity|].
    rewrite (lines_eq s [] (fun x => x)). simpl rev. simpl app at 1.
    rewrite triple_loop_ins by lia. simpl rev. simpl app at 3.
    replace (flat_map e0 s ++ [SQ; SQ])%list with (flat_map e0 (s ++ [SQ; SQ]))
      by (rewrite flat_map_app; reflexivity).
    rewrite ins_flat. reflexivity.
  Qed.
End LitTok.
