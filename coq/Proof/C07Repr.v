(* C07 - the literal evaluator gives back the original text: for repr (every
   non-multiline call of text_repr) and for the per-character model of the
   multiline branch. *)
From TT Require Import Lib.Base Model.TextRepr.
Local Open Scope N_scope.

(* ---------- hexadecimal escapes decode to the code point ---------- *)
Lemma unhexdigit_hexdigit d : d < 16 -> unhexdigit (hexdigit d) = Some d.
Proof.
  intro H.
  assert (E : d = 0 \/ d = 1 \/ d = 2 \/ d = 3 \/ d = 4 \/ d = 5 \/ d = 6 \/ d = 7 \/ d = 8 \/ d = 9
              \/ d = 10 \/ d = 11 \/ d = 12 \/ d = 13 \/ d = 14 \/ d = 15) by lia.
  repeat (destruct E as [->|E]; [reflexivity|]). subst; reflexivity.
Qed.

Lemma unhex_app l1 : forall acc l2,
  unhex acc (l1 ++ l2) = match unhex acc l1 with Some a => unhex a l2 | None => None end.
Proof.
  induction l1 as [|h l1 IH]; intros acc l2; simpl; [reflexivity|].
  destruct (unhexdigit h); [apply IH|reflexivity].
Qed.

Lemma unhex_hex n : forall c acc, c < 16 ^ N.of_nat n -> unhex acc (hex n c) = Some (acc * 16 ^ N.of_nat n + c).
Proof.
  induction n as [|n IH]; intros c acc H.
  - simpl in *. f_equal. lia.
  - rewrite Nat2N.inj_succ, N.pow_succ_r' in *. simpl hex. rewrite unhex_app.
    assert (Hd : c / 16 < 16 ^ N.of_nat n) by (apply N.div_lt_upper_bound; lia).
    rewrite (IH _ acc Hd). cbn [unhex].
    assert (Hm : c mod 16 < 16) by (apply N.mod_lt; lia).
    rewrite (unhexdigit_hexdigit _ Hm). f_equal.
    assert (E : c = 16 * (c / 16) + c mod 16) by (apply N.div_mod; lia).
    set (d := c / 16) in *. set (m := c mod 16) in *. clearbody d m. subst c. ring.
Qed.

Lemma hex_length n : forall c, length (hex n c) = n.
Proof. induction n as [|n IH]; intro c; simpl; [reflexivity|]. rewrite app_length, IH. simpl. lia. Qed.

Lemma firstn_hex n c rest : firstn n (hex n c ++ rest) = hex n c.
Proof.
  rewrite firstn_app, hex_length, Nat.sub_diag. simpl. rewrite app_nil_r.
  rewrite <- (hex_length n c) at 1. apply firstn_all.
Qed.
Lemma skipn_hex n c rest : skipn n (hex n c ++ rest) = rest.
Proof.
  rewrite skipn_app, hex_length, Nat.sub_diag. simpl.
  rewrite <- (hex_length n c) at 1. rewrite skipn_all. reflexivity.
Qed.


(* one step of the evaluator, with the recursive call abstracted *)
Definition body_step (isb : bool) (q : option N) (rec : list N -> option (list N)) (c : N) (r : list N)
  : option (list N) :=
  let closes :=
    match q with
    | Some qc => N.eqb c qc
    | None => N.eqb c SQ && match r with a :: b :: _ => N.eqb a SQ && N.eqb b SQ | _ => false end
    end in
  if closes then
    (match q, r with
     | Some _, [] => Some []
     | None, [_; _] => Some []
     | _, _ => None
     end)
  else if N.eqb c BS then
    match r with
    | [] => None
    | e :: r2 =>
        if N.eqb e BS then option_map (cons BS) (rec r2)
        else if N.eqb e SQ then option_map (cons SQ) (rec r2)
        else if N.eqb e DQ then option_map (cons DQ) (rec r2)
        else if N.eqb e 110 then option_map (cons NL) (rec r2)
        else if N.eqb e 114 then option_map (cons CR) (rec r2)
        else if N.eqb e 116 then option_map (cons TAB) (rec r2)
        else if N.eqb e NL then rec r2
        else
          let n := (if N.eqb e 120 then 2
                    else if negb isb && N.eqb e 117 then 4
                    else if negb isb && N.eqb e 85 then 8 else 0)%nat in
          match n with
          | O => None
          | _ => if Nat.ltb (length r2) n then None
                 else match unhex 0 (firstn n r2) with
                      | Some v => option_map (cons v) (rec (skipn n r2))
                      | None => None
                      end
          end
    end
  else if N.eqb c NL && negb (is_none_q q) then None
  else if isb && negb (N.ltb c 128) then None
  else option_map (cons c) (rec r).

Lemma eval_body_eq isb q f c r :
  eval_body isb q (S f) (c :: r) = body_step isb q (eval_body isb q f) c r.
Proof. reflexivity. Qed.

Definition okq (q : option N) : Prop := q = None \/ q = Some SQ \/ q = Some DQ.

(* a backslash escape never closes a literal and decodes to its character *)
Lemma step_esc2 isb q rec e v rest : okq q ->
  (e = BS /\ v = BS) \/ (e = SQ /\ v = SQ) \/ (e = DQ /\ v = DQ) \/ (e = 110 /\ v = NL)
  \/ (e = 114 /\ v = CR) \/ (e = 116 /\ v = TAB) ->
  body_step isb q rec BS (e :: rest) = option_map (cons v) (rec rest).
Proof.
  intros [ -> | [ -> | -> ] ] H; unfold body_step;
    repeat (destruct H as [[-> ->]|H]; [reflexivity|]); destruct H as [-> ->]; reflexivity.
Qed.

Lemma step_continuation isb q rec rest : okq q -> body_step isb q rec BS (NL :: rest) = rec rest.
Proof. intros [ -> | [ -> | -> ] ]; reflexivity. Qed.

Lemma step_hex isb q rec e n h c rest : okq q ->
  length h = n -> unhex 0 h = Some c ->
  (e = 120 /\ n = 2%nat) \/ (isb = false /\ e = 117 /\ n = 4%nat) \/ (isb = false /\ e = 85 /\ n = 8%nat) ->
  body_step isb q rec BS (e :: h ++ rest) = option_map (cons c) (rec rest).
Proof.
  intros Q L U H.
  assert (F : firstn n (h ++ rest) = h).
  { rewrite firstn_app, L, Nat.sub_diag. simpl. rewrite app_nil_r. rewrite <- L. apply firstn_all. }
  assert (K : skipn n (h ++ rest) = rest).
  { rewrite skipn_app, L, Nat.sub_diag. simpl. rewrite <- L, skipn_all. reflexivity. }
  assert (G : Nat.ltb (length (h ++ rest)) n = false).
  { apply Nat.ltb_ge. rewrite app_length. lia. }
  destruct Q as [ -> | [ -> | -> ] ]; destruct H as [[-> ->]|[[-> [-> ->]]|[-> [-> ->]]]]; unfold body_step; simpl;
    simpl in G; rewrite ?G; simpl in F, K; rewrite F, K, U; reflexivity.
Qed.

Lemma unhex0_hex n c : c < 16 ^ N.of_nat n -> unhex 0 (hex n c) = Some c.
Proof. intro H. rewrite (unhex_hex n c 0 H). f_equal; try lia. Qed.

Definition starts_sq (l : list N) : bool := match l with a :: _ => N.eqb a SQ | [] => false end.
Definition two_sq (l : list N) : bool :=
  match l with a :: b :: _ => N.eqb a SQ && N.eqb b SQ | _ => false end.
Lemma two_sq_not_start l : starts_sq l = false -> two_sq l = false.
Proof. destruct l as [|a [|b l]]; simpl; intro H; try reflexivity. rewrite H. reflexivity. Qed.
Lemma two_sq_second l : starts_sq l = false -> two_sq (SQ :: l) = false.
Proof. destruct l as [|a l]; simpl; intro H; [reflexivity|]. exact H. Qed.

Lemma eval_lit_single (isb : bool) (q : N) (body : list N) : q = SQ \/ q = DQ -> (q = SQ -> two_sq body = false) ->
  eval_lit ((if isb then [98] else [] : list N) ++ q :: body)
  = option_map (pair isb) (eval_body isb (Some q) (S (length body)) body).
Proof.
  intros [-> | ->] H; destruct isb; unfold eval_lit; simpl; try reflexivity;
    specialize (H eq_refl); unfold two_sq in H; rewrite H; reflexivity.
Qed.

Lemma eval_lit_triple (isb : bool) (body : list N) :
  eval_lit ((if isb then [98] else [] : list N) ++ SQ :: SQ :: SQ :: BS :: NL :: body)
  = option_map (pair isb) (eval_body isb None (S (S (S (S (S (length body)))))) (BS :: NL :: body)).
Proof. destruct isb; reflexivity. Qed.

Section RoundTrip.
  Variable isb : bool.
  Variable nonprint : N -> bool.
  Notation esc := (esc isb nonprint).
  Notation rawc := (rawc isb nonprint).
  Notation esc_ml := (esc_ml isb nonprint).
  Notation body_ml := (body_ml isb nonprint).

  Definition valid (c : N) : Prop := c < (if isb then 256 else 1114112).

  Lemma eval_hexesc q f c rest : okq q -> valid c ->
    eval_body isb q (S f) (hexesc isb c ++ rest) = option_map (cons c) (eval_body isb q f rest).
  Proof.
    unfold valid, hexesc. intros Q V.
    destruct (isb || (c <? 256)) eqn:E1.
    - assert (H : c < 256) by (destruct isb; [exact V|apply N.ltb_lt; exact E1]).
      simpl app. rewrite eval_body_eq. apply (step_hex isb q _ 120 2 (hex 2 c) c rest Q (hex_length 2 c)).
      + apply unhex0_hex. exact H.
      + left. split; reflexivity.
    - apply orb_false_iff in E1 as [Eb E1]. subst isb.
      destruct (c <? 65536) eqn:E2; simpl app; rewrite eval_body_eq.
      + apply (step_hex false q _ 117 4 (hex 4 c) c rest Q (hex_length 4 c)).
        * apply unhex0_hex. apply N.ltb_lt in E2. exact E2.
        * right; left. repeat split; reflexivity.
      + apply (step_hex false q _ 85 8 (hex 8 c) c rest Q (hex_length 8 c)).
        * apply unhex0_hex. simpl in V. change (16 ^ N.of_nat 8) with 4294967296. lia.
        * right; right. repeat split; reflexivity.
  Qed.

  Lemma rawc_bytes c : rawc c = true -> isb && negb (c <? 128) = false.
  Proof.
    unfold TextRepr.rawc. destruct (c <? 128); [intros _; apply andb_false_r|].
    destruct isb; [discriminate|reflexivity].
  Qed.

  (* ---- a character inside '...' or "..." ---- *)
  Lemma eval_esc_single qc f c rest : qc = SQ \/ qc = DQ -> valid c ->
    eval_body isb (Some qc) (S f) (esc qc c ++ rest) = option_map (cons c) (eval_body isb (Some qc) f rest).
  Proof.
    intros Hq V.
    assert (Q : okq (Some qc)) by (destruct Hq as [-> | ->]; [right; left|right; right]; reflexivity).
    unfold TextRepr.esc.
    destruct (N.eqb c BS) eqn:E1.
    { apply N.eqb_eq in E1. subst c. simpl app. rewrite eval_body_eq. apply step_esc2; [exact Q|]. left. split; reflexivity. }
    destruct (N.eqb c qc) eqn:E2.
    { apply N.eqb_eq in E2. subst c. simpl app. rewrite eval_body_eq. apply step_esc2; [exact Q|].
      destruct Hq as [-> | ->]; [right; left|right; right; left]; split; reflexivity. }
    destruct (N.eqb c TAB) eqn:E3.
    { apply N.eqb_eq in E3. subst c. simpl app. rewrite eval_body_eq. apply step_esc2; [exact Q|].
      do 5 right. split; reflexivity. }
    destruct (N.eqb c NL) eqn:E4.
    { apply N.eqb_eq in E4. subst c. simpl app. rewrite eval_body_eq. apply step_esc2; [exact Q|].
      do 3 right; left. split; reflexivity. }
    destruct (N.eqb c CR) eqn:E5.
    { apply N.eqb_eq in E5. subst c. simpl app. rewrite eval_body_eq. apply step_esc2; [exact Q|].
      do 4 right; left. split; reflexivity. }
    destruct (rawc c) eqn:E6.
    - simpl app. rewrite eval_body_eq. unfold body_step. rewrite E2, E1, E4, (rawc_bytes c E6). reflexivity.
    - apply eval_hexesc; assumption.
  Qed.

  Lemma single_body qc s : qc = SQ \/ qc = DQ -> Forall valid s ->
    forall f, (length s < f)%nat -> eval_body isb (Some qc) f (flat_map (esc qc) s ++ [qc]) = Some s.
  Proof.
    intros Hq. induction 1 as [|c s V _ IH]; intros f Hf.
    - destruct f as [|f]; [lia|]. simpl. rewrite N.eqb_refl. reflexivity.
    - destruct f as [|f]; [simpl in Hf; lia|]. simpl flat_map. rewrite <- app_assoc.
      rewrite (eval_esc_single qc f c _ Hq V), IH; [reflexivity|simpl in Hf; lia].
  Qed.

  Lemma esc_nonempty q c : esc q c <> [].
  Proof.
    unfold TextRepr.esc, hexesc.
    repeat match goal with |- context [if ?b then _ else _] => destruct b end; discriminate.
  Qed.

  Lemma esc_not_quote q c : starts_sq (esc q c ++ [q]) = true -> q = SQ -> False.
  Proof.
    intros H ->. unfold TextRepr.esc, hexesc in H.
    destruct (N.eqb c BS); [discriminate|]. destruct (N.eqb c SQ) eqn:E; [discriminate|].
    destruct (N.eqb c TAB); [discriminate|]. destruct (N.eqb c NL); [discriminate|].
    destruct (N.eqb c CR); [discriminate|]. destruct (rawc c); [simpl in H; congruence|].
    repeat match type of H with context [if ?b then _ else _] => destruct b end; discriminate.
  Qed.

  Lemma flat_map_esc_length q s : (length s <= length (flat_map (esc q) s))%nat.
  Proof.
    induction s as [|c s IH]; simpl; [lia|]. rewrite app_length.
    pose proof (esc_nonempty q c). destruct (esc q c); [congruence|]. simpl. lia.
  Qed.

  Lemma quote_for_cases s : quote_for s = SQ \/ quote_for s = DQ.
  Proof. unfold quote_for. destruct (memN SQ s && negb (memN DQ s)); auto. Qed.

  (* ---- repr: every non-multiline call of text_repr ---- *)
  Theorem repr_roundtrip s : Forall valid s -> eval_lit (repr isb nonprint s) = Some (isb, s).
  Proof.
    intro V. unfold repr. set (q := quote_for s). pose proof (quote_for_cases s) as Hq. fold q in Hq.
    set (body := flat_map (esc q) s).
    assert (B : eval_body isb (Some q) (S (length (body ++ [q]))) (body ++ [q]) = Some s).
    { apply single_body; [exact Hq|exact V|]. rewrite app_length. pose proof (flat_map_esc_length q s).
      fold body in H. simpl. lia. }
    assert (T : two_sq (body ++ [q]) = true -> q = SQ -> False).
    { intros H2 E. destruct s as [|c s]; [subst body; simpl in H2; discriminate|].
      subst body. simpl flat_map in H2. rewrite <- app_assoc in H2.
      apply (esc_not_quote q c); [|exact E].
      pose proof (esc_nonempty q c) as Ne. destruct (esc q c) as [|x l] eqn:Ex; [congruence|].
      simpl in H2 |- *. destruct (l ++ flat_map (esc q) s ++ [q]); simpl in H2; [discriminate|].
      apply andb_true_iff in H2. tauto. }
    unfold prefix. change ([q] ++ body ++ [q]) with (q :: (body ++ [q])).
    rewrite (eval_lit_single isb q (body ++ [q]) Hq).
    - rewrite B. reflexivity.
    - intro E. destruct (two_sq (body ++ [q])) eqn:E2; [exfalso; apply T; [reflexivity|exact E]|reflexivity].
  Qed.

  (* ---- a character of a multiline body ---- *)
  Lemma eval_esc_ml f c fl rest : valid c ->
    (N.eqb c SQ = true -> fl = false -> two_sq rest = false) ->
    eval_body isb None (S f) (esc_ml c fl ++ rest) = option_map (cons c) (eval_body isb None f rest).
  Proof.
    intros V Hrest. assert (Q : okq None) by (left; reflexivity).
    unfold TextRepr.esc_ml.
    destruct (N.eqb c SQ) eqn:E0.
    { apply N.eqb_eq in E0. subst c. destruct fl.
      - simpl app. rewrite eval_body_eq. apply step_esc2; [exact Q|]. right; left. split; reflexivity.
      - simpl app. rewrite eval_body_eq. unfold body_step.
        change (N.eqb SQ SQ) with true. simpl andb.
        specialize (Hrest eq_refl eq_refl). unfold two_sq in Hrest. rewrite Hrest.
        change (N.eqb SQ BS) with false. change (N.eqb SQ NL) with false. simpl.
        destruct isb; reflexivity. }
    destruct (N.eqb c DQ) eqn:E0'.
    { apply N.eqb_eq in E0'. subst c. simpl app. rewrite eval_body_eq. unfold body_step.
      change (N.eqb DQ SQ) with false. simpl. destruct isb; reflexivity. }
    destruct (N.eqb c NL) eqn:E4.
    { apply N.eqb_eq in E4. subst c. simpl app. rewrite eval_body_eq. unfold body_step.
      change (N.eqb NL SQ) with false. simpl. destruct isb; reflexivity. }
    unfold TextRepr.esc.
    destruct (N.eqb c BS) eqn:E1.
    { apply N.eqb_eq in E1. subst c. simpl app. rewrite eval_body_eq. apply step_esc2; [exact Q|]. left. split; reflexivity. }
    rewrite E0.
    destruct (N.eqb c TAB) eqn:E3.
    { apply N.eqb_eq in E3. subst c. simpl app. rewrite eval_body_eq. apply step_esc2; [exact Q|].
      do 5 right. split; reflexivity. }
    rewrite E4.
    destruct (N.eqb c CR) eqn:E5.
    { apply N.eqb_eq in E5. subst c. simpl app. rewrite eval_body_eq. apply step_esc2; [exact Q|].
      do 4 right; left. split; reflexivity. }
    destruct (rawc c) eqn:E6.
    - simpl app. rewrite eval_body_eq. unfold body_step. rewrite E0, E1, E4, (rawc_bytes c E6). reflexivity.
    - apply eval_hexesc; assumption.
  Qed.

  Lemma esc_ml_start c fl rest : N.eqb c SQ = false -> starts_sq (esc_ml c fl ++ rest) = false.
  Proof.
    intro E. unfold TextRepr.esc_ml, TextRepr.esc, hexesc. rewrite E.
    destruct (N.eqb c DQ); [reflexivity|]. destruct (N.eqb c NL); [reflexivity|].
    destruct (N.eqb c BS); [reflexivity|]. destruct (N.eqb c TAB); [reflexivity|].
    destruct (N.eqb c CR); [reflexivity|]. destruct (rawc c); [simpl; exact E|].
    repeat match goal with |- context [if ?b then _ else _] => destruct b end; reflexivity.
  Qed.

  Lemma flag_false_rest a b t : N.eqb a SQ && N.eqb b SQ = false ->
    two_sq (body_ml (a :: b :: t) ++ [SQ]) = false.
  Proof.
    intro H. simpl TextRepr.body_ml. rewrite <- !app_assoc.
    destruct (N.eqb a SQ) eqn:Ea.
    - simpl in H. apply N.eqb_eq in Ea. subst a.
      assert (Fl : flag SQ (b :: t) = false) by (unfold flag; destruct t; simpl; rewrite ?H; reflexivity).
      rewrite Fl. unfold TextRepr.esc_ml at 1.
      change (N.eqb SQ SQ) with true. cbv iota. simpl app.
      apply two_sq_second. apply esc_ml_start. exact H.
    - apply two_sq_not_start. apply esc_ml_start. exact Ea.
  Qed.

  Lemma two_more (r : list N) : exists a b t, r ++ [SQ; SQ] = a :: b :: t.
  Proof. destruct r as [|x [|y r']]; simpl; eauto. Qed.

  Lemma ml_body s : Forall valid s ->
    forall f, (length s < f)%nat -> eval_body isb None f (body_ml (s ++ [SQ; SQ]) ++ [SQ]) = Some s.
  Proof.
    induction 1 as [|c s V _ IH]; intros f Hf.
    - destruct f as [|f]; [lia|]. reflexivity.
    - destruct f as [|f]; [simpl in Hf; lia|].
      change ((c :: s) ++ [SQ; SQ]) with (c :: (s ++ [SQ; SQ])).
      destruct (two_more s) as [a [b [t E]]]. specialize (IH f). rewrite E in *.
      change (body_ml (c :: a :: b :: t)) with (esc_ml c (flag c (a :: b :: t)) ++ body_ml (a :: b :: t)).
      rewrite <- app_assoc. rewrite eval_esc_ml; [rewrite IH; [reflexivity|simpl in Hf; lia]|exact V|].
      intros Ec Hfl. unfold flag in Hfl. rewrite Ec in Hfl. simpl in Hfl. apply flag_false_rest. exact Hfl.
  Qed.

  (* ---- the per-character model of text_repr, every multiline setting ---- *)
  Theorem tok_roundtrip s ml : Forall valid s -> eval_lit (text_repr_tok isb nonprint s ml) = Some (isb, s).
  Proof.
    intro V. unfold text_repr_tok.
    destruct (negb match ml with Some b => b | None => memN NL s end); [apply repr_roundtrip; exact V|].
    set (body := body_ml (s ++ [SQ; SQ]) ++ [SQ]).
    assert (B : forall f, (length s < f)%nat -> eval_body isb None f body = Some s) by (apply ml_body; exact V).
    assert (L : (length s < length body)%nat).
    { subst body. rewrite app_length. simpl.
      assert (forall l, (length l <= length (body_ml l))%nat).
      { induction l as [|x l IHl]; simpl; [lia|]. rewrite app_length.
        assert (esc_ml x (flag x l) <> []).
        { unfold TextRepr.esc_ml. pose proof (esc_nonempty SQ x).
          repeat match goal with |- context [if ?b then _ else _] => destruct b end; try discriminate; assumption. }
        destruct (esc_ml x (flag x l)); [congruence|]. simpl. lia. }
      specialize (H (s ++ [SQ; SQ])). rewrite app_length in H. simpl in H. lia. }
    unfold prefix. change ([SQ; SQ; SQ; BS; NL] ++ body) with (SQ :: SQ :: SQ :: BS :: NL :: body).
    rewrite eval_lit_triple, eval_body_eq, step_continuation by (left; reflexivity).
    rewrite B; [reflexivity|lia].
  Qed.
End RoundTrip.
