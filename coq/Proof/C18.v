(* Lemmas behind Props/C18.v. *)
From TT Require Import Lib.Base Model.Router Spec.C18 Corr.C18.

(* ---------- equality tests decide equality ---------- *)
Lemma onat_eqb_spec a b : onat_eqb a b = true <-> a = b.
Proof. apply option_eqb_spec. exact Nat.eqb_eq. Qed.
Lemma lnat_eqb_spec a b : lnat_eqb a b = true <-> a = b.
Proof. apply list_eqb_spec. exact Nat.eqb_eq. Qed.
Lemma olnat_eqb_spec a b : option_eqb lnat_eqb a b = true <-> a = b.
Proof. apply option_eqb_spec. exact lnat_eqb_spec. Qed.
Lemma route_eqb_spec a b : route_eqb a b = true <-> a = b.
Proof. exact (olnat_eqb_spec a b). Qed.
Lemma id_eqb_spec a b : id_eqb a b = true <-> a = b.
Proof. exact (onat_eqb_spec a b). Qed.

Lemma event_eqb_spec a b : event_eqb a b = true <-> a = b.
Proof.
  destruct a as [a1 a2 a3 a4 a5 a6 a7 a8 a9 a10], b as [b1 b2 b3 b4 b5 b6 b7 b8 b9 b10].
  unfold event_eqb; simpl. rewrite !andb_true_iff, !onat_eqb_spec, !olnat_eqb_spec, !bool_eqb_spec, ?route_eqb_spec.
  split.
  - intros [[[[[[[[[-> ->] ->] ->] ->] ->] ->] ->] ->] ->]. reflexivity.
  - intro H; injection H; intros; subst. repeat split.
Qed.

Lemma call_eqb_spec a b : call_eqb a b = true <-> a = b.
Proof.
  destruct a as [| |x], b as [| |y]; simpl; try (split; [reflexivity|reflexivity]); try (split; discriminate).
  rewrite event_eqb_spec. split; [intros ->; reflexivity | intro H; injection H; auto].
Qed.

Lemma calls_eqb_spec a b : list_eqb call_eqb a b = true <-> a = b.
Proof. apply list_eqb_spec. exact call_eqb_spec. Qed.

Lemma step_obs_eqb_spec a b : step_obs_eqb a b = true <-> a = b.
Proof.
  destruct a as [a1 a2], b as [b1 b2]. unfold step_obs_eqb; simpl.
  rewrite andb_true_iff, bool_eqb_spec, (list_eqb_spec _ calls_eqb_spec).
  split; [intros [-> ->]; reflexivity | intro H; injection H; auto].
Qed.

Theorem obs_eqb_spec a b : obs_eqb a b = true <-> a = b.
Proof.
  destruct a as [a1 a2], b as [b1 b2]. unfold obs_eqb; simpl.
  rewrite andb_true_iff, (list_eqb_spec _ step_obs_eqb_spec), (list_eqb_spec _ route_eqb_spec).
  split; [intros [-> ->]; reflexivity | intro H; injection H; auto].
Qed.

(* ---------- new_is reflects New_is ---------- *)
Lemma forallb_combine_seq (P : list call -> nat -> bool) new : forall a,
  forallb (fun kc => P (snd kc) (fst kc)) (combine (seq a (length new)) new) = true
  <-> forall k, k < length new -> P (nth k new []) (a + k) = true.
Proof.
  induction new as [|x r IH]; intro a; simpl.
  - split; [intros _ k Hk; lia | reflexivity].
  - rewrite andb_true_iff, IH. split.
    + intros [H0 H] [|k] Hk; [rewrite Nat.add_0_r; exact H0|].
      rewrite Nat.add_succ_r. apply (H k). lia.
    + intro H. split; [specialize (H 0); rewrite Nat.add_0_r in H; apply H; lia|].
      intros k Hk. specialize (H (S k)). rewrite Nat.add_succ_r in H. apply H. lia.
Qed.

Lemma new_is_spec n f new : new_is n f new = true <-> New_is n f new.
Proof.
  unfold new_is, New_is. rewrite andb_true_iff, Nat.eqb_eq. split.
  - intros [<- H]. split; [reflexivity|].
    intros k Hk. apply calls_eqb_spec.
    exact (proj1 (forallb_combine_seq (fun c k => list_eqb call_eqb c (f k)) new 0) H k Hk).
  - intros [<- H]. split; [reflexivity|].
    apply (forallb_combine_seq (fun c k => list_eqb call_eqb c (f k)) new 0).
    intros k Hk. apply calls_eqb_spec. exact (H k Hk).
Qed.

(* ---------- the observation format ---------- *)
Lemma per_sink_new_is n ds : New_is n (calls_for ds) (per_sink n ds).
Proof.
  unfold New_is, per_sink. rewrite map_length, seq_length. split; [reflexivity|].
  intros k Hk. rewrite (nth_indep _ [] (calls_for ds 0)) by (rewrite map_length, seq_length; exact Hk).
  rewrite map_nth, seq_nth by exact Hk. reflexivity.
Qed.

Lemma New_is_ext n f g new : (forall k, k < n -> f k = g k) -> New_is n f new -> New_is n g new.
Proof. intros E [L H]. split; [exact L|]. intros k Hk. rewrite <- E by exact Hk. apply H; exact Hk. Qed.

Lemma per_sink_ok n ds f : (forall k, k < n -> calls_for ds k = f k) -> new_is n f (per_sink n ds) = true.
Proof. intro E. apply new_is_spec. apply (New_is_ext n (calls_for ds)); [exact E | apply per_sink_new_is]. Qed.

Lemma calls_for_nil k : calls_for [] k = [].
Proof. reflexivity. Qed.

Lemma calls_for_one s c k : calls_for [(s, c)] k = only s c k.
Proof. unfold calls_for, only; simpl. rewrite (Nat.eqb_sym k s). destruct (Nat.eqb s k); reflexivity. Qed.

Lemma calls_for_map (c : call) sinks k :
  calls_for (map (fun s => (s, c)) sinks) k = repeat c (count k sinks).
Proof.
  unfold calls_for, count. induction sinks as [|x r IH]; simpl; [reflexivity|].
  destruct (Nat.eq_dec x k) as [->|N].
  - rewrite Nat.eqb_refl. simpl. rewrite IH. reflexivity.
  - apply Nat.eqb_neq in N. rewrite N. exact IH.
Qed.

(* ---------- route codes: push and pop ---------- *)
Lemma first_seg_route_code c r : first_seg (route_code c r) = Some c.
Proof. destruct r; reflexivity. Qed.

Lemma strip_route_code c r : route_wf r = true -> strip_first (route_code c r) = r.
Proof. destruct r as [[|s l]|]; simpl; intro H; [discriminate | reflexivity | reflexivity]. Qed.

Lemma route_code_strip p r : first_seg r = Some p -> route_code p (strip_first r) = r.
Proof.
  destruct r as [[|s [|t l]]|]; simpl; intro H; try discriminate; injection H as ->; reflexivity.
Qed.

Lemma strip_wf r : route_wf (strip_first r) = true.
Proof. destruct r as [[|s [|t l]]|]; reflexivity. Qed.

Lemma route_code_wf c r : route_wf (route_code c r) = true.
Proof. destruct r; reflexivity. Qed.

Lemma route_code_inj p r r' :
  route_wf r = true -> route_wf r' = true -> route_code p r = route_code p r' -> r = r'.
Proof. intros H H' E. rewrite <- (strip_route_code p r H), <- (strip_route_code p r' H'), E. reflexivity. Qed.

Lemma push_all_snoc via c r : push_all (via ++ [c]) r = route_code c (push_all via r).
Proof. unfold push_all. rewrite fold_left_app. reflexivity. Qed.

Lemma push_all_wf via r : route_wf r = true -> route_wf (push_all via r) = true.
Proof.
  induction via as [|c via IH] using rev_ind; intro H; [exact H|].
  rewrite push_all_snoc. apply route_code_wf.
Qed.

Lemma set_route_set_route e a b : set_route (set_route e a) b = set_route e b.
Proof. reflexivity. Qed.
Lemma set_route_same e : set_route e (e_route e) = e.
Proof. destruct e; reflexivity. Qed.
Lemma e_route_set_route e a : e_route (set_route e a) = a.
Proof. reflexivity. Qed.
Lemma e_id_set_route e a : e_id (set_route e a) = e_id e.
Proof. reflexivity. Qed.

(* one consuming router undoes one StreamToQueue *)
Lemma pop_one c e rest r :
  route_wf r = true ->
  pop_chain (c :: rest) (set_route e (route_code c r)) = pop_chain rest (set_route e r).
Proof.
  intro H. simpl. unfold route_status. simpl.
  rewrite first_seg_route_code. simpl. rewrite Nat.eqb_refl.
  rewrite strip_route_code by exact H. reflexivity.
Qed.

Theorem roundtrip_id via e : route_wf (e_route e) = true -> roundtrip via e = e.
Proof.
  intro H. unfold roundtrip, pushed. induction via as [|c via IH] using rev_ind.
  - simpl. apply set_route_same.
  - rewrite rev_app_distr, push_all_snoc. simpl rev. simpl app.
    rewrite pop_one by (apply push_all_wf; exact H). exact IH.
Qed.

(* ---------- dictionaries ---------- *)
Lemma get_put {K V} (eqb : K -> K -> bool) (Heq : forall a b, eqb a b = true <-> a = b) (k k' : K) (v : V) d :
  get eqb k (put eqb k' v d) = if eqb k k' then Some v else get eqb k d.
Proof.
  induction d as [|[k0 v0] r IH]; simpl.
  - reflexivity.
  - destruct (eqb k' k0) eqn:E1; simpl.
    + apply Heq in E1. subst k0. destruct (eqb k k'); reflexivity.
    + destruct (eqb k k0) eqn:E2.
      * apply Heq in E2. subst k0. destruct (eqb k k') eqn:E3; [|reflexivity].
        apply Heq in E3. subst k'. assert (eqb k k = true) by (apply Heq; reflexivity). congruence.
      * exact IH.
Qed.

(* ---------- what the history says, one more call later ---------- *)
Lemma registered_snoc i past o : registered i (past ++ [o]) = registered i past ++ registration o.
Proof. unfold registered. rewrite flat_map_app. simpl. rewrite app_nil_r, app_assoc. reflexivity. Qed.

Lemma in_run_snoc past o :
  in_run (past ++ [o]) = match o with Start => true | Stop => false | _ => in_run past end.
Proof. unfold in_run. rewrite fold_left_app. reflexivity. Qed.

Lemma prefix_rules_snoc past o p :
  prefix_rules (past ++ [o]) p
  = prefix_rules past p ++ match o with AddPrefix s q c _ => if Nat.eqb q p then [(s, c)] else [] | _ => [] end.
Proof. unfold prefix_rules. rewrite flat_map_app. simpl. rewrite app_nil_r. reflexivity. Qed.

Lemma id_rules_snoc past o t :
  id_rules (past ++ [o]) t
  = id_rules past t ++ match o with AddId s u _ => if id_eqb u t then [s] else [] | _ => [] end.
Proof. unfold id_rules. rewrite flat_map_app. simpl. rewrite app_nil_r. reflexivity. Qed.

(* ---------- the rule in force ---------- *)
Lemma current_snoc {A} (l : list A) x : current (l ++ [x]) = Some x.
Proof. unfold current. rewrite rev_app_distr. reflexivity. Qed.
Lemma current_none {A} (l : list A) : current l = None -> l = [].
Proof. unfold current. destruct l as [|x l]; [reflexivity|]. simpl. destruct (rev l); simpl; discriminate. Qed.
Lemma current_in {A} (l : list A) x : current l = Some x -> In x l.
Proof.
  unfold current. intro H. apply in_rev. destruct (rev l); simpl in H; [discriminate|].
  injection H as ->. left; reflexivity.
Qed.

(* ---------- the invariant: the router's fields are functions of the history ---------- *)
Record Inv (i : input) (past : list op) (r : router) : Prop := {
  inv_fb : r_fallback r = fb i;
  inv_pre : forall p, get Nat.eqb p (r_prefixes r) = current (prefix_rules past p);
  inv_ids : forall t, get id_eqb t (r_ids r) = current (id_rules past t);
  inv_sinks : r_sinks r = registered i past;
  inv_run : r_in_run r = in_run past }.

Lemma inv_init i : Inv i [] (init (fb i) (fb_ss i)).
Proof.
  constructor; simpl; try reflexivity.
  unfold registered. simpl. rewrite app_nil_r. reflexivity.
Qed.

Lemma register_fields r s ss :
  let r' := fst (register r s ss) in
  r_fallback r' = r_fallback r /\ r_prefixes r' = r_prefixes r /\ r_ids r' = r_ids r
  /\ r_sinks r' = r_sinks r ++ (if ss then [s] else []) /\ r_in_run r' = r_in_run r.
Proof. unfold register. destruct ss; simpl; rewrite ?app_nil_r; repeat split. Qed.

Lemma inv_step i past r o : Inv i past r -> Inv i (past ++ [o]) (fst (step r o)).
Proof.
  intros [Hfb Hpre Hids Hsinks Hrun].
  destruct o as [s p c ss | s t ss | | | via e | s w ss]; simpl.
  - (* AddPrefix *)
    destruct (register (with_rules r (put Nat.eqb p (s, c) (r_prefixes r)) (r_ids r)) s ss) as [r' d] eqn:E.
    pose proof (register_fields (with_rules r (put Nat.eqb p (s, c) (r_prefixes r)) (r_ids r)) s ss) as F.
    rewrite E in F. simpl in F. destruct F as (F1 & F2 & F3 & F4 & F5). simpl.
    constructor.
    + rewrite F1. exact Hfb.
    + intro q. rewrite F2, (get_put Nat.eqb Nat.eqb_eq), prefix_rules_snoc.
      rewrite (Nat.eqb_sym q p). destruct (Nat.eqb p q).
      * rewrite current_snoc. reflexivity.
      * rewrite app_nil_r. apply Hpre.
    + intro u. rewrite F3, id_rules_snoc, app_nil_r. apply Hids.
    + rewrite F4, registered_snoc, Hsinks. destruct ss; reflexivity.
    + rewrite F5, in_run_snoc. exact Hrun.
  - (* AddId *)
    destruct (register (with_rules r (r_prefixes r) (put id_eqb t s (r_ids r))) s ss) as [r' d] eqn:E.
    pose proof (register_fields (with_rules r (r_prefixes r) (put id_eqb t s (r_ids r))) s ss) as F.
    rewrite E in F. simpl in F. destruct F as (F1 & F2 & F3 & F4 & F5). simpl.
    constructor.
    + rewrite F1. exact Hfb.
    + intro q. rewrite F2, prefix_rules_snoc, app_nil_r. apply Hpre.
    + intro u. rewrite F3, (get_put id_eqb id_eqb_spec), id_rules_snoc.
      destruct (id_eqb u t) eqn:E1.
      * apply id_eqb_spec in E1. subst u. replace (id_eqb t t) with true by (symmetry; apply id_eqb_spec; reflexivity).
        rewrite current_snoc. reflexivity.
      * replace (id_eqb t u) with false.
        -- rewrite app_nil_r. apply Hids.
        -- symmetry. destruct (id_eqb t u) eqn:E2; [|reflexivity].
           apply id_eqb_spec in E2. subst u.
           assert (id_eqb t t = true) by (apply id_eqb_spec; reflexivity). congruence.
    + rewrite F4, registered_snoc, Hsinks. destruct ss; reflexivity.
    + rewrite F5, in_run_snoc. exact Hrun.
  - (* Start *)
    constructor; simpl; try assumption.
    + intro q. rewrite prefix_rules_snoc, app_nil_r. apply Hpre.
    + intro u. rewrite id_rules_snoc, app_nil_r. apply Hids.
    + rewrite registered_snoc. simpl. rewrite app_nil_r. exact Hsinks.
    + rewrite in_run_snoc. reflexivity.
  - (* Stop *)
    constructor; simpl; try assumption.
    + intro q. rewrite prefix_rules_snoc, app_nil_r. apply Hpre.
    + intro u. rewrite id_rules_snoc, app_nil_r. apply Hids.
    + rewrite registered_snoc. simpl. rewrite app_nil_r. exact Hsinks.
    + rewrite in_run_snoc. reflexivity.
  - (* Status: the router is unchanged *)
    assert (Inv i (past ++ [Status via e]) r).
    { constructor; try assumption.
      + intro q. rewrite prefix_rules_snoc, app_nil_r. apply Hpre.
      + intro u. rewrite id_rules_snoc, app_nil_r. apply Hids.
      + rewrite registered_snoc. simpl. rewrite app_nil_r. exact Hsinks.
      + rewrite in_run_snoc. exact Hrun. }
    destruct (route_status r (pushed via e)) as [[t e']|]; exact H.
  - (* AddRej: the router is unchanged, and the history functions skip the call *)
    constructor; try assumption.
    + intro q. rewrite prefix_rules_snoc, app_nil_r. apply Hpre.
    + intro u. rewrite id_rules_snoc, app_nil_r. apply Hids.
    + rewrite registered_snoc. simpl. rewrite app_nil_r. exact Hsinks.
    + rewrite in_run_snoc. exact Hrun.
Qed.

(* ---------- sinks named by rules exist ---------- *)
Lemma prefix_rules_sinks past p s c : In (s, c) (prefix_rules past p) -> In s (flat_map op_sinks past).
Proof.
  unfold prefix_rules. intro H. apply in_flat_map in H as [o [Ho H]]. apply in_flat_map. exists o. split; [exact Ho|].
  destruct o as [s' q c' ss| | | | |]; simpl in *; try contradiction.
  destruct (Nat.eqb q p); simpl in H; [|contradiction]. destruct H as [H|[]]. injection H as -> _. left; reflexivity.
Qed.

Lemma id_rules_sinks past t s : In s (id_rules past t) -> In s (flat_map op_sinks past).
Proof.
  unfold id_rules. intro H. apply in_flat_map in H as [o [Ho H]]. apply in_flat_map. exists o. split; [exact Ho|].
  destruct o as [|s' u ss| | | |]; simpl in *; try contradiction.
  destruct (id_eqb u t); simpl in H; [|contradiction]. destruct H as [H|[]]. left; exact H.
Qed.

(* ---------- each call of the model meets its clause of the statement ---------- *)
Lemma nonempty_in {A} (x : A) l : In x l -> exists y r, l = y :: r.
Proof. destruct l as [|y r]; [intros []|]. intros _. exists y, r. reflexivity. Qed.

Lemma by_id_ok i past r e0 :
  Inv i past r ->
  by_id_or_fallback i past e0
    (to_obs (n_sinks i)
       (match get id_eqb (e_id e0) (r_ids r) with
        | Some t => (false, [(t, St e0)])
        | None => match r_fallback r with Some t => (false, [(t, St e0)]) | None => (true, []) end
        end)) = true.
Proof.
  intros [Hfb _ Hids _ _]. unfold by_id_or_fallback.
  rewrite <- (Hids (e_id e0)). destruct (get id_eqb (e_id e0) (r_ids r)) as [t|].
  - simpl. apply per_sink_ok. intros k _. apply calls_for_one.
  - rewrite Hfb. destruct (fb i) as [f|]; simpl.
    + apply per_sink_ok. intros k _. apply calls_for_one.
    + apply per_sink_ok. intros k _. reflexivity.
Qed.

Lemma status_ok i past r via e :
  Inv i past r ->
  (forall s, In s (flat_map op_sinks past) -> s < n_sinks i) ->
  status_okb i past via e (to_obs (n_sinks i) (snd (step r (Status via e)))) = true.
Proof.
  intros HI Hrange. pose proof (fun e0 => by_id_ok i past r e0 HI) as Hrest. destruct HI as [Hfb Hpre Hids _ _].
  unfold status_okb. simpl step. generalize (pushed via e). intro e0. specialize (Hrest e0).
  unfold route_status.
  destruct (first_seg (e_route e0)) as [p|] eqn:Ep.
  - specialize (Hpre p). rewrite <- Hpre. destruct (get Nat.eqb p (r_prefixes r)) as [[t c]|] eqn:G.
    + (* the prefix rule in force *)
      symmetry in Hpre. apply current_in in Hpre. simpl.
      assert (Ht : t < n_sinks i) by (apply Hrange; eapply prefix_rules_sinks; exact Hpre).
      unfold handed. simpl fst. simpl snd.
      destruct (per_sink_new_is (n_sinks i)
                  [(t, St (if c then set_route e0 (strip_first (e_route e0)) else e0))]) as [_ Hn].
      rewrite (Hn t Ht), calls_for_one. unfold only at 1. rewrite Nat.eqb_refl.
      apply andb_true_iff. split.
      * unfold rel_okb, same_but_route. destruct c.
        -- rewrite set_route_set_route, set_route_same, e_route_set_route, strip_wf.
           rewrite (route_code_strip p _ Ep).
           replace (event_eqb e0 e0) with true by (symmetry; apply event_eqb_spec; reflexivity).
           replace (route_eqb (e_route e0) (e_route e0)) with true by (symmetry; apply route_eqb_spec; reflexivity).
           reflexivity.
        -- rewrite set_route_same.
           replace (event_eqb e0 e0) with true by (symmetry; apply event_eqb_spec; reflexivity).
           replace (route_eqb (e_route e0) (e_route e0)) with true by (symmetry; apply route_eqb_spec; reflexivity).
           reflexivity.
      * apply per_sink_ok. intros k _. apply calls_for_one.
    + (* no rule for that prefix *)
      destruct (get id_eqb (e_id e0) (r_ids r)) as [t|]; [simpl snd; exact Hrest|].
      destruct (r_fallback r); simpl snd; exact Hrest.
  - destruct (get id_eqb (e_id e0) (r_ids r)) as [t|]; [simpl snd; exact Hrest|].
    destruct (r_fallback r); simpl snd; exact Hrest.
Qed.

Lemma add_ok i past r0 s ss :
  r_in_run r0 = in_run past ->
  negb (fst (snd (let (r', d) := register r0 s ss in (r', (false, d)))))
  && new_is (n_sinks i) (if ss && in_run past then only s StartRun else nobody)
       (per_sink (n_sinks i) (snd (snd (let (r', d) := register r0 s ss in (r', (false, d)))))) = true.
Proof.
  intro Hrun. unfold register. rewrite Hrun. destruct ss; simpl.
  - destruct (in_run past); apply per_sink_ok; intros k _; [apply calls_for_one | reflexivity].
  - apply per_sink_ok; intros k _; reflexivity.
Qed.

Lemma step_ok i past r o :
  Inv i past r ->
  (forall s, In s (flat_map op_sinks past) -> s < n_sinks i) ->
  step_okb i past o (to_obs (n_sinks i) (snd (step r o))) = true.
Proof.
  intros HI Hrange.
  destruct o as [s p c ss | s t ss | | | via e | s w ss].
  - unfold step_okb, to_obs, step.
    apply (add_ok i past (with_rules r (put Nat.eqb p (s, c) (r_prefixes r)) (r_ids r)) s ss).
    simpl. apply (inv_run _ _ _ HI).
  - unfold step_okb, to_obs, step.
    apply (add_ok i past (with_rules r (r_prefixes r) (put id_eqb t s (r_ids r))) s ss).
    simpl. apply (inv_run _ _ _ HI).
  - simpl. apply per_sink_ok. intros k _. rewrite (inv_sinks _ _ _ HI). apply calls_for_map.
  - simpl. apply per_sink_ok. intros k _. rewrite (inv_sinks _ _ _ HI). apply calls_for_map.
  - apply status_ok; assumption.
  - simpl. apply per_sink_ok. intros k _. reflexivity.
Qed.

Lemma run_ok i : forall l past r,
  Inv i past r ->
  (forall s, In s (flat_map op_sinks (past ++ l)) -> s < n_sinks i) ->
  steps_okb i past l (map (to_obs (n_sinks i)) (run r l)) = true.
Proof.
  induction l as [|o l IH]; intros past r HI Hrange; simpl; [reflexivity|].
  pose proof (step_ok i past r o HI) as Hs. pose proof (inv_step i past r o HI) as HI'.
  destruct (step r o) as [r' out]. simpl in *.
  apply andb_true_iff. split.
  - apply Hs. intros s Hin. apply Hrange. rewrite flat_map_app. apply in_or_app. left; exact Hin.
  - apply IH; [exact HI' |].
    intros s Hin. apply Hrange. rewrite <- app_assoc in Hin. exact Hin.
Qed.

Lemma round_ok l :
  forallb route_wf (status_routes l) = true ->
  flat_map (fun o => match o with Status via e => [e_route (roundtrip via e)] | _ => [] end) l = status_routes l.
Proof.
  unfold status_routes. induction l as [|o l IH]; simpl; [reflexivity|].
  destruct o as [| | | |via e|]; simpl; try exact IH.
  rewrite andb_true_iff. intros [H1 H2]. rewrite roundtrip_id by exact H1. rewrite IH by exact H2. reflexivity.
Qed.

Theorem model_meets_spec_base i : wf_base i -> spec_okb i (model i) = true.
Proof.
  unfold wf_base, wf_baseb. rewrite andb_true_iff, forallb_forall. intros [Hs Hr].
  unfold spec_okb, model. simpl. apply andb_true_iff. split.
  - apply run_ok.
    + apply inv_init.
    + intros s Hin. apply Nat.ltb_lt. apply Hs. unfold all_sinks. apply in_or_app. right. exact Hin.
  - rewrite round_ok by exact Hr. apply (list_eqb_spec _ route_eqb_spec). reflexivity.
Qed.

(* ---------- the executable statement implies the readable one ---------- *)
Lemma rel_okb_sound c p e d : rel_okb c p e d = true -> Rel c p e d.
Proof.
  unfold rel_okb, Rel, same_but_route. rewrite andb_true_iff, event_eqb_spec. intros [H1 H2]. split; [exact H1|].
  destruct c.
  - apply andb_true_iff in H2 as [H2 H3]. apply route_eqb_spec in H3. split; [|exact H3].
    intro E. rewrite E in H2. discriminate.
  - apply route_eqb_spec. exact H2.
Qed.

Lemma by_id_sound i past e0 so :
  by_id_or_fallback i past e0 so = true ->
  (forall s, current (id_rules past (e_id e0)) = Some s ->
     s_raised so = false /\ New_is (n_sinks i) (only s (St e0)) (s_new so))
  /\ (current (id_rules past (e_id e0)) = None ->
     match fb i with
     | Some f => s_raised so = false /\ New_is (n_sinks i) (only f (St e0)) (s_new so)
     | None => s_raised so = true /\ New_is (n_sinks i) nobody (s_new so)
     end).
Proof.
  unfold by_id_or_fallback. destruct (current (id_rules past (e_id e0))) as [y|] eqn:E.
  - intro H. split; [|discriminate]. intros s Es. injection Es as <-.
    apply andb_true_iff in H as [H1 H2]. split; [apply negb_true_iff; exact H1|]. apply new_is_spec. exact H2.
  - intro H. split; [discriminate|]. intros _.
    destruct (fb i); apply andb_true_iff in H as [H1 H2]; apply new_is_spec in H2; split; try exact H2.
    + apply negb_true_iff. exact H1.
    + exact H1.
Qed.

Lemma status_okb_sound i past via e so : status_okb i past via e so = true -> Status_spec i past via e so.
Proof.
  unfold status_okb, Status_spec. generalize (pushed via e). intro e0. cbv zeta.
  destruct (first_seg (e_route e0)) as [p|] eqn:Ep.
  - destruct (current (prefix_rules past p)) as [[s c]|] eqn:Er.
    + intro H. apply andb_true_iff in H as [H1 H2]. split; [|split].
      * intros q s' c' Hq Hc. injection Hq as <-. rewrite Er in Hc. injection Hc as <- <-.
        split; [apply negb_true_iff; exact H1|].
        unfold handed in H2. simpl in H2.
        destruct (nth s (s_new so) []) as [|[| |d] [|? ?]]; try discriminate.
        apply andb_true_iff in H2 as [H2 H3]. exists d.
        split; [apply rel_okb_sound; exact H2 | apply new_is_spec; exact H3].
      * intro N. specialize (N p eq_refl). rewrite Er in N. discriminate.
      * intro N. specialize (N p eq_refl). rewrite Er in N. discriminate.
    + intro H. apply by_id_sound in H as [H1 H2]. split; [|split].
      * intros q s' c' Hq Hc. injection Hq as <-. rewrite Er in Hc. discriminate.
      * intros _. exact H1.
      * intros _. exact H2.
  - intro H. apply by_id_sound in H as [H1 H2]. split; [|split].
    + intros q s' c' Hq. discriminate.
    + intros _. exact H1.
    + intros _. exact H2.
Qed.

Lemma step_okb_sound i past o so : step_okb i past o so = true -> Step_spec i past o so.
Proof.
  destruct o as [s p c ss | s t ss | | | via e | s w ss]; simpl;
    try (rewrite andb_true_iff, negb_true_iff, new_is_spec; intros [H1 H2]; split; assumption).
  - apply status_okb_sound.
  - rewrite andb_true_iff, new_is_spec. intros [H1 H2]; split; assumption.
Qed.

Lemma steps_okb_sound i : forall l past os,
  steps_okb i past l os = true ->
  length os = length l
  /\ forall k o so, nth_error l k = Some o -> nth_error os k = Some so -> Step_spec i (past ++ firstn k l) o so.
Proof.
  induction l as [|o l IH]; intros past [|so os]; simpl; try discriminate.
  - intros _. split; [reflexivity|]. intros [|k] ? ?; discriminate.
  - rewrite andb_true_iff. intros [H1 H2]. apply IH in H2 as [L H2]. split; [f_equal; exact L|].
    intros [|k] o' so' Ho Hso; simpl in *.
    + injection Ho as <-. injection Hso as <-. rewrite app_nil_r. apply step_okb_sound. exact H1.
    + specialize (H2 k o' so' Ho Hso). rewrite <- app_assoc in H2. exact H2.
Qed.

Theorem spec_okb_sound i o : spec_okb i o = true -> Spec i o.
Proof.
  unfold spec_okb, Spec. rewrite andb_true_iff. intros [H1 H2].
  apply steps_okb_sound in H1 as [L H1]. split; [exact L|]. split; [exact H1|].
  apply (list_eqb_spec _ route_eqb_spec). exact H2.
Qed.

(* ---------- one rule per key: the history determines the rule ---------- *)
Lemma nodupb_NoDup {A} (eqb : A -> A -> bool) (Heq : forall a b, eqb a b = true <-> a = b) l :
  nodupb eqb l = true -> NoDup l.
Proof.
  induction l as [|x r IH]; simpl; [constructor|].
  rewrite andb_true_iff, negb_true_iff. intros [H1 H2]. constructor; [|apply IH; exact H2].
  intro Hin. assert (existsb (eqb x) r = true); [|congruence].
  apply existsb_exists. exists x. split; [exact Hin | apply Heq; reflexivity].
Qed.

Lemma prefix_rules_absent l p : ~ In p (prefix_keys l) -> prefix_rules l p = [].
Proof.
  induction l as [|o l IH]; simpl; [reflexivity|]. intro N.
  unfold prefix_keys in N. simpl in N. fold (prefix_keys l) in N.
  destruct o as [s q c ss| | | | |]; simpl in *; try (apply IH; exact N).
  destruct (Nat.eqb q p) eqn:E.
  - apply Nat.eqb_eq in E. exfalso. apply N. left; exact E.
  - simpl. apply IH. intro H. apply N. right; exact H.
Qed.

Lemma prefix_rules_unique l p : NoDup (prefix_keys l) -> length (prefix_rules l p) <= 1.
Proof.
  induction l as [|o l IH]; simpl; [lia|]. intro N.
  unfold prefix_keys in N. simpl in N. fold (prefix_keys l) in N.
  destruct o as [s q c ss| | | | |]; simpl in *; try (apply IH; exact N).
  inversion N as [|? ? N1 N2]; subst.
  destruct (Nat.eqb q p) eqn:E.
  - apply Nat.eqb_eq in E. subst q. simpl. rewrite (prefix_rules_absent l p N1). simpl. lia.
  - simpl. apply IH. exact N2.
Qed.

Lemma id_rules_absent l t : ~ In t (id_keys l) -> id_rules l t = [].
Proof.
  induction l as [|o l IH]; simpl; [reflexivity|]. intro N.
  unfold id_keys in N. simpl in N. fold (id_keys l) in N.
  destruct o as [|s u ss| | | |]; simpl in *; try (apply IH; exact N).
  destruct (id_eqb u t) eqn:E.
  - apply id_eqb_spec in E. exfalso. apply N. left; exact E.
  - simpl. apply IH. intro H. apply N. right; exact H.
Qed.

Lemma id_rules_unique l t : NoDup (id_keys l) -> length (id_rules l t) <= 1.
Proof.
  induction l as [|o l IH]; simpl; [lia|]. intro N.
  unfold id_keys in N. simpl in N. fold (id_keys l) in N.
  destruct o as [|s u ss| | | |]; simpl in *; try (apply IH; exact N).
  inversion N as [|? ? N1 N2]; subst.
  destruct (id_eqb u t) eqn:E.
  - apply id_eqb_spec in E. subst u. simpl. rewrite (id_rules_absent l t N1). simpl. lia.
  - simpl. apply IH. exact N2.
Qed.

Lemma single {A} (x : A) l : In x l -> length l <= 1 -> l = [x].
Proof.
  destruct l as [|y [|z r]]; simpl; [intros [] | | intros _ H; lia].
  intros [->|[]] _. reflexivity.
Qed.

Lemma prefix_rules_of_op past s p c ss : In (AddPrefix s p c ss) past -> In (s, c) (prefix_rules past p).
Proof.
  intro H. unfold prefix_rules. apply in_flat_map. exists (AddPrefix s p c ss). split; [exact H|].
  rewrite Nat.eqb_refl. left; reflexivity.
Qed.
Lemma prefix_rules_to_op past s p c : In (s, c) (prefix_rules past p) -> exists ss, In (AddPrefix s p c ss) past.
Proof.
  unfold prefix_rules. intro H. apply in_flat_map in H as [o [Ho H]].
  destruct o as [s' q c' ss| | | | |]; simpl in H; try contradiction.
  destruct (Nat.eqb q p) eqn:E; simpl in H; [|contradiction]. apply Nat.eqb_eq in E. subst q.
  destruct H as [H|[]]. injection H as -> ->. exists ss. exact Ho.
Qed.
Lemma id_rules_of_op past s t ss : In (AddId s t ss) past -> In s (id_rules past t).
Proof.
  intro H. unfold id_rules. apply in_flat_map. exists (AddId s t ss). split; [exact H|].
  replace (id_eqb t t) with true by (symmetry; apply id_eqb_spec; reflexivity). left; reflexivity.
Qed.
Lemma id_rules_to_op past s t : In s (id_rules past t) -> exists ss, In (AddId s t ss) past.
Proof.
  unfold id_rules. intro H. apply in_flat_map in H as [o [Ho H]].
  destruct o as [|s' u ss| | | |]; simpl in H; try contradiction.
  destruct (id_eqb u t) eqn:E; simpl in H; [|contradiction]. apply id_eqb_spec in E. subst u.
  destruct H as [H|[]]. subst s'. exists ss. exact Ho.
Qed.

Lemma NoDup_app_l {A} (a b : list A) : NoDup (a ++ b) -> NoDup a.
Proof.
  induction a as [|x a IH]; simpl; intro H; [constructor|].
  inversion H as [|? ? H1 H2]; subst. constructor; [|apply IH; exact H2].
  intro Hin. apply H1. apply in_or_app. left; exact Hin.
Qed.

Lemma NoDup_firstn_keys {A} (f : op -> list A) l k : NoDup (flat_map f l) -> NoDup (flat_map f (firstn k l)).
Proof.
  intro H. rewrite <- (firstn_skipn k l), flat_map_app in H. apply NoDup_app_l in H. exact H.
Qed.

Lemma rel_unique c p e d :
  first_seg (e_route e) = Some p -> Rel c p e d -> d = if c then set_route e (strip_first (e_route e)) else e.
Proof.
  intros Hp [H1 H2]. destruct c.
  - destruct H2 as [H2 H3].
    assert (E : e_route d = strip_first (e_route e)).
    { apply (route_code_inj p).
      - destruct (e_route d) as [[|? ?]|]; try reflexivity. exfalso. apply H2. reflexivity.
      - apply strip_wf.
      - rewrite H3, (route_code_strip p _ Hp). reflexivity. }
    transitivity (set_route (set_route d (e_route e)) (e_route d)).
    + rewrite set_route_set_route, set_route_same. reflexivity.
    + rewrite H1, E. reflexivity.
  - rewrite <- H1, <- H2. symmetry. apply set_route_same.
Qed.

Lemma nth_error_model_step i k so :
  nth_error (o_steps (model i)) k = Some so -> wf_base i ->
  forall o, nth_error (ops i) k = Some o -> Step_spec i (firstn k (ops i)) o so.
Proof.
  intros Hso Hwf o Ho. pose proof (spec_okb_sound i (model i) (model_meets_spec_base i Hwf)) as (_ & H & _).
  exact (H k o so Ho Hso).
Qed.

Lemma prefix_rules_split l1 l2 s p c ss :
  prefix_rules l2 p = [] -> current (prefix_rules (l1 ++ AddPrefix s p c ss :: l2) p) = Some (s, c).
Proof.
  intro H. unfold prefix_rules in *. rewrite flat_map_app. simpl. rewrite Nat.eqb_refl, H. simpl.
  apply current_snoc.
Qed.
Lemma id_rules_split l1 l2 s t ss :
  id_rules l2 t = [] -> current (id_rules (l1 ++ AddId s t ss :: l2) t) = Some s.
Proof.
  intro H. unfold id_rules in *. rewrite flat_map_app. simpl.
  replace (id_eqb t t) with true by (symmetry; apply id_eqb_spec; reflexivity). rewrite H. simpl.
  apply current_snoc.
Qed.

(* no hypothesis on the rule set: keys may be re-mapped, sinks may serve several rules *)
Theorem one_sink_base i : wf_base i -> forall k via e so,
  nth_error (ops i) k = Some (Status via e) -> nth_error (o_steps (model i)) k = Some so ->
  let past := firstn k (ops i) in
  let e0 := pushed via e in
  let n := n_sinks i in
  let no_prefix_rule := forall s p c ss, In (AddPrefix s p c ss) past -> first_seg (e_route e0) <> Some p in
  let no_id_rule := forall s ss, ~ In (AddId s (e_id e0) ss) past in
  (forall l1 l2 s p c ss, past = l1 ++ AddPrefix s p c ss :: l2 -> prefix_rules l2 p = [] ->
     first_seg (e_route e0) = Some p ->
     s_raised so = false
     /\ New_is n (only s (St (if c then set_route e0 (strip_first (e_route e0)) else e0))) (s_new so))
  /\ (no_prefix_rule -> forall l1 l2 s ss, past = l1 ++ AddId s (e_id e0) ss :: l2 -> id_rules l2 (e_id e0) = [] ->
     s_raised so = false /\ New_is n (only s (St e0)) (s_new so))
  /\ (no_prefix_rule -> no_id_rule -> forall f, fb i = Some f ->
     s_raised so = false /\ New_is n (only f (St e0)) (s_new so))
  /\ (no_prefix_rule -> no_id_rule -> fb i = None ->
     s_raised so = true /\ New_is n nobody (s_new so)).
Proof.
  intros Hwf k via e so Ho Hso past e0 n no_prefix_rule no_id_rule.
  pose proof (nth_error_model_step i k so Hso Hwf _ Ho) as HS. simpl in HS.
  unfold Status_spec in HS. fold past e0 n in HS. cbv zeta in HS. destruct HS as (HS1 & HS2 & HS3).
  assert (NP : no_prefix_rule -> forall p, first_seg (e_route e0) = Some p -> current (prefix_rules past p) = None).
  { intros N p Hp. destruct (current (prefix_rules past p)) as [[s c]|] eqn:E; [|reflexivity]. exfalso.
    destruct (prefix_rules_to_op past s p c) as [ss Hin]; [apply current_in; exact E|].
    exact (N s p c ss Hin Hp). }
  assert (NI : no_id_rule -> current (id_rules past (e_id e0)) = None).
  { intros N. destruct (current (id_rules past (e_id e0))) as [s|] eqn:E; [|reflexivity]. exfalso.
    destruct (id_rules_to_op past s (e_id e0)) as [ss Hin]; [apply current_in; exact E|].
    exact (N s ss Hin). }
  split; [|split; [|split]].
  - intros l1 l2 s p c ss Hpast Hl2 Hp.
    destruct (HS1 p s c Hp) as [R (d & HR & HN)]; [rewrite Hpast; apply prefix_rules_split; exact Hl2|].
    split; [exact R|]. rewrite <- (rel_unique c p e0 d Hp HR). exact HN.
  - intros N l1 l2 s ss Hpast Hl2. apply (HS2 (NP N)). rewrite Hpast. apply id_rules_split. exact Hl2.
  - intros N1 N2 f Hf. specialize (HS3 (NP N1) (NI N2)). rewrite Hf in HS3. exact HS3.
  - intros N1 N2 Hf. specialize (HS3 (NP N1) (NI N2)). rewrite Hf in HS3. exact HS3.
Qed.

(* ---------- startTestRun / stopTestRun ---------- *)
Lemma count_app s a b : count s (a ++ b) = count s a + count s b.
Proof. unfold count. apply count_occ_app. Qed.

Lemma count_registration_le s l : count s (flat_map registration l) <= count s (flat_map op_sinks l).
Proof.
  induction l as [|o l IH]; simpl; [lia|]. rewrite !count_app.
  assert (count s (registration o) <= count s (op_sinks o)); [|lia].
  destruct o as [s' p c [|]|s' t [|]| | | |]; simpl; try lia; destruct (Nat.eq_dec s' s); lia.
Qed.

Lemma count_firstn_le {A} (f : A -> list sink) s l k : count s (flat_map f (firstn k l)) <= count s (flat_map f l).
Proof.
  rewrite <- (firstn_skipn k l) at 2. rewrite flat_map_app, count_app. lia.
Qed.

Lemma registered_count_le i k s : count s (registered i (firstn k (ops i))) <= count s (all_sinks i).
Proof.
  unfold registered, all_sinks. rewrite !count_app.
  pose proof (count_registration_le s (firstn k (ops i))).
  pose proof (count_firstn_le op_sinks s (ops i) k).
  assert (count s match fb i with Some s0 => if fb_ss i then [s0] else [] | None => [] end
          <= count s match fb i with Some s0 => [s0] | None => [] end); [|lia].
  destruct (fb i); [destruct (fb_ss i)|]; simpl; lia.
Qed.

Lemma count_memb s l : count s l <= 1 -> repeat StartRun (count s l) = (if memb s l then [StartRun] else [])
                                      /\ repeat StopRun (count s l) = (if memb s l then [StopRun] else []).
Proof.
  intro H. destruct (memb s l) eqn:M.
  - assert (count s l = 1) as ->; [|split; reflexivity].
    apply existsb_exists in M as [x [Hx E]]. apply Nat.eqb_eq in E. subst x.
    apply (count_occ_In Nat.eq_dec) in Hx. unfold count in *. lia.
  - assert (count s l = 0) as ->; [|split; reflexivity].
    apply (count_occ_not_In Nat.eq_dec). intro Hx.
    assert (memb s l = true); [|congruence].
    apply existsb_exists. exists s. split; [exact Hx | apply Nat.eqb_refl].
Qed.

Lemma status_spec_no_start_stop i past via e so s :
  Status_spec i past via e so -> s < n_sinks i -> filter is_start_stop (nth s (s_new so) []) = [].
Proof.
  unfold Status_spec. generalize (pushed via e). intro e0. cbv zeta. intros (H1 & H2 & H3) Hs.
  assert (Honly : forall t c, New_is (n_sinks i) (only t (St c)) (s_new so) ->
                              filter is_start_stop (nth s (s_new so) []) = []).
  { intros t c [_ HN]. rewrite (HN s Hs). unfold only. destruct (Nat.eqb s t); reflexivity. }
  assert (Hrest : (forall p, first_seg (e_route e0) = Some p -> current (prefix_rules past p) = None) ->
                  filter is_start_stop (nth s (s_new so) []) = []).
  { intro N. destruct (current (id_rules past (e_id e0))) as [y|] eqn:Ei.
    - destruct (H2 N y eq_refl) as [_ HN]. exact (Honly _ _ HN).
    - specialize (H3 N eq_refl). destruct (fb i) as [f|].
      + destruct H3 as [_ HN]. exact (Honly _ _ HN).
      + destruct H3 as [_ [_ HN]]. rewrite (HN s Hs). reflexivity. }
  destruct (first_seg (e_route e0)) as [p|] eqn:Ep.
  - destruct (current (prefix_rules past p)) as [[t c]|] eqn:Er.
    + destruct (H1 p t c eq_refl Er) as [_ (d & _ & HN)]. exact (Honly _ _ HN).
    + apply Hrest. intros q Hq. injection Hq as <-. exact Er.
  - apply Hrest. intros q Hq. discriminate.
Qed.

Lemma filter_repeat_ss c n : is_start_stop c = true -> filter is_start_stop (repeat c n) = repeat c n.
Proof. intro H. induction n as [|n IH]; simpl; [reflexivity|]. rewrite H, IH. reflexivity. Qed.

Lemma registered_app_count i s past l :
  count s (registered i past) <= count s (registered i (past ++ l)).
Proof. unfold registered. rewrite flat_map_app, !count_app. lia. Qed.

Lemma reg_once_firstn i s k : reg_once i s -> count s (registered i (firstn k (ops i))) <= 1.
Proof.
  unfold reg_once. intro H. etransitivity; [|exact H].
  rewrite <- (firstn_skipn k (ops i)) at 2. apply registered_app_count.
Qed.

(* any rule set, any history: one startTestRun / stopTestRun per registration *)
Theorem start_stop_count i : wf_base i -> forall k o so s,
  nth_error (ops i) k = Some o -> nth_error (o_steps (model i)) k = Some so -> s < n_sinks i ->
  let past := firstn k (ops i) in
  filter is_start_stop (nth s (s_new so) []) =
    match o with
    | Start => repeat StartRun (count s (registered i past))
    | Stop => repeat StopRun (count s (registered i past))
    | AddPrefix s' _ _ ss | AddId s' _ ss => if Nat.eqb s' s && ss && in_run past then [StartRun] else []
    | Status _ _ => []
    | AddRej _ _ _ => []
    end.
Proof.
  intros Hwf k o so s Ho Hso Hs past.
  pose proof (nth_error_model_step i k so Hso Hwf _ Ho) as HS. fold past in HS.
  assert (Hadd : forall s' ss, s_raised so = false /\
                   New_is (n_sinks i) (if ss && in_run past then only s' StartRun else nobody) (s_new so) ->
                 filter is_start_stop (nth s (s_new so) []) = if Nat.eqb s' s && ss && in_run past then [StartRun] else []).
  { intros s' ss [_ [_ HN]]. rewrite (HN s Hs). rewrite (Nat.eqb_sym s' s), <- andb_assoc.
    destruct (ss && in_run past); [|rewrite andb_false_r; reflexivity].
    rewrite andb_true_r. unfold only. destruct (Nat.eqb s s'); reflexivity. }
  destruct o as [s' p c ss | s' t ss | | | via e | s' w ss]; simpl in HS.
  - apply Hadd. exact HS.
  - apply Hadd. exact HS.
  - destruct HS as [_ [_ HN]]. rewrite (HN s Hs). apply filter_repeat_ss. reflexivity.
  - destruct HS as [_ [_ HN]]. rewrite (HN s Hs). apply filter_repeat_ss. reflexivity.
  - eapply status_spec_no_start_stop; [exact HS | exact Hs].
  - destruct HS as [_ [_ HN]]. rewrite (HN s Hs). reflexivity.
Qed.

(* a sink asked to receive start/stop at most once - whatever rules it serves, re-mapped or not *)
Theorem start_stop_once i : wf_base i -> forall k o so s, reg_once i s ->
  nth_error (ops i) k = Some o -> nth_error (o_steps (model i)) k = Some so -> s < n_sinks i ->
  let past := firstn k (ops i) in
  filter is_start_stop (nth s (s_new so) []) =
    match o with
    | Start => if memb s (registered i past) then [StartRun] else []
    | Stop => if memb s (registered i past) then [StopRun] else []
    | AddPrefix s' _ _ ss | AddId s' _ ss => if Nat.eqb s' s && ss && in_run past then [StartRun] else []
    | Status _ _ => []
    | AddRej _ _ _ => []
    end.
Proof.
  intros Hwf k o so s Honce Ho Hso Hs past.
  rewrite (start_stop_count i Hwf k o so s Ho Hso Hs). fold past.
  destruct (count_memb s _ (reg_once_firstn i s k Honce)) as [C1 C2]. fold past in C1, C2.
  destruct o; try reflexivity; [exact C1 | exact C2].
Qed.

(* distinct sinks, one rule per key: every sink is registered at most once *)
Theorem distinct_once i : wf_distinct i -> forall s, reg_once i s.
Proof.
  intros Hd s. unfold wf_distinct, wf_distinctb in Hd. apply andb_true_iff in Hd as [Hd _]. apply andb_true_iff in Hd as [Hd _].
  apply (nodupb_NoDup _ Nat.eqb_eq) in Hd. unfold reg_once.
  rewrite <- (firstn_all (ops i)). etransitivity; [apply registered_count_le|].
  apply (NoDup_count_occ Nat.eq_dec). exact Hd.
Qed.

Lemma firstn_le_incl {A} (l : list A) : forall j k x, j <= k -> In x (firstn j l) -> In x (firstn k l).
Proof.
  induction l as [|y l IH]; intros j k x Hjk Hin.
  - rewrite firstn_nil in Hin. destruct Hin.
  - destruct j as [|j]; [destruct Hin|]. destruct k as [|k]; [lia|]. simpl in *.
    destruct Hin as [->|Hin]; [left; reflexivity | right; apply (IH j k); [lia | exact Hin]].
Qed.

(* once registered, registered for good; registration = the fallback flag or an add_rule with do_start_stop_run *)
Lemma registered_mono i j k s : j <= k ->
  memb s (registered i (firstn j (ops i))) = true -> memb s (registered i (firstn k (ops i))) = true.
Proof.
  intros Hjk H. apply existsb_exists in H as [x [Hx E]]. apply existsb_exists. exists x. split; [|exact E].
  unfold registered in *. apply in_app_or in Hx as [Hx|Hx]; apply in_or_app; [left; exact Hx|right].
  apply in_flat_map in Hx as [o [Ho Hx]]. apply in_flat_map. exists o. split; [|exact Hx].
  apply (firstn_le_incl _ j k); assumption.
Qed.

Lemma registered_at i k s o : nth_error (ops i) k = Some o -> In s (registration o) ->
  memb s (registered i (firstn (S k) (ops i))) = true.
Proof.
  intros Ho Hin. apply existsb_exists. exists s. split; [|apply Nat.eqb_refl].
  unfold registered. apply in_or_app. right. apply in_flat_map. exists o. split; [|exact Hin].
  clear Hin. revert k Ho. generalize (ops i). induction l as [|x l IH]; intros [|k] Ho; simpl in *; try discriminate.
  - injection Ho as ->. left; reflexivity.
  - right. apply IH. exact Ho.
Qed.

(* ---------- push and pop, nested ---------- *)
Theorem push_pop c r : route_wf r = true ->
  first_seg (route_code c r) = Some c /\ strip_first (route_code c r) = r.
Proof. intro H. split; [apply first_seg_route_code | apply strip_route_code; exact H]. Qed.

(* ---------- the same on '/'-joined strings ---------- *)
Section Strings.
  Variable name : seg -> str.
  Hypothesis name_nonempty : forall s, name s <> [].
  Hypothesis name_noslash : forall s, ~ In slash (name s).

  Lemma str_head_app a b : ~ In slash a -> str_head (a ++ slash :: b) = a.
  Proof.
    induction a as [|c a IH]; simpl; intro N.
    - reflexivity.
    - destruct (Nat.eqb c slash) eqn:E; [apply Nat.eqb_eq in E; exfalso; apply N; left; exact E|].
      rewrite IH; [reflexivity|]. intro H. apply N. right; exact H.
  Qed.

  Lemma str_head_noslash a : ~ In slash a -> str_head a = a.
  Proof.
    induction a as [|c a IH]; simpl; intro N; [reflexivity|].
    destruct (Nat.eqb c slash) eqn:E; [apply Nat.eqb_eq in E; exfalso; apply N; left; exact E|].
    rewrite IH; [reflexivity|]. intro H. apply N. right; exact H.
  Qed.

  Lemma render_segs_cons s t l : render_segs name (s :: t :: l) = name s ++ slash :: render_segs name (t :: l).
  Proof. reflexivity. Qed.

  Lemma render_segs_nonempty t l : render_segs name (t :: l) <> [].
  Proof.
    destruct l as [|u l]; [apply name_nonempty|]. rewrite render_segs_cons.
    intro H. apply app_eq_nil in H as [_ H]. discriminate.
  Qed.

  (* route_code.split("/")[0] is the first segment *)
  Theorem str_first_seg r : route_wf r = true ->
    option_map str_head (render name r) = option_map name (first_seg r).
  Proof.
    destruct r as [[|s [|t l]]|]; simpl; intro H; try discriminate; try reflexivity.
    - rewrite str_head_noslash by apply name_noslash. reflexivity.
    - change (name s ++ slash :: render_segs name (t :: l)) with (name s ++ slash :: render_segs name (t :: l)).
      f_equal. apply (str_head_app (name s)). apply name_noslash.
  Qed.

  (* routing_code + "/" + route_code prepends one segment *)
  Theorem str_push c r : route_wf r = true ->
    str_route_code (name c) (render name r) = render name (route_code c r).
  Proof. destruct r as [[|s l]|]; simpl; intro H; try discriminate; reflexivity. Qed.

  (* route_code[len(prefix) + 1:] or None removes exactly the first segment *)
  Theorem str_pop r : route_wf r = true -> str_consume (render name r) = render name (strip_first r).
  Proof.
    destruct r as [[|s [|t l]]|]; intro H; try discriminate; try reflexivity.
    - simpl. rewrite str_head_noslash by apply name_noslash.
      rewrite skipn_all2 by lia. reflexivity.
    - unfold render, strip_first, option_map, str_consume. rewrite render_segs_cons.
      pose proof (render_segs_nonempty t l) as NE.
      remember (render_segs name (t :: l)) as R eqn:ER. clear ER.
      rewrite (str_head_app (name s)) by apply name_noslash.
      replace (length (name s) + 1) with (length (name s ++ [slash])) by (rewrite app_length; reflexivity).
      replace (name s ++ slash :: R) with ((name s ++ [slash]) ++ R) by (rewrite <- app_assoc; reflexivity).
      rewrite skipn_app, skipn_all, Nat.sub_diag. simpl.
      destruct R; [exfalso; apply NE; reflexivity | reflexivity].
  Qed.

  (* hence, on strings: popping what StreamToQueue pushed gives the original code back *)
  Corollary str_push_pop c r : route_wf r = true ->
    str_consume (str_route_code (name c) (render name r)) = render name r.
  Proof.
    intro H. rewrite str_push by exact H. rewrite str_pop by apply route_code_wf.
    rewrite strip_route_code by exact H. reflexivity.
  Qed.
End Strings.

(* an event sent through StreamToQueue(c) and then through a router with a consuming rule for c
   arrives at that rule's sink exactly as it was sent *)
Theorem router_pops r c s e :
  get Nat.eqb c (r_prefixes r) = Some (s, true) -> route_wf (e_route e) = true ->
  route_status r (pushed [c] e) = Some (s, e).
Proof.
  intros G H. unfold route_status, pushed, push_all. simpl fold_left.
  rewrite e_route_set_route, first_seg_route_code, G.
  rewrite set_route_set_route, strip_route_code by exact H. rewrite set_route_same. reflexivity.
Qed.

(* ---------- the whole start/stop log of a sink ---------- *)
(* the startTestRun/stopTestRun calls sink s receives at the call o made after the calls past *)
Definition ss_at (i : input) (s : sink) (past : list op) (o : op) : list call :=
  match o with
  | Start => if memb s (registered i past) then [StartRun] else []
  | Stop => if memb s (registered i past) then [StopRun] else []
  | AddPrefix s' _ _ ss | AddId s' _ ss => if Nat.eqb s' s && ss && in_run past then [StartRun] else []
  | Status _ _ => []
  | AddRej _ _ _ => []
  end.

Fixpoint ss_expected (i : input) (s : sink) (past l : list op) : list call :=
  match l with
  | [] => []
  | o :: r => ss_at i s past o ++ ss_expected i s (past ++ [o]) r
  end.

Lemma step_ss i past o so s :
  Step_spec i past o so -> count s (registered i past) <= 1 -> s < n_sinks i ->
  filter is_start_stop (nth s (s_new so) []) = ss_at i s past o.
Proof.
  intros HS Hc Hs. destruct (count_memb s _ Hc) as [C1 C2].
  assert (Hadd : forall s' ss, s_raised so = false /\
                   New_is (n_sinks i) (if ss && in_run past then only s' StartRun else nobody) (s_new so) ->
                 filter is_start_stop (nth s (s_new so) []) = if Nat.eqb s' s && ss && in_run past then [StartRun] else []).
  { intros s' ss [_ [_ HN]]. rewrite (HN s Hs). rewrite (Nat.eqb_sym s' s), <- andb_assoc.
    destruct (ss && in_run past); [|rewrite andb_false_r; reflexivity].
    rewrite andb_true_r. unfold only. destruct (Nat.eqb s s'); reflexivity. }
  destruct o as [s' p c ss | s' t ss | | | via e | s' w ss]; simpl in HS; simpl ss_at.
  - apply Hadd. exact HS.
  - apply Hadd. exact HS.
  - destruct HS as [_ [_ HN]]. rewrite (HN s Hs), C1. destruct (memb s (registered i past)); reflexivity.
  - destruct HS as [_ [_ HN]]. rewrite (HN s Hs), C2. destruct (memb s (registered i past)); reflexivity.
  - eapply status_spec_no_start_stop; [exact HS | exact Hs].
  - destruct HS as [_ [_ HN]]. rewrite (HN s Hs). reflexivity.
Qed.

Lemma ss_log_expected i s : s < n_sinks i -> forall l past os,
  steps_okb i past l os = true -> count s (registered i (past ++ l)) <= 1 ->
  ss_log s os = ss_expected i s past l.
Proof.
  intro Hs. induction l as [|o l IH]; intros past [|so os]; simpl; try discriminate; [reflexivity|].
  rewrite andb_true_iff. intros [H1 H2] Hc. f_equal.
  - apply step_ss; [apply step_okb_sound; exact H1 | | exact Hs].
    etransitivity; [apply (registered_app_count i s past (o :: l)) | exact Hc].
  - apply IH; [exact H2|]. rewrite <- app_assoc. exact Hc.
Qed.

(* not registered (yet): nothing *)
Lemma ss_expected_unregistered i s : forall l past,
  count s (registered i (past ++ l)) = 0 -> ss_expected i s past l = [].
Proof.
  induction l as [|o l IH]; intros past Hc; [reflexivity|]. simpl.
  assert (H0 : count s (registered i past) = 0).
  { pose proof (registered_app_count i s past (o :: l)). lia. }
  assert (Hm : memb s (registered i past) = false).
  { destruct (memb s (registered i past)) eqn:M; [|reflexivity].
    apply existsb_exists in M as [x [Hx E]]. apply Nat.eqb_eq in E. subst x.
    apply (count_occ_In Nat.eq_dec) in Hx. unfold count in H0. lia. }
  rewrite IH by (rewrite <- app_assoc; exact Hc). rewrite app_nil_r.
  assert (Hreg : count s (registration o) = 0).
  { replace (past ++ o :: l) with ((past ++ [o]) ++ l) in Hc by (rewrite <- app_assoc; reflexivity).
    pose proof (registered_app_count i s (past ++ [o]) l). rewrite registered_snoc, count_app in H. lia. }
  destruct o as [s' p c ss | s' t ss | | | via e | s' w ss]; simpl; rewrite ?Hm; try reflexivity.
  - destruct (Nat.eqb s' s) eqn:E; [|reflexivity]. apply Nat.eqb_eq in E. subst s'.
    destruct ss; [|reflexivity]. simpl in Hreg. destruct (Nat.eq_dec s s); [discriminate|contradiction].
  - destruct (Nat.eqb s' s) eqn:E; [|reflexivity]. apply Nat.eqb_eq in E. subst s'.
    destruct ss; [|reflexivity]. simpl in Hreg. destruct (Nat.eq_dec s s); [discriminate|contradiction].
Qed.

(* registered, and not registered again: every startTestRun and stopTestRun of the caller, in order *)
Lemma ss_expected_registered i s : forall l past,
  memb s (registered i past) = true -> count s (flat_map registration l) = 0 ->
  ss_expected i s past l = flat_map ss_of_op l.
Proof.
  induction l as [|o l IH]; intros past Hm Hc; [reflexivity|]. simpl in *. rewrite count_app in Hc.
  rewrite IH; [| |lia].
  - f_equal. destruct o as [s' p c ss | s' t ss | | | via e | s' w ss]; simpl; rewrite ?Hm; try reflexivity.
    + destruct (Nat.eqb s' s) eqn:E; [|reflexivity]. apply Nat.eqb_eq in E. subst s'.
      destruct ss; [|reflexivity]. simpl in Hc. destruct (Nat.eq_dec s s); [lia|contradiction].
    + destruct (Nat.eqb s' s) eqn:E; [|reflexivity]. apply Nat.eqb_eq in E. subst s'.
      destruct ss; [|reflexivity]. simpl in Hc. destruct (Nat.eq_dec s s); [lia|contradiction].
  - apply existsb_exists in Hm as [x [Hx E]]. apply existsb_exists. exists x. split; [|exact E].
    rewrite registered_snoc. apply in_or_app. left; exact Hx.
Qed.

Lemma ss_expected_app i s : forall l1 past l2,
  ss_expected i s past (l1 ++ l2) = ss_expected i s past l1 ++ ss_expected i s (past ++ l1) l2.
Proof.
  induction l1 as [|o l1 IH]; intros past l2; simpl; [rewrite app_nil_r; reflexivity|].
  rewrite IH, <- !app_assoc. reflexivity.
Qed.

Lemma count_le1_split s (a b : list sink) : count s (a ++ b) <= 1 -> count s a = 1 -> count s b = 0.
Proof. rewrite count_app. lia. Qed.

Theorem start_stop_log_once i : wf_base i -> forall s, reg_once i s -> s < n_sinks i ->
  let log := ss_log s (o_steps (model i)) in
  (* never registered for start/stop: neither is ever received *)
  (count s (registered i (ops i)) = 0 -> log = [])
  (* the fallback of a router built with do_start_stop_run: every start and stop, once, in order *)
  /\ (fb i = Some s -> fb_ss i = true -> log = flat_map ss_of_op (ops i))
  (* registered by the k-th call: startTestRun at once if a run is in progress, then every later start and stop *)
  /\ (forall k o, nth_error (ops i) k = Some o -> In s (registration o) ->
        log = (if in_run (firstn k (ops i)) then [StartRun] else []) ++ flat_map ss_of_op (skipn (S k) (ops i))).
Proof.
  intros Hwf s Hc Hs log. unfold reg_once in Hc.
  assert (Hlog : log = ss_expected i s [] (ops i)).
  { unfold log. apply ss_log_expected; [exact Hs | | exact Hc].
    pose proof (model_meets_spec_base i Hwf) as H. unfold spec_okb in H. apply andb_true_iff in H as [H _]. exact H. }
  rewrite Hlog. clear Hlog log. split; [|split].
  - intro H0. apply ss_expected_unregistered. exact H0.
  - intros Hf Hss. apply ss_expected_registered.
    + unfold registered. rewrite Hf, Hss. simpl. rewrite Nat.eqb_refl. reflexivity.
    + unfold registered in Hc. rewrite Hf, Hss, count_app in Hc. simpl in Hc.
      destruct (Nat.eq_dec s s); [lia|contradiction].
  - intros k o Ho Hin.
    assert (Hsplit : ops i = firstn k (ops i) ++ o :: skipn (S k) (ops i)).
    { clear -Ho. revert k Ho. generalize (ops i). induction l as [|x l IH]; intros [|k] Ho; simpl in *; try discriminate.
      - injection Ho as ->. reflexivity.
      - f_equal. apply IH. exact Ho. }
    set (pre := firstn k (ops i)) in *. set (post := skipn (S k) (ops i)) in *.
    assert (Hreg1 : count s (registration o) = 1).
    { destruct o as [s' p c [|]|s' t [|]| | | |]; simpl in Hin; try contradiction;
        destruct Hin as [->|[]]; simpl; destruct (Nat.eq_dec s s); try reflexivity; contradiction. }
    assert (Hcnt : count s (registered i pre) = 0 /\ count s (flat_map registration post) = 0).
    { rewrite Hsplit in Hc. unfold registered in Hc |- *. rewrite flat_map_app in Hc. simpl in Hc.
      rewrite !count_app in Hc. rewrite count_app. lia. }
    destruct Hcnt as [Hpre Hpost].
    rewrite Hsplit at 1. rewrite ss_expected_app.
    rewrite (ss_expected_unregistered i s pre []) by exact Hpre.
    simpl. rewrite ss_expected_registered; [| |exact Hpost].
    + f_equal.
      destruct o as [s' p c [|]|s' t [|]| | | |]; simpl in Hin; try contradiction;
        destruct Hin as [->|[]]; simpl; rewrite Nat.eqb_refl; reflexivity.
    + apply existsb_exists. exists s. split; [|apply Nat.eqb_refl].
      rewrite registered_snoc. apply in_or_app. right.
      destruct o as [s' p c [|]|s' t [|]| | | |]; simpl in Hin |- *; try contradiction; exact Hin.
Qed.

(* ---------- a rejected add_rule leaves no trace ---------- *)
(* the router after the calls l *)
Fixpoint exec (r : router) (l : list op) : router :=
  match l with
  | [] => r
  | o :: l' => exec (fst (step r o)) l'
  end.

Lemma run_app r l1 l2 : run r (l1 ++ l2) = run r l1 ++ run (exec r l1) l2.
Proof.
  revert r. induction l1 as [|o l1 IH]; intro r; simpl; [reflexivity|].
  destruct (step r o) as [r' out]. simpl. rewrite IH. reflexivity.
Qed.

Lemma run_length r l : length (run r l) = length l.
Proof.
  revert r. induction l as [|o l IH]; intro r; simpl; [reflexivity|].
  destruct (step r o) as [r' out]. simpl. rewrite IH. reflexivity.
Qed.

Lemma firstn_exact {A} (a b : list A) : firstn (length a) (a ++ b) = a.
Proof. induction a as [|x a IH]; simpl; [destruct b; reflexivity | rewrite IH; reflexivity]. Qed.
Lemma skipn_exact {A} (a b : list A) : skipn (length a) (a ++ b) = b.
Proof. induction a as [|x a IH]; simpl; [reflexivity | exact IH]. Qed.

Lemma per_sink_nil n : per_sink n [] = repeat [] n.
Proof.
  unfold per_sink. generalize 0. induction n as [|n IH]; intro a; simpl; [reflexivity|].
  rewrite IH. reflexivity.
Qed.

(* the rejected call itself: raises, router unchanged, nothing delivered *)
Lemma rejected_step r s w ss : step r (AddRej s w ss) = (r, (true, [])).
Proof. reflexivity. Qed.

(* every history with a rejected add_rule anywhere in it is observed exactly as the history without
   that call, plus one step in which the call raised and no sink received anything *)
Theorem rejected_no_trace n f fs l1 l2 s w ss :
  let os := o_steps (model {| n_sinks := n; fb := f; fb_ss := fs; ops := l1 ++ l2 |}) in
  o_steps (model {| n_sinks := n; fb := f; fb_ss := fs; ops := l1 ++ AddRej s w ss :: l2 |})
  = firstn (length l1) os ++ {| s_raised := true; s_new := repeat [] n |} :: skipn (length l1) os
  /\ o_round (model {| n_sinks := n; fb := f; fb_ss := fs; ops := l1 ++ AddRej s w ss :: l2 |})
     = o_round (model {| n_sinks := n; fb := f; fb_ss := fs; ops := l1 ++ l2 |}).
Proof.
  unfold model. simpl. split.
  - rewrite !run_app, !map_app. simpl.
    replace (length l1) with (length (map (to_obs n) (run (init f fs) l1)))
      by (rewrite map_length; apply run_length).
    rewrite firstn_exact, skipn_exact. unfold to_obs at 2. simpl. rewrite per_sink_nil. reflexivity.
  - rewrite !flat_map_app. reflexivity.
Qed.

(* ---------- wf: the base conditions + every sink registered for start/stop at most once ---------- *)
Lemma wf_is_base i : wf i -> wf_base i.
Proof. unfold wf, wfb, wf_base. rewrite andb_true_iff. intros [H _]. exact H. Qed.

Theorem wf_once i : wf i -> forall s, reg_once i s.
Proof.
  unfold wf, wfb. rewrite andb_true_iff. intros [_ H] s. apply (nodupb_NoDup _ Nat.eqb_eq) in H.
  unfold reg_once, count. apply (NoDup_count_occ Nat.eq_dec). exact H.
Qed.

Theorem model_meets_spec i : wf i -> spec_okb i (model i) = true.
Proof. intro H. apply model_meets_spec_base. apply wf_is_base. exact H. Qed.

Definition one_sink i (H : wf i) := one_sink_base i (wf_is_base i H).

Theorem start_stop i : wf i -> forall k o so s,
  nth_error (ops i) k = Some o -> nth_error (o_steps (model i)) k = Some so -> s < n_sinks i ->
  let past := firstn k (ops i) in
  filter is_start_stop (nth s (s_new so) []) =
    match o with
    | Start => if memb s (registered i past) then [StartRun] else []
    | Stop => if memb s (registered i past) then [StopRun] else []
    | AddPrefix s' _ _ ss | AddId s' _ ss => if Nat.eqb s' s && ss && in_run past then [StartRun] else []
    | Status _ _ => []
    | AddRej _ _ _ => []
    end.
Proof. intros H k o so s. exact (start_stop_once i (wf_is_base i H) k o so s (wf_once i H s)). Qed.

Theorem start_stop_log i : wf i -> forall s, s < n_sinks i ->
  let log := ss_log s (o_steps (model i)) in
  (count s (registered i (ops i)) = 0 -> log = [])
  /\ (fb i = Some s -> fb_ss i = true -> log = flat_map ss_of_op (ops i))
  /\ (forall k o, nth_error (ops i) k = Some o -> In s (registration o) ->
        log = (if in_run (firstn k (ops i)) then [StartRun] else []) ++ flat_map ss_of_op (skipn (S k) (ops i))).
Proof. intros H s. exact (start_stop_log_once i (wf_is_base i H) s (wf_once i H s)). Qed.

(* ---------- add_rule called from inside a sink's startTestRun (Model.Router.start_reentrant) ---------- *)
Lemma step_add_sinks r o : is_add o = true ->
  exists ext, r_sinks (fst (step r o)) = r_sinks r ++ ext
              /\ r_in_run (fst (step r o)) = r_in_run r
              /\ (r_in_run r = false -> snd (step r o) = (false, [])).
Proof.
  destruct o as [s p c ss|s t ss| | | |]; simpl; try discriminate; intros _; unfold register;
    destruct ss; simpl.
  - exists [s]. repeat split. intros ->. reflexivity.
  - exists []. rewrite app_nil_r. repeat split.
  - exists [s]. repeat split. intros ->. reflexivity.
  - exists []. rewrite app_nil_r. repeat split.
Qed.

Lemma apply_adds_sinks adds : forall r, forallb is_add adds = true -> r_in_run r = false ->
  exists ext, r_sinks (apply_adds r adds) = r_sinks r ++ ext
              /\ r_in_run (apply_adds r adds) = false
              /\ Forall (fun out => out = (false, [])) (run r adds).
Proof.
  induction adds as [|o adds IH]; intros r Ha Hr.
  - exists []. simpl. rewrite app_nil_r. repeat split; [exact Hr|constructor].
  - cbn [forallb] in Ha. apply andb_true_iff in Ha. destruct Ha as [Ho Ha].
    destruct (step_add_sinks r o Ho) as [e1 [S1 [R1 O1]]].
    unfold apply_adds. cbn [fold_left run]. fold (apply_adds (fst (step r o)) adds).
    destruct (step r o) as [r1 out1] eqn:E. cbn [fst snd] in *.
    assert (Hr1 : r_in_run r1 = false) by (rewrite R1; exact Hr).
    destruct (IH r1 Ha Hr1) as [e2 [S2 [R2 O2]]].
    exists (e1 ++ e2). rewrite S2, S1, app_assoc. repeat split; [exact R2|].
    constructor; [apply O1; exact Hr|exact O2].
Qed.

(* the re-entrant calls deliver nothing themselves, and the run-opening startTestRun during which they are made
   delivers exactly what a startTestRun issued AFTER them delivers - one StartRun to every registered sink, old
   and new, in list order - and leaves the same router state *)
Theorem reentrant_start_is_adds_then_start r k adds :
  r_in_run r = false -> k < length (r_sinks r) -> forallb is_add adds = true ->
  Forall (fun out => out = (false, [])) (run r adds)
  /\ start_reentrant r k adds = step (apply_adds r adds) Start.
Proof.
  intros Hr Hk Ha. destruct (apply_adds_sinks adds r Ha Hr) as [ext [HS [R O]]].
  split; [exact O|]. unfold start_reentrant. cbn [step]. f_equal. f_equal.
  rewrite <- map_app. f_equal.
  rewrite HS. rewrite skipn_app.
  replace (S k - length (r_sinks r)) with 0 by lia. cbn [skipn].
  rewrite app_assoc. rewrite firstn_skipn. reflexivity.
Qed.

(* hence every sink registered when the loop ends has received startTestRun exactly as often as it is listed *)
Corollary reentrant_start_once r k adds s :
  r_in_run r = false -> k < length (r_sinks r) -> forallb is_add adds = true ->
  count_occ Nat.eq_dec (map fst (snd (snd (start_reentrant r k adds)))) s
  = count_occ Nat.eq_dec (r_sinks (apply_adds r adds)) s.
Proof.
  intros Hr Hk Ha. destruct (reentrant_start_is_adds_then_start r k adds Hr Hk Ha) as [_ E].
  rewrite E. simpl. rewrite map_map. simpl. rewrite map_id. reflexivity.
Qed.
