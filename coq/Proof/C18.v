(* Lemmas behind Props/C18.v. *)
From TT Require Import Lib.Base Model.Router Spec.C18 Corr.C18.
