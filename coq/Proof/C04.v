(* Lemmas behind Props/C04.v. *)
From Coq Require Import String.
From TT Require Import Lib.Base Gen.Resulttabs Model.Result Spec.C04 Corr.C04.

(* ====================================================================== *)
(* 0. facts about the tables read from the live code                      *)
(* ====================================================================== *)
(* StreamFailFast fires exactly on the status words of error / failure / unexpected success *)
Lemma table_failfast k : in_words (status_of k) failfast_statuses = bad k.
Proof. destruct k; reflexivity. Qed.

(* ====================================================================== *)
(* 1. the underlying results of a stack                                   *)
(* ====================================================================== *)
Section node_ind'.
  Variable P : node -> Prop.
  Hypothesis HR : forall r, P (NTR r).
  Hypothesis HS : forall e, P (NE2S e).
  Hypothesis HX : forall f, P (NFor f).
  Hypothesis HM : forall l, Forall (fun ec => P (snd ec)) l -> P (NMulti l).
  Hypothesis HF : forall ff e x, P x -> P (NTFR ff e x).
  Hypothesis HO : forall e x, P x -> P (NE2O e x).
  Hypothesis HD : forall ff x, P x -> P (NDeco ff x).
  Fixpoint node_ind' (n : node) : P n :=
    let fix go (l : list (bool * node)) : Forall (fun ec => P (snd ec)) l :=
      match l with [] => Forall_nil _ | ec :: r => Forall_cons ec (node_ind' (snd ec)) (go r) end in
    match n with
    | NTR r => HR r | NE2S e => HS e | NFor f => HX f | NMulti l => HM l (go l)
    | NTFR ff e x => HF ff e x (node_ind' x) | NE2O e x => HO e x (node_ind' x)
    | NDeco ff x => HD ff x (node_ind' x)
    end.
End node_ind'.

Inductive leaf := LTR (r : tr) | LE2S (e : e2s) | LFor (f : fo).
Definition leaf_stopped (l : leaf) : bool :=
  match l with LTR r => tr_stopped r | LE2S e => e_stopped e | LFor f => fo_stopped f end.
Definition leaf_stop (l : leaf) : leaf :=
  match l with LTR r => LTR (tr_stop r) | LE2S e => LE2S (e2s_stop e) | LFor f => LFor (fo_stop f) end.
Definition leaf_ok (l : leaf) : bool := match l with LTR r => tr_ok r | LE2S e => e2s_ok e | LFor f => fo_ok f end.
Definition leaf_out (l : leaf) : list summary := match l with LTR r => tr_out r | LE2S _ | LFor _ => [] end.
Definition leaf_ff (l : leaf) : bool := match l with LTR r => tr_ff r | LE2S e => e_ff e | LFor f => fo_ff f end.
(* startTestRun clears shouldStop on testtools' own results only *)
Definition leaf_resets (l : leaf) : bool := match l with LFor _ => false | _ => true end.

Fixpoint lvs (n : node) : list leaf :=
  match n with
  | NTR r => [LTR r]
  | NE2S e => [LE2S e]
  | NFor f => [LFor f]
  | NMulti l => flat_map (fun ec => lvs (snd ec)) l
  | NTFR _ _ x | NE2O _ x | NDeco _ x => lvs x
  end.

Lemma map_flat_map {A B C} (f : B -> C) (g : A -> list B) l :
  map f (flat_map g l) = flat_map (fun x => map f (g x)) l.
Proof. induction l as [|x r IH]; simpl; [reflexivity|]. rewrite map_app, IH. reflexivity. Qed.

Lemma flat_map_ext_F {A B} (f g : A -> list B) l :
  Forall (fun x => f x = g x) l -> flat_map f l = flat_map g l.
Proof. induction 1 as [|x r H _ IH]; simpl; [reflexivity|]. rewrite H, IH. reflexivity. Qed.

Lemma leaf_stops_lvs n : leaf_stops n = map leaf_stopped (lvs n).
Proof.
  induction n as [r|e|f|l IH|ff e x IH|e x IH|ff x IH] using node_ind'; simpl; try reflexivity; try exact IH.
  rewrite map_flat_map. apply flat_map_ext_F. exact IH.
Qed.

Lemma leaf_outs_lvs n : leaf_outs n = map leaf_out (lvs n).
Proof.
  induction n as [r|e|f|l IH|ff e x IH|e x IH|ff x IH] using node_ind'; simpl; try reflexivity; try exact IH.
  rewrite map_flat_map. apply flat_map_ext_F. exact IH.
Qed.

Lemma forallb_flat_map {A B} (p : B -> bool) (g : A -> list B) l :
  forallb p (flat_map g l) = forallb (fun x => forallb p (g x)) l.
Proof. induction l as [|x r IH]; simpl; [reflexivity|]. rewrite forallb_app, IH. reflexivity. Qed.
Lemma existsb_flat_map {A B} (p : B -> bool) (g : A -> list B) l :
  existsb p (flat_map g l) = existsb (fun x => existsb p (g x)) l.
Proof. induction l as [|x r IH]; simpl; [reflexivity|]. rewrite existsb_app, IH. reflexivity. Qed.
Lemma forallb_ext_F {A} (p q : A -> bool) l : Forall (fun x => p x = q x) l -> forallb p l = forallb q l.
Proof. induction 1 as [|x r H _ IH]; simpl; [reflexivity|]. rewrite H, IH. reflexivity. Qed.
Lemma existsb_ext_F {A} (p q : A -> bool) l : Forall (fun x => p x = q x) l -> existsb p l = existsb q l.
Proof. induction 1 as [|x r H _ IH]; simpl; [reflexivity|]. rewrite H, IH. reflexivity. Qed.

Lemma was_ok_lvs n : was_ok n = forallb leaf_ok (lvs n).
Proof.
  induction n as [r|e|f|l IH|ff e x IH|e x IH|ff x IH] using node_ind'; simpl;
    try (rewrite andb_true_r; reflexivity); try exact IH.
  rewrite forallb_flat_map. apply forallb_ext_F. exact IH.
Qed.

Lemma should_stop_lvs n : should_stop n = existsb leaf_stopped (lvs n).
Proof.
  induction n as [r|e|f|l IH|ff e x IH|e x IH|ff x IH] using node_ind'; simpl;
    try (rewrite orb_false_r; reflexivity); try exact IH.
  rewrite existsb_flat_map. apply existsb_ext_F. exact IH.
Qed.

Lemma existsb_map {A B} (p : B -> bool) (f : A -> B) l : existsb p (map f l) = existsb (fun x => p (f x)) l.
Proof. induction l as [|x r IH]; simpl; [reflexivity|]. rewrite IH. reflexivity. Qed.

(* the outermost object's shouldStop is the disjunction over the underlying results *)
Lemma should_stop_any n : should_stop n = existsb (fun b => b) (leaf_stops n).
Proof. rewrite should_stop_lvs, leaf_stops_lvs, existsb_map. reflexivity. Qed.

Lemma lvs_stop n : lvs (stop n) = map leaf_stop (lvs n).
Proof.
  induction n as [r|e|f|l IH|ff e x IH|e x IH|ff x IH] using node_ind'; simpl; try reflexivity; try exact IH.
  rewrite map_flat_map. induction IH as [|ec r H _ IHr]; simpl; [reflexivity|]. rewrite H, IHr. reflexivity.
Qed.

(* ====================================================================== *)
(* 2. the static part of a stack (who holds which failfast) never changes *)
(* ====================================================================== *)
Inductive fr :=
| FL (ff : bool)
| FM (l : list (bool * fr))
| FT (ff e : bool) (x : fr)
| FO (e : bool) (x : fr)
| FD (ff : option bool) (x : fr).

Fixpoint frame (n : node) : fr :=
  match n with
  | NTR r => FL (tr_ff r)
  | NE2S e => FL (e_ff e)
  | NFor f => FL (fo_ff f)
  | NMulti l => FM (map (fun ec => (fst ec, frame (snd ec))) l)
  | NTFR ff e x => FT ff e (frame x)
  | NE2O e x => FO e (frame x)
  | NDeco ff x => FD ff (frame x)
  end.

Definition fhas (f : fr) : bool := match f with FD None _ => false | _ => true end.
Fixpoint fget (f : fr) : bool :=
  match f with
  | FL ff => ff
  | FM l => match l with ec :: _ => if fhas (snd ec) then fget (snd ec) else fst ec | [] => false end
  | FT ff _ _ => ff
  | FO e x => if fhas x then fget x else e
  | FD (Some b) _ => b
  | FD None _ => false
  end.
Definition fe2o_get (ec : bool * fr) : bool := if fhas (snd ec) then fget (snd ec) else fst ec.

Lemma has_ff_frame n : has_ff n = fhas (frame n).
Proof. destruct n as [r|e|f|l|ff e x|e x|[b|] x]; reflexivity. Qed.

Lemma get_ff_frame n : get_ff n = fget (frame n).
Proof.
  induction n as [r|e|f|l IH|ff e x IH|e x IH|ff x IH] using node_ind'; simpl; try reflexivity.
  - destruct l as [|ec r]; simpl; [reflexivity|]. inversion IH; subst.
    rewrite <- has_ff_frame. destruct (has_ff (snd ec)); [assumption|reflexivity].
  - rewrite <- has_ff_frame, IH. reflexivity.
Qed.

Lemma e2o_get_frame ec : e2o_get ec = fe2o_get (fst ec, frame (snd ec)).
Proof. unfold e2o_get, fe2o_get; simpl. rewrite <- has_ff_frame, <- get_ff_frame. reflexivity. Qed.

Lemma map_ext_F {A B} (f g : A -> B) l : Forall (fun x => f x = g x) l -> map f l = map g l.
Proof. induction 1 as [|x r H _ IH]; simpl; [reflexivity|]. rewrite H, IH. reflexivity. Qed.

Lemma frame_stop n : frame (stop n) = frame n.
Proof.
  induction n as [r|e|f|l IH|ff e x IH|e x IH|ff x IH] using node_ind'; simpl; try reflexivity;
    try (rewrite IH; reflexivity).
  f_equal. rewrite map_map. apply map_ext_F. eapply Forall_impl; [|exact IH].
  intros ec H. simpl. rewrite H. reflexivity.
Qed.

Lemma tr_ff_step r o : tr_ff (tr_step r o) = tr_ff r.
Proof.
  destruct o; simpl; try reflexivity; unfold tr_outcome; simpl;
    try (destruct (bad k && tr_ff r); reflexivity).
  destruct (tr_text r); reflexivity.
Qed.
Lemma e_ff_step e o : e_ff (e2s_step e o) = e_ff e.
Proof. destruct o; reflexivity. Qed.
Lemma fo_ff_step f o : fo_ff (fo_step f o) = fo_ff f.
Proof. destruct o; reflexivity. Qed.

Lemma frame_step n : forall o, frame (step n o) = frame n.
Proof.
  induction n as [r|e|f|l IH|ff e x IH|e x IH|ff x IH] using node_ind'; intro o; simpl.
  - rewrite tr_ff_step. reflexivity.
  - rewrite e_ff_step. reflexivity.
  - rewrite fo_ff_step. reflexivity.
  - f_equal. rewrite map_map. apply map_ext_F. eapply Forall_impl; [|exact IH].
    intros ec H. simpl.
    destruct (is_bad_call o && _); simpl; rewrite ?frame_stop, H; reflexivity.
  - destruct o; simpl; try reflexivity;
      try match goal with |- context [if ?c then _ else _] => destruct c end;
      rewrite ?frame_stop, IH; reflexivity.
  - destruct (is_bad_call o && _); rewrite ?frame_stop, IH; reflexivity.
  - rewrite IH. reflexivity.
Qed.

Lemma frame_stop_at p : forall n, frame (stop_at p n) = frame n.
Proof.
  induction p as [|j q IHq]; intro n; [apply frame_stop|].
  destruct n as [r|e|f|l|ff e x|e x|ff x]; simpl; try reflexivity;
    try (destruct j; simpl; rewrite ?IHq; reflexivity).
  f_equal. revert j. induction l as [|ec r IHl]; intro j; [reflexivity|].
  destruct j; simpl; [rewrite IHq; reflexivity|]. rewrite IHl. reflexivity.
Qed.

Lemma frame_do_op n o : frame (do_op n o) = frame n.
Proof. destruct o; simpl; try apply frame_step. apply frame_stop_at. Qed.

(* ====================================================================== *)
(* 3. one call, seen from every underlying result                         *)
(* ====================================================================== *)
Section fr_ind'.
  Variable P : fr -> Prop.
  Hypothesis HL : forall ff, P (FL ff).
  Hypothesis HM : forall l, Forall (fun ec => P (snd ec)) l -> P (FM l).
  Hypothesis HT : forall ff e x, P x -> P (FT ff e x).
  Hypothesis HO : forall e x, P x -> P (FO e x).
  Hypothesis HD : forall ff x, P x -> P (FD ff x).
  Fixpoint fr_ind' (f : fr) : P f :=
    let fix go (l : list (bool * fr)) : Forall (fun ec => P (snd ec)) l :=
      match l with [] => Forall_nil _ | ec :: r => Forall_cons ec (fr_ind' (snd ec)) (go r) end in
    match f with
    | FL ff => HL ff | FM l => HM l (go l) | FT ff e x => HT ff e x (fr_ind' x)
    | FO e x => HO e x (fr_ind' x) | FD ff x => HD ff x (fr_ind' x)
    end.
End fr_ind'.

(* per underlying result: (it sits below a ThreadsafeForwardingResult, the stack stops it at a bad outcome) *)
Fixpoint finfo (cov u : bool) (f : fr) : list (bool * bool) :=
  match f with
  | FL ff => [(u, cov || ff)]
  | FM l => flat_map (fun ec => finfo (cov || fe2o_get ec) u (snd ec)) l
  | FT _ e x => finfo (cov || fe2o_get (e, x)) true x
  | FO e x => finfo (cov || fe2o_get (e, x)) u x
  | FD _ x => finfo cov u x
  end.

Lemma will_stop_finfo n : forall cov u, will_stop cov n = map snd (finfo cov u (frame n)).
Proof.
  induction n as [r|e|f|l IH|ff e x IH|e x IH|ff x IH] using node_ind'; intros cov u; simpl; try reflexivity;
    try apply IH.
  - induction IH as [|ec r H _ IHr]; simpl; [reflexivity|]. rewrite map_app, <- IHr. f_equal.
    rewrite (e2o_get_frame ec). apply H.
  - rewrite (e2o_get_frame (e, x)). apply IH.
  - rewrite (e2o_get_frame (e, x)). apply IH.
Qed.

Lemma finfo_length n : forall cov u, length (finfo cov u (frame n)) = length (lvs n).
Proof.
  induction n as [r|e|f|l IH|ff e x IH|e x IH|ff x IH] using node_ind'; intros cov u; simpl; try reflexivity;
    try apply IH.
  induction IH as [|ec r H _ IHr]; simpl; [reflexivity|]. rewrite !app_length, H, IHr. reflexivity.
Qed.

Lemma finfo_under f : forall cov u, finfo cov true f = map (fun uw => (true, snd uw)) (finfo cov u f).
Proof.
  induction f as [ff|l IH|ff e x IH|e x IH|ff x IH] using fr_ind'; intros cov u; simpl; try reflexivity;
    try apply IH.
  - rewrite map_flat_map. apply flat_map_ext_F. eapply Forall_impl; [|exact IH]. intros ec H. apply H.
Qed.

Lemma finfo_cover f : forall cov u, finfo true u f = map (fun uw => (fst uw, true)) (finfo cov u f).
Proof.
  induction f as [ff|l IH|ff e x IH|e x IH|ff x IH] using fr_ind'; intros cov u; simpl; try reflexivity;
    try apply IH.
  rewrite map_flat_map. apply flat_map_ext_F. eapply Forall_impl; [|exact IH]. intros ec H. apply H.
Qed.

Definition map2 {A B C} (f : A -> B -> C) (a : list A) (b : list B) : list C :=
  map (fun p => f (fst p) (snd p)) (combine a b).

Lemma map2_app {A B C} (f : A -> B -> C) a1 a2 b1 b2 : length a1 = length b1 ->
  map2 f (a1 ++ a2) (b1 ++ b2) = map2 f a1 b1 ++ map2 f a2 b2.
Proof.
  unfold map2. revert b1. induction a1 as [|x a1 IH]; intros [|y b1] H; simpl in *; try discriminate;
    [reflexivity|]. rewrite IH; [reflexivity|]. injection H as H; exact H.
Qed.

Lemma map2_ext {A B C} (f g : A -> B -> C) a b :
  (forall x y, In (x, y) (combine a b) -> f x y = g x y) -> map2 f a b = map2 g a b.
Proof. intro H. unfold map2. apply map_ext_in. intros [x y] Hin. simpl. apply H. exact Hin. Qed.

Lemma map2_map_l {A A' B C} (f : A' -> B -> C) (g : A -> A') a b :
  map2 f (map g a) b = map2 (fun x y => f (g x) y) a b.
Proof.
  unfold map2. revert b. induction a as [|x a IH]; intros [|y b]; simpl; try reflexivity. rewrite IH. reflexivity.
Qed.

Lemma map2_snd {A B} (a : list A) (b : list B) : length a = length b -> map2 (fun _ y => y) a b = b.
Proof.
  unfold map2. revert b. induction a as [|x a IH]; intros [|y b] H; simpl in *; try discriminate; [reflexivity|].
  rewrite IH; [reflexivity|]. injection H as H; exact H.
Qed.

Lemma map_map2 {A B C D} (g : C -> D) (f : A -> B -> C) a b : map g (map2 f a b) = map2 (fun x y => g (f x y)) a b.
Proof. unfold map2. rewrite map_map. reflexivity. Qed.

(* what reaches a result below a ThreadsafeForwardingResult *)
Definition tfr_conv (o : op) : option op :=
  match o with
  | Outcome k d t => Some (Block k d t)
  | StartTest _ | StopTest _ => None
  | _ => Some o
  end.
Definition leaf_step (l : leaf) (o : op) : leaf :=
  match l with LTR r => LTR (tr_step r o) | LE2S e => LE2S (e2s_step e o) | LFor f => LFor (fo_step f o) end.
Definition leaf_deliver (u : bool) (l : leaf) (o : op) : leaf :=
  match (if u then tfr_conv o else Some o) with Some m => leaf_step l m | None => l end.
(* u: below a forwarder; w: stopped by the stack at a bad outcome *)
Definition leaf_evolve (o : op) (uw : bool * bool) (l : leaf) : leaf :=
  let l' := leaf_deliver (fst uw) l o in
  if is_bad_call o && snd uw then leaf_stop l' else l'.

Lemma leaf_stop_idem l : leaf_stop (leaf_stop l) = leaf_stop l.
Proof. destruct l; reflexivity. Qed.

Lemma tr_self_stop r o : is_bad_call o = true -> tr_ff r = true -> tr_stop (tr_step r o) = tr_step r o.
Proof.
  intros Hb Hf. destruct o; simpl in Hb; try discriminate; simpl; unfold tr_outcome; simpl;
    rewrite Hb, Hf; reflexivity.
Qed.

Lemma e2s_self_stop e o : is_bad_call o = true -> e_ff e = true -> e2s_stop (e2s_step e o) = e2s_step e o.
Proof.
  intros Hb Hf. destruct o; simpl in Hb; try discriminate;
    unfold e2s_step, e2s_stop, e2s_outcome, e2s_start_test; cbn [e_errs e_open e_stopped e_ff];
    rewrite table_failfast, Hb, Hf; cbn [andb]; rewrite orb_true_r; reflexivity.
Qed.

Lemma fo_self_stop f o : is_bad_call o = true -> fo_ff f = true -> fo_stop (fo_step f o) = fo_step f o.
Proof.
  intros Hb Hf. destruct o; simpl in Hb; try discriminate; unfold fo_step, fo_stop, fo_outcome;
    cbn [fo_caps fo_ff fo_stopped fo_bad]; rewrite Hb, Hf; cbn [andb]; rewrite orb_true_r; reflexivity.
Qed.

Definition stops_if (b : bool) (l : list leaf) : list leaf := if b then map leaf_stop l else l.

Lemma stops_if_twice a b l : stops_if a (stops_if b l) = stops_if (a || b) l.
Proof.
  unfold stops_if. destruct a, b; simpl; try reflexivity. rewrite map_map.
  apply map_ext. intro x. apply leaf_stop_idem.
Qed.

Lemma stops_if_app b l m : stops_if b (l ++ m) = stops_if b l ++ stops_if b m.
Proof. unfold stops_if. destruct b; [apply map_app|reflexivity]. Qed.

Definition step_law (x : node) (o : op) : Prop :=
  forall cov, map2 (leaf_evolve o) (finfo cov false (frame x)) (lvs x)
              = stops_if (is_bad_call o && cov) (lvs (step x o)).

(* an ExtendedToOriginalDecorator (explicit or implied) around x *)
Lemma cover_step x o e cov : step_law x o ->
  let x' := step x o in
  let y := if is_bad_call o && (if has_ff x' then get_ff x' else e) then stop x' else x' in
  map2 (leaf_evolve o) (finfo (cov || fe2o_get (e, frame x)) false (frame x)) (lvs x)
  = stops_if (is_bad_call o && cov) (lvs y).
Proof.
  intros IH x' y. rewrite IH. fold x'.
  assert (G : (if has_ff x' then get_ff x' else e) = fe2o_get (e, frame x)).
  { unfold fe2o_get; simpl. rewrite has_ff_frame, get_ff_frame. unfold x'. rewrite frame_step. reflexivity. }
  unfold y. rewrite G.
  assert (L : lvs (if is_bad_call o && fe2o_get (e, frame x) then stop x' else x')
              = stops_if (is_bad_call o && fe2o_get (e, frame x)) (lvs x')).
  { destruct (is_bad_call o && fe2o_get (e, frame x)); simpl; [apply lvs_stop|reflexivity]. }
  rewrite L, stops_if_twice. f_equal.
  destruct (is_bad_call o), cov, (fe2o_get (e, frame x)); reflexivity.
Qed.

Lemma evolve_under o m w l u' : tfr_conv o = Some m ->
  leaf_evolve o (true, w) l = leaf_evolve m (u', w) l.
Proof.
  intro H. unfold leaf_evolve, leaf_deliver; simpl. rewrite H.
  destruct o; simpl in H; try discriminate; injection H as <-; simpl; destruct u'; reflexivity.
Qed.

Lemma step_ok n : forall o, step_law n o.
Proof.
  induction n as [r|e|f|l IH|ff e x IH|e x IH|ff x IH] using node_ind'; intros o cov.
  - simpl. unfold map2, leaf_evolve, leaf_deliver, stops_if; simpl.
    destruct (is_bad_call o) eqn:Eb; simpl; [|reflexivity].
    destruct cov; simpl; [reflexivity|]. destruct (tr_ff r) eqn:Ef; [|reflexivity].
    rewrite tr_self_stop; auto.
  - simpl. unfold map2, leaf_evolve, leaf_deliver, stops_if; simpl.
    destruct (is_bad_call o) eqn:Eb; simpl; [|reflexivity].
    destruct cov; simpl; [reflexivity|]. destruct (e_ff e) eqn:Ef; [|reflexivity].
    rewrite e2s_self_stop; auto.
  - simpl. unfold map2, leaf_evolve, leaf_deliver, stops_if; simpl.
    destruct (is_bad_call o) eqn:Eb; simpl; [|reflexivity].
    destruct cov; simpl; [reflexivity|]. destruct (fo_ff f) eqn:Ef; [|reflexivity].
    rewrite fo_self_stop; auto.
  - simpl. induction IH as [|ec r H _ IHr]; [destruct (is_bad_call o && cov); reflexivity|].
    simpl. rewrite map2_app by apply finfo_length. rewrite stops_if_app, IHr. f_equal.
    destruct ec as [e c]. simpl.
    pose proof (cover_step c o e cov (H o)) as C. simpl in C.
    destruct (is_bad_call o && (if has_ff (step c o) then get_ff (step c o) else e)); exact C.
  - simpl. rewrite (finfo_under _ _ false), map2_map_l.
    destruct (tfr_conv o) as [m|] eqn:Ec.
    + rewrite (map2_ext _ (leaf_evolve m)) by (intros [u' w] y _; apply evolve_under; exact Ec).
      assert (Hb : is_bad_call m = is_bad_call o)
        by (destruct o; simpl in Ec; try discriminate; injection Ec as <-; reflexivity).
      pose proof (cover_step x m e cov (IH m)) as C. simpl in C. rewrite Hb in C.
      rewrite C. f_equal.
      destruct o; simpl in Ec; try discriminate; injection Ec as <-; reflexivity.
    + assert (Hn : is_bad_call o = false) by (destruct o; simpl in Ec; try discriminate; reflexivity).
      rewrite Hn. simpl.
      rewrite (map2_ext _ (fun _ y => y)).
      * rewrite map2_snd by apply finfo_length. destruct o; simpl in Ec; try discriminate; reflexivity.
      * intros [u' w] y _. unfold leaf_evolve, leaf_deliver; simpl. rewrite Ec, Hn. reflexivity.
  - simpl. apply (cover_step x o e cov (IH o)).
  - simpl. apply IH.
Qed.

(* ====================================================================== *)
(* 4. stop() on a node of the stack                                       *)
(* ====================================================================== *)
Fixpoint fpaths (f : fr) : list (list nat) :=
  match f with
  | FL _ => [[]]
  | FM l => (fix go (j : nat) (l : list (bool * fr)) : list (list nat) :=
               match l with [] => [] | ec :: r => map (cons j) (fpaths (snd ec)) ++ go (S j) r end) 0 l
  | FT _ _ x | FO _ x | FD _ x => map (cons 0) (fpaths x)
  end.
Fixpoint gpaths (k : nat) (l : list (bool * fr)) : list (list nat) :=
  match l with [] => [] | ec :: r => map (cons k) (fpaths (snd ec)) ++ gpaths (S k) r end.
Lemma fpaths_FM l : fpaths (FM l) = gpaths 0 l.
Proof. simpl. generalize 0. induction l as [|ec r IH]; intro k; simpl; [reflexivity|]. rewrite IH. reflexivity. Qed.

Fixpoint gstop (q : list nat) (l : list (bool * node)) (j : nat) : list (bool * node) :=
  match l, j with
  | [], _ => []
  | ec :: r, 0 => (fst ec, stop_at q (snd ec)) :: r
  | ec :: r, S j' => ec :: gstop q r j'
  end.
Lemma stop_at_Multi j q l : stop_at (j :: q) (NMulti l) = NMulti (gstop q l j).
Proof. simpl. f_equal. revert j. induction l as [|ec r IH]; intros [|j]; simpl; try reflexivity. rewrite IH. reflexivity. Qed.

Lemma fpaths_length n : length (fpaths (frame n)) = length (lvs n).
Proof.
  induction n as [r|e|f|l IH|ff e x IH|e x IH|ff x IH] using node_ind'; try reflexivity;
    try (simpl; rewrite map_length; exact IH).
  cbn [frame]. rewrite fpaths_FM. simpl. generalize 0.
  induction IH as [|ec r H _ IHr]; intro k; simpl; [reflexivity|].
  rewrite !app_length, map_length, H, IHr. reflexivity.
Qed.

Definition mark (p : list nat) (pa : list nat) (l : leaf) : leaf := if is_prefix p pa then leaf_stop l else l.

Lemma map2_const {A B C} (g : B -> C) (a : list A) (b : list B) : length a = length b ->
  map2 (fun _ y => g y) a b = map g b.
Proof.
  unfold map2. revert b. induction a as [|x a IH]; intros [|y b] H; simpl in *; try discriminate; [reflexivity|].
  rewrite IH; [reflexivity|]. injection H as H; exact H.
Qed.

Lemma gpaths_length k l : length (gpaths k (map (fun ec => (fst ec, frame (snd ec))) l))
                          = length (flat_map (fun ec => lvs (snd ec)) l).
Proof.
  revert k. induction l as [|ec r IH]; intro k; simpl; [reflexivity|].
  rewrite !app_length, map_length, fpaths_length, IH. reflexivity.
Qed.

(* members with a larger index are not below the path *)
Lemma mark_later j q : forall l k, j < k ->
  map2 (mark (j :: q)) (gpaths k (map (fun ec => (fst ec, frame (snd ec))) l)) (flat_map (fun ec => lvs (snd ec)) l)
  = flat_map (fun ec => lvs (snd ec)) l.
Proof.
  induction l as [|ec r IH]; intros k Hk; simpl; [reflexivity|].
  rewrite map2_app by (rewrite map_length; apply fpaths_length).
  rewrite IH by lia. f_equal. rewrite map2_map_l.
  rewrite (map2_ext _ (fun _ y => y)).
  - apply map2_snd. apply fpaths_length.
  - intros pa y _. unfold mark. simpl. replace (Nat.eqb j k) with false; [reflexivity|].
    symmetry. apply Nat.eqb_neq. lia.
Qed.

Lemma stop_at_ok p : forall n, lvs (stop_at p n) = map2 (mark p) (fpaths (frame n)) (lvs n).
Proof.
  induction p as [|j q IHq]; intro n.
  - simpl. rewrite lvs_stop. unfold mark. simpl. symmetry. apply map2_const. apply fpaths_length.
  - assert (unary : forall x, lvs (match j with 0 => stop_at q x | S _ => x end)
                              = map2 (mark (j :: q)) (map (cons 0) (fpaths (frame x))) (lvs x)).
    { intro x. rewrite map2_map_l. destruct j.
      - rewrite IHq. apply map2_ext. intros pa y _. reflexivity.
      - rewrite (map2_ext _ (fun _ y => y)); [symmetry; apply map2_snd, fpaths_length|].
        intros pa y _. reflexivity. }
    destruct n as [r|e|f|l|ff e x|e x|ff x]; try reflexivity.
    + rewrite stop_at_Multi. cbn [frame lvs]. rewrite fpaths_FM.
      assert (G : forall l k j', k + j' = j ->
                lvs (NMulti (gstop q l j'))
                = map2 (mark (j :: q)) (gpaths k (map (fun ec => (fst ec, frame (snd ec))) l))
                       (flat_map (fun ec => lvs (snd ec)) l)).
      { clear l. induction l as [|ec r IHl]; intros k j' Hj; [destruct j'; reflexivity|].
        cbn [map gpaths flat_map fst snd]. rewrite map2_app by (rewrite map_length; apply fpaths_length).
        destruct j' as [|j'].
        - cbn [gstop lvs flat_map fst snd]. rewrite mark_later by lia. f_equal.
          rewrite IHq, map2_map_l. apply map2_ext. intros pa y _. unfold mark. simpl.
          replace (Nat.eqb j k) with true; [reflexivity|]. symmetry. apply Nat.eqb_eq. lia.
        - cbn [gstop lvs flat_map]. specialize (IHl (S k) j'). cbn [lvs] in IHl. rewrite IHl by lia. f_equal.
          rewrite map2_map_l. rewrite (map2_ext _ (fun _ y => y)); [symmetry; apply map2_snd, fpaths_length|].
          intros pa y _. unfold mark. simpl. replace (Nat.eqb j k) with false; [reflexivity|].
          symmetry. apply Nat.eqb_neq. lia. }
      apply (G l 0 j). reflexivity.
    + simpl. destruct j; apply (unary x).
    + simpl. destruct j; apply (unary x).
    + simpl. destruct j; apply (unary x).
Qed.

(* ====================================================================== *)
(* 5. the trajectory of every underlying result                           *)
(* ====================================================================== *)
Notation stat := (bool * bool * list nat)%type (only parsing).     (* below a forwarder, stopped by the stack, path *)
Definition statics (f : fr) : list stat := combine (finfo false false f) (fpaths f).
Definition leaf_do (s : stat) (l : leaf) (o : op) : leaf :=
  match o with StopAt p => mark p (snd s) l | _ => leaf_evolve o (fst s) l end.

Lemma map2_combine_fst {A B C D} (f : A -> C -> D) (a : list A) (b : list B) (c : list C) :
  length a = length b -> map2 (fun s => f (fst s)) (combine a b) c = map2 f a c.
Proof.
  unfold map2. revert b c. induction a as [|x a IH]; intros [|y b] [|z c] H; simpl in *; try discriminate;
    try reflexivity. rewrite IH; [reflexivity|]. injection H as H; exact H.
Qed.
Lemma map2_combine_snd {A B C D} (f : B -> C -> D) (a : list A) (b : list B) (c : list C) :
  length a = length b -> map2 (fun s => f (snd s)) (combine a b) c = map2 f b c.
Proof.
  unfold map2. revert b c. induction a as [|x a IH]; intros b c H; destruct b as [|y b]; simpl in H;
    try discriminate; [reflexivity|].
  destruct c as [|z c]; simpl; [reflexivity|]. rewrite IH; [reflexivity|]. injection H as H; exact H.
Qed.
Lemma map2_fuse {A B} (f g : A -> B -> B) (s : list A) (l : list B) :
  map2 f s (map2 g s l) = map2 (fun x y => f x (g x y)) s l.
Proof.
  unfold map2. revert l. induction s as [|x s IH]; intros [|y l]; simpl; try reflexivity. rewrite IH. reflexivity.
Qed.

Lemma statics_lengths n : length (finfo false false (frame n)) = length (fpaths (frame n)).
Proof. rewrite finfo_length, fpaths_length. reflexivity. Qed.

Lemma statics_length n : length (statics (frame n)) = length (lvs n).
Proof. unfold statics. rewrite combine_length, <- statics_lengths, Nat.min_id. apply finfo_length. Qed.

Lemma do_op_ok n o : lvs (do_op n o) = map2 (fun s l => leaf_do s l o) (statics (frame n)) (lvs n).
Proof.
  assert (S : forall o', lvs (step n o') = map2 (fun s l => leaf_evolve o' (fst s) l) (statics (frame n)) (lvs n)).
  { intro o'. pose proof (step_ok n o' false) as L. rewrite andb_false_r in L. simpl in L. rewrite <- L.
    unfold statics. symmetry. apply (map2_combine_fst (leaf_evolve o')). apply statics_lengths. }
  destruct o; simpl; try apply S.
  rewrite stop_at_ok. symmetry. unfold statics. apply (map2_combine_snd (mark p)). apply statics_lengths.
Qed.

Lemma trajectory h : forall n,
  lvs (fold_left do_op h n) = map2 (fun s l => fold_left (leaf_do s) h l) (statics (frame n)) (lvs n).
Proof.
  induction h as [|o r IH]; intro n; simpl.
  - symmetry. apply map2_snd. apply statics_length.
  - rewrite IH, frame_do_op, do_op_ok, map2_fuse. reflexivity.
Qed.

(* ====================================================================== *)
(* 6. one underlying result over a whole history                          *)
(* ====================================================================== *)
Lemma since_run_snoc h o :
  since_run (h ++ [o]) = match o with StartRun => [] | _ => since_run h ++ [o] end.
Proof. unfold since_run. rewrite fold_left_app. simpl. destruct o; reflexivity. Qed.

Lemma is_problem_bad o : is_problem o = is_bad_call o.
Proof. destruct o as [| | k d t | | | k d t |]; try reflexivity; destruct k; reflexivity. Qed.

Lemma leaf_ff_stop l : leaf_ff (leaf_stop l) = leaf_ff l.
Proof. destruct l; reflexivity. Qed.
Lemma leaf_ff_step l m : leaf_ff (leaf_step l m) = leaf_ff l.
Proof. destruct l; simpl; [apply tr_ff_step|apply e_ff_step|apply fo_ff_step]. Qed.

Lemma leaf_resets_stop l : leaf_resets (leaf_stop l) = leaf_resets l.
Proof. destruct l; reflexivity. Qed.
Lemma leaf_resets_step l m : leaf_resets (leaf_step l m) = leaf_resets l.
Proof. destruct l; reflexivity. Qed.
Lemma bad_lands c k : bad (fo_lands c k) = bad k.
Proof. destruct k; try reflexivity. simpl. destruct (fc_uxs c); reflexivity. Qed.
(* every path through the decorator's outcome methods: stopped exactly when failfast is set *)
Lemma fo_stopped_outcome f k d : fo_stopped (fo_outcome f k d) = fo_stopped f || (bad k && fo_ff f).
Proof.
  unfold fo_outcome. cbn [fo_stopped]. rewrite bad_lands.
  destruct (fo_stopped f), (bad k), (fo_ff f), (fc_failfast (fo_caps f)), (fc_acts (fo_caps f)); reflexivity.
Qed.

Lemma leaf_ff_do s l o : leaf_ff (leaf_do s l o) = leaf_ff l.
Proof.
  assert (D : forall u, leaf_ff (leaf_deliver u l o) = leaf_ff l).
  { intro u. unfold leaf_deliver. destruct (if u then tfr_conv o else Some o); [apply leaf_ff_step|reflexivity]. }
  destruct o; simpl; unfold leaf_evolve, mark;
    repeat match goal with |- context [if ?c then _ else _] => destruct c end;
    rewrite ?leaf_ff_stop, ?D; reflexivity.
Qed.

Lemma leaf_stopped_step l m :
  leaf_stopped (leaf_step l m) =
  match m with
  | StartRun => if leaf_resets l then false else leaf_stopped l
  | Outcome k _ _ | Block k _ _ => leaf_stopped l || (bad k && leaf_ff l)
  | _ => leaf_stopped l
  end.
Proof.
  destruct l as [r|e|f]; destruct m; try reflexivity; try apply fo_stopped_outcome.
  - simpl. unfold tr_outcome; simpl. destruct (bad k && tr_ff r); simpl; rewrite ?orb_true_r, ?orb_false_r; reflexivity.
  - simpl. destruct (tr_text r); reflexivity.
  - simpl. unfold tr_outcome; simpl. destruct (bad k && tr_ff r); simpl; rewrite ?orb_true_r, ?orb_false_r; reflexivity.
  - unfold leaf_stopped, leaf_step, e2s_step, e2s_outcome, leaf_ff; cbn [e_stopped e_ff].
    rewrite table_failfast, andb_comm; reflexivity.
  - unfold leaf_stopped, leaf_step, e2s_step, e2s_outcome, e2s_start_test, leaf_ff; cbn [e_stopped e_ff].
    rewrite table_failfast, andb_comm; reflexivity.
Qed.

Lemma leaf_stopped_do u w pa l o : (leaf_ff l = true -> w = true) ->
  leaf_stopped (leaf_do (u, w, pa) l o) =
  match o with
  | StartRun => if leaf_resets l then false else leaf_stopped l
  | StopAt p => leaf_stopped l || is_prefix p pa
  | _ => leaf_stopped l || (is_bad_call o && w)
  end.
Proof.
  intro Hw.
  assert (St : leaf_stopped (leaf_stop l) = true) by (destruct l; reflexivity).
  destruct o as [|t|k d t|t| |k d t|p]; simpl; unfold leaf_evolve, leaf_deliver, mark; simpl;
    try (destruct u; simpl; rewrite ?leaf_stopped_step, ?orb_false_r; reflexivity).
  - (* Outcome *)
    destruct (bad k && w) eqn:E.
    + destruct u; simpl; destruct (leaf_step l _); simpl; rewrite orb_true_r; reflexivity.
    + rewrite orb_false_r. destruct u; simpl; rewrite leaf_stopped_step;
        (destruct (bad k); simpl in *; [|apply orb_false_r]);
        (destruct (leaf_ff l); [rewrite Hw in E by reflexivity; discriminate|apply orb_false_r]).
  - (* Block *)
    destruct (bad k && w) eqn:E.
    + destruct u; simpl; destruct (leaf_step l _); simpl; rewrite orb_true_r; reflexivity.
    + rewrite orb_false_r. destruct u; simpl; rewrite leaf_stopped_step;
        (destruct (bad k); simpl in *; [|apply orb_false_r]);
        (destruct (leaf_ff l); [rewrite Hw in E by reflexivity; discriminate|apply orb_false_r]).
  - destruct (is_prefix p pa); [rewrite St, orb_true_r|rewrite orb_false_r]; reflexivity.
Qed.

Definition traj (s : stat) (l : leaf) (h : list op) : leaf := fold_left (leaf_do s) h l.

Lemma traj_snoc s l h o : traj s l (h ++ [o]) = leaf_do s (traj s l h) o.
Proof. unfold traj. rewrite fold_left_app. reflexivity. Qed.

Lemma traj_ff s l h : leaf_ff (traj s l h) = leaf_ff l.
Proof.
  induction h as [|o r IH] using rev_ind; [reflexivity|]. rewrite traj_snoc, leaf_ff_do. exact IH.
Qed.

Lemma leaf_resets_do s l o : leaf_resets (leaf_do s l o) = leaf_resets l.
Proof.
  assert (D : forall u, leaf_resets (leaf_deliver u l o) = leaf_resets l).
  { intro u. unfold leaf_deliver. destruct (if u then tfr_conv o else Some o); [apply leaf_resets_step|reflexivity]. }
  destruct o; simpl; unfold leaf_evolve, mark;
    repeat match goal with |- context [if ?c then _ else _] => destruct c end;
    rewrite ?leaf_resets_stop, ?D; reflexivity.
Qed.
Lemma traj_resets s l h : leaf_resets (traj s l h) = leaf_resets l.
Proof.
  induction h as [|o r IH] using rev_ind; [reflexivity|]. rewrite traj_snoc, leaf_resets_do. exact IH.
Qed.

(* shouldStop of an underlying result = stop() reached it, or the stack stops it and a bad outcome came,
   since the last startTestRun (testtools' own results) / ever (foreign results, which never clear it) *)
Lemma stopped_after u w pa l h : leaf_stopped l = false -> (leaf_ff l = true -> w = true) ->
  leaf_stopped (traj (u, w, pa) l h)
  = existsb (stop_reaches pa) (scope (leaf_resets l) h) || (w && existsb is_problem (scope (leaf_resets l) h)).
Proof.
  intros H0 Hw. induction h as [|o r IH] using rev_ind.
  - destruct (leaf_resets l); simpl; rewrite H0, andb_false_r; reflexivity.
  - rewrite traj_snoc, leaf_stopped_do by (rewrite traj_ff; exact Hw).
    rewrite traj_resets, IH. unfold scope. destruct (leaf_resets l).
    + rewrite since_run_snoc.
      destruct o as [|t|k d t|t| |k d t|p]; rewrite ?existsb_app; simpl; rewrite ?is_problem_bad; simpl;
        generalize (existsb (stop_reaches pa) (since_run r)) (existsb is_problem (since_run r));
        intros a b; try (destruct a, b, w; reflexivity).
      * destruct a, b, w, (bad k); reflexivity.
      * destruct a, b, w, (bad k); reflexivity.
      * destruct a, b, w, (is_prefix p pa); reflexivity.
    + destruct o as [|t|k d t|t| |k d t|p]; rewrite !existsb_app; simpl; rewrite ?is_problem_bad; simpl;
        generalize (existsb (stop_reaches pa) r) (existsb is_problem r);
        intros a b; try (destruct a, b, w; reflexivity).
      * destruct a, b, w, (bad k); reflexivity.
      * destruct a, b, w, (bad k); reflexivity.
      * destruct a, b, w, (is_prefix p pa); reflexivity.
Qed.

(* ---------- the part of a TestResult that stop() and failfast do not touch ---------- *)
Record core := { c_err : list tid; c_fail : list tid; c_uxs : list tid; c_run : nat; c_text : bool;
                 c_out : list summary }.
Definition core_of (r : tr) : core :=
  {| c_err := errors r; c_fail := failures r; c_uxs := uxs r; c_run := tests_run r; c_text := tr_text r;
     c_out := tr_out r |}.
Definition c_sections (c : core) : list (nat * tid) :=
  map (pair 0) (c_err c) ++ map (pair 1) (c_fail c) ++ map (pair 2) (c_uxs c).
Definition c_ok (c : core) : bool := match c_err c, c_fail c, c_uxs c with [], [], [] => true | _, _, _ => false end.
Definition c_summary (c : core) : summary :=
  {| s_ran := c_run c;
     s_failed := if c_ok c then None else Some (length (c_fail c) + length (c_err c) + length (c_uxs c));
     s_sections := c_sections c |}.
Definition c_add (c : core) (k : kind) (t : tid) (run : nat) : core :=
  {| c_err := match k with KError => c_err c ++ [t] | _ => c_err c end;
     c_fail := match k with KFailure => c_fail c ++ [t] | _ => c_fail c end;
     c_uxs := match k with KUxsuccess => c_uxs c ++ [t] | _ => c_uxs c end;
     c_run := run; c_text := c_text c; c_out := c_out c |}.
Definition core_step1 (c : core) (m : op) : core :=
  match m with
  | StartRun => {| c_err := []; c_fail := []; c_uxs := []; c_run := 0; c_text := c_text c; c_out := c_out c |}
  | StartTest _ => {| c_err := c_err c; c_fail := c_fail c; c_uxs := c_uxs c; c_run := S (c_run c);
                      c_text := c_text c; c_out := c_out c |}
  | Outcome k _ t => c_add c k t (c_run c)
  | Block k _ t => c_add c k t (S (c_run c))
  | StopRun => if c_text c then {| c_err := c_err c; c_fail := c_fail c; c_uxs := c_uxs c; c_run := c_run c;
                                   c_text := true; c_out := c_out c ++ [c_summary c] |} else c
  | _ => c
  end.
Definition core_step (u : bool) (c : core) (o : op) : core :=
  match (if u then tfr_conv o else Some o) with Some m => core_step1 c m | None => c end.

Lemma tr_summary_core r : tr_summary r = c_summary (core_of r).
Proof. reflexivity. Qed.
Lemma tr_ok_core r : tr_ok r = c_ok (core_of r).
Proof. reflexivity. Qed.

Lemma core_tr_step r m : core_of (tr_step r m) = core_step1 (core_of r) m.
Proof.
  destruct m; try reflexivity; simpl.
  - unfold tr_outcome. destruct (bad k && tr_ff r); destruct k; reflexivity.
  - unfold core_of at 2. simpl. destruct (tr_text r); reflexivity.
  - unfold tr_outcome. destruct (bad k && _); destruct k; reflexivity.
Qed.

Lemma core_do s r o : exists r', leaf_do s (LTR r) o = LTR r' /\ core_of r' = core_step (fst (fst s)) (core_of r) o.
Proof.
  destruct s as [[u w] pa].
  assert (E : forall o', exists r', leaf_evolve o' (u, w) (LTR r) = LTR r'
                                    /\ core_of r' = core_step u (core_of r) o').
  { intro o'. unfold leaf_evolve, leaf_deliver, core_step. simpl.
    destruct (if u then tfr_conv o' else Some o') as [m|]; simpl;
      destruct (is_bad_call o' && w); simpl; eexists; split; try reflexivity;
      rewrite <- ?core_tr_step; reflexivity. }
  destruct o; simpl; try apply E.
  unfold mark, core_step. simpl. destruct u; simpl; destruct (is_prefix p pa); eexists; split; reflexivity.
Qed.

Lemma core_traj s h : forall r, exists r', traj s (LTR r) h = LTR r'
  /\ core_of r' = fold_left (core_step (fst (fst s))) h (core_of r).
Proof.
  induction h as [|o t IH]; intro r; simpl; [eexists; split; reflexivity|].
  destruct (core_do s r o) as [r1 [E1 C1]]. unfold traj in *. simpl. rewrite E1.
  destruct (IH r1) as [r2 [E2 C2]]. exists r2. split; [exact E2|]. rewrite C2, C1. reflexivity.
Qed.

Lemma e2s_traj s h : forall e, exists e', traj s (LE2S e) h = LE2S e'.
Proof.
  induction h as [|o t IH]; intro e; [eexists; reflexivity|]. unfold traj in *. simpl.
  assert (E : exists e1, leaf_do s (LE2S e) o = LE2S e1).
  { destruct s as [[u w] pa]. destruct o; simpl; unfold leaf_evolve, leaf_deliver, mark; simpl;
      repeat match goal with |- context [if ?c then _ else _] => destruct c end; simpl; eexists; reflexivity. }
  destruct E as [e1 E1]. rewrite E1. apply IH.
Qed.

Lemma for_traj s h : forall f, exists f', traj s (LFor f) h = LFor f'.
Proof.
  induction h as [|o t IH]; intro f; [eexists; reflexivity|]. unfold traj in *. simpl.
  assert (E : exists f1, leaf_do s (LFor f) o = LFor f1).
  { destruct s as [[u w] pa]. destruct o; simpl; unfold leaf_evolve, leaf_deliver, mark; simpl;
      repeat match goal with |- context [if ?c then _ else _] => destruct c end; simpl; eexists; reflexivity. }
  destruct E as [f1 E1]. rewrite E1. apply IH.
Qed.

(* ---------- ... and what it holds after a history ---------- *)
Definition one_problem (o : op) : list (nat * tid) := match problem o with Some p => [p] | None => [] end.

Lemma problems_app l m : problems (l ++ m) = problems l ++ problems m.
Proof.
  induction l as [|o r IH]; simpl; [reflexivity|]. destruct (problem o); simpl; rewrite IH; reflexivity.
Qed.
Lemma problems_one o : problems [o] = one_problem o.
Proof. unfold one_problem. simpl. destruct (problem o); reflexivity. Qed.

Lemma count_app {A} (e : A -> A -> bool) x a b : count e x (a ++ b) = count e x a + count e x b.
Proof. unfold count. rewrite filter_app, app_length. reflexivity. Qed.

Lemma sections_add c k t run x :
  count sec_eqb x (c_sections (c_add c k t run))
  = count sec_eqb x (c_sections c) + count sec_eqb x (one_problem (Outcome k false t)).
Proof.
  unfold c_sections, one_problem. destruct k; cbn [c_add c_err c_fail c_uxs problem];
    rewrite ?map_app, ?count_app; cbn [map]; change (count sec_eqb x []) with 0; lia.
Qed.
Lemma lengths_add c k t run :
  length (c_fail (c_add c k t run)) + length (c_err (c_add c k t run)) + length (c_uxs (c_add c k t run))
  = length (c_fail c) + length (c_err c) + length (c_uxs c) + length (one_problem (Outcome k false t)).
Proof. unfold one_problem. destruct k; simpl; rewrite ?app_length; simpl; lia. Qed.
Lemma one_problem_form k d d' t : one_problem (Outcome k d t) = one_problem (Outcome k d' t).
Proof. destruct k; reflexivity. Qed.
Lemma one_problem_block k d t : one_problem (Block k d t) = one_problem (Outcome k false t).
Proof. destruct k; reflexivity. Qed.

Definition cfold (u : bool) (h : list op) (c : core) : core := fold_left (core_step u) h c.
Lemma cfold_snoc u h o c : cfold u (h ++ [o]) c = core_step u (cfold u h c) o.
Proof. unfold cfold. rewrite fold_left_app. reflexivity. Qed.

Definition fresh_core (txt : bool) : core :=
  {| c_err := []; c_fail := []; c_uxs := []; c_run := 0; c_text := txt; c_out := [] |}.

Record core_inv (u : bool) (h : list op) (c : core) : Prop := {
  ci_sections : forall x, count sec_eqb x (c_sections c) = count sec_eqb x (problems (since_run h));
  ci_lengths : length (c_fail c) + length (c_err c) + length (c_uxs c) = length (problems (since_run h));
  ci_run : c_run c = length (filter (counts_as_test u) (since_run h))
}.

Lemma core_inv_holds u txt h : core_inv u h (cfold u h (fresh_core txt)).
Proof.
  induction h as [|o r IH] using rev_ind; [constructor; reflexivity|].
  rewrite cfold_snoc. destruct IH as [I1 I2 I3]. set (c := cfold u r (fresh_core txt)) in *.
  assert (plain : forall c', c_sections c' = c_sections c -> c_fail c' = c_fail c -> c_err c' = c_err c ->
                             c_uxs c' = c_uxs c ->
                             c_run c' = c_run c + (if counts_as_test u o then 1 else 0) ->
                             one_problem o = [] -> o <> StartRun ->
                             core_inv u (r ++ [o]) c').
  { intros c' E1 E2 E3 E4 E5 Hp Hn. rewrite <- problems_one in Hp.
    assert (Es : since_run (r ++ [o]) = since_run r ++ [o]) by (rewrite since_run_snoc; destruct o; congruence).
    constructor; rewrite Es.
    - intro x. rewrite problems_app, Hp, app_nil_r, E1. apply I1.
    - rewrite problems_app, Hp, app_nil_r, E2, E3, E4. exact I2.
    - rewrite filter_app, app_length. cbn [filter]. rewrite E5, I3.
      destruct (counts_as_test u o); simpl; lia. }
  assert (added : forall k t run, one_problem o = one_problem (Outcome k false t) -> o <> StartRun ->
                    run = c_run c + (if counts_as_test u o then 1 else 0) ->
                    core_inv u (r ++ [o]) (c_add c k t run)).
  { intros k t run Hp Hn Hr. rewrite <- problems_one in Hp.
    assert (Es : since_run (r ++ [o]) = since_run r ++ [o]) by (rewrite since_run_snoc; destruct o; congruence).
    constructor; rewrite Es.
    - intro x. rewrite problems_app, count_app, Hp, sections_add, I1. reflexivity.
    - rewrite problems_app, app_length, Hp, lengths_add, I2. reflexivity.
    - rewrite filter_app, app_length. cbn [filter c_add c_run]. rewrite Hr, I3.
      destruct (counts_as_test u o); simpl; lia. }
  unfold core_step. destruct o as [|t|k d t|t| |k d t|p]; destruct u; simpl.
  all: try (apply plain; try reflexivity; try discriminate; simpl; lia).
  all: try (apply added; [rewrite ?one_problem_block; reflexivity|discriminate|simpl; lia]).
  all: try (constructor; rewrite since_run_snoc; reflexivity).
  all: destruct (c_text c); apply plain; try reflexivity; try discriminate; simpl; lia.
Qed.

Lemma c_text_cfold u h c : c_text (cfold u h c) = c_text c.
Proof.
  induction h as [|o r IH] using rev_ind; [reflexivity|]. rewrite cfold_snoc, <- IH.
  unfold core_step. destruct (if u then tfr_conv o else Some o) as [m|]; [|reflexivity].
  destruct m; simpl; try reflexivity. destruct (c_text (cfold u r c)) eqn:E; simpl; congruence.
Qed.

Lemma c_out_step u c o :
  c_out (core_step u c o) = match o with
                            | StopRun => if c_text c then c_out c ++ [c_summary c] else c_out c
                            | _ => c_out c
                            end.
Proof.
  unfold core_step. destruct o, u; simpl; try reflexivity; destruct (c_text c); reflexivity.
Qed.

Lemma c_out_after u c0 h : forall pre,
  c_out (cfold u (pre ++ h) c0)
  = c_out (cfold u pre c0)
    ++ (if c_text c0 then map (fun p => c_summary (cfold u p c0)) (before_stop_runs pre h) else []).
Proof.
  induction h as [|o r IH]; intro pre.
  - rewrite app_nil_r. simpl. destruct (c_text c0); rewrite app_nil_r; reflexivity.
  - replace (pre ++ o :: r) with ((pre ++ [o]) ++ r) by (rewrite <- app_assoc; reflexivity).
    rewrite IH, cfold_snoc, c_out_step, c_text_cfold.
    destruct o; simpl; try reflexivity.
    destruct (c_text c0); [rewrite <- app_assoc; reflexivity|reflexivity].
Qed.

Lemma c_ok_problems u h c : core_inv u h c -> c_ok c = match problems (since_run h) with [] => true | _ => false end.
Proof.
  intros [_ I2 _]. unfold c_ok. destruct (problems (since_run h)); simpl in I2;
    destruct (c_err c), (c_fail c), (c_uxs c); simpl in *; try reflexivity; lia.
Qed.

Lemma summary_ok u h c : core_inv u h c -> summary_okb u h (c_summary c) = true.
Proof.
  intro I. pose proof (c_ok_problems u h c I) as Hok. destruct I as [I1 I2 I3].
  unfold summary_okb, c_summary. cbn [s_ran s_failed s_sections].
  rewrite I3, Nat.eqb_refl. simpl. apply andb_true_iff. split.
  - rewrite Hok. destruct (problems (since_run h)); simpl; [reflexivity|].
    rewrite I2. simpl. apply Nat.eqb_refl.
  - unfold same_sections. apply forallb_forall. intros x _. rewrite I1. apply Nat.eqb_refl.
Qed.

(* ====================================================================== *)
(* 7. a freshly built stack                                               *)
(* ====================================================================== *)
Section adapter_ind'.
  Variable P : adapter -> Prop.
  Hypothesis HR : forall ff txt, P (ATR ff txt).
  Hypothesis HS : P AE2S.
  Hypothesis HX : forall c, P (AFor c).
  Hypothesis HM : forall l, Forall P l -> P (AMulti l).
  Hypothesis HF : forall a, P a -> P (ATFR a).
  Hypothesis HO : forall a, P a -> P (AE2O a).
  Hypothesis HD : forall t a, P a -> P (ADeco t a).
  Fixpoint adapter_ind' (a : adapter) : P a :=
    let fix go (l : list adapter) : Forall P l :=
      match l with [] => Forall_nil _ | x :: r => Forall_cons x (adapter_ind' x) (go r) end in
    match a with
    | ATR ff txt => HR ff txt | AE2S => HS | AFor c => HX c | AMulti l => HM l (go l)
    | ATFR x => HF x (adapter_ind' x) | AE2O x => HO x (adapter_ind' x) | ADeco t x => HD t x (adapter_ind' x)
    end.
End adapter_ind'.

(* per underlying result: path, below a forwarder, its state *)
Notation dsc := (list nat * bool * leaf)%type (only parsing).
Definition down (j : nat) (d : dsc) : dsc := (j :: fst (fst d), snd (fst d), snd d).
Fixpoint descr (u : bool) (n : node) : list dsc :=
  match n with
  | NTR r => [([], u, LTR r)]
  | NE2S e => [([], u, LE2S e)]
  | NFor f => [([], u, LFor f)]
  | NMulti l => (fix go (j : nat) (l : list (bool * node)) : list dsc :=
                   match l with [] => [] | ec :: r => map (down j) (descr u (snd ec)) ++ go (S j) r end) 0 l
  | NTFR _ _ x => map (down 0) (descr true x)
  | NE2O _ x | NDeco _ x => map (down 0) (descr u x)
  end.
Fixpoint gdescr (u : bool) (k : nat) (l : list (bool * node)) : list dsc :=
  match l with [] => [] | ec :: r => map (down k) (descr u (snd ec)) ++ gdescr u (S k) r end.
Lemma descr_Multi u l : descr u (NMulti l) = gdescr u 0 l.
Proof. simpl. generalize 0. induction l as [|ec r IH]; intro k; simpl; [reflexivity|]. rewrite IH. reflexivity. Qed.

Lemma descr_lvs n : forall u, map snd (descr u n) = lvs n.
Proof.
  induction n as [r|e|f|l IH|ff e x IH|e x IH|ff x IH] using node_ind'; intro u; try reflexivity;
    try (simpl; rewrite map_map; simpl; apply IH).
  rewrite descr_Multi. simpl. generalize 0.
  induction IH as [|ec r H _ IHr]; intro k; simpl; [reflexivity|].
  rewrite map_app, map_map, IHr. simpl. rewrite H. reflexivity.
Qed.

Lemma descr_paths n : forall u, map (fun d => fst (fst d)) (descr u n) = fpaths (frame n).
Proof.
  induction n as [r|e|f|l IH|ff e x IH|e x IH|ff x IH] using node_ind'; intro u; try reflexivity;
    try (simpl; rewrite map_map; simpl;
         rewrite <- (map_map (fun d : list nat * bool * leaf => fst (fst d)) (cons 0)), IH; reflexivity).
  rewrite descr_Multi. cbn [frame]. rewrite fpaths_FM. generalize 0.
  induction IH as [|ec r H _ IHr]; intro k; simpl; [reflexivity|].
  rewrite map_app, map_map, IHr. simpl. rewrite <- (H u), map_map. reflexivity.
Qed.

Lemma descr_unders n : forall cov u, map (fun d => snd (fst d)) (descr u n) = map fst (finfo cov u (frame n)).
Proof.
  induction n as [r|e|f|l IH|ff e x IH|e x IH|ff x IH] using node_ind'; intros cov u; try reflexivity;
    try (simpl; rewrite map_map; simpl; apply IH).
  rewrite descr_Multi. simpl. generalize 0.
  induction IH as [|ec r H _ IHr]; intro k; simpl; [reflexivity|].
  rewrite !map_app, map_map, IHr. simpl. f_equal. apply H.
Qed.

(* the stack's decision covers every result that has failfast itself *)
Lemma ff_implies_will n : forall cov u,
  Forall2 (fun uw l => leaf_ff l = true -> snd uw = true) (finfo cov u (frame n)) (lvs n).
Proof.
  induction n as [r|e|f|l IH|ff e x IH|e x IH|ff x IH] using node_ind'; intros cov u; simpl; try apply IH.
  - constructor; [|constructor]. simpl. intros ->. apply orb_true_r.
  - constructor; [|constructor]. simpl. intros ->. apply orb_true_r.
  - constructor; [|constructor]. simpl. intros ->. apply orb_true_r.
  - induction IH as [|ec r H _ IHr]; simpl; [constructor|]. apply Forall2_app; [apply H|exact IHr].
Qed.

(* assigning failfast changes nothing but failfast *)
Definition same_but_ff (l l' : leaf) : Prop :=
  match l, l' with
  | LTR r, LTR r' => core_of r' = core_of r /\ tr_stopped r' = tr_stopped r
  | LE2S e, LE2S e' => e_stopped e' = e_stopped e
  | LFor f, LFor f' => fo_stopped f' = fo_stopped f
  | _, _ => False
  end.
Definition dsc_same (d d' : dsc) : Prop := fst d' = fst d /\ same_but_ff (snd d) (snd d').

Lemma same_but_ff_refl l : same_but_ff l l.
Proof. destruct l; simpl; auto. Qed.
Lemma dsc_same_refl l : Forall2 dsc_same l l.
Proof. induction l; constructor; [split; [reflexivity|apply same_but_ff_refl]|assumption]. Qed.
Lemma dsc_same_down j l l' : Forall2 dsc_same l l' -> Forall2 dsc_same (map (down j) l) (map (down j) l').
Proof.
  induction 1 as [|d d' l l' [H1 H2] _ IH]; simpl; constructor; [|exact IH].
  split; [unfold down; simpl; rewrite H1; reflexivity|exact H2].
Qed.

Lemma descr_set_ff b n : forall u, Forall2 dsc_same (descr u n) (descr u (set_ff b n)).
Proof.
  induction n as [r|e|f|l IH|ff e x IH|e x IH|ff x IH] using node_ind'; intro u;
    try (simpl; apply dsc_same_refl).
  - simpl. constructor; [|constructor]. split; [reflexivity|]. simpl. auto.
  - simpl. constructor; [|constructor]. split; [reflexivity|]. simpl. auto.
  - simpl. constructor; [|constructor]. split; [reflexivity|]. simpl. auto.
  - cbn [set_ff]. rewrite !descr_Multi. generalize 0.
    induction IH as [|ec r H _ IHr]; intro k; simpl; [constructor|].
    apply Forall2_app; [|apply IHr]. apply dsc_same_down.
    destruct (has_ff (snd ec)); simpl; [apply H|apply dsc_same_refl].
  - simpl. destruct (has_ff x); simpl; [apply dsc_same_down, IH|apply dsc_same_refl].
Qed.

Definition fresh_for (li : leaf_info) (l : leaf) : Prop :=
  match l with
  | LTR r => li_e2s li = false /\ core_of r = fresh_core (li_text li) /\ tr_stopped r = false
              /\ li_foreign li = false
  | LE2S e => li_e2s li = true /\ li_text li = false /\ e_stopped e = false /\ li_foreign li = false
  | LFor f => li_e2s li = false /\ li_text li = false /\ fo_stopped f = false /\ li_foreign li = true
  end.
Definition matches (u : bool) (li : leaf_info) (d : list nat * bool * leaf) : Prop :=
  fst (fst d) = li_path li /\ snd (fst d) = u || li_tfr li /\ fresh_for li (snd d).

Fixpoint ginfos (k : nat) (l : list adapter) : list leaf_info :=
  match l with [] => [] | x :: r => map (li_down k) (leaf_infos x) ++ ginfos (S k) r end.
Lemma leaf_infos_Multi l : leaf_infos (AMulti l) = ginfos 0 l.
Proof. simpl. generalize 0. induction l as [|x r IH]; intro k; simpl; [reflexivity|]. rewrite IH. reflexivity. Qed.

Lemma Forall2_impl {A B} (P Q : A -> B -> Prop) l m :
  (forall a b, P a b -> Q a b) -> Forall2 P l m -> Forall2 Q l m.
Proof. intros H; induction 1; constructor; auto. Qed.

Lemma F2_maps {A A' B B'} (P : A' -> B' -> Prop) (f : A -> A') (g : B -> B') l m :
  Forall2 (fun a b => P (f a) (g b)) l m -> Forall2 P (map f l) (map g m).
Proof. induction 1; simpl; constructor; assumption. Qed.

Lemma matches_same u l d d' : Forall2 (matches u) l d -> Forall2 dsc_same d d' -> Forall2 (matches u) l d'.
Proof.
  intro H. revert d'. induction H as [|li x l d [M1 [M2 M3]] _ IH]; intros d' S; inversion S; subst; constructor;
    [|apply IH; assumption].
  match goal with Hs : dsc_same x ?y |- _ => destruct Hs as [E1 E2]; rename y into x' end.
  unfold matches. rewrite E1. repeat split; try assumption.
  destruct x as [px lx], x' as [px' lx']; simpl in *. destruct lx, lx'; simpl in *; try contradiction.
  - destruct E2 as [Ec Es]. rewrite Ec, Es. exact M3.
  - rewrite E2. exact M3.
  - rewrite E2. exact M3.
Qed.

Lemma matches_down u j l d : Forall2 (matches u) l d -> Forall2 (matches u) (map (li_down j) l) (map (down j) d).
Proof.
  intro H. apply F2_maps. eapply Forall2_impl; [|exact H]. intros li x [M1 [M2 M3]].
  unfold matches, down; simpl. rewrite M1. repeat split; try assumption;
    try (destruct (snd x); exact M3).
Qed.

Lemma build_descr a : forall u, Forall2 (matches u) (leaf_infos a) (descr u (build a)).
Proof.
  induction a as [ff txt| |c|l IH|x IH|x IH|t x IH] using adapter_ind'; intro u.
  - simpl. constructor; [|constructor]. unfold matches; simpl. rewrite orb_false_r. repeat split.
  - simpl. constructor; [|constructor]. unfold matches; simpl. rewrite orb_false_r. repeat split.
  - simpl. constructor; [|constructor]. unfold matches; simpl. rewrite orb_false_r. repeat split.
  - rewrite leaf_infos_Multi. cbn [build]. rewrite descr_Multi. generalize 0.
    induction IH as [|x r H _ IHr]; intro k; simpl; [constructor|].
    apply Forall2_app; [|apply IHr]. apply matches_down.
    unfold e2o_set; simpl. destruct (has_ff (build x)); simpl; [|apply H].
    eapply matches_same; [apply H|apply descr_set_ff].
  - simpl. rewrite <- (map_map li_under_tfr (li_down 0)). apply matches_down.
    rewrite <- (map_id (descr true (build x))). apply F2_maps.
    eapply Forall2_impl; [|apply (IH true)]. intros li d [M1 [M2 M3]].
    unfold matches; simpl. rewrite orb_true_r. repeat split; try assumption;
      try (destruct (snd d); exact M3).
  - simpl. apply matches_down. apply IH.
  - simpl. apply matches_down. apply IH.
Qed.

Lemma init_descr a s : Forall2 (matches false) (leaf_infos a) (descr false (init a s)).
Proof.
  destruct s as [b|]; simpl; [|apply build_descr].
  eapply matches_same; [apply build_descr|apply descr_set_ff].
Qed.

(* ====================================================================== *)
(* 8. putting it together                                                 *)
(* ====================================================================== *)
Lemma F2_map_r {A B C} (R : A -> C -> Prop) (g : B -> C) a d :
  Forall2 R a (map g d) <-> Forall2 (fun x y => R x (g y)) a d.
Proof.
  revert d. induction a as [|x a IH]; intros [|y d]; simpl; split; intro H; try constructor;
    try (inversion H; fail); inversion H; subst; try assumption; apply IH; assumption.
Qed.

Lemma F2_transport {A B B' C} (R : A -> C -> Prop) (g : B -> C) (h : B' -> C) a d w :
  map g d = map h w -> Forall2 (fun x y => R x (g y)) a d -> Forall2 (fun x y => R x (h y)) a w.
Proof. intros E H. apply F2_map_r. rewrite <- E. apply F2_map_r. exact H. Qed.

Lemma F2_of_maps {A B C} (f : A -> C) (g : B -> C) a b : map f a = map g b -> Forall2 (fun x y => g y = f x) a b.
Proof.
  revert b. induction a as [|x a IH]; intros [|y b] H; simpl in H; try discriminate; constructor.
  - injection H as H _. symmetry; exact H.
  - apply IH. injection H as _ H. exact H.
Qed.

Lemma maps_of_F2 {A B C} (f : A -> C) (g : B -> C) a b : Forall2 (fun x y => g y = f x) a b -> map g b = map f a.
Proof. induction 1 as [|x y a b H _ IH]; simpl; [reflexivity|]. rewrite H, IH. reflexivity. Qed.

Lemma F2_combine3 {A B C} (P : A -> B -> Prop) (Q : A -> C -> Prop) (R : B -> C -> Prop) a b c :
  Forall2 P a b -> Forall2 Q a c -> Forall2 R b c ->
  Forall2 (fun x yz => P x (fst yz) /\ Q x (snd yz) /\ R (fst yz) (snd yz)) a (combine b c).
Proof.
  intro H. revert c. induction H as [|x y a b Hp _ IH]; intros c Hq Hr; inversion Hq; subst; simpl;
    constructor; inversion Hr; subst; auto.
Qed.

Lemma F2_true {A B} (a : list A) (b : list B) : length a = length b -> Forall2 (fun _ _ => True) a b.
Proof. revert b. induction a; intros [|y b] H; simpl in H; try discriminate; constructor; auto. Qed.

(* how the static data and the initial state of each underlying result relate to the input *)
Definition good (i : input) (li : leaf_info) (sl : (bool * bool * list nat) * leaf) : Prop :=
  fst (fst (fst sl)) = li_tfr li /\ snd (fst (fst sl)) = intended_ff i li /\ snd (fst sl) = li_path li
  /\ fresh_for li (snd sl) /\ (leaf_ff (snd sl) = true -> snd (fst (fst sl)) = true).

Lemma setup i : finding_F18 i = false ->
  let n0 := init (stack i) (set_after i) in
  Forall2 (good i) (leaf_infos (stack i)) (combine (statics (frame n0)) (lvs n0)).
Proof.
  intros Hf n0.
  pose proof (init_descr (stack i) (set_after i)) as M. fold n0 in M.
  assert (Pa : Forall2 (fun li pa => pa = li_path li) (leaf_infos (stack i)) (fpaths (frame n0))).
  { rewrite <- (descr_paths n0 false). apply F2_map_r. eapply Forall2_impl; [|exact M]. intros li d [M1 _]. exact M1. }
  assert (Un : Forall2 (fun li uw => fst uw = li_tfr li) (leaf_infos (stack i)) (finfo false false (frame n0))).
  { apply (F2_transport (fun li (b : bool) => b = li_tfr li) _ fst _ _ _ (descr_unders n0 false false)).
    eapply Forall2_impl; [|exact M]. intros li d [_ [M2 _]]. exact M2. }
  assert (Wi : Forall2 (fun li uw => snd uw = intended_ff i li) (leaf_infos (stack i)) (finfo false false (frame n0))).
  { apply F2_of_maps. unfold finding_F18 in Hf. apply negb_false_iff in Hf.
    apply (proj1 (list_eqb_spec Bool.eqb bool_eqb_spec _ _)) in Hf.
    rewrite <- Hf. unfold effective_ff. fold n0. apply will_stop_finfo. }
  assert (Fr : Forall2 fresh_for (leaf_infos (stack i)) (lvs n0)).
  { rewrite <- (descr_lvs n0 false). apply F2_map_r. eapply Forall2_impl; [|exact M]. intros li d [_ [_ M3]]. exact M3. }
  pose proof (ff_implies_will n0 false false) as Fw.
  assert (UW : Forall2 (fun li uw => fst uw = li_tfr li /\ snd uw = intended_ff i li)
                       (leaf_infos (stack i)) (finfo false false (frame n0))).
  { clear - Un Wi. induction Un; inversion Wi; subst; constructor; auto. }
  pose proof (F2_combine3 _ _ (fun _ _ => True) _ _ _ UW Pa
                (F2_true _ _ (statics_lengths n0))) as S1. fold (statics (frame n0)) in S1.
  assert (SL : Forall2 (fun (s : bool * bool * list nat) l => leaf_ff l = true -> snd (fst s) = true)
                       (statics (frame n0)) (lvs n0)).
  { unfold statics. clear - Fw. pose proof (statics_lengths n0) as Hl.
    revert Hl Fw. generalize (finfo false false (frame n0)) (fpaths (frame n0)) (lvs n0).
    induction l as [|x l IH]; intros [|y m] L Hl Fw; simpl in Hl; try discriminate; inversion Fw; subst;
      simpl; constructor; auto. }
  pose proof (F2_combine3 _ _ _ _ _ _ S1 Fr SL) as S2.
  eapply Forall2_impl; [|exact S2]. intros li [[[u w] pa] l]; simpl. intros [[[A B] [C _]] [D E]].
  unfold good; simpl. auto.
Qed.

Lemma states_scan h : forall n, states n h = map (fun pre => fold_left do_op pre n) (prefixes h).
Proof.
  unfold prefixes. induction h as [|o r IH]; intro n; [reflexivity|].
  cbn [states length seq map]. rewrite map_map. cbn [map firstn fold_left]. f_equal.
  rewrite <- seq_shift, map_map. rewrite IH, map_map. reflexivity.
Qed.

Lemma forall2b_maps {A B C} (p : B -> C -> bool) (f : A -> B) (g : A -> C) l :
  forall2b p (map f l) (map g l) = forallb (fun x => p (f x) (g x)) l.
Proof. induction l as [|x r IH]; simpl; [reflexivity|]. rewrite IH. reflexivity. Qed.

Lemma forall2b_map_r {A C} (p : A -> C -> bool) (g : A -> C) l :
  forall2b p l (map g l) = forallb (fun x => p x (g x)) l.
Proof. induction l as [|x r IH]; simpl; [reflexivity|]. rewrite IH. reflexivity. Qed.

Lemma lbool_eqb_refl l : lbool_eqb l l = true.
Proof. apply (proj2 (list_eqb_spec Bool.eqb bool_eqb_spec l l)). reflexivity. Qed.

Lemma forall2b_F2 {A B} (p : A -> B -> bool) l m : Forall2 (fun a b => p a b = true) l m -> forall2b p l m = true.
Proof. induction 1 as [|a b l m H _ IH]; simpl; [reflexivity|]. rewrite H, IH. reflexivity. Qed.

(* the underlying results after the calls [pre] *)
Lemma lvs_after i pre :
  let n0 := init (stack i) (set_after i) in
  lvs (fold_left do_op pre n0) = map (fun sl => traj (fst sl) (snd sl) pre) (combine (statics (frame n0)) (lvs n0)).
Proof. intro n0. rewrite trajectory. reflexivity. Qed.

Lemma forallb_forall_map {A B} (p : B -> bool) (f : A -> B) l : forallb p (map f l) = forallb (fun x => p (f x)) l.
Proof. induction l as [|x r IH]; simpl; [reflexivity|]. rewrite IH. reflexivity. Qed.

Lemma fresh_not_stopped li l : fresh_for li l -> leaf_stopped l = false.
Proof. destruct l; simpl; intros [_ [_ [H _]]]; exact H. Qed.
Lemma fresh_resets li l : fresh_for li l -> leaf_resets l = negb (li_foreign li).
Proof. destruct l; simpl; intros [_ [_ [_ H]]]; rewrite H; reflexivity. Qed.

(* C04_failfast / C04_stop_reaches, per underlying result *)
Lemma leaf_stops_after i pre : finding_F18 i = false ->
  leaf_stops (fold_left do_op pre (init (stack i) (set_after i)))
  = map (want_leaf_stop i pre) (leaf_infos (stack i)).
Proof.
  intro Hf. rewrite leaf_stops_lvs, lvs_after, map_map. apply maps_of_F2.
  eapply Forall2_impl; [|apply (setup i Hf)].
  intros li [[[u w] pa] l]. unfold good; simpl. intros [Hu [Hi [Hp [Fr Hw]]]]. subst u w pa.
  rewrite stopped_after; [|eapply fresh_not_stopped; exact Fr|exact Hw].
  rewrite (fresh_resets _ _ Fr). reflexivity.
Qed.

Lemma problems_nil l : match problems l with [] => true | _ => false end = negb (existsb is_problem l).
Proof.
  induction l as [|o r IH]; [reflexivity|]. simpl. unfold is_problem at 1.
  destruct (problem o); simpl; [reflexivity|exact IH].
Qed.

Lemma wf_has_leaf a : wf_stack a = true -> leaf_infos a <> [].
Proof.
  induction a as [ff txt| |c|l IH|x IH|x IH|t x IH] using adapter_ind'; simpl; intro H; try discriminate;
    try (intro E; apply map_eq_nil in E; revert E; apply IH; exact H).
  destruct l as [|x r]; [discriminate|]. simpl in H. apply andb_true_iff in H as [H1 _].
  inversion IH; subst. intro E. apply app_eq_nil in E as [E _]. apply map_eq_nil in E. revert E. apply H2. exact H1.
Qed.

Lemma forallb_const {A} (b : bool) (p : A -> bool) l : l <> [] -> Forall (fun x => p x = b) l -> forallb p l = b.
Proof.
  intros Hn H. induction H as [|x r Hx Hr IH]; [contradiction|]. simpl. rewrite Hx.
  destruct r; [apply andb_true_r|]. rewrite IH by discriminate. destruct b; reflexivity.
Qed.

Lemma F2_Forall_r {A B} (P : B -> Prop) (Q : A -> B -> Prop) a b :
  Forall2 Q a b -> (forall x y, Q x y -> P y) -> Forall P b.
Proof. intros H K. induction H; constructor; eauto. Qed.

(* C04_verdict *)
Lemma not_exists_all {A} (p : A -> bool) l : existsb p l = false -> Forall (fun x => p x = false) l.
Proof.
  intro H. apply Forall_forall. intros x Hin. destruct (p x) eqn:E; [|reflexivity].
  assert (existsb p l = true) by (apply existsb_exists; eauto). congruence.
Qed.

Lemma was_ok_after i pre : wf_stack (stack i) = true -> finding_F18 i = false -> has_e2s i = false -> has_foreign i = false ->
  was_ok (fold_left do_op pre (init (stack i) (set_after i))) = want_ok pre.
Proof.
  intros Hwf Hf He Hx. rewrite was_ok_lvs, lvs_after, forallb_forall_map.
  pose proof (setup i Hf) as S. simpl in S.
  apply forallb_const.
  - intro E. apply (wf_has_leaf _ Hwf). rewrite E in S. inversion S. reflexivity.
  - pose proof (not_exists_all _ _ He) as Hall. pose proof (not_exists_all _ _ Hx) as Hall'.
    clear He Hx. induction S as [|li sl I SL G _ IH]; [constructor|]. inversion Hall; inversion Hall'; subst.
    constructor; [|apply IH; assumption].
    destruct sl as [[[u w] pa] l]. unfold good in G; simpl in G. destruct G as [-> [_ [_ [Fr _]]]]. simpl.
    destruct l as [r0|e0|f0]; simpl in Fr; [|destruct Fr as [Fr _]; congruence|destruct Fr as [_ [_ [_ Fr]]]; congruence].
    destruct Fr as [_ [Fc _]].
    destruct (core_traj (li_tfr li, w, pa) pre r0) as [r' [Et Ec]]. rewrite Et. simpl in *.
    rewrite tr_ok_core, Ec, Fc. cbn [fst]. fold (cfold (li_tfr li) pre (fresh_core (li_text li))).
    rewrite (c_ok_problems (li_tfr li) pre _ (core_inv_holds _ _ _)). unfold want_ok. apply problems_nil.
Qed.

(* C04_summary *)
Lemma sums_after i : finding_F18 i = false ->
  let n0 := init (stack i) (set_after i) in
  Forall2 (fun li sums => (if li_text li
                           then forall2b (summary_okb (li_tfr li)) (before_stop_runs [] (hist i)) sums
                           else match sums with [] => true | _ => false end) = true)
          (leaf_infos (stack i)) (leaf_outs (fold_left do_op (hist i) n0)).
Proof.
  intros Hf n0. rewrite leaf_outs_lvs. unfold n0. rewrite lvs_after, map_map. apply F2_map_r.
  eapply Forall2_impl; [|apply (setup i Hf)].
  intros li [[[u w] pa] l]. unfold good; simpl. intros [Hu [_ [_ [Fr _]]]]. subst u.
  destruct l as [r0|e0|f0]; simpl in Fr.
  - destruct Fr as [_ [Fc _]].
    destruct (core_traj (li_tfr li, w, pa) (hist i) r0) as [r' [Et Ec]]. rewrite Et. simpl in Ec |- *.
    assert (Eo : tr_out r' = c_out (core_of r')) by reflexivity. rewrite Eo, Ec, Fc.
    fold (cfold (li_tfr li) (hist i) (fresh_core (li_text li))).
    pose proof (c_out_after (li_tfr li) (fresh_core (li_text li)) (hist i) []) as O. simpl in O. rewrite O.
    destruct (li_text li); [|reflexivity].
    rewrite forall2b_map_r. apply forallb_forall. intros p _. apply summary_ok. apply core_inv_holds.
  - destruct Fr as [_ [Ft _]]. rewrite Ft. destruct (e2s_traj (li_tfr li, w, pa) (hist i) e0) as [e' Et].
    rewrite Et. reflexivity.
  - destruct Fr as [_ [Ft _]]. rewrite Ft. destruct (for_traj (li_tfr li, w, pa) (hist i) f0) as [f' Et].
    rewrite Et. reflexivity.
Qed.

(* ---------- the statement, calls made one after the other ---------- *)
Theorem model_seq_meets_spec : forall i ord, wf_stack (stack i) = true -> finding_F18 i = false ->
  spec_seq i (model_seq i ord) = true.
Proof.
  intros i ord Hwf Hf. unfold spec_seq, model_seq. set (n0 := init (stack i) (set_after i)).
  rewrite states_scan. apply andb_true_iff; split; [apply andb_true_iff; split|].
  - unfold verdict_okb. cbn [o_ok]. destruct (has_e2s i) eqn:He; [reflexivity|].
    destruct (has_foreign i) eqn:Hx; [reflexivity|]. simpl.
    rewrite map_map. erewrite map_ext_in; [apply lbool_eqb_refl|].
    intros pre _. apply was_ok_after; assumption.
  - unfold stop_okb. cbn [o_leaf_stop o_stop]. apply andb_true_iff; split.
    + rewrite map_map, forall2b_map_r. apply forallb_forall. intros pre _.
      unfold n0. rewrite leaf_stops_after by exact Hf. apply lbool_eqb_refl.
    + rewrite !map_map, forall2b_maps. apply forallb_forall. intros pre _.
      rewrite should_stop_any. destruct (existsb _ _); reflexivity.
  - unfold sums_okb. cbn [o_sums]. apply forall2b_F2. apply (sums_after i Hf).
Qed.

Lemma forall2b_sound {A B} (p : A -> B -> bool) (P : A -> B -> Prop) :
  (forall a b, p a b = true -> P a b) -> forall l m, forall2b p l m = true -> Forall2 P l m.
Proof.
  intros H l. induction l as [|x r IH]; intros [|y s] E; simpl in E; try discriminate; constructor;
    apply andb_true_iff in E as [E1 E2]; auto.
Qed.

Lemma lbool_eqb_eq a b : lbool_eqb a b = true -> a = b.
Proof. apply (proj1 (list_eqb_spec Bool.eqb bool_eqb_spec a b)). Qed.

Lemma sec_eq_dec (a b : nat * tid) : {a = b} + {a <> b}.
Proof. decide equality; apply Nat.eq_dec. Qed.

Lemma summary_okb_sound tfr h s : summary_okb tfr h s = true -> Summary_ok tfr h s.
Proof.
  unfold summary_okb, Summary_ok. intro H. apply andb_true_iff in H as [H H3]. apply andb_true_iff in H as [H1 H2].
  apply Nat.eqb_eq in H1. split; [exact H1|].
  assert (Ho : s_failed s = match problems (since_run h) with [] => None | _ => Some (length (problems (since_run h))) end).
  { apply (proj1 (option_eqb_spec Nat.eqb Nat.eqb_eq _ _)). exact H2. }
  split; [|split].
  - unfold want_ok. rewrite <- problems_nil, Ho. destruct (problems (since_run h)); split; congruence.
  - intros n Hn. rewrite Ho in Hn. destruct (problems (since_run h)); [discriminate|]. congruence.
  - intro x. unfold same_sections in H3. rewrite forallb_forall in H3.
    destruct (in_dec sec_eq_dec x (s_sections s ++ problems (since_run h))) as [Hin|Hn].
    + apply Nat.eqb_eq. apply H3. exact Hin.
    + assert (Z : forall l, ~ In x l -> count sec_eqb x l = 0).
      { intros l Hl. unfold count. induction l as [|y l IH]; [reflexivity|]. simpl.
        destruct (sec_eqb x y) eqn:E.
        - exfalso. apply Hl. left. unfold sec_eqb in E.
          apply (proj1 (pair_eqb_spec Nat.eqb Nat.eqb Nat.eqb_eq Nat.eqb_eq x y)) in E. congruence.
        - apply IH. intro Hi. apply Hl. right. exact Hi. }
      rewrite !Z; [reflexivity| |]; intro Hi; apply Hn; apply in_or_app; auto.
Qed.

Theorem spec_seq_sound : forall i o, spec_seq i o = true -> Spec_seq i o.
Proof.
  intros i o H. unfold spec_seq in H. apply andb_true_iff in H as [H H3]. apply andb_true_iff in H as [H1 H2].
  unfold stop_okb in H2. apply andb_true_iff in H2 as [H2a H2b]. unfold Spec_seq. repeat split.
  - intros He Hx. unfold verdict_okb in H1. rewrite He, Hx in H1. simpl in H1. apply lbool_eqb_eq in H1. rewrite H1.
    apply F2_map_r. clear. induction (prefixes (hist i)); constructor; auto.
  - revert H2a. apply forall2b_sound. intros h stops E. apply lbool_eqb_eq in E. subst stops.
    apply F2_map_r. clear. induction (leaf_infos (stack i)); constructor; auto.
  - revert H2b. apply forall2b_sound. intros top stops E. apply (proj1 (bool_eqb_spec _ _)) in E. exact E.
  - revert H3. apply forall2b_sound. intros li sums E. destruct (li_text li).
    + revert E. apply forall2b_sound. intros h s. apply summary_okb_sound.
    + destruct sums; [reflexivity|discriminate].
Qed.

Theorem spec_okb_sound : forall i o, spec_okb i o = true -> Spec i o.
Proof.
  intros i o H. unfold spec_okb in H. unfold Spec. destruct (conc i) as [[ths sch]|].
  - destruct (merge ths (o_order o)) as [h|]; [|discriminate]. exists h. split; [reflexivity|].
    apply spec_seq_sound. exact H.
  - apply andb_true_iff in H as [H1 H2]. split; [destruct (o_order o); [reflexivity|discriminate]|].
    apply spec_seq_sound. exact H2.
Qed.

(* ====================================================================== *)
(* 8b. several adapters, one semaphore: the scheduler lets every call happen *)
(* ====================================================================== *)
Definition pending (t : cth) : list op := if snd t then tl (fst t) else fst t.
Definition held_ok (t : cth) : Prop := snd t = true -> fst t <> [].
Definition weight (t : cth) : nat := 2 * length (fst t) - (if snd t then 1 else 0).
Definition total_weight (ts : list cth) : nat := fold_right (fun t a => weight t + a) 0 ts.

Lemma nth_error_set_nth {A} (l : list A) : forall k x, k < length l -> nth_error (set_nth k x l) k = Some x.
Proof. induction l as [|y r IH]; intros [|k] x H; simpl in *; try lia; [reflexivity|]. apply IH. lia. Qed.

Lemma map_set_nth {A B} (f : A -> B) (l : list A) : forall k x, map f (set_nth k x l) = set_nth k (f x) (map f l).
Proof. induction l as [|y r IH]; intros [|k] x; simpl; try reflexivity. rewrite IH. reflexivity. Qed.

Lemma set_nth_same {A} (l : list A) : forall k x, nth_error l k = Some x -> set_nth k x l = l.
Proof.
  induction l as [|y r IH]; intros [|k] x H; simpl in *; try discriminate; try reflexivity.
  - injection H as ->. reflexivity.
  - rewrite IH by exact H. reflexivity.
Qed.

Lemma Forall_set_nth {A} (P : A -> Prop) (l : list A) : forall k x, Forall P l -> P x -> Forall P (set_nth k x l).
Proof.
  induction l as [|y r IH]; intros [|k] x H Hx; simpl; try constructor; inversion H; subst; auto.
Qed.

Lemma weight_set_nth (ts : list cth) : forall k t t', nth_error ts k = Some t ->
  total_weight (set_nth k t' ts) + weight t = total_weight ts + weight t'.
Proof.
  induction ts as [|y r IH]; intros [|k] t t' H; simpl in *; try discriminate.
  - injection H as ->. lia.
  - specialize (IH k t t' H). lia.
Qed.

Lemma in_rotation want n k : k < n -> In k (rotation want n).
Proof.
  intro H. unfold rotation. assert (W : want mod n < n) by (apply Nat.mod_upper_bound; lia).
  apply in_or_app. destruct (Nat.lt_ge_cases k (want mod n)) as [L|G].
  - right. apply in_seq. lia.
  - left. apply in_seq. lia.
Qed.

Lemma find_none_all {A} (f : A -> bool) l : find f l = None -> forall x, In x l -> f x = false.
Proof. intros H x Hin. apply (find_none f l H x Hin). Qed.

(* unless every thread is through, the scheduler finds one to run *)
Lemma pick_some want ts : Forall held_ok ts -> forallb c_done ts = false ->
  exists k t, pick want ts = Some k /\ nth_error ts k = Some t /\ c_ready (negb (existsb snd ts)) t = true.
Proof.
  intros Inv Hnd. unfold pick. set (free := negb (existsb snd ts)).
  destruct (find _ (rotation want (length ts))) as [k|] eqn:E.
  - apply find_some in E as [_ E]. destruct (nth_error ts k) as [t|] eqn:Et; [|discriminate].
    exists k, t. auto.
  - exfalso.
    assert (R : exists k t, nth_error ts k = Some t /\ c_ready free t = true).
    { destruct (existsb snd ts) eqn:Eh.
      - apply existsb_exists in Eh as [t [Hin Hs]]. apply In_nth_error in Hin as [k Hk].
        exists k, t. split; [exact Hk|]. unfold c_ready. rewrite Hs. simpl. rewrite andb_true_r.
        rewrite Forall_forall in Inv. assert (Ht : In t ts) by (eapply nth_error_In; eauto).
        specialize (Inv t Ht Hs). unfold c_done. destruct (fst t); [contradiction|reflexivity].
      - assert (Hex : exists t, In t ts /\ c_done t = false).
        { clear -Hnd. induction ts as [|t r IH]; simpl in Hnd; [discriminate|].
          destruct (c_done t) eqn:Ed; [destruct (IH Hnd) as [t' [Hin Hd]]; exists t'; split; [right|]; auto|].
          exists t. split; [left; reflexivity|exact Ed]. }
        destruct Hex as [t [Hin Hd]]. apply In_nth_error in Hin as [k Hk].
        exists k, t. split; [exact Hk|]. unfold c_ready, free. rewrite Hd. simpl. apply orb_true_r. }
    destruct R as [k [t [Hk Hr]]].
    assert (Hlt : k < length ts) by (apply nth_error_Some; congruence).
    pose proof (find_none_all _ _ E k (in_rotation want _ _ Hlt)) as Z. simpl in Z. rewrite Hk in Z. congruence.
Qed.

Lemma merge_done ths : forallb is_nil ths = true -> merge ths [] = Some [].
Proof. intro H. simpl. rewrite H. reflexivity. Qed.

(* with enough fuel the scheduler's order uses every call of every thread exactly once, in program order *)
Lemma run_sched_complete : forall fuel ts sch, Forall held_ok ts -> total_weight ts <= fuel ->
  exists h, merge (map pending ts) (run_sched fuel ts sch) = Some h.
Proof.
  induction fuel as [|f IH]; intros ts sch Inv Hw.
  - exists []. simpl. assert (Z : forallb is_nil (map pending ts) = true).
    { clear -Inv Hw. induction ts as [|t r IHr]; [reflexivity|]. simpl in *. inversion Inv; subst.
      assert (W0 : weight t = 0) by lia. assert (Wr : total_weight r <= 0) by lia.
      rewrite (IHr H2 Wr), andb_true_r. unfold weight in W0. unfold pending.
      destruct t as [[|o l] [|]]; simpl in *; try reflexivity; try lia; try (exfalso; apply (H1 eq_refl); reflexivity). }
    rewrite Z. reflexivity.
  - simpl. destruct (forallb c_done ts) eqn:Ed.
    + exists []. simpl.
      assert (Z : forallb is_nil (map pending ts) = true).
      { clear -Ed Inv. induction ts as [|t r IHr]; [reflexivity|]. simpl in *. inversion Inv; subst.
        apply andb_true_iff in Ed as [E1 E2]. rewrite (IHr H2 E2), andb_true_r.
        unfold c_done in E1. unfold pending. destruct t as [[|o l] [|]]; simpl in *; try reflexivity; discriminate. }
      rewrite Z. reflexivity.
    + destruct (pick_some (hd 0 sch) ts Inv Ed) as [k [t [Hp [Hk Hr]]]]. rewrite Hp, Hk.
      unfold c_ready in Hr. apply andb_true_iff in Hr as [Hnd Hrun].
      destruct t as [[|o l] hold]; [discriminate|]. simpl in Hrun.
      assert (Hlt : k < length ts) by (apply nth_error_Some; congruence).
      destruct hold; simpl.
      * (* release *)
        assert (Inv' : Forall held_ok (set_nth k (l, false) ts))
          by (apply Forall_set_nth; [exact Inv|intro Hc; discriminate]).
        assert (Hw' : total_weight (set_nth k (l, false) ts) <= f).
        { pose proof (weight_set_nth ts k _ (l, false) Hk) as W. unfold weight in W. cbn [fst snd length] in W. unfold cth in *. lia. }
        destruct (IH _ (tl sch) Inv' Hw') as [h Hh]. exists h. rewrite <- Hh. f_equal.
        rewrite map_set_nth. symmetry. apply set_nth_same. rewrite nth_error_map, Hk. reflexivity.
      * (* acquire *)
        assert (Inv' : Forall held_ok (set_nth k (o :: l, true) ts))
          by (apply Forall_set_nth; [exact Inv|intros _; discriminate]).
        assert (Hw' : total_weight (set_nth k (o :: l, true) ts) <= f).
        { pose proof (weight_set_nth ts k _ (o :: l, true) Hk) as W. unfold weight in W. cbn [fst snd length] in W. unfold cth in *. lia. }
        destruct (IH _ (tl sch) Inv' Hw') as [h Hh]. exists (o :: h).
        rewrite nth_error_map, Hk. simpl. rewrite map_set_nth in Hh. unfold pending at 1 in Hh. simpl in Hh.
        unfold cth in *. rewrite Hh. reflexivity.
Qed.

Theorem linear_order_complete ths sch : exists h, merge ths (linear_order ths sch) = Some h.
Proof.
  unfold linear_order. set (ts := map (fun p : list op => (p, false)) ths).
  assert (E : map pending ts = ths).
  { unfold ts. rewrite map_map. unfold pending. simpl. apply map_id. }
  assert (H : exists h, merge (map pending ts) (run_sched (2 * length (concat ths)) ts sch) = Some h);
    [|rewrite E in H; exact H].
  apply run_sched_complete.
  - unfold ts. apply Forall_forall. intros t Hin. apply in_map_iff in Hin as [p [<- _]]. intro Hc. discriminate.
  - unfold ts. clear. induction ths as [|p r IH]; simpl; [lia|]. rewrite app_length. unfold weight at 1. simpl. lia.
Qed.

(* a merge uses every call exactly once *)
Lemma concat_set_nth (ths : list (list op)) : forall k o rest, nth_error ths k = Some (o :: rest) ->
  length (concat ths) = S (length (concat (set_nth k rest ths))).
Proof.
  induction ths as [|p q IH]; intros [|k] o rest H; simpl in *; try discriminate.
  - injection H as ->. reflexivity.
  - rewrite !app_length, (IH k o rest H). lia.
Qed.

Lemma merge_length : forall ord ths h, merge ths ord = Some h -> length h = length ord /\ length h = length (concat ths).
Proof.
  induction ord as [|k r IH]; intros ths h H; simpl in H.
  - destruct (forallb is_nil ths) eqn:E; [|discriminate]. injection H as <-. split; [reflexivity|].
    clear -E. induction ths as [|p q IHq]; [reflexivity|]. simpl in *. apply andb_true_iff in E as [E1 E2].
    destruct p; [|discriminate]. simpl. apply IHq. exact E2.
  - destruct (nth_error ths k) as [[|o rest]|] eqn:Ek; try discriminate.
    destruct (merge (set_nth k rest ths) r) as [h'|] eqn:Em; [|discriminate]. injection H as <-.
    destruct (IH _ _ Em) as [L1 L2]. simpl. split; [congruence|]. rewrite L2.
    symmetry. eapply concat_set_nth. exact Ek.
Qed.

(* ---------- the statement ---------- *)
Lemma finding_with_hist i h : finding_F18 (with_hist i h) = finding_F18 i.
Proof. reflexivity. Qed.

Theorem model_meets_spec : forall i, wf i -> finding_F18 i = false -> spec_okb i (model i) = true.
Proof.
  intros i [Hwf _] Hf. unfold spec_okb, model. destruct (conc i) as [[ths sch]|].
  - destruct (linear_order_complete ths sch) as [h Hh]. rewrite Hh. cbn [o_order model_seq]. rewrite Hh.
    apply model_seq_meets_spec; [exact Hwf|exact Hf].
  - simpl. apply model_seq_meets_spec; assumption.
Qed.

Lemma conc_model i ths sch : conc i = Some (ths, sch) ->
  exists h, merge ths (linear_order ths sch) = Some h
            /\ model i = model_seq (with_hist i (hist i ++ h)) (linear_order ths sch).
Proof.
  intro H. destruct (linear_order_complete ths sch) as [h Hh]. exists h. split; [exact Hh|].
  unfold model. rewrite H, Hh. reflexivity.
Qed.

(* ---------- stop() reaches everything below the node it is called on ---------- *)
Theorem stop_reaches_all n : Forall (fun b => b = true) (leaf_stops (stop n)).
Proof.
  rewrite leaf_stops_lvs, lvs_stop, map_map. apply Forall_forall. intros b Hin.
  apply in_map_iff in Hin as [l [<- _]]. destruct l; reflexivity.
Qed.

Theorem stop_at_reaches p n :
  Forall2 (fun pa b => is_prefix p pa = true -> b = true) (fpaths (frame n)) (leaf_stops (stop_at p n)).
Proof.
  rewrite leaf_stops_lvs, stop_at_ok. unfold map2. rewrite map_map.
  pose proof (fpaths_length n) as Hl. revert Hl. generalize (fpaths (frame n)) (lvs n).
  induction l as [|pa l IH]; intros [|x m] Hl; simpl in Hl; try discriminate; simpl; constructor.
  - unfold mark. simpl. intros ->. destruct x; reflexivity.
  - apply IH. injection Hl as Hl. exact Hl.
Qed.

(* the status the operating system reports for the run (sys.exit's argument mod 256) is 0 exactly for a
   successful run - the argument being a truth value, nothing is lost in the truncation *)
Theorem exit_status_ok ok : exit_status ok = 0 <-> ok = true.
Proof. destruct ok; vm_compute; split; intro H; try reflexivity; discriminate. Qed.
(* the run as a whole: the status is 0 exactly when no error / failure / unexpected success was reported since
   the last startTestRun - whatever else was or was not called: no startTest at all (nothing selected, everything
   skipped without being started), problems reported without a test having been started, ... *)
Theorem exit_after i pre : wf_stack (stack i) = true -> finding_F18 i = false -> has_e2s i = false ->
  has_foreign i = false ->
  (exit_status (was_ok (fold_left do_op pre (init (stack i) (set_after i)))) = 0
   <-> existsb is_problem (since_run pre) = false).
Proof.
  intros Hwf Hf He Hx. rewrite exit_status_ok, (was_ok_after i pre Hwf Hf He Hx). unfold want_ok.
  apply negb_true_iff.
Qed.
Theorem exit_arg_small ok : exit_arg ok < 256.
Proof. destruct ok; vm_compute; lia. Qed.
(* why a status that counts the problems would not do: the operating system truncates it *)
Theorem counting_status_wraps : forall n, os_status (256 * n) = 0.
Proof. intro n. unfold os_status. rewrite Nat.mul_comm. apply Nat.mod_mul. discriminate. Qed.

(* ---------- the comparison ---------- *)
Lemma sec_eqb_spec a b : sec_eqb a b = true <-> a = b.
Proof. apply pair_eqb_spec; apply Nat.eqb_eq. Qed.

Lemma summary_eqb_spec a b : summary_eqb a b = true <-> a = b.
Proof.
  unfold summary_eqb. destruct a as [r1 f1 s1], b as [r2 f2 s2]; simpl.
  rewrite !andb_true_iff, Nat.eqb_eq, (option_eqb_spec Nat.eqb Nat.eqb_eq).
  unfold sec_list_eqb. rewrite (list_eqb_spec sec_eqb sec_eqb_spec).
  split; [intros [[-> ->] ->]; reflexivity|intro H; injection H as -> -> ->; auto].
Qed.

Theorem obs_eqb_spec a b : obs_eqb a b = true <-> a = b.
Proof.
  unfold obs_eqb. destruct a as [a1 a2 a3 a4 a5], b as [b1 b2 b3 b4 b5]; simpl.
  rewrite !andb_true_iff. unfold lbool_eqb.
  rewrite !(list_eqb_spec Bool.eqb bool_eqb_spec).
  rewrite (list_eqb_spec _ (list_eqb_spec Bool.eqb bool_eqb_spec)).
  rewrite (list_eqb_spec _ (list_eqb_spec summary_eqb summary_eqb_spec)).
  rewrite (list_eqb_spec Nat.eqb Nat.eqb_eq).
  split; [intros [[[[-> ->] ->] ->] ->]; reflexivity|intro H; injection H as -> -> -> -> ->; auto].
Qed.

(* ---------- F18: the full statement is false of the faithful model ---------- *)
Definition witness_F18a : input :=
  {| stack := ATFR (ATR false false); set_after := Some true;
     hist := [StartRun; StartTest 1; Outcome KError true 1; StopTest 1]; conc := None |}.
Definition witness_F18b : input :=
  {| stack := AMulti [ATR true false]; set_after := None; hist := [Outcome KError true 1]; conc := None |}.

Theorem refuted_F18 :
  (wf witness_F18a /\ finding_F18 witness_F18a = true /\ spec_okb witness_F18a (model witness_F18a) = false)
  /\ (wf witness_F18b /\ finding_F18 witness_F18b = true /\ spec_okb witness_F18b (model witness_F18b) = false).
Proof. vm_compute. repeat split. Qed.

(* ====================================================================== *)
(* 9. where F18 can occur                                                 *)
(* ====================================================================== *)
(* a stack state in which nobody has failfast *)
Fixpoint all_off (n : node) : bool :=
  match n with
  | NTR r => negb (tr_ff r)
  | NE2S e => negb (e_ff e)
  | NFor f => negb (fo_ff f)
  | NMulti l => forallb (fun ec => negb (fst ec) && all_off (snd ec)) l
  | NTFR ff e x => negb ff && negb e && all_off x
  | NE2O e x => negb e && all_off x
  | NDeco ff x => match ff with Some true => false | _ => all_off x end
  end.

Lemma all_off_get n : all_off n = true -> get_ff n = false.
Proof.
  induction n as [r|e|f|l IH|ff e x IH|e x IH|ff x IH] using node_ind'; simpl; intro H.
  - apply negb_true_iff in H. exact H.
  - apply negb_true_iff in H. exact H.
  - apply negb_true_iff in H. exact H.
  - destruct l as [|ec r]; [reflexivity|]. simpl in H. apply andb_true_iff in H as [H _].
    apply andb_true_iff in H as [H1 H2]. inversion IH; subst.
    destruct (has_ff (snd ec)); [auto|apply negb_true_iff in H1; exact H1].
  - apply andb_true_iff in H as [H _]. apply andb_true_iff in H as [H _]. apply negb_true_iff in H. exact H.
  - apply andb_true_iff in H as [H1 H2]. destruct (has_ff x); [auto|apply negb_true_iff in H1; exact H1].
  - destruct ff as [[|]|]; try discriminate; reflexivity.
Qed.

Lemma all_off_e2o_get e x : e = false -> all_off x = true -> e2o_get (e, x) = false.
Proof. intros -> H. unfold e2o_get; simpl. destruct (has_ff x); [apply all_off_get; exact H|reflexivity]. Qed.

Lemma all_off_will n : all_off n = true -> forall cov, will_stop cov n = map (fun _ => cov) (lvs n).
Proof.
  induction n as [r|e|f|l IH|ff e x IH|e x IH|ff x IH] using node_ind'; simpl; intros H cov.
  - apply negb_true_iff in H. rewrite H, orb_false_r. reflexivity.
  - apply negb_true_iff in H. rewrite H, orb_false_r. reflexivity.
  - apply negb_true_iff in H. rewrite H, orb_false_r. reflexivity.
  - induction IH as [|ec r Hx _ IHr]; [reflexivity|]. simpl in H |- *.
    apply andb_true_iff in H as [H Hr]. apply andb_true_iff in H as [H1 H2]. apply negb_true_iff in H1.
    rewrite map_app, <- IHr by exact Hr. f_equal.
    destruct ec as [e c]; simpl in *. rewrite (all_off_e2o_get e c H1 H2), orb_false_r. apply Hx. exact H2.
  - apply andb_true_iff in H as [H H3]. apply andb_true_iff in H as [H1 H2]. apply negb_true_iff in H2.
    rewrite (all_off_e2o_get e x H2 H3), orb_false_r. apply IH. exact H3.
  - apply andb_true_iff in H as [H1 H2]. apply negb_true_iff in H1.
    rewrite (all_off_e2o_get e x H1 H2), orb_false_r. apply IH. exact H2.
  - apply IH. destruct ff as [[|]|]; try discriminate; exact H.
Qed.

Lemma all_off_set n : all_off n = true -> all_off (set_ff false n) = true.
Proof.
  induction n as [r|e|f|l IH|ff e x IH|e x IH|ff x IH] using node_ind'; simpl; intro H; try reflexivity.
  - rewrite forallb_forall_map. apply forallb_forall. intros ec Hin.
    rewrite forallb_forall in H. specialize (H ec Hin). apply andb_true_iff in H as [H1 H2].
    rewrite Forall_forall in IH. destruct (has_ff (snd ec)); simpl; [rewrite H1; simpl; apply IH; assumption|exact H2].
  - apply andb_true_iff in H as [H H3]. apply andb_true_iff in H as [_ H2]. rewrite H2, H3. reflexivity.
  - apply andb_true_iff in H as [H1 H2]. destruct (has_ff x); simpl; [rewrite H1; simpl; apply IH; exact H2|exact H2].
  - destruct ff as [[|]|]; try discriminate; exact H.
Qed.

Lemma lvs_length_build a : length (lvs (build a)) = length (leaf_infos a).
Proof.
  pose proof (build_descr a false) as M. rewrite <- (descr_lvs (build a) false), map_length.
  symmetry. clear -M. induction M; simpl; congruence.
Qed.

Lemma lvs_length_set b n : length (lvs (set_ff b n)) = length (lvs n).
Proof.
  pose proof (descr_set_ff b n false) as S. rewrite <- (descr_lvs n false), <- (descr_lvs (set_ff b n) false).
  rewrite !map_length. clear -S. induction S; simpl; congruence.
Qed.

Lemma no_ctor_all_off a : ff_ctor_anywhere a = false -> all_off (build a) = true.
Proof.
  induction a as [ff txt| |c|l IH|x IH|x IH|t x IH] using adapter_ind'; simpl; intro H; try reflexivity;
    try (apply IH; exact H).
  - rewrite H. reflexivity.
  - rewrite forallb_forall_map. apply forallb_forall. intros x Hin.
    rewrite Forall_forall in IH.
    assert (Hx : ff_ctor_anywhere x = false).
    { destruct (ff_ctor_anywhere x) eqn:E; [|reflexivity].
      assert (existsb ff_ctor_anywhere l = true) by (apply existsb_exists; eauto). congruence. }
    unfold e2o_set; simpl. destruct (has_ff (build x)); simpl; [apply all_off_set|]; apply IH; assumption.
Qed.

Lemma no_ctor_infos a : ff_ctor_anywhere a = false -> Forall (fun li => li_ff li = false) (leaf_infos a).
Proof.
  induction a as [ff txt| |c|l IH|x IH|x IH|t x IH] using adapter_ind'; intro H;
    try (simpl in *; apply Forall_forall; intros li Hin; apply in_map_iff in Hin as [li' [<- Hin']];
         specialize (IH H); rewrite Forall_forall in IH; simpl; apply IH; exact Hin').
  - simpl in *. constructor; [exact H|constructor].
  - simpl. constructor; [reflexivity|constructor].
  - simpl. constructor; [reflexivity|constructor].
  - rewrite leaf_infos_Multi. simpl in H. generalize 0.
    induction IH as [|x r Hx _ IHr]; intro k; simpl; [constructor|].
    simpl in H. apply orb_false_iff in H as [H1 H2]. apply Forall_app. split; [|apply IHr; exact H2].
    apply Forall_forall. intros li Hin. apply in_map_iff in Hin as [li' [<- Hin']].
    specialize (Hx H1). rewrite Forall_forall in Hx. simpl. apply Hx. exact Hin'.
Qed.

Lemma map_const_length {A B C} (c : C) (l : list A) (m : list B) :
  length l = length m -> map (fun _ => c) l = map (fun _ => c) m.
Proof. revert m. induction l; intros [|y m] H; simpl in *; try discriminate; [reflexivity|]. f_equal. auto. Qed.

Lemma li_ff_down j li : li_ff (li_down j li) = li_ff li.
Proof. reflexivity. Qed.

(* a stack built without failfast=True inside a MultiTestResult, nothing assigned afterwards:
   if an ExtendedToOriginalDecorator around it reads failfast = True, every result below has it *)
Lemma built_get a : ff_ctor_in_multi a = false -> e2o_get (false, build a) = true ->
  Forall (fun li => li_ff li = true) (leaf_infos a).
Proof.
  induction a as [ff txt| |c|l IH|x IH|x IH|t x IH] using adapter_ind'; unfold e2o_get; simpl; intros H G.
  - constructor; [exact G|constructor].
  - discriminate.
  - discriminate.
  - exfalso. destruct l as [|x r]; [discriminate|]. simpl in G, H. apply orb_false_iff in H as [H1 _].
    pose proof (no_ctor_all_off x H1) as Z.
    assert (Z' : all_off (snd (e2o_set false (false, build x))) = true /\ fst (e2o_set false (false, build x)) = false).
    { unfold e2o_set; simpl. destruct (has_ff (build x)); simpl; split; auto. apply all_off_set; exact Z. }
    destruct Z' as [Z1 Z2]. destruct (has_ff (snd (e2o_set false (false, build x)))).
    + rewrite (all_off_get _ Z1) in G. discriminate.
    + rewrite Z2 in G. discriminate.
  - discriminate.
  - apply Forall_forall. intros li Hin. apply in_map_iff in Hin as [li' [<- Hin']]. simpl.
    assert (G' : e2o_get (false, build x) = true) by exact G.
    specialize (IH H G'). rewrite Forall_forall in IH. apply IH. exact Hin'.
  - discriminate.
Qed.

Lemma built_will a : ff_ctor_in_multi a = false ->
  forall cov, will_stop cov (build a) = map (fun li => cov || li_ff li) (leaf_infos a).
Proof.
  induction a as [ff txt| |c|l IH|x IH|x IH|t x IH] using adapter_ind'; intros H cov;
    try (simpl; reflexivity).
  - rewrite leaf_infos_Multi. cbn [build will_stop]. simpl in H. generalize 0.
    induction l as [|x r IHl]; intro k; [reflexivity|]. simpl in H |- *.
    apply orb_false_iff in H as [H1 H2]. inversion IH; subst.
    rewrite map_app, <- (IHl H4 H2 (S k)). f_equal.
    pose proof (no_ctor_all_off x H1) as Z.
    set (ec := e2o_set false (false, build x)).
    assert (Z1 : all_off (snd ec) = true) by
      (unfold ec, e2o_set; simpl; destruct (has_ff (build x)); simpl; [apply all_off_set|]; exact Z).
    assert (Z2 : fst ec = false) by (unfold ec, e2o_set; simpl; destruct (has_ff (build x)); reflexivity).
    destruct ec as [e c] eqn:Eec. simpl in Z1, Z2.
    rewrite (all_off_e2o_get e c Z2 Z1), orb_false_r. simpl. rewrite (all_off_will c Z1).
    rewrite map_map.
    assert (Hl : length (lvs c) = length (leaf_infos x)).
    { replace c with (snd ec) by (rewrite Eec; reflexivity). unfold ec, e2o_set; simpl.
      destruct (has_ff (build x)); simpl; rewrite ?lvs_length_set; apply lvs_length_build. }
    rewrite (map_const_length cov _ _ Hl). apply map_ext_in. intros li Hin. simpl.
    pose proof (no_ctor_infos x H1) as F. rewrite Forall_forall in F. rewrite (F li Hin), orb_false_r. reflexivity.
  - simpl in H |- *. rewrite (IH H), map_map. simpl. apply map_ext_in. intros li Hin.
    destruct (e2o_get (false, build x)) eqn:G; [|rewrite orb_false_r; reflexivity].
    pose proof (built_get x H G) as F. rewrite Forall_forall in F. rewrite (F li Hin), !orb_true_r. reflexivity.
  - simpl in H |- *. rewrite (IH H), map_map. simpl. apply map_ext_in. intros li Hin.
    destruct (e2o_get (false, build x)) eqn:G; [|rewrite orb_false_r; reflexivity].
    pose proof (built_get x H G) as F. rewrite Forall_forall in F. rewrite (F li Hin), !orb_true_r. reflexivity.
  - simpl in H |- *. rewrite (IH H), map_map. reflexivity.
Qed.

Lemma has_ff_set b n : has_ff (set_ff b n) = true.
Proof. destruct n as [r|e|f|l|ff e x|e x|ff x]; simpl; try reflexivity. destruct (has_ff x); reflexivity. Qed.

Lemma set_set b b' n : set_ff b (set_ff b' n) = set_ff b n.
Proof.
  induction n as [r|e|f|l IH|ff e x IH|e x IH|ff x IH] using node_ind'; simpl; try reflexivity.
  - f_equal. rewrite map_map. apply map_ext_F. eapply Forall_impl; [|exact IH]. intros ec H. simpl.
    destruct (has_ff (snd ec)) eqn:E; simpl; [rewrite has_ff_set, H; reflexivity|rewrite E; reflexivity].
  - destruct (has_ff x) eqn:E; simpl; [rewrite has_ff_set, IH; reflexivity|rewrite E; reflexivity].
Qed.

Lemma plain_has_ff a : has_wrapper a = false -> has_ff (build a) = true.
Proof. destruct a; simpl; intro H; try reflexivity; discriminate. Qed.

(* the member a MultiTestResult holds after construction and a later assignment of failfast *)
Lemma plain_member b x : has_wrapper x = false ->
  e2o_set b (e2o_set false (false, build x)) = (false, set_ff b (build x)).
Proof.
  intro H. unfold e2o_set; simpl. rewrite (plain_has_ff x H). simpl. rewrite has_ff_set, set_set. reflexivity.
Qed.

Lemma plain_get b a : has_wrapper a = false -> get_ff (set_ff b (build a)) = true -> b = true.
Proof.
  induction a as [ff txt| |c|l IH|x IH|x IH|t x IH] using adapter_ind'; simpl; intros H G; try discriminate;
    try exact G.
  - destruct l as [|x r]; [discriminate|]. simpl in H, G. apply orb_false_iff in H as [H1 _].
    inversion IH; subst. fold (e2o_set false (false, build x)) in G.
    fold (e2o_set b (e2o_set false (false, build x))) in G. rewrite (plain_member b x H1) in G. simpl in G.
    rewrite has_ff_set in G. auto.
  - rewrite (plain_has_ff x H) in G. simpl in G. rewrite has_ff_set in G. auto.
Qed.

Lemma plain_will b a : has_wrapper a = false ->
  forall cov, will_stop cov (set_ff b (build a)) = map (fun _ => cov || b) (leaf_infos a).
Proof.
  induction a as [ff txt| |c|l IH|x IH|x IH|t x IH] using adapter_ind'; intros H cov; try (simpl; reflexivity);
    try (simpl in H; discriminate).
  - rewrite leaf_infos_Multi. cbn [build set_ff will_stop]. simpl in H. generalize 0.
    induction l as [|x r IHl]; intro k; [reflexivity|]. simpl in H. apply orb_false_iff in H as [H1 H2].
    inversion IH; subst. cbn [map flat_map ginfos]. rewrite map_app, <- (IHl H4 H2 (S k)). f_equal.
    fold (e2o_set false (false, build x)). fold (e2o_set b (e2o_set false (false, build x))).
    rewrite (plain_member b x H1). cbn [snd]. rewrite (H3 H1), map_map. apply map_ext. intros _.
    unfold e2o_get; simpl. rewrite has_ff_set.
    destruct (get_ff (set_ff b (build x))) eqn:G; [|rewrite orb_false_r; reflexivity].
    rewrite (plain_get b x H1 G), !orb_true_r. reflexivity.
  - simpl in H |- *. rewrite (plain_has_ff x H). simpl. rewrite (IH H), map_map. apply map_ext. intros _.
    unfold e2o_get; simpl. rewrite has_ff_set.
    destruct (get_ff (set_ff b (build x))) eqn:G; [|rewrite orb_false_r; reflexivity].
    rewrite (plain_get b x H G), !orb_true_r. reflexivity.
Qed.

(* F18 only where the finding says: failfast assigned on a stack that contains a ThreadsafeForwardingResult /
   TestResultDecorator / Tagger, or a failfast=True result inside a MultiTestResult *)
Theorem finding_F18_confined i : finding_F18 i = true ->
  set_on_wrapper_stack i = true \/ ff_ctor_in_multi (stack i) = true.
Proof.
  intro Hf. destruct (set_on_wrapper_stack i) eqn:Ew; [left; reflexivity|].
  destruct (ff_ctor_in_multi (stack i)) eqn:Ec; [right; reflexivity|]. exfalso.
  unfold finding_F18 in Hf. apply negb_true_iff in Hf.
  assert (E : effective_ff i = map (intended_ff i) (leaf_infos (stack i))).
  { unfold effective_ff, intended_ff, set_on_wrapper_stack, init in *. destruct (set_after i) as [b|].
    - rewrite (plain_will b _ Ew). reflexivity.
    - rewrite (built_will _ Ec). reflexivity. }
  rewrite E, lbool_eqb_refl in Hf. discriminate.
Qed.
