(* Lemmas behind Props/C04.v. *)
From TT Require Import Lib.Base Model.Result Spec.C04 Corr.C04.
