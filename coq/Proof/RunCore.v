(* Lemmas about the machine of Model/Run.v shared by C01, C02, C03, C05: what each step does
   to the control part of the state (log, caught exceptions, cleanup stack, force flag, result
   events), and the characterisation of a whole run by the declarative reading of Spec/Run.v. *)
From TT Require Import Lib.Base Gen.Handlers Model.Run Spec.Run.

Arguments on_exception : simpl never.
Arguments report_traceback : simpl never.
Arguments got_exception : simpl never.
Arguments add_mismatch : simpl never.
Arguments gather : simpl never.
Arguments use_fixture : simpl never.
Arguments exec_act : simpl never.
Arguments run_cleanup : simpl never.
Arguments run_user : simpl never.
Arguments flatten : simpl never.

(* ------------------------------------------------------------------ *)
(* steps that touch only details, cells, traceback counter             *)
(* ------------------------------------------------------------------ *)
Record quiet (s s' : st) : Prop := {
  q_log : log s' = log s;
  q_excs : excs s' = excs s;
  q_stack : stack s' = stack s;
  q_attrs : attrs s' = attrs s;
  q_force : force s' = force s;
  q_onexc : onexc s' = onexc s;
  q_tr : tr s' = tr s }.

Lemma quiet_refl s : quiet s s.
Proof. constructor; reflexivity. Qed.
Lemma quiet_trans a b c : quiet a b -> quiet b c -> quiet a c.
Proof. intros [] []; constructor; congruence. Qed.

Lemma quiet_fold {A} (f : st -> A -> st) :
  (forall s a, quiet s (f s a)) -> forall l s, quiet s (fold_left f l s).
Proof.
  intros H l; induction l as [|a r IH]; intros s; simpl; [apply quiet_refl|].
  eapply quiet_trans; [apply H | apply IH].
Qed.

Lemma quiet_add_detail n c s : quiet s (add_detail n c s).
Proof. constructor; reflexivity. Qed.
Lemma quiet_add_detail_unique n c s : quiet s (add_detail_unique n c s).
Proof. apply quiet_add_detail. Qed.
Lemma quiet_add_mismatch mm s : quiet s (add_mismatch mm s).
Proof. unfold add_mismatch. apply quiet_fold. intros; apply quiet_add_detail_unique. Qed.
Lemma quiet_gather src s : quiet s (gather src s).
Proof. unfold gather. apply quiet_fold. intros; apply quiet_add_detail. Qed.
Lemma quiet_report_traceback s : quiet s (report_traceback s).
Proof.
  unfold report_traceback. destruct (tb_label _ _ _ _) as [lab nxt].
  eapply quiet_trans; [|apply quiet_add_detail]. constructor; reflexivity.
Qed.

(* ------------------------------------------------------------------ *)
(* the result events other than handler calls                          *)
(* ------------------------------------------------------------------ *)
Definition is_call (e : tev) : bool := match e with THandler _ _ => false | _ => true end.
Definition calls (t : list tev) : list tev := filter is_call t.

Lemma calls_app a b : calls (a ++ b) = calls a ++ calls b.
Proof. apply filter_app. Qed.
Lemma calls_handlers (f : nat -> tev) l : (forall h, is_call (f h) = false) -> calls (map f l) = [].
Proof. intros H. induction l as [|x r IH]; simpl; [reflexivity|]. rewrite H. exact IH. Qed.

(* ------------------------------------------------------------------ *)
(* flatten never yields nothing (the repair of F3)                      *)
(* ------------------------------------------------------------------ *)
Section exc_ind'.
  Variable P : exc -> Prop.
  Hypothesis HE : forall c a, P (Exc c a).
  Hypothesis HM : forall l, Forall P l -> P (Multi l).
  Fixpoint exc_ind' (e : exc) : P e :=
    match e with
    | Exc c a => HE c a
    | Multi l => HM l ((fix go (l : list exc) : Forall P l :=
                          match l with [] => Forall_nil _ | x :: r => Forall_cons x (exc_ind' x) (go r) end) l)
    end.
End exc_ind'.

Definition flatten_list (l : list exc) : list exc := flat_map flatten l.
Lemma flatten_multi x r : flatten (Multi (x :: r)) = flatten x ++ flatten_list r.
Proof. reflexivity. Qed.

Lemma flatten_nonempty e : flatten e <> [].
Proof.
  induction e as [c a | l IH] using exc_ind'; [discriminate|].
  destruct l as [|x r]; [discriminate|]. rewrite flatten_multi.
  inversion IH as [|? ? Hx _]; subst. intro E. apply app_eq_nil in E. destruct E as [E _]. exact (Hx E).
Qed.

Lemma caught_nonempty r : caught r = [] <-> r = None.
Proof.
  destruct r as [e|]; simpl; split; intro H; try reflexivity; try discriminate.
  exfalso; exact (flatten_nonempty e H).
Qed.

(* ------------------------------------------------------------------ *)
(* _got_user_exception                                                  *)
(* ------------------------------------------------------------------ *)
Lemma on_exception_spec e s :
  let s' := on_exception e s in
  log s' = log s /\ excs s' = excs s /\ stack s' = stack s /\ attrs s' = attrs s /\ force s' = force s
  /\ onexc s' = onexc s /\ calls (tr s') = calls (tr s).
Proof.
  unfold on_exception.
  assert (Q : quiet s (if no_traceback (cls_of e) then s else report_traceback s)).
  { destruct (no_traceback _); [apply quiet_refl | apply quiet_report_traceback]. }
  destruct Q as [Q1 Q2 Q3 Q4 Q5 Q6 Q7]. simpl. repeat split; try assumption.
  rewrite calls_app, calls_handlers by reflexivity. rewrite app_nil_r. now rewrite Q7.
Qed.

Definition got_step (s : st) (x : exc) : st :=
  let s1 := on_exception x s in set_excs (excs s1 ++ [x]) s1.

Lemma got_exception_gen l : forall s,
  let s' := fold_left got_step l s in
  log s' = log s /\ excs s' = excs s ++ l /\ stack s' = stack s /\ attrs s' = attrs s /\ force s' = force s
  /\ onexc s' = onexc s /\ calls (tr s') = calls (tr s).
Proof.
  induction l as [|x r IH]; intros s; cbn [fold_left].
  - rewrite app_nil_r. repeat split.
  - specialize (IH (got_step s x)). cbv zeta in IH.
    destruct IH as (I1 & I2 & I3 & I4 & I5 & I6 & I7).
    destruct (on_exception_spec x s) as (O1 & O2 & O3 & O4 & O5 & O6 & O7).
    cbv zeta. rewrite I1, I2, I3, I4, I5, I6, I7. unfold got_step; cbn [log excs stack attrs force onexc tr set_excs].
    repeat split; try assumption.
    rewrite O2, <- app_assoc. reflexivity.
Qed.

Lemma got_exception_spec e s :
  let s' := got_exception e s in
  log s' = log s /\ excs s' = excs s ++ flatten e /\ stack s' = stack s /\ attrs s' = attrs s
  /\ force s' = force s /\ onexc s' = onexc s /\ calls (tr s') = calls (tr s).
Proof. apply got_exception_gen. Qed.

(* ------------------------------------------------------------------ *)
(* association lists: undoing a patch                                   *)
(* ------------------------------------------------------------------ *)
Lemma aput_aput_same k v w a : aget k a = Some w -> aput k w (aput k v a) = a.
Proof.
  induction a as [|[j x] r IH]; simpl; [discriminate|].
  destruct (Nat.eqb k j) eqn:E; simpl; rewrite E.
  - intros H; injection H as ->. reflexivity.
  - intros H. now rewrite IH.
Qed.
Lemma adel_aput_fresh k v a : aget k a = None -> adel k (aput k v a) = a.
Proof.
  induction a as [|[j x] r IH]; simpl.
  - now rewrite Nat.eqb_refl.
  - destruct (Nat.eqb k j) eqn:E; simpl; rewrite E; [discriminate|]. intros H. now rewrite IH.
Qed.

(* what the pending restore actions would make of vars(scratch), top of the stack first *)
Definition undo1 (a : list (nat * nat)) (k : cleanup) : list (nat * nat) :=
  match k with
  | KRestore x (Some v) => aput x v a
  | KRestore x None => adel x a
  | _ => a
  end.
Definition undo_all (stk : list cleanup) (a : list (nat * nat)) : list (nat * nat) := fold_left undo1 stk a.

Lemma undo_all_app x y a : undo_all (x ++ y) a = undo_all y (undo_all x a).
Proof. apply fold_left_app. Qed.

(* ------------------------------------------------------------------ *)
(* the cleanup stack read declaratively                                 *)
(* ------------------------------------------------------------------ *)
Definition ksize (k : cleanup) : nat := match k with KUser _ b => S (acts_size b) | _ => 1 end.
Definition stack_size (l : list cleanup) : nat := fold_right (fun k n => ksize k + n) 0 l.
Definition k_entries (k : cleanup) : list entry :=
  match k with
  | KUser t b => EUser t b :: pending b
  | KRestore a _ => [ERestore a]
  | KGather fx => [EGather fx]
  | KFxClean fx => [EFx fx]
  end.
Definition entries_of (l : list cleanup) : list entry := flat_map k_entries l.

Lemma stack_size_app a b : stack_size (a ++ b) = stack_size a + stack_size b.
Proof. induction a as [|k r IH]; simpl; [reflexivity|]. rewrite IH. lia. Qed.
Lemma entries_of_app a b : entries_of (a ++ b) = entries_of a ++ entries_of b.
Proof. apply flat_map_app. Qed.

Lemma act_entries_cleanup t b : act_entries (ACleanup t b) = EUser t b :: pending b.
Proof. reflexivity. Qed.
Lemma act_size_cleanup t b : act_size (ACleanup t b) = S (acts_size b).
Proof. reflexivity. Qed.

(* ------------------------------------------------------------------ *)
(* one step of user code on the control part of the state              *)
(* ------------------------------------------------------------------ *)
Record step (s s' : st) (lg : list lsh) (fc : bool) (new : list cleanup) : Prop := {
  st_log : map shape (log s') = map shape (log s) ++ lg;
  st_excs : excs s' = excs s;
  st_force : force s' = force s || fc;
  st_calls : calls (tr s') = calls (tr s);
  st_stack : stack s' = new ++ stack s;
  st_attrs : undo_all (stack s') (attrs s') = undo_all (stack s) (attrs s) }.

Lemma step_refl s : step s s [] false [].
Proof. constructor; simpl; rewrite ?app_nil_r, ?orb_false_r; reflexivity. Qed.

Lemma step_trans a b c lg1 lg2 f1 f2 n1 n2 :
  step a b lg1 f1 n1 -> step b c lg2 f2 n2 -> step a c (lg1 ++ lg2) (f1 || f2) (n2 ++ n1).
Proof.
  intros [A1 A2 A3 A4 A5 A6] [B1 B2 B3 B4 B5 B6]. constructor.
  - rewrite B1, A1, app_assoc. reflexivity.
  - congruence.
  - rewrite B3, A3, orb_assoc. reflexivity.
  - congruence.
  - rewrite B5, A5, app_assoc. reflexivity.
  - congruence.
Qed.

Lemma step_eq s s' lg fc new lg' fc' new' :
  step s s' lg fc new -> lg = lg' -> fc = fc' -> new = new' -> step s s' lg' fc' new'.
Proof. intros H -> -> ->. exact H. Qed.
Tactic Notation "step_chain" tactic(t) :=
  eapply step_eq; [t | try (simpl; rewrite ?app_nil_r, ?orb_false_r; reflexivity) ..].

Lemma quiet_step s s' : quiet s s' -> step s s' [] false [].
Proof.
  intros [Q1 Q2 Q3 Q4 Q5 Q6 Q7]. constructor; simpl; rewrite ?app_nil_r, ?orb_false_r; congruence.
Qed.

Lemma step_log s l : step s (add_log l s) (map shape l) false [].
Proof. constructor; simpl; rewrite ?orb_false_r, ?map_app; reflexivity. Qed.

(* fixtures *)
Lemma run_fx_cleanups_gen (l : list (nat * option exc)) : forall (s : st) (errs : list exc),
  let r := fold_left (fun (se : st * list exc) (c : nat * option exc) => (add_log [LTok (fst c)] (fst se),
                                   match snd c with Some e => snd se ++ [e] | None => snd se end)) l (s, errs) in
  step s (fst r) (map (fun c => STok (fst c)) l) false []
  /\ snd r = errs ++ flat_map (fun c : nat * option exc => match snd c with Some e => [e] | None => [] end) l.
Proof.
  induction l as [|c q IH]; intros s errs; cbn [fold_left].
  - cbv zeta. simpl. rewrite app_nil_r. split; [apply step_refl | reflexivity].
  - cbv zeta. cbn [fst snd].
    specialize (IH (add_log [LTok (fst c)] s) (match snd c with Some e => errs ++ [e] | None => errs end)).
    cbv zeta in IH. destruct IH as [I1 I2]. split.
    + step_chain (eapply step_trans; [apply (step_log s [LTok (fst c)]) | exact I1]).
    + rewrite I2. simpl. destruct (snd c); [rewrite <- app_assoc|]; reflexivity.
Qed.

Lemma run_fx_cleanups_spec cs s :
  step s (fst (run_fx_cleanups cs s)) (fx_cleanup_log cs) false []
  /\ snd (run_fx_cleanups cs s) = fx_errs cs.
Proof.
  unfold run_fx_cleanups, fx_cleanup_log, fx_errs. destruct (run_fx_cleanups_gen (rev cs) s []) as [A B].
  split; [exact A | exact B].
Qed.

Lemma fx_cleanup_spec cs s :
  step s (fst (fx_cleanup cs s)) (fx_cleanup_log cs) false []
  /\ snd (fx_cleanup cs s) = fx_cleanup_raise cs.
Proof.
  unfold fx_cleanup, fx_cleanup_raise. destruct (run_fx_cleanups_spec cs s) as [A B].
  destruct (run_fx_cleanups cs s) as [s1 errs]. simpl in *. subst errs. split; [exact A|].
  destruct (fx_errs cs) as [|e [|e' r]]; reflexivity.
Qed.

Lemma step_push k s :
  (match k return Prop with KRestore _ _ => False | _ => True end) ->
  step s (push k s) [] false [k].
Proof.
  intros H. constructor; simpl; rewrite ?app_nil_r, ?orb_false_r; try reflexivity.
  destruct k; try reflexivity. contradiction.
Qed.

Lemma use_fixture_spec fx s :
  snd (use_fixture fx s) = fixture_raise fx
  /\ exists new, step s (fst (use_fixture fx s)) (act_log (AFixture fx)) false new
                 /\ entries_of new = act_entries (AFixture fx)
                 /\ stack_size new <= 2.
Proof.
  unfold use_fixture, fixture_raise. cbn [act_log act_entries]. unfold fixture_raise.
  destruct (fx_fail fx) as [e|].
  - destruct (fx_old fx).
    + cbn [fst snd]. split; [reflexivity|]. exists []. split; [|split; [reflexivity | simpl; lia]].
      step_chain (eapply step_trans; [apply step_log | apply quiet_step, quiet_gather]).
    + destruct (run_fx_cleanups_spec (fx_cleanups fx) (add_log [LTok (fx_tok fx)] s)) as [A B].
      destruct (run_fx_cleanups _ _) as [s2 errs]. cbn [fst snd] in *. subst errs.
      split; [reflexivity|]. exists []. split; [|split; [reflexivity | simpl; lia]].
      step_chain (eapply step_trans; [apply step_log|]; eapply step_trans; [exact A | apply quiet_step, quiet_gather]).
  - cbn [fst snd]. split; [reflexivity|]. exists [KGather fx; KFxClean fx].
    split; [|split; [reflexivity | simpl; lia]].
    step_chain (eapply step_trans; [apply step_log|]; eapply step_trans; apply step_push; exact I).
Qed.

Lemma exec_act_spec a s :
  snd (exec_act a s) = act_raise a
  /\ exists new, step s (fst (exec_act a s)) (act_log a) (sets_force a) new
                 /\ entries_of new = match act_raise a with Some _ => [] | None => act_entries a end
                 /\ stack_size new <= act_size a.
Proof.
  destruct a as [n loc | loc v | mm | mm | t body | a v | fx | h | | r p | e]; unfold exec_act.
  - split; [reflexivity|]. exists []. split; [apply quiet_step, quiet_add_detail | split; [reflexivity | simpl; lia]].
  - split; [reflexivity|]. exists []. split; [|split; [reflexivity | simpl; lia]].
    constructor; simpl; rewrite ?app_nil_r, ?orb_false_r; reflexivity.
  - split; [reflexivity|]. exists []. split; [|split; [reflexivity | simpl; lia]].
    pose proof (quiet_add_mismatch mm s) as [Q1 Q2 Q3 Q4 Q5 Q6 Q7].
    constructor; simpl; rewrite ?app_nil_r, ?orb_true_r; congruence.
  - split; [reflexivity|]. exists []. split; [apply quiet_step, quiet_add_mismatch | split; [reflexivity | simpl; lia]].
  - split; [reflexivity|]. exists [KUser t body]. split; [apply step_push; exact I|].
    split; [simpl; now rewrite app_nil_r | cbn [stack_size fold_right ksize]; rewrite act_size_cleanup; lia].
  - split; [reflexivity|]. exists [KRestore a (aget a (attrs s))]. split; [|split; [reflexivity | simpl; lia]].
    constructor; simpl; rewrite ?orb_false_r, ?map_app; try reflexivity.
    f_equal. destruct (aget a (attrs s)) eqn:G; [now apply aput_aput_same | now apply adel_aput_fresh].
  - destruct (use_fixture_spec fx s) as [A (new & B & C & D)]. split; [exact A|]. exists new.
    split; [exact B|]. split; [|exact D]. cbn [act_raise]. rewrite C. cbn [act_entries]. now destruct (fixture_raise fx).
  - split; [reflexivity|]. exists []. split; [|split; [reflexivity | simpl; lia]].
    constructor; simpl; rewrite ?app_nil_r, ?orb_false_r; reflexivity.
  - split; [reflexivity|]. exists []. split; [|split; [reflexivity | simpl; lia]].
    constructor; simpl; rewrite ?app_nil_r, ?orb_true_r; reflexivity.
  - destruct p as [e|]; cbn [act_raise].
    + destruct (isinstance e CFail); (split; [reflexivity|]); exists [];
        (split; [|split; [reflexivity | simpl; lia]]).
      * apply quiet_step. eapply quiet_trans; [apply quiet_add_detail | apply quiet_report_traceback].
      * apply quiet_step, quiet_add_detail.
    + split; [reflexivity|]. exists []. split; [apply quiet_step, quiet_add_detail | split; [reflexivity | simpl; lia]].
  - split; [reflexivity|]. exists []. split; [apply step_refl | split; [reflexivity | simpl; lia]].
Qed.

Lemma exec_acts_spec l : forall s,
  snd (exec_acts l s) = acts_raise l
  /\ exists new, step s (fst (exec_acts l s)) (acts_log l) (existsb sets_force (executed l)) new
                 /\ entries_of new = pending l
                 /\ stack_size new <= acts_size l.
Proof.
  induction l as [|a r IH]; intros s.
  - simpl. split; [reflexivity|]. exists []. split; [apply step_refl | split; [reflexivity | simpl; lia]].
  - cbn [exec_acts acts_raise executed pending]. unfold acts_log. cbn [executed flat_map existsb].
    destruct (exec_act_spec a s) as [A (new & B & C & D)].
    destruct (exec_act a s) as [s1 ra]. cbn [fst snd] in *. subst ra.
    destruct (act_raise a) as [e|].
    + cbn [fst snd]. split; [reflexivity|]. exists new. split; [|split; [exact C | cbn [acts_size fold_right]; lia]].
      cbn [flat_map existsb]. rewrite app_nil_r, orb_false_r. exact B.
    + destruct (IH s1) as [A' (new' & B' & C' & D')]. split; [exact A'|]. exists (new' ++ new).
      split; [eapply step_trans; [exact B | exact B']|].
      split; [rewrite entries_of_app, C, C'; reflexivity|].
      rewrite stack_size_app. cbn [acts_size fold_right]. fold (acts_size r). lia.
Qed.

(* ------------------------------------------------------------------ *)
(* the cleanup machine                                                  *)
(* ------------------------------------------------------------------ *)
Definition entries_log (l : list entry) : list lsh := flat_map entry_log l.
Definition entries_excs (l : list entry) : list exc := flat_map (fun e => caught (entry_raise e)) l.
Definition entries_force (l : list entry) : bool := existsb entry_forces l.

Lemma entries_excs_app a b : entries_excs (a ++ b) = entries_excs a ++ entries_excs b.
Proof. apply flat_map_app. Qed.
Lemma entries_log_app a b : entries_log (a ++ b) = entries_log a ++ entries_log b.
Proof. apply flat_map_app. Qed.
Lemma entries_force_app a b : entries_force (a ++ b) = entries_force a || entries_force b.
Proof. apply existsb_app. Qed.

(* what a piece of the run did to the control part of the state *)
Record ran (s s' : st) (lg : list lsh) (ex : list exc) (fc : bool) : Prop := {
  rn_log : map shape (log s') = map shape (log s) ++ lg;
  rn_excs : excs s' = excs s ++ ex;
  rn_force : force s' = force s || fc;
  rn_calls : calls (tr s') = calls (tr s) }.

Lemma ran_refl s : ran s s [] [] false.
Proof. constructor; rewrite ?app_nil_r, ?orb_false_r; reflexivity. Qed.
Lemma ran_trans a b c l1 l2 e1 e2 f1 f2 :
  ran a b l1 e1 f1 -> ran b c l2 e2 f2 -> ran a c (l1 ++ l2) (e1 ++ e2) (f1 || f2).
Proof.
  intros [A1 A2 A3 A4] [B1 B2 B3 B4]. constructor.
  - rewrite B1, A1, app_assoc. reflexivity.
  - rewrite B2, A2, app_assoc. reflexivity.
  - rewrite B3, A3, orb_assoc. reflexivity.
  - congruence.
Qed.
Lemma ran_eq s s' lg ex fc lg' ex' fc' :
  ran s s' lg ex fc -> lg = lg' -> ex = ex' -> fc = fc' -> ran s s' lg' ex' fc'.
Proof. intros H -> -> ->. exact H. Qed.

Definition raisedb (r : option exc) : bool := match r with Some _ => true | None => false end.

(* _run_user around a step *)
Lemma run_user_spec s s1 oe lg fc new :
  step s s1 lg fc new ->
  let r := run_user (s1, oe) in
  snd r = raisedb oe
  /\ ran s (fst r) lg (caught oe) fc
  /\ stack (fst r) = new ++ stack s
  /\ undo_all (stack (fst r)) (attrs (fst r)) = undo_all (stack s) (attrs s).
Proof.
  intros [S1 S2 S3 S4 S5 S6]. unfold run_user. destruct oe as [e|]; cbn [fst snd caught raisedb].
  - destruct (got_exception_spec e s1) as (G1 & G2 & G3 & G4 & G5 & G6 & G7).
    split; [reflexivity|]. split; [constructor; congruence|]. split; congruence.
  - split; [reflexivity|]. split; [constructor; rewrite ?app_nil_r; congruence|]. split; congruence.
Qed.

Definition entry_hd (k : cleanup) : entry :=
  match k with
  | KUser t b => EUser t b | KRestore a _ => ERestore a | KGather fx => EGather fx | KFxClean fx => EFx fx
  end.
Definition k_rest (k : cleanup) : list entry := match k with KUser _ b => pending b | _ => [] end.
Lemma k_entries_split k : k_entries k = entry_hd k :: k_rest k.
Proof. destruct k; reflexivity. Qed.

(* an entry of _cleanups being called, the entry already popped *)
Lemma run_cleanup_spec k s :
  let r := run_cleanup k s in
  snd r = entry_raise (entry_hd k)
  /\ map shape (log (fst r)) = map shape (log s) ++ entry_log (entry_hd k)
  /\ excs (fst r) = excs s
  /\ force (fst r) = force s || entry_forces (entry_hd k)
  /\ calls (tr (fst r)) = calls (tr s)
  /\ exists new, stack (fst r) = new ++ stack s /\ entries_of new = k_rest k /\ stack_size new < ksize k
                 /\ undo_all (stack (fst r)) (attrs (fst r)) = undo_all (stack s) (undo1 (attrs s) k).
Proof.
  destruct k as [t b | a old | fx | fx]; unfold run_cleanup; cbv zeta.
  - destruct (exec_acts_spec b (add_log [LTok t] s)) as [A (new & B & C & D)].
    pose proof (step_trans _ _ _ _ _ _ _ _ _ (step_log s [LTok t]) B) as [S1 S2 S3 S4 S5 S6].
    cbn [entry_hd entry_raise entry_log entry_forces k_rest ksize undo1].
    split; [exact A|]. split; [exact S1|]. split; [exact S2|]. split; [exact S3|]. split; [exact S4|].
    exists new. rewrite app_nil_r in S5. split; [exact S5|]. split; [exact C|]. split; [lia | exact S6].
  - cbn [entry_hd entry_raise entry_log entry_forces k_rest ksize].
    destruct old as [v|]; cbn [fst snd]; simpl; rewrite ?orb_false_r, ?map_app;
      (repeat (split; [reflexivity|])); exists []; repeat split; simpl; lia.
  - destruct (quiet_gather (fx_source fx) s) as [Q1 Q2 Q3 Q4 Q5 Q6 Q7].
    cbn [entry_hd entry_raise entry_log entry_forces k_rest ksize undo1 fst snd].
    rewrite app_nil_r, orb_false_r. split; [reflexivity|]. repeat (split; [congruence|]).
    exists []. repeat split; simpl; try lia; congruence.
  - destruct (fx_cleanup_spec (fx_cleanups fx) s) as [[S1 S2 S3 S4 S5 S6] B].
    cbn [entry_hd entry_raise entry_log entry_forces k_rest ksize undo1].
    split; [exact B|]. split; [exact S1|]. split; [exact S2|]. split; [exact S3|]. split; [exact S4|].
    exists []. repeat split; simpl; try lia; assumption.
Qed.

Lemma stack_size_pos k r : 1 <= stack_size (k :: r).
Proof. simpl. destruct k; simpl; lia. Qed.

Theorem run_cleanups_spec fuel : forall s,
  stack_size (stack s) <= fuel ->
  exists s' failing,
    run_cleanups fuel s = (s', failing, false)
    /\ ran s s' (entries_log (entries_of (stack s))) (entries_excs (entries_of (stack s)))
                (entries_force (entries_of (stack s)))
    /\ failing = negb (match entries_excs (entries_of (stack s)) with [] => true | _ => false end)
    /\ stack s' = []
    /\ attrs s' = undo_all (stack s) (attrs s).
Proof.
  induction fuel as [|f IH]; intros s Hsz.
  - destruct (stack s) as [|k rest] eqn:Est.
    + exists s, false. simpl. rewrite Est. repeat split; try reflexivity; apply ran_refl.
    + pose proof (stack_size_pos k rest). lia.
  - destruct (stack s) as [|k rest] eqn:Est.
    + exists s, false. simpl. rewrite Est. repeat split; try reflexivity; apply ran_refl.
    + cbn [run_cleanups]. rewrite Est.
      pose proof (run_cleanup_spec k (set_stack rest s)) as R. cbv zeta in R.
      destruct (run_cleanup k (set_stack rest s)) as [s1 oe]. cbn [fst snd] in R.
      destruct R as (R1 & R2 & R3 & R4 & R5 & new & R6 & R7 & R8 & R9).
      cbn [log excs force tr stack attrs set_stack] in *.
      (* run_user by hand, since a restore entry changes vars(scratch) *)
      assert (U : exists s2, run_user (s1, oe) = (s2, raisedb oe)
                  /\ ran (set_stack rest s) s2 (entry_log (entry_hd k)) (caught oe) (entry_forces (entry_hd k))
                  /\ stack s2 = new ++ rest
                  /\ undo_all (stack s2) (attrs s2) = undo_all rest (undo1 (attrs s) k)).
      { unfold run_user. destruct oe as [e|]; cbn [raisedb caught].
        - destruct (got_exception_spec e s1) as (G1 & G2 & G3 & G4 & G5 & G6 & G7).
          eexists; split; [reflexivity|]. split; [constructor; cbn [log excs force tr set_stack]; congruence|].
          split; congruence.
        - eexists; split; [reflexivity|]. split; [constructor; cbn [log excs force tr set_stack]; rewrite ?app_nil_r; congruence|].
          split; congruence. }
      destruct U as (s2 & U1 & U2 & U3 & U4). rewrite U1.
      assert (Hsz2 : stack_size (stack s2) <= f).
      { rewrite U3, stack_size_app. simpl in Hsz. lia. }
      destruct (IH s2 Hsz2) as (s' & failing & I1 & I2 & I3 & I4 & I5). rewrite I1.
      exists s', (raisedb oe || failing). split; [reflexivity|].
      assert (EE : entries_of (k :: rest) = entry_hd k :: entries_of (stack s2)).
      { unfold entries_of at 1. cbn [flat_map]. rewrite k_entries_split. rewrite U3, entries_of_app, R7. reflexivity. }
      rewrite EE. split.
      { destruct U2 as [A1 A2 A3 A4]. destruct I2 as [B1 B2 B3 B4].
        cbn [log excs force tr set_stack] in *. constructor.
        - rewrite B1, A1, <- app_assoc. reflexivity.
        - rewrite B2, A2, <- app_assoc. unfold entries_excs at 2. cbn [flat_map]. rewrite <- R1. reflexivity.
        - rewrite B3, A3, <- orb_assoc. reflexivity.
        - congruence. }
      split.
      { rewrite I3. unfold entries_excs at 2. cbn [flat_map]. rewrite <- R1.
        destruct oe as [e|]; cbn [raisedb caught].
        - pose proof (flatten_nonempty e). destruct (flatten e); [contradiction | reflexivity].
        - reflexivity. }
      split; [exact I4|]. rewrite I5, U4. reflexivity.
Qed.

(* ------------------------------------------------------------------ *)
(* stages                                                               *)
(* ------------------------------------------------------------------ *)
Lemma run_method_spec m up s :
  snd (run_method m up s) = match acts_raise (snd m) with
                            | Some e => Some e
                            | None => if up then None else Some (Exc CValueError None)
                            end
  /\ exists new, step s (fst (run_method m up s)) (stage_log m) (existsb sets_force (executed (snd m))) new
                 /\ entries_of new = pending (snd m) /\ stack_size new <= acts_size (snd m).
Proof.
  unfold run_method. destruct (exec_acts_spec (snd m) (add_log [LTok (fst m)] s)) as [A (new & B & C & D)].
  pose proof (step_trans _ _ _ _ _ _ _ _ _ (step_log s [LTok (fst m)]) B) as S. rewrite app_nil_r in S.
  destruct (exec_acts (snd m) (add_log [LTok (fst m)] s)) as [s1 oe]. cbn [fst snd] in *. subst oe.
  destruct (acts_raise (snd m)); cbn [fst snd]; (split; [reflexivity|]); exists new;
    (split; [exact S | split; assumption]).
Qed.

Lemma run_test_method_spec p s :
  snd (run_test_method p s) = body_raise p
  /\ exists new, step s (fst (run_test_method p s)) (stage_log (p_body p))
                      (existsb sets_force (executed (snd (p_body p)))) new
                 /\ entries_of new = pending (snd (p_body p)) /\ stack_size new <= acts_size (snd (p_body p)).
Proof.
  unfold run_test_method, body_raise.
  destruct (exec_acts_spec (snd (p_body p)) (add_log [LTok (fst (p_body p))] s)) as [A (new & B & C & D)].
  pose proof (step_trans _ _ _ _ _ _ _ _ _ (step_log s [LTok (fst (p_body p))]) B) as S. rewrite app_nil_r in S.
  destruct (exec_acts (snd (p_body p)) (add_log [LTok (fst (p_body p))] s)) as [s1 oe]. cbn [fst snd] in *. subst oe.
  destruct (p_xfail p).
  - destruct (acts_raise (snd (p_body p))) as [e|].
    + destruct (isinstance e CException); cbn [fst snd]; (split; [reflexivity|]); exists new;
        (split; [|split; assumption]); [|exact S].
      step_chain (eapply step_trans; [exact S | apply quiet_step, quiet_report_traceback]).
    + cbn [fst snd]. split; [reflexivity|]. exists new. split; [exact S | split; assumption].
  - split; [reflexivity|]. exists new. split; [exact S | split; assumption].
Qed.

Lemma caught_nil r : caught r = [] <-> raisedb r = false.
Proof.
  destruct r as [e|]; simpl; split; intro H; try reflexivity; try discriminate.
  exfalso; exact (flatten_nonempty e H).
Qed.
Definition is_nil {A} (l : list A) : bool := match l with [] => true | _ => false end.
Lemma is_nil_app {A} (a b : list A) : is_nil (a ++ b) = is_nil a && is_nil b.
Proof. destruct a; reflexivity. Qed.
Lemma raisedb_caught r : raisedb r = negb (is_nil (caught r)).
Proof.
  destruct r as [e|]; simpl; [|reflexivity].
  pose proof (flatten_nonempty e). destruct (flatten e); [contradiction | reflexivity].
Qed.


(* the exceptions a run of [p] collects when force_failure is [f0] at its start *)
Definition collected (p : prog) (f0 : bool) : list exc :=
  raised_by_user p ++ (if setup_returns p && (f0 || forced p) then [Exc CFail None] else []).

(* _run_core on a program that is not skip-decorated *)
Theorem run_core_spec p fuel s :
  p_skip p = None -> stack s = [] -> prog_size p <= fuel ->
  exists s',
    run_core p fuel s = (s', false)
    /\ map shape (log s') = map shape (log s) ++ expected_log p
    /\ excs s' = excs s ++ collected p (force s)
    /\ force s' = force s || forced p
    /\ stack s' = [] /\ attrs s' = attrs s
    /\ (if is_nil (collected p (force s))
        then exists d, calls (tr s') = calls (tr s) ++ [TOut OSuccess d]
        else calls (tr s') = calls (tr s)).
Proof.
  intros Hskip Hst Hfuel. unfold run_core, collected, expected_log, raised_by_user, forced, cleanup_entries, skipped.
  rewrite Hskip. unfold prog_size in Hfuel.
  (* setUp *)
  destruct (run_method_spec (p_setup p) (p_up_setup p) s) as [A1 (n1 & B1 & C1 & D1)].
  fold (setup_raise p) in A1.
  destruct (run_method (p_setup p) (p_up_setup p) s) as [s1' oe1]. cbn [fst snd] in A1, B1. subst oe1.
  pose proof (run_user_spec _ _ (setup_raise p) _ _ _ B1) as U1. cbv zeta in U1.
  destruct (run_user (s1', setup_raise p)) as [s1 f1]. cbn [fst snd] in U1.
  destruct U1 as (F1 & R1 & K1 & T1). subst f1. rewrite Hst, app_nil_r in K1. rewrite Hst in T1. cbn [undo_all fold_left] in T1.
  unfold setup_returns. destruct (setup_raise p) as [e1|] eqn:Es; cbn [raisedb].
  - (* setUp failed: only the cleanups *)
    assert (Hsz : stack_size (stack s1) <= fuel) by (rewrite K1; lia).
    destruct (run_cleanups_spec fuel s1 Hsz) as (s2 & failing & I1 & I2 & I3 & I4 & I5). rewrite I1.
    exists s2. split; [reflexivity|]. rewrite K1, C1 in *.
    destruct R1 as [A1 A2 A3 A4]. destruct I2 as [B1' B2 B3 B4].
    cbn [andb]. rewrite !app_nil_r.
    split; [rewrite B1', A1, <- app_assoc; reflexivity|].
    split; [rewrite B2, A2, <- app_assoc; reflexivity|].
    split; [rewrite B3, A3; cbn [andb]; rewrite orb_false_r, <- orb_assoc; reflexivity|].
    split; [exact I4|]. split; [rewrite I5; exact T1|].
    rewrite is_nil_app. cbn [caught]. pose proof (flatten_nonempty e1). destruct (flatten e1); [contradiction|].
    cbn [is_nil andb]. congruence.
  - (* setUp returned *)
    destruct (run_test_method_spec p s1) as [A2 (n2 & B2 & C2 & D2)].
    destruct (run_test_method p s1) as [s2' oe2]. cbn [fst snd] in A2, B2. subst oe2.
    pose proof (run_user_spec _ _ (body_raise p) _ _ _ B2) as U2. cbv zeta in U2.
    destruct (run_user (s2', body_raise p)) as [s2 f2]. cbn [fst snd] in U2.
    destruct U2 as (F2 & R2 & K2 & T2). subst f2.
    destruct (run_method_spec (p_teardown p) (p_up_teardown p) s2) as [A3 (n3 & B3 & C3 & D3)].
    fold (teardown_raise p) in A3.
    destruct (run_method (p_teardown p) (p_up_teardown p) s2) as [s3' oe3]. cbn [fst snd] in A3, B3. subst oe3.
    pose proof (run_user_spec _ _ (teardown_raise p) _ _ _ B3) as U3. cbv zeta in U3.
    destruct (run_user (s3', teardown_raise p)) as [s3 f3]. cbn [fst snd] in U3.
    destruct U3 as (F3 & R3 & K3 & T3). subst f3.
    assert (K3' : stack s3 = n3 ++ n2 ++ n1) by (rewrite K3, K2, K1; reflexivity).
    assert (Hsz : stack_size (stack s3) <= fuel) by (rewrite K3', !stack_size_app; lia).
    destruct (run_cleanups_spec fuel s3 Hsz) as (s4 & failing & I1 & I2 & I3 & I4 & I5). rewrite I1.
    rewrite K3', !entries_of_app, C1, C2, C3 in I2, I3.
    set (E := pending (snd (p_teardown p)) ++ pending (snd (p_body p)) ++ pending (snd (p_setup p))) in *.
    destruct R1 as [a1 a2 a3 a4]. destruct R2 as [b1 b2 b3 b4]. destruct R3 as [c1 c2 c3 c4].
    destruct I2 as [d1 d2 d3 d4]. cbn [caught] in a2. rewrite app_nil_r in a2.
    assert (F4 : force s4 = force s || (existsb sets_force (executed (snd (p_setup p)))
                   || (existsb sets_force (executed (snd (p_body p))) || existsb sets_force (executed (snd (p_teardown p))))
                   || existsb entry_forces E)).
    { rewrite d3, c3, b3, a3. unfold entries_force. rewrite <- !orb_assoc. reflexivity. }
    assert (X4 : excs s4 = excs s ++ caught (body_raise p) ++ caught (teardown_raise p) ++ entries_excs E).
    { rewrite d2, c2, b2, a2, <- !app_assoc. reflexivity. }
    assert (L4 : map shape (log s4) = map shape (log s) ++ stage_log (p_setup p) ++
                   (stage_log (p_body p) ++ stage_log (p_teardown p)) ++ entries_log E).
    { rewrite d1, c1, b1, a1, <- !app_assoc. reflexivity. }
    assert (A4 : attrs s4 = attrs s) by (rewrite I5, T3, T2; exact T1).
    assert (C4 : calls (tr s4) = calls (tr s)) by congruence.
    cbn [andb caught app]. fold (entries_excs E). fold (entries_log E).
    set (forcedp := existsb sets_force (executed (snd (p_setup p)))
                    || (existsb sets_force (executed (snd (p_body p)))
                        || existsb sets_force (executed (snd (p_teardown p))))
                    || existsb entry_forces E) in *.
    change (failing = negb (is_nil (entries_excs E))) in I3.
    rewrite F4. subst failing. rewrite !raisedb_caught.
    destruct (force s || forcedp) eqn:Ef.
    + (* the forced failure *)
      destruct (got_exception_spec (Exc CFail None) s4) as (G1 & G2 & G3 & G4 & G5 & G6 & G7).
      rewrite !orb_true_r. eexists. split; [reflexivity|].
      split; [rewrite G1, L4; reflexivity|].
      split; [rewrite G2, X4, <- !app_assoc; reflexivity|].
      split; [rewrite G5; exact F4|].
      split; [congruence|]. split; [congruence|].
      rewrite !is_nil_app. cbn [is_nil]. rewrite !andb_false_r. congruence.
    + rewrite orb_false_r.
      destruct (is_nil (caught (body_raise p))) eqn:N2, (is_nil (caught (teardown_raise p))) eqn:N3,
               (is_nil (entries_excs E)) eqn:N4; cbn [negb orb];
        (eexists; split; [reflexivity|]);
        (split; [first [exact L4 | cbn [log add_tr set_tr]; exact L4]|]);
        (split; [cbn [excs add_tr set_tr]; rewrite X4, app_nil_r, <- !app_assoc; reflexivity|]);
        (split; [cbn [force add_tr set_tr]; exact F4|]);
        (split; [cbn [stack add_tr set_tr]; exact I4|]);
        (split; [cbn [attrs add_tr set_tr]; exact A4|]);
        rewrite app_nil_r, !is_nil_app, N2, N3, N4; cbn [andb];
        try exact C4.
      eexists. cbn [tr add_tr set_tr]. rewrite calls_app, C4. reflexivity.
Qed.

(* ------------------------------------------------------------------ *)
(* the whole run                                                        *)
(* ------------------------------------------------------------------ *)
(* the exceptions collected by a run that starts with force_failure = f0 *)
Definition collected_run (p : prog) (f0 : bool) : list exc := if skipped p then [] else collected p f0.

(* which outcome is reported for the collected exceptions, and what propagates *)
Definition decide (hs : list handler) (X : list exc) : option outcome * option exc :=
  match choose hs X with
  | None => (Some OSuccess, None)
  | Some e => match lookup hs e with
              | Some h => (h_out h, None)
              | None => (last_resort, Some e)
              end
  end.
Definition verdict (p : prog) (f0 : bool) : option outcome * option exc :=
  if skipped p then (Some OSkip, None) else decide (handlers p) (collected p f0).

Lemma choose_nil hs : choose hs [] = None.
Proof. reflexivity. Qed.
Lemma choose_some hs X : X <> [] -> exists e, choose hs X = Some e.
Proof.
  intros H. unfold choose. destruct (rev X) as [|l r] eqn:E.
  - apply (f_equal (@rev exc)) in E. rewrite rev_involutive in E. simpl in E. contradiction.
  - destruct (find _ _); eexists; reflexivity.
Qed.

Theorem run_from_spec p s :
  exists s' d,
    run_from p s = (s', snd (verdict p (force s)), false)
    /\ map shape (log s') = map shape (log s) ++ expected_log p
    /\ excs s' = collected_run p (force s)
    /\ force s' = force s || (negb (skipped p) && forced p)
    /\ stack s' = [] /\ attrs s' = attrs s
    /\ calls (tr s') = calls (tr s) ++ TStart :: match fst (verdict p (force s)) with
                                                 | Some o => [TOut o d]
                                                 | None => []
                                                 end ++ [TStop].
Proof.
  unfold run_from, run_prepared, verdict, collected_run, expected_log, skipped.
  destruct (p_skip p) as [r|] eqn:Hskip; fold (skipped p); fold (expected_log p).
  - (* skip-decorated: nothing runs *)
    unfold run_core. rewrite Hskip. cbn [excs add_tr set_tr set_excs tr reset set_tbgen set_dets set_stack choose rev].
    eexists. eexists. split; [reflexivity|].
    cbn [log excs force stack attrs tr add_tr set_tr set_excs reset set_tbgen set_dets set_stack fst snd negb andb].
    rewrite app_nil_r, orb_false_r, !calls_app. cbn [calls filter is_call app]. rewrite <- !app_assoc.
    repeat split; reflexivity.
  - set (s0 := set_excs [] (add_tr [TStart] (reset s))).
    assert (H0 : stack s0 = []) by reflexivity.
    destruct (run_core_spec p (S (prog_size p)) s0 Hskip H0 (Nat.le_succ_diag_r _))
      as (s1 & R & L1 & X1 & F1 & K1 & A1 & C1).
    unfold expected_log, skipped in L1. rewrite Hskip in L1.
    rewrite R. subst s0. cbn [log excs force stack attrs tr add_tr set_tr set_excs reset set_tbgen set_dets set_stack app] in *.
    cbn [negb andb]. rewrite X1. set (X := collected p (force s)) in *.
    assert (C0 : calls (tr s ++ [TStart]) = calls (tr s) ++ [TStart]) by (rewrite calls_app; reflexivity).
    rewrite C0 in C1. unfold decide.
    destruct X as [|x0 xr] eqn:EX.
    + (* nothing was caught: the success already reported *)
      cbn [is_nil] in C1. destruct C1 as [d C1]. rewrite choose_nil.
      exists (add_tr [TStop] s1), d. split; [reflexivity|].
      cbn [log excs force stack attrs tr add_tr set_tr fst snd].
      repeat (split; [assumption|]). rewrite calls_app, C1, <- !app_assoc. reflexivity.
    + cbn [is_nil] in C1.
      destruct (choose_some (handlers p) (x0 :: xr)) as [e He]; [discriminate|]. rewrite He.
      destruct (lookup (handlers p) e) as [h|] eqn:Hl; cbn [fst snd].
      * (* a handler claims it *)
        unfold call_handler.
        set (s1' := if h_reason h then add_detail n_reason (CReason (arg_of e)) s1 else s1).
        assert (Q : quiet s1 s1') by (subst s1'; destruct (h_reason h); [apply quiet_add_detail | apply quiet_refl]).
        destruct Q as [Q1 Q2 Q3 Q4 Q5 Q6 Q7].
        destruct (h_out h) as [o|].
        -- eexists. exists (current_details s1'). split; [reflexivity|].
           cbn [log excs force stack attrs tr add_tr set_tr]. rewrite Q1, Q2, Q3, Q4, Q5, Q7.
           repeat (split; [assumption|]). rewrite !calls_app, C1, <- !app_assoc. reflexivity.
        -- eexists. exists []. split; [reflexivity|].
           cbn [log excs force stack attrs tr add_tr set_tr]. rewrite Q1, Q2, Q3, Q4, Q5, Q7.
           repeat (split; [assumption|]). rewrite !calls_app, C1, <- !app_assoc. reflexivity.
      * (* no handler claims it: last resort, then it propagates *)
        destruct last_resort as [o|].
        -- eexists. exists (current_details s1). split; [reflexivity|].
           cbn [log excs force stack attrs tr add_tr set_tr].
           repeat (split; [assumption|]). rewrite !calls_app, C1, <- !app_assoc. reflexivity.
        -- eexists. exists []. split; [reflexivity|].
           cbn [log excs force stack attrs tr add_tr set_tr].
           repeat (split; [assumption|]). rewrite !calls_app, C1, <- !app_assoc. reflexivity.
Qed.

(* ------------------------------------------------------------------ *)
(* classes, the handler table, the choice of the reported exception   *)
(* ------------------------------------------------------------------ *)
(* ---------- decidable equalities ---------- *)
Lemma cls_eqb_spec a : forall b, cls_eqb a b = true <-> a = b.
Proof.
  induction a as [| | | | | | | | | | | | |p IH k]; intros b; destruct b; simpl; split; intro H;
    try reflexivity; try discriminate.
  - apply andb_true_iff in H as [H1 H2]. apply IH in H1. apply Nat.eqb_eq in H2. congruence.
  - injection H as -> ->. apply andb_true_iff; split; [apply IH; reflexivity | apply Nat.eqb_refl].
Qed.
Lemma cls_eqb_refl a : cls_eqb a a = true.
Proof. apply cls_eqb_spec; reflexivity. Qed.

Lemma outcome_eqb_spec a b : outcome_eqb a b = true <-> a = b.
Proof. destruct a, b; simpl; split; intro H; try reflexivity; discriminate. Qed.
(* ---------- the class order ---------- *)
Lemma subclass_in c d : subclass c d = true <-> In d (supers c).
Proof.
  unfold subclass. rewrite existsb_exists. split.
  - intros (x & Hx & E). apply cls_eqb_spec in E. subst. exact Hx.
  - intros H. exists d. split; [exact H | apply cls_eqb_refl].
Qed.
Lemma supers_incl c : forall d, In d (supers c) -> incl (supers d) (supers c).
Proof.
  induction c as [| | | | | | | | | | | | |p IH k]; intros d H;
    try (simpl in H; repeat (destruct H as [H|H]; [subst d; intros x Hx; simpl in *; tauto|]); contradiction).
  cbn [supers] in *. destruct H as [H|H].
  - subst d. cbn [supers]. apply incl_refl.
  - apply incl_tl. apply IH. exact H.
Qed.
Lemma subclass_trans a b c : subclass a b = true -> subclass b c = true -> subclass a c = true.
Proof. rewrite !subclass_in. intros H1 H2. exact (supers_incl a b H1 c H2). Qed.
Lemma subclass_refl a : subclass a a = true.
Proof. apply subclass_in. destruct a; simpl; auto. Qed.

(* ---------- facts about the generated handler table (by computation) ---------- *)
Lemma table_outcomes : forallb (fun h => match h_out h with Some _ => true | None => false end) generated_handlers = true.
Proof. vm_compute. reflexivity. Qed.
Lemma table_last_resort : last_resort = Some OErr.
Proof. vm_compute. reflexivity. Qed.
Lemma table_within_Exception : forallb (fun h => subclass (h_cls h) CException) generated_handlers = true.
Proof. vm_compute. reflexivity. Qed.
Lemma table_catch_all_last :
  match rev generated_handlers with h :: _ => cls_eqb (h_cls h) CException | [] => false end = true.
Proof. vm_compute. reflexivity. Qed.
Lemma table_complete : run_passes_table = true /\ length generated_handlers = length exception_handlers.
Proof. vm_compute. split; reflexivity. Qed.

Lemma catch_all_in : exists h, In h generated_handlers /\ h_cls h = CException.
Proof.
  pose proof table_catch_all_last as H. destruct (rev generated_handlers) as [|h r] eqn:E; [discriminate|].
  exists h. split; [|apply cls_eqb_spec; exact H].
  apply in_rev. rewrite E. left; reflexivity.
Qed.

Lemma handlers_report p h : In h (handlers p) -> exists o, h_out h = Some o.
Proof.
  unfold handlers. intros Hin. apply in_app_or in Hin. destruct Hin as [Hin|Hin].
  - apply in_map_iff in Hin. destruct Hin as (co & <- & _). eexists; reflexivity.
  - pose proof table_outcomes as T. rewrite forallb_forall in T. specialize (T h Hin).
    destruct (h_out h); [eexists; reflexivity | discriminate].
Qed.

(* ---------- choosing the exception to report ---------- *)
Lemma lookup_none hs e : lookup hs e = None <-> claims hs e = false.
Proof.
  unfold lookup, claims. induction hs as [|h r IH]; simpl; [tauto|].
  destruct (isinstance e (h_cls h)); simpl; [split; discriminate | exact IH].
Qed.
Lemma lookup_in hs e h : lookup hs e = Some h -> In h hs.
Proof. unfold lookup. intros H. apply find_some in H. tauto. Qed.

Lemma find_app {A} (f : A -> bool) a b :
  find f (a ++ b) = match find f a with Some x => Some x | None => find f b end.
Proof. induction a as [|x r IH]; simpl; [reflexivity|]. destruct (f x); [reflexivity | exact IH]. Qed.

Lemma find_ext' {A} (f g : A -> bool) l : (forall x, f x = g x) -> find f l = find g l.
Proof. intros H. induction l as [|x r IH]; simpl; [reflexivity|]. rewrite H, IH. reflexivity. Qed.

Lemma choose_spec hs X :
  X <> [] ->
  choose hs X = match find (fun e => negb (claims hs e)) X with
                | Some e => Some e
                | None => Some (last X (Exc CFail None))
                end.
Proof.
  intros HX. unfold choose.
  destruct (exists_last HX) as (front & lst & ->).
  rewrite rev_unit, removelast_last, find_app, last_last. simpl.
  destruct (find _ front); [reflexivity|]. destruct (negb (claims hs lst)); reflexivity.
Qed.

(* the verdict when something unclaimed was caught / when everything caught is claimed *)
Lemma decide_unclaimed hs X e :
  find (fun e => negb (claims hs e)) X = Some e -> decide hs X = (last_resort, Some e).
Proof.
  intros F. unfold decide. assert (HX : X <> []) by (intro; subst; discriminate).
  rewrite (choose_spec hs X HX), F. apply find_some in F. destruct F as [_ F].
  apply negb_true_iff in F. apply lookup_none in F. rewrite F. reflexivity.
Qed.
Lemma decide_claimed hs X :
  X <> [] -> find (fun e => negb (claims hs e)) X = None ->
  exists h, lookup hs (last X (Exc CFail None)) = Some h /\ decide hs X = (h_out h, None).
Proof.
  intros HX F. unfold decide. rewrite (choose_spec hs X HX), F.
  assert (C : claims hs (last X (Exc CFail None)) = true).
  { pose proof (find_none _ _ F (last X (Exc CFail None))) as N.
    destruct (exists_last HX) as (front & lst & ->). rewrite last_last in *.
    assert (I : In lst (front ++ [lst])) by (apply in_or_app; right; left; reflexivity).
    specialize (N I). now apply negb_false_iff in N. }
  destruct (lookup hs (last X (Exc CFail None))) as [h|] eqn:L.
  - exists h. split; reflexivity.
  - apply lookup_none in L. congruence.
Qed.

Lemma collected_run_raised p : collected_run p false = raised p.
Proof.
  unfold collected_run, raised, forced_failure, collected. destruct (skipped p) eqn:S; simpl.
  - unfold raised_by_user. rewrite S. reflexivity.
  - reflexivity.
Qed.

(* the outcome a run reports, for every program whose inserted handlers are for Exception-derived classes *)
Lemma verdict_outcome p f0 :
  exists o, fst (verdict p f0) = Some o.
Proof.
  unfold verdict. destruct (skipped p); [eexists; reflexivity|].
  unfold decide. destruct (choose (handlers p) (collected p f0)) as [e|]; [|eexists; reflexivity].
  destruct (lookup (handlers p) e) as [h|] eqn:L; cbn [fst].
  - apply lookup_in in L. exact (handlers_report p h L).
  - rewrite table_last_resort. eexists; reflexivity.
Qed.


(* ---------- the handler table implements the standard mapping ---------- *)
Lemma table_not_sub :
  forallb (fun h => match h_cls h with CSub _ _ => false | _ => true end) generated_handlers = true.
Proof. vm_compute. reflexivity. Qed.

Definition table_outcome (c : cls) : option outcome :=
  match find (fun h => subclass c (h_cls h)) generated_handlers with
  | Some h => h_out h
  | None => last_resort
  end.

Lemma find_ext_in {A} (f g : A -> bool) l : (forall x, In x l -> f x = g x) -> find f l = find g l.
Proof.
  induction l as [|x r IH]; intros H; simpl; [reflexivity|].
  rewrite (H x (or_introl eq_refl)), IH; [reflexivity|]. intros y Hy. apply H. right; exact Hy.
Qed.

Lemma subclass_sub p k d : subclass (CSub p k) d = cls_eqb d (CSub p k) || subclass p d.
Proof. reflexivity. Qed.

Lemma table_outcome_spec c : table_outcome c = Some (standard_outcome c).
Proof.
  induction c as [| | | | | | | | | | | | |p IH k]; try (vm_compute; reflexivity).
  assert (T : table_outcome (CSub p k) = table_outcome p).
  { unfold table_outcome. erewrite find_ext_in; [reflexivity|]. intros h Hin. cbv beta.
    rewrite subclass_sub. pose proof table_not_sub as N. rewrite forallb_forall in N. specialize (N h Hin).
    destruct (h_cls h); try discriminate; reflexivity. }
  rewrite T, IH. unfold standard_outcome. rewrite !subclass_sub. reflexivity.
Qed.

Lemma find_map {A B} (f : B -> bool) (g : A -> B) l : find f (map g l) = option_map g (find (fun a => f (g a)) l).
Proof. induction l as [|x r IH]; simpl; [reflexivity|]. destruct (f (g x)); [reflexivity | exact IH]. Qed.

(* what the handler list does with an exception is what the statement says it stands for *)
Lemma lookup_handlers p e :
  match lookup (handlers p) e with Some h => h_out h | None => last_resort end = Some (outcome_of p e).
Proof.
  unfold lookup, handlers, outcome_of, user_claim. rewrite find_app, find_map. cbn [user_handler h_cls].
  destruct (find (fun a => isinstance e (fst a)) (p_handlers p)) as [co|]; cbn [option_map]; [reflexivity|].
  exact (table_outcome_spec (cls_of e)).
Qed.

Lemma existsb_find {A} (f : A -> bool) l : existsb f l = match find f l with Some _ => true | None => false end.
Proof. induction l as [|x r IH]; simpl; [reflexivity|]. destruct (f x); [reflexivity | exact IH]. Qed.

Lemma generated_claims e : existsb (fun h => isinstance e (h_cls h)) generated_handlers = isinstance e CException.
Proof.
  apply eq_true_iff_eq. rewrite existsb_exists. split.
  - intros (h & Hin & Hh). pose proof table_within_Exception as T. rewrite forallb_forall in T.
    eapply subclass_trans; [exact Hh | exact (T h Hin)].
  - intros H. destruct catch_all_in as (h & Hin & Hc). exists h. split; [exact Hin|]. rewrite Hc. exact H.
Qed.

Lemma claims_handlers p e : claims (handlers p) e = claimed p e.
Proof.
  unfold claims, handlers, claimed, user_claim. rewrite existsb_app, generated_claims, existsb_find, find_map.
  cbn [user_handler h_cls]. destruct (find (fun a => isinstance e (fst a)) (p_handlers p)); reflexivity.
Qed.

(* the bracket, at the level of the model's trace: the calls on the result are startTest, one
   outcome, stopTest; no fuel problem; the cleanup stack is empty *)
Theorem run_bracket p a0 :
  exists s o d,
    run p a0 = (s, snd (verdict p false), false)
    /\ fst (verdict p false) = Some o
    /\ calls (tr s) = [TStart; TOut o d; TStop]
    /\ map shape (log s) = expected_log p
    /\ stack s = [].
Proof.
  unfold run. destruct (run_from_spec p (init a0)) as (s & d & R & L & X & F & K & A & C).
  destruct (verdict_outcome p false) as [o Ho]. exists s, o, d.
  cbn [force init log tr] in *. rewrite Ho in C. repeat split; assumption.
Qed.

