(* Lemmas about the machine of Model/Run.v shared by C01, C02, C03, C05: what each step does to
   the state - the control part (log, caught exceptions, cleanup stack, force flag, inserted
   handlers, result events) and the detail part (details dict, traceback counter, cells,
   addOnException handlers and their calls), the latter as a fold over the detail events of
   Spec/Run.v - and the characterisation of a whole run by the declarative reading of Spec/Run.v. *)
From TT Require Import Lib.Base Gen.Handlers Model.Run Spec.Run.

Arguments on_exception : simpl never.
Arguments report_traceback : simpl never.
Arguments got_exception : simpl never.
Arguments add_mismatch : simpl never.
Arguments gather : simpl never.
Arguments use_fixture : simpl never.
Arguments exec_act : simpl never.
Arguments run_cleanup : simpl never.
Arguments run_user : simpl never.
Arguments flatten : simpl never.
Arguments nl_dict : simpl never.
Arguments unique_name : simpl never.
Arguments tb_label : simpl never.

Lemma outcome_eqb_spec a b : outcome_eqb a b = true <-> a = b.
Proof. split; [destruct a, b; simpl; congruence | intros ->; destruct b; reflexivity]. Qed.

(* ------------------------------------------------------------------ *)
(* the result events other than handler calls; the handler calls        *)
(* ------------------------------------------------------------------ *)
Definition is_call (e : tev) : bool := match e with THandler _ _ => false | _ => true end.
Definition calls (t : list tev) : list tev := filter is_call t.
Definition hcalls (t : list tev) : list (nat * cls) :=
  flat_map (fun e => match e with THandler h c => [(h, c)] | _ => [] end) t.

Lemma calls_app a b : calls (a ++ b) = calls a ++ calls b.
Proof. apply filter_app. Qed.
Lemma hcalls_app a b : hcalls (a ++ b) = hcalls a ++ hcalls b.
Proof. apply flat_map_app. Qed.
Lemma calls_handlers (f : nat -> tev) l : (forall h, is_call (f h) = false) -> calls (map f l) = [].
Proof. intros H. induction l as [|x r IH]; simpl; [reflexivity|]. rewrite H. exact IH. Qed.
Lemma hcalls_handlers c l : hcalls (map (fun h => THandler h c) l) = map (fun h => (h, c)) l.
Proof. induction l as [|x r IH]; simpl; [reflexivity|]. now rewrite <- IH. Qed.

(* ------------------------------------------------------------------ *)
(* the detail part of the state and the model's reading of a detail event *)
(* ------------------------------------------------------------------ *)
Record dst := {
  d_dets : details; d_tbgen : nat; d_cells : list (nat * nat); d_onexc : list nat; d_calls : list (nat * cls) }.
Definition proj (s : st) : dst :=
  {| d_dets := dets s; d_tbgen := tbgen s; d_cells := cells s; d_onexc := onexc s; d_calls := hcalls (tr s) |}.
Definition dcell (loc : nat) (d : dst) : nat := match aget loc (d_cells d) with Some v => v | None => 0 end.
Definition d_put (n : dname) (c : content) (d : dst) : dst :=
  {| d_dets := dput n c (d_dets d); d_tbgen := d_tbgen d; d_cells := d_cells d; d_onexc := d_onexc d;
     d_calls := d_calls d |}.
Definition d_tb (d : dst) : dst :=
  let '(lab, nxt) := tb_label (length (d_dets d)) (d_tbgen d) n_traceback (d_dets d) in
  {| d_dets := dput lab CTb (d_dets d); d_tbgen := nxt; d_cells := d_cells d; d_onexc := d_onexc d;
     d_calls := d_calls d |}.
Definition papply (d : dst) (e : devent) : dst :=
  match e with
  | DUser n loc => d_put n (CLazy loc) d
  | DSetCell loc v => {| d_dets := d_dets d; d_tbgen := d_tbgen d; d_cells := aput loc v (d_cells d);
                         d_onexc := d_onexc d; d_calls := d_calls d |}
  | DMis n loc => d_put (unique_name n (d_dets d)) (CLazy loc) d
  | DStack => d_put (unique_name n_failed_expectation (d_dets d)) CStack d
  | DFx n loc => d_put (unique_name n (d_dets d)) (CSnap (dcell loc d)) d
  | DTb => d_tb d
  | DReason r => d_put n_reason (CReason r) d
  | DOnExc h => {| d_dets := d_dets d; d_tbgen := d_tbgen d; d_cells := d_cells d;
                   d_onexc := d_onexc d ++ [h]; d_calls := d_calls d |}
  | DExc c => let d1 := if no_traceback c then d else d_tb d in
              {| d_dets := d_dets d1; d_tbgen := d_tbgen d1; d_cells := d_cells d1; d_onexc := d_onexc d1;
                 d_calls := d_calls d1 ++ map (fun h => (h, c)) (d_onexc d1) |}
  end.
Definition prun (evs : list devent) (d : dst) : dst := fold_left papply evs d.
Lemma prun_app a b d : prun (a ++ b) d = prun b (prun a d).
Proof. apply fold_left_app. Qed.

(* ------------------------------------------------------------------ *)
(* steps that touch only the detail part                                *)
(* ------------------------------------------------------------------ *)
Record dstep (s s' : st) (evs : list devent) : Prop := {
  ds_log : log s' = log s;
  ds_excs : excs s' = excs s;
  ds_stack : stack s' = stack s;
  ds_attrs : attrs s' = attrs s;
  ds_force : force s' = force s;
  ds_uh : uh s' = uh s;
  ds_calls : calls (tr s') = calls (tr s);
  ds_det : proj s' = prun evs (proj s) }.

Lemma dstep_refl s : dstep s s [].
Proof. constructor; reflexivity. Qed.
Lemma dstep_trans a b c e1 e2 : dstep a b e1 -> dstep b c e2 -> dstep a c (e1 ++ e2).
Proof. intros [] []; constructor; try congruence. rewrite prun_app. congruence. Qed.
Lemma dstep_eq s s' e e' : dstep s s' e -> e = e' -> dstep s s' e'.
Proof. intros H ->. exact H. Qed.

Lemma dstep_fold {A} (f : st -> A -> st) (ev : A -> list devent) :
  (forall s a, dstep s (f s a) (ev a)) -> forall l s, dstep s (fold_left f l s) (flat_map ev l).
Proof.
  intros H l; induction l as [|a r IH]; intros s; simpl; [apply dstep_refl|].
  eapply dstep_trans; [apply H | apply IH].
Qed.
Lemma flat_map_single {A B} (f : A -> B) l : flat_map (fun a => [f a]) l = map f l.
Proof. induction l as [|x r IH]; simpl; [reflexivity|]. now rewrite IH. Qed.

Lemma ds_user n loc s : dstep s (add_detail n (CLazy loc) s) [DUser n loc].
Proof. constructor; reflexivity. Qed.
Lemma ds_mis n loc s : dstep s (add_detail_unique n (CLazy loc) s) [DMis n loc].
Proof. constructor; reflexivity. Qed.
Lemma ds_stack' s : dstep s (add_detail_unique n_failed_expectation CStack s) [DStack].
Proof. constructor; reflexivity. Qed.
Lemma ds_reason r s : dstep s (add_detail n_reason (CReason r) s) [DReason r].
Proof. constructor; reflexivity. Qed.
Lemma ds_setcell loc v s : dstep s (set_cells (aput loc v (cells s)) s) [DSetCell loc v].
Proof. constructor; reflexivity. Qed.
Lemma ds_onexc h s : dstep s (set_onexc (onexc s ++ [h]) s) [DOnExc h].
Proof. constructor; reflexivity. Qed.
Lemma proj_report_traceback s : proj (report_traceback s) = d_tb (proj s).
Proof.
  unfold report_traceback, d_tb. cbn [proj d_dets d_tbgen]. destruct (tb_label _ _ _ _) as [lab nxt]. reflexivity.
Qed.
Lemma ds_tb s : dstep s (report_traceback s) [DTb].
Proof.
  constructor; try (unfold report_traceback; destruct (tb_label _ _ _ _); reflexivity).
  apply proj_report_traceback.
Qed.
Lemma ds_mismatch mm s : dstep s (add_mismatch mm s) (mm_events mm).
Proof.
  unfold add_mismatch, mm_events. rewrite <- flat_map_single.
  apply (dstep_fold (fun s nl => add_detail_unique (fst nl) (CLazy (snd nl)) s)). intros; apply ds_mis.
Qed.

Lemma fold_left_map {A B C} (f : A -> B -> A) (g : C -> B) l a :
  fold_left f (map g l) a = fold_left (fun a c => f a (g c)) l a.
Proof. revert a; induction l as [|x r IH]; intros a; simpl; [reflexivity | apply IH]. Qed.

Lemma ds_gather fx s : dstep s (gather (fx_source fx) s) (fx_events fx).
Proof.
  unfold gather, fx_source, fx_events. rewrite fold_left_map, <- flat_map_single.
  apply (dstep_fold (fun s nl => add_detail (unique_name (fst nl) (dets s)) (snapshot s (CLazy (snd nl))) s)).
  intros; constructor; reflexivity.
Qed.
(* gathering details that were materialised when the cells were the same *)
Lemma ds_gather_snap l : forall s s1,
  cells s = cells s1 ->
  dstep s (gather (map (fun nc => (fst nc, snapshot s1 (snd nc))) (map (fun nl => (fst nl, CLazy (snd nl))) l)) s)
          (map (fun nl => DFx (fst nl) (snd nl)) l).
Proof.
  unfold gather. induction l as [|nl r IH]; intros s s1 Hc; cbn [map fold_left]; [apply dstep_refl|].
  change (DFx (fst nl) (snd nl) :: map (fun nl0 => DFx (fst nl0) (snd nl0)) r)
    with ([DFx (fst nl) (snd nl)] ++ map (fun nl0 => DFx (fst nl0) (snd nl0)) r).
  eapply dstep_trans; [|apply IH; cbn [fst snd snapshot cells add_detail set_dets]; exact Hc].
  cbn [fst snd snapshot]. constructor; try reflexivity.
  unfold proj, prun, dcell, d_put, cell; simpl. rewrite Hc. reflexivity.
Qed.

(* ------------------------------------------------------------------ *)
(* flatten never yields nothing (the repair of F3)                      *)
(* ------------------------------------------------------------------ *)
Section exc_ind'.
  Variable P : exc -> Prop.
  Hypothesis HE : forall c a, P (Exc c a).
  Hypothesis HM : forall l, Forall P l -> P (Multi l).
  Fixpoint exc_ind' (e : exc) : P e :=
    match e with
    | Exc c a => HE c a
    | Multi l => HM l ((fix go (l : list exc) : Forall P l :=
                          match l with [] => Forall_nil _ | x :: r => Forall_cons x (exc_ind' x) (go r) end) l)
    end.
End exc_ind'.

Definition flatten_list (l : list exc) : list exc := flat_map flatten l.
Lemma flatten_multi x r : flatten (Multi (x :: r)) = flatten x ++ flatten_list r.
Proof. reflexivity. Qed.

Lemma flatten_nonempty e : flatten e <> [].
Proof.
  induction e as [c a | l IH] using exc_ind'; [discriminate|].
  destruct l as [|x r]; [discriminate|]. rewrite flatten_multi.
  inversion IH as [|? ? Hx _]; subst. intro E. apply app_eq_nil in E. destruct E as [E _]. exact (Hx E).
Qed.

(* ------------------------------------------------------------------ *)
(* _got_user_exception                                                  *)
(* ------------------------------------------------------------------ *)
Lemma ds_on_exception e s : dstep s (on_exception e s) [DExc (cls_of e)].
Proof.
  unfold on_exception.
  assert (Q : dstep s (if no_traceback (cls_of e) then s else report_traceback s)
                      (if no_traceback (cls_of e) then [] else [DTb])).
  { destruct (no_traceback _); [apply dstep_refl | apply ds_tb]. }
  destruct Q as [Q1 Q2 Q3 Q4 Q5 Q6 Q7 Q8].
  set (s1 := if no_traceback (cls_of e) then s else report_traceback s) in *.
  constructor; cbn [log excs stack attrs force uh tr add_tr set_tr]; try assumption.
  - rewrite calls_app, calls_handlers by reflexivity. now rewrite app_nil_r.
  - assert (P1 : proj s1 = if no_traceback (cls_of e) then proj s else d_tb (proj s)).
    { rewrite Q8. destruct (no_traceback (cls_of e)); reflexivity. }
    cbn [prun fold_left papply]. rewrite <- P1.
    unfold proj at 1. cbn [dets tbgen cells onexc tr add_tr set_tr]. rewrite hcalls_app, hcalls_handlers. reflexivity.
Qed.

Definition got_step (s : st) (x : exc) : st :=
  let s1 := on_exception x s in set_excs (excs s1 ++ [x]) s1.

Lemma got_exception_gen l : forall s,
  let s' := fold_left got_step l s in
  log s' = log s /\ excs s' = excs s ++ l /\ stack s' = stack s /\ attrs s' = attrs s /\ force s' = force s
  /\ uh s' = uh s /\ calls (tr s') = calls (tr s)
  /\ proj s' = prun (map (fun x => DExc (cls_of x)) l) (proj s).
Proof.
  induction l as [|x r IH]; intros s; cbn [fold_left map].
  - rewrite app_nil_r. repeat split.
  - specialize (IH (got_step s x)). cbv zeta in IH.
    destruct IH as (I1 & I2 & I3 & I4 & I5 & I6 & I7 & I8).
    destruct (ds_on_exception x s) as [O1 O2 O3 O4 O5 O6 O7 O8].
    cbv zeta. rewrite I1, I2, I3, I4, I5, I6, I7, I8.
    unfold got_step; cbn [log excs stack attrs force uh tr set_excs].
    repeat split; try assumption.
    + rewrite O2, <- app_assoc. reflexivity.
    + cbn [prun fold_left] in *. rewrite <- O8. reflexivity.
Qed.

Lemma got_exception_spec e s :
  let s' := got_exception e s in
  log s' = log s /\ excs s' = excs s ++ flatten e /\ stack s' = stack s /\ attrs s' = attrs s
  /\ force s' = force s /\ uh s' = uh s /\ calls (tr s') = calls (tr s)
  /\ proj s' = prun (exc_events (Some e)) (proj s).
Proof. apply got_exception_gen. Qed.

(* ------------------------------------------------------------------ *)
(* association lists: undoing a patch                                   *)
(* ------------------------------------------------------------------ *)
Lemma aput_aput_same k v w a : aget k a = Some w -> aput k w (aput k v a) = a.
Proof.
  induction a as [|[j x] r IH]; simpl; [discriminate|].
  destruct (Nat.eqb k j) eqn:E; simpl; rewrite E.
  - intros H; injection H as ->. reflexivity.
  - intros H. now rewrite IH.
Qed.
Lemma adel_aput_fresh k v a : aget k a = None -> adel k (aput k v a) = a.
Proof.
  induction a as [|[j x] r IH]; simpl.
  - now rewrite Nat.eqb_refl.
  - destruct (Nat.eqb k j) eqn:E; simpl; rewrite E; [discriminate|]. intros H. now rewrite IH.
Qed.

(* what the pending restore actions would make of the namespaces of the patched objects, top of the stack first *)
Definition undo1 (a : list (nat * nat)) (k : cleanup) : list (nat * nat) :=
  match k with
  | KRestore x (Some v) => aput x v a
  | KRestore x None => adel x a
  | _ => a
  end.
Definition undo_all (stk : list cleanup) (a : list (nat * nat)) : list (nat * nat) := fold_left undo1 stk a.

(* ------------------------------------------------------------------ *)
(* the cleanup stack read declaratively                                 *)
(* ------------------------------------------------------------------ *)
Definition ksize (k : cleanup) : nat := match k with KUser _ b => S (acts_size b) | _ => 1 end.
Definition stack_size (l : list cleanup) : nat := fold_right (fun k n => ksize k + n) 0 l.
Definition k_entries (k : cleanup) : list entry :=
  match k with
  | KUser t b => EUser t b :: pending b
  | KRestore a _ => [ERestore a]
  | KGather fx => [EGather fx]
  | KFxClean fx => [EFx fx]
  end.
Definition entries_of (l : list cleanup) : list entry := flat_map k_entries l.

Lemma stack_size_app a b : stack_size (a ++ b) = stack_size a + stack_size b.
Proof. induction a as [|k r IH]; simpl; [reflexivity|]. rewrite IH. lia. Qed.
Lemma entries_of_app a b : entries_of (a ++ b) = entries_of a ++ entries_of b.
Proof. apply flat_map_app. Qed.

Lemma act_entries_cleanup t b : act_entries (ACleanup t b) = EUser t b :: pending b.
Proof. reflexivity. Qed.
Lemma act_size_cleanup t b : act_size (ACleanup t b) = S (acts_size b).
Proof. reflexivity. Qed.

(* ------------------------------------------------------------------ *)
(* one step of user code                                                *)
(* ------------------------------------------------------------------ *)
Record step (s s' : st) (lg : list lsh) (fc : bool) (new : list cleanup)
            (ins : list (cls * outcome)) (evs : list devent) : Prop := {
  st_log : map shape (log s') = map shape (log s) ++ lg;
  st_excs : excs s' = excs s;
  st_force : force s' = force s || fc;
  st_calls : calls (tr s') = calls (tr s);
  st_stack : stack s' = new ++ stack s;
  st_attrs : undo_all (stack s') (attrs s') = undo_all (stack s) (attrs s);
  st_uh : uh s' = rev ins ++ uh s;
  st_det : proj s' = prun evs (proj s) }.

Lemma step_refl s : step s s [] false [] [] [].
Proof. constructor; simpl; rewrite ?app_nil_r, ?orb_false_r; reflexivity. Qed.

Lemma step_trans a b c lg1 lg2 f1 f2 n1 n2 i1 i2 e1 e2 :
  step a b lg1 f1 n1 i1 e1 -> step b c lg2 f2 n2 i2 e2 ->
  step a c (lg1 ++ lg2) (f1 || f2) (n2 ++ n1) (i1 ++ i2) (e1 ++ e2).
Proof.
  intros [A1 A2 A3 A4 A5 A6 A7 A8] [B1 B2 B3 B4 B5 B6 B7 B8]. constructor.
  - rewrite B1, A1, app_assoc. reflexivity.
  - congruence.
  - rewrite B3, A3, orb_assoc. reflexivity.
  - congruence.
  - rewrite B5, A5, app_assoc. reflexivity.
  - congruence.
  - rewrite B7, A7, rev_app_distr, app_assoc. reflexivity.
  - rewrite prun_app. congruence.
Qed.

Lemma step_eq s s' lg fc new ins evs lg' fc' new' ins' evs' :
  step s s' lg fc new ins evs -> lg = lg' -> fc = fc' -> new = new' -> ins = ins' -> evs = evs' ->
  step s s' lg' fc' new' ins' evs'.
Proof. intros H -> -> -> -> ->. exact H. Qed.
Tactic Notation "step_chain" tactic(t) :=
  eapply step_eq; [t | try (simpl; rewrite ?app_nil_r, ?orb_false_r; reflexivity) ..].

Lemma dstep_step s s' evs : dstep s s' evs -> step s s' [] false [] [] evs.
Proof.
  intros [Q1 Q2 Q3 Q4 Q5 Q6 Q7 Q8]. constructor; simpl; rewrite ?app_nil_r, ?orb_false_r; congruence.
Qed.

Lemma step_log s l : step s (add_log l s) (map shape l) false [] [] [].
Proof. constructor; simpl; rewrite ?orb_false_r, ?map_app; reflexivity. Qed.

(* fixtures *)
Lemma run_fx_cleanups_gen (l : list (nat * option exc)) : forall (s : st) (errs : list exc),
  let r := fold_left (fun (se : st * list exc) (c : nat * option exc) => (add_log [LTok (fst c)] (fst se),
                                   match snd c with Some e => snd se ++ [e] | None => snd se end)) l (s, errs) in
  step s (fst r) (map (fun c => STok (fst c)) l) false [] [] []
  /\ snd r = errs ++ flat_map (fun c : nat * option exc => match snd c with Some e => [e] | None => [] end) l.
Proof.
  induction l as [|c q IH]; intros s errs; cbn [fold_left].
  - cbv zeta. simpl. rewrite app_nil_r. split; [apply step_refl | reflexivity].
  - cbv zeta. cbn [fst snd].
    specialize (IH (add_log [LTok (fst c)] s) (match snd c with Some e => errs ++ [e] | None => errs end)).
    cbv zeta in IH. destruct IH as [I1 I2]. split.
    + step_chain (eapply step_trans; [apply (step_log s [LTok (fst c)]) | exact I1]).
    + rewrite I2. simpl. destruct (snd c); [rewrite <- app_assoc|]; reflexivity.
Qed.

Lemma run_fx_cleanups_spec cs s :
  step s (fst (run_fx_cleanups cs s)) (fx_cleanup_log cs) false [] [] []
  /\ snd (run_fx_cleanups cs s) = fx_errs cs.
Proof.
  unfold run_fx_cleanups, fx_cleanup_log, fx_errs. destruct (run_fx_cleanups_gen (rev cs) s []) as [A B].
  split; [exact A | exact B].
Qed.

Lemma fx_cleanup_spec cs s :
  step s (fst (fx_cleanup cs s)) (fx_cleanup_log cs) false [] [] []
  /\ snd (fx_cleanup cs s) = fx_cleanup_raise cs.
Proof.
  unfold fx_cleanup, fx_cleanup_raise. destruct (run_fx_cleanups_spec cs s) as [A B].
  destruct (run_fx_cleanups cs s) as [s1 errs]. simpl in *. subst errs. split; [exact A|].
  destruct (fx_errs cs) as [|e [|e' r]]; reflexivity.
Qed.

Lemma step_push k s :
  (match k return Prop with KRestore _ _ => False | _ => True end) ->
  step s (push k s) [] false [k] [] [].
Proof.
  intros H. constructor; simpl; rewrite ?app_nil_r, ?orb_false_r; try reflexivity.
  destruct k; try reflexivity. contradiction.
Qed.

Lemma use_fixture_spec fx s :
  snd (use_fixture fx s) = fixture_raise fx
  /\ exists new, step s (fst (use_fixture fx s)) (act_log (AFixture fx)) false new [] (act_events (AFixture fx))
                 /\ entries_of new = act_entries (AFixture fx)
                 /\ stack_size new <= 2.
Proof.
  unfold use_fixture, fixture_raise. cbn [act_log act_entries act_events]. unfold fixture_raise.
  destruct (fx_fail fx) as [e|].
  - destruct (fx_eval_raise fx) as [g|].
    + (* a detail cannot be evaluated: what was gathered before it, the traceback, the new exception *)
      cbn [fst snd]. split; [reflexivity|]. exists []. split; [|split; [reflexivity | simpl; lia]].
      destruct (fx_old fx);
        step_chain (eapply step_trans; [apply step_log|]; eapply step_trans;
                    [apply dstep_step, ds_gather | apply dstep_step, ds_tb]).
    + destruct (fx_old fx).
      * cbn [fst snd]. split; [reflexivity|]. exists []. split; [|split; [reflexivity | simpl; lia]].
        step_chain (eapply step_trans; [apply step_log | apply dstep_step, ds_gather]).
      * destruct (run_fx_cleanups_spec (fx_cleanups fx) (add_log [LTok (fx_tok fx)] s)) as [A B].
        destruct (run_fx_cleanups _ _) as [s2 errs]. cbn [fst snd] in *. subst errs.
        split; [reflexivity|]. exists []. split; [|split; [reflexivity | simpl; lia]].
        assert (Hc : cells s2 = cells (add_log [LTok (fx_tok fx)] s)).
        { destruct A as [_ _ _ _ _ _ _ A8]. apply (f_equal d_cells) in A8. exact A8. }
        step_chain (eapply step_trans; [apply step_log|]; eapply step_trans;
                    [exact A | apply dstep_step; unfold fx_source, fx_events; apply ds_gather_snap; exact Hc]).
  - cbn [fst snd]. split; [reflexivity|]. exists [KGather fx; KFxClean fx].
    split; [|split; [reflexivity | simpl; lia]].
    step_chain (eapply step_trans; [apply step_log|]; eapply step_trans; apply step_push; exact I).
Qed.

Lemma exec_act_spec a s :
  snd (exec_act a s) = act_raise a
  /\ exists new, step s (fst (exec_act a s)) (act_log a) (sets_force a) new (act_inserts a) (act_events a)
                 /\ entries_of new = match act_raise a with Some _ => [] | None => act_entries a end
                 /\ stack_size new <= act_size a.
Proof.
  destruct a as [n loc | loc v | mm | mm | t body | a v | fx | h | | c o | r p | pk | e]; unfold exec_act.
  - split; [reflexivity|]. exists []. split; [apply dstep_step, ds_user | split; [reflexivity | simpl; lia]].
  - split; [reflexivity|]. exists []. split; [apply dstep_step, ds_setcell | split; [reflexivity | simpl; lia]].
  - split; [reflexivity|]. exists []. split; [|split; [reflexivity | simpl; lia]].
    pose proof (dstep_trans _ _ _ _ _ (ds_mismatch mm s) (ds_stack' (add_mismatch mm s))) as [Q1 Q2 Q3 Q4 Q5 Q6 Q7 Q8].
    constructor; cbn [fst log excs stack attrs force uh tr set_force act_log act_inserts act_events sets_force rev app];
      rewrite ?app_nil_r, ?orb_true_r; try congruence. exact Q8.
  - split; [reflexivity|]. exists []. split; [apply dstep_step, ds_mismatch | split; [reflexivity | simpl; lia]].
  - split; [reflexivity|]. exists [KUser t body]. split; [apply step_push; exact I|].
    split; [simpl; now rewrite app_nil_r | cbn [stack_size fold_right ksize]; rewrite act_size_cleanup; lia].
  - split; [reflexivity|]. exists [KRestore a (aget a (attrs s))]. split; [|split; [reflexivity | simpl; lia]].
    constructor; simpl; rewrite ?orb_false_r, ?map_app; try reflexivity.
    f_equal. destruct (aget a (attrs s)) eqn:G; [now apply aput_aput_same | now apply adel_aput_fresh].
  - destruct (use_fixture_spec fx s) as [A (new & B & C & D)]. split; [exact A|]. exists new.
    split; [exact B|]. split; [|exact D]. cbn [act_raise]. rewrite C. cbn [act_entries]. now destruct (fixture_raise fx).
  - split; [reflexivity|]. exists []. split; [apply dstep_step, ds_onexc | split; [reflexivity | simpl; lia]].
  - split; [reflexivity|]. exists []. split; [|split; [reflexivity | simpl; lia]].
    constructor; simpl; rewrite ?app_nil_r, ?orb_true_r; reflexivity.
  - split; [reflexivity|]. exists []. split; [|split; [reflexivity | simpl; lia]].
    constructor; simpl; rewrite ?app_nil_r, ?orb_false_r; reflexivity.
  - destruct p as [e|]; cbn [act_raise act_events].
    + destruct (isinstance e CFail); (split; [reflexivity|]); exists [];
        (split; [|split; [reflexivity | simpl; lia]]).
      * apply dstep_step. apply (dstep_trans _ _ _ _ _ (ds_reason (Some r) s) (ds_tb _)).
      * apply dstep_step, ds_reason.
    + split; [reflexivity|]. exists []. split; [apply dstep_step, ds_reason | split; [reflexivity | simpl; lia]].
  - split; [reflexivity|]. exists []. split; [apply step_refl | split; [reflexivity | simpl; lia]].
  - split; [reflexivity|]. exists []. split; [apply step_refl | split; [reflexivity | simpl; lia]].
Qed.

Lemma exec_acts_spec l : forall s,
  snd (exec_acts l s) = acts_raise l
  /\ exists new, step s (fst (exec_acts l s)) (acts_log l) (existsb sets_force (executed l)) new
                      (acts_inserts l) (acts_events l)
                 /\ entries_of new = pending l
                 /\ stack_size new <= acts_size l.
Proof.
  induction l as [|a r IH]; intros s.
  - simpl. split; [reflexivity|]. exists []. split; [apply step_refl | split; [reflexivity | simpl; lia]].
  - cbn [exec_acts acts_raise executed pending]. unfold acts_log, acts_inserts, acts_events.
    cbn [executed flat_map existsb].
    destruct (exec_act_spec a s) as [A (new & B & C & D)].
    destruct (exec_act a s) as [s1 ra]. cbn [fst snd] in *. subst ra.
    destruct (act_raise a) as [e|].
    + cbn [fst snd]. split; [reflexivity|]. exists new. split; [|split; [exact C | cbn [acts_size fold_right]; lia]].
      cbn [flat_map existsb]. rewrite !app_nil_r, orb_false_r. exact B.
    + destruct (IH s1) as [A' (new' & B' & C' & D')]. split; [exact A'|]. exists (new' ++ new).
      split; [eapply step_trans; [exact B | exact B']|].
      split; [rewrite entries_of_app, C, C'; reflexivity|].
      rewrite stack_size_app. cbn [acts_size fold_right]. fold (acts_size r). lia.
Qed.

(* ------------------------------------------------------------------ *)
(* the cleanup machine                                                  *)
(* ------------------------------------------------------------------ *)
Definition entries_log (l : list entry) : list lsh := flat_map entry_log l.
Definition entries_excs (l : list entry) : list exc := flat_map (fun e => caught (entry_raise e)) l.
Definition entries_force (l : list entry) : bool := existsb entry_forces l.
Definition entries_inserts (l : list entry) : list (cls * outcome) := flat_map entry_inserts l.
Definition entries_events (l : list entry) : list devent := flat_map entry_events l.

(* what a piece of the run did *)
Record ran (s s' : st) (lg : list lsh) (ex : list exc) (fc : bool)
           (ins : list (cls * outcome)) (evs : list devent) : Prop := {
  rn_log : map shape (log s') = map shape (log s) ++ lg;
  rn_excs : excs s' = excs s ++ ex;
  rn_force : force s' = force s || fc;
  rn_calls : calls (tr s') = calls (tr s);
  rn_uh : uh s' = rev ins ++ uh s;
  rn_det : proj s' = prun evs (proj s) }.

Lemma ran_refl s : ran s s [] [] false [] [].
Proof. constructor; rewrite ?app_nil_r, ?orb_false_r; reflexivity. Qed.

Definition raisedb (r : option exc) : bool := match r with Some _ => true | None => false end.
Definition is_nil {A} (l : list A) : bool := match l with [] => true | _ => false end.
Lemma is_nil_app {A} (a b : list A) : is_nil (a ++ b) = is_nil a && is_nil b.
Proof. destruct a; reflexivity. Qed.
Lemma raisedb_caught r : raisedb r = negb (is_nil (caught r)).
Proof.
  destruct r as [e|]; simpl; [|reflexivity].
  pose proof (flatten_nonempty e). destruct (flatten e); [contradiction | reflexivity].
Qed.

(* _run_user around a step *)
Lemma run_user_spec s s1 oe lg fc new ins evs :
  step s s1 lg fc new ins evs ->
  let r := run_user (s1, oe) in
  snd r = raisedb oe
  /\ ran s (fst r) lg (caught oe) fc ins (evs ++ exc_events oe)
  /\ stack (fst r) = new ++ stack s
  /\ undo_all (stack (fst r)) (attrs (fst r)) = undo_all (stack s) (attrs s).
Proof.
  intros [S1 S2 S3 S4 S5 S6 S7 S8]. unfold run_user. destruct oe as [e|]; cbn [fst snd caught raisedb].
  - destruct (got_exception_spec e s1) as (G1 & G2 & G3 & G4 & G5 & G6 & G7 & G8).
    split; [reflexivity|]. split; [constructor; try congruence; rewrite prun_app; congruence|]. split; congruence.
  - split; [reflexivity|]. split; [constructor; rewrite ?app_nil_r; congruence|]. split; congruence.
Qed.

Definition entry_hd (k : cleanup) : entry :=
  match k with
  | KUser t b => EUser t b | KRestore a _ => ERestore a | KGather fx => EGather fx | KFxClean fx => EFx fx
  end.
Definition k_rest (k : cleanup) : list entry := match k with KUser _ b => pending b | _ => [] end.
Lemma k_entries_split k : k_entries k = entry_hd k :: k_rest k.
Proof. destruct k; reflexivity. Qed.

(* the detail events of an entry before what it raises is caught *)
Definition entry_pre (e : entry) : list devent :=
  match e with EUser _ b => acts_events b | EGather fx => fx_events fx | _ => [] end.
Lemma entry_events_split e : entry_events e = entry_pre e ++ exc_events (entry_raise e).
Proof. destruct e; simpl; rewrite ?app_nil_r; reflexivity. Qed.

(* an entry of _cleanups being called, the entry already popped *)
Lemma run_cleanup_spec k s :
  let r := run_cleanup k s in
  snd r = entry_raise (entry_hd k)
  /\ map shape (log (fst r)) = map shape (log s) ++ entry_log (entry_hd k)
  /\ excs (fst r) = excs s
  /\ force (fst r) = force s || entry_forces (entry_hd k)
  /\ calls (tr (fst r)) = calls (tr s)
  /\ uh (fst r) = rev (entry_inserts (entry_hd k)) ++ uh s
  /\ proj (fst r) = prun (entry_pre (entry_hd k)) (proj s)
  /\ exists new, stack (fst r) = new ++ stack s /\ entries_of new = k_rest k /\ stack_size new < ksize k
                 /\ undo_all (stack (fst r)) (attrs (fst r)) = undo_all (stack s) (undo1 (attrs s) k).
Proof.
  destruct k as [t b | a old | fx | fx]; unfold run_cleanup; cbv zeta.
  - destruct (exec_acts_spec b (add_log [LTok t] s)) as [A (new & B & C & D)].
    pose proof (step_trans _ _ _ _ _ _ _ _ _ _ _ _ _ (step_log s [LTok t]) B) as [S1 S2 S3 S4 S5 S6 S7 S8].
    cbn [entry_hd entry_raise entry_log entry_forces entry_inserts entry_pre k_rest ksize undo1].
    split; [exact A|]. split; [exact S1|]. split; [exact S2|]. split; [exact S3|]. split; [exact S4|].
    split; [exact S7|]. split; [exact S8|].
    exists new. rewrite app_nil_r in S5. split; [exact S5|]. split; [exact C|]. split; [lia | exact S6].
  - cbn [entry_hd entry_raise entry_log entry_forces entry_inserts entry_pre k_rest ksize].
    destruct old as [v|]; cbn [fst snd]; simpl; rewrite ?orb_false_r, ?map_app;
      (repeat (split; [reflexivity|])); exists []; repeat split; simpl; lia.
  - destruct (ds_gather fx s) as [Q1 Q2 Q3 Q4 Q5 Q6 Q7 Q8].
    cbn [entry_hd entry_raise entry_log entry_forces entry_inserts entry_pre k_rest ksize undo1 fst snd rev app].
    rewrite app_nil_r, orb_false_r. split; [reflexivity|]. repeat (split; [congruence|]).
    exists []. repeat split; simpl; try lia; congruence.
  - destruct (fx_cleanup_spec (fx_cleanups fx) s) as [[S1 S2 S3 S4 S5 S6 S7 S8] B].
    cbn [entry_hd entry_raise entry_log entry_forces entry_inserts entry_pre k_rest ksize undo1].
    split; [exact B|]. split; [exact S1|]. split; [exact S2|]. split; [exact S3|]. split; [exact S4|].
    split; [exact S7|]. split; [exact S8|].
    exists []. repeat split; simpl; try lia; assumption.
Qed.

Lemma stack_size_pos k r : 1 <= stack_size (k :: r).
Proof. simpl. destruct k; simpl; lia. Qed.

Theorem run_cleanups_spec fuel : forall s,
  stack_size (stack s) <= fuel ->
  exists s' failing,
    run_cleanups fuel s = (s', failing, false)
    /\ ran s s' (entries_log (entries_of (stack s))) (entries_excs (entries_of (stack s)))
                (entries_force (entries_of (stack s))) (entries_inserts (entries_of (stack s)))
                (entries_events (entries_of (stack s)))
    /\ failing = negb (is_nil (entries_excs (entries_of (stack s))))
    /\ stack s' = []
    /\ attrs s' = undo_all (stack s) (attrs s).
Proof.
  induction fuel as [|f IH]; intros s Hsz.
  - destruct (stack s) as [|k rest] eqn:Est.
    + exists s, false. simpl. rewrite Est. repeat split; try reflexivity; apply ran_refl.
    + pose proof (stack_size_pos k rest). lia.
  - destruct (stack s) as [|k rest] eqn:Est.
    + exists s, false. simpl. rewrite Est. repeat split; try reflexivity; apply ran_refl.
    + cbn [run_cleanups]. rewrite Est.
      pose proof (run_cleanup_spec k (set_stack rest s)) as R. cbv zeta in R.
      destruct (run_cleanup k (set_stack rest s)) as [s1 oe]. cbn [fst snd] in R.
      destruct R as (R1 & R2 & R3 & R4 & R5 & Ru & Rd & new & R6 & R7 & R8 & R9).
      cbn [log excs force tr stack attrs uh set_stack] in *.
      change (proj (set_stack rest s)) with (proj s) in Rd.
      (* run_user by hand, since a restore entry changes vars(scratch) *)
      assert (U : exists s2, run_user (s1, oe) = (s2, raisedb oe)
                  /\ ran s s2 (entry_log (entry_hd k)) (caught oe) (entry_forces (entry_hd k))
                         (entry_inserts (entry_hd k)) (entry_events (entry_hd k))
                  /\ stack s2 = new ++ rest
                  /\ undo_all (stack s2) (attrs s2) = undo_all rest (undo1 (attrs s) k)).
      { unfold run_user. rewrite entry_events_split, <- R1. destruct oe as [e|]; cbn [raisedb caught].
        - destruct (got_exception_spec e s1) as (G1 & G2 & G3 & G4 & G5 & G6 & G7 & G8).
          eexists; split; [reflexivity|]. split; [constructor; try congruence; rewrite prun_app; congruence|].
          split; congruence.
        - eexists; split; [reflexivity|].
          split; [constructor; rewrite ?app_nil_r; try congruence|]. split; congruence. }
      destruct U as (s2 & U1 & U2 & U3 & U4). rewrite U1.
      assert (Hsz2 : stack_size (stack s2) <= f).
      { rewrite U3, stack_size_app. simpl in Hsz. lia. }
      destruct (IH s2 Hsz2) as (s' & failing & I1 & I2 & I3 & I4 & I5). rewrite I1.
      exists s', (raisedb oe || failing). split; [reflexivity|].
      assert (EE : entries_of (k :: rest) = entry_hd k :: entries_of (stack s2)).
      { unfold entries_of at 1. cbn [flat_map]. rewrite k_entries_split. rewrite U3, entries_of_app, R7. reflexivity. }
      rewrite EE. split.
      { destruct U2 as [A1 A2 A3 A4 A5 A6]. destruct I2 as [B1 B2 B3 B4 B5 B6]. constructor.
        - rewrite B1, A1, <- app_assoc. reflexivity.
        - rewrite B2, A2, <- app_assoc. unfold entries_excs at 2. cbn [flat_map]. rewrite <- R1. reflexivity.
        - rewrite B3, A3, <- orb_assoc. reflexivity.
        - congruence.
        - rewrite B5, A5. unfold entries_inserts at 2. cbn [flat_map]. rewrite rev_app_distr, app_assoc. reflexivity.
        - rewrite B6, A6. unfold entries_events at 2. cbn [flat_map]. rewrite prun_app. reflexivity. }
      split.
      { rewrite I3. unfold entries_excs at 2. cbn [flat_map]. rewrite <- R1, is_nil_app, negb_andb, <- raisedb_caught.
        reflexivity. }
      split; [exact I4|]. rewrite I5, U4. reflexivity.
Qed.

(* ------------------------------------------------------------------ *)
(* stages                                                               *)
(* ------------------------------------------------------------------ *)
Lemma run_method_spec m up s :
  snd (run_method m up s) = match acts_raise (snd m) with
                            | Some e => Some e
                            | None => if up then None else Some (Exc CValueError None)
                            end
  /\ exists new, step s (fst (run_method m up s)) (stage_log m) (existsb sets_force (executed (snd m))) new
                      (acts_inserts (snd m)) (acts_events (snd m))
                 /\ entries_of new = pending (snd m) /\ stack_size new <= acts_size (snd m).
Proof.
  unfold run_method. destruct (exec_acts_spec (snd m) (add_log [LTok (fst m)] s)) as [A (new & B & C & D)].
  pose proof (step_trans _ _ _ _ _ _ _ _ _ _ _ _ _ (step_log s [LTok (fst m)]) B) as S. rewrite app_nil_r in S.
  destruct (exec_acts (snd m) (add_log [LTok (fst m)] s)) as [s1 oe]. cbn [fst snd] in *. subst oe.
  destruct (acts_raise (snd m)); cbn [fst snd]; (split; [reflexivity|]); exists new;
    (split; [exact S | split; assumption]).
Qed.

(* the detail events of the test method up to what it raises *)
Definition body_pre (p : prog) : list devent :=
  acts_events (snd (p_body p))
  ++ (if p_xfail p then match acts_raise (snd (p_body p)) with
                        | Some e => if isinstance e CException then [DTb] else []
                        | None => []
                        end else []).
Lemma body_events_split p : body_events p = body_pre p ++ exc_events (body_raise p).
Proof. unfold body_events, body_pre. now rewrite app_assoc. Qed.

Lemma run_test_method_spec p s :
  snd (run_test_method p s) = body_raise p
  /\ exists new, step s (fst (run_test_method p s)) (stage_log (p_body p))
                      (existsb sets_force (executed (snd (p_body p)))) new
                      (acts_inserts (snd (p_body p))) (body_pre p)
                 /\ entries_of new = pending (snd (p_body p)) /\ stack_size new <= acts_size (snd (p_body p)).
Proof.
  unfold run_test_method, body_raise, body_pre.
  destruct (exec_acts_spec (snd (p_body p)) (add_log [LTok (fst (p_body p))] s)) as [A (new & B & C & D)].
  pose proof (step_trans _ _ _ _ _ _ _ _ _ _ _ _ _ (step_log s [LTok (fst (p_body p))]) B) as S.
  rewrite app_nil_r in S.
  destruct (exec_acts (snd (p_body p)) (add_log [LTok (fst (p_body p))] s)) as [s1 oe]. cbn [fst snd] in *. subst oe.
  destruct (p_xfail p).
  - destruct (acts_raise (snd (p_body p))) as [e|].
    + destruct (isinstance e CException); cbn [fst snd]; (split; [reflexivity|]); exists new;
        (split; [|split; assumption]).
      * step_chain (eapply step_trans; [exact S | apply dstep_step, ds_tb]).
      * rewrite app_nil_r. exact S.
    + cbn [fst snd]. split; [reflexivity|]. exists new. split; [rewrite app_nil_r; exact S | split; assumption].
  - split; [reflexivity|]. exists new. split; [rewrite app_nil_r; exact S | split; assumption].
Qed.
