(* Lemmas about the machine of Model/Run.v shared by C01, C02, C03, C05: what each step does
   to the control part of the state (log, caught exceptions, cleanup stack, force flag, result
   events), and the characterisation of a whole run by the declarative reading of Spec/Run.v. *)
From TT Require Import Lib.Base Gen.Handlers Model.Run Spec.Run.

(* ------------------------------------------------------------------ *)
(* steps that touch only details, cells, traceback counter             *)
(* ------------------------------------------------------------------ *)
Record quiet (s s' : st) : Prop := {
  q_log : log s' = log s;
  q_excs : excs s' = excs s;
  q_stack : stack s' = stack s;
  q_attrs : attrs s' = attrs s;
  q_force : force s' = force s;
  q_onexc : onexc s' = onexc s;
  q_tr : tr s' = tr s }.

Lemma quiet_refl s : quiet s s.
Proof. constructor; reflexivity. Qed.
Lemma quiet_trans a b c : quiet a b -> quiet b c -> quiet a c.
Proof. intros [] []; constructor; congruence. Qed.

Lemma quiet_fold {A} (f : st -> A -> st) :
  (forall s a, quiet s (f s a)) -> forall l s, quiet s (fold_left f l s).
Proof.
  intros H l; induction l as [|a r IH]; intros s; simpl; [apply quiet_refl|].
  eapply quiet_trans; [apply H | apply IH].
Qed.

Lemma quiet_add_detail n c s : quiet s (add_detail n c s).
Proof. constructor; reflexivity. Qed.
Lemma quiet_add_detail_unique n c s : quiet s (add_detail_unique n c s).
Proof. apply quiet_add_detail. Qed.
Lemma quiet_add_mismatch mm s : quiet s (add_mismatch mm s).
Proof. unfold add_mismatch. apply quiet_fold. intros; apply quiet_add_detail_unique. Qed.
Lemma quiet_gather src s : quiet s (gather src s).
Proof. unfold gather. apply quiet_fold. intros; apply quiet_add_detail. Qed.
Lemma quiet_report_traceback s : quiet s (report_traceback s).
Proof.
  unfold report_traceback. destruct (tb_label _ _ _ _) as [lab nxt].
  eapply quiet_trans; [|apply quiet_add_detail]. constructor; reflexivity.
Qed.

(* ------------------------------------------------------------------ *)
(* the result events other than handler calls                          *)
(* ------------------------------------------------------------------ *)
Definition is_call (e : tev) : bool := match e with THandler _ _ => false | _ => true end.
Definition calls (t : list tev) : list tev := filter is_call t.

Lemma calls_app a b : calls (a ++ b) = calls a ++ calls b.
Proof. apply filter_app. Qed.
Lemma calls_handlers (f : nat -> tev) l : (forall h, is_call (f h) = false) -> calls (map f l) = [].
Proof. intros H. induction l as [|x r IH]; simpl; [reflexivity|]. rewrite H. exact IH. Qed.

(* ------------------------------------------------------------------ *)
(* flatten never yields nothing (the repair of F3)                      *)
(* ------------------------------------------------------------------ *)
Section exc_ind'.
  Variable P : exc -> Prop.
  Hypothesis HE : forall c a, P (Exc c a).
  Hypothesis HM : forall l, Forall P l -> P (Multi l).
  Fixpoint exc_ind' (e : exc) : P e :=
    match e with
    | Exc c a => HE c a
    | Multi l => HM l ((fix go (l : list exc) : Forall P l :=
                          match l with [] => Forall_nil _ | x :: r => Forall_cons x (exc_ind' x) (go r) end) l)
    end.
End exc_ind'.

Definition flatten_list (l : list exc) : list exc := flat_map flatten l.
Lemma flatten_multi x r : flatten (Multi (x :: r)) = flatten x ++ flatten_list r.
Proof.
  unfold flatten_list. change (flatten (Multi (x :: r))) with
    (flatten x ++ (fix go (l : list exc) : list exc := match l with [] => [] | y :: q => flatten y ++ go q end) r).
  f_equal. induction r as [|y q IH]; simpl; [reflexivity|]. now rewrite IH.
Qed.

Lemma flatten_nonempty e : flatten e <> [].
Proof.
  induction e as [c a | l IH] using exc_ind'; [discriminate|].
  destruct l as [|x r]; [discriminate|]. rewrite flatten_multi.
  inversion IH as [|? ? Hx _]; subst. intro E. apply app_eq_nil in E. destruct E as [E _]. exact (Hx E).
Qed.

Lemma caught_nonempty r : caught r = [] <-> r = None.
Proof.
  destruct r as [e|]; simpl; split; intro H; try reflexivity; try discriminate.
  exfalso; exact (flatten_nonempty e H).
Qed.

(* ------------------------------------------------------------------ *)
(* _got_user_exception                                                  *)
(* ------------------------------------------------------------------ *)
Lemma on_exception_spec e s :
  let s' := on_exception e s in
  log s' = log s /\ excs s' = excs s /\ stack s' = stack s /\ attrs s' = attrs s /\ force s' = force s
  /\ onexc s' = onexc s /\ calls (tr s') = calls (tr s).
Proof.
  unfold on_exception.
  assert (Q : quiet s (if no_traceback (cls_of e) then s else report_traceback s)).
  { destruct (no_traceback _); [apply quiet_refl | apply quiet_report_traceback]. }
  destruct Q as [Q1 Q2 Q3 Q4 Q5 Q6 Q7]. simpl. repeat split; try assumption.
  rewrite calls_app, calls_handlers by reflexivity. rewrite app_nil_r. now rewrite Q7.
Qed.

Lemma got_exception_gen l : forall s,
  let s' := fold_left (fun s x => let s1 := on_exception x s in set_excs (excs s1 ++ [x]) s1) l s in
  log s' = log s /\ excs s' = excs s ++ l /\ stack s' = stack s /\ attrs s' = attrs s /\ force s' = force s
  /\ onexc s' = onexc s /\ calls (tr s') = calls (tr s).
Proof.
  induction l as [|x r IH]; intros s; simpl.
  - rewrite app_nil_r. repeat split.
  - specialize (IH (set_excs (excs (on_exception x s) ++ [x]) (on_exception x s))). simpl in IH.
    destruct IH as (I1 & I2 & I3 & I4 & I5 & I6 & I7).
    destruct (on_exception_spec x s) as (O1 & O2 & O3 & O4 & O5 & O6 & O7).
    repeat split; try congruence.
    rewrite I2, O2, <- app_assoc. reflexivity.
Qed.

Lemma got_exception_spec e s :
  let s' := got_exception e s in
  log s' = log s /\ excs s' = excs s ++ flatten e /\ stack s' = stack s /\ attrs s' = attrs s
  /\ force s' = force s /\ onexc s' = onexc s /\ calls (tr s') = calls (tr s).
Proof. apply got_exception_gen. Qed.
