(* Lemmas about the machine of Model/Run.v shared by C01, C02, C03, C05. *)
From TT Require Import Lib.Base Gen.Handlers Model.Run Spec.Run.
