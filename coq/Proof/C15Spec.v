(* C15 - lemmas about the statement itself and about the comparison of observations:
   spec_okb implies the readable Spec; obs_eqb is equality. *)
From Coq Require Import Permutation.
From TT Require Import Lib.Base Lib.Sort Model.Reactor Model.Spinner Gen.Spinnertabs Spec.C15 Corr.C15.

Lemma nat_eqb_spec a b : Nat.eqb a b = true <-> a = b.
Proof. apply Nat.eqb_eq. Qed.

Lemma exc_eqb_spec a b : exc_eqb a b = true <-> a = b.
Proof.
  destruct a, b; simpl; split; intro H; try reflexivity; try discriminate.
  - apply Nat.eqb_eq in H; congruence.
  - injection H as ->; apply Nat.eqb_refl.
Qed.

Lemma result_eqb_spec a b : result_eqb a b = true <-> a = b.
Proof. apply res_eqb_spec; [apply nat_eqb_spec | apply exc_eqb_spec]. Qed.

Lemma natlist_eqb_spec a b : list_eqb Nat.eqb a b = true <-> a = b.
Proof. apply list_eqb_spec, nat_eqb_spec. Qed.

Lemma boollist_eqb_spec a b : list_eqb Bool.eqb a b = true <-> a = b.
Proof. apply list_eqb_spec, bool_eqb_spec. Qed.

Lemma robs_eqb_spec a b : robs_eqb a b = true <-> a = b.
Proof.
  destruct a, b; unfold robs_eqb; simpl.
  rewrite !andb_true_iff, result_eqb_spec, boollist_eqb_spec, !natlist_eqb_spec, !bool_eqb_spec, !nat_eqb_spec.
  split.
  - intros [[[[[[[[[[-> ->] ->] ->] ->] ->] ->] ->] ->] ->] ->]. reflexivity.
  - intro H; injection H; intros; subst; repeat split; reflexivity.
Qed.

Lemma obs_eqb_spec a b : obs_eqb a b = true <-> a = b.
Proof. apply list_eqb_spec, robs_eqb_spec. Qed.

(* ---- has / count / perm_eqb ---- *)
Lemma has_In t l : has t l = true <-> In t l.
Proof.
  unfold has. rewrite existsb_exists. split.
  - intros [x [Hx E]]. apply Nat.eqb_eq in E. subst; exact Hx.
  - intro H. exists t. split; [exact H | apply Nat.eqb_refl].
Qed.

Lemma count_notin l x : ~ In x l -> count l x = 0.
Proof. intro H. unfold count. apply count_occ_not_In. exact H. Qed.

Lemma perm_eqb_counts a b : perm_eqb a b = true -> forall x, count a x = count b x.
Proof.
  unfold perm_eqb. rewrite forallb_forall. intros H x.
  destruct (in_dec Nat.eq_dec x (a ++ b)) as [Hi|Hn].
  - apply Nat.eqb_eq. apply H. exact Hi.
  - rewrite !count_notin; [reflexivity| |]; intro Hx; apply Hn; apply in_or_app; [right|left]; exact Hx.
Qed.

Lemma counts_perm_eqb a b : (forall x, count a x = count b x) -> perm_eqb a b = true.
Proof.
  intro H. unfold perm_eqb. apply forallb_forall. intros x _. apply Nat.eqb_eq. apply H.
Qed.

Lemma perm_perm_eqb a b : Permutation a b -> perm_eqb a b = true.
Proof.
  intro P. apply counts_perm_eqb. intro x. unfold count. apply Permutation_count_occ. exact P.
Qed.

(* ---- earliest ---- *)
Lemma fold_min_le (evs : list (time * res value exc)) d :
  fold_right (fun ev m => Nat.min (fst ev) m) d evs <= d
  /\ forall ev, In ev evs -> fold_right (fun ev m => Nat.min (fst ev) m) d evs <= fst ev.
Proof.
  unfold time in *. induction evs as [|e r [IH1 IH2]]; simpl.
  - split; [lia | intros ev []].
  - split; [lia|]. intros ev [->|Hin]; [lia|]. specialize (IH2 ev Hin). lia.
Qed.

Lemma fold_min_in (evs : list (time * res value exc)) d :
  fold_right (fun ev m => Nat.min (fst ev) m) d evs = d
  \/ In (fold_right (fun ev m => Nat.min (fst ev) m) d evs) (map fst evs).
Proof.
  unfold time in *. induction evs as [|e r IH]; simpl; [left; reflexivity|].
  destruct (Nat.min_spec (fst e) (fold_right (fun ev m => Nat.min (fst ev) m) d r)) as [[_ ->]|[_ ->]].
  - right; left; reflexivity.
  - destruct IH as [IH|IH]; [left; exact IH | right; right; exact IH].
Qed.

Lemma earliest_spec evs : evs <> [] ->
  In (earliest evs) (map fst evs) /\ forall ev, In ev evs -> earliest evs <= fst ev.
Proof.
  intro Hne. destruct evs as [|e r]; [congruence|]. unfold earliest. cbn [hd]. unfold time in *.
  split.
  - destruct (fold_min_in (e :: r) (fst e)) as [H|H]; [|exact H]. rewrite H. left; reflexivity.
  - apply fold_min_le.
Qed.

Lemma events_ne T f : events T f <> [].
Proof. unfold events. discriminate. Qed.

(* ---- the executable statement implies the readable one ---- *)
Lemma allowed_sound early T f order r : allowed early T f order r = true -> Allowed early T f order r.
Proof.
  unfold allowed, Allowed. destruct (f_shape f) as [how o|t o|].
  - apply result_eqb_spec.
  - destruct (f_stop_now f || early); [apply result_eqb_spec|].
    rewrite !andb_true_iff. intros [[H1 H2] H3]. cbv zeta. repeat split.
    + intro E. rewrite E in H1. discriminate.
    + intros k Hk. rewrite forallb_forall in H2. specialize (H2 k Hk).
      apply option_eqb_spec in H2; [|apply nat_eqb_spec].
      destruct (earliest_spec (events T f) (events_ne T f)) as [Ha Hb].
      exists (earliest (events T f)). repeat split; assumption.
    + apply result_eqb_spec. exact H3.
  - destruct (f_stop_now f || early); [apply result_eqb_spec|].
    rewrite !andb_true_iff. intros [[H1 H2] H3]. cbv zeta. repeat split.
    + intro E. rewrite E in H1. discriminate.
    + intros k Hk. rewrite forallb_forall in H2. specialize (H2 k Hk).
      apply option_eqb_spec in H2; [|apply nat_eqb_spec].
      destruct (earliest_spec (events T f) (events_ne T f)) as [Ha Hb].
      exists (earliest (events T f)). repeat split; assumption.
    + apply result_eqb_spec. exact H3.
Qed.

Lemma sigs_sound pre : forall after, sigs_okb pre after = true -> Sigs_ok pre after.
Proof.
  induction pre as [|p pre IH]; intros [|a after]; simpl; intro H; try discriminate; [exact I|].
  apply andb_true_iff in H as [H1 H2]. split; [|apply IH; exact H2].
  apply orb_true_iff in H1 as [H1|H1]; apply Nat.eqb_eq in H1; [left|right]; exact H1.
Qed.

Lemma sigs_okb_refl l : sigs_okb l l = true.
Proof. induction l as [|a l IH]; simpl; [reflexivity|]. rewrite Nat.eqb_refl, orb_true_r. exact IH. Qed.

Lemma clean_sound stop0 rs o : clean_okb stop0 rs o = true -> Clean stop0 rs o.
Proof.
  unfold clean_okb, Clean. rewrite !andb_true_iff, !negb_true_iff, !nat_eqb_spec.
  intros [[[[[H1 H2] H3] H4] H5] H6]. repeat split; try assumption. apply sigs_sound. exact H6.
Qed.

Lemma run_sound stale stop0 rs o : run_okb stale stop0 rs o = true -> Run_spec stale stop0 rs o.
Proof.
  unfold run_okb, Run_spec. rewrite andb_true_iff. intros [Hc H]. split; [apply clean_sound; exact Hc|].
  destruct stale as [|x st].
  - rewrite !andb_true_iff in H. destruct H as [[[[H1 H2] H3] H4] H5].
    repeat split.
    + apply allowed_sound; exact H1.
    + apply natlist_eqb_spec; exact H2.
    + apply andb_true_iff in H3 as [H3 _]. rewrite forallb_forall in H3. intros b Hb. exact (H3 b Hb).
    + apply andb_true_iff in H3 as [_ H3]. apply Nat.leb_le. exact H3.
    + apply perm_eqb_counts; exact H4.
    + intro Hin. unfold own_junk_okb in H5. apply has_In in Hin. rewrite Hin in H5.
      apply result_eqb_spec; exact H5.
  - rewrite !andb_true_iff in H. destruct H as [[[[H1 H2] H3] H4] H5].
    repeat split.
    + apply result_eqb_spec; exact H1.
    + apply natlist_eqb_spec; exact H2.
    + apply natlist_eqb_spec; exact H3.
    + apply natlist_eqb_spec; exact H4.
    + apply boollist_eqb_spec; exact H5.
Qed.

Lemma runs_sound rss : forall prev ps os, runs_okb prev ps rss os = true -> Runs_spec prev ps rss os.
Proof.
  induction rss as [|rs rss IH]; intros prev ps [|o os]; simpl; intro H; try discriminate; [exact I|].
  apply andb_true_iff in H as [H1 H2]. split; [apply run_sound; exact H1 | apply IH; exact H2].
Qed.

Lemma spec_okb_sound i o : spec_okb i o = true -> Spec i o.
Proof. apply runs_sound. Qed.
