(* C02 - proofs: the execution log is the declared order, every registered cleanup runs exactly
   once, nothing is left, patched attributes are restored, a second run repeats the first. *)
From Coq Require Import Permutation.
From TT Require Import Lib.Base Gen.Handlers Model.Run Spec.Run Spec.C02 Corr.C02 Proof.RunCore.

(* ---------- comparisons ---------- *)
Lemma lev_eqb_spec a b : lev_eqb a b = true <-> a = b.
Proof.
  destruct a, b; simpl; split; intro H; try discriminate; try reflexivity.
  - apply Nat.eqb_eq in H; congruence.
  - injection H as ->; apply Nat.eqb_refl.
  - apply andb_true_iff in H as [H1 H2]. apply Nat.eqb_eq in H1, H2. congruence.
  - injection H as -> ->. now rewrite !Nat.eqb_refl.
  - apply Nat.eqb_eq in H; congruence.
  - injection H as ->; apply Nat.eqb_refl.
Qed.
Lemma lsh_eqb_spec a b : lsh_eqb a b = true <-> a = b.
Proof.
  destruct a, b; simpl; split; intro H; try discriminate;
    try (apply Nat.eqb_eq in H; congruence); injection H as ->; apply Nat.eqb_refl.
Qed.
Lemma nn_eqb_spec a b : nn_eqb a b = true <-> a = b.
Proof. apply pair_eqb_spec; intros; apply Nat.eqb_eq. Qed.

Lemma runobs_eqb_spec a b : runobs_eqb a b = true <-> a = b.
Proof.
  destruct a as [l1 k1 a1 o1], b as [l2 k2 a2 o2]; unfold runobs_eqb; simpl. rewrite !andb_true_iff.
  rewrite (list_eqb_spec lev_eqb lev_eqb_spec), Nat.eqb_eq, (list_eqb_spec nn_eqb nn_eqb_spec),
    (list_eqb_spec outcome_eqb outcome_eqb_spec).
  split; [intros [[[-> ->] ->] ->]; reflexivity | intros H; injection H; auto].
Qed.
Lemma obs_eqb_spec a b : obs_eqb a b = true <-> a = b.
Proof.
  destruct a as [f1 s1], b as [f2 s2]; unfold obs_eqb; simpl. rewrite andb_true_iff, !runobs_eqb_spec.
  split; [intros [-> ->]; reflexivity | intros H; injection H; auto].
Qed.

Lemma same_attrs_refl a : same_attrs a a = true.
Proof. unfold same_attrs. apply forallb_forall. intros k _. apply option_eqb_spec; [apply Nat.eqb_eq | reflexivity]. Qed.

Lemma same_attrs_sound a b : same_attrs a b = true -> forall k, aget k a = aget k b.
Proof.
  unfold same_attrs. rewrite forallb_forall. intros H k.
  destruct (in_dec Nat.eq_dec k (map fst a ++ map fst b)) as [I|N].
  - specialize (H k I). apply (option_eqb_spec Nat.eqb Nat.eqb_eq) in H. exact H.
  - assert (G : forall l, ~ In k (map fst l) -> aget k l = None).
    { induction l as [|[j v] r IH]; simpl; [reflexivity|]. intros Hn.
      destruct (Nat.eqb k j) eqn:E; [apply Nat.eqb_eq in E; subst; tauto | apply IH; tauto]. }
    rewrite (G a), (G b); [reflexivity | |]; intro; apply N; apply in_or_app; tauto.
Qed.

(* ---------- one run of the instance ---------- *)
Lemma outs_of_calls t : outs_of t = outs_of (calls t).
Proof. induction t as [|e r IH]; simpl; [reflexivity|]. destruct e; simpl; rewrite ?IH; reflexivity. Qed.

(* which outcome a run started with force_failure = f0 reports *)
Definition outs_for (p : prog) (f0 : bool) : list outcome :=
  match fst (verdict p f0) with Some o => [o] | None => [] end.

Lemma observe_spec p s0 :
  exists r s,
    observe p s0 = (r, s)
    /\ map shape (r_log r) = expected_log p
    /\ r_left r = 0
    /\ r_attrs r = attrs s0
    /\ r_outs r = outs_for p (force s0)
    /\ attrs s = attrs s0 /\ stack s = []
    /\ force s = force s0 || (negb (skipped p) && forced p).
Proof.
  unfold observe. destruct (run_from_spec p (set_tr [] (set_log [] s0))) as (s & d & R & L & X & F & K & A & C).
  rewrite R. eexists. exists s. split; [reflexivity|]. cbn [r_log r_left r_attrs r_outs].
  cbn [log tr force attrs set_tr set_log calls filter app map] in *.
  split; [exact L|]. split; [rewrite K; reflexivity|]. split; [exact A|].
  split; [|split; [exact A | split; [exact K | exact F]]].
  rewrite outs_of_calls, C. unfold outs_for. destruct (fst (verdict p (force s0))); reflexivity.
Qed.

(* a failure forced in the first run is forced again by the second: the verdict is the same *)
Lemma verdict_rerun p : verdict p (negb (skipped p) && forced p) = verdict p false.
Proof.
  unfold verdict. destruct (skipped p); [reflexivity|]. cbn [negb andb]. unfold collected.
  cbn [orb]. now rewrite orb_diag.
Qed.

Theorem model_meets_spec i : wf i = true -> spec_okb i (model i) = true.
Proof.
  intros _. unfold model.
  destruct (observe_spec (i_prog i) (init (i_attrs i))) as (r1 & s1 & O1 & L1 & K1 & A1 & U1 & A1' & St1 & F1).
  rewrite O1.
  destruct (observe_spec (i_prog i) s1) as (r2 & s2 & O2 & L2 & K2 & A2 & U2 & A2' & St2 & F2).
  rewrite O2. unfold spec_okb, run_okb. cbn [o_first o_second].
  cbn [attrs force init] in *. rewrite A1' in A2.
  rewrite L1, L2, K1, K2, A1, A2, U1, U2, F1. cbn [orb].
  rewrite !(proj2 (list_eqb_spec lsh_eqb lsh_eqb_spec _ _) eq_refl), same_attrs_refl. cbn [Nat.eqb andb].
  apply (list_eqb_spec outcome_eqb outcome_eqb_spec). unfold outs_for. now rewrite verdict_rerun.
Qed.

Theorem spec_okb_sound i o : spec_okb i o = true -> Spec i o.
Proof.
  unfold spec_okb, Spec. intros H. apply andb_true_iff in H as [H H4]. apply andb_true_iff in H as [H H3].
  apply andb_true_iff in H as [H1 H2].
  assert (R : forall r, run_okb i r = true -> Run_spec i r).
  { intros r Hr. unfold run_okb in Hr. apply andb_true_iff in Hr as [Hr C]. apply andb_true_iff in Hr as [A B].
    split; [exact (proj1 (list_eqb_spec lsh_eqb lsh_eqb_spec _ _) A)|].
    split; [now apply Nat.eqb_eq in B | exact (same_attrs_sound _ _ C)]. }
  split; [exact (R _ H1)|]. split; [exact (R _ H2)|].
  split; [exact (proj1 (list_eqb_spec lsh_eqb lsh_eqb_spec _ _) H3)
         | exact (proj1 (list_eqb_spec outcome_eqb outcome_eqb_spec _ _) H4)].
Qed.

(* ---------- every registered cleanup runs exactly once ---------- *)
Section act_ind'.
  Variable P : act -> Prop.
  Hypothesis HC : forall t body, Forall P body -> P (ACleanup t body).
  Hypothesis HO : forall a, (forall t body, a <> ACleanup t body) -> P a.
  Fixpoint act_ind' (a : act) : P a.
  Proof.
    destruct a as [n loc | loc v | mm | mm | t body | x v | fx | h | | r p | e];
      try (apply HO; intros; discriminate).
    apply HC. induction body as [|x r IH]; constructor; [apply act_ind' | exact IH].
  Defined.
End act_ind'.

(* the functions handed to addCleanup by the statements that get executed, directly or inside a
   cleanup that runs - in program order *)
Fixpoint reg_act (a : act) : list (nat * list act) :=
  match a with
  | ACleanup t body =>
      (t, body) ::
      (fix go (l : list act) : list (nat * list act) :=
         match l with
         | [] => []
         | x :: r => reg_act x ++ match act_raise x with Some _ => [] | None => go r end
         end) body
  | _ => []
  end.
Fixpoint reg_acts (l : list act) : list (nat * list act) :=
  match l with
  | [] => []
  | x :: r => reg_act x ++ match act_raise x with Some _ => [] | None => reg_acts r end
  end.
Definition registered (p : prog) : list (nat * list act) :=
  reg_acts (snd (p_setup p))
  ++ (if setup_returns p then reg_acts (snd (p_body p)) ++ reg_acts (snd (p_teardown p)) else []).

(* the functions the cleanup phase calls, in the order it calls them *)
Definition user_entries (l : list entry) : list (nat * list act) :=
  flat_map (fun e => match e with EUser t b => [(t, b)] | _ => [] end) l.
Lemma user_entries_app a b : user_entries (a ++ b) = user_entries a ++ user_entries b.
Proof. apply flat_map_app. Qed.

Lemma reg_act_cleanup t b : reg_act (ACleanup t b) = (t, b) :: reg_acts b.
Proof. reflexivity. Qed.

Lemma raising_registers_nothing x e : act_raise x = Some e -> reg_act x = [].
Proof. destruct x; simpl; try discriminate; reflexivity. Qed.

Lemma pending_perm_list l :
  Forall (fun a => Permutation (user_entries (act_entries a)) (reg_act a)) l ->
  Permutation (user_entries (pending l)) (reg_acts l).
Proof.
  induction 1 as [|x r Hx Hr IH]; [constructor|]. cbn [pending reg_acts].
  destruct (act_raise x) as [e|] eqn:E.
  - rewrite (raising_registers_nothing x e E). constructor.
  - rewrite user_entries_app. eapply perm_trans; [apply Permutation_app_comm|].
    apply Permutation_app; assumption.
Qed.

Lemma act_entries_perm a : Permutation (user_entries (act_entries a)) (reg_act a).
Proof.
  induction a as [t body IH | a Ha] using act_ind'.
  - rewrite act_entries_cleanup, reg_act_cleanup. cbn [user_entries flat_map app]. constructor.
    apply pending_perm_list. exact IH.
  - destruct a; try (exfalso; eapply Ha; reflexivity); simpl; try constructor.
    destruct (fixture_raise fx); constructor.
Qed.

Lemma pending_perm l : Permutation (user_entries (pending l)) (reg_acts l).
Proof. apply pending_perm_list. apply Forall_forall. intros a _. apply act_entries_perm. Qed.

Theorem once p : Permutation (user_entries (cleanup_entries p)) (registered p).
Proof.
  unfold cleanup_entries, registered. destruct (setup_returns p).
  - rewrite !user_entries_app.
    eapply perm_trans; [apply Permutation_app_comm|].
    eapply perm_trans; [apply Permutation_app_tail, Permutation_app_comm|].
    rewrite <- app_assoc.
    apply Permutation_app; [apply pending_perm|].
    apply Permutation_app; apply pending_perm.
  - rewrite app_nil_r. apply pending_perm.
Qed.

(* ---------- the stack discipline ---------- *)
Lemma pending_app l1 l2 : acts_raise l1 = None -> pending (l1 ++ l2) = pending l2 ++ pending l1.
Proof.
  induction l1 as [|x r IH]; simpl; intros H; [now rewrite app_nil_r|].
  destruct (act_raise x); [discriminate|]. rewrite (IH H), app_assoc. reflexivity.
Qed.
Lemma pending_stop l1 x l2 e : acts_raise l1 = None -> act_raise x = Some e -> pending (l1 ++ x :: l2) = pending l1.
Proof.
  intros H1 H2. rewrite (pending_app _ _ H1). simpl. now rewrite H2.
Qed.

(* ---------- restoration, emptiness, re-run ---------- *)
Theorem run_restores p s0 :
  exists r s, observe p s0 = (r, s) /\ r_left r = 0 /\ r_attrs r = attrs s0 /\ map shape (r_log r) = expected_log p.
Proof.
  destruct (observe_spec p s0) as (r & s & O & L & K & A & _). exists r, s. repeat split; assumption.
Qed.

Theorem rerun i :
  let o := model i in
  map shape (r_log (o_second o)) = map shape (r_log (o_first o))
  /\ r_outs (o_second o) = r_outs (o_first o)
  /\ r_attrs (o_second o) = i_attrs i /\ r_attrs (o_first o) = i_attrs i.
Proof.
  unfold model.
  destruct (observe_spec (i_prog i) (init (i_attrs i))) as (r1 & s1 & O1 & L1 & K1 & A1 & U1 & A1' & St1 & F1).
  rewrite O1.
  destruct (observe_spec (i_prog i) s1) as (r2 & s2 & O2 & L2 & K2 & A2 & U2 & A2' & St2 & F2).
  rewrite O2. cbn [o_first o_second]. cbn [attrs force init orb] in *.
  split; [congruence|]. split; [|split; congruence].
  rewrite U1, U2, F1. unfold outs_for. now rewrite verdict_rerun.
Qed.
