(* C02 - proofs. *)
From TT Require Import Lib.Base Gen.Handlers Model.Run Spec.Run Spec.C02 Corr.C02.
