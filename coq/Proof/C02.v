(* C02 - proofs: the execution log is the declared order, every registered cleanup runs exactly
   once, nothing is left, patched attributes are restored, a second run repeats the first. *)
From Coq Require Import Permutation.
From TT Require Import Lib.Base Gen.Handlers Model.Run Spec.Run Spec.C02 Corr.C02 Proof.RunCore Proof.RunExtra.

(* ---------- comparisons ---------- *)
Lemma lev_eqb_spec a b : lev_eqb a b = true <-> a = b.
Proof.
  destruct a, b; simpl; split; intro H; try discriminate; try reflexivity.
  - apply Nat.eqb_eq in H; congruence.
  - injection H as ->; apply Nat.eqb_refl.
  - apply andb_true_iff in H as [H1 H2]. apply Nat.eqb_eq in H1, H2. congruence.
  - injection H as -> ->. now rewrite !Nat.eqb_refl.
  - apply Nat.eqb_eq in H; congruence.
  - injection H as ->; apply Nat.eqb_refl.
Qed.
Lemma lsh_eqb_spec a b : lsh_eqb a b = true <-> a = b.
Proof.
  destruct a, b; simpl; split; intro H; try discriminate;
    try (apply Nat.eqb_eq in H; congruence); injection H as ->; apply Nat.eqb_refl.
Qed.
Lemma nn_eqb_spec a b : nn_eqb a b = true <-> a = b.
Proof. apply pair_eqb_spec; intros; apply Nat.eqb_eq. Qed.

Lemma runobs_eqb_spec a b :
  runobs_eqb a b = true <-> (r_log a, r_left a, normal (r_attrs a)) = (r_log b, r_left b, normal (r_attrs b)).
Proof.
  unfold runobs_eqb. rewrite !andb_true_iff.
  rewrite (list_eqb_spec lev_eqb lev_eqb_spec), Nat.eqb_eq, (list_eqb_spec nn_eqb nn_eqb_spec).
  split; [intros [[-> ->] ->]; reflexivity | intros H; injection H; auto].
Qed.
Lemma obs_eqb_spec a b : obs_eqb a b = true <-> alpha a = alpha b.
Proof.
  unfold obs_eqb, alpha. rewrite !andb_true_iff, !runobs_eqb_spec, eqb_true_iff.
  split; [intros [[H1 H2] H3]; injection H1 as -> -> ->; injection H2 as -> -> ->; rewrite H3; reflexivity
         | intros H; injection H; intros; repeat split; congruence].
Qed.

Lemma same_attrs_refl a : same_attrs a a = true.
Proof. unfold same_attrs. apply forallb_forall. intros k _. apply option_eqb_spec; [apply Nat.eqb_eq | reflexivity]. Qed.

Lemma same_attrs_sound a b : same_attrs a b = true -> forall k, aget k a = aget k b.
Proof.
  unfold same_attrs. rewrite forallb_forall. intros H k.
  destruct (in_dec Nat.eq_dec k (map fst a ++ map fst b)) as [I|N].
  - specialize (H k I). apply (option_eqb_spec Nat.eqb Nat.eqb_eq) in H. exact H.
  - assert (G : forall l, ~ In k (map fst l) -> aget k l = None).
    { induction l as [|[j v] r IH]; simpl; [reflexivity|]. intros Hn.
      destruct (Nat.eqb k j) eqn:E; [apply Nat.eqb_eq in E; subst; tauto | apply IH; tauto]. }
    rewrite (G a), (G b); [reflexivity | |]; intro; apply N; apply in_or_app; tauto.
Qed.

(* ---------- one run of the instance ---------- *)
Lemma outs_of_calls t : outs_of t = outs_of (calls t).
Proof. induction t as [|e r IH]; simpl; [reflexivity|]. destruct e; simpl; rewrite ?IH; reflexivity. Qed.

Lemma outs_of_app a b : outs_of (a ++ b) = outs_of a ++ outs_of b.
Proof. apply flat_map_app. Qed.

(* the outcome calls of a run, read off the exceptions collected and the handler list *)
Definition kinds (p : prog) (hs : list handler) (X : list exc) : list outcome :=
  match p_skip p with
  | Some _ => [OSkip]
  | None => match choose hs X with
            | None => [OSuccess]
            | Some e => match lookup hs e with
                        | Some h => match h_out h with Some o => [o] | None => [] end
                        | None => match last_resort with Some o => [o] | None => [] end
                        end
            end
  end.
Lemma outs_of_conclude p hs X D : outs_of (fst (fst (conclude p hs X D))) = kinds p hs X.
Proof.
  unfold conclude, kinds. destruct (p_skip p); [reflexivity|]. destruct (choose hs X) as [e|]; [|reflexivity].
  destruct (lookup hs e) as [h|]; cbn [fst]; [destruct (h_out h) | destruct last_resort]; reflexivity.
Qed.

(* which outcomes a run reports that starts with force_failure = f0 and the inserted handlers u0 *)
Definition outs_for (p : prog) (f0 : bool) (u0 : list (cls * outcome)) : list outcome :=
  kinds p (handlers_of (rev (inserted p) ++ u0)) (collected_run p f0).

Lemma observe_spec p s0 :
  exists r s,
    observe p s0 = (r, s)
    /\ map shape (r_log r) = expected_log p
    /\ r_left r = 0
    /\ r_attrs r = attrs s0
    /\ r_outs r = outs_for p (force s0) (uh s0)
    /\ attrs s = attrs s0 /\ stack s = []
    /\ force s = force s0 || (negb (skipped p) && forced p)
    /\ uh s = rev (inserted p) ++ uh s0.
Proof.
  unfold observe. pose proof (run_from_spec p (set_tr [] (set_log [] s0))) as H. cbv zeta in H.
  destruct H as (s & tr0 & R & L & X & F & K & A & U & T & C & _ & _).
  rewrite R. eexists. exists s. split; [reflexivity|]. cbn [r_log r_left r_attrs r_outs].
  cbn [log tr force attrs uh set_tr set_log calls filter app map] in *.
  split; [exact L|]. split; [rewrite K; reflexivity|]. split; [exact A|].
  split; [|split; [exact A | split; [exact K | split; [exact F | exact U]]]].
  rewrite T, !outs_of_app, (outs_of_calls tr0), C, outs_of_conclude. cbn. rewrite app_nil_r. reflexivity.
Qed.

(* ---------- the second run decides as the first ---------- *)
Lemma find_ext' {A} (f g : A -> bool) l : (forall x, f x = g x) -> find f l = find g l.
Proof. intros H. induction l as [|x r IH]; simpl; [reflexivity|]. rewrite H, IH. reflexivity. Qed.
Lemma find_app' {A} (f : A -> bool) a b :
  find f (a ++ b) = match find f a with Some x => Some x | None => find f b end.
Proof. induction a as [|x r IH]; simpl; [reflexivity|]. destruct (f x); [reflexivity | exact IH]. Qed.

Lemma claims_dup a b e : claims (handlers_of (a ++ a ++ b)) e = claims (handlers_of (a ++ b)) e.
Proof.
  unfold claims, handlers_of. rewrite !map_app, !existsb_app.
  destruct (existsb _ (map user_handler a)); reflexivity.
Qed.
Lemma lookup_dup a b e : lookup (handlers_of (a ++ a ++ b)) e = lookup (handlers_of (a ++ b)) e.
Proof.
  unfold lookup, handlers_of. rewrite !map_app, <- !app_assoc, !find_app'.
  destruct (find _ (map user_handler a)); reflexivity.
Qed.
Lemma choose_dup a b X : choose (handlers_of (a ++ a ++ b)) X = choose (handlers_of (a ++ b)) X.
Proof.
  unfold choose. destruct (rev X); [reflexivity|].
  rewrite (find_ext' _ (fun e => negb (claims (handlers_of (a ++ b)) e))); [reflexivity|].
  intros x. now rewrite claims_dup.
Qed.

(* force_failure and the inserted handlers are not reset; what set them in the first run sets them again *)
Lemma outs_rerun p u0 :
  outs_for p (false || (negb (skipped p) && forced p)) (rev (inserted p) ++ u0) = outs_for p false u0.
Proof.
  unfold outs_for, kinds, collected_run, skipped. destruct (p_skip p); [reflexivity|]. cbn [negb andb orb].
  assert (E : collected p (forced p) = collected p false).
  { unfold collected. cbn [orb]. now rewrite orb_diag. }
  rewrite E, choose_dup. destruct (choose _ _) as [e|]; [|reflexivity]. now rewrite lookup_dup.
Qed.

Theorem model_meets_spec i : wf i = true -> spec_okb i (model i) = true.
Proof.
  intros _. unfold model.
  destruct (observe_spec (i_prog i) (init (i_prog i) (i_attrs i)))
    as (r1 & s1 & O1 & L1 & K1 & A1 & U1 & A1' & St1 & F1 & H1).
  rewrite O1.
  destruct (observe_spec (i_prog i) s1) as (r2 & s2 & O2 & L2 & K2 & A2 & U2 & A2' & St2 & F2 & H2).
  rewrite O2. unfold spec_okb, run_okb. cbn [o_first o_second].
  cbn [attrs force uh init] in *. rewrite A1' in A2.
  rewrite L1, L2, K1, K2, A1, A2, U1, U2, F1, H1.
  rewrite !(proj2 (list_eqb_spec lsh_eqb lsh_eqb_spec _ _) eq_refl), same_attrs_refl. cbn [Nat.eqb andb].
  apply (list_eqb_spec outcome_eqb outcome_eqb_spec). apply outs_rerun.
Qed.

Theorem spec_okb_sound i o : spec_okb i o = true -> Spec i o.
Proof.
  unfold spec_okb, Spec. intros H. apply andb_true_iff in H as [H H4]. apply andb_true_iff in H as [H H3].
  apply andb_true_iff in H as [H1 H2].
  assert (R : forall r, run_okb i r = true -> Run_spec i r).
  { intros r Hr. unfold run_okb in Hr. apply andb_true_iff in Hr as [Hr C]. apply andb_true_iff in Hr as [A B].
    split; [exact (proj1 (list_eqb_spec lsh_eqb lsh_eqb_spec _ _) A)|].
    split; [now apply Nat.eqb_eq in B | exact (same_attrs_sound _ _ C)]. }
  split; [exact (R _ H1)|]. split; [exact (R _ H2)|].
  split; [exact (proj1 (list_eqb_spec lsh_eqb lsh_eqb_spec _ _) H3)
         | exact (proj1 (list_eqb_spec outcome_eqb outcome_eqb_spec _ _) H4)].
Qed.

(* ---------- every registered cleanup runs exactly once ---------- *)
Section act_ind'.
  Variable P : act -> Prop.
  Hypothesis HC : forall t body, Forall P body -> P (ACleanup t body).
  Hypothesis HO : forall a, (forall t body, a <> ACleanup t body) -> P a.
  Fixpoint act_ind' (a : act) : P a.
  Proof.
    destruct a as [n loc | loc v | mm | mm | t body | x v | fx | h | | c o | r p | pk | e];
      try (apply HO; intros; discriminate).
    apply HC. induction body as [|x r IH]; constructor; [apply act_ind' | exact IH].
  Defined.
End act_ind'.

(* everything the statements that get executed - directly or inside a cleanup that runs - hand to
   addCleanup, in program order: functions, the undo of each patch(), and for a fixture whose
   set-up succeeded its cleanUp and then the gathering of its details *)
Fixpoint reg_act (a : act) : list entry :=
  match a with
  | ACleanup t body =>
      EUser t body ::
      (fix go (l : list act) : list entry :=
         match l with
         | [] => []
         | x :: r => reg_act x ++ match act_raise x with Some _ => [] | None => go r end
         end) body
  | APatch a _ => [ERestore a]
  | AFixture fx => match fixture_raise fx with Some _ => [] | None => [EFx fx; EGather fx] end
  | _ => []
  end.
Fixpoint reg_acts (l : list act) : list entry :=
  match l with
  | [] => []
  | x :: r => reg_act x ++ match act_raise x with Some _ => [] | None => reg_acts r end
  end.
Definition registered (p : prog) : list entry :=
  reg_acts (snd (p_setup p))
  ++ (if setup_returns p then reg_acts (snd (p_body p)) ++ reg_acts (snd (p_teardown p)) else []).

Lemma reg_act_cleanup t b : reg_act (ACleanup t b) = EUser t b :: reg_acts b.
Proof. reflexivity. Qed.

Lemma raising_registers_nothing x e : act_raise x = Some e -> reg_act x = [].
Proof.
  destruct x; simpl; try discriminate; try reflexivity. intros H. now rewrite H.
Qed.

Lemma pending_perm_list l :
  Forall (fun a => Permutation (act_entries a) (reg_act a)) l ->
  Permutation (pending l) (reg_acts l).
Proof.
  induction 1 as [|x r Hx Hr IH]; [constructor|]. cbn [pending reg_acts].
  destruct (act_raise x) as [e|] eqn:E.
  - rewrite (raising_registers_nothing x e E). constructor.
  - eapply perm_trans; [apply Permutation_app_comm|].
    apply Permutation_app; assumption.
Qed.

Lemma act_entries_perm a : Permutation (act_entries a) (reg_act a).
Proof.
  induction a as [t body IH | a Ha] using act_ind'.
  - rewrite act_entries_cleanup, reg_act_cleanup. constructor.
    apply pending_perm_list. exact IH.
  - destruct a; try (exfalso; eapply Ha; reflexivity); simpl; try apply Permutation_refl.
    destruct (fixture_raise fx); [constructor | apply perm_swap].
Qed.

Lemma pending_perm l : Permutation (pending l) (reg_acts l).
Proof. apply pending_perm_list. apply Forall_forall. intros a _. apply act_entries_perm. Qed.

Theorem once p : Permutation (cleanup_entries p) (registered p).
Proof.
  unfold cleanup_entries, registered. destruct (setup_returns p).
  - eapply perm_trans; [apply Permutation_app_comm|].
    eapply perm_trans; [apply Permutation_app_tail, Permutation_app_comm|].
    rewrite <- app_assoc.
    apply Permutation_app; [apply pending_perm|].
    apply Permutation_app; apply pending_perm.
  - rewrite app_nil_r. apply pending_perm.
Qed.

(* ---------- the stack discipline ---------- *)
Lemma pending_app l1 l2 : acts_raise l1 = None -> pending (l1 ++ l2) = pending l2 ++ pending l1.
Proof.
  induction l1 as [|x r IH]; simpl; intros H; [now rewrite app_nil_r|].
  destruct (act_raise x); [discriminate|]. rewrite (IH H), app_assoc. reflexivity.
Qed.
Lemma pending_stop l1 x l2 e : acts_raise l1 = None -> act_raise x = Some e -> pending (l1 ++ x :: l2) = pending l1.
Proof.
  intros H1 H2. rewrite (pending_app _ _ H1). simpl. now rewrite H2.
Qed.

(* ---------- restoration, emptiness, re-run ---------- *)
Theorem run_restores p s0 :
  exists r s, observe p s0 = (r, s) /\ r_left r = 0 /\ r_attrs r = attrs s0 /\ map shape (r_log r) = expected_log p.
Proof.
  destruct (observe_spec p s0) as (r & s & O & L & K & A & _). exists r, s. repeat split; assumption.
Qed.

Theorem stack_empty p s0 : stack (snd (observe p s0)) = [] /\ r_left (fst (observe p s0)) = 0.
Proof. destruct (observe_spec p s0) as (r & s & O & L & K & A & _ & _ & St & _). rewrite O. split; assumption. Qed.

Theorem patch_restored p s0 k : aget k (r_attrs (fst (observe p s0))) = aget k (attrs s0).
Proof. destruct (observe_spec p s0) as (r & s & O & L & K & A & _). rewrite O. cbn [fst]. now rewrite A. Qed.

(* the namespaces are literally what they were: no target keeps a value it only inherited or did not
   have (no shadow is left behind), and getattr finds for every target what it found before *)
Theorem namespaces_restored p s0 :
  attrs (snd (observe p s0)) = attrs s0
  /\ forall k, getattr k (attrs (snd (observe p s0))) = getattr k (attrs s0).
Proof.
  destruct (observe_spec p s0) as (r & s & O & L & K & A & _ & A' & _). rewrite O. cbn [snd].
  split; [exact A' | intros k; now rewrite A'].
Qed.

Theorem rerun i :
  let o := model i in
  map shape (r_log (o_second o)) = map shape (r_log (o_first o))
  /\ r_outs (o_second o) = r_outs (o_first o)
  /\ r_attrs (o_second o) = i_attrs i /\ r_attrs (o_first o) = i_attrs i.
Proof.
  unfold model.
  destruct (observe_spec (i_prog i) (init (i_prog i) (i_attrs i)))
    as (r1 & s1 & O1 & L1 & K1 & A1 & U1 & A1' & St1 & F1 & H1).
  rewrite O1.
  destruct (observe_spec (i_prog i) s1) as (r2 & s2 & O2 & L2 & K2 & A2 & U2 & A2' & St2 & F2 & H2).
  rewrite O2. cbn [o_first o_second]. cbn [attrs force uh init] in *.
  split; [congruence|]. split; [|split; congruence].
  rewrite U1, U2, F1, H1. apply outs_rerun.
Qed.

(* two registrations of one body: the later one runs first, each followed at once by what it
   registers itself, before everything registered earlier *)
Lemma acts_raise_app a b : acts_raise (a ++ b) = match acts_raise a with Some e => Some e | None => acts_raise b end.
Proof. induction a as [|x r IH]; simpl; [reflexivity|]. destruct (act_raise x); [reflexivity | exact IH]. Qed.

Theorem lifo_pair l1 a1 l2 a2 l3 :
  acts_raise (l1 ++ a1 :: l2 ++ [a2]) = None ->
  pending (l1 ++ a1 :: l2 ++ a2 :: l3)
  = pending l3 ++ act_entries a2 ++ pending l2 ++ act_entries a1 ++ pending l1.
Proof.
  intros H. rewrite acts_raise_app in H. destruct (acts_raise l1) eqn:H1; [discriminate|].
  cbn [acts_raise] in H. destruct (act_raise a1) eqn:Ha1; [discriminate|].
  rewrite acts_raise_app in H. destruct (acts_raise l2) eqn:H2; [discriminate|].
  cbn [acts_raise] in H. destruct (act_raise a2) eqn:Ha2; [discriminate|].
  rewrite (pending_app _ _ H1). cbn [pending]. rewrite Ha1, (pending_app _ _ H2). cbn [pending]. rewrite Ha2.
  rewrite <- !app_assoc. reflexivity.
Qed.

(* the literal pop-run-repeat machine on any stack *)
Theorem cleanups_lifo fuel s :
  stack_size (stack s) <= fuel ->
  exists s' failing, run_cleanups fuel s = (s', failing, false)
    /\ map shape (log s') = map shape (log s) ++ flat_map entry_log (entries_of (stack s))
    /\ excs s' = excs s ++ flat_map (fun e => caught (entry_raise e)) (entries_of (stack s))
    /\ stack s' = [] /\ attrs s' = undo_all (stack s) (attrs s).
Proof.
  intros H. destruct (run_cleanups_spec fuel s H) as (s' & failing & R & [L X _ _ _ _] & _ & K & A).
  exists s', failing. repeat split; assumption.
Qed.
