(* C06 - MatchesSetwise on the boolean matrix rows[i][j] = "matcher i matches value j":
   the greedy loop of the model against the existence of a one-to-one assignment. *)
From Coq Require Import Permutation.
From TT Require Import Lib.Base Lib.Sort Model.Matchers Spec.C06.

(* ---------- picks ---------- *)
Lemma picks_perm_of {A} (l : list A) x rest : In (x, rest) (picks l) -> Permutation l (x :: rest).
Proof.
  revert x rest; induction l as [|y r IH]; intros x rest H; simpl in H; [contradiction|].
  destruct H as [H|H].
  - injection H as -> ->. reflexivity.
  - apply in_map_iff in H as [[a b] [E Hin]]. simpl in E. injection E as <- <-.
    rewrite (IH _ _ Hin). apply perm_swap.
Qed.

Lemma picks_in {A} (l : list A) x rest : In (x, rest) (picks l) -> In x l.
Proof. intro H. apply picks_perm_of in H. apply (Permutation_in _ (Permutation_sym H)). left; reflexivity. Qed.

Lemma picks_split {A} (l1 l2 : list A) x : In (x, l1 ++ l2) (picks (l1 ++ x :: l2)).
Proof.
  induction l1 as [|y r IH]; simpl; [left; reflexivity|].
  right. apply in_map_iff. exists (x, r ++ l2). split; [reflexivity|exact IH].
Qed.

Lemma picks_of_perm {A} (l : list A) x rest' :
  Permutation l (x :: rest') -> exists rest, In (x, rest) (picks l) /\ Permutation rest rest'.
Proof.
  intro P. assert (Hin : In x l) by (apply (Permutation_in _ (Permutation_sym P)); left; reflexivity).
  apply in_split in Hin as [l1 [l2 ->]].
  exists (l1 ++ l2). split; [apply picks_split|].
  apply Permutation_cons_inv with (a := x). rewrite <- P. apply Permutation_middle.
Qed.

(* ---------- the documented predicate on the matrix ---------- *)
Definition Assignment (rows : list (list bool)) (js : list nat) : Prop :=
  exists rows', Permutation rows rows' /\ Forall2 (fun r j => at_ j r = true) rows' js.

Lemma assign_spec rows js : assign rows js = true <-> Assignment rows js.
Proof.
  revert rows; induction js as [|j t IH]; intro rows; simpl; split.
  - destruct rows; [|discriminate]. intros _. exists []. split; constructor.
  - intros [rows' [P F]]. inversion F; subst. apply Permutation_sym, Permutation_nil in P. subst. reflexivity.
  - intro H. apply existsb_exists in H as [[r rest] [Hin H]]. simpl in H.
    apply andb_true_iff in H as [Hr Ha]. apply IH in Ha as [rows'' [P F]].
    exists (r :: rows''). split; [|constructor; assumption].
    rewrite (picks_perm_of _ _ _ Hin). apply perm_skip. exact P.
  - intros [rows' [P F]]. inversion F as [|r j' rows'' t' Hr F']; subst.
    destruct (picks_of_perm _ _ _ P) as [rest [Hin P']].
    apply existsb_exists. exists (r, rest). split; [exact Hin|]. simpl.
    apply andb_true_iff. split; [exact Hr|]. apply IH. exists rows''. split; assumption.
Qed.

Lemma Assignment_perm rows rows2 js : Permutation rows rows2 -> Assignment rows js -> Assignment rows2 js.
Proof. intros P [r' [P' F]]. exists r'. split; [|exact F]. rewrite <- P. exact P'. Qed.

(* ---------- the greedy loop ---------- *)
Lemma take_perm j rem rem' : take j rem = Some rem' -> exists r, at_ j r = true /\ Permutation rem (r :: rem').
Proof.
  revert rem'; induction rem as [|r t IH]; intros rem' H; simpl in H; [discriminate|].
  destruct (at_ j r) eqn:E.
  - injection H as <-. exists r. split; [exact E|reflexivity].
  - destruct (take j t) as [t'|] eqn:T; [|discriminate]. injection H as <-.
    destruct (IH _ eq_refl) as [r0 [Hr P]]. exists r0. split; [exact Hr|].
    rewrite P. apply perm_swap.
Qed.

Lemma take_none j rem : take j rem = None -> Forall (fun r => at_ j r = false) rem.
Proof.
  induction rem as [|r t IH]; simpl; intro H; [constructor|].
  destruct (at_ j r) eqn:E; [discriminate|]. destruct (take j t); [discriminate|]. constructor; auto.
Qed.

Lemma take_incl j rem rem' : take j rem = Some rem' -> incl rem' rem.
Proof.
  intro H. destruct (take_perm _ _ _ H) as [r [_ P]]. intros x Hx.
  apply (Permutation_in _ (Permutation_sym P)). right; exact Hx.
Qed.

Lemma greedy_incl js : forall rows rem nm, greedy rows js = (rem, nm) -> incl rem rows.
Proof.
  induction js as [|j t IH]; intros rows rem nm H; simpl in H.
  - injection H as <- <-. apply incl_refl.
  - destruct (take j rows) as [rows'|] eqn:T.
    + eapply incl_tran; [eapply IH; exact H|]. eapply take_incl; exact T.
    + destruct (greedy rows t) as [r0 nm0] eqn:G. injection H as <- <-. eapply IH; exact G.
Qed.

(* no matcher that is left over matches a value that was left over *)
Lemma greedy_leftovers js : forall rows rem nm, greedy rows js = (rem, nm) ->
  Forall (fun j => Forall (fun r => at_ j r = false) rem) nm.
Proof.
  induction js as [|j t IH]; intros rows rem nm H; simpl in H.
  - injection H as <- <-. constructor.
  - destruct (take j rows) as [rows'|] eqn:T.
    + eapply IH; exact H.
    + destruct (greedy rows t) as [r0 nm0] eqn:G. injection H as <- <-. constructor.
      * apply Forall_forall. intros r Hr.
        apply (proj1 (Forall_forall _ _) (take_none _ _ T)). eapply greedy_incl; eassumption.
      * eapply IH; exact G.
Qed.

Lemma greedy_sound js : forall rows, greedy rows js = ([], []) -> Assignment rows js.
Proof.
  induction js as [|j t IH]; intros rows H; simpl in H.
  - injection H as ->. exists []. split; constructor.
  - destruct (take j rows) as [rows'|] eqn:T.
    + destruct (take_perm _ _ _ T) as [r [Hr P]].
      destruct (IH _ H) as [rows'' [P' F]].
      exists (r :: rows''). split; [rewrite P; apply perm_skip; exact P'|constructor; assumption].
    + destruct (greedy rows t) as [r0 nm0]. discriminate.
Qed.

(* ---------- all_loop / any_loop: when the loops return None ---------- *)
Lemma all_loop_none fo rs : forall acc,
  all_loop fo rs acc = None <-> acc = [] /\ Forall (fun r => r = None) rs.
Proof.
  induction rs as [|r t IH]; intro acc; simpl.
  - destruct (rev acc) eqn:E.
    + split; [intros _|reflexivity]. split; [|constructor].
      apply (f_equal (@rev _)) in E. rewrite rev_involutive in E. exact E.
    + split; [discriminate|]. intros [-> _]. discriminate.
  - destruct r as [d|].
    + destruct fo.
      * split; [discriminate|]. intros [_ F]. inversion F; discriminate.
      * rewrite IH. split; [intros [? _]; discriminate|]. intros [_ F]. inversion F; discriminate.
    + rewrite IH. split; intros [-> F]; (split; [reflexivity|]).
      * constructor; [reflexivity|exact F].
      * inversion F; assumption.
Qed.

Lemma any_loop_none rs : forall acc, any_loop rs acc = None <-> Exists (fun r => r = None) rs.
Proof.
  induction rs as [|r t IH]; intro acc; simpl.
  - split; [discriminate|]. intro H; inversion H.
  - destruct r as [d|].
    + rewrite IH. split; intro H; [right; exact H|]. inversion H; [discriminate|assumption].
    + split; [intros _; left; reflexivity|reflexivity].
Qed.

(* ---------- setwise_post ---------- *)
Lemma setwise_post_none rows n : setwise_post rows n = None <-> greedy rows (seq 0 n) = ([], []).
Proof.
  unfold setwise_post. destruct (greedy rows (seq 0 n)) as [rem nm] eqn:G.
  destruct nm as [|j0 nm]; destruct rem as [|r0 rem]; try (split; [reflexivity|reflexivity]);
    try (split; discriminate).
  split; [|discriminate]. intro H. exfalso.
  pose proof (greedy_leftovers _ _ _ _ G) as L. inversion L as [|? ? L0 _]; subst.
  inversion L0 as [|? ? Hr0 _]; subst.
  simpl in H. unfold ann, listwise in H.
  destruct (all_loop false _ []) eqn:E; [discriminate|].
  apply all_loop_none in E as [_ F]. simpl in F. inversion F as [|? ? Hx _]; subst.
  rewrite Hr0 in Hx. discriminate.
Qed.

(* ---------- completeness where no value is matched by two matchers ---------- *)
Lemma count_true_perm l l' : Permutation l l' -> count_true l = count_true l'.
Proof.
  unfold count_true. induction 1; simpl; try congruence.
  - destruct x; simpl; congruence.
  - destruct x, y; reflexivity.
Qed.

Lemma count_true_pos l : In true l -> 1 <= count_true l.
Proof.
  unfold count_true. induction l as [|b t IH]; simpl; [contradiction|].
  intros [->|H]; simpl; [lia|]. destruct b; simpl; [lia|auto].
Qed.

Definition unamb (rows : list (list bool)) (js : list nat) : Prop :=
  forall j, In j js -> count_true (map (at_ j) rows) <= 1.

Lemma take_unique j : forall l r rest,
  count_true (map (at_ j) l) <= 1 -> In (r, rest) (picks l) -> at_ j r = true -> take j l = Some rest.
Proof.
  induction l as [|x l' IH]; intros r rest C Hin Hr; simpl in Hin; [contradiction|].
  simpl. destruct Hin as [E|Hin].
  - injection E as -> ->. rewrite Hr. reflexivity.
  - apply in_map_iff in Hin as [[a b] [E Hin]]. simpl in E. injection E as <- <-.
    assert (C1 : 1 <= count_true (map (at_ j) l')).
    { apply count_true_pos. apply in_map_iff. exists a. split; [exact Hr|]. eapply picks_in; exact Hin. }
    unfold count_true in C, C1. simpl in C. destruct (at_ j x) eqn:Ex; simpl in C; [lia|].
    rewrite (IH a b); [reflexivity| |exact Hin|exact Hr]. unfold count_true. exact C.
Qed.

Lemma unamb_sub rows r rest js : Permutation rows (r :: rest) -> unamb rows js -> unamb rest js.
Proof.
  intros P U j Hj. specialize (U j Hj).
  rewrite (count_true_perm _ _ (Permutation_map (at_ j) P)) in U.
  unfold count_true in *. simpl in U. destruct (at_ j r); simpl in U; lia.
Qed.

Lemma greedy_complete js : forall rows, unamb rows js -> assign rows js = true -> greedy rows js = ([], []).
Proof.
  induction js as [|j t IH]; intros rows U H; simpl in *.
  - destruct rows; [reflexivity|discriminate].
  - apply existsb_exists in H as [[r rest] [Hin H]]. simpl in H. apply andb_true_iff in H as [Hr Ha].
    rewrite (take_unique j rows r rest); [|apply U; left; reflexivity|exact Hin|exact Hr].
    apply IH; [|exact Ha].
    eapply unamb_sub; [apply picks_perm_of; exact Hin|]. intros j' Hj'. apply U. right; exact Hj'.
Qed.

Lemma amb_m_false rows n : amb_m rows n = false <-> unamb rows (seq 0 n).
Proof.
  unfold amb_m, unamb. split.
  - intros H j Hj. destruct (Nat.ltb 1 (count_true (map (at_ j) rows))) eqn:E.
    + assert (X : existsb (fun j => Nat.ltb 1 (count_true (map (at_ j) rows))) (seq 0 n) = true)
        by (apply existsb_exists; exists j; split; assumption). congruence.
    + apply Nat.ltb_ge in E. exact E.
  - intro H. destruct (existsb _ _) eqn:E; [|reflexivity].
    apply existsb_exists in E as [j [Hj E]]. apply Nat.ltb_lt in E. specialize (H j Hj). lia.
Qed.

Lemma unamb_perm rows rows' js : Permutation rows rows' -> unamb rows js -> unamb rows' js.
Proof.
  intros P U j Hj. rewrite <- (count_true_perm _ _ (Permutation_map (at_ j) P)). apply U; exact Hj.
Qed.

(* ---------- the set-iteration order ---------- *)
Lemma map_snd_combine {A B} (s : list A) (l : list B) : length s = length l -> map snd (combine s l) = l.
Proof.
  revert l; induction s as [|a s IH]; intros [|b l] H; simpl in *; try discriminate; [reflexivity|].
  f_equal. apply IH. lia.
Qed.

Lemma reorder_perm {A} rk (l : list A) : Permutation l (reorder rk l).
Proof.
  unfold reorder.
  rewrite <- (map_snd_combine (seq 0 (length l)) l) at 1 by apply seq_length.
  apply Permutation_map. apply isort_perm.
Qed.

(* ---------- the three facts about MatchesSetwise, for every iteration order ---------- *)
Theorem setwise_sound_m rk rows n : setwise_post (reorder rk rows) n = None -> assign rows (seq 0 n) = true.
Proof.
  intro H. apply setwise_post_none in H. apply greedy_sound in H.
  apply assign_spec. eapply Assignment_perm; [|exact H]. apply Permutation_sym, reorder_perm.
Qed.

Theorem setwise_complete_m rk rows n :
  amb_m rows n = false -> assign rows (seq 0 n) = true -> setwise_post (reorder rk rows) n = None.
Proof.
  intros A H. apply setwise_post_none. apply greedy_complete.
  - eapply unamb_perm; [apply reorder_perm|]. apply amb_m_false. exact A.
  - apply assign_spec. eapply Assignment_perm; [apply reorder_perm|]. apply assign_spec. exact H.
Qed.

Theorem setwise_exact_m rk rows n :
  amb_m rows n = false -> (setwise_post (reorder rk rows) n = None <-> assign rows (seq 0 n) = true).
Proof. intro A. split; [apply setwise_sound_m|apply setwise_complete_m; exact A]. Qed.

(* ---------- from the matrix back to matchers and values ---------- *)
Section Readable.
  Context {M V : Type} (f : M -> V -> bool).

  Lemma forall2_matrix_gen (l : list V) : forall (ms : list M) (pre : list V) (js : list V),
    l = pre ++ js ->
    (Forall2 (fun r j => at_ j r = true) (map (fun m => map (f m) l) ms) (seq (length pre) (length js))
     <-> Forall2 (fun m x => f m x = true) ms js).
  Proof.
    induction ms as [|m ms IH]; intros pre js E; simpl.
    - split; intro H; inversion H as [|? ? ? ? ? ? E1 E2]; subst.
      + destruct js; [constructor|discriminate].
      + constructor.
    - destruct js as [|x js]; simpl.
      + split; intro H; inversion H.
      + assert (Hat : at_ (length pre) (map (f m) l) = f m x).
        { unfold at_. subst l. rewrite map_app. rewrite app_nth2; rewrite map_length; [|lia].
          rewrite Nat.sub_diag. reflexivity. }
        specialize (IH (pre ++ [x]) js). rewrite app_length in IH. simpl in IH.
        rewrite Nat.add_1_r in IH.
        rewrite <- app_assoc in IH. specialize (IH E).
        split; intro H; inversion H; subst; constructor.
        * rewrite <- Hat. assumption.
        * apply IH. assumption.
        * rewrite Hat. assumption.
        * apply IH. assumption.
  Qed.

  Lemma assign_matrix (ms : list M) (l : list V) :
    assign (map (fun m => map (f m) l) ms) (seq 0 (length l)) = true
    <-> exists ms', Permutation ms ms' /\ Forall2 (fun m x => f m x = true) ms' l.
  Proof.
    rewrite assign_spec. unfold Assignment. split.
    - intros [rows' [P F]].
      apply Permutation_sym, Permutation_map_inv in P as [ms' [-> P]].
      exists ms'. split; [exact P|].
      apply (forall2_matrix_gen l ms' [] l eq_refl). exact F.
    - intros [ms' [P F]]. exists (map (fun m => map (f m) l) ms'). split; [apply Permutation_map; exact P|].
      apply (forall2_matrix_gen l ms' [] l eq_refl). exact F.
  Qed.
End Readable.
