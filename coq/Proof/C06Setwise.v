(* C06 setwise proofs: placeholder *)
From TT Require Import Lib.Base Model.Matchers Spec.C06.
