(* Lemmas behind Props/C17.v. *)
From TT Require Import Lib.Base Model.Tags Spec.C17 Corr.C17.
