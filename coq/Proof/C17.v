(* Lemmas behind Props/C17.v. *)
From TT Require Import Lib.Base Model.Tags Spec.C17 Corr.C17.

(* ====================================================================== *)
(* A. tag sets                                                            *)
(* ====================================================================== *)
Lemma smem_In x s : smem x s = true <-> In x s.
Proof.
  unfold smem. rewrite existsb_exists. split.
  - intros [y [Hy E]]. apply Nat.eqb_eq in E. subst. exact Hy.
  - intro H. exists x. split; [exact H | apply Nat.eqb_refl].
Qed.

Lemma smem_union x a b : smem x (sunion a b) = smem x a || smem x b.
Proof. unfold smem, sunion. apply existsb_app. Qed.

Lemma smem_diff x a b : smem x (sdiff a b) = smem x a && negb (smem x b).
Proof.
  unfold sdiff. induction a as [|y a IH]; simpl; [reflexivity|].
  destruct (negb (smem y b)) eqn:E; simpl.
  - rewrite IH. destruct (Nat.eqb x y) eqn:Exy; simpl; [|reflexivity].
    apply Nat.eqb_eq in Exy; subst. rewrite E. reflexivity.
  - rewrite IH. destruct (Nat.eqb x y) eqn:Exy; simpl; [|reflexivity].
    apply Nat.eqb_eq in Exy; subst. rewrite E. simpl. destruct (smem y a); reflexivity.
Qed.

Lemma smem_apply1 x s ch : smem x (apply1 s ch) = (smem x s || smem x (fst ch)) && negb (smem x (snd ch)).
Proof. unfold apply1. rewrite smem_diff, smem_union. reflexivity. Qed.

Lemma seteq_refl a : seteq a a.
Proof. intro x; reflexivity. Qed.
Lemma seteq_sym a b : seteq a b -> seteq b a.
Proof. intros H x; symmetry; apply H. Qed.
Lemma seteq_trans a b c : seteq a b -> seteq b c -> seteq a c.
Proof. intros H1 H2 x; rewrite H1; apply H2. Qed.

Lemma apply1_ext a b ch : seteq a b -> seteq (apply1 a ch) (apply1 b ch).
Proof. intros H x. rewrite !smem_apply1, H. reflexivity. Qed.

Lemma apply1_no_change a : seteq (apply1 a no_change) a.
Proof. intro x. rewrite smem_apply1. simpl. destruct (smem x a); reflexivity. Qed.

Definition empty (s : tset) : Prop := forall x, smem x s = false.
Lemma empty_nil : empty [].
Proof. intro x; reflexivity. Qed.

Definition disjoint (ch : change) : Prop := forall x, smem x (fst ch) && smem x (snd ch) = false.

Lemma disjointb_spec ch : disjointb ch = true <-> disjoint ch.
Proof.
  unfold disjointb, disjoint. rewrite forallb_forall. split.
  - intros H x. destruct (smem x (fst ch)) eqn:E; [|reflexivity].
    apply smem_In in E. apply H in E. simpl. destruct (smem x (snd ch)); [discriminate|reflexivity].
  - intros H x Hx. apply smem_In in Hx. specialize (H x). rewrite Hx in H. simpl in H. rewrite H. reflexivity.
Qed.

Lemma disjoint_no_change : disjoint no_change.
Proof. intro x; reflexivity. Qed.
Lemma disjoint_new_only t : disjoint (t, []).
Proof. intro x; simpl. apply andb_false_r. Qed.
Lemma disjoint_gone_only t : disjoint ([], t).
Proof. intro x; reflexivity. Qed.

(* applying a change after a merged change = applying the merged pair *)
Lemma merge_step B ex ch : disjoint ch ->
  seteq (apply1 (apply1 B ex) ch) (apply1 B (merge_tags ex ch)).
Proof.
  intros D x. specialize (D x). unfold merge_tags. rewrite !smem_apply1. simpl.
  rewrite !smem_diff, !smem_union.
  destruct (smem x B), (smem x (fst ex)), (smem x (snd ex)), (smem x (fst ch)), (smem x (snd ch));
    simpl in *; congruence.
Qed.

Lemma merge_disjoint ex ch : disjoint ex -> disjoint ch -> disjoint (merge_tags ex ch).
Proof.
  intros D1 D2 x. specialize (D1 x). specialize (D2 x). unfold merge_tags; simpl.
  rewrite !smem_diff, !smem_union.
  destruct (smem x (fst ex)), (smem x (snd ex)), (smem x (fst ch)), (smem x (snd ch)); simpl in *; congruence.
Qed.

Lemma fold_apply1_ext chs : forall a b, seteq a b -> seteq (fold_left apply1 chs a) (fold_left apply1 chs b).
Proof.
  induction chs as [|c cs IH]; intros a b H; simpl; [assumption|]. apply IH. apply apply1_ext. assumption.
Qed.

Lemma merge_fold : forall chs B ex, Forall disjoint chs ->
  seteq (fold_left apply1 chs (apply1 B ex)) (apply1 B (fold_left merge_tags chs ex)).
Proof.
  induction chs as [|ch chs IH]; intros B ex HD; simpl; [apply seteq_refl|].
  inversion HD as [|? ? Hd Hds]; subst.
  eapply seteq_trans; [|apply IH; assumption].
  apply fold_apply1_ext. apply merge_step. assumption.
Qed.

(* the law behind _merge_tags: a sequence of disjoint changes = the one merged change *)
Theorem merge_law : forall B chs, Forall disjoint chs ->
  seteq (fold_left apply1 chs B) (apply1 B (fold_left merge_tags chs no_change)).
Proof.
  intros B chs H. eapply seteq_trans; [|apply merge_fold; assumption].
  apply fold_apply1_ext. apply seteq_sym. apply apply1_no_change.
Qed.

(* for a disjoint incoming change the 'gone' half can as well be computed removal-last:
   (eg - n) | g  =  (eg | g) - n ; the two ways of writing _merge_tags differ only on overlapping sets *)
Lemma merge_gone_forms ex ch : disjoint ch ->
  seteq (snd (merge_tags ex ch)) (sunion (sdiff (snd ex) (fst ch)) (snd ch)).
Proof.
  intros D x. specialize (D x). unfold merge_tags; simpl. rewrite smem_diff, !smem_union, smem_diff.
  destruct (smem x (snd ex)), (smem x (fst ch)), (smem x (snd ch)); simpl in *; congruence.
Qed.

(* ... and it is false without disjointness *)
Lemma merge_needs_disjoint : exists B ex ch,
  ~ seteq (apply1 (apply1 B ex) ch) (apply1 B (merge_tags ex ch)).
Proof. exists [1], ([],[]), ([1],[1]). intros H. specialize (H 1). vm_compute in H. discriminate. Qed.

Lemma seteqb_spec a b : seteqb a b = true <-> seteq a b.
Proof.
  unfold seteqb, seteq. rewrite forallb_forall. split.
  - intros H x. destruct (in_dec Nat.eq_dec x (a ++ b)) as [Hin|Hn].
    + apply H in Hin. apply (proj1 (bool_eqb_spec _ _)) in Hin. exact Hin.
    + assert (smem x a = false).
      { destruct (smem x a) eqn:E; [|reflexivity]. apply smem_In in E. exfalso; apply Hn, in_or_app; auto. }
      assert (smem x b = false).
      { destruct (smem x b) eqn:E; [|reflexivity]. apply smem_In in E. exfalso; apply Hn, in_or_app; auto. }
      congruence.
  - intros H x _. apply (proj2 (bool_eqb_spec _ _)). apply H.
Qed.

(* ---------- list helpers ---------- *)
Lemma list_eqb_Forall2 {A} (eqb : A -> A -> bool) (R : A -> A -> Prop) :
  (forall a b, eqb a b = true <-> R a b) ->
  forall l m, list_eqb eqb l m = true <-> Forall2 R l m.
Proof.
  intros H l; induction l as [|x r IH]; intros [|y s]; simpl; split; intro E;
    try constructor; try discriminate; try (inversion E; fail).
  - apply andb_true_iff in E as [E1 E2]. apply H; exact E1.
  - apply andb_true_iff in E as [E1 E2]. apply IH; exact E2.
  - inversion E; subst. apply andb_true_iff; split; [apply H | apply IH]; assumption.
Qed.

Lemma lseteqb_spec l m : lseteqb l m = true <-> Forall2 seteq l m.
Proof. apply list_eqb_Forall2. exact seteqb_spec. Qed.

Lemma forall2b_Forall2 {A B} (p : A -> B -> bool) (P : A -> B -> Prop) :
  (forall a b, p a b = true <-> P a b) ->
  forall l m, forall2b p l m = true <-> Forall2 P l m.
Proof.
  intros H l; induction l as [|x r IH]; intros [|y s]; simpl; split; intro E;
    try constructor; try discriminate; try (inversion E; fail).
  - apply andb_true_iff in E as [E1 E2]. apply H; exact E1.
  - apply andb_true_iff in E as [E1 E2]. apply IH; exact E2.
  - inversion E; subst. apply andb_true_iff; split; [apply H | apply IH]; assumption.
Qed.

Lemma F2_seteq_refl l : Forall2 seteq l l.
Proof. induction l; constructor; [apply seteq_refl|assumption]. Qed.
Lemma F2_seteq_sym l m : Forall2 seteq l m -> Forall2 seteq m l.
Proof. induction 1; constructor; [apply seteq_sym|]; assumption. Qed.
Lemma F2_seteq_trans l m n : Forall2 seteq l m -> Forall2 seteq m n -> Forall2 seteq l n.
Proof.
  intros H; revert n; induction H; intros n H2; inversion H2; subst; constructor;
    [eapply seteq_trans; eassumption | apply IHForall2; assumption].
Qed.

Lemma Forall2_map_same {A B} (R : B -> B -> Prop) (f g : A -> B) ks :
  (forall k, In k ks -> R (f k) (g k)) -> Forall2 R (map f ks) (map g ks).
Proof.
  induction ks as [|k ks IH]; intro H; simpl; constructor.
  - apply H; left; reflexivity.
  - apply IH. intros k' Hk. apply H; right; exact Hk.
Qed.

Lemma Forall2_impl {A B} (P Q : A -> B -> Prop) l m :
  (forall a b, P a b -> Q a b) -> Forall2 P l m -> Forall2 Q l m.
Proof. intros H; induction 1; constructor; auto. Qed.

Lemma Forall2_map_l {A A' B} (P : A -> B -> Prop) (Q : A' -> B -> Prop) (f : A -> A') l m :
  (forall a b, P a b -> Q (f a) b) -> Forall2 P l m -> Forall2 Q (map f l) m.
Proof. intros H; induction 1; simpl; constructor; auto. Qed.

(* ====================================================================== *)
(* B. current_tags refines the two-level specification                    *)
(* ====================================================================== *)
Definition in_test (s : sp) : bool := match test_tags s with Some _ => true | None => false end.

(* the TagContext stack against the specification state *)
Definition R (c : tagctx) (s : sp) : Prop :=
  match test_tags s with
  | None => parents c = [] /\ seteq (top c) (run_tags s)
  | Some t => exists p, parents c = [p] /\ seteq p (run_tags s) /\ seteq (top c) t
  end.

Lemma R_init : R ctx_root sp0.
Proof. split; [reflexivity | apply seteq_refl]. Qed.

Lemma R_current c s : R c s -> seteq (ctx_current c) (current s).
Proof.
  unfold R, current, ctx_current. destruct (test_tags s).
  - intros [p [_ [_ H]]]; exact H.
  - intros [_ H]; exact H.
Qed.

(* one call keeps the relation, as long as tests do not nest *)
Lemma R_step c s op :
  R c s -> (op = StartTest -> in_test s = false) -> R (istep c op) (sstep [] s op).
Proof.
  intros HR Hn. destruct op as [|ch| | |]; simpl.
  - apply R_init.
  - unfold R in *. destruct (test_tags s) as [t|] eqn:Et; simpl.
    + destruct HR as [p [Hp [Hr Ht]]]. exists p. repeat split; try assumption. apply apply1_ext; exact Ht.
    + destruct HR as [Hp Hr]. split; [assumption|]. apply apply1_ext; exact Hr.
  - specialize (Hn eq_refl). unfold in_test in Hn. unfold R in *.
    destruct (test_tags s) eqn:Et; [discriminate|]. destruct HR as [Hp Hr]. simpl.
    exists (top c). rewrite Hp. repeat split; assumption.
  - exact HR.
  - unfold R in *. destruct (test_tags s) as [t|] eqn:Et; simpl.
    + destruct HR as [p [Hp [Hr Ht]]]. unfold ctx_pop. rewrite Hp. simpl. split; [reflexivity|exact Hr].
    + destruct HR as [Hp Hr]. unfold ctx_pop. rewrite Hp. split; assumption.
Qed.

Lemma in_test_sstep tg s op : in_test (sstep tg s op) =
  match op with StartRun | StopTest => false | StartTest => true | _ => in_test s end.
Proof. destruct op; unfold in_test; simpl; try reflexivity. destruct (test_tags s); reflexivity. Qed.

Lemma nn_step s op r : nn_from (in_test s) (op :: r) = true ->
  (op = StartTest -> in_test s = false) /\ nn_from (in_test (sstep [] s op)) r = true.
Proof.
  rewrite in_test_sstep. destruct op; simpl; intro H; try (split; [discriminate|exact H]).
  apply andb_true_iff in H as [H1 H2]. split; [|exact H2]. intros _. destruct (in_test s); [discriminate|reflexivity].
Qed.

Lemma R_fold h : forall c s, R c s -> nn_from (in_test s) h = true ->
  R (fold_left istep h c) (fold_left (sstep []) h s).
Proof.
  induction h as [|op r IH]; intros c s HR Hn; simpl; [exact HR|].
  apply nn_step in Hn as [H1 H2]. apply IH; [apply R_step; assumption|exact H2].
Qed.

(* a Tagger that is part of the reporter: its change is one more in-test change *)
Lemma sstep_tagger tg ch h : forall s,
  fold_left (sstep tg) (tagger_tr ch h) s = fold_left (sstep (tg ++ [ch])) h s.
Proof.
  unfold tagger_tr. induction h as [|op r IH]; intro s; simpl; [reflexivity|].
  destruct op; simpl; rewrite IH; try reflexivity.
  rewrite fold_left_app. reflexivity.
Qed.

Lemma nn_tagger ch h : forall b, nn_from b (tagger_tr ch h) = nn_from b h.
Proof.
  unfold tagger_tr. induction h as [|op r IH]; intro b; simpl; [reflexivity|].
  destruct op; simpl; rewrite ?IH; reflexivity.
Qed.

Lemma reporter_refines a : forall h, nn_from false h = true ->
  seteq (reporter_tags a h) (current (fold_left (sstep (chain a)) h sp0)).
Proof.
  assert (own : forall h, nn_from false h = true ->
            seteq (ctx_current (fold_left istep h ctx_root)) (current (fold_left (sstep []) h sp0))).
  { intros h Hn. apply R_current. apply R_fold; [apply R_init|exact Hn]. }
  induction a as [o|l|x IH|ch x IH|x IH|x IH|x IH]; intros h Hn; simpl; try (apply own; exact Hn);
    try (apply IH; exact Hn).
  rewrite <- sstep_tagger. apply IH. rewrite nn_tagger. exact Hn.
Qed.

Lemma nn_firstn h : forall b k, nn_from b h = true -> nn_from b (firstn k h) = true.
Proof.
  induction h as [|op r IH]; intros b k H; destruct k; simpl; try reflexivity.
  destruct op; simpl in *; try (apply IH; exact H).
  apply andb_true_iff in H as [H1 H2]. rewrite H1. simpl. apply IH; exact H2.
Qed.

(* C17_current *)
Theorem current_refines a h : nn_from false h = true ->
  Forall2 seteq (reporter_scan a h) (spec_scan (chain a) h).
Proof.
  intro Hn. unfold reporter_scan, spec_scan. apply Forall2_map_same. intros k _.
  unfold spec_after. apply reporter_refines. apply nn_firstn. exact Hn.
Qed.

(* ====================================================================== *)
(* C. what wrapped results observe                                        *)
(* ====================================================================== *)
(* the specification's current tags at each outcome of a stream *)
Fixpoint sobs_from (tg : list change) (s : sp) (h : list call) : list tset :=
  match h with
  | [] => []
  | op :: r => let s' := sstep tg s op in
               match op with Outcome => current s' :: sobs_from tg s' r | _ => sobs_from tg s' r end
  end.

(* a result with its own TagContext sees what the specification says *)
Lemma leaf_refines h : forall c s, R c s -> nn_from (in_test s) h = true ->
  Forall2 seteq (seen_from c h) (sobs_from [] s h).
Proof.
  induction h as [|op r IH]; intros c s HR Hn; simpl; [constructor|].
  apply nn_step in Hn as [H1 H2].
  assert (HR' : R (istep c op) (sstep [] s op)) by (apply R_step; assumption).
  destruct op; try (apply IH; assumption).
  constructor; [apply R_current; exact HR' | apply IH; assumption].
Qed.

Lemma wf_nn h : forall it seen, wf_from it seen h = true -> nn_from it h = true.
Proof.
  induction h as [|op r IH]; intros it seen H; simpl in *; [reflexivity|].
  destruct op; simpl in *; repeat (apply andb_true_iff in H as [? H]); eauto.
  - rewrite H0. simpl. eauto.
Qed.

(* ---------- ThreadsafeForwardingResult ---------- *)
Record tfr_inv (it seen : bool) (t : tfr) (si so : sp) : Prop := {
  ti_in : t_in t = it;
  ti_si : in_test si = it;
  ti_dg : disjoint (t_glob t);
  ti_dt : disjoint (t_test t);
  ti_run : seteq (run_tags si) (apply1 [] (t_glob t));
  ti_out : it = false -> t_test t = no_change;
  ti_test : forall tt, test_tags si = Some tt -> seen = false ->
            seteq tt (apply1 (apply1 [] (t_glob t)) (t_test t));
  ti_so_t : test_tags so = None;
  ti_so_r : empty (run_tags so)
}.

Lemma any_tags_false c : any_tags c = false -> c = no_change.
Proof. destruct c as [[|? ?] [|? ?]]; simpl; intro H; try discriminate; reflexivity. Qed.

(* the optional result.tags of a buffer, inside an open test of the target *)
Definition opt_tags (ch : change) : list call := if any_tags ch then [Tags ch] else [].

Lemma opt_tags_spec ch run t : disjoint ch ->
  exists t', seteq t' (apply1 t ch) /\
    (forall rest, sobs_from [] {| run_tags := run; test_tags := Some t |} (opt_tags ch ++ rest)
                  = sobs_from [] {| run_tags := run; test_tags := Some t' |} rest) /\
    (forall seen rest, wf_from true seen (opt_tags ch ++ rest) = wf_from true seen rest).
Proof.
  intro D. unfold opt_tags. destruct (any_tags ch) eqn:E.
  - exists (apply1 t ch). split; [apply seteq_refl|]. split; intros; simpl; [reflexivity|].
    apply disjointb_spec in D. rewrite D. reflexivity.
  - apply any_tags_false in E. subst. exists t. split; [apply seteq_sym, apply1_no_change|].
    split; intros; reflexivity.
Qed.

Lemma sobs_from_ext_test h : forall run t t', seteq t t' -> nn_from true h = true ->
  Forall2 seteq (sobs_from [] {| run_tags := run; test_tags := Some t |} h)
                (sobs_from [] {| run_tags := run; test_tags := Some t' |} h).
Proof.
  induction h as [|op r IH]; intros run t t' H Hn; simpl; [constructor|].
  destruct op; simpl in *; try discriminate.
  - apply F2_seteq_refl.
  - apply IH; [apply apply1_ext; exact H|exact Hn].
  - constructor; [exact H|]. apply IH; assumption.
  - apply F2_seteq_refl.
Qed.

Ltac tfr_side :=
  simpl; try solve [ assumption | reflexivity | apply disjoint_no_change | apply empty_nil
                   | apply merge_disjoint; assumption | intros; discriminate | intros; congruence ].

Lemma tfr_ok h : forall it seen t si so, tfr_inv it seen t si so -> wf_from it seen h = true ->
  Forall2 seteq (sobs_from [] so (trans tfr_step t h)) (sobs_from [] si h)
  /\ wf_from false false (trans tfr_step t h) = true.
Proof.
  induction h as [|op r IH]; intros it seen t si so I Hw; [split; [constructor|reflexivity]|].
  destruct I as [Iin Isi Idg Idt Irun Iout Itest Isot Isor].
  destruct op as [|ch| | |]; simpl in Hw.
  - (* startTestRun, outside a test *)
    apply andb_true_iff in Hw as [Hit Hw]. destruct it; [discriminate|]. simpl.
    apply (IH false false); [|exact Hw].
    constructor; tfr_side.
  - (* tags: buffered *)
    apply andb_true_iff in Hw as [Hd Hw]. apply disjointb_spec in Hd. simpl.
    unfold in_test in Isi.
    destruct it.
    + rewrite Iin. destruct (test_tags si) as [tt|] eqn:Et; [|discriminate]. simpl.
      assert (H1 : seen = false -> seteq (apply1 tt ch)
                     (apply1 (apply1 [] (t_glob t)) (merge_tags (t_test t) ch))).
      { intro Hs. eapply seteq_trans; [apply apply1_ext; apply Itest; [reflexivity|exact Hs]|].
        apply merge_step. exact Hd. }
      apply (IH true seen); [|exact Hw].
      constructor; tfr_side.
      intros tt' Htt Hs. injection Htt as <-. apply H1. exact Hs.
    + rewrite Iin. destruct (test_tags si) as [tt|] eqn:Et; [discriminate|]. simpl.
      assert (H1 : seteq (apply1 (run_tags si) ch) (apply1 [] (merge_tags (t_glob t) ch))).
      { eapply seteq_trans; [apply apply1_ext; exact Irun|]. apply merge_step. exact Hd. }
      apply (IH false seen); [|exact Hw].
      constructor; tfr_side.
  - (* startTest *)
    apply andb_true_iff in Hw as [Hit Hw]. destruct it; [discriminate|]. simpl.
    assert (H1 : seteq (run_tags si) (apply1 (apply1 [] (t_glob t)) (t_test t))).
    { rewrite (Iout eq_refl). eapply seteq_trans; [exact Irun|]. apply seteq_sym, apply1_no_change. }
    apply (IH true false); [|exact Hw].
    constructor; tfr_side.
  - (* outcome: startTest, tags(global), tags(test), outcome, stopTest on the target *)
    apply andb_true_iff in Hw as [Hs Hw].
    cbn [trans tfr_step]. fold (opt_tags (t_glob t)). fold (opt_tags (t_test t)).
    rewrite <- !app_assoc. cbn [app]. cbn [sobs_from sstep wf_from negb andb fold_left].
    destruct so as [sor sot]. simpl in Isot, Isor. subst sot. cbn [run_tags test_tags].
    destruct (opt_tags_spec (t_glob t) sor sor Idg) as [t1 [E1 [O1 W1]]].
    rewrite O1, W1.
    destruct (opt_tags_spec (t_test t) sor t1 Idt) as [t2 [E2 [O2 W2]]].
    rewrite O2, W2. cbn [sobs_from sstep wf_from negb andb current test_tags run_tags].
    assert (Ht2 : seteq t2 (apply1 (apply1 [] (t_glob t)) (t_test t))).
    { eapply seteq_trans; [exact E2|]. apply apply1_ext. eapply seteq_trans; [exact E1|].
      apply apply1_ext. intro x. rewrite Isor. reflexivity. }
    assert (Hcur : seteq t2 (current si)).
    { unfold current. unfold in_test in Isi. destruct (test_tags si) as [tt|] eqn:Et.
      - destruct it; [|discriminate]. destruct seen; [discriminate|].
        apply seteq_sym. eapply seteq_trans; [apply Itest; reflexivity|]. apply seteq_sym. exact Ht2.
      - destruct it; [discriminate|]. rewrite (Iout eq_refl) in Ht2.
        eapply seteq_trans; [exact Ht2|]. eapply seteq_trans; [apply apply1_no_change|].
        apply seteq_sym. exact Irun. }
    destruct (IH it it {| t_glob := t_glob t; t_test := no_change; t_in := t_in t |} si
                 {| run_tags := sor; test_tags := None |}) as [IH1 IH2]; [|exact Hw|].
    + constructor; tfr_side.
      intros tt Htt Hseen. rewrite Hseen in Isi. unfold in_test in Isi. rewrite Htt in Isi. discriminate.
    + split; [|exact IH2]. constructor; [exact Hcur|exact IH1].
  - (* stopTest *)
    simpl. apply (IH false false); [|exact Hw].
    constructor; tfr_side.
Qed.

Lemma tfr_inv_init : tfr_inv false false tfr0 sp0 sp0.
Proof. constructor; tfr_side. Qed.

(* ---------- ExtendedToStreamDecorator -> StreamToExtendedDecorator -> PlaceHolder.run ---------- *)
(* PlaceHolder.run with tags t on a result whose run-level tags are r: the outcome is seen under
   r + t and the run-level tags are r - t afterwards *)
Lemma placeholder_block t run rest :
  sobs_from [] {| run_tags := run; test_tags := None |}
            ([Tags (t, []); StartTest; Outcome; StopTest; Tags ([], t)] ++ rest)
  = apply1 run (t, [])
    :: sobs_from [] {| run_tags := apply1 (apply1 run (t, [])) ([], t); test_tags := None |} rest.
Proof. reflexivity. Qed.

Lemma disjointb_new_only t : disjointb (t, []) = true.
Proof. apply disjointb_spec, disjoint_new_only. Qed.

(* the decorator's own tag context follows the five lines of every other result, whether or not
   the run has been started: the implicit start keeps _tags *)
Lemma e2s_ctx_step s op : e_ctx (fst (e2s_step s op)) = istep (e_ctx s) op.
Proof. destruct op; reflexivity. Qed.

Lemma e2s_ctx_fold h : forall s, e_ctx (fold_left (fun s op => fst (e2s_step s op)) h s) = fold_left istep h (e_ctx s).
Proof. induction h as [|op r IH]; intro s; simpl; [reflexivity|]. rewrite IH, e2s_ctx_step. reflexivity. Qed.

(* _ensure_started: at most a startTestRun on a target that is outside a test and has no run-level tags *)
Lemma ensure_started_spec s so : test_tags so = None -> empty (run_tags so) ->
  exists so', test_tags so' = None /\ empty (run_tags so') /\
    (forall rest, sobs_from [] so (ensure_started s ++ rest) = sobs_from [] so' rest) /\
    (forall rest, wf_from false false (ensure_started s ++ rest) = wf_from false false rest).
Proof.
  intros Ht He. unfold ensure_started. destruct (e_started s).
  - exists so. repeat split; assumption.
  - exists sp0. repeat split; try apply empty_nil.
Qed.

Lemma e2s_ok h : forall it seen s si so,
  R (e_ctx s) si -> in_test si = it -> test_tags so = None -> empty (run_tags so) ->
  wf_from it seen h = true ->
  Forall2 seteq (sobs_from [] so (trans e2s_step s h)) (sobs_from [] si h)
  /\ wf_from false false (trans e2s_step s h) = true.
Proof.
  induction h as [|op r IH]; intros it seen s si so HR Hit Hso He Hw; [split; [constructor|reflexivity]|].
  assert (Hn : nn_from (in_test si) (op :: r) = true) by (rewrite Hit; eapply wf_nn; exact Hw).
  apply nn_step in Hn as [Hn1 _].
  assert (HR' : R (e_ctx (fst (e2s_step s op))) (sstep [] si op))
    by (rewrite e2s_ctx_step; apply R_step; assumption).
  destruct op as [|ch| | |]; simpl in Hw.
  - (* explicit startTestRun *)
    apply andb_true_iff in Hw as [_ Hw]. simpl.
    apply (IH false false); try assumption; try reflexivity. apply empty_nil.
  - apply andb_true_iff in Hw as [_ Hw]. cbn [trans e2s_step app].
    apply (IH it seen); try assumption; try reflexivity. rewrite in_test_sstep. exact Hit.
  - (* startTest: implicit start *)
    apply andb_true_iff in Hw as [Hit' Hw]. destruct it; [discriminate|]. cbn [trans e2s_step].
    destruct (ensure_started_spec s so Hso He) as [so' [Hso' [He' [O1 W1]]]].
    rewrite O1, W1.
    apply (IH true false); try assumption; reflexivity.
  - (* outcome: implicit start, then the PlaceHolder block *)
    apply andb_true_iff in Hw as [_ Hw]. cbn [trans e2s_step]. rewrite <- app_assoc.
    destruct (ensure_started_spec s so Hso He) as [so' [Hso' [He' [O1 W1]]]].
    rewrite O1, W1. destruct so' as [sor sot]. simpl in Hso', He'. subst sot.
    rewrite placeholder_block.
    cbn [app wf_from negb andb]. rewrite disjointb_new_only. cbn [andb disjointb fst snd forallb].
    destruct (IH it it {| e_ctx := e_ctx s; e_started := true |} (sstep [] si Outcome)
                 {| run_tags := apply1 (apply1 sor (ctx_current (e_ctx s), [])) ([], ctx_current (e_ctx s));
                    test_tags := None |})
      as [IH1 IH2]; try assumption; try reflexivity.
    + intro x. cbn [run_tags]. rewrite !smem_apply1. simpl. rewrite He'. simpl.
      destruct (smem x (ctx_current (e_ctx s))); reflexivity.
    + split; [|exact IH2]. cbn [sobs_from sstep]. constructor; [|exact IH1].
      eapply seteq_trans; [|apply R_current; exact HR].
      intro x. rewrite smem_apply1. simpl. rewrite He'. simpl. apply andb_true_r.
  - cbn [trans e2s_step app]. apply (IH false false); try assumption; reflexivity.
Qed.

(* ---------- Tagger ---------- *)
Lemma sobs_tagger tg ch h : forall s,
  sobs_from tg s (tagger_tr ch h) = sobs_from (tg ++ [ch]) s h.
Proof.
  unfold tagger_tr. induction h as [|op r IH]; intro s; simpl; [reflexivity|].
  destruct op; simpl; rewrite ?IH; try reflexivity.
  rewrite fold_left_app. reflexivity.
Qed.

Lemma wf_tagger ch h : disjointb ch = true ->
  forall it seen, wf_from it seen (tagger_tr ch h) = wf_from it seen h.
Proof.
  intro D. unfold tagger_tr. induction h as [|op r IH]; intros it seen; simpl; [reflexivity|].
  destruct op; simpl; rewrite ?IH, ?D; reflexivity.
Qed.

(* ---------- induction over adapter trees ---------- *)
Section adapter_ind'.
  Variable P : adapter -> Prop.
  Hypothesis HL : forall o, P (Leaf o).
  Hypothesis HM : forall l, Forall P l -> P (Multi l).
  Hypothesis HD : forall a, P a -> P (Deco a).
  Hypothesis HG : forall ch a, P a -> P (Tagger ch a).
  Hypothesis HO : forall a, P a -> P (E2O a).
  Hypothesis HF : forall a, P a -> P (TFR a).
  Hypothesis HS : forall a, P a -> P (E2S a).
  Fixpoint adapter_ind' (a : adapter) : P a :=
    let fix go (l : list adapter) : Forall P l :=
      match l with [] => Forall_nil _ | x :: r => Forall_cons x (adapter_ind' x) (go r) end in
    match a with
    | Leaf o => HL o
    | Multi l => HM l (go l)
    | Deco x => HD x (adapter_ind' x)
    | Tagger ch x => HG ch x (adapter_ind' x)
    | E2O x => HO x (adapter_ind' x)
    | TFR x => HF x (adapter_ind' x)
    | E2S x => HS x (adapter_ind' x)
    end.
End adapter_ind'.

(* what a leaf must see, as long as no Tagger sits between a forwarder and the leaf *)
Definition leaf_ok (h : list call) (clean : bool) (l : list tset) : Prop :=
  wf_from false false h = true -> clean = true -> Forall2 seteq l (sobs_from [] sp0 h).

Lemma own_seen_ok h : leaf_ok h true (seen_from ctx_root h).
Proof.
  intros Hw _. apply leaf_refines; [apply R_init|]. simpl. eapply wf_nn; exact Hw.
Qed.

Lemma inner_ok a : forall h, Forall2 (leaf_ok h) (clean_inner a) (leaves_obs a h).
Proof.
  induction a as [o|l IH|x IH|ch x IH|x IH|x IH|x IH] using adapter_ind'; intro h; simpl.
  - constructor; [apply own_seen_ok|constructor].
  - induction IH as [|x r Hx _ IHr]; simpl; [constructor|]. apply Forall2_app; [apply Hx|exact IHr].
  - apply IH.
  - eapply Forall2_map_l; [|apply IH]. intros a b _ _ Hf. discriminate.
  - apply IH.
  - eapply Forall2_impl; [|apply (IH (trans tfr_step tfr0 h))].
    intros clean l Hl Hw Hc.
    destruct (tfr_ok h false false tfr0 sp0 sp0 tfr_inv_init Hw) as [H1 H2].
    eapply F2_seteq_trans; [apply Hl; assumption|exact H1].
  - constructor; [apply own_seen_ok|].
    eapply Forall2_impl; [|apply (IH (trans e2s_step e2s0 h))].
    intros clean l Hl Hw Hc.
    destruct (e2s_ok h false false e2s0 sp0 sp0 R_init eq_refl eq_refl empty_nil Hw) as [H1 H2].
    eapply F2_seteq_trans; [apply Hl; assumption|exact H1].
Qed.

(* with the Taggers that are part of the reporter *)
Lemma top_ok a : forall h, forallb disjointb (chain a) = true ->
  Forall2 (fun clean l => wf_from false false h = true -> clean = true ->
                          Forall2 seteq l (sobs_from (chain a) sp0 h))
          (clean_leaves a) (leaves_obs a h).
Proof.
  induction a as [o|l|x IH|ch x IH|x IH|x IH|x IH]; intros h Hd;
    try (exact (inner_ok _ h)); try (apply IH; exact Hd).
  simpl in Hd. rewrite forallb_app in Hd. apply andb_true_iff in Hd as [Hd1 Hd2].
  simpl in Hd2. rewrite andb_true_r in Hd2. simpl.
  eapply Forall2_impl; [|apply (IH (tagger_tr ch h) Hd1)].
  intros clean l Hl Hw Hc. rewrite <- sobs_tagger. apply Hl; [|exact Hc].
  rewrite wf_tagger; assumption.
Qed.

(* ---------- the reporter's tags at the outcomes ---------- *)
Fixpoint scan_from (tg : list change) (s : sp) (h : list call) : list tset :=
  match h with
  | [] => []
  | op :: r => current (sstep tg s op) :: scan_from tg (sstep tg s op) r
  end.

Lemma scan_prefix tg h : forall s,
  map (fun k => current (fold_left (sstep tg) (firstn k h) s)) (seq 1 (length h)) = scan_from tg s h.
Proof.
  induction h as [|op r IH]; intro s; [reflexivity|].
  cbn [length seq map scan_from]. f_equal.
  rewrite <- seq_shift, map_map. apply IH.
Qed.

Lemma spec_scan_eq tg h : spec_scan tg h = scan_from tg sp0 h.
Proof. unfold spec_scan, spec_after. apply scan_prefix. Qed.

Lemma at_outcomes_scan tg h : forall s, at_outcomes h (scan_from tg s h) = sobs_from tg s h.
Proof.
  induction h as [|op r IH]; intro s; [reflexivity|].
  destruct op; simpl; rewrite IH; reflexivity.
Qed.

Lemma at_outcomes_F2 {A} (Rr : A -> A -> Prop) h : forall l m,
  Forall2 Rr l m -> Forall2 Rr (at_outcomes h l) (at_outcomes h m).
Proof.
  induction h as [|op r IH]; intros l m H; [destruct l, m; constructor|].
  inversion H; subst; [destruct op; constructor|].
  destruct op; simpl; try (apply IH; assumption). constructor; [assumption|apply IH; assumption].
Qed.

(* C17_observed *)
Theorem observed_ok a h :
  wf_from false false h = true -> forallb disjointb (chain a) = true ->
  Forall2 (fun clean l => clean = true -> Forall2 seteq l (at_outcomes h (reporter_scan a h)))
          (clean_leaves a) (leaves_obs a h).
Proof.
  intros Hw Hd. eapply Forall2_impl; [|apply (top_ok a h Hd)].
  intros clean l Hl Hc. simpl in Hl.
  eapply F2_seteq_trans; [apply Hl; assumption|].
  rewrite <- at_outcomes_scan, <- spec_scan_eq.
  apply at_outcomes_F2. apply F2_seteq_sym. apply current_refines. eapply wf_nn; exact Hw.
Qed.

(* ====================================================================== *)
(* D. the statement                                                       *)
(* ====================================================================== *)
Theorem model_meets_spec : forall i, spec_okb i (model i) = true.
Proof.
  intros [a h]. unfold spec_okb, current_okb, observed_okb, wf_obs, model; simpl.
  apply andb_true_iff; split.
  - unfold wf_cur; simpl. destruct (nn_from false h) eqn:En; [|reflexivity].
    simpl. destruct (disj_hist h); [|reflexivity]. destruct (forallb disjointb (chain a)); [|reflexivity]. simpl.
    apply lseteqb_spec. apply current_refines. exact En.
  - destruct (wf_from false false h && forallb disjointb (chain a)) eqn:Ew; [|reflexivity]. simpl.
    apply andb_true_iff in Ew as [Hw Hd].
    apply (forall2b_Forall2 _ (fun clean l => clean = true ->
             Forall2 seteq l (at_outcomes h (reporter_scan a h)))).
    + intros c l. destruct c; simpl.
      * rewrite lseteqb_spec. split; auto.
      * split; [discriminate|reflexivity].
    + apply observed_ok; assumption.
Qed.

Theorem spec_okb_sound : forall i o, spec_okb i o = true -> Spec i o.
Proof.
  intros i o H. unfold spec_okb in H. apply andb_true_iff in H as [H1 H2]. split.
  - intro Hn. unfold current_okb in H1. rewrite Hn in H1. simpl in H1. apply lseteqb_spec. exact H1.
  - intro Hw. unfold observed_okb in H2. rewrite Hw in H2. simpl in H2.
    revert H2. apply forall2b_Forall2. intros c l. destruct c; simpl.
    + rewrite lseteqb_spec. split; auto.
    + split; [discriminate|reflexivity].
Qed.

Theorem obs_eqb_spec : forall a b, obs_eqb a b = true <-> obs_equiv a b.
Proof.
  intros a b. unfold obs_eqb, obs_equiv. rewrite andb_true_iff, lseteqb_spec.
  rewrite (list_eqb_Forall2 lseteqb (Forall2 seteq) lseteqb_spec). reflexivity.
Qed.
