(* The per-code-point law behind C16_text_roundtrip:
       for every Unicode scalar value c, feeding the UTF-8 automaton the bytes
       utf8_enc1 c, starting in the initial state, emits exactly [c] and is back
       in the initial state.
   The domain is finite (0 .. 0x10FFFF without the surrogates: 1,112,064
   values), so the law is established by an exhaustive sweep: 17 planes of
   2^16 code points each, every plane one vm_compute, lifted to a universally
   quantified statement by [range_all_spec]. *)
From TT Require Import Lib.Base Model.Utf8.
Local Open Scope N_scope.

Definition cp_ok (c : N) : bool :=
  negb (is_scalar c)
  || match feed utf8 U0 (utf8_enc1 c) with
     | Some (U0, [d]) => d =? c
     | _ => false
     end.

(* f holds on base .. base + 2^k - 1 *)
Fixpoint range_all (k : nat) (base : N) (f : N -> bool) : bool :=
  match k with
  | O => f base
  | S k' => range_all k' base f && range_all k' (base + 2 ^ N.of_nat k') f
  end.

Lemma range_all_spec k : forall base f, range_all k base f = true ->
  forall c, base <= c < base + 2 ^ N.of_nat k -> f c = true.
Proof.
  induction k as [|k IH]; intros base f H c Hc.
  - simpl in *. change (2 ^ N.of_nat 0) with 1 in Hc. assert (c = base) by lia. subst. exact H.
  - cbn [range_all] in H. apply andb_true_iff in H as [H1 H2].
    assert (E : 2 ^ N.of_nat (S k) = 2 ^ N.of_nat k + 2 ^ N.of_nat k).
    { rewrite Nat2N.inj_succ, N.pow_succ_r'. lia. }
    rewrite E in Hc.
    destruct (N.lt_ge_cases c (base + 2 ^ N.of_nat k)) as [L|G].
    + apply (IH base f H1). lia.
    + apply (IH _ f H2). lia.
Qed.

Definition plane (i : N) : bool := range_all 16 (i * 65536) cp_ok.

Lemma plane_00 : plane 0 = true. Proof. vm_compute. reflexivity. Qed.
Lemma plane_01 : plane 1 = true. Proof. vm_compute. reflexivity. Qed.
Lemma plane_02 : plane 2 = true. Proof. vm_compute. reflexivity. Qed.
Lemma plane_03 : plane 3 = true. Proof. vm_compute. reflexivity. Qed.
Lemma plane_04 : plane 4 = true. Proof. vm_compute. reflexivity. Qed.
Lemma plane_05 : plane 5 = true. Proof. vm_compute. reflexivity. Qed.
Lemma plane_06 : plane 6 = true. Proof. vm_compute. reflexivity. Qed.
Lemma plane_07 : plane 7 = true. Proof. vm_compute. reflexivity. Qed.
Lemma plane_08 : plane 8 = true. Proof. vm_compute. reflexivity. Qed.
Lemma plane_09 : plane 9 = true. Proof. vm_compute. reflexivity. Qed.
Lemma plane_10 : plane 10 = true. Proof. vm_compute. reflexivity. Qed.
Lemma plane_11 : plane 11 = true. Proof. vm_compute. reflexivity. Qed.
Lemma plane_12 : plane 12 = true. Proof. vm_compute. reflexivity. Qed.
Lemma plane_13 : plane 13 = true. Proof. vm_compute. reflexivity. Qed.
Lemma plane_14 : plane 14 = true. Proof. vm_compute. reflexivity. Qed.
Lemma plane_15 : plane 15 = true. Proof. vm_compute. reflexivity. Qed.
Lemma plane_16 : plane 16 = true. Proof. vm_compute. reflexivity. Qed.

Lemma plane_covers i : plane i = true -> forall c, i * 65536 <= c < (i + 1) * 65536 -> cp_ok c = true.
Proof.
  intros H c Hc. apply (range_all_spec 16 _ _ H).
  change (2 ^ N.of_nat 16) with 65536. lia.
Qed.

(* all code points: above 0x10FFFF nothing is a scalar value *)
Theorem cp_ok_all : forall c, cp_ok c = true.
Proof.
  intro c.
  destruct (N.lt_ge_cases c 0x110000) as [L|G].
  - assert (Hex : exists i, i < 17 /\ i * 65536 <= c < (i + 1) * 65536).
    { exists (c / 65536).
      pose proof (N.div_mod c 65536 ltac:(lia)) as Hd.
      pose proof (N.mod_lt c 65536 ltac:(lia)) as Hm.
      generalize dependent (c / 65536). generalize dependent (c mod 65536). intros r Hr q Hq.
      split; lia. }
    destruct Hex as [i [Hi Hc]].
    assert (Hcases : i = 0 \/ i = 1 \/ i = 2 \/ i = 3 \/ i = 4 \/ i = 5 \/ i = 6 \/ i = 7 \/ i = 8 \/ i = 9 \/
                     i = 10 \/ i = 11 \/ i = 12 \/ i = 13 \/ i = 14 \/ i = 15 \/ i = 16) by lia.
    clear Hi.
    repeat (destruct Hcases as [Hcases|Hcases]); subst i;
      [ apply (plane_covers _ plane_00) | apply (plane_covers _ plane_01) | apply (plane_covers _ plane_02)
      | apply (plane_covers _ plane_03) | apply (plane_covers _ plane_04) | apply (plane_covers _ plane_05)
      | apply (plane_covers _ plane_06) | apply (plane_covers _ plane_07) | apply (plane_covers _ plane_08)
      | apply (plane_covers _ plane_09) | apply (plane_covers _ plane_10) | apply (plane_covers _ plane_11)
      | apply (plane_covers _ plane_12) | apply (plane_covers _ plane_13) | apply (plane_covers _ plane_14)
      | apply (plane_covers _ plane_15) | apply (plane_covers _ plane_16) ]; exact Hc.
  - unfold cp_ok. replace (is_scalar c) with false; [reflexivity|].
    unfold is_scalar. symmetry. apply orb_false_iff; split.
    + apply N.ltb_ge. lia.
    + apply andb_false_iff. right. apply N.leb_gt. lia.
Qed.

(* the law in the form the string induction uses *)
Theorem utf8_enc1_decodes : forall c, is_scalar c = true ->
  feed utf8 U0 (utf8_enc1 c) = Some (U0, [c]).
Proof.
  intros c Hs. pose proof (cp_ok_all c) as H. unfold cp_ok in H. rewrite Hs in H. simpl in H.
  destruct (feed utf8 U0 (utf8_enc1 c)) as [[s out]|]; [|discriminate].
  destruct s; try discriminate.
  destruct out as [|d [|? ?]]; try discriminate.
  apply N.eqb_eq in H. subst. reflexivity.
Qed.
