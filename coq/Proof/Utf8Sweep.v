(* placeholder *)
From TT Require Import Lib.Base Model.Utf8.
