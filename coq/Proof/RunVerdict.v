(* Shared by C01 and C03: the outcome a fresh run reports and what it lets out, read off the
   program declaratively (Spec/Run.v: raised, user_handlers, claimed, outcome_of), from
   RunExtra.run_from_spec and the table facts of RunTable. *)
From TT Require Import Lib.Base Gen.Handlers Model.Run Spec.Run Proof.RunCore Proof.RunExtra Proof.RunTable.

(* which outcome is reported, and the exception run() lets out *)
Definition verdict_of (p : prog) : outcome * option exc :=
  if skipped p then (OSkip, None) else decide_u (user_handlers p) (raised p).

Lemma raised_skipped p : skipped p = true -> raised p = [].
Proof. intros S. unfold raised, raised_by_user, forced_failure. now rewrite S. Qed.

Lemma collected_run_raised p : collected_run p false = raised p.
Proof.
  unfold collected_run. destruct (skipped p) eqn:S; [now rewrite raised_skipped | now apply collected_fresh].
Qed.

(* the bracket, at the level of the model's trace: the calls on the result are startTest, one
   outcome, stopTest; the fuel supplied suffices; every body that should run did; the cleanup
   stack is empty; the exceptions caught are the ones the program raises; the handlers in front
   of the table are the inserted ones *)
Theorem run_verdict p a0 :
  exists s d,
    run p a0 = (s, snd (verdict_of p), false)
    /\ calls (tr s) = [TStart; TOut (fst (verdict_of p)) d; TStop]
    /\ map shape (log s) = expected_log p
    /\ stack s = [] /\ attrs s = a0
    /\ excs s = raised p /\ uh s = user_handlers p.
Proof.
  unfold run. pose proof (run_from_spec p (init p a0)) as H. cbv zeta in H.
  destruct H as (s & tr0 & R & L & X & _ & K & A & U & T & C0 & _ & _).
  cbn [force init log tr uh attrs] in *. fold (user_handlers p) in *.
  rewrite collected_run_raised in *.
  assert (Q : exists d, fst (fst (conclude p (handlers_of (user_handlers p)) (raised p)
                                     (prun (run_events p false) (proj (reset (init p a0))))))
                        = [TOut (fst (verdict_of p)) d]
                        /\ snd (fst (conclude p (handlers_of (user_handlers p)) (raised p)
                                     (prun (run_events p false) (proj (reset (init p a0))))))
                           = snd (verdict_of p)).
  { unfold conclude, verdict_of, skipped. destruct (p_skip p) as [r|]; [eexists; split; reflexivity|].
    destruct (raised p) as [|x r] eqn:E.
    - rewrite choose_nil. eexists; split; reflexivity.
    - destruct (choose_decide (user_handlers p) (x :: r)) as (e & Ce & D); [discriminate|]. rewrite Ce.
      destruct (lookup (handlers_of (user_handlers p)) e) as [h|]; destruct D as [D1 D2].
      + rewrite D1. eexists; split; [reflexivity | now rewrite D2].
      + rewrite D1. eexists; split; [reflexivity | now rewrite D2]. }
  destruct Q as (d & Q1 & Q2). exists s, d. rewrite Q2 in R. rewrite Q1 in T.
  split; [exact R|]. split.
  { rewrite T, calls_app, C0. reflexivity. }
  repeat split; assumption.
Qed.

(* the verdict in Spec.Run's own words: the exception reported for (the first one nobody is
   responsible for, else the last) decides *)
Lemma verdict_of_reported p :
  skipped p = false ->
  verdict_of p = match reported p with
                 | None => (OSuccess, None)
                 | Some e => (outcome_of p e, if claimed p e then None else Some e)
                 end.
Proof.
  intros S. unfold verdict_of, reported, decide_u. rewrite S.
  destruct (raised p) as [|x r]; [reflexivity|]. set (Y := x :: r).
  change (fun e => negb (uclaimed (user_handlers p) e)) with (fun e => negb (claimed p e)).
  destruct (find (fun e => negb (claimed p e)) Y) as [e|] eqn:F.
  - apply find_some in F. destruct F as [_ F]. apply negb_true_iff in F. rewrite F.
    change (claimed p e) with (uclaimed (user_handlers p) e) in F.
    change (outcome_of p e) with (uoutcome (user_handlers p) e). now rewrite (unclaimed_is_error _ _ F).
  - assert (C : claimed p (last Y (Exc CFail None)) = true).
    { pose proof (find_none _ _ F (last Y (Exc CFail None))) as N.
      assert (HY : Y <> []) by discriminate.
      destruct (exists_last HY) as (front & lst & E). rewrite E in *. rewrite last_last in *.
      assert (I : In lst (front ++ [lst])) by (apply in_or_app; right; left; reflexivity).
      specialize (N I). now apply negb_false_iff in N. }
    rewrite C. reflexivity.
Qed.
