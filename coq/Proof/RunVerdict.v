(* Shared by C01 and C03: the outcome a fresh run reports and what it lets out, read off the
   program declaratively (Spec/Run.v: raised, user_handlers, claimed, outcome_of), from
   RunExtra.run_from_spec and the table facts of RunTable. *)
From TT Require Import Lib.Base Gen.Handlers Model.Run Spec.Run Proof.RunCore Proof.RunExtra Proof.RunTable.

(* which outcome is reported, and the exception run() lets out *)
Definition verdict_of (p : prog) : outcome * option exc :=
  if skipped p then (OSkip, None) else decide_u (user_handlers p) (raised p).

Lemma raised_skipped p : skipped p = true -> raised p = [].
Proof. intros S. unfold raised, raised_by_user, forced_failure. now rewrite S. Qed.

Lemma collected_run_raised p : collected_run p false = raised p.
Proof.
  unfold collected_run. destruct (skipped p) eqn:S; [now rewrite raised_skipped | now apply collected_fresh].
Qed.

(* a run of an instance that has been run before: the handlers in front of the table are the ones
   inserted so far ([u0]), force_failure may still be set ([f0]) *)
Definition verdict_from (p : prog) (u0 : list (cls * outcome)) (f0 : bool) : outcome * option exc :=
  if skipped p then (OSkip, None) else decide_u (rev (inserted p) ++ u0) (collected_run p f0).

(* the bracket, at the level of the model's trace, for TestCase.run on an instance in ANY state: the
   calls on the result are startTest, one outcome, stopTest; the fuel supplied suffices; every body
   that should run did; the cleanup stack is empty; the exceptions caught are the ones this run
   raises (nothing is left over from an earlier run); the handlers in front of the table are the
   inserted ones *)
Theorem run_from_verdict p s :
  exists s' d,
    run_from p s = (s', snd (verdict_from p (uh s) (force s)), false)
    /\ calls (tr s') = calls (tr s) ++ [TStart; TOut (fst (verdict_from p (uh s) (force s))) d; TStop]
    /\ map shape (log s') = map shape (log s) ++ expected_log p
    /\ stack s' = []
    /\ excs s' = collected_run p (force s) /\ uh s' = rev (inserted p) ++ uh s
    /\ force s' = force s || (negb (skipped p) && forced p).
Proof.
  pose proof (run_from_spec p s) as H. cbv zeta in H.
  destruct H as (s' & tr0 & R & L & X & F & K & _ & U & T & C0 & _ & _).
  set (u := rev (inserted p) ++ uh s) in *. set (Y := collected_run p (force s)) in *.
  assert (Q : exists d, fst (fst (conclude p (handlers_of u) Y
                                     (prun (run_events p (force s)) (proj (reset s)))))
                        = [TOut (fst (verdict_from p (uh s) (force s))) d]
                        /\ snd (fst (conclude p (handlers_of u) Y
                                     (prun (run_events p (force s)) (proj (reset s)))))
                           = snd (verdict_from p (uh s) (force s))).
  { unfold conclude, verdict_from. fold u Y. unfold skipped. destruct (p_skip p) as [r|]; [eexists; split; reflexivity|].
    destruct Y as [|x r] eqn:E.
    - rewrite choose_nil. eexists; split; reflexivity.
    - destruct (choose_decide u (x :: r)) as (e & Ce & D); [discriminate|]. rewrite Ce.
      destruct (lookup (handlers_of u) e) as [h|]; destruct D as [D1 D2].
      + rewrite D1. eexists; split; [reflexivity | now rewrite D2].
      + rewrite D1. eexists; split; [reflexivity | now rewrite D2]. }
  destruct Q as (d & Q1 & Q2). exists s', d. rewrite Q2 in R. rewrite Q1 in T.
  split; [exact R|]. split.
  { rewrite T, calls_app, C0, <- app_assoc. reflexivity. }
  repeat split; assumption.
Qed.

(* ---------- a RunTest whose handler of last resort reports [lr] (Model.Run.runner_last_resort: a factory
   that cannot be given last_resort= builds a RunTest whose last resort reports nothing) ---------- *)
(* the outcome calls of the run: the verdict's outcome when a handler is responsible for the reported
   exception (or nothing was caught); what the last resort reports - possibly nothing - when nobody is *)
Definition outs_with (lr : option outcome) (v : outcome * option exc) (d : list (dname * ocontent)) : list tev :=
  match snd v with
  | None => [TOut (fst v) d]
  | Some _ => match lr with Some o => [TOut o d] | None => [] end
  end.
Lemma calls_outs_with lr v d : calls (outs_with lr v d) = outs_with lr v d.
Proof. unfold outs_with. destruct (snd v); [destruct lr|]; reflexivity. Qed.

(* run_from_verdict for any handler of last resort: everything but the outcome call is the same - what
   propagates, the bodies run, the exceptions caught, the state left behind *)
Theorem run_from_with_verdict lr p s :
  exists s' d,
    run_from_with lr p s = (s', snd (verdict_from p (uh s) (force s)), false)
    /\ calls (tr s') = calls (tr s) ++ [TStart] ++ outs_with lr (verdict_from p (uh s) (force s)) d ++ [TStop]
    /\ map shape (log s') = map shape (log s) ++ expected_log p
    /\ stack s' = []
    /\ excs s' = collected_run p (force s) /\ uh s' = rev (inserted p) ++ uh s
    /\ force s' = force s || (negb (skipped p) && forced p).
Proof.
  pose proof (run_from_with_spec lr p s) as H. cbv zeta in H.
  destruct H as (s' & tr0 & R & L & X & F & K & _ & U & T & C0 & _ & _).
  set (u := rev (inserted p) ++ uh s) in *. set (Y := collected_run p (force s)) in *.
  assert (Q : exists d, fst (fst (conclude_with lr p (handlers_of u) Y
                                     (prun (run_events p (force s)) (proj (reset s)))))
                        = outs_with lr (verdict_from p (uh s) (force s)) d
                        /\ snd (fst (conclude_with lr p (handlers_of u) Y
                                     (prun (run_events p (force s)) (proj (reset s)))))
                           = snd (verdict_from p (uh s) (force s))).
  { unfold conclude_with, verdict_from, outs_with. fold u Y. unfold skipped.
    destruct (p_skip p) as [r|]; [eexists; split; reflexivity|].
    destruct Y as [|x r] eqn:E.
    - rewrite choose_nil. eexists; split; reflexivity.
    - destruct (choose_decide u (x :: r)) as (e & Ce & D); [discriminate|]. rewrite Ce.
      destruct (lookup (handlers_of u) e) as [h|]; destruct D as [D1 D2].
      + rewrite D1, D2. eexists; split; reflexivity.
      + rewrite D2. cbn [fst snd]. destruct lr; [eexists | exists []]; split; reflexivity. }
  destruct Q as (d & Q1 & Q2). exists s', d. rewrite Q2 in R. rewrite Q1 in T.
  split; [exact R|]. split.
  { rewrite T, !calls_app, C0, calls_outs_with, <- !app_assoc. reflexivity. }
  repeat split; assumption.
Qed.

(* when somebody is responsible for every exception caught, or the last resort reports, there is exactly
   one outcome call *)
Lemma outs_with_some o v d : outs_with (Some o) v d = [TOut (match snd v with Some _ => o | None => fst v end) d].
Proof. unfold outs_with. destruct (snd v); reflexivity. Qed.
Lemma outs_with_returns lr v d : snd v = None -> outs_with lr v d = [TOut (fst v) d].
Proof. unfold outs_with. now intros ->. Qed.
Lemma outs_with_none_raises v d e : snd v = Some e -> outs_with None v d = [].
Proof. unfold outs_with. now intros ->. Qed.

Lemma verdict_from_fresh p : verdict_from p (p_handlers p) false = verdict_of p.
Proof. unfold verdict_from, verdict_of. fold (user_handlers p). now rewrite collected_run_raised. Qed.

(* a fresh instance *)
Theorem run_verdict p a0 :
  exists s d,
    run p a0 = (s, snd (verdict_of p), false)
    /\ calls (tr s) = [TStart; TOut (fst (verdict_of p)) d; TStop]
    /\ map shape (log s) = expected_log p
    /\ stack s = []
    /\ excs s = raised p /\ uh s = user_handlers p.
Proof.
  unfold run. destruct (run_from_verdict p (init p a0)) as (s & d & R & C & L & K & X & U & _).
  cbn [force init log tr uh] in *. rewrite verdict_from_fresh in *. rewrite collected_run_raised in X.
  exists s, d. repeat split; assumption.
Qed.

(* the verdict in Spec.Run's own words: the exception reported for (the first one nobody is
   responsible for, else the last) decides *)
Lemma verdict_of_reported p :
  skipped p = false ->
  verdict_of p = match reported p with
                 | None => (OSuccess, None)
                 | Some e => (outcome_of p e, if claimed p e then None else Some e)
                 end.
Proof.
  intros S. unfold verdict_of, reported, decide_u. rewrite S.
  destruct (raised p) as [|x r]; [reflexivity|]. set (Y := x :: r).
  change (fun e => negb (uclaimed (user_handlers p) e)) with (fun e => negb (claimed p e)).
  destruct (find (fun e => negb (claimed p e)) Y) as [e|] eqn:F.
  - apply find_some in F. destruct F as [_ F]. apply negb_true_iff in F. rewrite F.
    change (claimed p e) with (uclaimed (user_handlers p) e) in F.
    change (outcome_of p e) with (uoutcome (user_handlers p) e). now rewrite (unclaimed_is_error _ _ F).
  - assert (C : claimed p (last Y (Exc CFail None)) = true).
    { pose proof (find_none _ _ F (last Y (Exc CFail None))) as N.
      assert (HY : Y <> []) by discriminate.
      destruct (exists_last HY) as (front & lst & E). rewrite E in *. rewrite last_last in *.
      assert (I : In lst (front ++ [lst])) by (apply in_or_app; right; left; reflexivity).
      specialize (N I). now apply negb_false_iff in N. }
    rewrite C. reflexivity.
Qed.
