(* Lemmas behind Props/C16.v. *)
From TT Require Import Lib.Base Model.Utf8 Model.MimeCt Model.Content Spec.C16 Corr.C16.
