(* Lemmas behind Props/C16.v. *)
From Coq Require Import String Permutation.
From TT Require Import Lib.Base Lib.Sort Model.Utf8 Model.MimeCt Model.Content Spec.C16 Corr.C16 Proof.Utf8Sweep.


(* ================= 1. chunk independence, for every byte automaton ================= *)
Section Chunking.
  Variable C : codec.

  Lemma feed_app : forall a b s,
    feed C s (a ++ b) =
    match feed C s a with
    | None => None
    | Some (s1, o1) => match feed C s1 b with
                       | None => None
                       | Some (s2, o2) => Some (s2, o1 ++ o2)
                       end
    end.
  Proof.
    induction a as [|x a IH]; intros b s; simpl.
    - destruct (feed C s b) as [[s2 o2]|]; reflexivity.
    - destruct (dstep C s x) as [[s' o]|]; [|reflexivity].
      rewrite IH. destruct (feed C s' a) as [[s1 o1]|]; [|reflexivity].
      destruct (feed C s1 b) as [[s2 o2]|]; [|reflexivity].
      destruct o; reflexivity.
  Qed.

  (* what the generator loop yields, joined, from any decoder state *)
  Definition joined_text (s : dstate C) (chunks : list chunk) : option (list N) :=
    option_map (@concat N) (iter_text_loop C s chunks).

  Definition decode_from (s : dstate C) (bs : list N) : option (list N) :=
    match feed C s bs with
    | None => None
    | Some (s', out) => match flush C s' with None => None | Some fin => Some (out ++ fin) end
    end.

  Lemma flush_nil s fin : flush C s = Some fin -> fin = [].
  Proof. unfold flush. destruct (dfinal C s); congruence. Qed.

  Lemma chunking_from : forall chunks s, joined_text s chunks = decode_from s (concat chunks).
  Proof.
    unfold joined_text, decode_from.
    induction chunks as [|c r IH]; intro s; simpl.
    - destruct (flush C s) as [fin|] eqn:E; [|reflexivity].
      rewrite (flush_nil _ _ E). reflexivity.
    - rewrite feed_app. destruct (feed C s c) as [[s1 o1]|]; [|reflexivity].
      specialize (IH s1).
      destruct (iter_text_loop C s1 r) as [pieces|]; simpl in *.
      + destruct (feed C s1 (concat r)) as [[s2 o2]|]; [|discriminate].
        destruct (flush C s2) as [fin|]; [|discriminate].
        injection IH as IH. rewrite IH, app_assoc. reflexivity.
      + destruct (feed C s1 (concat r)) as [[s2 o2]|]; [|reflexivity].
        destruct (flush C s2); [discriminate|reflexivity].
  Qed.

  Theorem chunking : forall chunks, joined_text (dinit C) chunks = decode_whole C (concat chunks).
  Proof. intro chunks. apply chunking_from. Qed.

  Corollary chunking_indep : forall c1 c2, concat c1 = concat c2 ->
    joined_text (dinit C) c1 = joined_text (dinit C) c2.
  Proof. intros c1 c2 E. rewrite !chunking, E. reflexivity. Qed.
End Chunking.


(* ================= reflection of the comparison functions ================= *)
Lemma bytes_eqb_spec a b : bytes_eqb a b = true <-> a = b.
Proof. apply list_eqb_spec. intros; apply N.eqb_eq. Qed.
Lemma bytes_eqb_refl a : bytes_eqb a a = true.
Proof. apply bytes_eqb_spec. reflexivity. Qed.
Lemma exn_eqb_spec a b : exn_eqb a b = true <-> a = b.
Proof. destruct a, b; simpl; split; congruence. Qed.
Lemma tres_eqb_spec a b : tres_eqb a b = true <-> a = b.
Proof. apply res_eqb_spec; [apply bytes_eqb_spec|apply exn_eqb_spec]. Qed.
Lemma tres_eqb_refl a : tres_eqb a a = true.
Proof. apply tres_eqb_spec. reflexivity. Qed.
Lemma chunks_eqb_spec a b : chunks_eqb a b = true <-> a = b.
Proof. apply list_eqb_spec. apply bytes_eqb_spec. Qed.
Lemma str_eqb_spec a b : str_eqb a b = true <-> a = b.
Proof. apply bytes_eqb_spec. Qed.
Lemma str_eqb_refl a : str_eqb a a = true.
Proof. apply str_eqb_spec. reflexivity. Qed.

(* ================= 2. as_text of a content over stored chunks ================= *)
Lemma iter_text_whole C chunks :
  match iter_text_loop C (dinit C) chunks with
  | None => Raised UnicodeDecodeError
  | Some pieces => Ok (concat pieces)
  end = whole C (concat chunks).
Proof.
  unfold whole. rewrite <- chunking. unfold joined_text.
  destruct (iter_text_loop C (dinit C) chunks); reflexivity.
Qed.

Lemma as_text_stored ct chunks w :
  as_text {| c_type := ct; c_src := Stored chunks |} w =
  (if negb (str_eqb (ct_type ct) (sb "text")) then Raised ValueError
   else match codec_of (declared_charset ct) with
        | None => Raised LookupError
        | Some C => whole C (concat chunks)
        end, w).
Proof.
  unfold as_text, iter_bytes; simpl.
  destruct (negb (str_eqb (ct_type ct) (sb "text"))); [reflexivity|].
  destruct (codec_of (declared_charset ct)) as [C|]; [|reflexivity].
  rewrite <- iter_text_whole.
  destruct (iter_text_loop C (dinit C) chunks); reflexivity.
Qed.

Lemma text_okb_stored ct chunks w :
  text_okb ct (concat chunks) (fst (as_text {| c_type := ct; c_src := Stored chunks |} w)) = true.
Proof.
  rewrite as_text_stored. unfold text_okb; simpl.
  destruct (str_eqb (ct_type ct) (sb "text")); simpl; [|reflexivity].
  destruct (codec_of (declared_charset ct)); [apply tres_eqb_refl|reflexivity].
Qed.

(* ================= 3. UTF-8: decode after encode ================= *)
Lemma feed_utf8_encode s : forallb is_scalar s = true -> feed utf8 U0 (utf8_encode s) = Some (U0, s).
Proof.
  induction s as [|c s IH]; intro H; [reflexivity|].
  simpl in H. apply andb_true_iff in H as [Hc Hs].
  unfold utf8_encode. simpl flat_map. rewrite feed_app.
  change (dstate utf8) with u8state in *.
  rewrite (utf8_enc1_decodes c Hc). fold (utf8_encode s). specialize (IH Hs). rewrite IH. reflexivity.
Qed.

Theorem utf8_roundtrip s : forallb is_scalar s = true -> decode_whole utf8 (utf8_encode s) = Some s.
Proof.
  intro H. unfold decode_whole. change (dinit utf8) with U0. pose proof (feed_utf8_encode s H) as E. rewrite E. simpl. rewrite app_nil_r. reflexivity.
Qed.

Lemma utf8_text_ct : str_eqb (ct_type Gen.Ctc16.UTF8_TEXT) (sb "text") = true
                     /\ codec_of (declared_charset Gen.Ctc16.UTF8_TEXT) = Some utf8.
Proof. split; vm_compute; reflexivity. Qed.

Theorem text_roundtrip s w : forallb is_scalar s = true -> as_text (text_content s) w = (Ok s, w).
Proof.
  intro H. unfold text_content. rewrite as_text_stored.
  destruct utf8_text_ct as [E1 E2]. rewrite E1, E2. simpl.
  unfold whole. rewrite app_nil_r, (utf8_roundtrip s H). reflexivity.
Qed.

(* ================= 4. the read loop ================= *)
Lemma skipn_skipn {A} a : forall b (l : list A), skipn a (skipn b l) = skipn (b + a) l.
Proof.
  induction b as [|b IH]; intro l; [reflexivity|].
  destruct l; simpl; [apply skipn_nil|apply IH].
Qed.

Lemma firstn_nil_inv {A} n (l : list A) : 1 <= n -> firstn n l = [] -> l = [].
Proof. destruct n; [lia|]. destruct l; simpl; [reflexivity|discriminate]. Qed.

Lemma skipn_firstn_len {A} n (l : list A) : skipn (length (firstn n l)) l = skipn n l.
Proof.
  rewrite firstn_length. destruct (Nat.le_ge_cases n (length l)) as [L|G].
  - rewrite Nat.min_l by exact L. reflexivity.
  - rewrite Nat.min_r by exact G. rewrite !skipn_all2; [reflexivity|exact G|lia].
Qed.

Lemma next_size_bounds n sizes : 1 <= n -> 1 <= next_size n sizes <= n.
Proof. intro Hn. unfold next_size. destruct sizes as [|s r]; lia. Qed.

(* for EVERY read-size oracle: however short the reads of the stream are (1..n bytes while data
   remains), the loop goes on until the empty read *)
Theorem read_loop_spec : forall fuel data pos n sizes, 1 <= n -> length data - pos < fuel ->
  exists cs, read_loop fuel data pos n sizes = Some (cs, Nat.max pos (length data), S (length cs))
             /\ Forall (fun c => c <> []) cs
             /\ Forall (fun c => length c <= n) cs
             /\ concat cs = skipn pos data.
Proof.
  induction fuel as [|f IH]; intros data pos n sizes Hn Hf; [lia|].
  cbn [read_loop]. unfold read_at.
  pose proof (next_size_bounds n sizes Hn) as [Hk1 Hk2]. set (k := next_size n sizes) in *. clearbody k.
  destruct (firstn k (skipn pos data)) as [|x c'] eqn:E.
  - apply (firstn_nil_inv _ _ Hk1) in E.
    assert (L : length data <= pos).
    { pose proof (skipn_length pos data) as Hl. rewrite E in Hl. simpl in Hl. lia. }
    exists []. rewrite Nat.max_l by exact L. rewrite E. repeat split; constructor.
  - set (c := x :: c') in *.
    assert (Hlen : length c = Nat.min k (length data - pos)).
    { rewrite <- E, firstn_length, skipn_length. reflexivity. }
    assert (Hpos : 1 <= length c) by (subst c; simpl; lia).
    destruct (IH data (pos + length c) n (tl sizes) Hn ltac:(lia)) as [cs [R [F1 [F2 Hc]]]].
    rewrite R. exists (c :: cs). repeat split.
    + f_equal. f_equal. f_equal. lia.
    + constructor; [subst c; discriminate|exact F1].
    + constructor; [lia|exact F2].
    + change (concat (c :: cs)) with (c ++ concat cs). rewrite Hc, <- skipn_skipn. clearbody c. subst c.
      rewrite skipn_firstn_len. apply firstn_skipn.
Qed.

(* chunk_size >= 1: the fuel run_reader supplies is enough, and the result is what the statement asks for *)
Lemma chunks_okb_intro n cs bs :
  Forall (fun c => c <> []) cs -> Forall (fun c => length c <= n) cs -> concat cs = bs -> chunks_okb n cs bs = true.
Proof.
  intros F1 F2 E. unfold chunks_okb. rewrite E, bytes_eqb_refl, andb_true_r.
  apply andb_true_iff; split; apply forallb_forall; intros c Hc.
  - rewrite Forall_forall in F1. specialize (F1 c Hc). destruct c; [congruence|reflexivity].
  - rewrite Forall_forall in F2. apply Nat.leb_le. exact (F2 c Hc).
Qed.

Definition after_read (k : skind) (w : world) (p r : nat) : world :=
  {| w_data := w_data w;
     w_pos := match k with KBytesIO => Nat.max p (length (w_data w)) | KFile => w_pos w end;
     w_reads := w_reads w + r;
     w_heap := w_heap w;
     w_sizes := skipn r (w_sizes w) |}.

Theorem run_reader_ok k n sk w p : 1 <= n ->
  start_of k (length (w_data w)) (w_pos w) sk = Ok p ->
  exists cs, run_reader k n sk w = (Ok cs, after_read k w p (S (length cs)))
             /\ Forall (fun c => c <> []) cs /\ Forall (fun c => length c <= n) cs
             /\ concat cs = skipn p (w_data w).
Proof.
  intros Hn Hs. unfold run_reader. unfold start_of in Hs.
  replace (match sk with
           | Some (off, wh) => seek_pos k (length (w_data w)) off wh
           | None => Ok match k with KBytesIO => w_pos w | KFile => 0 end
           end) with (@Ok nat exn p).
  destruct (read_loop_spec (length (w_data w) - p + 1) (w_data w) p n (w_sizes w) Hn ltac:(lia)) as [cs [R H]].
  rewrite R. exists cs. split; [reflexivity|exact H].
Qed.

Lemma run_reader_raises k n sk w e :
  start_of k (length (w_data w)) (w_pos w) sk = Raised e -> run_reader k n sk w = (Raised e, w).
Proof.
  intro Hs. unfold run_reader. unfold start_of in Hs.
  replace (match sk with
           | Some (off, wh) => seek_pos k (length (w_data w)) off wh
           | None => Ok match k with KBytesIO => w_pos w | KFile => 0 end
           end) with (@Raised nat exn e). reflexivity.
Qed.


(* ================= 5. laziness, buffer_now, snapshots ================= *)
Lemma exn_eqb_refl e : exn_eqb e e = true.
Proof. destruct e; reflexivity. Qed.
Lemma chunks_eqb_refl c : chunks_eqb c c = true.
Proof. apply chunks_eqb_spec. reflexivity. Qed.

(* one full iteration of the live reader, against "the bytes from the requested offset to EOF" *)
Lemma run_reader_want k n sk w : 1 <= n ->
  match start_of k (length (w_data w)) (w_pos w) sk with
  | Raised e => run_reader k n sk w = (Raised e, w)
  | Ok p => exists cs, run_reader k n sk w = (Ok cs, after_read k w p (S (length cs)))
                       /\ chunks_okb n cs (skipn p (w_data w)) = true
  end.
Proof.
  intro Hn. destruct (start_of k (length (w_data w)) (w_pos w) sk) as [p|e] eqn:E.
  - destruct (run_reader_ok k n sk w p Hn E) as [cs [R [F1 [F2 Hc]]]].
    exists cs. split; [exact R|]. apply chunks_okb_intro; assumption.
  - apply run_reader_raises. exact E.
Qed.

(* the second iteration starts where the statement says *)
Lemma start_of_again k len pos p sk : start_of k len pos sk = Ok p ->
  start_of k len (match k with KBytesIO => Nat.max p len | KFile => pos end) sk
  = start_of k len (pos_after len p) sk
  /\ exists p2, start_of k len (pos_after len p) sk = Ok p2.
Proof.
  unfold start_of, pos_after. destruct sk as [[off wh]|]; intro H.
  - split; [reflexivity|]. exists p. exact H.
  - destruct k; split; try reflexivity; eexists; reflexivity.
Qed.

Theorem reader_holds r : 1 <= r_chunk r -> spec_okb (IReader r) (model_reader r) = true.
Proof.
  intro Hn. destruct r as [k d0 p0 sk n b d1 p1 sz]. simpl in Hn.
  unfold model_reader, content_from_source, content_from_reader. cbn [r_kind r_data0 r_pos0 r_seek r_chunk r_buffer r_data1 r_pos1 r_sizes].
  destruct b.
  - (* buffer_now *)
    cbn [iter_src].
    pose proof (run_reader_want k n sk (w_init d0 p0 sz) Hn) as H. cbn [w_init w_data w_pos] in H.
    cbn [spec_okb]. unfold reader_okb, want. cbn [r_kind r_data0 r_pos0 r_seek r_chunk r_buffer r_data1 r_pos1 r_sizes].
    destruct (start_of k (length d0) p0 sk) as [p|e].
    + destruct H as [cs [R Hok]]. rewrite R. cbn [iter_bytes c_src iter_src set_source after_read w_reads w_init].
      rewrite Hok, chunks_eqb_refl, Nat.ltb_irrefl. reflexivity.
    + rewrite H. cbn. apply exn_eqb_refl.
  - (* lazy *)
    cbn [iter_bytes c_src iter_src w_init w_reads].
    set (wc := {| w_data := d1; w_pos := p1; w_reads := 0; w_heap := []; w_sizes := sz |}).
    change (set_source (w_init d0 p0 sz) d1 p1) with wc. change (w_reads (w_init d0 p0 sz)) with 0.
    pose proof (run_reader_want k n sk wc Hn) as H. cbn [wc w_data w_pos] in H.
    cbn [spec_okb]. unfold reader_okb, want. cbn [r_kind r_data0 r_pos0 r_seek r_chunk r_buffer r_data1 r_pos1 r_sizes].
    destruct (start_of k (length d1) p1 sk) as [p|e] eqn:E.
    + destruct H as [cs [R Hok]]. rewrite R.
      set (wd := after_read k wc p (S (length cs))).
      pose proof (run_reader_want k n sk wd Hn) as H2. cbn [wd wc after_read w_data w_pos] in H2.
      destruct (start_of_again k (length d1) p1 p sk E) as [E2 [p2 E3]].
      rewrite E2, E3 in H2. destruct H2 as [cs2 [R2 Hok2]]. fold wc in R2. fold wd in R2. rewrite R2.
      rewrite E3. cbn [iter_okb negb andb Nat.ltb Nat.leb]. rewrite Hok, Hok2. reflexivity.
    + rewrite H, H. cbn. rewrite exn_eqb_refl. reflexivity.
Qed.


Lemma chunks_okb_joined n cs bs : chunks_okb n cs bs = true -> bytes_eqb (concat cs) bs = true.
Proof. unfold chunks_okb. intro H. apply andb_true_iff in H as [_ H]. exact H. Qed.

Theorem snap_holds r : 1 <= r_chunk r -> spec_okb (ISnap r) (model_snap r) = true.
Proof.
  intro Hn. destruct r as [k d0 p0 sk n b d1 p1 sz]. simpl in Hn.
  unfold model_snap, content_from_source, content_from_reader, copy_content.
  cbn [r_kind r_data0 r_pos0 r_seek r_chunk r_buffer r_data1 r_pos1 r_sizes iter_bytes c_src c_type iter_src].
  pose proof (run_reader_want k n sk (w_init d0 p0 sz) Hn) as H. cbn [w_init w_data w_pos] in H.
  cbn [spec_okb]. unfold snap_okb, want. cbn [r_kind r_data0 r_pos0 r_seek r_chunk r_buffer r_data1 r_pos1 r_sizes].
  destruct (start_of k (length d0) p0 sk) as [p|e].
  - destruct H as [cs [R Hok]]. rewrite R.
    cbn [alloc after_read w_init w_heap w_data w_pos w_reads app length set_source iter_bytes c_src c_type iter_src heap_get nth].
    match goal with |- context [run_reader k n sk ?W] => set (wd := W) end.
    pose proof (run_reader_want k n sk wd Hn) as H2.
    change (w_data wd) with d1 in H2. change (w_pos wd) with p1 in H2.
    rewrite Nat.ltb_irrefl.
    assert (Hct : ct_eqb Gen.Ctc16.UTF8_TEXT Gen.Ctc16.UTF8_TEXT = true) by (vm_compute; reflexivity).
    rewrite Hct. apply chunks_okb_joined in Hok.
    destruct (start_of k (length d1) p1 sk) as [q|e].
    + destruct H2 as [cs2 [R2 Hok2]]. rewrite R2. cbn [joined_okb negb andb].
      rewrite Hok. apply (chunks_okb_joined _ _ _ Hok2).
    + rewrite H2. cbn [joined_okb negb andb]. rewrite Hok. apply exn_eqb_refl.
  - rewrite H. cbn. apply exn_eqb_refl.
Qed.

(* gathering from an in-memory list: the copy lives at a new location *)
Theorem snaplist_holds r : spec_okb (ISnapList r) (model_snaplist r) = true.
Proof.
  destruct r as [tup buf ops].
  assert (Hct : ct_eqb Gen.Ctc16.UTF8_TEXT Gen.Ctc16.UTF8_TEXT = true) by (vm_compute; reflexivity).
  unfold model_snaplist, copy_content. cbn [sl_tuple sl_buf sl_ops].
  destruct tup;
    cbn [iter_bytes c_src c_type iter_src alloc mutate w_heap w_data w_pos w_reads heap_get heap_set nth length app
         spec_okb snaplist_okb sl_tuple sl_buf sl_ops joined_okb];
    unfold snaplist_okb; cbn [sl_tuple sl_buf sl_ops joined_okb];
    rewrite Hct, !bytes_eqb_refl; reflexivity.
Qed.

Theorem readerlist_holds b r : spec_okb (IReaderList b r) (model_readerlist b r) = true.
Proof.
  destruct r as [tup buf ops]. unfold model_readerlist, content_from_reader. cbn [sl_tuple sl_buf sl_ops].
  destruct b, tup;
    cbn [iter_bytes c_src c_type iter_src mutate w_heap w_data w_pos w_reads heap_get heap_set nth
         spec_okb joined_okb];
    unfold readerlist_bytes; cbn [sl_tuple sl_buf sl_ops orb]; rewrite !bytes_eqb_refl; reflexivity.
Qed.

(* ================= 6. __eq__ ================= *)
Theorem content_eq_stored ta ca tb cb w :
  content_eq {| c_type := ta; c_src := Stored ca |} {| c_type := tb; c_src := Stored cb |} w
  = (Ok (ct_eqb ta tb && bytes_eqb (concat ca) (concat cb)), w).
Proof.
  unfold content_eq, iter_bytes; simpl. destruct (ct_eqb ta tb); reflexivity.
Qed.

(* ================= the scenario kinds without a mutable source ================= *)
Lemma iter_bytes_stored ct cs w : iter_bytes {| c_type := ct; c_src := Stored cs |} w = (Ok cs, w).
Proof. reflexivity. Qed.

Lemma forallb_map {A B} (f : A -> B) p l : forallb p (map f l) = forallb (fun x => p (f x)) l.
Proof. induction l; simpl; congruence. Qed.

Lemma sum_runs_rle {A} (eqb : A -> A -> bool) l : sum_runs (rle eqb l) = length l.
Proof.
  induction l as [|x l IH]; [reflexivity|]. cbn [rle].
  destruct (rle eqb l) as [|[y n] t]; simpl in *; [lia|].
  destruct (eqb x y); simpl; lia.
Qed.

Lemma rle_forall {A} (eqb : A -> A -> bool) (P : A -> bool) l :
  forallb P l = true -> forallb (fun p => P (fst p)) (rle eqb l) = true.
Proof.
  induction l as [|x l IH]; [reflexivity|]. simpl. intro H. apply andb_true_iff in H as [Hx Hl].
  specialize (IH Hl). destruct (rle eqb l) as [|[y n] t]; simpl in *; [rewrite Hx; reflexivity|].
  destruct (eqb x y); simpl; [exact IH|]. rewrite Hx. exact IH.
Qed.

(* every enumerated split is a split of the data *)
Lemma splits_concat l : Forall (fun s => concat s = l) (splits l).
Proof.
  induction l as [|x r IH]; [repeat constructor|].
  cbn [splits]. destruct r as [|y r']; [repeat constructor|].
  apply Forall_forall. intros s Hs. apply in_flat_map in Hs as [s0 [H0 Hs]].
  rewrite Forall_forall in IH. specialize (IH s0 H0).
  destruct s0 as [|c t]; [destruct Hs|].
  destruct Hs as [<-|[<-|[]]]; simpl in *; rewrite IH; reflexivity.
Qed.

Lemma with_empties_concat s : concat (with_empties s) = concat s.
Proof.
  unfold with_empties. simpl. induction s as [|c s IH]; [reflexivity|]. simpl. rewrite IH. reflexivity.
Qed.

Lemma all_splits_concat l : Forall (fun s => concat s = l) (all_splits l).
Proof.
  unfold all_splits. apply Forall_app; split; [apply splits_concat|].
  apply Forall_forall. intros s Hs. apply in_map_iff in Hs as [s0 [<- H0]].
  rewrite with_empties_concat. pose proof (splits_concat l) as H. rewrite Forall_forall in H. exact (H s0 H0).
Qed.

Theorem splits_holds cs data : spec_okb (ISplits cs data) (model (ISplits cs data)) = true.
Proof.
  cbn [spec_okb model]. rewrite sum_runs_rle, map_length, Nat.eqb_refl. cbn [andb].
  apply rle_forall. rewrite forallb_map. apply forallb_forall. intros s Hs.
  pose proof (all_splits_concat data) as H. rewrite Forall_forall in H. rewrite <- (H s Hs).
  apply text_okb_stored.
Qed.


(* ================= 7. MIME: parse (render ct) = ct ================= *)
(* ---- generic list-parsing lemmas ---- *)
Lemma span_app_stop p a c r : forallb p a = true -> p c = false -> span p (a ++ c :: r) = (a, c :: r).
Proof.
  induction a as [|x a IH]; simpl; intros Ha Hc.
  - rewrite Hc. reflexivity.
  - apply andb_true_iff in Ha as [Hx Ha]. rewrite Hx, (IH Ha Hc). reflexivity.
Qed.

Lemma span_all p a : forallb p a = true -> span p a = (a, []).
Proof.
  induction a as [|x a IH]; simpl; intro Ha; [reflexivity|].
  apply andb_true_iff in Ha as [Hx Ha]. rewrite Hx, (IH Ha). reflexivity.
Qed.

Lemma in_str_false c s x : in_str c s = false -> In x s -> c <> x.
Proof.
  unfold in_str. intros H Hx ->.
  assert (existsb (N.eqb x) s = true); [|congruence].
  apply existsb_exists. exists x. split; [exact Hx|apply N.eqb_refl].
Qed.

Lemma forallb_impl {A} (p q : A -> bool) l : (forall x, p x = true -> q x = true) -> forallb p l = true -> forallb q l = true.
Proof. intros H Hp. apply forallb_forall. intros x Hx. apply H. rewrite forallb_forall in Hp. exact (Hp x Hx). Qed.

Lemma forallb_app' {A} (p : A -> bool) a b : forallb p a = true -> forallb p b = true -> forallb p (a ++ b) = true.
Proof. intros. rewrite forallb_app. apply andb_true_iff; split; assumption. Qed.

(* ---- character classes ---- *)
Lemma token_char_end c : token_char c = true -> token_end c = false.
Proof. unfold token_char. intro H. apply andb_true_iff in H as [_ H]. apply negb_true_iff. exact H. Qed.

Lemma attr_char_end c : attr_char c = true -> attr_end c = false.
Proof. unfold attr_char. intro H. apply andb_true_iff in H as [_ H]. apply negb_true_iff. exact H. Qed.

Lemma printable_not_space c : printable c = true -> is_space c = false.
Proof.
  unfold printable, is_space. intro H. apply andb_true_iff in H as [H1 H2].
  apply N.leb_le in H1. apply N.leb_le in H2.
  apply orb_false_iff; split; apply andb_false_iff.
  - right. apply N.leb_gt. lia.
  - right. apply N.leb_gt. lia.
Qed.

Lemma token_end_not c x : token_end c = false -> In x (sb "()<>@,:;\[]/?=") -> c <> x.
Proof.
  unfold token_end. intros H Hx. apply orb_false_iff in H as [H _]. apply orb_false_iff in H as [H _].
  exact (in_str_false _ _ _ H Hx).
Qed.

Lemma token_end_not_wsp c : token_end c = false -> is_wsp c = false.
Proof. unfold token_end. intro H. apply orb_false_iff in H as [_ H]. exact H. Qed.

Lemma attr_end_token c : attr_end c = false -> token_end c = false.
Proof. unfold attr_end. intro H. apply orb_false_iff in H as [H _]. exact H. Qed.

Lemma In_59 : In 59%N (sb "()<>@,:;\[]/?="). Proof. vm_compute. tauto. Qed.
Lemma In_47 : In 47%N (sb "()<>@,:;\[]/?="). Proof. vm_compute. tauto. Qed.

(* ---- strip / lower are the identity on tokens ---- *)
Lemma lstrip_id s : forallb (fun c => negb (is_space c)) s = true -> lstrip s = s.
Proof.
  unfold lstrip. destruct s as [|c s]; [reflexivity|]. simpl. intro H.
  apply andb_true_iff in H as [H _]. apply negb_true_iff in H. rewrite H. reflexivity.
Qed.

Lemma forallb_rev {A} (p : A -> bool) l : forallb p l = true -> forallb p (rev l) = true.
Proof.
  intro H. apply forallb_forall. intros x Hx. apply in_rev in Hx. rewrite forallb_forall in H. exact (H x Hx).
Qed.

Lemma strip_id s : forallb (fun c => negb (is_space c)) s = true -> strip s = s.
Proof.
  intro H. unfold strip. rewrite (lstrip_id s H), (lstrip_id (rev s) (forallb_rev _ _ H)). apply rev_involutive.
Qed.

Lemma lower_id s : forallb (fun c => negb (is_upper c)) s = true -> lower s = s.
Proof.
  induction s as [|c s IH]; simpl; intro H; [reflexivity|].
  apply andb_true_iff in H as [Hc Hs]. rewrite (IH Hs). unfold lower1. unfold is_upper in Hc.
  apply negb_true_iff in Hc. rewrite Hc. reflexivity.
Qed.

Lemma count_char_app c a b : count_char c (a ++ b) = count_char c a + count_char c b.
Proof. induction a as [|x a IH]; simpl; [reflexivity|]. rewrite IH. lia. Qed.

Lemma count_char_zero c s : forallb (fun x => negb (x =? c)%N) s = true -> count_char c s = 0.
Proof.
  induction s as [|x s IH]; simpl; intro H; [reflexivity|].
  apply andb_true_iff in H as [Hx Hs]. apply negb_true_iff in Hx. rewrite Hx, (IH Hs). reflexivity.
Qed.

Lemma split_on_none c s : forallb (fun x => negb (x =? c)%N) s = true -> split_on c s = [s].
Proof.
  induction s as [|x s IH]; simpl; intro H; [reflexivity|].
  apply andb_true_iff in H as [Hx Hs]. apply negb_true_iff in Hx. rewrite Hx, (IH Hs). reflexivity.
Qed.

Lemma split_on_app c a b : forallb (fun x => negb (x =? c)%N) a = true ->
  split_on c (a ++ c :: b) = a :: split_on c b.
Proof.
  induction a as [|x a IH]; simpl; intro H.
  - rewrite N.eqb_refl. reflexivity.
  - apply andb_true_iff in H as [Hx Ha]. apply negb_true_iff in Hx. rewrite Hx, (IH Ha). reflexivity.
Qed.

(* ---- the quoted string ---- *)
Definition plain_char (c : N) : bool := negb (c =? 92)%N && negb (c =? DQ)%N.

Lemma bqs_plain : forall v acc t, forallb plain_char v = true ->
  bqs false acc (v ++ DQ :: t) = (rev acc ++ v, t).
Proof.
  induction v as [|c v IH]; intros acc t H.
  - simpl. rewrite app_nil_r. reflexivity.
  - simpl in H. apply andb_true_iff in H as [Hc Hv]. unfold plain_char in Hc.
    apply andb_true_iff in Hc as [H1 H2]. apply negb_true_iff in H1. apply negb_true_iff in H2.
    cbn [app bqs]. rewrite H1, H2, (IH _ _ Hv). simpl. rewrite <- app_assoc. reflexivity.
Qed.

(* ---- parameters ---- *)
Definition okq (kv : str * str) : Prop :=
  fst kv <> [] /\ forallb attr_char (fst kv) = true /\ forallb plain_char (snd kv) = true.

Definition tail_of (qs : dict) : str := flat_map (fun q => 59%N :: 32%N :: item q) qs.

Lemma item_eq kv : item kv = fst kv ++ 61%N :: 34%N :: snd kv ++ [34%N].
Proof. reflexivity. Qed.

Lemma attr_end_61 : attr_end 61 = true. Proof. reflexivity. Qed.
Lemma token_end_47 : token_end 47 = true. Proof. reflexivity. Qed.
Lemma token_end_59 : token_end 59 = true. Proof. reflexivity. Qed.

Lemma parse_params_ok : forall rest q fuel, okq q -> Forall okq rest -> length rest < fuel ->
  parse_params fuel (32%N :: item q ++ tail_of rest) = Some (q :: rest).
Proof.
  induction rest as [|q2 rest IH]; intros [name v] fuel [Hne [Hn Hv]] Hrest Hf;
    (destruct fuel as [|f]; [simpl in Hf; lia|]); simpl fst in *; simpl snd in *;
    destruct name as [|n0 name']; try congruence.
  - cbn [parse_params]. rewrite item_eq. cbn [fst snd tail_of flat_map]. rewrite app_nil_r.
    cbn [span]. change (is_wsp 32) with true. cbn iota.
    assert (Hw : is_wsp n0 = false).
    { simpl in Hn. apply andb_true_iff in Hn as [Hn _].
      apply token_end_not_wsp, attr_end_token, attr_char_end. exact Hn. }
    cbn [app span]. rewrite Hw. cbn [snd].
    change (n0 :: name' ++ 61%N :: 34%N :: v ++ [34%N]) with ((n0 :: name') ++ 61%N :: 34%N :: v ++ [34%N]).
    rewrite (span_app_stop (fun c => negb (attr_end c)) (n0 :: name') 61 (34%N :: v ++ [34%N])).
    2:{ apply (forallb_impl attr_char); [|exact Hn]. intros c Hc. rewrite (attr_char_end c Hc). reflexivity. }
    2:{ reflexivity. }
    cbn iota beta. change (v ++ [34%N]) with (v ++ DQ :: []). rewrite (bqs_plain v [] [] Hv). reflexivity.
  - cbn [parse_params]. rewrite item_eq. cbn [fst snd].
    cbn [span]. change (is_wsp 32) with true. cbn iota.
    assert (Hw : is_wsp n0 = false).
    { simpl in Hn. apply andb_true_iff in Hn as [Hn _].
      apply token_end_not_wsp, attr_end_token, attr_char_end. exact Hn. }
    cbn [app span]. rewrite Hw. cbn [snd].
    rewrite <- app_assoc. cbn [app]. rewrite <- app_assoc. cbn [app].
    change (n0 :: name' ++ 61%N :: 34%N :: v ++ 34%N :: tail_of (q2 :: rest))
      with ((n0 :: name') ++ 61%N :: 34%N :: v ++ 34%N :: tail_of (q2 :: rest)).
    rewrite (span_app_stop (fun c => negb (attr_end c)) (n0 :: name') 61).
    2:{ apply (forallb_impl attr_char); [|exact Hn]. intros c Hc. rewrite (attr_char_end c Hc). reflexivity. }
    2:{ reflexivity. }
    cbn iota beta. change (34%N :: tail_of (q2 :: rest)) with (DQ :: tail_of (q2 :: rest)).
    rewrite (bqs_plain v [] _ Hv). cbn [rev app tail_of flat_map].
    inversion Hrest as [|? ? Hq2 Hrest']; subst.
    fold (tail_of rest). rewrite (IH q2 f Hq2 Hrest' ltac:(simpl in Hf; lia)). reflexivity.
Qed.

Lemma tail_of_length qs : length qs <= length (tail_of qs).
Proof. induction qs as [|q qs IH]; simpl; [lia|]. rewrite app_length. lia. Qed.

Lemma join_items q rest : sb "; " ++ join (sb "; ") (map item (q :: rest)) = 59%N :: 32%N :: item q ++ tail_of rest.
Proof.
  change (sb "; ") with [59%N; 32%N]. cbn [map join app]. do 3 f_equal.
  induction rest as [|r rest IH]; [reflexivity|]. cbn [map flat_map tail_of]. rewrite IH. reflexivity.
Qed.

Definition tok (s : str) : Prop := s <> [] /\ forallb token_char s = true /\ forallb (fun c => negb (is_upper c)) s = true.

Lemma token_ok_tok s : token_ok s = true -> tok s.
Proof.
  unfold token_ok, tok. intro H. apply andb_true_iff in H as [H1 H2]. repeat split.
  - destruct s; [discriminate|discriminate].
  - apply (forallb_impl _ _ _ (fun x Hx => proj1 (proj1 (andb_true_iff _ _) Hx)) H2).
  - apply (forallb_impl _ _ _ (fun x Hx => proj2 (proj1 (andb_true_iff _ _) Hx)) H2).
Qed.

Lemma tok_not c s : In c (sb "()<>@,:;\[]/?=") -> forallb token_char s = true -> forallb (fun x => negb (x =? c)%N) s = true.
Proof.
  intros Hc. apply forallb_impl. intros x Hx. apply negb_true_iff. apply N.eqb_neq.
  apply (token_end_not x c); [apply token_char_end; exact Hx|exact Hc].
Qed.

Lemma tok_no_space s : forallb token_char s = true -> forallb (fun c => negb (is_space c)) s = true.
Proof.
  apply forallb_impl. intros x Hx. unfold token_char in Hx. apply andb_true_iff in Hx as [Hp _].
  rewrite (printable_not_space x Hp). reflexivity.
Qed.

Lemma tok_span_end s : forallb token_char s = true -> forallb (fun c => negb (token_end c)) s = true.
Proof. apply forallb_impl. intros x Hx. rewrite (token_char_end x Hx). reflexivity. Qed.

(* the header: type/subtype followed by nothing or by "; k="v"; ..." *)
Lemma header_params_ok t u qs : tok t -> tok u -> Forall okq qs ->
  header_params (t ++ 47%N :: u ++ tail_of qs) = Some qs.
Proof.
  intros [Ht [Htc _]] [Hu [Huc _]] Hq. unfold header_params.
  rewrite (span_app_stop _ t 47 _ (tok_span_end t Htc) eq_refl).
  destruct t as [|t0 t']; [congruence|].
  destruct qs as [|q rest].
  - cbn [tail_of flat_map]. rewrite app_nil_r, (span_all _ u (tok_span_end u Huc)).
    destruct u; [congruence|reflexivity].
  - cbn [tail_of flat_map]. fold (tail_of rest). cbn [app].
    rewrite (span_app_stop _ u 59 _ (tok_span_end u Huc) eq_refl).
    destruct u as [|u0 u']; [congruence|].
    inversion Hq as [|? ? Hq1 Hq2]; subst.
    apply parse_params_ok; [exact Hq1|exact Hq2|].
    pose proof (tail_of_length rest). cbn [length]. rewrite app_length. lia.
Qed.

Lemma get_content_type_ok t u X : tok t -> tok u -> (X = [] \/ exists Y, X = 59%N :: Y) ->
  get_content_type (t ++ 47%N :: u ++ X) = t ++ 47%N :: u.
Proof.
  intros [Ht [Htc Htl]] [Hu [Huc Hul]] HX. unfold get_content_type.
  assert (H59 : forallb (fun c => negb (c =? 59)%N) (t ++ 47%N :: u) = true).
  { apply forallb_app'; [apply (tok_not 59 t In_59 Htc)|]. simpl. apply (tok_not 59 u In_59 Huc). }
  assert (Hhead : fst (span (fun c => negb (c =? 59)%N) (t ++ 47%N :: u ++ X)) = t ++ 47%N :: u).
  { destruct HX as [->|[Y ->]].
    - rewrite app_nil_r, (span_all _ _ H59). reflexivity.
    - change (t ++ 47%N :: u ++ 59%N :: Y) with (t ++ (47%N :: u) ++ 59%N :: Y). rewrite app_assoc.
      rewrite (span_app_stop _ (t ++ 47%N :: u) 59 Y H59 eq_refl). reflexivity. }
  rewrite Hhead.
  assert (Hsp : forallb (fun c => negb (is_space c)) (t ++ 47%N :: u) = true).
  { apply forallb_app'; [apply tok_no_space; exact Htc|]. simpl. apply tok_no_space; exact Huc. }
  rewrite (strip_id _ Hsp).
  assert (Hlo : forallb (fun c => negb (is_upper c)) (t ++ 47%N :: u) = true).
  { apply forallb_app'; [exact Htl|]. simpl. exact Hul. }
  rewrite (lower_id _ Hlo).
  rewrite count_char_app. cbn [count_char]. change (47 =? 47)%N with true.
  rewrite (count_char_zero 47 t (tok_not 47 t In_47 Htc)), (count_char_zero 47 u (tok_not 47 u In_47 Huc)).
  reflexivity.
Qed.

(* ---- the dict pipeline is the identity on distinct lower-case names ---- *)
Lemma lookup_none k d : ~ In k (map fst d) -> lookup k d = None.
Proof.
  induction d as [|[k' v] d IH]; simpl; intro H; [reflexivity|].
  destruct (str_eqb k' k) eqn:E.
  - apply str_eqb_spec in E. subst. exfalso. apply H. left. reflexivity.
  - apply IH. intro Hin. apply H. right. exact Hin.
Qed.

Lemma first_wins_id : forall qs acc, NoDup (map fst (acc ++ qs)) ->
  fold_left (fun d kv => match lookup (fst kv) d with Some _ => d | None => d ++ [kv] end) qs acc = acc ++ qs.
Proof.
  induction qs as [|kv qs IH]; intros acc H; simpl; [rewrite app_nil_r; reflexivity|].
  rewrite lookup_none.
  - rewrite IH; [rewrite <- app_assoc; reflexivity|rewrite <- app_assoc; exact H].
  - rewrite map_app in H. simpl in H. apply NoDup_remove_2 in H. intro Hin. apply H.
    apply in_or_app. left. exact Hin.
Qed.

Lemma dict_set_new d k v : ~ In k (map fst d) -> dict_set d k v = d ++ [(k, v)].
Proof.
  induction d as [|[k' v'] d IH]; simpl; intro H; [reflexivity|].
  destruct (str_eqb k' k) eqn:E.
  - apply str_eqb_spec in E. subst. exfalso. apply H. left. reflexivity.
  - rewrite IH; [reflexivity|]. intro Hin. apply H. right. exact Hin.
Qed.

Lemma lowered_id : forall qs acc, NoDup (map fst (acc ++ qs)) ->
  Forall (fun kv => lower (fst kv) = fst kv) qs ->
  fold_left (fun d kv => dict_set d (lower (fst kv)) (snd kv)) qs acc = acc ++ qs.
Proof.
  induction qs as [|[k v] qs IH]; intros acc H HF; simpl; [rewrite app_nil_r; reflexivity|].
  inversion HF as [|? ? Hk HF']; subst. simpl in Hk. rewrite Hk.
  rewrite dict_set_new.
  - rewrite IH; [rewrite <- app_assoc; reflexivity|rewrite <- app_assoc; exact H|exact HF'].
  - rewrite map_app in H. simpl in H. apply NoDup_remove_2 in H. intro Hin. apply H.
    apply in_or_app. left. exact Hin.
Qed.

Lemma cut_comma_id v : in_str 44 v = false -> cut_comma v = v.
Proof.
  intro H. unfold cut_comma. rewrite span_all; [reflexivity|].
  apply forallb_forall. intros c Hc. apply negb_true_iff. apply N.eqb_neq. intro E. subst.
  exact (in_str_false _ _ _ H Hc eq_refl).
Qed.

Lemma fix_charset_id qs :
  Forall (fun kv => negb (str_eqb (fst kv) s_charset) || negb (in_str 44 (snd kv)) = true) qs -> fix_charset qs = qs.
Proof.
  unfold fix_charset. induction 1 as [|[k v] qs Hkv _ IH]; simpl; [reflexivity|]. rewrite IH. f_equal.
  simpl in Hkv. destruct (str_eqb k s_charset); [|reflexivity].
  simpl in Hkv. apply negb_true_iff in Hkv. rewrite (cut_comma_id v Hkv). reflexivity.
Qed.

(* ---- dict equality up to order ---- *)
Lemma distinct_NoDup l : distinct l = true -> NoDup l.
Proof.
  induction l as [|x l IH]; simpl; intro H; [constructor|].
  apply andb_true_iff in H as [H1 H2]. constructor; [|apply IH; exact H2].
  intro Hin. apply negb_true_iff in H1.
  assert (existsb (str_eqb x) l = true); [|congruence].
  apply existsb_exists. exists x. split; [exact Hin|apply str_eqb_refl].
Qed.

Lemma lookup_in d : NoDup (map fst d) -> forall k v, In (k, v) d -> lookup k d = Some v.
Proof.
  induction d as [|[k' v'] d IH]; simpl; intros H k v Hin; [destruct Hin|].
  inversion H as [|? ? Hn Hd]; subst.
  destruct Hin as [E|Hin].
  - injection E as -> ->. rewrite str_eqb_refl. reflexivity.
  - destruct (str_eqb k' k) eqn:E.
    + apply str_eqb_spec in E. subst. exfalso. apply Hn. apply (in_map fst) in Hin. exact Hin.
    + apply IH; assumption.
Qed.

Lemma dict_eqb_perm a b : Permutation a b -> NoDup (map fst b) -> dict_eqb a b = true.
Proof.
  intros P Hb. unfold dict_eqb. rewrite (Permutation_length P), Nat.eqb_refl. simpl.
  apply forallb_forall. intros [k v] Hin. simpl.
  rewrite (lookup_in b Hb k v (Permutation_in _ P Hin)). simpl. apply str_eqb_refl.
Qed.

(* ---- unpacking wf_ct ---- *)
Lemma value_char_plain c : value_char c = true -> (c =? 92)%N = false -> plain_char c = true.
Proof.
  unfold value_char, plain_char. intros H Hb. apply andb_true_iff in H as [_ H]. rewrite Hb, H. reflexivity.
Qed.

Record good (kv : str * str) : Prop := {
  g_okq : okq kv;
  g_low : lower (fst kv) = fst kv;
  g_cs : negb (str_eqb (fst kv) s_charset) || negb (in_str 44 (snd kv)) = true }.

Lemma wf_ct_unpack ct : wf_ct ct = true ->
  tok (ct_type ct) /\ tok (ct_sub ct) /\ NoDup (map fst (ct_params ct)) /\ Forall good (ct_params ct).
Proof.
  unfold wf_ct, mime_dom. intro H.
  apply andb_true_iff in H as [H Hx]. apply andb_true_iff in H as [H Hd].
  apply andb_true_iff in H as [H Hp]. apply andb_true_iff in H as [Ht Hu].
  split; [apply token_ok_tok; exact Ht|]. split; [apply token_ok_tok; exact Hu|].
  split; [apply distinct_NoDup; exact Hd|].
  apply Forall_forall. intros [k v] Hin.
  rewrite forallb_forall in Hp, Hx. specialize (Hp _ Hin). specialize (Hx _ Hin). simpl in Hp, Hx.
  apply andb_true_iff in Hp as [Hn Hv]. apply andb_true_iff in Hx as [Hx Hc]. apply andb_true_iff in Hx as [Hl Hb].
  unfold name_ok in Hn. apply andb_true_iff in Hn as [Hn1 Hn2].
  unfold value_ok in Hv. repeat (apply andb_true_iff in Hv as [Hv _]).
  apply negb_true_iff in Hb.
  constructor; simpl.
  - repeat split; simpl.
    + destruct k; discriminate.
    + exact Hn2.
    + apply forallb_forall. intros c Hc'. rewrite forallb_forall in Hv.
      apply value_char_plain; [exact (Hv c Hc')|]. apply N.eqb_neq. intro E; subst.
      exact (in_str_false _ _ _ Hb Hc' eq_refl).
  - apply lower_id. exact Hl.
  - exact Hc.
Qed.

(* ---- the round trip ---- *)
Theorem mime_roundtrip ct : wf_ct ct = true ->
  exists ct', make_content_type (render ct) = Ok ct'
              /\ ct_type ct' = ct_type ct /\ ct_sub ct' = ct_sub ct
              /\ Permutation (ct_params ct) (ct_params ct').
Proof.
  intro Hwf. destruct (wf_ct_unpack ct Hwf) as [Ht [Hu [Hnd Hg]]].
  destruct ct as [t u ps]. cbn [ct_type ct_sub ct_params] in *.
  (* the sorted items are the items of a permutation qs of ps *)
  pose proof (Permutation_sym (isort_perm str_leb (map item ps))) as Hp0.
  apply Permutation_map_inv in Hp0 as [qs [Eqs Pqs]].
  assert (Hgq : Forall good qs).
  { apply Forall_forall. intros kv Hin. rewrite Forall_forall in Hg. apply Hg.
    exact (Permutation_in _ (Permutation_sym Pqs) Hin). }
  assert (Hndq : NoDup (map fst qs)).
  { exact (Permutation_NoDup (Permutation_map fst Pqs) Hnd). }
  assert (Hren : render {| ct_type := t; ct_sub := u; ct_params := ps |} = t ++ 47%N :: u ++ tail_of qs).
  { unfold render. cbn [ct_type ct_sub ct_params]. change (sb "/") with [47%N]. cbn [app]. do 2 f_equal.
    destruct ps as [|p ps'].
    - apply Permutation_nil in Pqs. subst qs. reflexivity.
    - rewrite Eqs. destruct qs as [|q rest]; [apply Permutation_sym, Permutation_nil in Pqs; discriminate|].
      rewrite join_items. reflexivity. }
  exists {| ct_type := t; ct_sub := u; ct_params := qs |}. cbn [ct_type ct_sub ct_params].
  split; [|repeat split; exact Pqs].
  unfold make_content_type. rewrite Hren.
  rewrite (header_params_ok t u qs Ht Hu).
  2:{ apply Forall_forall. intros kv Hin. rewrite Forall_forall in Hgq. exact (g_okq _ (Hgq kv Hin)). }
  rewrite (get_content_type_ok t u (tail_of qs) Ht Hu).
  2:{ destruct qs; [left; reflexivity|right; eexists; reflexivity]. }
  destruct Ht as [Htn [Htc Htl]]. destruct Hu as [Hun [Huc Hul]].
  replace (str_eqb (t ++ 47%N :: u) (sb "*")) with false.
  2:{ symmetry. apply not_true_iff_false. intro E. apply str_eqb_spec in E.
      apply (f_equal (@length N)) in E. rewrite app_length in E. simpl in E. destruct t; [congruence|simpl in E; lia]. }
  rewrite (split_on_app 47 t u (tok_not 47 t In_47 Htc)), (split_on_none 47 u (tok_not 47 u In_47 Huc)).
  rewrite (strip_id t (tok_no_space t Htc)), (strip_id u (tok_no_space u Huc)).
  unfold first_wins, lowered.
  rewrite (first_wins_id qs [] Hndq). cbn [app].
  rewrite (lowered_id qs [] Hndq).
  2:{ apply Forall_forall. intros kv Hin. rewrite Forall_forall in Hgq. exact (g_low _ (Hgq kv Hin)). }
  cbn [app]. rewrite fix_charset_id; [reflexivity|].
  apply Forall_forall. intros kv Hin. rewrite Forall_forall in Hgq. exact (g_cs _ (Hgq kv Hin)).
Qed.

Lemma ctype_eqb_spec a b : ctype_eqb a b = true <-> a = b.
Proof.
  unfold ctype_eqb. rewrite !andb_true_iff, !str_eqb_spec.
  unfold dict_eqb_exact. rewrite (list_eqb_spec _ (pair_eqb_spec _ _ str_eqb_spec str_eqb_spec)).
  destruct a, b; simpl. split; [intros [[-> ->] ->]; reflexivity|intro E; injection E as -> -> ->; auto].
Qed.

Theorem mime_holds ct : wf_ct ct = true -> spec_okb (IMime ct) (model (IMime ct)) = true.
Proof.
  intro Hwf. destruct (mime_roundtrip ct Hwf) as [ct' [E [E1 [E2 P]]]].
  cbn [spec_okb model]. rewrite E. rewrite (proj2 (ctype_eqb_spec ct ct) eq_refl). cbn [andb survives].
  unfold ct_eqb. rewrite E1, E2, !str_eqb_refl. cbn [andb].
  apply dict_eqb_perm.
  - apply Permutation_sym. exact P.
  - destruct (wf_ct_unpack ct Hwf) as [_ [_ [Hnd _]]]. exact Hnd.
Qed.

(* ================= 7b. several readers of one content ================= *)
Section Readers.
  Variable C : codec.

  Lemma ti_step_ended it : ti_end it <> None -> ti_step C it = it.
  Proof. unfold ti_step. destruct (ti_end it); [reflexivity|congruence]. Qed.

  Lemma ti_run_ended k it : ti_end it <> None -> ti_run C k it = it.
  Proof. induction k as [|k IH]; intro H; [reflexivity|]. cbn [ti_run]. rewrite (ti_step_ended it H). exact (IH H). Qed.

  (* draining a suspended reader is the rest of the generator loop *)
  Lemma ti_finish_running : forall rest dec acc,
    let it := {| ti_dec := dec; ti_rest := rest; ti_acc := acc; ti_end := None |} in
    ti_result C (ti_finish C it)
    = match iter_text_loop C dec rest with
      | None => Raised UnicodeDecodeError
      | Some pieces => Ok (acc ++ concat pieces)
      end
    /\ ti_end (ti_finish C it) <> None.
  Proof.
    induction rest as [|c r IH]; intros dec acc it; subst it.
    - unfold ti_finish. cbn [ti_rest length].
      change (ti_run C 1 ?x) with (ti_step C x).
      unfold ti_step. cbn [ti_end ti_rest ti_dec ti_acc iter_text_loop].
      destruct (flush C dec) as [fin|] eqn:E.
      + rewrite (flush_nil C dec fin E). cbn [ti_result ti_end ti_acc]. split; [|discriminate].
        reflexivity.
      + cbn [ti_result ti_end]. split; [reflexivity|discriminate].
    - unfold ti_finish. cbn [ti_rest length].
      change (ti_run C (S (S (length r))) ?x) with (ti_run C (S (length r)) (ti_step C x)).
      unfold ti_step. cbn [ti_end ti_rest ti_dec ti_acc iter_text_loop].
      destruct (feed C dec c) as [[s' out]|].
      + specialize (IH s' (acc ++ out)). cbn zeta in IH. unfold ti_finish in IH. cbn [ti_rest] in IH.
        destruct IH as [IH1 IH2]. split; [|exact IH2]. rewrite IH1.
        destruct (iter_text_loop C s' r) as [pieces|]; [|reflexivity].
        cbn [concat]. rewrite app_assoc. reflexivity.
      + rewrite ti_run_ended by (cbn [ti_end]; discriminate). cbn [ti_result ti_end]. split; [reflexivity|discriminate].
  Qed.

  Lemma ti_finish_ended it : ti_end (ti_finish C it) <> None.
  Proof.
    destruct it as [dec rest acc [e|]].
    - unfold ti_finish. rewrite ti_run_ended; cbn [ti_end]; discriminate.
    - apply (ti_finish_running rest dec acc).
  Qed.

  (* a next() in between does not change what the reader will have collected at the end *)
  Lemma ti_finish_step it : ti_finish C (ti_step C it) = ti_finish C it.
  Proof.
    destruct it as [dec rest acc [e|]].
    - rewrite ti_step_ended by (cbn [ti_end]; discriminate). reflexivity.
    - destruct rest as [|c r].
      + unfold ti_finish at 2. cbn [ti_rest length ti_run].
        assert (H : ti_end (ti_step C {| ti_dec := dec; ti_rest := []; ti_acc := acc; ti_end := None |}) <> None).
        { unfold ti_step. cbn [ti_end ti_rest ti_dec]. destruct (flush C dec); cbn [ti_end]; discriminate. }
        unfold ti_finish. apply ti_run_ended. exact H.
      + unfold ti_finish at 2. cbn [ti_rest length ti_run].
        unfold ti_step. cbn [ti_end ti_rest ti_dec ti_acc].
        destruct (feed C dec c) as [[s' out]|].
        * reflexivity.
        * unfold ti_finish. rewrite !ti_run_ended by (cbn [ti_end]; discriminate). reflexivity.
  Qed.

  Lemma ti_finish_idem it : ti_finish C (ti_finish C it) = ti_finish C it.
  Proof. unfold ti_finish at 1. apply ti_run_ended. apply ti_finish_ended. Qed.

  (* a new reader drained = as_text() = the whole-string decode *)
  Lemma ti_fresh_result chunks : ti_result C (ti_finish C (ti_fresh C chunks)) = whole C (concat chunks).
  Proof.
    unfold ti_fresh. rewrite (proj1 (ti_finish_running chunks (dinit C) [])). cbn [app]. apply iter_text_whole.
  Qed.
End Readers.

Lemma upd_length {A} (x : A) : forall l i, length (upd i x l) = length l.
Proof. induction l as [|y l IH]; intros [|i]; simpl; try reflexivity. rewrite IH. reflexivity. Qed.

Lemma Forall_upd {A} (P : A -> Prop) (x : A) : forall l i, Forall P l -> P x -> Forall P (upd i x l).
Proof.
  induction l as [|y l IH]; intros [|i] H Hx; simpl; try exact H; inversion H; subst; constructor; auto.
Qed.

Lemma Forall_nth_error {A} (P : A -> Prop) l i (x : A) : Forall P l -> nth_error l i = Some x -> P x.
Proof. intros H E. rewrite Forall_forall in H. apply H. exact (nth_error_In _ _ E). Qed.

(* the invariant argument, for any kind of reader: if every reader that exists "will end right" (P), a new reader
   does, and next()/draining keep it so, then in EVERY history every complete read is right - the operations on the
   other readers never touch it *)
Lemma hist_meets (I : Type) (fresh : option I) (step finish : I -> I) (result : I -> tres) (astext : tres)
                 (text : bool) (ok : tres -> bool) (P : I -> Prop) :
  (forall f, fresh = Some f -> P f) -> (fresh = None -> text = false) ->
  (forall it, P it -> P (step it)) -> (forall it, P it -> P (finish it)) ->
  (forall it, P it -> ok (result (finish it)) = true) -> ok astext = true ->
  forall ops its, Forall P its ->
    hist_okb text ok (length its) ops (hist I fresh step finish result astext its ops) = true.
Proof.
  intros Hfresh Hnone Hstep Hfin Hres Has.
  induction ops as [|op ops IH]; intros its HP; [reflexivity|].
  destruct op as [|i|i|]; cbn [hist].
  - destruct fresh as [f|] eqn:E.
    + cbn [hist_okb]. replace (S (length its)) with (length (its ++ [f])) by (rewrite app_length; simpl; lia).
      apply IH. apply Forall_app. split; [exact HP|]. constructor; [apply Hfresh; reflexivity|constructor].
    + cbn [hist_okb]. assert (Ht : negb text = true) by (rewrite (Hnone eq_refl); reflexivity).
      rewrite Ht. cbn [andb]. apply IH. exact HP.
  - destruct (nth_error its i) as [it|] eqn:E; cbn [hist_okb].
    + assert (L : i < length its) by (apply nth_error_Some; congruence).
      apply Nat.ltb_lt in L. rewrite L. cbn [andb]. rewrite <- (upd_length (step it) its i).
      apply IH. apply Forall_upd; [exact HP|]. apply Hstep. exact (Forall_nth_error P its i it HP E).
    + apply nth_error_None in E. apply Nat.leb_le in E. rewrite E. cbn [andb]. apply IH. exact HP.
  - destruct (nth_error its i) as [it|] eqn:E; cbn [hist_okb].
    + assert (L : i < length its) by (apply nth_error_Some; congruence).
      pose proof (Forall_nth_error P its i it HP E) as Hit.
      apply Nat.ltb_lt in L. rewrite L, (Hres it Hit). cbn [andb]. rewrite <- (upd_length (finish it) its i).
      apply IH. apply Forall_upd; [exact HP|]. apply Hfin. exact Hit.
    + apply nth_error_None in E. apply Nat.leb_le in E. rewrite E. cbn [andb]. apply IH. exact HP.
  - cbn [hist_okb]. rewrite Has. cbn [andb]. apply IH. exact HP.
Qed.

Theorem hist_holds ct chunks oracle ops : spec_okb (IHist ct chunks oracle ops) (model (IHist ct chunks oracle ops)) = true.
Proof.
  cbn [spec_okb model]. unfold read_history.
  destruct (str_eqb (ct_type ct) (sb "text")) eqn:Et; cbn [negb].
  - destruct (codec_of (declared_charset ct)) as [C|] eqn:EC.
    + apply (hist_meets (titer C) _ _ _ _ _ true _ (fun it => ti_result C (ti_finish C it) = whole C (concat chunks))
               ) with (its := []).
      * intros f E. injection E as <-. apply ti_fresh_result.
      * discriminate.
      * intros it H. rewrite ti_finish_step. exact H.
      * intros it H. rewrite ti_finish_idem. exact H.
      * intros it H. unfold read_okb. rewrite Et, EC, H. apply tres_eqb_refl.
      * unfold read_okb. rewrite Et, EC, ti_fresh_result. apply tres_eqb_refl.
      * constructor.
    + apply (hist_meets unit _ _ _ _ _ true _ (fun _ => True)) with (its := []); auto.
      * discriminate.
      * intros _ _. unfold read_okb. rewrite Et, EC. destruct oracle; [apply tres_eqb_refl|reflexivity].
      * unfold read_okb. rewrite Et, EC. destruct oracle; [apply tres_eqb_refl|reflexivity].
  - apply (hist_meets unit _ _ _ _ _ false _ (fun _ => True)) with (its := []); auto.
    + intros _ _. unfold read_okb. rewrite Et. reflexivity.
    + unfold read_okb. rewrite Et. reflexivity.
Qed.

(* ================= 8. the model meets the statement ================= *)
Theorem model_meets_spec i : wf i = true -> finding_F16 i = false -> spec_okb i (model i) = true.
Proof.
  destruct i as [s|d|ct chunks|cs data|r|r|r|b r|ta ca tb cb|ct|ct chunks oracle ops]; intros Hwf Hf.
  - (* text_content *)
    cbn [spec_okb model]. simpl in Hwf.
    rewrite (text_roundtrip s w0 Hwf). cbn [fst]. rewrite tres_eqb_refl. cbn [andb].
    unfold text_content. rewrite iter_bytes_stored. cbn [fst joined concat]. rewrite app_nil_r.
    assert (F1 : str_eqb (ct_type (canon_ct Gen.Ctc16.UTF8_TEXT)) (sb "text") = true) by (vm_compute; reflexivity).
    assert (F2 : codec_of (declared_charset (canon_ct Gen.Ctc16.UTF8_TEXT)) = Some utf8) by (vm_compute; reflexivity).
    unfold text_okb. cbn [c_type]. rewrite F1, F2.
    unfold whole. rewrite (utf8_roundtrip s Hwf). apply tres_eqb_refl.
  - (* json_content *)
    cbn [spec_okb model]. simpl in Hwf. unfold json_content. rewrite iter_bytes_stored.
    cbn [fst joined concat]. rewrite app_nil_r. unfold whole. rewrite (utf8_roundtrip d Hwf). apply tres_eqb_refl.
  - cbn [spec_okb model]. rewrite iter_bytes_stored. cbn [fst joined]. rewrite bytes_eqb_refl. cbn [andb].
    apply text_okb_stored.
  - apply splits_holds.
  - apply reader_holds. simpl in Hwf. apply Nat.leb_le. exact Hwf.
  - apply snap_holds. simpl in Hwf. apply Nat.leb_le. exact Hwf.
  - apply snaplist_holds.
  - apply readerlist_holds.
  - cbn [spec_okb model]. rewrite content_eq_stored. cbn [fst]. rewrite !eqb_reflx. reflexivity.
  - apply mime_holds. simpl in Hf. apply negb_false_iff. exact Hf.
  - apply hist_holds.
Qed.

Theorem refuted_F16 : exists i, wf i = true /\ finding_F16 i = true /\ spec_okb i (model i) = false.
Proof.
  exists (IMime {| ct_type := sb "text"; ct_sub := sb "plain"; ct_params := [(sb "a", sb "b\c")] |}).
  vm_compute. repeat split.
Qed.

(* ================= 9. the executable statement implies the readable one ================= *)
Lemma text_okb_sound ct bs t : text_okb ct bs t = true -> TextOk ct bs t.
Proof.
  unfold text_okb, TextOk. intros H Ht C HC.
  apply str_eqb_spec in Ht. rewrite Ht, HC in H. apply tres_eqb_spec. exact H.
Qed.

Lemma chunks_okb_sound n cs bs : chunks_okb n cs bs = true -> ChunksOk n cs bs.
Proof.
  unfold chunks_okb, ChunksOk. intro H. apply andb_true_iff in H as [H H3]. apply andb_true_iff in H as [H1 H2].
  repeat split.
  - apply Forall_forall. intros c Hc. rewrite forallb_forall in H1. specialize (H1 c Hc). destruct c; [discriminate|discriminate].
  - apply Forall_forall. intros c Hc. rewrite forallb_forall in H2. apply Nat.leb_le. exact (H2 c Hc).
  - apply bytes_eqb_spec. exact H3.
Qed.

Lemma iter_okb_sound n r w : iter_okb n r w = true -> IterOk n r w.
Proof.
  unfold iter_okb, IterOk. destruct w as [bs|e], r as [cs|f]; intro H; try discriminate.
  - exists cs. split; [reflexivity|apply chunks_okb_sound; exact H].
  - apply exn_eqb_spec in H. subst. reflexivity.
Qed.

Lemma joined_okb_sound r w : joined_okb r w = true -> JoinedOk r w.
Proof.
  unfold joined_okb, JoinedOk. destruct w as [bs|e], r as [cs|f]; intro H; try discriminate.
  - exists cs. split; [reflexivity|apply bytes_eqb_spec; exact H].
  - apply exn_eqb_spec in H. subst. reflexivity.
Qed.

Lemma dict_eqb_iff a b : dict_eqb a b = true <->
  length a = length b /\ forall kv, In kv a -> lookup (fst kv) b = Some (snd kv).
Proof.
  unfold dict_eqb. rewrite andb_true_iff, Nat.eqb_eq, forallb_forall.
  split; intros [H1 H2]; (split; [exact H1|]); intros kv Hin; specialize (H2 kv Hin).
  - apply (option_eqb_spec str_eqb str_eqb_spec). exact H2.
  - apply (option_eqb_spec str_eqb str_eqb_spec). exact H2.
Qed.

Lemma ct_eqb_iff a b : ct_eqb a b = true <-> CtSame a b.
Proof.
  unfold ct_eqb, CtSame. rewrite !andb_true_iff, !str_eqb_spec, dict_eqb_iff. tauto.
Qed.

Lemma read_okb_sound ct bs oracle t : read_okb ct bs oracle t = true -> ReadOk ct bs oracle t.
Proof.
  unfold read_okb, ReadOk. intros H Ht. apply str_eqb_spec in Ht. rewrite Ht in H.
  destruct (codec_of (declared_charset ct)) as [C|].
  - apply tres_eqb_spec. exact H.
  - intros e ->. apply tres_eqb_spec. exact H.
Qed.

Lemma hist_okb_sound text ok : forall ops rs n, hist_okb text ok n ops rs = true ->
  length rs = length ops
  /\ (forall k, nth_error ops k = Some HAsText -> exists t, nth_error rs k = Some (RRead t))
  /\ (forall k t, nth_error rs k = Some (RRead t) -> ok t = true).
Proof.
  induction ops as [|op ops IH]; intros rs n H.
  - destruct rs; [|discriminate]. split; [reflexivity|]. split; [intros [|k] E; discriminate|intros [|k] t E; discriminate].
  - destruct rs as [|r rs]; [destruct op; discriminate|].
    assert (X : exists n', hist_okb text ok n' ops rs = true
                           /\ (op = HAsText -> exists t, r = RRead t) /\ (forall t, r = RRead t -> ok t = true)).
    { destruct op as [|i|i|]; destruct r as [e| | |t0]; cbn [hist_okb] in H; try discriminate;
        try (destruct e);
        repeat match goal with Hc : _ && _ = true |- _ => apply andb_true_iff in Hc as [? ?] end;
        eexists; (split; [eassumption|]);
        (split; [try discriminate; intros _; eexists; reflexivity
                |intros t' E; try discriminate; injection E as <-; assumption]). }
    destruct X as [n' [H' [Ha Hr]]]. destruct (IH rs n' H') as [L [A R]].
    split; [simpl; f_equal; exact L|]. split.
    + intros [|k] Hk; simpl in *.
      * injection Hk as ->. destruct (Ha eq_refl) as [t ->]. eexists; reflexivity.
      * apply A. exact Hk.
    + intros [|k] t Hk; simpl in *.
      * injection Hk as ->. apply Hr. reflexivity.
      * exact (R k t Hk).
Qed.

Theorem spec_okb_sound i o : spec_okb i o = true -> Spec i o.
Proof.
  destruct i as [s|d|ct chunks|cs data|r|r|r|bf r|ta ca tb cb|ct|ct chunks oracle ops], o as [ct' b t|ct' b|b t|runs|cr rc i1 r1 i2 r2|cp sm c1 c2 ra og|sm c1 c2 og|i1 i2|e ne|echo res|rs];
    cbn [spec_okb Spec]; try discriminate; intro H.
  - apply andb_true_iff in H as [H1 H2]. split; [apply tres_eqb_spec; exact H1|apply text_okb_sound; exact H2].
  - apply tres_eqb_spec. exact H.
  - apply andb_true_iff in H as [H1 H2]. split; [apply bytes_eqb_spec; exact H1|apply text_okb_sound; exact H2].
  - apply andb_true_iff in H as [H1 H2]. split; [apply Nat.eqb_eq; exact H1|].
    apply Forall_forall. intros p Hp. rewrite forallb_forall in H2. apply text_okb_sound. exact (H2 p Hp).
  - (* reader *)
    unfold reader_okb in H. unfold ReaderSpec. destruct (r_buffer r).
    + destruct (want (r_kind r) (r_data0 r) (r_pos0 r) (r_seek r)) as [bs|e0], cr as [f|]; try discriminate.
      * apply andb_true_iff in H as [H H4]. apply andb_true_iff in H as [H H3]. apply andb_true_iff in H as [H1 H2].
        destruct i1 as [c1|]; [|discriminate]. destruct i2 as [c2|]; [|discriminate].
        apply andb_true_iff in H4 as [H4 H5]. apply chunks_eqb_spec in H5. subst c2.
        apply negb_true_iff in H2. apply negb_true_iff in H3.
        repeat split; try assumption. exists c1. split; [reflexivity|split; [reflexivity|apply chunks_okb_sound; exact H4]].
      * apply exn_eqb_spec in H. subst. reflexivity.
    + destruct cr; [discriminate|].
      apply andb_true_iff in H as [H H3]. apply andb_true_iff in H as [H1 H2]. apply negb_true_iff in H1.
      repeat split; try assumption; [apply iter_okb_sound; exact H2|].
      unfold want in H3 |- *.
      destruct (start_of (r_kind r) (length (r_data1 r)) (r_pos1 r) (r_seek r)) as [p|e0]; apply iter_okb_sound; exact H3.
  - (* snapshot *)
    unfold snap_okb in H. unfold SnapSpec.
    destruct (want (r_kind r) (r_data0 r) (r_pos0 r) (r_seek r)) as [bs|e0], cp as [f|]; try discriminate.
    + apply andb_true_iff in H as [H H5]. apply andb_true_iff in H as [H H4]. apply andb_true_iff in H as [H H3].
      apply andb_true_iff in H as [H1 H2]. apply negb_true_iff in H2.
      repeat split; try assumption; apply joined_okb_sound; assumption.
    + apply exn_eqb_spec in H. subst. reflexivity.
  - (* snapshot of a list *)
    unfold snaplist_okb in H. apply andb_true_iff in H as [H H4]. apply andb_true_iff in H as [H H3].
    apply andb_true_iff in H as [H1 H2].
    repeat split; try assumption; apply joined_okb_sound; assumption.
  - (* content_from_reader over a list *)
    apply andb_true_iff in H as [H1 H2]. split; apply joined_okb_sound; assumption.
  - (* eq *)
    apply andb_true_iff in H as [H1 H2]. apply (proj1 (bool_eqb_spec _ _)) in H1. apply (proj1 (bool_eqb_spec _ _)) in H2.
    split; [|exact H2]. rewrite H1, andb_true_iff, ct_eqb_iff. unfold bytes_eqb. rewrite bytes_eqb_spec. tauto.
  - (* mime *)
    apply andb_true_iff in H as [H0 H]. apply ctype_eqb_spec in H0. split; [exact H0|].
    destruct res as [c|]; [|discriminate]. exists c. split; [reflexivity|apply ct_eqb_iff; exact H].
  - (* histories *)
    destruct (hist_okb_sound _ _ _ _ _ H) as [L [A R]]. unfold HistSpec. split; [exact L|]. split; [exact A|].
    intros k t Hk. apply read_okb_sound. exact (R k t Hk).
Qed.

(* ================= 10. the comparison is exact on what it compares ================= *)
Lemma perr_eqb_spec a b : perr_eqb a b = true <-> a = b.
Proof. destruct a, b; simpl; split; congruence. Qed.


Lemma bres_eqb_spec a b : bres_eqb a b = true <-> alpha_b a = alpha_b b.
Proof.
  unfold bres_eqb. apply res_eqb_spec; [|apply exn_eqb_spec].
  apply pair_eqb_spec; [apply bytes_eqb_spec|apply bool_eqb_spec].
Qed.

Lemma runs_eqb_spec (a b : list (tres * nat)) : list_eqb (pair_eqb tres_eqb Nat.eqb) a b = true <-> a = b.
Proof. apply list_eqb_spec. apply pair_eqb_spec; [apply tres_eqb_spec|apply Nat.eqb_eq]. Qed.

Lemma oexn_eqb_spec (a b : option exn) : option_eqb exn_eqb a b = true <-> a = b.
Proof. apply option_eqb_spec. apply exn_eqb_spec. Qed.


Lemma hres_eqb_spec a b : hres_eqb a b = true <-> a = b.
Proof.
  destruct a as [e| | |t], b as [f| | |u]; cbn [hres_eqb]; try (split; [discriminate|discriminate]);
    try (split; reflexivity).
  - rewrite oexn_eqb_spec. split; congruence.
  - rewrite tres_eqb_spec. split; congruence.
Qed.

Lemma hlist_eqb_spec (a b : list hres) : list_eqb hres_eqb a b = true <-> a = b.
Proof. apply list_eqb_spec. apply hres_eqb_spec. Qed.

Theorem obs_eqb_spec a b : obs_eqb a b = true <-> alpha a = alpha b.
Proof.
  destruct a, b; cbn [obs_eqb alpha]; try (split; [discriminate|discriminate]);
    rewrite ?andb_true_iff, ?ctype_eqb_spec, ?bytes_eqb_spec, ?tres_eqb_spec, ?runs_eqb_spec, ?oexn_eqb_spec,
            ?bool_eqb_spec, ?bres_eqb_spec, ?hlist_eqb_spec;
    (split; [intro H; decompose [and] H; congruence | intro E; injection E; intros; subst; repeat split; assumption]).
Qed.


(* ================= 11. the per-clause theorems of DESIGN section 6 ================= *)
(* C16_bytes *)
Theorem bytes_stored ct cs w : iter_bytes {| c_type := ct; c_src := Stored cs |} w = (Ok cs, w).
Proof. reflexivity. Qed.

Theorem bytes_text s w : iter_bytes (text_content s) w = (Ok [utf8_encode s], w).
Proof. reflexivity. Qed.

Theorem bytes_live ct k n sk w p : 1 <= n -> start_of k (length (w_data w)) (w_pos w) sk = Ok p ->
  exists cs w', iter_bytes {| c_type := ct; c_src := Live k n sk |} w = (Ok cs, w')
                /\ concat cs = skipn p (w_data w) /\ w_data w' = w_data w.
Proof.
  intros Hn Hs. destruct (run_reader_ok k n sk w p Hn Hs) as [cs [R [_ [_ Hc]]]].
  exists cs. eexists. split; [exact R|]. split; [exact Hc|reflexivity].
Qed.

(* C16_chunking, instantiated *)
Theorem as_text_whole C ct chunks w :
  ct_type ct = sb "text" -> codec_of (declared_charset ct) = Some C ->
  fst (as_text {| c_type := ct; c_src := Stored chunks |} w) = whole C (concat chunks).
Proof.
  intros Ht HC. rewrite as_text_stored, Ht, HC, str_eqb_refl. reflexivity.
Qed.

Theorem as_text_split_indep ct c1 c2 w : concat c1 = concat c2 ->
  fst (as_text {| c_type := ct; c_src := Stored c1 |} w) = fst (as_text {| c_type := ct; c_src := Stored c2 |} w).
Proof. intro E. rewrite !as_text_stored, E. reflexivity. Qed.

Theorem utf8_undecodable_every_split chunks :
  decode_whole utf8 (concat chunks) = None <-> iter_text_loop utf8 U0 chunks = None.
Proof.
  pose proof (chunking utf8 chunks) as H. unfold joined_text in H. change (dinit utf8) with U0 in H.
  destruct (iter_text_loop utf8 U0 chunks); simpl in H; rewrite <- H; split; congruence.
Qed.

Theorem latin1_total bs : decode_whole latin1 bs = Some bs.
Proof.
  unfold decode_whole. simpl.
  assert (H : forall s, feed latin1 s bs = Some (tt, bs)).
  { induction bs as [|b bs IH]; intro s; simpl; [destruct s; reflexivity|]. rewrite IH. reflexivity. }
  rewrite H. simpl. rewrite app_nil_r. reflexivity.
Qed.

(* C16_json: for every dumps function *)
Theorem json_bytes (J : Type) (dumps : J -> list N) d w :
  iter_bytes (json_content J dumps d) w = (Ok [utf8_encode (dumps d)], w)
  /\ c_type (json_content J dumps d) = Gen.Ctc16.JSON
  /\ (forallb is_scalar (dumps d) = true -> decode_whole utf8 (utf8_encode (dumps d)) = Some (dumps d)).
Proof. repeat split. apply utf8_roundtrip. Qed.

(* C16_iter_chunks *)
Theorem seek_bytesio_clamps len off :
  seek_pos KBytesIO len off SeekEnd = Ok (Z.to_nat (Z.max 0 (Z.of_nat len + off))).
Proof.
  unfold seek_pos. destruct (Z.ltb_spec (Z.of_nat len + off) 0).
  - rewrite Z.max_l by lia. reflexivity.
  - rewrite Z.max_r by lia. reflexivity.
Qed.

Theorem iter_chunks_spec k n off wh w : 1 <= n ->
  match seek_pos k (length (w_data w)) off wh with
  | Ok p => exists cs, run_reader k n (Some (off, wh)) w = (Ok cs, after_read k w p (S (length cs)))
                       /\ Forall (fun c => c <> []) cs /\ Forall (fun c => length c <= n) cs
                       /\ concat cs = skipn p (w_data w)
  | Raised e => run_reader k n (Some (off, wh)) w = (Raised e, w)
  end.
Proof.
  intro Hn. destruct (seek_pos k (length (w_data w)) off wh) as [p|e] eqn:E.
  - apply run_reader_ok; [exact Hn|exact E].
  - apply run_reader_raises. exact E.
Qed.

(* C16_lazy *)
Theorem lazy_creation k ct n sk w :
  content_from_source k ct n false sk w
  = (Ok {| c_type := match ct with None => Gen.Ctc16.UTF8_TEXT | Some c => c end; c_src := Live k n sk |}, w).
Proof. reflexivity. Qed.

Theorem lazy_iteration ct k n sk w' : iter_bytes {| c_type := ct; c_src := Live k n sk |} w' = run_reader k n sk w'.
Proof. reflexivity. Qed.

Theorem buffered_creation k ct n sk w :
  match run_reader k n sk w with
  | (Ok cs, w1) =>
      exists c, content_from_source k ct n true sk w = (Ok c, w1)
                /\ forall w', iter_bytes c w' = (Ok cs, w')
  | (Raised e, w1) => content_from_source k ct n true sk w = (Raised e, w1)
  end.
Proof.
  unfold content_from_source, content_from_reader. cbn [iter_src].
  destruct (run_reader k n sk w) as [[cs|e] w1]; [|reflexivity].
  eexists. split; [reflexivity|]. intro w'. reflexivity.
Qed.

(* C16_snapshot *)
Lemma iter_src_heap src w : w_heap (snd (iter_src src w)) = w_heap w.
Proof.
  destruct src as [cs|k n sk|l]; cbn [iter_src snd]; try reflexivity.
  unfold run_reader.
  destruct (match sk with
            | Some (off, wh) => seek_pos k (length (w_data w)) off wh
            | None => Ok match k with KBytesIO => w_pos w | KFile => 0 end
            end) as [p|e]; [|reflexivity].
  destruct (read_loop (length (w_data w) - p + 1) (w_data w) p n (w_sizes w)) as [[[cs p'] r]|]; reflexivity.
Qed.

Lemma heap_get_alloc h v : heap_get (length h) (h ++ [v]) = v.
Proof. unfold heap_get. rewrite app_nth2, Nat.sub_diag by lia. reflexivity. Qed.

Lemma heap_set_other : forall h l l' v, l <> l' -> heap_get l' (heap_set l v h) = heap_get l' h.
Proof.
  unfold heap_get. induction h as [|x h IH]; intros l l' v Hne; [destruct l; reflexivity|].
  destruct l as [|l], l' as [|l']; simpl; try reflexivity; try congruence.
  apply IH. congruence.
Qed.

Theorem snapshot c w cp w1 : copy_content c w = (Ok cp, w1) ->
  c_type cp = c_type c
  /\ exists cs w', iter_bytes c w = (Ok cs, w')
                   /\ c_src cp = InList (length (w_heap w))          (* a location that did not exist before *)
                   /\ w_heap w1 = w_heap w ++ [cs]
                   /\ forall w2, heap_get (length (w_heap w)) (w_heap w2) = cs -> iter_bytes cp w2 = (Ok cs, w2).
Proof.
  unfold copy_content. pose proof (iter_src_heap (c_src c) w) as Hh. unfold iter_bytes in *.
  destruct (iter_src (c_src c) w) as [[cs|e] w2]; intro H; [|discriminate].
  cbn [snd] in Hh. unfold alloc in H. injection H as <- <-. cbn [c_type c_src w_heap]. rewrite Hh.
  split; [reflexivity|]. exists cs, w2. repeat split.
  intros w3 H3. cbn [iter_src]. rewrite H3. reflexivity.
Qed.

(* ... so no write to a location that existed when the copy was made (the source's own list included), and no
   change of the stream/file, reaches the copy *)
Theorem snapshot_unaffected c w cp w1 cs w' : copy_content c w = (Ok cp, w1) -> iter_bytes c w = (Ok cs, w') ->
  forall writes : list (loc * list chunk), Forall (fun lv => fst lv < length (w_heap w)) writes ->
  forall d p r sz,
    let w2 := {| w_data := d; w_pos := p; w_reads := r;
                 w_heap := fold_left (fun h lv => heap_set (fst lv) (snd lv) h) writes (w_heap w1);
                 w_sizes := sz |} in
    iter_bytes cp w2 = (Ok cs, w2).
Proof.
  intros Hc Hi writes Hw d p r sz w2.
  destruct (snapshot c w cp w1 Hc) as [_ [cs0 [w0 [Hi0 [Hsrc [Hheap Hget]]]]]].
  rewrite Hi in Hi0. injection Hi0 as <- <-.
  apply Hget. subst w2. cbn [w_heap]. rewrite Hheap.
  assert (G : forall h, heap_get (length (w_heap w)) h = cs ->
              heap_get (length (w_heap w)) (fold_left (fun h lv => heap_set (fst lv) (snd lv) h) writes h) = cs).
  { induction Hw as [|[l v] ws Hl _ IH]; intros h Hh; [exact Hh|]. cbn [fold_left fst snd]. apply IH.
    rewrite heap_set_other; [exact Hh|]. simpl in Hl. lia. }
  apply G. apply heap_get_alloc.
Qed.

(* C16_eq *)
Theorem eq_iff ta ca tb cb w :
  fst (content_eq {| c_type := ta; c_src := Stored ca |} {| c_type := tb; c_src := Stored cb |} w) = Ok true
  <-> CtSame ta tb /\ concat ca = concat cb.
Proof.
  rewrite content_eq_stored. cbn [fst]. rewrite <- ct_eqb_iff, <- bytes_eqb_spec, <- andb_true_iff.
  split; [intro H; injection H; auto|intro H; rewrite H; reflexivity].
Qed.

(* C16_mime_roundtrip *)
Theorem mime_roundtrip_same ct : wf_ct ct = true ->
  exists ct', make_content_type (render ct) = Ok ct' /\ CtSame ct' ct.
Proof.
  intro Hwf. destruct (mime_roundtrip ct Hwf) as [ct' [E [E1 [E2 P]]]].
  exists ct'. split; [exact E|]. apply ct_eqb_iff. unfold ct_eqb. rewrite E1, E2, !str_eqb_refl. cbn [andb].
  apply dict_eqb_perm; [apply Permutation_sym; exact P|].
  destruct (wf_ct_unpack ct Hwf) as [_ [_ [Hnd _]]]. exact Hnd.
Qed.

(* the enumeration behind "every split" is complete *)
Lemma concat_nil_nonempty (s : list chunk) : Forall (fun c => c <> []) s -> concat s = [] -> s = [].
Proof.
  destruct s as [|c s]; [reflexivity|]. intros H E. inversion H; subst. simpl in E.
  apply app_eq_nil in E as [E _]. congruence.
Qed.

Theorem splits_complete : forall l s, Forall (fun c => c <> []) s -> concat s = l -> In s (splits l).
Proof.
  induction l as [|x r IH]; intros s Hs E.
  - rewrite (concat_nil_nonempty s Hs E). left. reflexivity.
  - destruct s as [|c0 t]; [discriminate|]. inversion Hs as [|? ? Hc0 Ht]; subst.
    destruct c0 as [|x0 c0']; [congruence|]. simpl in E. injection E as -> E.
    cbn [splits]. destruct r as [|y r'].
    + apply app_eq_nil in E as [-> E]. rewrite (concat_nil_nonempty t Ht E). left. reflexivity.
    + apply in_flat_map. destruct c0' as [|z c0''].
      * simpl in E. exists t. split; [apply IH; assumption|].
        destruct t as [|c t']; [discriminate|]. right. left. reflexivity.
      * exists ((z :: c0'') :: t). split.
        -- apply IH; [constructor; [discriminate|exact Ht]|exact E].
        -- left. reflexivity.
Qed.

(* C16_history: every complete read in every history, straight on the model *)
Theorem history_reads C ct chunks oracle ops k t :
  ct_type ct = sb "text" -> codec_of (declared_charset ct) = Some C ->
  nth_error (read_history ct chunks oracle ops) k = Some (RRead t) -> t = whole C (concat chunks).
Proof.
  intros Ht HC Hk. pose proof (hist_holds ct chunks oracle ops) as H. apply spec_okb_sound in H.
  cbn [Spec model] in H. destruct H as [_ [_ R]]. specialize (R k t Hk Ht). rewrite HC in R. exact R.
Qed.

Theorem history_answers ct chunks oracle ops :
  length (read_history ct chunks oracle ops) = length ops
  /\ forall k, nth_error ops k = Some HAsText -> exists t, nth_error (read_history ct chunks oracle ops) k = Some (RRead t).
Proof.
  pose proof (hist_holds ct chunks oracle ops) as H. apply spec_okb_sound in H.
  cbn [Spec model] in H. destruct H as [L [A _]]. split; assumption.
Qed.

Lemma upd_other {A} (x : A) : forall l i j, i <> j -> nth_error (upd j x l) i = nth_error l i.
Proof.
  induction l as [|y l IH]; intros [|i] [|j] H; simpl; try reflexivity; try congruence. apply IH. congruence.
Qed.

(* C16_readers_independent *)
Theorem readers_independent C :
  (forall chunks, ti_result C (ti_finish C (ti_fresh C chunks)) = whole C (concat chunks))
  /\ (forall it, ti_finish C (ti_step C it) = ti_finish C it)
  /\ (forall it, ti_finish C (ti_finish C it) = ti_finish C it)
  /\ (forall (its : list (titer C)) i j x, i <> j -> nth_error (upd j x its) i = nth_error its i).
Proof.
  split; [apply ti_fresh_result|]. split; [apply ti_finish_step|]. split; [apply ti_finish_idem|].
  intros its i j x H. apply upd_other. exact H.
Qed.
