(* C06 - leaf matchers whose code differs from the documented predicate:
   SameMembers (helpers.list_subtract both ways) and KeysEqual (sorted lists compared). *)
From Coq Require Import Permutation Sorted RelationClasses.
From TT Require Import Lib.Base Lib.Sort Model.Matchers Spec.C06.

Lemma str_eqb_eq a b : str_eqb a b = true <-> a = b.
Proof. apply list_eqb_spec. intros x y. apply N.eqb_eq. Qed.

Lemma key_eqb_eq a b : key_eqb a b = true <-> a = b.
Proof.
  destruct a, b; simpl; split; intro H; try discriminate; try congruence.
  - apply Z.eqb_eq in H. congruence.
  - injection H as ->. apply Z.eqb_refl.
  - apply str_eqb_eq in H. congruence.
  - injection H as ->. apply str_eqb_eq. reflexivity.
Qed.

(* on scalars == is an equivalence that identifies 1, True and 1.0 (and 0, False, 0.0): two scalars are
   == exactly when they have the same code, whichever side the scalar stands *)
Inductive scode := SNum (z : Z) | SStr (s : str) | SBytes (s : str) | SNone | SSet (e : list Z) | SOther.
Definition code (v : val) : scode :=
  match v with
  | VInt z => SNum (2 * z)
  | VBool b => SNum (if b then 2 else 0)
  | VFloat h => SNum h
  | VStr s => SStr s
  | VBytes s => SBytes s
  | VNone => SNone
  | VSet e => SSet e
  | _ => SOther
  end.

Lemma veq_code x y : scalar x = true ->
  (veq x y = true <-> code x = code y) /\ (veq y x = true <-> code y = code x).
Proof.
  intro S. destruct x; try discriminate; destruct y; unfold code; cbn [veq num2]; (split; split; intro H);
    try discriminate; try reflexivity;
    try (apply Z.eqb_eq in H; congruence); try (apply str_eqb_eq in H; congruence);
    try (injection H as H; apply Z.eqb_eq; exact H); try (injection H as ->; apply str_eqb_eq; reflexivity);
    try (apply (list_eqb_spec Z.eqb Z.eqb_eq) in H; congruence);
    try (injection H as ->; apply (list_eqb_spec Z.eqb Z.eqb_eq); reflexivity).
Qed.

Lemma veq_refl_scalar x : scalar x = true -> veq x x = true.
Proof. intro S. apply (veq_code x x S). reflexivity. Qed.

Lemma veq_sym_scalar x y : scalar x = true -> veq x y = veq y x.
Proof.
  intro S. apply eq_true_iff_eq. destruct (veq_code x y S) as [A B]. rewrite A, B. split; congruence.
Qed.

(* x == y: then x and y are == to the same values, on either side *)
Lemma veq_cong_l x y z : scalar x = true -> scalar y = true -> veq x y = true -> veq x z = veq y z.
Proof.
  intros Sx Sy H. apply (veq_code x y Sx) in H. apply eq_true_iff_eq.
  rewrite (proj1 (veq_code x z Sx)), (proj1 (veq_code y z Sy)), H. reflexivity.
Qed.
Lemma veq_cong_r x y z : scalar x = true -> scalar y = true -> veq y z = true -> veq x y = veq x z.
Proof.
  intros Sx Sy H. apply (veq_code y z Sy) in H. apply eq_true_iff_eq.
  rewrite (proj1 (veq_code x y Sx)), (proj1 (veq_code x z Sx)), H. reflexivity.
Qed.

Lemma veq_trans_scalar x y z : scalar x = true -> scalar y = true ->
  veq x y = true -> veq y z = true -> veq x z = true.
Proof. intros Sx Sy H1 H2. rewrite <- (veq_cong_r x y z Sx Sy H2). exact H1. Qed.

(* == on scalars is an equivalence; it identifies 1, True and 1.0, and 0, False and 0.0, keeps 0.5 apart from
   every int, and no number is == None, '' or b'' *)
Lemma scalar_eq_facts :
  (forall x, scalar x = true -> veq x x = true)
  /\ (forall x y, scalar x = true -> veq x y = veq y x)
  /\ (forall x y z, scalar x = true -> scalar y = true -> veq x y = true -> veq y z = true -> veq x z = true)
  /\ (forall z b h, veq (VInt z) (VBool b) = Z.eqb z (if b then 1 else 0)
                    /\ veq (VInt z) (VFloat h) = Z.eqb (2 * z) h
                    /\ veq (VBool b) (VFloat h) = Z.eqb (if b then 2 else 0) h)
  /\ (forall x, num2 x <> None -> veq x VNone = false /\ veq x (VStr []) = false /\ veq x (VBytes []) = false
                                   /\ veq x (VList []) = false /\ veq x (VDict []) = false).
Proof.
  split; [exact veq_refl_scalar|]. split; [exact veq_sym_scalar|]. split; [exact veq_trans_scalar|]. split.
  - intros z b h. split; [|split; reflexivity].
    cbn [veq num2]. destruct b; destruct z as [|p|p]; try destruct p; reflexivity.
  - intros x H. destruct x; try (exfalso; apply H; reflexivity); repeat split.
Qed.

(* ---------- SameMembers ---------- *)
Definition Sc (l : list val) : Prop := Forall (fun v => scalar v = true) l.

Lemma countv_cons x y l : countv x (y :: l) = (if veq x y then 1 else 0) + countv x l.
Proof. unfold countv. simpl. destruct (veq x y); reflexivity. Qed.

Lemma countv_cong x y l : scalar x = true -> scalar y = true -> veq x y = true -> countv x l = countv y l.
Proof.
  intros Sx Sy H. induction l as [|z l IH]; [reflexivity|].
  rewrite !countv_cons, IH, (veq_cong_l x y z Sx Sy H). reflexivity.
Qed.

Lemma countv_notin x a : scalar x = true -> existsb (fun z => veq z x) a = false -> countv x a = 0.
Proof.
  intros S. induction a as [|z a IH]; simpl; intro H; [reflexivity|].
  apply orb_false_iff in H as [H1 H2]. rewrite countv_cons, (IH H2), (veq_sym_scalar x z S), H1. reflexivity.
Qed.

Lemma countv_remove x y a : scalar x = true -> scalar y = true ->
  existsb (fun z => veq z y) a = true ->
  countv x (remove_first y a) + (if veq x y then 1 else 0) = countv x a.
Proof.
  intros Sx Sy. induction a as [|z a IH]; simpl; intro H; [discriminate|].
  destruct (veq z y) eqn:E.
  - rewrite <- (veq_sym_scalar y z Sy) in E. rewrite countv_cons, (veq_cong_r x y z Sx Sy E). lia.
  - simpl in H. rewrite !countv_cons. specialize (IH H). lia.
Qed.

Lemma remove_first_incl y a : incl (remove_first y a) a.
Proof.
  induction a as [|z a IH]; simpl; [apply incl_refl|].
  destruct (veq z y); [apply incl_tl, incl_refl|].
  intros w [->|Hw]; [left; reflexivity|right; apply IH; exact Hw].
Qed.

Lemma list_subtract_incl b : forall a, incl (list_subtract a b) a.
Proof.
  induction b as [|y b IH]; intro a; simpl; [apply incl_refl|].
  eapply incl_tran; [apply IH|]. destruct (existsb _ a); [apply remove_first_incl|apply incl_refl].
Qed.

Lemma countv_subtract x b : scalar x = true -> Sc b ->
  forall a, countv x (list_subtract a b) = countv x a - countv x b.
Proof.
  intros Sx. induction b as [|y b IH]; intros Sb a; simpl.
  - unfold countv at 3. simpl. lia.
  - inversion Sb as [|? ? Sy Sb']; subst. rewrite (IH Sb'), countv_cons.
    destruct (existsb (fun z => veq z y) a) eqn:E.
    + pose proof (countv_remove x y a Sx Sy E). lia.
    + destruct (veq x y) eqn:Exy; [|lia].
      rewrite (countv_cong x y a Sx Sy Exy), (countv_notin y a Sy E). lia.
Qed.

Lemma countv_in x l : scalar x = true -> In x l -> 1 <= countv x l.
Proof.
  intros Sx. induction l as [|y l IH]; [contradiction|]. rewrite countv_cons.
  intros [->|H]; [rewrite (veq_refl_scalar x Sx); lia|]. apply IH in H. lia.
Qed.

Lemma countv_pos x l : 1 <= countv x l -> exists y, In y l /\ veq x y = true.
Proof.
  induction l as [|y l IH]; [unfold countv; simpl; lia|]. rewrite countv_cons.
  destruct (veq x y) eqn:E.
  - intros _. exists y. split; [left; reflexivity|exact E].
  - intro H. destruct IH as [z [Hz Ez]]; [lia|]. exists z. split; [right; exact Hz|exact Ez].
Qed.

Lemma subtract_nil a b : Sc a -> Sc b ->
  (list_subtract a b = [] <-> forall x, In x a -> countv x a <= countv x b).
Proof.
  intros Sa Sb. split.
  - intros H x Hx. assert (Sx : scalar x = true) by (apply (proj1 (Forall_forall _ _) Sa); exact Hx).
    pose proof (countv_subtract x b Sx Sb a) as C. rewrite H in C. unfold countv at 1 in C. simpl in C. lia.
  - intro H. destruct (list_subtract a b) as [|y r] eqn:E; [reflexivity|]. exfalso.
    assert (Hy : In y a) by (apply (list_subtract_incl b a); rewrite E; left; reflexivity).
    assert (Sy : scalar y = true) by (apply (proj1 (Forall_forall _ _) Sa); exact Hy).
    pose proof (countv_subtract y b Sy Sb a) as C. rewrite E, countv_cons, veq_refl_scalar in C by exact Sy.
    specialize (H y Hy). lia.
Qed.

Lemma is_nil_true {A} (l : list A) : is_nil l = true <-> l = [].
Proof. destruct l; simpl; split; congruence. Qed.

Theorem same_members_code l e : forallb scalar (e ++ l) = true ->
  (is_nil (list_subtract e l) && is_nil (list_subtract l e) = true <-> same_members l e = true).
Proof.
  intro S. rewrite forallb_app in S. apply andb_true_iff in S as [Se Sl].
  assert (SE : Sc e) by (apply Forall_forall; apply forallb_forall; exact Se).
  assert (SL : Sc l) by (apply Forall_forall; apply forallb_forall; exact Sl).
  rewrite andb_true_iff, !is_nil_true, (subtract_nil e l SE SL), (subtract_nil l e SL SE).
  unfold same_members. rewrite forallb_forall. split.
  - intros [H1 H2] x Hx. apply Nat.eqb_eq. apply in_app_or in Hx.
    assert (Sx : scalar x = true).
    { destruct Hx as [Hx|Hx]; [apply (proj1 (Forall_forall _ _) SL)|apply (proj1 (Forall_forall _ _) SE)]; exact Hx. }
    destruct Hx as [Hx|Hx].
    + pose proof (H2 x Hx) as L. pose proof (countv_in x l Sx Hx) as P.
      destruct (countv_pos x e) as [y [Hy Ey]]; [lia|].
      assert (Sy : scalar y = true) by (apply (proj1 (Forall_forall _ _) SE); exact Hy).
      pose proof (H1 y Hy) as L'. rewrite <- (countv_cong x y e Sx Sy Ey), <- (countv_cong x y l Sx Sy Ey) in L'. lia.
    + pose proof (H1 x Hx) as L. pose proof (countv_in x e Sx Hx) as P.
      destruct (countv_pos x l) as [y [Hy Ey]]; [lia|].
      assert (Sy : scalar y = true) by (apply (proj1 (Forall_forall _ _) SL); exact Hy).
      pose proof (H2 y Hy) as L'. rewrite <- (countv_cong x y e Sx Sy Ey), <- (countv_cong x y l Sx Sy Ey) in L'. lia.
  - intro H. split; intros x Hx.
    + assert (E := H x (in_or_app _ _ _ (or_intror Hx))). apply Nat.eqb_eq in E. lia.
    + assert (E := H x (in_or_app _ _ _ (or_introl Hx))). apply Nat.eqb_eq in E. lia.
Qed.

(* ---------- KeysEqual ---------- *)
Lemma str_ltb_irrefl a : str_ltb a a = false.
Proof. induction a as [|x a IH]; simpl; [reflexivity|]. rewrite N.ltb_irrefl, N.eqb_refl, IH. reflexivity. Qed.

Lemma str_tricho a : forall b, str_ltb a b = false -> str_ltb b a = false -> a = b.
Proof.
  induction a as [|x a IH]; intros [|y b]; simpl; intros H1 H2; try discriminate; [reflexivity|].
  apply orb_false_iff in H1 as [L1 E1]. apply orb_false_iff in H2 as [L2 E2].
  apply N.ltb_ge in L1, L2. assert (x = y) by lia. subst y.
  rewrite N.eqb_refl in E1, E2. simpl in E1, E2. f_equal. apply IH; assumption.
Qed.

(* negative transitivity: c < a implies b < a or c < b *)
Lemma str_ltb_negtrans c : forall a b, str_ltb c a = true -> str_ltb b a = true \/ str_ltb c b = true.
Proof.
  induction c as [|z c IH]; intros [|x a] [|y b]; simpl; intro H; try discriminate; auto.
  apply orb_true_iff in H. destruct (N.ltb y x) eqn:Lyx; [left; reflexivity|].
  destruct (N.ltb z y) eqn:Lzy; [right; reflexivity|]. simpl.
  apply N.ltb_ge in Lyx, Lzy.
  destruct H as [H|H].
  - apply N.ltb_lt in H. lia.
  - apply andb_true_iff in H as [E H]. apply N.eqb_eq in E. subst z.
    assert (x = y) by lia. subst y. rewrite N.eqb_refl. simpl. apply IH. exact H.
Qed.

Definition kle (a b : key) : Prop := key_leb a b = true.

Lemma str_ltb_asym a : forall b, str_ltb a b = true -> str_ltb b a = false.
Proof.
  induction a as [|x a IH]; intros [|y b]; simpl; intro H; try discriminate; try reflexivity.
  apply orb_true_iff in H. apply orb_false_iff. destruct H as [H|H].
  - apply N.ltb_lt in H. split; [apply N.ltb_ge; lia|].
    destruct (N.eqb y x) eqn:E; [apply N.eqb_eq in E; lia|reflexivity].
  - apply andb_true_iff in H as [E H]. apply N.eqb_eq in E. subst y.
    rewrite N.ltb_irrefl, N.eqb_refl. simpl. split; [reflexivity|]. apply IH. exact H.
Qed.

Lemma key_leb_total a b : key_leb a b = true \/ key_leb b a = true.
Proof.
  destruct a as [x|x], b as [y|y]; simpl; auto.
  - destruct (Z.leb x y) eqn:E; [auto|]. right. apply Z.leb_le. apply Z.leb_gt in E. lia.
  - destruct (str_ltb y x) eqn:E; [|auto]. right. rewrite (str_ltb_asym _ _ E). reflexivity.
Qed.

Lemma key_leb_antisym a b : kle a b -> kle b a -> a = b.
Proof.
  unfold kle. destruct a as [x|x], b as [y|y]; simpl; intros H1 H2; try discriminate.
  - apply Z.leb_le in H1, H2. f_equal. lia.
  - apply negb_true_iff in H1, H2. f_equal. apply str_tricho; assumption.
Qed.

Lemma key_leb_trans a b c : kle a b -> kle b c -> kle a c.
Proof.
  unfold kle. destruct a as [x|x], b as [y|y], c as [z|z]; simpl; intros H1 H2; try discriminate; try reflexivity.
  - apply Z.leb_le in H1, H2. apply Z.leb_le. lia.
  - apply negb_true_iff in H1, H2. apply negb_true_iff.
    destruct (str_ltb z x) eqn:E; [|reflexivity].
    destruct (str_ltb_negtrans z x y E) as [H|H]; congruence.
Qed.

Lemma sorted_perm_eq (l1 : list key) : forall l2,
  StronglySorted kle l1 -> StronglySorted kle l2 -> Permutation l1 l2 -> l1 = l2.
Proof.
  induction l1 as [|x r1 IH]; intros l2 S1 S2 P.
  - apply Permutation_nil in P. congruence.
  - destruct l2 as [|y r2]; [apply Permutation_sym, Permutation_nil in P; discriminate|].
    inversion S1 as [|? ? S1' F1]; subst. inversion S2 as [|? ? S2' F2]; subst.
    assert (x = y).
    { assert (Hx : In x (y :: r2)) by (apply (Permutation_in _ P); left; reflexivity).
      assert (Hy : In y (x :: r1)) by (apply (Permutation_in _ (Permutation_sym P)); left; reflexivity).
      destruct Hx as [->|Hx]; [reflexivity|]. destruct Hy as [->|Hy]; [reflexivity|].
      apply key_leb_antisym; [apply (proj1 (Forall_forall _ _) F1)|apply (proj1 (Forall_forall _ _) F2)]; assumption. }
    subst y. f_equal. apply IH; try assumption. eapply Permutation_cons_inv; exact P.
Qed.

Lemma isort_strongly l : StronglySorted kle (isort key_leb l).
Proof.
  apply Sorted_StronglySorted; [intros a b c; apply key_leb_trans|].
  apply (isort_sorted key_leb key_leb_total).
Qed.

Lemma countk_perm x l l' : Permutation l l' -> countk x l = countk x l'.
Proof.
  unfold countk. induction 1; simpl; try congruence.
  - destruct (key_eqb x x0); simpl; congruence.
  - destruct (key_eqb x x0), (key_eqb x y); reflexivity.
Qed.

Lemma countk_cons x y l : countk x (y :: l) = (if key_eqb x y then 1 else 0) + countk x l.
Proof. unfold countk. simpl. destruct (key_eqb x y); reflexivity. Qed.

Lemma countk_in x l : 1 <= countk x l <-> In x l.
Proof.
  induction l as [|y l IH]; [unfold countk; simpl; split; [lia|contradiction]|].
  rewrite countk_cons. simpl. destruct (key_eqb x y) eqn:E.
  - apply key_eqb_eq in E. subst. split; [left; reflexivity|lia].
  - split.
    + intro H. right. apply IH. lia.
    + intros [->|H]; [assert (key_eqb x x = true) by (apply key_eqb_eq; reflexivity); congruence|].
      apply IH in H. lia.
Qed.

Lemma counts_perm (a : list key) : forall b, (forall x, countk x a = countk x b) -> Permutation a b.
Proof.
  induction a as [|x a IH]; intros b H.
  - destruct b as [|y b]; [constructor|]. specialize (H y). rewrite countk_cons in H.
    assert (key_eqb y y = true) by (apply key_eqb_eq; reflexivity). rewrite H0 in H. unfold countk in H. simpl in H. lia.
  - assert (Hx : In x b).
    { apply countk_in. rewrite <- H, countk_cons.
      assert (key_eqb x x = true) by (apply key_eqb_eq; reflexivity). rewrite H0. lia. }
    apply in_split in Hx as [b1 [b2 ->]].
    etransitivity; [|apply Permutation_middle]. apply perm_skip. apply IH.
    intro z. specialize (H z).
    rewrite (countk_perm z _ _ (Permutation_sym (Permutation_middle b1 b2 x))) in H.
    rewrite !countk_cons in H. lia.
Qed.

Theorem same_keys_code a b :
  list_eqb key_eqb (isort key_leb a) (isort key_leb b) = true <-> same_keys a b = true.
Proof.
  rewrite (list_eqb_spec key_eqb key_eqb_eq). unfold same_keys. rewrite forallb_forall. split.
  - intros E x _. apply Nat.eqb_eq.
    rewrite (countk_perm x _ _ (isort_perm key_leb a)), (countk_perm x _ _ (isort_perm key_leb b)), E. reflexivity.
  - intro H. apply sorted_perm_eq; try apply isort_strongly.
    rewrite <- (isort_perm key_leb a), <- (isort_perm key_leb b).
    apply counts_perm. intro x.
    destruct (le_lt_dec 1 (countk x a)) as [Ha|Ha].
    + apply Nat.eqb_eq. apply H. apply in_or_app. left. apply countk_in. exact Ha.
    + destruct (le_lt_dec 1 (countk x b)) as [Hb|Hb]; [|lia].
      apply Nat.eqb_eq. apply H. apply in_or_app. right. apply countk_in. exact Hb.
Qed.
