(* Lemmas behind Props/C10.v (and reused by C09). *)
From Coq Require Import String Permutation.
From TT Require Import Lib.Base Lib.Bytestr Gen.Streamtabs Model.StreamRec Spec.C10 Corr.C10.
Open Scope list_scope.

(* ================= facts about the live tables (Gen/Streamtabs.v), by computation ================= *)
Lemma final_table : forall st, final st = is_final st.
Proof. intros [[]|]; vm_compute; reflexivity. Qed.

Lemma outcome_table : forall st, outcome_of st = spec_outcome st.
Proof. intros []; vm_compute; reflexivity. Qed.

(* the list named by each status *)
Definition spec_bucket (st : status) : option bucket :=
  match st with
  | Fail | Inprogress | Unknown => Some BErrors
  | Skip => Some BSkipped | Xfail => Some BExpectedFailures | Uxsuccess => Some BUnexpectedSuccesses
  | Success | Exists => None
  end.
Lemma bucket_table : forall st, bucket_of st = Some (spec_bucket st).
Proof. intros []; vm_compute; reflexivity. Qed.

(* every final state and 'inprogress' has a handler in StreamSummary; the only status
   without an entry in _status_map is 'exists' *)
Lemma handlers_cover_states :
  forallb (fun s => existsb (String.eqb s) summary_keys) ("inprogress"%string :: final_states) = true.
Proof. vm_compute; reflexivity. Qed.
Lemma states_are_the_eight :
  forall s, In s final_states <-> exists st, st <> Inprogress /\ status_name st = s.
Proof.
  intro s; split.
  - intro H. vm_compute in H.
    repeat (destruct H as [H|H]; [subst s|]); try contradiction;
      [exists Exists | exists Fail | exists Skip | exists Success | exists Unknown | exists Uxsuccess | exists Xfail];
      (split; [discriminate|reflexivity]).
  - intros [[] [Hn <-]]; vm_compute; tauto.
Qed.
Lemma fail_replays_as_failure : outcome_of Fail = Some AddFailure.
Proof. vm_compute; reflexivity. Qed.
(* both addError and addFailure travel as 'fail' *)
Lemma e2s_words :
  map (fun o => slookup (outcome_name o) e2s_status_word) all_outcomes
  = map (fun s => Some (status_name s)) [Success; Fail; Fail; Skip; Xfail; Uxsuccess].
Proof. vm_compute; reflexivity. Qed.

(* ================= boolean equalities ================= *)
Lemma status_eqb_spec a b : status_eqb a b = true <-> a = b.
Proof. destruct a, b; simpl; split; intro H; try reflexivity; try discriminate. Qed.
Lemma outcome_eqb_spec a b : outcome_eqb a b = true <-> a = b.
Proof. destruct a, b; simpl; split; intro H; try reflexivity; try discriminate. Qed.
Lemma key_eqb_spec a b : key_eqb a b = true <-> a = b.
Proof.
  destruct a as [a1 a2], b as [b1 b2]. unfold key_eqb; simpl. rewrite andb_true_iff, Nat.eqb_eq.
  rewrite (option_eqb_spec Nat.eqb Nat.eqb_eq). split; [intros [-> ->]; reflexivity | intro H; inversion H; auto].
Qed.
Lemma key_eqb_refl k : key_eqb k k = true.
Proof. apply key_eqb_spec; reflexivity. Qed.
Lemma key_eqb_sym a b : key_eqb a b = key_eqb b a.
Proof.
  destruct (key_eqb a b) eqn:E1, (key_eqb b a) eqn:E2; try reflexivity.
  - apply key_eqb_spec in E1; subst. rewrite key_eqb_refl in E2; discriminate.
  - apply key_eqb_spec in E2; subst. rewrite key_eqb_refl in E1; discriminate.
Qed.

Lemma detail_eqb_spec a b : detail_eqb a b = true <-> a = b.
Proof.
  apply pair_eqb_spec; [exact Nat.eqb_eq|]. apply pair_eqb_spec; [exact Nat.eqb_eq | exact String.eqb_eq].
Qed.
Lemma nats_eqb_spec a b : list_eqb Nat.eqb a b = true <-> a = b.
Proof. apply list_eqb_spec. exact Nat.eqb_eq. Qed.
Lemma onat_eqb_spec a b : option_eqb Nat.eqb a b = true <-> a = b.
Proof. apply option_eqb_spec. exact Nat.eqb_eq. Qed.
Lemma details_eqb_spec a b : list_eqb detail_eqb a b = true <-> a = b.
Proof. apply list_eqb_spec. exact detail_eqb_spec. Qed.

Lemma rec_eqb_spec a b : rec_eqb a b = true <-> a = b.
Proof.
  unfold rec_eqb.
  rewrite (pair_eqb_spec _ _ Nat.eqb_eq
            (pair_eqb_spec _ _ nats_eqb_spec
              (pair_eqb_spec _ _ details_eqb_spec
                (pair_eqb_spec _ _ status_eqb_spec
                  (pair_eqb_spec _ _ onat_eqb_spec onat_eqb_spec))))).
  destruct a, b; unfold rec_tuple; simpl. split; intro H; inversion H; reflexivity.
Qed.
Lemma recs_eqb_spec a b : list_eqb rec_eqb a b = true <-> a = b.
Proof. apply list_eqb_spec. exact rec_eqb_spec. Qed.

Lemma lev_eqb_spec a b : lev_eqb a b = true <-> a = b.
Proof.
  destruct a, b; simpl; try (split; intro H; [discriminate | inversion H]); try (split; reflexivity).
  - rewrite Nat.eqb_eq. split; [intros ->; reflexivity | intro H; inversion H; reflexivity].
  - rewrite andb_true_iff, !nats_eqb_spec. split; [intros [-> ->]; reflexivity | intro H; inversion H; auto].
  - rewrite Nat.eqb_eq. split; [intros ->; reflexivity | intro H; inversion H; reflexivity].
  - rewrite !andb_true_iff, outcome_eqb_spec, Nat.eqb_eq, nats_eqb_spec, details_eqb_spec.
    split; [intros [[[-> ->] ->] ->]; reflexivity | intro H; inversion H; auto].
  - rewrite Nat.eqb_eq. split; [intros ->; reflexivity | intro H; inversion H; reflexivity].
Qed.
Lemma levs_eqb_spec a b : list_eqb lev_eqb a b = true <-> a = b.
Proof. apply list_eqb_spec. exact lev_eqb_spec. Qed.

Lemma sl_eqb_spec a b : sl_eqb a b = true <-> a = b.
Proof.
  unfold sl_eqb, ids_eqb.
  rewrite (pair_eqb_spec _ _ Nat.eqb_eq
            (pair_eqb_spec _ _ nats_eqb_spec
              (pair_eqb_spec _ _ nats_eqb_spec
                (pair_eqb_spec _ _ nats_eqb_spec
                  (pair_eqb_spec _ _ nats_eqb_spec nats_eqb_spec))))).
  destruct a, b; unfold sl_tuple; simpl. split; intro H; inversion H; reflexivity.
Qed.

(* ================= lists compared as multisets ================= *)
Section Perm.
  Context {A : Type} (eqb : A -> A -> bool) (eqb_spec : forall a b, eqb a b = true <-> a = b).

  Lemma remove1_perm x l : forall l', remove1 eqb x l = Some l' -> Permutation l (x :: l').
  Proof.
    induction l as [|y r IH]; intros l' H; simpl in H; [discriminate|].
    destruct (eqb x y) eqn:E.
    - apply eqb_spec in E. subst. inversion H; subst. apply Permutation_refl.
    - destruct (remove1 eqb x r) as [r'|]; [|discriminate]. inversion H; subst.
      eapply perm_trans; [apply perm_skip; apply IH; reflexivity | apply perm_swap].
  Qed.
  Lemma remove1_in x l : In x l -> exists l', remove1 eqb x l = Some l'.
  Proof.
    induction l as [|y r IH]; simpl; intro H; [contradiction|].
    destruct (eqb x y) eqn:E; [eauto|].
    destruct H as [H|H].
    - subst. assert (X : eqb x x = true) by (apply eqb_spec; reflexivity). congruence.
    - destruct (IH H) as [r' ->]. eauto.
  Qed.
  Theorem perm_eqb_spec l1 : forall l2, perm_eqb eqb l1 l2 = true <-> Permutation l1 l2.
  Proof.
    induction l1 as [|x r IH]; intro l2; simpl.
    - destruct l2; split; intro H; try reflexivity; try discriminate.
      apply Permutation_nil in H. discriminate.
    - destruct (remove1 eqb x l2) as [l2'|] eqn:R.
      + rewrite IH. pose proof (remove1_perm _ _ _ R) as P. split; intro H.
        * eapply perm_trans; [apply perm_skip; exact H | apply Permutation_sym; exact P].
        * apply Permutation_cons_inv with x. eapply perm_trans; [exact H | exact P].
      + split; [discriminate|]. intro H.
        destruct (remove1_in x l2) as [l' E]; [|congruence].
        eapply Permutation_in; [exact H | left; reflexivity].
  Qed.

  Lemma tail_permb_spec n a b : tail_permb eqb n a b = true <-> tail_perm n a b.
  Proof.
    unfold tail_permb, tail_perm. rewrite andb_true_iff, perm_eqb_spec, (list_eqb_spec eqb eqb_spec). tauto.
  Qed.
End Perm.

Lemma firstn_length_app {A} (a b : list A) : firstn (List.length a) (a ++ b) = a.
Proof. induction a as [|x a IH]; simpl; [destruct b; reflexivity | rewrite IH; reflexivity]. Qed.
Lemma skipn_length_app {A} (a b : list A) : skipn (List.length a) (a ++ b) = b.
Proof. induction a as [|x a IH]; simpl; [reflexivity | exact IH]. Qed.
Lemma app_eq_length {A} (a : list A) : forall b c d, a ++ b = c ++ d -> List.length a = List.length c -> a = c /\ b = d.
Proof.
  induction a as [|x a IH]; intros b [|y c] d H L; simpl in *; try discriminate; [tauto|].
  inversion H; subst. destruct (IH b c d H2) as [-> ->]; [lia | tauto].
Qed.

Lemma sum_equivb_spec pre fa fb : sum_equivb pre fa fb = true <-> sum_equiv pre fa fb.
Proof.
  unfold sum_equivb, sum_equiv. rewrite !andb_true_iff, Nat.eqb_eq, !(tail_permb_spec Nat.eqb Nat.eqb_eq). tauto.
Qed.

Theorem obs_eqb_spec a b : obs_eqb a b = true <-> obs_equiv a b.
Proof.
  unfold obs_eqb, obs_equiv.
  rewrite !andb_true_iff, !recs_eqb_spec, !levs_eqb_spec, sl_eqb_spec, sum_equivb_spec, bool_eqb_spec,
    (perm_eqb_spec rec_eqb rec_eqb_spec), (perm_eqb_spec (list_eqb lev_eqb) levs_eqb_spec).
  tauto.
Qed.

(* obs_equiv is an equivalence relation *)
Lemma tail_perm_refl {A} n (a : list A) : tail_perm n a a.
Proof. split; [reflexivity | apply Permutation_refl]. Qed.
Lemma tail_perm_sym {A} n (a b : list A) : tail_perm n a b -> tail_perm n b a.
Proof. intros [H1 H2]. split; [symmetry; exact H1 | apply Permutation_sym; exact H2]. Qed.
Lemma tail_perm_trans {A} n (a b c : list A) : tail_perm n a b -> tail_perm n b c -> tail_perm n a c.
Proof. intros [H1 H2] [H3 H4]. split; [congruence | eapply perm_trans; eassumption]. Qed.

Theorem obs_equiv_refl a : obs_equiv a a.
Proof. unfold obs_equiv, sum_equiv. repeat split; try apply Permutation_refl. Qed.
Theorem obs_equiv_sym a b : obs_equiv a b -> obs_equiv b a.
Proof.
  unfold obs_equiv, sum_equiv. intros (H1 & H2 & H3 & (R & F & Er & Sk & X & U) & H5 & H6 & H7 & H8).
  rewrite <- H3. repeat split; try (symmetry; assumption); try (apply Permutation_sym; assumption);
    try (apply tail_perm_sym; assumption).
Qed.
Theorem obs_equiv_trans a b c : obs_equiv a b -> obs_equiv b c -> obs_equiv a c.
Proof.
  unfold obs_equiv, sum_equiv.
  intros (H1 & H2 & H3 & (R & F & Er & Sk & X & U) & H5 & H6 & H7 & H8)
         (G1 & G2 & G3 & (R' & F' & Er' & Sk' & X' & U') & G5 & G6 & G7 & G8).
  rewrite <- H3 in *.
  repeat split; try congruence; try (eapply perm_trans; eassumption); try (eapply tail_perm_trans; eassumption).
Qed.

(* ================= the record of a segment ================= *)
Lemma last_cons {A} (r : list A) c p : last (c :: r) p = last r c.
Proof.
  revert c p; induction r as [|x r IH]; intros c p; [reflexivity|].
  change (last (c :: x :: r) p) with (last (x :: r) p). rewrite !IH. reflexivity.
Qed.
Lemma last_app_opt {A} (o : option A) (l : list A) d :
  last ((match o with Some x => [x] | None => [] end) ++ l) d = last l (match o with Some x => x | None => d end).
Proof. destruct o; [apply last_cons | reflexivity]. Qed.

Section Records.
  Variable M : Type.
  Variable CT : Type.
  Variable parse : option M -> CT.
  Notation event := (event M).
  Notation rcd := (rcd CT).
  Notation chunk := (chunk M).

  Definition addc (d : list (nat * (CT * string))) (c : chunk) := add_bytes parse (fst (fst c)) (snd (fst c)) (snd c) d.

  (* running _update_case over a list of events, field by field *)
  Lemma fold_upd (seg : list event) : forall r0 : rcd,
    fold_left (upd parse) seg r0 =
    {| r_id := r_id r0;
       r_tags := last (somes e_tags seg) (r_tags r0);
       r_details := fold_left addc (chunks seg) (r_details r0);
       r_status := last (somes e_status seg) (r_status r0);
       r_first := r_first r0;
       r_last := last (map e_ts seg) (r_last r0) |}.
  Proof.
    induction seg as [|e seg IH]; intro r0; [destruct r0; reflexivity|].
    cbn [fold_left]. rewrite IH. unfold chunks, somes. cbn [flat_map map].
    rewrite !last_app_opt, last_cons. unfold upd; cbn [r_id r_tags r_details r_status r_first r_last].
    rewrite fold_left_app. unfold chunk_of.
    destruct (e_tags e), (e_status e), (e_fname e), (e_fbytes e) as [b|]; try destruct (sempty b); reflexivity.
  Qed.

  (* ---- names in order of first appearance ---- *)
  Lemma existsb_eqb_In x l : existsb (Nat.eqb x) l = true <-> In x l.
  Proof.
    rewrite existsb_exists. split.
    - intros [y [Hy E]]. apply Nat.eqb_eq in E. subst; exact Hy.
    - intro H. exists x. split; [exact H | apply Nat.eqb_refl].
  Qed.

  Lemma firsts_In l : forall seen x, In x (firsts seen l) <-> In x l /\ ~ In x seen.
  Proof.
    induction l as [|y l IH]; intros seen x; simpl; [tauto|].
    destruct (existsb (Nat.eqb y) seen) eqn:E.
    - apply existsb_eqb_In in E. rewrite IH. split; [tauto|]. intros [[->|H] Hn]; [contradiction | tauto].
    - assert (Hy : ~ In y seen) by (intro H; apply existsb_eqb_In in H; congruence).
      simpl. rewrite IH. simpl. split.
      + intros [->|[H Hn]]; [tauto|]. split; [tauto|]. intro; apply Hn; tauto.
      + intros [[->|H] Hn]; [tauto|]. destruct (Nat.eq_dec y x) as [->|Hne]; [tauto|].
        right. split; [exact H|]. intros [?|?]; [congruence | contradiction].
  Qed.

  Lemma firsts_NoDup l : forall seen, NoDup (firsts seen l).
  Proof.
    induction l as [|y l IH]; intro seen; simpl; [constructor|].
    destruct (existsb (Nat.eqb y) seen); [apply IH|].
    constructor; [|apply IH]. rewrite firsts_In. simpl. tauto.
  Qed.

  Lemma firsts_snoc l : forall seen x,
    firsts seen (l ++ [x]) = firsts seen l ++ (if existsb (Nat.eqb x) (seen ++ l) then [] else [x]).
  Proof.
    induction l as [|y l IH]; intros seen x; simpl.
    - rewrite app_nil_r. destruct (existsb (Nat.eqb x) seen); reflexivity.
    - destruct (existsb (Nat.eqb y) seen) eqn:E.
      + rewrite IH. f_equal.
        assert (H : existsb (Nat.eqb x) (seen ++ l) = existsb (Nat.eqb x) (seen ++ y :: l)).
        { apply eq_true_iff_eq. rewrite !existsb_eqb_In, !in_app_iff. simpl.
          apply existsb_eqb_In in E. split; [tauto|]. intros [?|[<-|?]]; tauto. }
        rewrite H. reflexivity.
      + simpl. rewrite IH. f_equal.
        assert (H : existsb (Nat.eqb x) ((y :: seen) ++ l) = existsb (Nat.eqb x) (seen ++ y :: l)).
        { apply eq_true_iff_eq. rewrite !existsb_eqb_In. simpl. rewrite !in_app_iff. simpl. tauto. }
        rewrite H. reflexivity.
  Qed.

  (* ---- got_file folded over the chunks = per name, the chunks joined and typed by the first ---- *)
  Definition cname (c : chunk) : nat := fst (fst c).

  Lemma named_snoc n cs c : named n (cs ++ [c]) = named n cs ++ (if Nat.eqb n (cname c) then [c] else []).
  Proof. unfold named. rewrite filter_app. reflexivity. Qed.

  Lemma named_nil n cs : ~ In n (map cname cs) -> named n cs = [].
  Proof.
    induction cs as [|c cs IH]; simpl; intro H; [reflexivity|].
    destruct (Nat.eqb n (fst (fst c))) eqn:E.
    - apply Nat.eqb_eq in E. exfalso; apply H; left; symmetry; exact E.
    - apply IH. intro; apply H; right; assumption.
  Qed.
  Lemma named_cons n cs : In n (map cname cs) -> exists c r, named n cs = c :: r.
  Proof.
    induction cs as [|c cs IH]; simpl; intro H; [contradiction|].
    destruct (Nat.eqb n (fst (fst c))) eqn:E; [eauto|].
    destruct H as [H|H]; [|exact (IH H)]. unfold cname in H. rewrite H, Nat.eqb_refl in E. discriminate.
  Qed.

  Lemma file_of_other cs c n : n <> cname c -> file_of parse (cs ++ [c]) n = file_of parse cs n.
  Proof.
    intro H. unfold file_of. rewrite named_snoc. apply Nat.eqb_neq in H. rewrite H, app_nil_r. reflexivity.
  Qed.

  Lemma add_bytes_absent n m b (d : list (nat * (CT * string))) :
    ~ In n (map fst d) -> add_bytes parse n m b d = d ++ [(n, (parse m, b))].
  Proof.
    induction d as [|[n' [ct old]] d IH]; simpl; intro H; [reflexivity|].
    destruct (Nat.eqb n n') eqn:E; [apply Nat.eqb_eq in E; exfalso; apply H; left; symmetry; exact E|].
    rewrite IH; [reflexivity|]. intro; apply H; right; assumption.
  Qed.

  Lemma add_bytes_present cs c l : NoDup l -> In (cname c) l -> In (cname c) (map cname cs) ->
    add_bytes parse (cname c) (snd (fst c)) (snd c) (map (file_of parse cs) l) = map (file_of parse (cs ++ [c])) l.
  Proof.
    intros ND Hin Hcs. induction l as [|n l IH]; [contradiction|].
    inversion ND as [|? ? Hn ND']; subst. cbn [map add_bytes]. unfold file_of at 1.
    destruct (Nat.eqb (cname c) n) eqn:E.
    - apply Nat.eqb_eq in E. subst n. f_equal.
      + unfold file_of. rewrite named_snoc, Nat.eqb_refl.
        destruct (named_cons _ _ Hcs) as [c0 [r0 Hc0]]. rewrite Hc0. cbn [app].
        change (c0 :: r0 ++ [c]) with ((c0 :: r0) ++ [c]). rewrite map_app, sjoin_app. cbn [map sjoin fold_right]. rewrite sapp_nil_r. reflexivity.
      + apply map_ext_in. intros n Hn'. symmetry. apply file_of_other. intro; subst; contradiction.
    - fold (file_of parse cs n). rewrite file_of_other by (apply Nat.eqb_neq in E; congruence).
      f_equal. apply IH; [exact ND'|]. destruct Hin as [->|Hin]; [rewrite Nat.eqb_refl in E; discriminate | exact Hin].
  Qed.

  Lemma map_fst_file_of cs l : map fst (map (file_of parse cs) l) = l.
  Proof. rewrite map_map. unfold file_of. simpl. apply map_id. Qed.

  Lemma fold_addc cs : fold_left addc cs [] = map (file_of parse cs) (firsts [] (map cname cs)).
  Proof.
    induction cs as [|c cs IH] using rev_ind; [reflexivity|].
    rewrite fold_left_app. cbn [fold_left]. rewrite IH. unfold addc. fold (cname c).
    rewrite map_app. cbn [map]. rewrite firsts_snoc. cbn [app].
    destruct (existsb (Nat.eqb (cname c)) (map cname cs)) eqn:E.
    - apply existsb_eqb_In in E. rewrite app_nil_r.
      apply add_bytes_present; [apply firsts_NoDup | apply firsts_In; simpl; tauto | exact E].
    - assert (Hn : ~ In (cname c) (map cname cs)) by (intro H; apply existsb_eqb_In in H; congruence).
      rewrite add_bytes_absent.
      + rewrite map_app. cbn [map]. f_equal.
        * apply map_ext_in. intros n Hin. symmetry. apply file_of_other.
          apply firsts_In in Hin. intro; subst; tauto.
        * unfold file_of. rewrite named_snoc, Nat.eqb_refl, (named_nil _ _ Hn). cbn [app map sjoin fold_right].
          rewrite sapp_nil_r. reflexivity.
      + rewrite map_fst_file_of. rewrite firsts_In. tauto.
  Qed.

  (* what the model computes for a segment that starts with a fresh record *)
  Definition model_record (i : nat) (seg : list event) : rcd :=
    fold_left (upd parse) seg (create i (match seg with e :: _ => e_ts e | [] => None end)).

  Theorem model_record_spec i seg : model_record i seg = seg_record parse i false seg.
  Proof.
    unfold model_record. rewrite fold_upd. unfold seg_record, files. cbn [create r_id r_tags r_details r_status r_first r_last].
    rewrite fold_addc. reflexivity.
  Qed.

  Lemma hung_seg_record i seg : hung (seg_record parse i false seg) = seg_record parse i true seg.
  Proof. reflexivity. Qed.
End Records.
Arguments model_record {M CT}.

(* ================= insertion-ordered dictionaries ================= *)
Section Dict.
  Context {V : Type}.
  Implicit Types (d : list (key * V)) (k : key).

  Definition NoDupKeys d := NoDup (map fst d).

  Lemma get_Some_In k d v : get k d = Some v -> In (k, v) d.
  Proof.
    induction d as [|[k' v'] d IH]; simpl; [discriminate|].
    destruct (key_eqb k k') eqn:E; [|auto]. apply key_eqb_spec in E. intro H; inversion H; subst. left; reflexivity.
  Qed.
  Lemma get_None_notin k d : get k d = None -> ~ In k (map fst d).
  Proof.
    induction d as [|[k' v'] d IH]; simpl; [tauto|].
    destruct (key_eqb k k') eqn:E; [discriminate|]. intros H [H1|H1]; [|exact (IH H H1)].
    subst. rewrite key_eqb_refl in E. discriminate.
  Qed.
  Lemma notin_get_None k d : ~ In k (map fst d) -> get k d = None.
  Proof.
    induction d as [|[k' v'] d IH]; simpl; [reflexivity|]. intro H.
    destruct (key_eqb k k') eqn:E; [apply key_eqb_spec in E; subst; tauto | apply IH; tauto].
  Qed.
  Lemma get_put_same k v d : get k (put k v d) = Some v.
  Proof.
    induction d as [|[k' v'] d IH]; simpl; [rewrite key_eqb_refl; reflexivity|].
    destruct (key_eqb k k') eqn:E; simpl; rewrite E; [reflexivity | exact IH].
  Qed.
  Lemma get_put_other k k' v d : k <> k' -> get k (put k' v d) = get k d.
  Proof.
    intro H. induction d as [|[k2 v2] d IH]; simpl.
    - destruct (key_eqb k k') eqn:E; [apply key_eqb_spec in E; contradiction | reflexivity].
    - destruct (key_eqb k' k2) eqn:E; simpl.
      + apply key_eqb_spec in E; subst k2.
        destruct (key_eqb k k') eqn:E2; [apply key_eqb_spec in E2; contradiction | reflexivity].
      + destruct (key_eqb k k2); [reflexivity | exact IH].
  Qed.
  Lemma get_del_other k k' d : k <> k' -> get k (del k' d) = get k d.
  Proof.
    intro H. induction d as [|[k2 v2] d IH]; simpl; [reflexivity|].
    destruct (key_eqb k' k2) eqn:E; simpl.
    - apply key_eqb_spec in E; subst k2.
      destruct (key_eqb k k') eqn:E2; [apply key_eqb_spec in E2; contradiction | reflexivity].
    - destruct (key_eqb k k2); [reflexivity | exact IH].
  Qed.
  Lemma In_keys_del x k d : In x (map fst (del k d)) -> In x (map fst d).
  Proof.
    induction d as [|[k2 v2] d IH]; simpl; [tauto|].
    destruct (key_eqb k k2); simpl; tauto.
  Qed.
  Lemma In_keys_put x k v d : In x (map fst (put k v d)) -> x = k \/ In x (map fst d).
  Proof.
    induction d as [|[k2 v2] d IH]; simpl; [intuition|].
    destruct (key_eqb k k2); simpl; tauto.
  Qed.
  Lemma NoDupKeys_del k d : NoDupKeys d -> NoDupKeys (del k d).
  Proof.
    unfold NoDupKeys. induction d as [|[k2 v2] d IH]; simpl; intro H; [constructor|].
    inversion H; subst. destruct (key_eqb k k2); [assumption|]. simpl. constructor; [|auto].
    intro Hin. apply In_keys_del in Hin. contradiction.
  Qed.
  Lemma NoDupKeys_put k v d : NoDupKeys d -> NoDupKeys (put k v d).
  Proof.
    unfold NoDupKeys. induction d as [|[k2 v2] d IH]; simpl; intro H; [repeat constructor; simpl; tauto|].
    inversion H; subst. destruct (key_eqb k k2) eqn:E; simpl; [constructor; assumption|].
    constructor; [|auto]. intro Hin. apply In_keys_put in Hin. destruct Hin as [->|Hin]; [|contradiction].
    rewrite key_eqb_refl in E. discriminate.
  Qed.
  Lemma get_del_same k d : NoDupKeys d -> get k (del k d) = None.
  Proof.
    unfold NoDupKeys. induction d as [|[k2 v2] d IH]; simpl; intro H; [reflexivity|].
    inversion H; subst. destruct (key_eqb k k2) eqn:E; simpl.
    - apply key_eqb_spec in E; subst k2. apply notin_get_None. assumption.
    - rewrite E. auto.
  Qed.
  Lemma Forall_del (P : key * V -> Prop) k d : Forall P d -> Forall P (del k d).
  Proof.
    induction 1 as [|[k2 v2] d Hx Hd IH]; simpl; [constructor|].
    destruct (key_eqb k k2); [assumption | constructor; assumption].
  Qed.
  Lemma Forall_put (P : key * V -> Prop) k v d :
    (forall k', k' = k -> P (k', v)) -> Forall P d -> Forall P (put k v d).
  Proof.
    intros Hv. induction 1 as [|[k2 v2] d Hx Hd IH]; simpl; [repeat constructor; auto|].
    destruct (key_eqb k k2) eqn:E; constructor; auto.
    apply key_eqb_spec in E. apply Hv. congruence.
  Qed.
End Dict.

(* ================= _StreamToTestRecord refines the segment specification ================= *)
Section Refine.
  Variable M : Type.
  Variable CT : Type.
  Variable parse : option M -> CT.
  Notation event := (event M).
  Notation rcd := (rcd CT).
  Notation segment := (segment M).

  Definition seg_or_nil (o : option (list event)) : list event := match o with Some s => s | None => [] end.

  (* the refinement relation: the in-progress table is the image of the open segments *)
  Definition absf (ks : key * list event) : key * rcd := (fst ks, model_record parse (fst (fst ks)) (snd ks)).
  Definition wf_open (open : list (key * list event)) := Forall (fun ks => snd ks <> []) open.

  Lemma get_absf k open :
    get k (map absf open) = option_map (model_record parse (fst k)) (get k open).
  Proof.
    induction open as [|[k' s] r IH]; simpl; [reflexivity|].
    destruct (key_eqb k k') eqn:E; [|exact IH]. apply key_eqb_spec in E. subst. reflexivity.
  Qed.
  Lemma put_absf k s open : put k (model_record parse (fst k) s) (map absf open) = map absf (put k s open).
  Proof.
    induction open as [|[k' s'] r IH]; simpl; [reflexivity|].
    destruct (key_eqb k k') eqn:E; simpl.
    - apply key_eqb_spec in E. subst. reflexivity.
    - rewrite IH. reflexivity.
  Qed.
  Lemma del_absf k open : del k (map absf open) = map absf (del k open).
  Proof.
    induction open as [|[k' s'] r IH]; simpl; [reflexivity|].
    destruct (key_eqb k k'); simpl; [reflexivity|]. rewrite IH. reflexivity.
  Qed.
  Lemma model_record_snoc i seg e : seg <> [] ->
    model_record parse i (seg ++ [e]) = upd parse (model_record parse i seg) e.
  Proof.
    intros H. unfold model_record. rewrite fold_left_app. simpl. destruct seg; [contradiction|reflexivity].
  Qed.
  Lemma get_wf k open s : wf_open open -> get k open = Some s -> s <> [].
  Proof.
    intros W G. apply get_Some_In in G. unfold wf_open in W. rewrite Forall_forall in W. exact (W _ G).
  Qed.

  Theorem refines_gen : forall evs open, wf_open open ->
    consume_from parse true (map absf open) evs = map (record_of parse) (segments open evs).
  Proof.
    induction evs as [|e r IH]; intros open W; cbn [consume_from segments].
    - unfold flush. rewrite <- map_rev, !map_map. apply map_ext. intros [k s]. unfold record_of. simpl.
      rewrite model_record_spec. reflexivity.
    - unfold step. destruct (e_id e) as [i|]; [|apply IH; assumption].
      rewrite final_table, get_absf. cbn [fst].
      destruct (get (i, e_route e) open) as [s|] eqn:G; cbn [option_map seg_or_nil].
      + pose proof (get_wf _ _ _ W G) as Hs.
        rewrite <- (model_record_snoc i s e Hs).
        destruct (is_final (e_status e)); cbn [fst snd app].
        * cbn [map]. rewrite del_absf, IH by (apply Forall_del; assumption).
          unfold record_of at 1. cbn [g_key g_hung g_events fst]. rewrite model_record_spec. reflexivity.
        * change (model_record parse i (s ++ [e])) with (model_record parse (fst (i, e_route e)) (s ++ [e])).
          rewrite put_absf. apply IH. apply Forall_put; [|assumption]. intros k' _. simpl. destruct s; discriminate.
      + change ([] ++ [e]) with [e].
        change (upd parse (create i (e_ts e)) e) with (model_record parse i [e]).
        destruct (is_final (e_status e)); cbn [fst snd app].
        * cbn [map]. rewrite del_absf, IH by (apply Forall_del; assumption).
          unfold record_of at 1. cbn [g_key g_hung g_events fst]. rewrite model_record_spec. reflexivity.
        * change (model_record parse i [e]) with (model_record parse (fst (i, e_route e)) [e]).
          rewrite put_absf. apply IH. apply Forall_put; [|assumption]. intros k' _. simpl. discriminate.
  Qed.

  (* C10_refines: the callbacks are exactly the tests of the specification, in order *)
  Theorem consume_refines evs : consume parse evs = tests parse evs.
  Proof. apply (refines_gen evs []). constructor. Qed.

  (* ---------- events without a test id change nothing ---------- *)
  Definition has_id (e : event) : bool := match e_id e with Some _ => true | None => false end.

  Lemma segments_ignore_none evs : forall open, segments open evs = segments open (filter has_id evs).
  Proof.
    induction evs as [|e r IH]; intro open; [reflexivity|]. unfold has_id at 1. cbn [segments filter].
    destruct (e_id e) as [i|] eqn:Ei; [|apply IH]. cbn [segments]. rewrite Ei.
    destruct (is_final (e_status e)); rewrite IH; reflexivity.
  Qed.
  Theorem consume_ignores_none evs : consume parse evs = consume parse (filter has_id evs).
  Proof. rewrite !consume_refines. unfold tests. rewrite segments_ignore_none. reflexivity. Qed.

  (* ---------- every id-carrying event belongs to exactly one reported test ---------- *)
  Definition has_key (k : key) (e : event) : bool :=
    match e_id e with Some i => key_eqb k (i, e_route e) | None => false end.
  Definition of_key (k : key) (g : segment) : bool := key_eqb k (g_key g).
  Definition mkhung (ks : key * list event) : segment := Seg (fst ks) true (snd ks).

  Lemma hung_of_absent k l : ~ In k (map fst l) -> List.concat (map g_events (filter (of_key k) (map mkhung l))) = [].
  Proof.
    induction l as [|[k' s'] l IH]; simpl; intro H; [reflexivity|].
    unfold of_key at 1. simpl. destruct (key_eqb k k') eqn:E; [apply key_eqb_spec in E; subst; tauto|].
    apply IH. tauto.
  Qed.
  Lemma hung_of_present k s l : NoDupKeys l -> In (k, s) l ->
    List.concat (map g_events (filter (of_key k) (map mkhung l))) = s.
  Proof.
    unfold NoDupKeys. induction l as [|[k' s'] l IH]; simpl; intros ND H; [contradiction|].
    inversion ND; subst. unfold of_key at 1. simpl. destruct H as [H|H].
    - inversion H; subst. rewrite key_eqb_refl. simpl. rewrite hung_of_absent by assumption. apply app_nil_r.
    - destruct (key_eqb k k') eqn:E.
      + apply key_eqb_spec in E; subst k'. exfalso. apply H2. apply (in_map fst) in H. exact H.
      + apply IH; assumption.
  Qed.

  Theorem partition_gen : forall evs open, NoDupKeys open -> forall k,
    List.concat (map g_events (filter (of_key k) (segments open evs)))
    = seg_or_nil (get k open) ++ filter (has_key k) evs.
  Proof.
    induction evs as [|e r IH]; intros open ND k; cbn [segments filter].
    - rewrite app_nil_r. fold mkhung.
      assert (NDr : NoDupKeys (rev open)) by (unfold NoDupKeys; rewrite map_rev; apply NoDup_rev; exact ND).
      destruct (get k open) as [s|] eqn:G; simpl.
      + apply hung_of_present; [exact NDr|]. apply in_rev. rewrite rev_involutive. apply get_Some_In; exact G.
      + apply hung_of_absent. rewrite map_rev. intro H. apply in_rev in H. exact (get_None_notin _ _ G H).
    - unfold has_key at 1. destruct (e_id e) as [i|]; [|apply IH; exact ND].
      set (k' := (i, e_route e)).
      destruct (is_final (e_status e)).
      + cbn [filter]. unfold of_key at 1. cbn [g_key].
        destruct (key_eqb k k') eqn:E.
        * apply key_eqb_spec in E. subst k. cbn [map List.concat g_events].
          rewrite IH by (apply NoDupKeys_del; exact ND). rewrite get_del_same by exact ND.
          simpl. unfold seg_or_nil. rewrite <- app_assoc. reflexivity.
        * rewrite IH by (apply NoDupKeys_del; exact ND).
          rewrite get_del_other; [reflexivity|]. intro; subst. rewrite key_eqb_refl in E; discriminate.
      + rewrite IH by (apply NoDupKeys_put; exact ND).
        destruct (key_eqb k k') eqn:E.
        * apply key_eqb_spec in E. subst k. rewrite get_put_same. simpl. unfold seg_or_nil.
          rewrite <- app_assoc. reflexivity.
        * rewrite get_put_other; [reflexivity|]. intro; subst. rewrite key_eqb_refl in E; discriminate.
  Qed.

  (* the segments of the tests of key k, concatenated in report order, are the events of key k in stream order *)
  Theorem partition evs k :
    List.concat (map g_events (filter (of_key k) (segments [] evs))) = filter (has_key k) evs.
  Proof. apply (partition_gen evs [] (NoDup_nil _) k). Qed.

  (* ---------- the shape of the segments ---------- *)
  Definition interim (e : event) : Prop := is_final (e_status e) = false.
  Definition keyed (k : key) (e : event) : Prop := exists i, e_id e = Some i /\ (i, e_route e) = k.
  (* a reported test: at least one event, all of its key; either it ends with its only final
     status (reported then), or it has none (reported at stopTestRun) *)
  Definition seg_ok (g : segment) : Prop :=
    g_events g <> []
    /\ Forall (keyed (g_key g)) (g_events g)
    /\ (if g_hung g then Forall interim (g_events g)
        else exists init e, g_events g = init ++ [e] /\ is_final (e_status e) = true /\ Forall interim init).
  Definition open_ok (open : list (key * list event)) : Prop :=
    Forall (fun ks => snd ks <> [] /\ Forall (keyed (fst ks)) (snd ks) /\ Forall interim (snd ks)) open.

  Lemma get_open_ok k open : open_ok open ->
    Forall (keyed k) (seg_or_nil (get k open)) /\ Forall interim (seg_or_nil (get k open)).
  Proof.
    intro W. destruct (get k open) as [s|] eqn:G; simpl; [|split; constructor].
    apply get_Some_In in G. unfold open_ok in W. rewrite Forall_forall in W. destruct (W _ G) as [_ [H1 H2]].
    split; assumption.
  Qed.

  Theorem segments_shape : forall evs open, open_ok open -> Forall seg_ok (segments open evs).
  Proof.
    induction evs as [|e r IH]; intros open W; cbn [segments].
    - apply Forall_forall. intros g Hg. apply in_map_iff in Hg. destruct Hg as [[k s] [<- Hin]].
      apply in_rev in Hin. unfold open_ok in W. rewrite Forall_forall in W. destruct (W _ Hin) as [H0 [H1 H2]].
      repeat split; assumption.
    - destruct (e_id e) as [i|] eqn:Ei; [|apply IH; exact W].
      set (k := (i, e_route e)).
      destruct (get_open_ok k open W) as [Hk Hi]. fold (seg_or_nil (get k open)).
      assert (Hke : keyed k e) by (exists i; split; [exact Ei | reflexivity]).
      destruct (is_final (e_status e)) eqn:Ef.
      + constructor; [|apply IH; apply Forall_del; exact W].
        repeat split; cbn [g_events g_key g_hung].
        * destruct (seg_or_nil (get k open)); discriminate.
        * apply Forall_app; split; [exact Hk | constructor; [exact Hke | constructor]].
        * exists (seg_or_nil (get k open)), e. repeat split; assumption.
      + apply IH. apply Forall_put; [|exact W]. intros k' ->. cbn [fst snd]. repeat split.
        * destruct (seg_or_nil (get k open)); discriminate.
        * apply Forall_app; split; [exact Hk | constructor; [exact Hke | constructor]].
        * apply Forall_app; split; [exact Hi | constructor; [exact Ef | constructor]].
  Qed.

  (* one test reported per final-status event, in the order of those events *)
  Lemma completed_count : forall evs open,
    List.length (filter (fun g => negb (g_hung g)) (segments open evs))
    = List.length (filter (fun e => has_id e && is_final (e_status e)) evs).
  Proof.
    induction evs as [|e r IH]; intro open; cbn [segments filter].
    - induction (rev open) as [|x l IHl]; [reflexivity | exact IHl].
    - unfold has_id at 1. destruct (e_id e) as [i|]; [|apply IH]. cbn [andb].
      destruct (is_final (e_status e)); cbn [filter g_hung negb List.length]; rewrite IH; reflexivity.
  Qed.

  (* every event of every reported test comes from the stream (or from what was already open) *)
  Lemma segments_events (P : event -> Prop) : forall evs open,
    Forall P evs -> Forall (fun ks => Forall P (snd ks)) open ->
    Forall (fun g => Forall P (g_events g)) (segments open evs).
  Proof.
    induction evs as [|e r IH]; intros open He Ho; cbn [segments].
    - apply Forall_forall. intros g Hg. apply in_map_iff in Hg. destruct Hg as [[k s] [<- Hin]].
      apply in_rev in Hin. rewrite Forall_forall in Ho. exact (Ho _ Hin).
    - inversion He as [|? ? Pe Pr]; subst.
      destruct (e_id e) as [i|]; [|apply IH; assumption].
      assert (Hs : Forall P ((match get (i, e_route e) open with Some s => s | None => [] end) ++ [e])).
      { apply Forall_app; split; [|constructor; [exact Pe|constructor]].
        destruct (get (i, e_route e) open) as [s|] eqn:G; [|constructor].
        apply get_Some_In in G. rewrite Forall_forall in Ho. exact (Ho _ G). }
      destruct (is_final (e_status e)).
      + constructor; [exact Hs|]. apply IH; [assumption | apply Forall_del; assumption].
      + apply IH; [assumption|]. apply Forall_put; [|assumption]. intros k' _. exact Hs.
  Qed.

  (* ---------- reported on the way / reported by stopTestRun ---------- *)
  Lemma filter_hung_mk (l : list (key * list event)) :
    filter (@g_hung M) (map mkhung l) = map mkhung l /\ filter (@completed M) (map mkhung l) = [].
  Proof.
    induction l as [|x l [IH1 IH2]]; [split; reflexivity|]. simpl. rewrite IH1. split; [reflexivity | exact IH2].
  Qed.

  (* all tests that never got a final status come after all that did *)
  Theorem segments_split : forall evs open,
    segments open evs = filter (@completed M) (segments open evs) ++ filter (@g_hung M) (segments open evs).
  Proof.
    induction evs as [|e r IH]; intro open; cbn [segments].
    - fold mkhung. destruct (filter_hung_mk (rev open)) as [-> ->]. reflexivity.
    - destruct (e_id e) as [i|]; [|apply IH].
      destruct (is_final (e_status e)); [|apply IH].
      cbn [filter completed g_hung negb app]. f_equal. apply IH.
  Qed.

  Lemma consume_false_length : forall evs tbl,
    List.length (consume_from parse false tbl evs)
    = List.length (filter (fun e => has_id e && is_final (e_status e)) evs).
  Proof.
    induction evs as [|e r IH]; intro tbl; cbn [consume_from filter]; [reflexivity|].
    rewrite app_length, IH. unfold step, has_id. destruct (e_id e); cbn [andb snd]; [|reflexivity].
    rewrite final_table. destruct (is_final (e_status e)); reflexivity.
  Qed.

  (* stopTestRun only adds the flush of what is still in progress *)
  Lemma consume_flush : forall evs tbl,
    consume_from parse true tbl evs = consume_from parse false tbl evs ++ flush (tbl_after parse tbl evs).
  Proof.
    induction evs as [|e r IH]; intro tbl; cbn [consume_from tbl_after fold_left]; [reflexivity|].
    rewrite IH, app_assoc. reflexivity.
  Qed.

  Theorem refines_parts : forall evs open, wf_open open ->
    consume_from parse false (map absf open) evs = map (record_of parse) (filter (@completed M) (segments open evs))
    /\ flush (tbl_after parse (map absf open) evs) = map (record_of parse) (filter (@g_hung M) (segments open evs)).
  Proof.
    intros evs open W. apply app_eq_length.
    - rewrite <- consume_flush, <- map_app, <- segments_split. apply refines_gen; exact W.
    - rewrite consume_false_length, map_length. symmetry. apply completed_count.
  Qed.

  (* the callbacks made by the status() calls are the completed tests, in the order of their final events;
     the callbacks made by stopTestRun are the tests that never completed *)
  Theorem consume_done evs : consume_from parse false [] evs = done_tests parse evs.
  Proof. apply (refines_parts evs []). constructor. Qed.
  Theorem flush_hung evs : flush (tbl_after parse [] evs) = hung_tests parse evs.
  Proof. apply (refines_parts evs []). constructor. Qed.
  Theorem tests_split evs : tests parse evs = done_tests parse evs ++ hung_tests parse evs.
  Proof. unfold tests, done_tests, hung_tests. rewrite <- map_app, <- segments_split. reflexivity. Qed.

  (* ---------- StreamSummary ---------- *)
  Definition nonexists (r : rcd) : bool := negb (status_eqb (r_status r) Exists).
  Definition rids_with (p : status -> bool) (ts : list rcd) : list nat := map r_id (filter (fun r => p (r_status r)) ts).

  Lemma fold_gather rs : forall s, s_keyerror s = false ->
    fold_left gather rs s =
    Summary (s_run s + List.length (filter nonexists rs)) (s_failures s)
            (s_errors s ++ rids_with failing rs) (s_skipped s ++ rids_with (status_eqb Skip) rs)
            (s_xfail s ++ rids_with (status_eqb Xfail) rs) (s_uxsuccess s ++ rids_with (status_eqb Uxsuccess) rs) false.
  Proof.
    induction rs as [|r rs IH]; intros s Hk.
    - destruct s; simpl in *; subst. rewrite Nat.add_0_r, !app_nil_r. reflexivity.
    - cbn [fold_left]. unfold rids_with, nonexists. cbn [filter].
      unfold gather at 2. rewrite bucket_table.
      destruct (r_status r) eqn:Es; cbn [status_eqb negb spec_bucket failing push map List.length];
        rewrite IH by (cbn; exact Hk); cbn [s_run s_failures s_errors s_skipped s_xfail s_uxsuccess s_keyerror];
        unfold rids_with, nonexists; rewrite <- ?app_assoc; cbn [app];
        rewrite ?Nat.add_succ_r; reflexivity.
  Qed.

  Lemma rids_nonempty p ts : existsb (fun r => p (r_status r)) ts = true -> rids_with p ts <> [].
  Proof.
    induction ts as [|r ts IH]; simpl; [discriminate|]. unfold rids_with. simpl.
    destruct (p (r_status r)); simpl; [discriminate | exact IH].
  Qed.

  (* ---------- StreamToExtendedDecorator ---------- *)
  Lemma strip_app (a b : list (logev CT)) : strip (a ++ b) = strip a ++ strip b.
  Proof. apply filter_app. Qed.

  Lemma strip_replay (r : rcd) : r_status r <> Exists -> strip (replay r) = bracket r.
  Proof.
    intro H. unfold replay, bracket. rewrite outcome_table.
    destruct (r_status r); try contradiction; cbn [spec_outcome];
      destruct (r_first r), (r_last r); reflexivity.
  Qed.
  Lemma strip_replays (rs : list rcd) : Forall (fun r => r_status r <> Exists) rs ->
    strip (flat_map (@replay CT) rs) = flat_map (@bracket CT) rs.
  Proof.
    induction 1 as [|r rs Hr _ IH]; [reflexivity|]. cbn [flat_map]. rewrite strip_app, IH, strip_replay by exact Hr.
    reflexivity.
  Qed.

  Lemma last_status_not_exists seg : Forall (fun e : event => not_exists e = true) seg ->
    forall d, d <> Exists -> last (somes e_status seg) d <> Exists.
  Proof.
    induction 1 as [|e seg He _ IH]; intros d Hd; [exact Hd|].
    unfold somes. cbn [flat_map]. rewrite last_app_opt. apply IH.
    unfold not_exists in He. destruct (e_status e) as [[]|]; try discriminate; assumption.
  Qed.

  Lemma tests_not_exists evs : Forall (fun r => r_status r <> Exists) (tests parse (filter not_exists evs)).
  Proof.
    unfold tests. apply Forall_forall. intros r Hr. apply in_map_iff in Hr. destruct Hr as [g [<- Hg]].
    assert (H : Forall (fun g : segment => Forall (fun e => not_exists e = true) (g_events g))
                       (segments [] (filter not_exists evs))).
    { apply segments_events; [|constructor]. apply Forall_forall. intros e He. apply filter_In in He. tauto. }
    rewrite Forall_forall in H. specialize (H _ Hg).
    unfold record_of, seg_record. cbn [r_status]. apply last_status_not_exists; [exact H | discriminate].
  Qed.

  Lemma done_hung_not_exists evs :
    Forall (fun r : rcd => r_status r <> Exists) (done_tests parse (filter not_exists evs))
    /\ Forall (fun r : rcd => r_status r <> Exists) (hung_tests parse (filter not_exists evs)).
  Proof. apply Forall_app. rewrite <- tests_split. apply tests_not_exists. Qed.

  (* ---------- per-test blocks of the extended log ---------- *)
  Notation nostop := (forallb (fun x : logev CT => negb (is_stoptest x))).

  Lemma blocks_concat (log : list (logev CT)) : forall cur bs rest,
    blocks cur log = (bs, rest) -> cur ++ log = List.concat bs ++ rest.
  Proof.
    induction log as [|x r IH]; intros cur bs rest H; cbn [blocks] in H.
    - inversion H; subst. cbn [List.concat app]. apply app_nil_r.
    - destruct (is_stoptest x).
      + destruct (blocks [] r) as [bs' rest'] eqn:B. inversion H; subst.
        specialize (IH [] _ _ B). cbn [app] in IH. cbn [List.concat]. rewrite <- !app_assoc, <- IH. reflexivity.
      + specialize (IH _ _ _ H). rewrite <- app_assoc in IH. exact IH.
  Qed.

  Lemma blocks_nostop (pre : list (logev CT)) : nostop pre = true -> forall cur log, blocks cur (pre ++ log) = blocks (cur ++ pre) log.
  Proof.
    induction pre as [|x pre IH]; intros H cur log; [rewrite app_nil_r; reflexivity|].
    cbn [forallb] in H. apply andb_true_iff in H. destruct H as [Hx Hp].
    cbn [app blocks]. apply negb_true_iff in Hx. rewrite Hx, (IH Hp), <- app_assoc. reflexivity.
  Qed.

  Lemma bracket_shape (r : rcd) : r_status r <> Exists ->
    exists pre, bracket r = pre ++ [LStopTest (r_id r)] /\ nostop pre = true.
  Proof.
    intro H. unfold bracket. destruct (spec_outcome (r_status r)) as [o|] eqn:E.
    - exists (opt_time (r_first r) ++ [LStartTest (r_id r)] ++ opt_time (r_last r)
              ++ [LOutcome o (r_id r) (r_tags r) (r_details r)]).
      split; destruct (r_first r), (r_last r); reflexivity.
    - destruct (r_status r); try discriminate. contradiction.
  Qed.

  Theorem blocks_brackets (rs : list rcd) tail : Forall (fun r => r_status r <> Exists) rs -> nostop tail = true ->
    blocks [] (flat_map (@bracket CT) rs ++ tail) = (map (@bracket CT) rs, tail).
  Proof.
    intros F T. induction F as [|r rs Hr _ IH]; cbn [flat_map map app].
    - rewrite <- (app_nil_r tail) at 1. rewrite (blocks_nostop tail T). reflexivity.
    - destruct (bracket_shape r Hr) as [pre [E P]]. rewrite E, <- !app_assoc, (blocks_nostop pre P).
      cbn [app blocks is_stoptest]. rewrite IH. reflexivity.
  Qed.

  Theorem s2e_refines evs : strip (s2e_log parse evs) = ext_expected parse evs.
  Proof.
    unfold s2e_log, ext_expected. rewrite !strip_app, consume_refines.
    rewrite strip_replays by apply tests_not_exists. reflexivity.
  Qed.
End Refine.

(* ================= the main theorems for C10's instance ================= *)
Lemma ids_with_app p (a b : list rec) : ids_with p (a ++ b) = ids_with p a ++ ids_with p b.
Proof. unfold ids_with. rewrite filter_app, map_app. reflexivity. Qed.
Lemma ids_with_none (l : list rec) : ids_with no_st l = [].
Proof. induction l as [|r l IH]; [reflexivity | exact IH]. Qed.

(* ---- executable statement <-> readable statement ---- *)
Lemma bucket_okb_spec dn hg p pre fin : bucket_okb dn hg p pre fin = true <-> Bucket_spec dn hg p pre fin.
Proof.
  unfold bucket_okb, Bucket_spec, ids_eqb.
  rewrite !andb_true_iff, !nats_eqb_spec, (perm_eqb_spec Nat.eqb Nat.eqb_eq). split.
  - intros [[H1 H2] H3]. split; [exact H1|]. exists (skipn (List.length pre) fin). split; [|exact H3].
    rewrite <- H2 at 1. symmetry. apply firstn_skipn.
  - intros [H1 [added [-> H3]]]. rewrite firstn_length_app, skipn_length_app. tauto.
Qed.

Lemma summary_okb_spec dn hg pre fin ok : summary_okb dn hg pre fin ok = true <-> Summary_spec dn hg pre fin ok.
Proof.
  unfold summary_okb, Summary_spec.
  rewrite !andb_true_iff, orb_true_iff, !andb_true_iff, !Nat.eqb_eq, !bucket_okb_spec.
  assert (W : (if existsb (fun r => failing (r_status r)) (dn ++ hg) then negb ok else true) = true
              <-> ((exists r, In r (dn ++ hg) /\ failing (r_status r) = true) -> ok = false)).
  { destruct (existsb (fun r => failing (r_status r)) (dn ++ hg)) eqn:X.
    - apply existsb_exists in X. rewrite negb_true_iff. tauto.
    - split; [|reflexivity]. intros _ [r [Hin Hf]].
      assert (Y : existsb (fun r => failing (r_status r)) (dn ++ hg) = true) by (apply existsb_exists; eauto).
      congruence. }
  rewrite W. tauto.
Qed.

Lemma extflush_okb_spec hg log : Forall (fun r : rec => r_status r <> Exists) hg ->
  extflush_okb hg log = true
  <-> exists hs, Permutation hs hg /\ log = flat_map bracket hs ++ [LStopRun].
Proof.
  intro NE. unfold extflush_okb. split.
  - destruct (blocks [] log) as [bs rest] eqn:B. rewrite andb_true_iff, levs_eqb_spec,
      (perm_eqb_spec (list_eqb lev_eqb) levs_eqb_spec). intros [P ->].
    apply Permutation_map_inv in P. destruct P as [hs [-> P]].
    exists hs. split; [apply Permutation_sym; exact P|].
    apply blocks_concat in B. cbn [app] in B. rewrite B, flat_map_concat_map. reflexivity.
  - intros [hs [P ->]].
    rewrite blocks_brackets; [| | reflexivity].
    + rewrite andb_true_iff, levs_eqb_spec, (perm_eqb_spec (list_eqb lev_eqb) levs_eqb_spec).
      split; [apply Permutation_map; exact P | reflexivity].
    + eapply Permutation_Forall; [apply Permutation_sym; exact P | exact NE].
Qed.

Theorem spec_okb_spec : forall i o, spec_okb i o = true <-> Spec i o.
Proof.
  intros i o. unfold spec_okb, Spec. cbv zeta.
  rewrite !andb_true_iff, recs_eqb_spec, levs_eqb_spec, (perm_eqb_spec rec_eqb rec_eqb_spec), summary_okb_spec,
    (extflush_okb_spec _ _ (proj2 (done_hung_not_exists nat nat parse10 (evs i)))).
  tauto.
Qed.

Theorem spec_okb_sound : forall i o, spec_okb i o = true -> Spec i o.
Proof. intros i o. apply spec_okb_spec. Qed.

(* ---- the model meets the statement ---- *)
Lemma model_summary (es : list ev) :
  Summary_spec (done_tests parse10 es) (hung_tests parse10 es)
    (sum_lists (fold_left gather (consume_from parse10 false [] es) summary0))
    (sum_lists (summarize parse10 es)) (was_successful (summarize parse10 es)).
Proof.
  unfold summarize. rewrite consume_refines, consume_done, tests_split.
  set (dn := done_tests parse10 es). set (hg := hung_tests parse10 es).
  rewrite !fold_gather by reflexivity.
  unfold Summary_spec, Bucket_spec, sum_lists, was_successful.
  cbn [sl_run sl_failures sl_errors sl_skipped sl_xfail sl_uxs s_run s_failures s_errors s_skipped s_xfail
       s_uxsuccess summary0 app Nat.add].
  change (rids_with nat ?p ?t) with (ids_with p t). unfold is_st.
  change (nonexists nat) with counted.
  rewrite !ids_with_app, !ids_with_none, filter_app, app_length.
  assert (B : forall p, ids_with p dn = ids_with p dn
                        /\ exists added, ids_with p dn ++ ids_with p hg = ids_with p dn ++ added
                                          /\ Permutation added (ids_with p hg)).
  { intro p. split; [reflexivity|]. eexists; split; [reflexivity | apply Permutation_refl]. }
  split; [reflexivity|]. split; [reflexivity|]. split; [apply B|]. split; [apply B|]. split; [apply B|]. split.
  - left. split; [apply B|]. split; [reflexivity|]. exists []. split; [reflexivity | apply Permutation_refl].
  - intros [r [Hin Hf]].
    assert (E : existsb (fun r => failing (r_status r)) (dn ++ hg) = true) by (apply existsb_exists; eauto).
    apply rids_nonempty in E. change (rids_with nat failing ?t) with (ids_with failing t) in E.
    rewrite ids_with_app in E.
    destruct (ids_with failing dn ++ ids_with failing hg); [contradiction | reflexivity].
Qed.

Theorem model_Spec : forall i, Spec i (model i).
Proof.
  intro i. unfold Spec, model. cbv zeta. cbn [o_dicts o_flush o_pre o_sum o_ok o_ext o_extflush].
  destruct (done_hung_not_exists nat nat parse10 (evs i)) as [ND NH].
  split; [apply consume_done|]. split; [rewrite flush_hung; apply Permutation_refl|].
  split; [apply model_summary|]. split.
  - rewrite consume_done, strip_app, strip_replays by exact ND. reflexivity.
  - exists (hung_tests parse10 (filter not_exists (evs i))). split; [apply Permutation_refl|].
    rewrite flush_hung, strip_app, strip_replays by exact NH. reflexivity.
Qed.

Theorem model_meets_spec : forall i, spec_okb i (model i) = true.
Proof. intro i. apply spec_okb_spec. apply model_Spec. Qed.

(* ---- the statement does not distinguish observations that obs_eqb identifies ---- *)
Lemma bucket_spec_equiv dn hg p pre fa fb :
  tail_perm (List.length pre) fa fb -> Bucket_spec dn hg p pre fa -> Bucket_spec dn hg p pre fb.
Proof.
  intros [T1 T2] [H1 [added [-> H3]]]. split; [exact H1|].
  rewrite firstn_length_app in T1. rewrite skipn_length_app in T2.
  exists (skipn (List.length pre) fb). split.
  - rewrite T1 at 1. symmetry. apply firstn_skipn.
  - eapply perm_trans; [apply Permutation_sym; exact T2 | exact H3].
Qed.

Theorem Spec_respects_equiv : forall i a b, obs_equiv a b -> Spec i a -> Spec i b.
Proof.
  intros i a b (H1 & H2 & H3 & (R & F & Er & Sk & X & U) & H5 & H6 & H7 & H8).
  unfold Spec. cbv zeta. intros (S1 & S2 & S3 & S4 & hs & P & S5).
  destruct (done_hung_not_exists nat nat parse10 (evs i)) as [_ NH].
  split; [congruence|].
  split; [eapply perm_trans; [apply Permutation_sym; exact H2 | exact S2]|].
  split; [|split; [congruence|]].
  - rewrite <- H3, <- H5. unfold Summary_spec in *.
    destruct S3 as (A1 & A2 & A3 & A4 & A5 & A6 & A7).
    split; [exact A1|]. split; [congruence|].
    split; [eapply bucket_spec_equiv; eassumption|].
    split; [eapply bucket_spec_equiv; eassumption|].
    split; [eapply bucket_spec_equiv; eassumption|].
    split; [|exact A7].
    destruct A6 as [[B1 B2]|[B1 B2]]; [left | right]; split; eapply bucket_spec_equiv; eassumption.
  - unfold ext_blocks in H7, H8. rewrite S5 in H7, H8.
    assert (NE : Forall (fun r : rec => r_status r <> Exists) hs)
      by (eapply Permutation_Forall; [apply Permutation_sym; exact P | exact NH]).
    rewrite (blocks_brackets nat hs [LStopRun] NE eq_refl) in H7, H8. cbn [fst snd] in H7, H8.
    destruct (blocks [] (strip (o_extflush b))) as [bs rest] eqn:B. cbn [fst snd] in H7, H8. subst rest.
    apply Permutation_sym, Permutation_map_inv in H7. destruct H7 as [hs' [-> P']].
    exists hs'. split; [eapply perm_trans; [apply Permutation_sym; exact P' | exact P]|].
    apply blocks_concat in B. cbn [app] in B. rewrite B, flat_map_concat_map. reflexivity.
Qed.

Theorem spec_okb_respects_eqb : forall i a b, obs_eqb a b = true -> spec_okb i a = spec_okb i b.
Proof.
  intros i a b H. apply obs_eqb_spec in H. apply eq_true_iff_eq. rewrite !spec_okb_spec.
  split; apply Spec_respects_equiv; [exact H | apply obs_equiv_sym; exact H].
Qed.

(* ================= reports are made on the way ================= *)
Section Online.
  Variable M : Type.
  Variable CT : Type.
  Variable parse : option M -> CT.
  (* what has been handed to on_test when a prefix has been consumed does not depend on what follows, and
     stopTestRun only adds the flush of what is still in progress *)
  Theorem consume_online : forall (a b : list (event M)) tbl stop,
    consume_from parse stop tbl (a ++ b)
    = consume_from parse false tbl a ++ consume_from parse stop (tbl_after parse tbl a) b.
  Proof.
    induction a as [|e a IH]; intros b tbl stop; [reflexivity|].
    cbn [app consume_from tbl_after fold_left]. rewrite IH, app_assoc. reflexivity.
  Qed.
End Online.
Arguments has_id {M}. Arguments has_key {M}. Arguments of_key {M}. Arguments seg_ok {M}.

(* ================= statements in the form Props/C10.v gives them ================= *)
Theorem record_fields : forall M CT (parse : option M -> CT) i (seg : list (event M)),
  let r := fold_left (upd parse) seg (create i (match seg with e :: _ => e_ts e | [] => None end)) in
  r_id r = i
  /\ r_status r = last (somes e_status seg) Unknown
  /\ r_tags r = last (somes e_tags seg) []
  /\ r_first r = match seg with e :: _ => e_ts e | [] => None end
  /\ r_last r = last (map e_ts seg) None
  /\ r_details r = map (file_of parse (chunks seg)) (firsts [] (map (fun c => fst (fst c)) (chunks seg)))
  /\ hung r = seg_record parse i true seg.
Proof.
  intros M CT parse i seg r. subst r. fold (model_record parse i seg). rewrite model_record_spec.
  repeat split.
Qed.

Theorem summary_fields : forall M CT (parse : option M -> CT) (es : list (event M)),
  let s := summarize parse es in
  let ts := tests parse es in
  let ids p := map r_id (filter (fun r => p (r_status r)) ts) in
  s_run s = List.length (filter (fun r => negb (status_eqb (r_status r) Exists)) ts)
  /\ s_errors s = ids failing /\ s_failures s = []
  /\ s_skipped s = ids (status_eqb Skip) /\ s_xfail s = ids (status_eqb Xfail)
  /\ s_uxsuccess s = ids (status_eqb Uxsuccess)
  /\ s_keyerror s = false
  /\ ((exists r, In r ts /\ failing (r_status r) = true) -> was_successful s = false).
Proof.
  intros M CT parse es s ts ids. subst s. unfold summarize. rewrite consume_refines. fold ts.
  rewrite fold_gather by reflexivity. cbn. repeat split.
  intros [r [Hin Hf]]. unfold was_successful. cbn.
  assert (E : existsb (fun r => failing (r_status r)) ts = true) by (apply existsb_exists; eauto).
  apply rids_nonempty in E. destruct (rids_with CT failing ts); [contradiction | reflexivity].
Qed.

Theorem shape_and_count : forall M (es : list (event M)),
  Forall seg_ok (segments [] es)
  /\ List.length (filter (fun g => negb (g_hung g)) (segments [] es))
     = List.length (filter (fun e => has_id e && is_final (e_status e)) es).
Proof. exact (fun M es => conj (segments_shape M es [] (Forall_nil _)) (completed_count M es [])). Qed.

Theorem tables_ok :
  (forall st, final st = is_final st)
  /\ (forall st, outcome_of st = spec_outcome st)
  /\ (forall st, bucket_of st = Some (spec_bucket st))
  /\ forallb (fun s => existsb (String.eqb s) summary_keys) ("inprogress"%string :: final_states) = true
  /\ (forall s, In s final_states <-> exists st, st <> Inprogress /\ status_name st = s).
Proof. exact (conj final_table (conj outcome_table (conj bucket_table (conj handlers_cover_states states_are_the_eight)))). Qed.
