(* C10 - proofs (under construction) *)
From TT Require Import Lib.Base Lib.Bytestr Model.StreamRec Spec.C10 Corr.C10.
