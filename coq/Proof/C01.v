(* C01 - proofs: the run is bracketed, has exactly one outcome, and the first exception outside
   Exception is reported as the error and propagates. *)
From TT Require Import Lib.Base Gen.Handlers Model.Run Spec.Run Spec.C01 Corr.C01 Proof.RunCore.

(* ---------- decidable equalities ---------- *)

Lemma ev_eqb_spec a b : ev_eqb a b = true <-> a = b.
Proof.
  destruct a, b; simpl; split; intro H; try reflexivity; try discriminate.
  - apply outcome_eqb_spec in H; congruence.
  - injection H as ->. apply outcome_eqb_spec; reflexivity.
Qed.
Lemma rk_eqb_spec a b : rk_eqb a b = true <-> a = b.
Proof. destruct a, b; simpl; split; intro H; try reflexivity; discriminate. Qed.

Lemma obs_eqb_spec a b : obs_eqb a b = true <-> a = b.
Proof.
  destruct a as [e1 r1], b as [e2 r2]; unfold obs_eqb; simpl. rewrite andb_true_iff.
  rewrite (list_eqb_spec ev_eqb ev_eqb_spec), rk_eqb_spec. split; [intros [-> ->]; reflexivity | intros H; injection H; auto].
Qed.

(* with handlers inserted only for Exception-derived classes, a handler claims exactly the
   exceptions that derive from Exception *)
Lemma claims_iff p e :
  forallb (fun co => subclass (fst co) CException) (p_handlers p) = true ->
  claims (handlers p) e = isinstance e CException.
Proof.
  intros W. rewrite claims_handlers. unfold claimed, user_claim.
  destruct (find _ (p_handlers p)) as [co|] eqn:F; [|reflexivity].
  apply find_some in F. destruct F as [Hin Hi]. rewrite forallb_forall in W. symmetry.
  eapply subclass_trans; [exact Hi | exact (W co Hin)].
Qed.

(* ---------- the delivered events ---------- *)
Lemma events_of_calls f t : events_of f t = events_of f (calls t).
Proof.
  induction t as [|e r IH]; simpl; [reflexivity|]. destruct e; simpl; rewrite ?IH; reflexivity.
Qed.

(* ---------- the theorems ---------- *)
Theorem model_meets_spec i : wf i = true -> spec_okb i (model i) = true.
Proof.
  intros W. unfold wf in W. apply andb_true_iff in W as [_ Wh].
  unfold model, spec_okb. destruct (run_bracket (i_prog i) []) as (s & o & d & R & V & C & _ & _).
  rewrite R. cbn [o_events o_raised]. rewrite events_of_calls, C.
  assert (B : bracket (i_flavour i) (events_of (i_flavour i) [TStart; TOut o d; TStop])
              = Some (deliver (i_flavour i) o)).
  { unfold events_of, bracket. simpl. destruct (has_stop (i_flavour i)); reflexivity. }
  rewrite B.
  assert (Eq : forall e, negb (claims (handlers (i_prog i)) e) = negb (derives_from_Exception e)).
  { intros e. unfold derives_from_Exception. now rewrite (claims_iff _ e Wh). }
  rewrite <- (find_ext' _ _ (raised (i_prog i)) Eq). clear Eq.
  unfold verdict in *. destruct (skipped (i_prog i)) eqn:Sk.
  - (* skip-decorated: nothing is raised *)
    assert (raised (i_prog i) = []) as ->.
    { unfold raised, forced_failure, raised_by_user. rewrite Sk. reflexivity. }
    reflexivity.
  - rewrite <- collected_run_raised. unfold collected_run. rewrite Sk.
    destruct (find _ (collected (i_prog i) false)) as [e|] eqn:F.
    + rewrite (decide_unclaimed _ _ _ F) in *. cbn [fst snd] in *. rewrite table_last_resort in V.
      injection V as <-. rewrite (proj2 (outcome_eqb_spec _ _) eq_refl), (proj2 (rk_eqb_spec _ _) eq_refl). reflexivity.
    + destruct (collected (i_prog i) false) as [|x r] eqn:EX.
      * reflexivity.
      * destruct (decide_claimed (handlers (i_prog i)) (x :: r)) as (h & _ & D); [discriminate | exact F|].
        rewrite D. reflexivity.
Qed.

Lemma bracket_some f evs out :
  bracket f evs = Some out -> evs = if has_stop f then [Start; Out out; Stop] else [Start; Out out].
Proof.
  unfold bracket. destruct evs as [|[| |] [|[|o|] [|[| |] [|]]]]; try discriminate;
    destruct (has_stop f); try discriminate; intros H; injection H as ->; reflexivity.
Qed.

Theorem spec_okb_sound i o : spec_okb i o = true -> Spec i o.
Proof.
  unfold spec_okb, Spec. destruct (bracket (i_flavour i) (o_events o)) as [out|] eqn:B; [|discriminate].
  intros H. exists out. split; [exact (bracket_some _ _ _ B)|].
  destruct (find _ (raised (i_prog i))) as [e|] eqn:F.
  - apply andb_true_iff in H as [H1 H2]. apply outcome_eqb_spec in H1. apply rk_eqb_spec in H2. split.
    + intros All. apply find_some in F. destruct F as [Fin Fb]. rewrite (All e Fin) in Fb. discriminate.
    + intros e' He'. injection He' as <-. split; assumption.
  - apply rk_eqb_spec in H. split; [intros _; exact H | intros e' He'; discriminate].
Qed.

(* C01_base_reported: an exception outside Exception raised anywhere is reported as the error,
   every stage and cleanup still runs (the log is the full expected one), and the first such
   exception comes out of run() *)
Theorem base_reported p a0 e :
  forallb (fun co => subclass (fst co) CException) (p_handlers p) = true ->
  find (fun e => negb (derives_from_Exception e)) (raised p) = Some e ->
  exists s d, run p a0 = (s, Some e, false)
              /\ calls (tr s) = [TStart; TOut OErr d; TStop]
              /\ map shape (log s) = expected_log p
              /\ stack s = [].
Proof.
  intros Wh F. destruct (run_bracket p a0) as (s & o & d & R & V & C & L & K).
  assert (Eq : forall e, negb (derives_from_Exception e) = negb (claims (handlers p) e)).
  { intros x. unfold derives_from_Exception. now rewrite (claims_iff _ x Wh). }
  rewrite (find_ext' _ _ (raised p) Eq) in F. rewrite <- collected_run_raised in F.
  unfold verdict, collected_run in *. destruct (skipped p); [discriminate|].
  rewrite (decide_unclaimed _ _ _ F) in *. cbn [fst snd] in *. rewrite table_last_resort in V. injection V as <-.
  exists s, d. repeat split; assumption.
Qed.

(* C01_stop_before_raise: whatever propagates, stopTest has been delivered and is the last call *)
Theorem stop_delivered p a0 :
  let '(s, propagated, oof) := run p a0 in
  oof = false /\ last (calls (tr s)) TStart = TStop
  /\ length (filter (fun e => match e with TOut _ _ => true | _ => false end) (tr s)) = 1.
Proof.
  destruct (run_bracket p a0) as (s & o & d & R & V & C & L & K). rewrite R.
  split; [reflexivity|]. split; [rewrite C; reflexivity|].
  assert (H : forall t, filter (fun e => match e with TOut _ _ => true | _ => false end) t
                        = filter (fun e => match e with TOut _ _ => true | _ => false end) (calls t)).
  { induction t as [|x r IH]; simpl; [reflexivity|]. destruct x; simpl; rewrite IH; reflexivity. }
  rewrite H, C. reflexivity.
Qed.

(* without such an exception run() returns *)
Theorem returns_otherwise p a0 :
  forallb (fun co => subclass (fst co) CException) (p_handlers p) = true ->
  (forall e, In e (raised p) -> derives_from_Exception e = true) ->
  exists s, run p a0 = (s, None, false).
Proof.
  intros Wh All. destruct (run_bracket p a0) as (s & o & d & R & V & C & L & K).
  exists s. rewrite R. f_equal. f_equal.
  unfold verdict. destruct (skipped p) eqn:Sk; [reflexivity|].
  assert (F : find (fun e => negb (claims (handlers p) e)) (collected p false) = None).
  { destruct (find _ _) as [e|] eqn:F; [|reflexivity]. apply find_some in F. destruct F as [Fin Fb].
    rewrite (claims_iff _ e Wh) in Fb. pose proof (collected_run_raised p) as CR. unfold collected_run in CR.
    rewrite Sk in CR. rewrite CR in Fin. unfold derives_from_Exception in All. rewrite (All e Fin) in Fb. discriminate. }
  destruct (collected p false) as [|x r] eqn:EX; [reflexivity|].
  destruct (decide_claimed (handlers p) (x :: r)) as (h & _ & D); [discriminate | exact F|].
  rewrite D. reflexivity.
Qed.
