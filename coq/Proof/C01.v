(* C01 - proofs: the run is bracketed, has exactly one outcome, and the first exception outside
   Exception is reported as the error and propagates. *)
From TT Require Import Lib.Base Gen.Handlers Model.Run Spec.Run Spec.C01 Corr.C01 Proof.RunCore.

(* ---------- decidable equalities ---------- *)

Lemma ev_eqb_spec a b : ev_eqb a b = true <-> a = b.
Proof.
  destruct a, b; simpl; split; intro H; try reflexivity; try discriminate.
  - apply outcome_eqb_spec in H; congruence.
  - injection H as ->. apply outcome_eqb_spec; reflexivity.
Qed.
Lemma rk_eqb_spec a b : rk_eqb a b = true <-> a = b.
Proof. destruct a, b; simpl; split; intro H; try reflexivity; discriminate. Qed.

Lemma memb_in t l : memb t l = true <-> In t l.
Proof.
  unfold memb. rewrite existsb_exists. split.
  - intros (x & Hx & E). apply Nat.eqb_eq in E. now subst.
  - intros H. exists t. split; [exact H | apply Nat.eqb_refl].
Qed.
Lemma subset_incl a b : subset a b = true <-> (forall t, In t a -> In t b).
Proof.
  unfold subset. rewrite forallb_forall. split; intros H t Ht; [apply memb_in | apply memb_in]; auto.
Qed.

(* the comparison: events and what run() raised exactly; the bodies that ran as a set *)
Lemma obs_eqb_spec a b :
  obs_eqb a b = true <->
  o_events a = o_events b /\ o_raised a = o_raised b /\ (forall t, In t (o_ran a) <-> In t (o_ran b)).
Proof.
  unfold obs_eqb. rewrite !andb_true_iff, (list_eqb_spec ev_eqb ev_eqb_spec), rk_eqb_spec, !subset_incl. split.
  - intros [[[H1 H2] H3] H4]. repeat split; auto.
  - intros (H1 & H2 & H3). repeat split; auto; intros t; apply H3.
Qed.

Lemma bracket_some f evs out :
  bracket f evs = Some out -> evs = if has_stop f then [Start; Out out; Stop] else [Start; Out out].
Proof.
  unfold bracket. destruct evs as [|[| |] [|[|o|] [|[| |] [|]]]]; try discriminate;
    destruct (has_stop f); try discriminate; intros H; injection H as ->; reflexivity.
Qed.

Theorem spec_okb_sound i o : spec_okb i o = true -> Spec i o.
Proof.
  unfold spec_okb, Spec. destruct (bracket (i_flavour i) (o_events o)) as [out|] eqn:B; [|discriminate].
  intros H. exists out. split; [exact (bracket_some _ _ _ B)|].
  destruct (find _ (raised (i_prog i))) as [e|] eqn:F.
  - apply andb_true_iff in H as [H H3]. apply andb_true_iff in H as [H1 H2].
    apply outcome_eqb_spec in H1. apply rk_eqb_spec in H2. split.
    + intros All. apply find_some in F. destruct F as [Fin Fb]. rewrite (All e Fin) in Fb. discriminate.
    + intros e' He'. injection He' as <-. split; [assumption|]. split; [assumption|].
      intros t Ht. rewrite forallb_forall in H3. apply memb_in. exact (H3 t Ht).
  - apply rk_eqb_spec in H. split; [intros _; exact H | intros e' He'; discriminate].
Qed.

(* ------------------------------------------------------------------ *)
(* the model meets the statement                                        *)
(* ------------------------------------------------------------------ *)
From TT Require Import Proof.RunExtra Proof.RunTable Proof.RunVerdict.

Definition within_Exception (u : list (cls * outcome)) : bool := forallb (fun co => subclass (fst co) CException) u.
Definition handlers_within_Exception (p : prog) : bool := within_Exception (user_handlers p).

(* with handlers inserted only for Exception-derived classes, somebody is responsible for
   exactly the exceptions that derive from Exception *)
Lemma uclaimed_iff u e : within_Exception u = true -> uclaimed u e = isinstance e CException.
Proof.
  intros W. unfold uclaimed, uclaim.
  destruct (find _ u) as [co|] eqn:F; [|reflexivity].
  apply find_some in F. destruct F as [Hin Hi]. unfold within_Exception in W.
  rewrite forallb_forall in W. symmetry. eapply subclass_trans; [exact Hi | exact (W co Hin)].
Qed.
Lemma claimed_iff p e : handlers_within_Exception p = true -> claimed p e = isinstance e CException.
Proof. intros W. exact (uclaimed_iff (user_handlers p) e W). Qed.

Lemma find_unclaimed_u u X :
  within_Exception u = true ->
  find (fun e => negb (uclaimed u e)) X = find (fun e => negb (derives_from_Exception e)) X.
Proof. intros W. apply find_ext'. intros e. unfold derives_from_Exception. now rewrite (uclaimed_iff _ _ W). Qed.
Lemma find_unclaimed p :
  handlers_within_Exception p = true ->
  find (fun e => negb (uclaimed (user_handlers p) e)) (raised p)
  = find (fun e => negb (derives_from_Exception e)) (raised p).
Proof. intros W. now apply find_unclaimed_u. Qed.

(* what is reported and what propagates, when all inserted handlers are for Exception-derived classes *)
Lemma verdict_base p e :
  handlers_within_Exception p = true ->
  find (fun e => negb (derives_from_Exception e)) (raised p) = Some e ->
  verdict_of p = (OErr, Some e).
Proof.
  intros W F. unfold verdict_of. destruct (skipped p) eqn:S; [rewrite (raised_skipped _ S) in F; discriminate|].
  unfold decide_u. rewrite (find_unclaimed _ W), F. destruct (raised p); [discriminate | reflexivity].
Qed.
Lemma verdict_no_base p :
  handlers_within_Exception p = true ->
  find (fun e => negb (derives_from_Exception e)) (raised p) = None ->
  snd (verdict_of p) = None.
Proof.
  intros W F. unfold verdict_of. destruct (skipped p); [reflexivity|].
  unfold decide_u. rewrite (find_unclaimed _ W), F. destruct (raised p); reflexivity.
Qed.

(* ---------- a run of an instance that has been run before ---------- *)
(* a force_failure flag left set by an earlier run adds the forced failure, an AssertionError: the
   first exception outside Exception is the one the program itself raises *)
Lemma find_app_ {A} (f : A -> bool) a b :
  find f (a ++ b) = match find f a with Some x => Some x | None => find f b end.
Proof. induction a as [|x r IH]; simpl; [reflexivity|]. destruct (f x); [reflexivity | exact IH]. Qed.
Lemma find_base_collected p f0 :
  find (fun e => negb (derives_from_Exception e)) (collected_run p f0)
  = find (fun e => negb (derives_from_Exception e)) (raised p).
Proof.
  unfold collected_run. destruct (skipped p) eqn:S; [now rewrite (raised_skipped _ S)|].
  unfold collected, raised, forced_failure. rewrite S. cbn [negb andb]. rewrite !find_app_.
  destruct (find _ (raised_by_user p)); [reflexivity|]. destruct (f0 || forced p), (forced p); reflexivity.
Qed.

Lemma verdict_from_base p u0 f0 e :
  within_Exception (rev (inserted p) ++ u0) = true ->
  find (fun e => negb (derives_from_Exception e)) (raised p) = Some e ->
  verdict_from p u0 f0 = (OErr, Some e).
Proof.
  intros W F. unfold verdict_from. destruct (skipped p) eqn:S; [rewrite (raised_skipped _ S) in F; discriminate|].
  rewrite <- (find_base_collected p f0) in F.
  unfold decide_u. rewrite (find_unclaimed_u _ _ W), F. destruct (collected_run p f0); [discriminate | reflexivity].
Qed.
Lemma verdict_from_no_base p u0 f0 :
  within_Exception (rev (inserted p) ++ u0) = true ->
  find (fun e => negb (derives_from_Exception e)) (raised p) = None ->
  snd (verdict_from p u0 f0) = None.
Proof.
  intros W F. unfold verdict_from. destruct (skipped p); [reflexivity|].
  rewrite <- (find_base_collected p f0) in F.
  unfold decide_u. rewrite (find_unclaimed_u _ _ W), F. destruct (collected_run p f0); reflexivity.
Qed.

(* the handlers in front of the table after the earlier runs, whatever RunTest factory the case has *)
Lemma uh_state_after r l : forall s,
  uh (state_after r l s) = fold_left (fun u p => rev (inserted p) ++ u) l (uh s).
Proof.
  induction l as [|p l' IH]; intros s; [reflexivity|]. unfold state_after in *. cbn [fold_left].
  rewrite IH. unfold run_from_runner.
  destruct (run_from_with_verdict (runner_last_resort r) p (clear s)) as (s' & d & R & _ & _ & _ & _ & U & _).
  rewrite R. cbn [fst]. rewrite U. reflexivity.
Qed.
Lemma uh_start_state i : uh (start_state i) = handlers_before i.
Proof. unfold start_state. now rewrite uh_state_after. Qed.

(* ---------- the delivered events ---------- *)
Lemma events_of_calls f t : events_of f t = events_of f (calls t).
Proof.
  induction t as [|e r IH]; simpl; [reflexivity|]. destruct e; simpl; rewrite ?IH; reflexivity.
Qed.

(* every body that is to run wrote its token *)
Lemma tokens_shape l t : In t (tokens_of l) <-> In (STok t) (map shape l).
Proof.
  unfold tokens_of. rewrite in_flat_map, in_map_iff. split.
  - intros (e & He & Ht). exists e. destruct e; try contradiction. destruct Ht as [<-|[]]. split; [reflexivity | exact He].
  - intros (e & Hs & He). exists e. split; [exact He|]. destruct e; try discriminate. injection Hs as ->. left; reflexivity.
Qed.
Lemma expected_tokens_in p t : In t (expected_tokens p) <-> In (STok t) (expected_log p).
Proof.
  unfold expected_tokens. rewrite in_flat_map. split.
  - intros (e & He & Ht). destruct e; [|contradiction]. destruct Ht as [<-|[]]. exact He.
  - intros H. exists (STok t). split; [exact H | left; reflexivity].
Qed.

(* the verdict of the observed run: the handlers and the force_failure flag are the ones the earlier
   runs left *)
Definition verdict_at (i : input) : outcome * option exc :=
  verdict_from (i_prog i) (handlers_before i) (force (start_state i)).

(* the outcome events the flavour's result receives: the verdict's outcome when a handler is responsible
   for the reported exception (or nothing was caught); what the RunTest's handler of last resort reports
   - possibly nothing - when nobody is *)
Definition out_events (f : flavour) (lr : option outcome) (v : outcome * option exc) : list ev :=
  match snd v with
  | None => [Out (deliver f (fst v))]
  | Some _ => match lr with Some o => [Out (deliver f o)] | None => [] end
  end.

Lemma model_obs i :
  exists ran,
    model i = {| o_events := [Start] ++ out_events (i_flavour i) (runner_last_resort (i_runner i)) (verdict_at i)
                             ++ (if has_stop (i_flavour i) then [Stop] else []);
                 o_raised := match snd (verdict_at i) with Some e => kind_of e | None => RNone end;
                 o_ran := ran |}
    /\ forall t, In t ran <-> In t (expected_tokens (i_prog i)).
Proof.
  unfold model, verdict_at, run_from_runner. rewrite <- uh_start_state.
  destruct (run_from_with_verdict (runner_last_resort (i_runner i)) (i_prog i) (clear (start_state i)))
    as (s & d & R & C & L & _).
  cbn [clear uh force tr log set_tr set_log calls filter map app] in *. rewrite R.
  exists (tokens_of (log s)). split.
  - rewrite events_of_calls, C. unfold events_of, outs_with, out_events.
    destruct (snd (verdict_from _ _ _)); [destruct (runner_last_resort _)|];
      cbn [flat_map app]; destruct (has_stop (i_flavour i)); reflexivity.
  - intros t. rewrite tokens_shape, L, expected_tokens_in. reflexivity.
Qed.

Lemma existsb_find_some {A} (f : A -> bool) l : existsb f l = true -> exists x, find f l = Some x.
Proof. rewrite existsb_find. destruct (find f l) as [x|]; [eexists; reflexivity | discriminate]. Qed.
Lemma find_none_existsb {A} (f : A -> bool) l : find f l = None -> existsb f l = false.
Proof. rewrite existsb_find. now intros ->. Qed.

Theorem model_meets_spec i : wf i = true -> spec_okb i (model i) = true.
Proof.
  intros W. unfold wf in W. apply andb_true_iff in W as [_ Wh]. fold (within_Exception (handlers_at_outcome i)) in Wh.
  unfold handlers_at_outcome in Wh.
  destruct (model_obs i) as (ran & -> & Hran). unfold spec_okb. cbn [o_events o_raised o_ran].
  rewrite runner_last_resort_default, table_last_resort. unfold verdict_at.
  assert (B : forall o, bracket (i_flavour i) ([Start] ++ [Out o] ++ (if has_stop (i_flavour i) then [Stop] else []))
                        = Some o).
  { intros o. unfold bracket. destruct (has_stop (i_flavour i)) eqn:Hs; cbn [app]; rewrite ?Hs; reflexivity. }
  destruct (find (fun e => negb (derives_from_Exception e)) (raised (i_prog i))) as [e|] eqn:F.
  - rewrite (verdict_from_base _ _ _ _ Wh F). unfold out_events. cbn [fst snd].
    rewrite B, (proj2 (outcome_eqb_spec _ _) eq_refl), (proj2 (rk_eqb_spec _ _) eq_refl). cbn [andb].
    apply forallb_forall. intros t Ht. apply memb_in, Hran, Ht.
  - pose proof (verdict_from_no_base _ (handlers_before i) (force (start_state i)) Wh F) as V.
    unfold out_events. rewrite V, B. reflexivity.
Qed.

(* the configuration is irrelevant: whatever RunTest factory the case has, however it is installed - also one
   that cannot be called with last_resort= - the observation is that of the default RunTest *)
Lemma state_after_irrelevant r l : forall s, state_after r l s = state_after default_runner l s.
Proof.
  unfold state_after. induction l as [|p l' IH]; intros s; [reflexivity|]. cbn [fold_left].
  rewrite !factory_irrelevant. apply IH.
Qed.
Theorem model_factory_irrelevant i :
  model i = model {| i_prev := i_prev i; i_prog := i_prog i; i_flavour := i_flavour i; i_runner := default_runner |}.
Proof.
  unfold model, start_state, first_prog. cbn [i_prev i_prog i_flavour i_runner].
  rewrite (state_after_irrelevant (i_runner i)), !factory_irrelevant. reflexivity.
Qed.

(* why the handler of last resort has to reach the RunTest (fix F27; a RunTest constructed without one, as the
   fallback for factories that cannot be called with last_resort= used to leave it): on an instance in ANY
   state everything happens as with TestCase.run's RunTest - startTest, every body that is to run, what
   propagates, stopTest last - except that when something propagates NO outcome is reported *)
Theorem no_last_resort_run p s :
  exists s' o d prop, run_from_with None p s = (s', prop, false)
    /\ calls (tr s') = calls (tr s) ++ [TStart] ++ (match prop with None => [TOut o d] | Some _ => [] end) ++ [TStop]
    /\ map shape (log s') = map shape (log s) ++ expected_log p /\ stack s' = []
    /\ exists s1, run_from p s = (s1, prop, false).
Proof.
  destruct (run_from_with_verdict None p s) as (s' & d & R & C & L & K & _).
  destruct (run_from_verdict p s) as (s1 & d1 & R1 & _).
  exists s', (fst (verdict_from p (uh s) (force s))), d, (snd (verdict_from p (uh s) (force s))).
  split; [exact R|]. split.
  { rewrite C. unfold outs_with. destruct (snd (verdict_from p (uh s) (force s))); reflexivity. }
  split; [exact L|]. split; [exact K|]. exists s1. exact R1.
Qed.

(* C01_bracket for a run of an instance in ANY state (whatever it ran before, whatever that left
   behind): the calls on the result are startTest, exactly one outcome, stopTest; every body that
   should run did; no cleanup is left; and the exceptions this run reports from are the ones THIS
   run caught - nothing caught by an earlier run is still there *)
Theorem run_from_bracket p s :
  exists s' o d prop, run_from p s = (s', prop, false)
                /\ calls (tr s') = calls (tr s) ++ [TStart; TOut o d; TStop]
                /\ map shape (log s') = map shape (log s) ++ expected_log p /\ stack s' = []
                /\ excs s' = collected_run p (force s).
Proof.
  destruct (run_from_verdict p s) as (s' & d & R & C & L & K & X & _).
  exists s', (fst (verdict_from p (uh s) (force s))), d, (snd (verdict_from p (uh s) (force s))).
  repeat split; assumption.
Qed.

(* ... a KeyboardInterrupt / SystemExit of THIS run is reported and propagates, and if this run raised
   none, run() returns - whatever an earlier run of the instance raised *)
Theorem run_from_base p s :
  within_Exception (rev (inserted p) ++ uh s) = true ->
  exists s' o d prop, run_from p s = (s', prop, false)
    /\ calls (tr s') = calls (tr s) ++ [TStart; TOut o d; TStop]
    /\ match find (fun e => negb (derives_from_Exception e)) (raised p) with
       | Some e => o = OErr /\ prop = Some e
       | None => prop = None
       end.
Proof.
  intros W. destruct (run_from_verdict p s) as (s' & d & R & C & _).
  exists s', (fst (verdict_from p (uh s) (force s))), d, (snd (verdict_from p (uh s) (force s))).
  split; [exact R|]. split; [exact C|].
  destruct (find _ (raised p)) as [e|] eqn:F.
  - rewrite (verdict_from_base _ _ _ _ W F). split; reflexivity.
  - exact (verdict_from_no_base _ _ _ W F).
Qed.

(* C01_bracket, on the model's own trace: whatever the program, the calls on the result are
   startTest, exactly one outcome, stopTest (handler calls of addOnException aside); the fuel
   supplied to the cleanup loop suffices; every body that should run did; no cleanup is left *)
Theorem run_bracket p a0 :
  exists s o d prop, run p a0 = (s, prop, false)
                /\ calls (tr s) = [TStart; TOut o d; TStop]
                /\ map shape (log s) = expected_log p /\ stack s = [].
Proof.
  destruct (run_verdict p a0) as (s & d & R & C & L & K & _).
  exists s, (fst (verdict_of p)), d, (snd (verdict_of p)). repeat split; assumption.
Qed.

(* ... and on what each result flavour receives *)
Theorem bracket_delivered i :
  exists o, o_events (model i) = if has_stop (i_flavour i) then [Start; Out o; Stop] else [Start; Out o].
Proof.
  destruct (model_obs i) as (ran & -> & _). cbn [o_events].
  unfold out_events. rewrite runner_last_resort_default, table_last_resort.
  destruct (snd (verdict_at i)); eexists; destruct (has_stop (i_flavour i)); reflexivity.
Qed.

(* C01_base_reported: an exception outside Exception raised anywhere is reported as the error,
   every stage and cleanup still runs (the log is the full expected one), and the first such
   exception comes out of run() *)
Theorem base_reported p a0 e :
  handlers_within_Exception p = true ->
  find (fun e => negb (derives_from_Exception e)) (raised p) = Some e ->
  exists s d, run p a0 = (s, Some e, false)
              /\ calls (tr s) = [TStart; TOut OErr d; TStop]
              /\ map shape (log s) = expected_log p
              /\ stack s = [].
Proof.
  intros Wh F. destruct (run_verdict p a0) as (s & d & R & C & L & K & _).
  rewrite (verdict_base _ _ Wh F) in *. exists s, d. repeat split; assumption.
Qed.

(* C01_stop_before_raise: whatever propagates, stopTest has been delivered and is the last call,
   after exactly one outcome *)
Theorem stop_delivered p a0 :
  let '(s, propagated, oof) := run p a0 in
  oof = false /\ last (calls (tr s)) TStart = TStop
  /\ length (filter (fun e => match e with TOut _ _ => true | _ => false end) (tr s)) = 1.
Proof.
  destruct (run_verdict p a0) as (s & d & R & C & _). rewrite R.
  split; [reflexivity|]. split; [rewrite C; reflexivity|].
  assert (H : forall t, filter (fun e => match e with TOut _ _ => true | _ => false end) t
                        = filter (fun e => match e with TOut _ _ => true | _ => false end) (calls t)).
  { induction t as [|x r IH]; simpl; [reflexivity|]. destruct x; simpl; rewrite IH; reflexivity. }
  rewrite H, C. reflexivity.
Qed.

(* without such an exception run() returns *)
Theorem returns_otherwise p a0 :
  handlers_within_Exception p = true ->
  (forall e, In e (raised p) -> derives_from_Exception e = true) ->
  exists s, run p a0 = (s, None, false).
Proof.
  intros Wh All. destruct (run_verdict p a0) as (s & d & R & _).
  exists s. rewrite R. f_equal. f_equal. apply (verdict_no_base _ Wh).
  destruct (find _ (raised p)) as [e|] eqn:F; [|reflexivity]. apply find_some in F. destruct F as [Fin Fb].
  rewrite (All e Fin) in Fb. discriminate.
Qed.

(* the exception that propagates is the FIRST one outside Exception: everything raised before it
   derives from Exception, whatever is raised after it *)
Lemma find_first {A} (f : A -> bool) l x :
  find f l = Some x -> exists a b, l = a ++ x :: b /\ f x = true /\ forallb (fun y => negb (f y)) a = true.
Proof.
  induction l as [|y r IH]; simpl; [discriminate|]. destruct (f y) eqn:E.
  - intros H; injection H as ->. exists [], r. repeat split; assumption.
  - intros H. destruct (IH H) as (a & b & -> & Hx & Ha). exists (y :: a), b. simpl. rewrite E. repeat split; assumption.
Qed.
Theorem first_base_propagates p a0 s e :
  handlers_within_Exception p = true ->
  run p a0 = (s, Some e, false) ->
  exists before after, raised p = before ++ e :: after
                       /\ derives_from_Exception e = false
                       /\ forallb derives_from_Exception before = true.
Proof.
  intros Wh R. destruct (run_verdict p a0) as (s' & d & R' & _). rewrite R in R'.
  assert (V : snd (verdict_of p) = Some e) by congruence.
  destruct (find (fun e => negb (derives_from_Exception e)) (raised p)) as [x|] eqn:F.
  - rewrite (verdict_base _ _ Wh F) in V. injection V as ->.
    destruct (find_first _ _ _ F) as (a & b & E & Hx & Ha). exists a, b. split; [exact E|].
    split; [now apply negb_true_iff in Hx|].
    rewrite forallb_forall in *. intros y Hy. specialize (Ha y Hy). now rewrite negb_involutive in Ha.
  - rewrite (verdict_no_base _ Wh F) in V. discriminate.
Qed.

Theorem model_meets_Spec i : wf i = true -> Spec i (model i).
Proof. intros W. exact (spec_okb_sound i (model i) (model_meets_spec i W)). Qed.

(* the table facts used above, together *)
Lemma table_facts :
  last_resort = Some OErr
  /\ forallb (fun h => match h_out h with Some _ => true | None => false end) generated_handlers = true
  /\ forallb (fun h => subclass (h_cls h) CException) generated_handlers = true
  /\ match rev generated_handlers with h :: _ => cls_eqb (h_cls h) CException | [] => false end = true
  /\ (run_passes_table = true /\ length generated_handlers = length exception_handlers).
Proof. exact (conj table_last_resort (conj table_outcomes (conj table_within_Exception
             (conj table_catch_all_last table_complete)))). Qed.

(* whatever is raised - with or without an exception outside Exception - the bodies that ran are
   exactly the ones that are to run: setUp; test and tearDown iff setUp returned; every cleanup *)
Theorem all_bodies_ran i : forall t, In t (o_ran (model i)) <-> In t (expected_tokens (i_prog i)).
Proof. destruct (model_obs i) as (ran & -> & H). exact H. Qed.
