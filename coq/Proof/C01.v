(* C01 - proofs. *)
From TT Require Import Lib.Base Gen.Handlers Model.Run Spec.Run Spec.C01 Corr.C01.
