(* C03 - proofs. *)
From TT Require Import Lib.Base Gen.Handlers Model.Run Spec.Run Spec.C03 Corr.C03.
