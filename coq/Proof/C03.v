(* C03 - proofs: success only if nothing was raised; one exception maps through the first
   handler that claims it; no downgrade outside the delimited finding F2. *)
From TT Require Import Lib.Base Gen.Handlers Model.Run Spec.Run Spec.C03 Corr.C03 Proof.RunCore.

Lemma obs_eqb_spec a b : obs_eqb a b = true <-> a = b.
Proof.
  destruct a as [o1 k1], b as [o2 k2]; unfold obs_eqb; simpl. rewrite andb_true_iff.
  rewrite (list_eqb_spec outcome_eqb outcome_eqb_spec), bool_eqb_spec.
  split; [intros [-> ->]; reflexivity | intros H; injection H; auto].
Qed.

Theorem spec_okb_sound i o : spec_okb i o = true -> Spec i o.
Proof.
  unfold spec_okb, Spec. destruct (o_outs o) as [|k [|k' r]]; try discriminate.
  intros H. apply andb_true_iff in H as [H H3]. apply andb_true_iff in H as [H1 H2].
  exists k. split; [reflexivity|]. split; [|split].
  - intros ->. unfold success_okb in H1. destruct (raised_by_user (i_prog i)); [|discriminate].
    split; [reflexivity | now apply negb_true_iff in H1].
  - intros e E. unfold single_okb in H2. rewrite E in H2. apply outcome_eqb_spec in H2. now symmetry.
  - intros (e & Hin & He). unfold no_downgrade_okb in H3.
    assert (Ex : existsb (is_failure_or_error (i_prog i)) (raised (i_prog i)) = true)
      by (apply existsb_exists; exists e; split; assumption).
    rewrite Ex in H3. apply andb_true_iff in H3 as [A B]. split; [exact A | now apply negb_true_iff in B].
Qed.

(* ------------------------------------------------------------------ *)
(* the model meets the statement                                        *)
(* ------------------------------------------------------------------ *)
From TT Require Import Proof.RunExtra Proof.RunTable Proof.RunVerdict.

Definition handlers_not_success (p : prog) : bool :=
  forallb (fun co => negb (outcome_eqb (snd co) OSuccess)) (user_handlers p).

(* no exception stands for a success *)
Lemma outcome_of_no_success p e : handlers_not_success p = true -> outcome_of p e <> OSuccess.
Proof.
  intros W. unfold outcome_of, user_claim. destruct (find _ (user_handlers p)) as [co|] eqn:F.
  - apply find_some in F. destruct F as [Hin _]. unfold handlers_not_success in W.
    rewrite forallb_forall in W. specialize (W co Hin). intros E. rewrite E in W. discriminate.
  - unfold standard_outcome. repeat (match goal with |- context [if ?c then _ else _] => destruct c end); discriminate.
Qed.

Lemma outs_of_calls t : outs_of t = outs_of (calls t).
Proof. induction t as [|e r IH]; simpl; [reflexivity|]. destruct e; simpl; rewrite ?IH; reflexivity. Qed.

(* what the model observes: one outcome, the one of the verdict *)
Lemma model_obs i :
  model i = {| o_outs := [fst (verdict_of (i_prog i))]; o_ok := negb (unsuccessful (fst (verdict_of (i_prog i)))) |}.
Proof.
  unfold model. destruct (run_verdict (i_prog i) []) as (s & d & R & C & _).
  rewrite R, outs_of_calls, C. cbn [outs_of flat_map calls app].
  unfold was_successful. simpl. rewrite orb_false_r. reflexivity.
Qed.

(* the verdict in terms of the exceptions raised *)
Lemma verdict_cases p :
  skipped p = false ->
  match raised p with
  | [] => fst (verdict_of p) = OSuccess
  | _ => match find (fun e => negb (claimed p e)) (raised p) with
         | Some _ => fst (verdict_of p) = OErr
         | None => fst (verdict_of p) = outcome_of p (last (raised p) (Exc CFail None))
         end
  end.
Proof.
  intros S. unfold verdict_of, decide_u. rewrite S.
  change (fun e => negb (uclaimed (user_handlers p) e)) with (fun e => negb (claimed p e)).
  destruct (raised p) as [|x r]; [reflexivity|].
  destruct (find (fun e => negb (claimed p e)) (x :: r)); reflexivity.
Qed.

Lemma raised_nil p : raised p = [] -> raised_by_user p = [] /\ (skipped p = false -> forced p = false).
Proof.
  unfold raised, forced_failure. intros H. apply app_eq_nil in H. destruct H as [H1 H2]. split; [exact H1|].
  intros S. rewrite S in H2. cbn [negb andb] in H2.
  destruct (setup_returns p) eqn:R.
  - destruct (forced p); [discriminate | reflexivity].
  - exfalso. unfold raised_by_user in H1. rewrite S in H1. unfold setup_returns in R.
    destruct (setup_raise p) as [e|]; [|discriminate]. cbn [caught] in H1.
    apply app_eq_nil in H1. destruct H1 as [H1 _]. exact (flatten_nonempty e H1).
Qed.

(* an exception no handler is responsible for stands for an error *)
Lemma unclaimed_is_error' p e : claimed p e = false -> outcome_of p e = OErr.
Proof. exact (unclaimed_is_error (user_handlers p) e). Qed.

Theorem model_meets_spec i : wf i = true -> finding_F2 i = false -> spec_okb i (model i) = true.
Proof.
  intros W NF. unfold wf in W. apply andb_true_iff in W as [_ Wh]. fold (handlers_not_success (i_prog i)) in Wh.
  rewrite model_obs. unfold spec_okb. cbn [o_outs o_ok]. set (o := fst (verdict_of (i_prog i))).
  destruct (skipped (i_prog i)) eqn:S.
  - (* skip-decorated *)
    assert (o = OSkip) as -> by (subst o; unfold verdict_of; now rewrite S).
    unfold success_okb, single_okb, no_downgrade_okb. rewrite (raised_skipped _ S). reflexivity.
  - pose proof (verdict_cases (i_prog i) S) as VC. fold o in VC.
    apply andb_true_iff; split; [apply andb_true_iff; split|].
    + (* success only if nothing raised *)
      unfold success_okb. destruct o eqn:Eo; try reflexivity.
      destruct (raised (i_prog i)) as [|x r] eqn:E.
      * destruct (raised_nil _ E) as [H1 H2]. rewrite H1, (H2 S). reflexivity.
      * exfalso. destruct (find _ (x :: r)); [discriminate|].
        exact (outcome_of_no_success _ _ Wh (eq_sym VC)).
    + (* a single exception maps to its outcome *)
      unfold single_okb. destruct (raised (i_prog i)) as [|x [|y r]] eqn:E; try reflexivity.
      cbn [find last] in VC. apply outcome_eqb_spec.
      destruct (claimed (i_prog i) x) eqn:C; cbn [negb] in VC; [exact VC|].
      rewrite VC. symmetry. now apply unclaimed_is_error'.
    + (* no downgrade, outside F2 *)
      unfold no_downgrade_okb. unfold finding_F2 in NF.
      destruct (existsb (is_failure_or_error (i_prog i)) (raised (i_prog i))) eqn:Ex; [|reflexivity].
      cbn [andb] in NF. rewrite negb_involutive, andb_diag.
      destruct (raised (i_prog i)) as [|x r] eqn:E; [discriminate|].
      destruct (find (fun e => negb (claimed (i_prog i) e)) (x :: r)) as [e|] eqn:F.
      * rewrite VC. reflexivity.
      * rewrite VC.
        assert (All : forallb (claimed (i_prog i)) (x :: r) = true).
        { apply forallb_forall. intros y Hy. pose proof (find_none _ _ F y Hy) as N. now apply negb_false_iff in N. }
        rewrite All in NF. cbn [andb] in NF. now apply negb_false_iff in NF.
Qed.

(* C03_success_iff, both directions (the converse needs the test not to be skip-decorated) *)
Theorem success_iff i :
  wf i = true -> skipped (i_prog i) = false ->
  (o_outs (model i) = [OSuccess] <-> raised_by_user (i_prog i) = [] /\ forced (i_prog i) = false).
Proof.
  intros W S. unfold wf in W. apply andb_true_iff in W as [_ Wh]. fold (handlers_not_success (i_prog i)) in Wh.
  rewrite model_obs. cbn [o_outs].
  pose proof (verdict_cases (i_prog i) S) as VC. split.
  - intros H. injection H as H. rewrite H in VC.
    destruct (raised (i_prog i)) as [|x r] eqn:E.
    + destruct (raised_nil _ E) as [H1 H2]. split; [exact H1 | exact (H2 S)].
    + exfalso. destruct (find _ (x :: r)); [discriminate|].
      exact (outcome_of_no_success _ _ Wh (eq_sym VC)).
  - intros [H1 H2]. assert (E : raised (i_prog i) = []).
    { unfold raised, forced_failure. rewrite H1, H2, andb_false_r. reflexivity. }
    rewrite E in VC. now rewrite VC.
Qed.

(* C03_single *)
Theorem single_mapping i e :
  raised (i_prog i) = [e] -> o_outs (model i) = [outcome_of (i_prog i) e].
Proof.
  intros E. rewrite model_obs. cbn [o_outs].
  assert (S : skipped (i_prog i) = false).
  { destruct (skipped (i_prog i)) eqn:S; [|reflexivity]. rewrite (raised_skipped _ S) in E. discriminate. }
  pose proof (verdict_cases (i_prog i) S) as VC. rewrite E in VC. cbn [find last] in VC.
  destruct (claimed (i_prog i) e) eqn:C; cbn [negb] in VC; rewrite VC; [reflexivity|].
  now rewrite (unclaimed_is_error' _ _ C).
Qed.

(* the handler that decides for an exception: inserted handlers first, the latest insertion first,
   in list order; subclasses are instances; otherwise the standard mapping by class *)
Theorem dispatch_order p e :
  outcome_of p e = match find (fun co => isinstance e (fst co)) (rev (inserted p) ++ p_handlers p) with
                   | Some co => snd co
                   | None => standard_outcome (cls_of e)
                   end.
Proof. reflexivity. Qed.

(* in every run: the outcome is the one of the exception reported for (Spec.Run.reported) *)
Theorem outcome_reported i :
  skipped (i_prog i) = false ->
  o_outs (model i) = [match reported (i_prog i) with Some e => outcome_of (i_prog i) e | None => OSuccess end].
Proof.
  intros S. rewrite model_obs. cbn [o_outs]. rewrite (verdict_of_reported _ S).
  destruct (reported (i_prog i)); reflexivity.
Qed.
Theorem outcome_skip_decorated i :
  skipped (i_prog i) = true -> model i = {| o_outs := [OSkip]; o_ok := true |}.
Proof. intros S. rewrite model_obs. unfold verdict_of. rewrite S. reflexivity. Qed.

(* C03_no_downgrade_partial: outside F2 a failure or error is never downgraded *)
Theorem no_downgrade_partial i e :
  finding_F2 i = false ->
  In e (raised (i_prog i)) -> is_failure_or_error (i_prog i) e = true ->
  exists o, model i = {| o_outs := [o]; o_ok := false |} /\ unsuccessful o = true.
Proof.
  intros NF Hin He. rewrite model_obs. set (o := fst (verdict_of (i_prog i))). exists o.
  assert (S : skipped (i_prog i) = false).
  { destruct (skipped (i_prog i)) eqn:S; [|reflexivity]. rewrite (raised_skipped _ S) in Hin. contradiction. }
  pose proof (verdict_cases (i_prog i) S) as VC. fold o in VC.
  assert (Ex : existsb (is_failure_or_error (i_prog i)) (raised (i_prog i)) = true)
    by (apply existsb_exists; exists e; split; assumption).
  unfold finding_F2 in NF. rewrite Ex in NF. cbn [andb] in NF.
  assert (U : unsuccessful o = true).
  { destruct (raised (i_prog i)) as [|x r] eqn:E; [contradiction|].
    destruct (find (fun e => negb (claimed (i_prog i) e)) (x :: r)) as [e'|] eqn:F.
    - rewrite VC. reflexivity.
    - rewrite VC.
      assert (All : forallb (claimed (i_prog i)) (x :: r) = true).
      { apply forallb_forall. intros y Hy. pose proof (find_none _ _ F y Hy) as N. now apply negb_false_iff in N. }
      rewrite All in NF. cbn [andb] in NF. now apply negb_false_iff in NF. }
  rewrite U. split; reflexivity.
Qed.

(* inside F2 the statement fails: the finding is exactly the class of inputs where it does *)
Theorem downgrade_inside_F2 i :
  finding_F2 i = true -> spec_okb i (model i) = false.
Proof.
  intros F2. rewrite model_obs. unfold spec_okb. cbn [o_outs o_ok]. set (o := fst (verdict_of (i_prog i))).
  unfold finding_F2 in F2. apply andb_true_iff in F2 as [F2 Hl]. apply andb_true_iff in F2 as [Ex All].
  assert (S : skipped (i_prog i) = false).
  { destruct (skipped (i_prog i)) eqn:S; [|reflexivity]. rewrite (raised_skipped _ S) in Ex. discriminate. }
  pose proof (verdict_cases (i_prog i) S) as VC. fold o in VC.
  destruct (raised (i_prog i)) as [|x r] eqn:E; [discriminate|].
  assert (F : find (fun e => negb (claimed (i_prog i) e)) (x :: r) = None).
  { destruct (find _ (x :: r)) as [e|] eqn:F; [|reflexivity]. apply find_some in F. destruct F as [Hin Hb].
    rewrite forallb_forall in All. rewrite (All e Hin) in Hb. discriminate. }
  rewrite F in VC.
  unfold no_downgrade_okb. rewrite E, Ex. apply negb_true_iff in Hl. rewrite VC, Hl. cbn [andb]. apply andb_false_r.
Qed.

(* the witness of F2: AssertionError in the test, SkipTest in a cleanup -> addSkip, wasSuccessful() *)
Definition F2_witness : input :=
  {| i_prog := {| p_skip := None; p_xfail := false;
                  p_setup := (1, [ACleanup 10 [ARaise (Exc CSkip (Some 1))]]); p_up_setup := true;
                  p_body := (2, [ARaise (Exc CFail (Some 1))]);
                  p_teardown := (3, []); p_up_teardown := true; p_handlers := [] |} |}.
Theorem refuted_F2 :
  exists i, wf i = true /\ finding_F2 i = true /\ spec_okb i (model i) = false
            /\ model i = {| o_outs := [OSkip]; o_ok := true |}.
Proof. exists F2_witness. vm_compute. repeat split. Qed.

Theorem model_meets_Spec i : wf i = true -> finding_F2 i = false -> Spec i (model i).
Proof. intros W NF. exact (spec_okb_sound i (model i) (model_meets_spec i W NF)). Qed.

(* the facts about TestCase.exception_handlers of the tree under test that the proofs use *)
Lemma table_facts :
  last_resort = Some OErr
  /\ (forall c, table_outcome c = Some (standard_outcome c))
  /\ match rev generated_handlers with h :: _ => cls_eqb (h_cls h) CException | [] => false end = true
  /\ forallb (fun h => subclass (h_cls h) CException) generated_handlers = true.
Proof. exact (conj table_last_resort (conj table_outcome_spec (conj table_catch_all_last table_within_Exception))). Qed.

(* ---------- a forced failure fails the test on every path (fix 889980a) ---------- *)
Lemma raised_forced p : skipped p = false -> forced p = true -> raised p = raised_by_user p ++ [Exc CFail None].
Proof. intros S F. unfold raised, forced_failure. now rewrite S, F. Qed.

(* whatever setUp, the test, tearDown or the cleanups raised besides - also inside F2: the forced
   failure is the last exception raised, so "the last one wins" cannot replace it *)
Theorem forced_fails i :
  skipped (i_prog i) = false -> forced (i_prog i) = true ->
  is_failure_or_error (i_prog i) (Exc CFail None) = true ->
  exists o, model i = {| o_outs := [o]; o_ok := false |} /\ unsuccessful o = true.
Proof.
  intros S F H. apply (no_downgrade_partial i (Exc CFail None)); [| |exact H].
  - unfold finding_F2. rewrite (raised_forced _ S F), last_last.
    unfold is_failure_or_error in H.
    destruct (outcome_of (i_prog i) (Exc CFail None)); try discriminate; cbn [unsuccessful negb]; now rewrite andb_false_r.
  - rewrite (raised_forced _ S F). apply in_or_app; right; left; reflexivity.
Qed.
