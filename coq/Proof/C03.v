(* C03 - proofs: success only if nothing was raised; one exception maps through the first
   handler that claims it; no downgrade outside the delimited finding F2. *)
From TT Require Import Lib.Base Gen.Handlers Model.Run Spec.Run Spec.C03 Corr.C03 Proof.RunCore.

Lemma obs_eqb_spec a b : obs_eqb a b = true <-> a = b.
Proof.
  destruct a as [o1 k1], b as [o2 k2]; unfold obs_eqb; simpl. rewrite andb_true_iff.
  rewrite (list_eqb_spec outcome_eqb outcome_eqb_spec), bool_eqb_spec.
  split; [intros [-> ->]; reflexivity | intros H; injection H; auto].
Qed.

(* no generated handler reports a success (by computation on the regenerated table) *)
Lemma table_no_success :
  forallb (fun h => match h_out h with Some OSuccess => false | _ => true end) generated_handlers = true.
Proof. vm_compute. reflexivity. Qed.

Lemma handlers_no_success p h :
  forallb (fun co => negb (outcome_eqb (snd co) OSuccess)) (p_handlers p) = true ->
  In h (handlers p) -> h_out h <> Some OSuccess.
Proof.
  intros W Hin. unfold handlers in Hin. apply in_app_or in Hin. destruct Hin as [Hin|Hin].
  - apply in_map_iff in Hin. destruct Hin as (co & <- & Hco). rewrite forallb_forall in W. specialize (W co Hco).
    simpl. intros E. injection E as E. rewrite E in W. discriminate.
  - pose proof table_no_success as T. rewrite forallb_forall in T. specialize (T h Hin).
    intros E. rewrite E in T. discriminate.
Qed.

Lemma outs_of_calls t : outs_of t = outs_of (calls t).
Proof. induction t as [|e r IH]; simpl; [reflexivity|]. destruct e; simpl; rewrite ?IH; reflexivity. Qed.

(* what the model observes *)
Lemma model_obs i :
  exists o, fst (verdict (i_prog i) false) = Some o
            /\ model i = {| o_outs := [o]; o_ok := negb (unsuccessful o) |}.
Proof.
  unfold model. destruct (run_bracket (i_prog i) []) as (s & o & d & R & V & C & _ & _).
  exists o. split; [exact V|]. rewrite R, outs_of_calls, C. cbn [outs_of flat_map calls app].
  unfold was_successful. simpl. rewrite orb_false_r. reflexivity.
Qed.

Lemma raised_collected p : skipped p = false -> collected p false = raised p.
Proof. intros S. pose proof (collected_run_raised p) as H. unfold collected_run in H. now rewrite S in H. Qed.
Lemma raised_skipped p : skipped p = true -> raised p = [].
Proof. intros S. unfold raised, raised_by_user, forced_failure. now rewrite S. Qed.

(* the verdict in terms of the exceptions raised *)
Lemma verdict_cases p :
  skipped p = false ->
  match raised p with
  | [] => fst (verdict p false) = Some OSuccess
  | _ => match find (fun e => negb (claims (handlers p) e)) (raised p) with
         | Some _ => fst (verdict p false) = last_resort
         | None => fst (verdict p false) = outcome_for (handlers p) (last (raised p) (Exc CFail None))
                   /\ exists h, In h (handlers p) /\ fst (verdict p false) = h_out h
         end
  end.
Proof.
  intros S. unfold verdict. rewrite S, (raised_collected p S).
  destruct (raised p) as [|x r] eqn:E; [reflexivity|].
  destruct (find _ (x :: r)) as [e|] eqn:F.
  - rewrite (decide_unclaimed _ _ _ F). reflexivity.
  - destruct (decide_claimed (handlers p) (x :: r)) as (h & L & D); [discriminate | exact F|].
    rewrite D. cbn [fst]. unfold outcome_for. rewrite L. split; [reflexivity|].
    exists h. split; [exact (lookup_in _ _ _ L) | reflexivity].
Qed.

Lemma raised_nil p : raised p = [] -> raised_by_user p = [] /\ (skipped p = false -> forced p = false).
Proof.
  unfold raised, forced_failure. intros H. apply app_eq_nil in H. destruct H as [H1 H2]. split; [exact H1|].
  intros S. rewrite S in H2. cbn [negb andb] in H2.
  destruct (setup_returns p) eqn:R.
  - destruct (forced p); [discriminate | reflexivity].
  - exfalso. unfold raised_by_user in H1. rewrite S in H1. unfold setup_returns in R.
    destruct (setup_raise p) as [e|]; [|discriminate]. cbn [caught] in H1.
    apply app_eq_nil in H1. destruct H1 as [H1 _]. exact (flatten_nonempty e H1).
Qed.

Theorem model_meets_spec i : wf i = true -> finding_F2 i = false -> spec_okb i (model i) = true.
Proof.
  intros W NF. unfold wf in W. apply andb_true_iff in W as [_ Wh].
  destruct (model_obs i) as (o & V & ->). unfold spec_okb. cbn [o_outs o_ok].
  destruct (skipped (i_prog i)) eqn:S.
  - (* skip-decorated *)
    unfold verdict in V. rewrite S in V. injection V as <-.
    unfold success_okb, single_okb, no_downgrade_okb. rewrite (raised_skipped _ S). reflexivity.
  - pose proof (verdict_cases (i_prog i) S) as VC. rewrite V in VC.
    apply andb_true_iff; split; [apply andb_true_iff; split|].
    + (* success only if nothing raised *)
      unfold success_okb. destruct o; try reflexivity.
      destruct (raised (i_prog i)) as [|x r] eqn:E.
      * destruct (raised_nil _ E) as [H1 H2]. rewrite H1, (H2 S). reflexivity.
      * exfalso. destruct (find _ (x :: r)).
        -- rewrite table_last_resort in VC. discriminate.
        -- destruct VC as (_ & h & Hin & Hh). exact (handlers_no_success _ h Wh Hin (eq_sym Hh)).
    + (* a single exception maps to its outcome *)
      unfold single_okb. destruct (raised (i_prog i)) as [|x [|y r]] eqn:E; try reflexivity.
      unfold hs, outcome_for. cbn [find] in VC. unfold outcome_for in VC. cbn [last] in VC.
      destruct (claims (handlers (i_prog i)) x) eqn:C; cbn [negb] in VC.
      * destruct VC as [VC _]. rewrite <- VC. apply option_eqb_spec; [exact outcome_eqb_spec | reflexivity].
      * apply lookup_none in C. rewrite C, <- VC. apply option_eqb_spec; [exact outcome_eqb_spec | reflexivity].
    + (* no downgrade, outside F2 *)
      unfold no_downgrade_okb. unfold finding_F2 in NF. fold (hs i) in VC.
      destruct (existsb (is_failure_or_error (hs i)) (raised (i_prog i))) eqn:Ex; [|reflexivity].
      cbn [andb] in NF. rewrite negb_involutive, andb_diag.
      destruct (raised (i_prog i)) as [|x r] eqn:E; [discriminate|].
      destruct (find (fun e => negb (claims (hs i) e)) (x :: r)) as [e|] eqn:F.
      * rewrite table_last_resort in VC. injection VC as ->. reflexivity.
      * destruct VC as [VC _].
        assert (All : forallb (claims (hs i)) (x :: r) = true).
        { apply forallb_forall. intros y Hy. pose proof (find_none _ _ F y Hy) as N. now apply negb_false_iff in N. }
        rewrite All in NF. cbn [andb] in NF. rewrite <- VC in NF. now apply negb_false_iff in NF.
Qed.

Theorem spec_okb_sound i o : spec_okb i o = true -> Spec i o.
Proof.
  unfold spec_okb, Spec. destruct (o_outs o) as [|k [|k' r]]; try discriminate.
  intros H. apply andb_true_iff in H as [H H3]. apply andb_true_iff in H as [H1 H2].
  exists k. split; [reflexivity|]. split; [|split].
  - intros ->. unfold success_okb in H1. destruct (raised_by_user (i_prog i)); [|discriminate].
    split; [reflexivity | now apply negb_true_iff in H1].
  - intros e E. unfold single_okb in H2. rewrite E in H2.
    apply (option_eqb_spec outcome_eqb outcome_eqb_spec) in H2. now symmetry.
  - intros (e & Hin & He). unfold no_downgrade_okb in H3.
    assert (Ex : existsb (is_failure_or_error (hs i)) (raised (i_prog i)) = true)
      by (apply existsb_exists; exists e; split; assumption).
    rewrite Ex in H3. apply andb_true_iff in H3 as [A B]. split; [exact A | now apply negb_true_iff in B].
Qed.

(* C03_success_iff, both directions (the converse needs the test not to be skip-decorated) *)
Theorem success_iff i :
  wf i = true -> skipped (i_prog i) = false ->
  (o_outs (model i) = [OSuccess] <-> raised_by_user (i_prog i) = [] /\ forced (i_prog i) = false).
Proof.
  intros W S. pose proof W as W'. unfold wf in W. apply andb_true_iff in W as [_ Wh].
  destruct (model_obs i) as (o & V & ->). cbn [o_outs].
  pose proof (verdict_cases (i_prog i) S) as VC. rewrite V in VC. split.
  - intros H. injection H as ->.
    destruct (raised (i_prog i)) as [|x r] eqn:E.
    + destruct (raised_nil _ E) as [H1 H2]. split; [exact H1 | exact (H2 S)].
    + exfalso. destruct (find _ (x :: r)).
      * rewrite table_last_resort in VC. discriminate.
      * destruct VC as (_ & h & Hin & Hh). exact (handlers_no_success _ h Wh Hin (eq_sym Hh)).
  - intros [H1 H2]. assert (E : raised (i_prog i) = []).
    { unfold raised, forced_failure. rewrite H1, H2, andb_false_r. reflexivity. }
    rewrite E in VC. injection VC as ->. reflexivity.
Qed.

(* C03_single *)
Theorem single_mapping i e :
  raised (i_prog i) = [e] ->
  exists o, o_outs (model i) = [o] /\ outcome_for (hs i) e = Some o.
Proof.
  intros E. destruct (model_obs i) as (o & V & ->). cbn [o_outs]. exists o. split; [reflexivity|].
  assert (S : skipped (i_prog i) = false).
  { destruct (skipped (i_prog i)) eqn:S; [|reflexivity]. rewrite (raised_skipped _ S) in E. discriminate. }
  pose proof (verdict_cases (i_prog i) S) as VC. rewrite V, E in VC. cbn [find last] in VC.
  unfold hs, outcome_for in *. destruct (claims (handlers (i_prog i)) e) eqn:C; cbn [negb] in VC.
  - destruct VC as [VC _]. now symmetry.
  - apply lookup_none in C. rewrite C. now symmetry.
Qed.

(* C03_no_downgrade_partial: outside F2 a failure or error is never downgraded *)
Theorem no_downgrade_partial i e :
  finding_F2 i = false ->
  In e (raised (i_prog i)) -> is_failure_or_error (hs i) e = true ->
  exists o, model i = {| o_outs := [o]; o_ok := false |} /\ unsuccessful o = true.
Proof.
  intros NF Hin He. destruct (model_obs i) as (o & V & ->). exists o.
  assert (S : skipped (i_prog i) = false).
  { destruct (skipped (i_prog i)) eqn:S; [|reflexivity]. rewrite (raised_skipped _ S) in Hin. contradiction. }
  pose proof (verdict_cases (i_prog i) S) as VC. rewrite V in VC. fold (hs i) in VC.
  assert (Ex : existsb (is_failure_or_error (hs i)) (raised (i_prog i)) = true)
    by (apply existsb_exists; exists e; split; assumption).
  unfold finding_F2 in NF. rewrite Ex in NF. cbn [andb] in NF.
  assert (U : unsuccessful o = true).
  { destruct (raised (i_prog i)) as [|x r] eqn:E; [contradiction|].
    destruct (find (fun e => negb (claims (hs i) e)) (x :: r)) as [e'|] eqn:F.
    - rewrite table_last_resort in VC. injection VC as ->. reflexivity.
    - destruct VC as [VC _].
      assert (All : forallb (claims (hs i)) (x :: r) = true).
      { apply forallb_forall. intros y Hy. pose proof (find_none _ _ F y Hy) as N. now apply negb_false_iff in N. }
      rewrite All in NF. cbn [andb] in NF. rewrite <- VC in NF. now apply negb_false_iff in NF. }
  rewrite U. split; reflexivity.
Qed.
