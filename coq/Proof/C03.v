(* C03 - proofs: success only if nothing was raised; one exception maps through the first
   handler that claims it; no downgrade outside the delimited finding F2. *)
From TT Require Import Lib.Base Gen.Handlers Model.Run Spec.Run Spec.C03 Corr.C03 Proof.RunCore.

Lemma obs_eqb_spec a b : obs_eqb a b = true <-> a = b.
Proof.
  destruct a as [o1 k1], b as [o2 k2]; unfold obs_eqb; simpl. rewrite andb_true_iff.
  rewrite (list_eqb_spec outcome_eqb outcome_eqb_spec), bool_eqb_spec.
  split; [intros [-> ->]; reflexivity | intros H; injection H; auto].
Qed.

(* no exception stands for a success *)
Lemma outcome_of_no_success p e :
  forallb (fun co => negb (outcome_eqb (snd co) OSuccess)) (p_handlers p) = true -> outcome_of p e <> OSuccess.
Proof.
  intros W. unfold outcome_of, user_claim. destruct (find _ (p_handlers p)) as [co|] eqn:F.
  - apply find_some in F. destruct F as [Hin _]. rewrite forallb_forall in W. specialize (W co Hin).
    intros E. rewrite E in W. discriminate.
  - unfold standard_outcome. repeat (match goal with |- context [if ?c then _ else _] => destruct c end); discriminate.
Qed.

Lemma outs_of_calls t : outs_of t = outs_of (calls t).
Proof. induction t as [|e r IH]; simpl; [reflexivity|]. destruct e; simpl; rewrite ?IH; reflexivity. Qed.

(* what the model observes *)
Lemma model_obs i :
  exists o, fst (verdict (i_prog i) false) = Some o
            /\ model i = {| o_outs := [o]; o_ok := negb (unsuccessful o) |}.
Proof.
  unfold model. destruct (run_bracket (i_prog i) []) as (s & o & d & R & V & C & _ & _).
  exists o. split; [exact V|]. rewrite R, outs_of_calls, C. cbn [outs_of flat_map calls app].
  unfold was_successful. simpl. rewrite orb_false_r. reflexivity.
Qed.

Lemma raised_collected p : skipped p = false -> collected p false = raised p.
Proof. intros S. pose proof (collected_run_raised p) as H. unfold collected_run in H. now rewrite S in H. Qed.
Lemma raised_skipped p : skipped p = true -> raised p = [].
Proof. intros S. unfold raised, raised_by_user, forced_failure. now rewrite S. Qed.

(* the verdict in terms of the exceptions raised *)
Lemma verdict_cases p :
  skipped p = false ->
  match raised p with
  | [] => fst (verdict p false) = Some OSuccess
  | _ => match find (fun e => negb (claimed p e)) (raised p) with
         | Some _ => fst (verdict p false) = Some OErr
         | None => fst (verdict p false) = Some (outcome_of p (last (raised p) (Exc CFail None)))
         end
  end.
Proof.
  intros S. unfold verdict. rewrite S, (raised_collected p S).
  destruct (raised p) as [|x r] eqn:E; [reflexivity|].
  rewrite <- (find_ext' _ _ (x :: r) (fun e => f_equal negb (claims_handlers p e))).
  destruct (find _ (x :: r)) as [e|] eqn:F.
  - rewrite (decide_unclaimed _ _ _ F). exact table_last_resort.
  - destruct (decide_claimed (handlers p) (x :: r)) as (h & L & D); [discriminate | exact F|].
    rewrite D. cbn [fst]. pose proof (lookup_handlers p (last (x :: r) (Exc CFail None))) as LH.
    rewrite L in LH. exact LH.
Qed.

Lemma raised_nil p : raised p = [] -> raised_by_user p = [] /\ (skipped p = false -> forced p = false).
Proof.
  unfold raised, forced_failure. intros H. apply app_eq_nil in H. destruct H as [H1 H2]. split; [exact H1|].
  intros S. rewrite S in H2. cbn [negb andb] in H2.
  destruct (setup_returns p) eqn:R.
  - destruct (forced p); [discriminate | reflexivity].
  - exfalso. unfold raised_by_user in H1. rewrite S in H1. unfold setup_returns in R.
    destruct (setup_raise p) as [e|]; [|discriminate]. cbn [caught] in H1.
    apply app_eq_nil in H1. destruct H1 as [H1 _]. exact (flatten_nonempty e H1).
Qed.

Theorem model_meets_spec i : wf i = true -> finding_F2 i = false -> spec_okb i (model i) = true.
Proof.
  intros W NF. unfold wf in W. apply andb_true_iff in W as [_ Wh].
  destruct (model_obs i) as (o & V & ->). unfold spec_okb. cbn [o_outs o_ok].
  destruct (skipped (i_prog i)) eqn:S.
  - (* skip-decorated *)
    unfold verdict in V. rewrite S in V. injection V as <-.
    unfold success_okb, single_okb, no_downgrade_okb. rewrite (raised_skipped _ S). reflexivity.
  - pose proof (verdict_cases (i_prog i) S) as VC. rewrite V in VC.
    apply andb_true_iff; split; [apply andb_true_iff; split|].
    + (* success only if nothing raised *)
      unfold success_okb. destruct o; try reflexivity.
      destruct (raised (i_prog i)) as [|x r] eqn:E.
      * destruct (raised_nil _ E) as [H1 H2]. rewrite H1, (H2 S). reflexivity.
      * exfalso. destruct (find _ (x :: r)); [discriminate|].
        injection VC as VC. exact (outcome_of_no_success _ _ Wh (eq_sym VC)).
    + (* a single exception maps to its outcome *)
      unfold single_okb. destruct (raised (i_prog i)) as [|x [|y r]] eqn:E; try reflexivity.
      cbn [find last] in VC. apply outcome_eqb_spec.
      destruct (claimed (i_prog i) x) eqn:C; cbn [negb] in VC.
      * now injection VC.
      * injection VC as ->. unfold claimed in C. unfold outcome_of.
        destruct (user_claim (i_prog i) x); [discriminate|].
        unfold standard_outcome.
        assert (N : forall d, subclass d CException = true -> subclass (cls_of x) d = false).
        { intros d Hd. destruct (subclass (cls_of x) d) eqn:Sd; [|reflexivity].
          unfold isinstance in C. rewrite (subclass_trans _ _ _ Sd Hd) in C. discriminate. }
        rewrite !N by reflexivity. reflexivity.
    + (* no downgrade, outside F2 *)
      unfold no_downgrade_okb. unfold finding_F2 in NF.
      destruct (existsb (is_failure_or_error (i_prog i)) (raised (i_prog i))) eqn:Ex; [|reflexivity].
      cbn [andb] in NF. rewrite negb_involutive, andb_diag.
      destruct (raised (i_prog i)) as [|x r] eqn:E; [discriminate|].
      destruct (find (fun e => negb (claimed (i_prog i) e)) (x :: r)) as [e|] eqn:F.
      * injection VC as ->. reflexivity.
      * injection VC as ->.
        assert (All : forallb (claimed (i_prog i)) (x :: r) = true).
        { apply forallb_forall. intros y Hy. pose proof (find_none _ _ F y Hy) as N. now apply negb_false_iff in N. }
        rewrite All in NF. cbn [andb] in NF. now apply negb_false_iff in NF.
Qed.

Theorem spec_okb_sound i o : spec_okb i o = true -> Spec i o.
Proof.
  unfold spec_okb, Spec. destruct (o_outs o) as [|k [|k' r]]; try discriminate.
  intros H. apply andb_true_iff in H as [H H3]. apply andb_true_iff in H as [H1 H2].
  exists k. split; [reflexivity|]. split; [|split].
  - intros ->. unfold success_okb in H1. destruct (raised_by_user (i_prog i)); [|discriminate].
    split; [reflexivity | now apply negb_true_iff in H1].
  - intros e E. unfold single_okb in H2. rewrite E in H2. apply outcome_eqb_spec in H2. now symmetry.
  - intros (e & Hin & He). unfold no_downgrade_okb in H3.
    assert (Ex : existsb (is_failure_or_error (i_prog i)) (raised (i_prog i)) = true)
      by (apply existsb_exists; exists e; split; assumption).
    rewrite Ex in H3. apply andb_true_iff in H3 as [A B]. split; [exact A | now apply negb_true_iff in B].
Qed.

(* an exception no handler is responsible for stands for an error *)
Lemma unclaimed_is_error p e : claimed p e = false -> outcome_of p e = OErr.
Proof.
  unfold claimed, outcome_of. destruct (user_claim p e); [discriminate|]. intros C.
  unfold standard_outcome.
  assert (N : forall d, subclass d CException = true -> subclass (cls_of e) d = false).
  { intros d Hd. destruct (subclass (cls_of e) d) eqn:Sd; [|reflexivity].
    unfold isinstance in C. rewrite (subclass_trans _ _ _ Sd Hd) in C. discriminate. }
  rewrite !N by reflexivity. reflexivity.
Qed.

(* C03_success_iff, both directions (the converse needs the test not to be skip-decorated) *)
Theorem success_iff i :
  wf i = true -> skipped (i_prog i) = false ->
  (o_outs (model i) = [OSuccess] <-> raised_by_user (i_prog i) = [] /\ forced (i_prog i) = false).
Proof.
  intros W S. unfold wf in W. apply andb_true_iff in W as [_ Wh].
  destruct (model_obs i) as (o & V & ->). cbn [o_outs].
  pose proof (verdict_cases (i_prog i) S) as VC. rewrite V in VC. split.
  - intros H. injection H as ->.
    destruct (raised (i_prog i)) as [|x r] eqn:E.
    + destruct (raised_nil _ E) as [H1 H2]. split; [exact H1 | exact (H2 S)].
    + exfalso. destruct (find _ (x :: r)); [discriminate|].
      injection VC as VC. exact (outcome_of_no_success _ _ Wh (eq_sym VC)).
  - intros [H1 H2]. assert (E : raised (i_prog i) = []).
    { unfold raised, forced_failure. rewrite H1, H2, andb_false_r. reflexivity. }
    rewrite E in VC. injection VC as ->. reflexivity.
Qed.

(* C03_single *)
Theorem single_mapping i e :
  raised (i_prog i) = [e] -> o_outs (model i) = [outcome_of (i_prog i) e].
Proof.
  intros E. destruct (model_obs i) as (o & V & ->). cbn [o_outs].
  assert (S : skipped (i_prog i) = false).
  { destruct (skipped (i_prog i)) eqn:S; [|reflexivity]. rewrite (raised_skipped _ S) in E. discriminate. }
  pose proof (verdict_cases (i_prog i) S) as VC. rewrite V, E in VC. cbn [find last] in VC.
  destruct (claimed (i_prog i) e) eqn:C; cbn [negb] in VC.
  - injection VC as ->. reflexivity.
  - injection VC as ->. now rewrite (unclaimed_is_error _ _ C).
Qed.

(* C03_no_downgrade_partial: outside F2 a failure or error is never downgraded *)
Theorem no_downgrade_partial i e :
  finding_F2 i = false ->
  In e (raised (i_prog i)) -> is_failure_or_error (i_prog i) e = true ->
  exists o, model i = {| o_outs := [o]; o_ok := false |} /\ unsuccessful o = true.
Proof.
  intros NF Hin He. destruct (model_obs i) as (o & V & ->). exists o.
  assert (S : skipped (i_prog i) = false).
  { destruct (skipped (i_prog i)) eqn:S; [|reflexivity]. rewrite (raised_skipped _ S) in Hin. contradiction. }
  pose proof (verdict_cases (i_prog i) S) as VC. rewrite V in VC.
  assert (Ex : existsb (is_failure_or_error (i_prog i)) (raised (i_prog i)) = true)
    by (apply existsb_exists; exists e; split; assumption).
  unfold finding_F2 in NF. rewrite Ex in NF. cbn [andb] in NF.
  assert (U : unsuccessful o = true).
  { destruct (raised (i_prog i)) as [|x r] eqn:E; [contradiction|].
    destruct (find (fun e => negb (claimed (i_prog i) e)) (x :: r)) as [e'|] eqn:F.
    - injection VC as ->. reflexivity.
    - injection VC as ->.
      assert (All : forallb (claimed (i_prog i)) (x :: r) = true).
      { apply forallb_forall. intros y Hy. pose proof (find_none _ _ F y Hy) as N. now apply negb_false_iff in N. }
      rewrite All in NF. cbn [andb] in NF. now apply negb_false_iff in NF. }
  rewrite U. split; reflexivity.
Qed.

(* inside F2 the statement fails: the finding is exactly the class of inputs where it does *)
Theorem downgrade_inside_F2 i :
  finding_F2 i = true -> spec_okb i (model i) = false.
Proof.
  intros F2. destruct (model_obs i) as (o & V & ->). unfold spec_okb. cbn [o_outs o_ok].
  unfold finding_F2 in F2. apply andb_true_iff in F2 as [F2 Hl]. apply andb_true_iff in F2 as [Ex All].
  assert (S : skipped (i_prog i) = false).
  { destruct (skipped (i_prog i)) eqn:S; [|reflexivity]. rewrite (raised_skipped _ S) in Ex. discriminate. }
  pose proof (verdict_cases (i_prog i) S) as VC. rewrite V in VC.
  destruct (raised (i_prog i)) as [|x r] eqn:E; [discriminate|].
  assert (F : find (fun e => negb (claimed (i_prog i) e)) (x :: r) = None).
  { destruct (find _ (x :: r)) as [e|] eqn:F; [|reflexivity]. apply find_some in F. destruct F as [Hin Hb].
    rewrite forallb_forall in All. rewrite (All e Hin) in Hb. discriminate. }
  rewrite F in VC. set (lst := last (x :: r) (Exc CFail None)) in *. injection VC as ->.
  unfold no_downgrade_okb. rewrite E, Ex. apply negb_true_iff in Hl. rewrite Hl. cbn [andb]. apply andb_false_r.
Qed.
