(* C07 - addDetailUniqueName always finds a fresh name (pigeonhole), and what
   assertThat / expectThat / assert_that do to the details of a test. *)
From Coq Require Import String DecimalString DecimalNat FinFun.
From TT Require Import Lib.Base Model.Assertions.
Local Open Scope string_scope.

(* ---------- strings ---------- *)
Lemma append_inj_r (a b c : string) : a ++ b = a ++ c -> b = c.
Proof. induction a as [|x a IH]; simpl; intro H; [exact H|]. injection H as H. apply IH. exact H. Qed.

Lemma append_length (a b : string) : String.length (a ++ b) = (String.length a + String.length b)%nat.
Proof. induction a as [|x a IH]; simpl; [reflexivity|]. rewrite IH. reflexivity. Qed.

Lemma mem_str_in s l : mem_str s l = true <-> In s l.
Proof.
  induction l as [|x l IH]; simpl; [split; [discriminate|contradiction]|].
  rewrite orb_true_iff, IH, String.eqb_eq. split; intros [H|H]; auto.
Qed.

Definition dec (k : nat) : string := NilZero.string_of_uint (Nat.to_uint k).

Lemma to_uint_nonnil k : Nat.to_uint k <> Decimal.Nil.
Proof.
  intro H. pose proof (Unsigned.of_to k) as E. rewrite H in E. simpl in E.
  (* of_uint Nil = 0, so k = 0; but to_uint 0 = D0 Nil *)
  subst k. discriminate H.
Qed.

Lemma dec_inj j k : dec j = dec k -> j = k.
Proof.
  unfold dec. intro H. apply (f_equal NilZero.uint_of_string) in H.
  rewrite !NilZero.usu in H by apply to_uint_nonnil.
  injection H as H. apply Unsigned.to_uint_inj. exact H.
Qed.

(* the candidates the loop tries: the name itself, then name-1, name-2, ... *)
Definition cand (base : string) (k : nat) : string :=
  match k with 0 => base | S _ => suffixed base k end.

Lemma suffixed_neq_base base k : suffixed base k <> base.
Proof.
  unfold suffixed. intro H. apply (f_equal String.length) in H.
  rewrite !append_length in H. simpl in H. lia.
Qed.

Lemma cand_inj base j k : cand base j = cand base k -> j = k.
Proof.
  destruct j as [|j], k as [|k]; simpl; intro H; try reflexivity.
  - symmetry in H. destruct (suffixed_neq_base _ _ H).
  - destruct (suffixed_neq_base _ _ H).
  - unfold suffixed in H. apply append_inj_r in H. apply append_inj_r in H. apply dec_inj. exact H.
Qed.

(* ---------- the loop ---------- *)
Lemma unique_from_some fuel existing base : forall j r,
  unique_from fuel existing base (cand base j) (S j) = Some r ->
  ~ In r existing /\ exists k, r = cand base k.
Proof.
  induction fuel as [|f IH]; intros j r H; simpl in H.
  - destruct (mem_str (cand base j) existing) eqn:E; simpl in H; [discriminate|].
    injection H as <-. split; [|eauto]. intro Hin. apply mem_str_in in Hin. congruence.
  - destruct (mem_str (cand base j) existing) eqn:E; simpl in H.
    + apply (IH (S j)). exact H.
    + injection H as <-. split; [|eauto]. intro Hin. apply mem_str_in in Hin. congruence.
Qed.

Lemma unique_from_none fuel existing base : forall j,
  unique_from fuel existing base (cand base j) (S j) = None ->
  forall k, (j <= k <= j + fuel)%nat -> In (cand base k) existing.
Proof.
  induction fuel as [|f IH]; intros j H k Hk; simpl in H.
  - destruct (mem_str (cand base j) existing) eqn:E; simpl in H; [|discriminate].
    assert (k = j) by lia. subst. apply mem_str_in. exact E.
  - destruct (mem_str (cand base j) existing) eqn:E; simpl in H; [|discriminate].
    destruct (Nat.eq_dec k j) as [->|Hne]; [apply mem_str_in; exact E|].
    apply (IH (S j) H). lia.
Qed.

(* termination within the fuel supplied: length existing + 1 distinct candidates cannot all be taken *)
Theorem unique_name_total existing base : exists r, unique_name existing base = Some r.
Proof.
  unfold unique_name. destruct (unique_from _ _ _ _ _) as [r|] eqn:E; [eauto|]. exfalso.
  change base with (cand base 0) in E at 2.
  pose proof (unique_from_none _ _ _ _ E) as H.
  set (cs := map (cand base) (seq 0 (S (length existing)))).
  assert (ND : NoDup cs).
  { subst cs. apply FinFun.Injective_map_NoDup; [intros a b; apply cand_inj|apply seq_NoDup]. }
  assert (I : incl cs existing).
  { intros x Hx. subst cs. apply in_map_iff in Hx as [k [<- Hk]]. apply in_seq in Hk. apply H. lia. }
  pose proof (NoDup_incl_length ND I) as L. subst cs. rewrite map_length, seq_length in L. lia.
Qed.

Definition IsCand (n base : string) : Prop := exists k, n = cand base k.

Theorem unique_name_fresh existing base r :
  unique_name existing base = Some r -> ~ In r existing /\ IsCand r base.
Proof. unfold unique_name. change base with (cand base 0) at 2. apply unique_from_some. Qed.

Lemma NoDup_snoc {A} (l : list A) r : NoDup l -> ~ In r l -> NoDup (l ++ [r])%list.
Proof.
  induction 1 as [|x l Hx ND IH]; simpl; intro H0.
  - constructor; [intros []|constructor].
  - constructor.
    + intro Hin. apply in_app_or in Hin as [Hin|[<-|[]]]; [contradiction|]. apply H0. left; reflexivity.
    + apply IH. intro; apply H0; right; assumption.
Qed.

(* ---------- details ---------- *)
(* ds answers the requests reqs one for one: same payload, a candidate of the requested name *)
Definition answers (reqs ds : list detail) : Prop :=
  Forall2 (fun req d => snd d = snd req /\ IsCand (fst d) (fst req)) reqs ds.
Definition Inv (reqs ds : list detail) : Prop := answers reqs ds /\ NoDup (map fst ds).

Lemma add_unique_inv reqs l d : Inv reqs l ->
  exists l', add_unique (Some l) d = Some l' /\ Inv (reqs ++ [d]) l'.
Proof.
  intros [A ND]. unfold add_unique.
  destruct (unique_name_total (map fst l) (fst d)) as [r E]. rewrite E.
  destruct (unique_name_fresh _ _ _ E) as [F C].
  exists (l ++ [(r, snd d)])%list. split; [reflexivity|]. split.
  - apply Forall2_app; [exact A|]. constructor; [|constructor]. split; [reflexivity|exact C].
  - rewrite map_app. simpl. apply NoDup_snoc; assumption.
Qed.
