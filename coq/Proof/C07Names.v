(* C07 names proofs: placeholder *)
From TT Require Import Lib.Base Model.Assertions.
