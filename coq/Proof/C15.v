(* C15 - proofs about Model/Spinner.v over Model/Reactor.v: one run() of the model from a
   clean reactor meets the statement for EVERY function program, timeout, oracle and
   reactor mode (invariant over the event loop), hence every history of runs does. *)
From Coq Require Import Permutation.
From TT Require Import Lib.Base Lib.Sort Model.Reactor Model.Spinner Gen.Spinnertabs Spec.C15 Corr.C15 Proof.C15Spec.

Notation call := (dcall action).
Notation rtor := (reactor action).

(* ================= the delayed-call queue ================= *)
Lemma min_time_spec (q : list call) m : min_time q = Some m ->
  (exists c, In c q /\ dc_time c = m) /\ forall c, In c q -> m <= dc_time c.
Proof.
  revert m; induction q as [|c r IH]; simpl; intros m H; [discriminate|].
  injection H as <-. destruct (min_time r) as [m'|] eqn:E.
  - destruct (IH m' eq_refl) as [[c0 [Hin Ht]] Hle]. split.
    + destruct (Nat.min_spec (dc_time c) m') as [[_ ->]|[_ ->]].
      * exists c; split; [left|]; reflexivity.
      * exists c0; split; [right; exact Hin | exact Ht].
    + intros c' [->|Hc']; [lia|]. specialize (Hle c' Hc'). lia.
  - destruct r; [|simpl in E; discriminate]. split.
    + exists c; split; [left|]; reflexivity.
    + intros c' [->|[]]. lia.
Qed.

Lemma min_time_some (q : list call) : q <> [] -> exists m, min_time q = Some m.
Proof. destruct q; [congruence|]. intros _. simpl. eexists; reflexivity. Qed.

Lemma candidates_in (q : list call) c : In c (candidates q) ->
  In c q /\ forall c', In c' q -> dc_time c <= dc_time c'.
Proof.
  unfold candidates. destruct (min_time q) as [m|] eqn:E; [|intros []].
  intro H. apply filter_In in H as [Hin Ht]. apply Nat.eqb_eq in Ht.
  destruct (min_time_spec q m E) as [_ Hle]. split; [exact Hin|].
  intros c' Hc'. rewrite Ht. apply Hle; exact Hc'.
Qed.

Lemma candidates_ne (q : list call) : q <> [] -> candidates q <> [].
Proof.
  intro H. unfold candidates. destruct (min_time_some q H) as [m E]. rewrite E.
  destruct (min_time_spec q m E) as [[c [Hin Ht]] _].
  intro F. assert (Hc : In c (filter (fun c => Nat.eqb (dc_time c) m) q)).
  { apply filter_In; split; [exact Hin | apply Nat.eqb_eq; exact Ht]. }
  rewrite F in Hc. exact Hc.
Qed.

Lemma nth_mod_in {A} (l : list A) k d : l <> [] -> In (nth (k mod length l) l d) l.
Proof.
  intro H. apply nth_In. apply Nat.mod_upper_bound. destruct l; [congruence | simpl; discriminate].
Qed.

Lemma choose_in orc (cands : list call) c orc' : choose orc cands = Some (c, orc') -> In c cands.
Proof.
  unfold choose. destruct cands as [|c0 [|c1 r]]; [discriminate| |].
  - intro H; injection H as <- _. left; reflexivity.
  - destruct orc as [|k orc0]; intro H; injection H as <- _; [left; reflexivity|].
    exact (nth_mod_in (c0 :: c1 :: r) k c0 ltac:(discriminate)).
Qed.

Lemma choose_some orc (cands : list call) : cands <> [] -> exists c orc', choose orc cands = Some (c, orc').
Proof.
  unfold choose. destruct cands as [|c0 [|c1 r]]; [congruence| |]; intros _.
  - eexists; eexists; reflexivity.
  - destruct orc; eexists; eexists; reflexivity.
Qed.

Lemma pop_from_spec cands (r : rtor) c r' : pop_from cands r = Some (c, r') ->
  In c cands /\ exists nw orc',
    r' = mkReactor nw (nextseq r) (remove_seq (dc_seq c) (queue r)) (hooks r) (readers r) (running r)
                   (really_stopped r) orc'.
Proof.
  unfold pop_from. destruct (choose (oracle r) cands) as [[c0 orc']|] eqn:E; [|discriminate].
  intro H; injection H as <- <-. split; [eapply choose_in; exact E|].
  eexists; eexists; reflexivity.
Qed.

Lemma pop_from_some cands (r : rtor) : cands <> [] -> exists c r', pop_from cands r = Some (c, r').
Proof.
  intro H. unfold pop_from. destruct (choose_some (oracle r) cands H) as [c [orc' ->]].
  eexists; eexists; reflexivity.
Qed.

Lemma in_remove_seq s (q : list call) c : In c (remove_seq s q) <-> In c q /\ dc_seq c <> s.
Proof.
  unfold remove_seq. rewrite filter_In, negb_true_iff, Nat.eqb_neq. reflexivity.
Qed.

Lemma remove_seq_length s (q : list call) : length (remove_seq s q) <= length q.
Proof.
  unfold remove_seq. induction q as [|a r IH]; simpl; [lia|].
  destruct (negb (Nat.eqb (dc_seq a) s)); simpl; lia.
Qed.

Lemma remove_seq_length_lt (q : list call) c : In c q -> length (remove_seq (dc_seq c) q) < length q.
Proof.
  induction q as [|a r IH]; simpl; [intros []|]. intros [->|Hin].
  - rewrite Nat.eqb_refl. simpl. pose proof (remove_seq_length (dc_seq c) r) as H. unfold remove_seq in H.
    apply Nat.lt_succ_r. exact H.
  - specialize (IH Hin). unfold remove_seq in IH. destruct (negb (Nat.eqb (dc_seq a) (dc_seq c))); simpl.
    + apply -> Nat.succ_lt_mono. exact IH.
    + apply Nat.lt_lt_succ_r. exact IH.
Qed.

Lemma nodup_remove_seq s (q : list call) : NoDup (map dc_seq q) -> NoDup (map dc_seq (remove_seq s q)).
Proof.
  induction q as [|a r IH]; simpl; intro H; [constructor|].
  inversion H as [|? ? Hn Hr]; subst. destruct (negb (Nat.eqb (dc_seq a) s)); simpl; [|apply IH; exact Hr].
  constructor; [|apply IH; exact Hr]. intro Hi. apply Hn. apply in_map_iff in Hi as [b [Eb Hb]].
  apply in_remove_seq in Hb as [Hb _]. apply in_map_iff. exists b; split; assumption.
Qed.

Lemma nodup_seq_inj (q : list call) a b : NoDup (map dc_seq q) -> In a q -> In b q -> dc_seq a = dc_seq b -> a = b.
Proof.
  induction q as [|c r IH]; simpl; intros H Ha Hb E; [destruct Ha|].
  inversion H as [|? ? Hn Hr]; subst.
  destruct Ha as [->|Ha], Hb as [->|Hb]; [reflexivity| | |apply IH; assumption].
  - exfalso. apply Hn. rewrite E. apply in_map; exact Hb.
  - exfalso. apply Hn. rewrite <- E. apply in_map; exact Ha.
Qed.

Lemma remove_seq_notin s (q : list call) : ~ In s (map dc_seq q) -> remove_seq s q = q.
Proof.
  induction q as [|a r IH]; simpl; intro H; [reflexivity|].
  destruct (Nat.eqb (dc_seq a) s) eqn:E.
  - apply Nat.eqb_eq in E. exfalso; apply H; left; exact E.
  - simpl. f_equal. apply IH. intro Hi; apply H; right; exact Hi.
Qed.

Lemma remove_seq_split (q : list call) c : NoDup (map dc_seq q) -> In c q ->
  exists l1 l2, q = l1 ++ c :: l2 /\ remove_seq (dc_seq c) q = l1 ++ l2.
Proof.
  intros Hn Hin. destruct (in_split c q Hin) as [l1 [l2 ->]]. exists l1, l2. split; [reflexivity|].
  rewrite map_app in Hn. simpl in Hn.
  pose proof (NoDup_remove_2 _ _ _ Hn) as Hni.
  unfold remove_seq. rewrite filter_app. simpl. rewrite Nat.eqb_refl. simpl.
  fold (remove_seq (dc_seq c) l1). fold (remove_seq (dc_seq c) l2).
  rewrite !remove_seq_notin; [reflexivity| |]; intro H; apply Hni; apply in_or_app; [right|left]; exact H.
Qed.

Definition seq_in (s : nat) (q : list call) : bool := existsb (fun c => Nat.eqb (dc_seq c) s) q.

Lemma seq_in_spec s q : seq_in s q = true <-> exists c, In c q /\ dc_seq c = s.
Proof.
  unfold seq_in. rewrite existsb_exists. split; intros [c [H1 H2]]; exists c; split; try exact H1;
    apply Nat.eqb_eq; exact H2.
Qed.

Lemma seq_in_remove_same s q : seq_in s (remove_seq s q) = false.
Proof.
  destruct (seq_in s (remove_seq s q)) eqn:E; [|reflexivity].
  apply seq_in_spec in E as [c [Hin Hs]]. apply in_remove_seq in Hin as [_ Hne]. congruence.
Qed.

Lemma seq_in_remove_other s s' q : s <> s' -> seq_in s (remove_seq s' q) = seq_in s q.
Proof.
  intro Hne. destruct (seq_in s q) eqn:E.
  - apply seq_in_spec in E as [c [Hin Hs]]. apply seq_in_spec. exists c. split; [|exact Hs].
    apply in_remove_seq. split; [exact Hin | congruence].
  - destruct (seq_in s (remove_seq s' q)) eqn:E'; [|reflexivity].
    apply seq_in_spec in E' as [c [Hin Hs]]. apply in_remove_seq in Hin as [Hin _].
    assert (seq_in s q = true) by (apply seq_in_spec; exists c; split; assumption). congruence.
Qed.

(* cancelling everything getDelayedCalls() returned empties the queue *)
Lemma cancel_all_aux (l : list call) : forall (w : world),
  (forall c, In c (queue (w_r w)) -> In c l) ->
  queue (w_r (fold_left (fun w c => set_r (cancel (dc_seq c) (w_r w)) w) l w)) = [].
Proof.
  induction l as [|a l IH]; simpl; intros w H.
  - destruct (queue (w_r w)) as [|c r]; [reflexivity|]. destruct (H c (or_introl eq_refl)).
  - apply IH. intros c Hc. destruct w as [r st sg fl sp ran re]; destruct r; simpl in *.
    apply in_remove_seq in Hc as [Hc Hne]. destruct (H c Hc) as [->|Hl]; [congruence | exact Hl].
Qed.

Lemma fold_cancel_frame (l : list call) : forall (w : world),
  let w' := fold_left (fun w c => set_r (cancel (dc_seq c) (w_r w)) w) l w in
  w_stop w' = w_stop w /\ w_sig w' = w_sig w /\ w_flag w' = w_flag w /\ w_sp w' = w_sp w /\ w_ran w' = w_ran w
  /\ w_reentry w' = w_reentry w /\ readers (w_r w') = readers (w_r w) /\ running (w_r w') = running (w_r w)
  /\ really_stopped (w_r w') = really_stopped (w_r w) /\ hooks (w_r w') = hooks (w_r w).
Proof.
  induction l as [|a l IH]; simpl; intro w; [repeat split|].
  specialize (IH (set_r (cancel (dc_seq a) (w_r w)) w)). simpl in IH.
  destruct w as [r st sg fl sp ran re]; destruct r; simpl in *. exact IH.
Qed.

(* ================= tokens ================= *)
Definition nt := not_timeout_tok.
Definition tokc (c : call) : nat := tok_of (dc_act c).
Definition E (w : world) : list nat := crash_toks (w_ran w).

Lemma crash_toks_app a b : crash_toks (a ++ b) = crash_toks a ++ crash_toks b.
Proof. unfold crash_toks. apply filter_app. Qed.

Lemma has_app t a b : has t (a ++ b) = has t a || has t b.
Proof. unfold has. apply existsb_app. Qed.

Lemma filter_nt_remove_timeout s (q : list call) :
  (forall c, In c q -> dc_seq c = s -> nt (tokc c) = false) ->
  filter nt (map tokc (remove_seq s q)) = filter nt (map tokc q).
Proof.
  induction q as [|a r IH]; simpl; intro H; [reflexivity|].
  destruct (Nat.eqb (dc_seq a) s) eqn:Es; simpl.
  - apply Nat.eqb_eq in Es. rewrite (H a (or_introl eq_refl) Es). apply IH.
    intros c Hc. apply H. right; exact Hc.
  - rewrite IH; [reflexivity|]. intros c Hc. apply H. right; exact Hc.
Qed.

Lemma perm_move (q : list call) c ran rd : NoDup (map dc_seq q) -> In c q -> nt (tokc c) = true ->
  Permutation (filter nt (ran ++ [tokc c]) ++ filter nt (map tokc (remove_seq (dc_seq c) q)) ++ rd)
              (filter nt ran ++ filter nt (map tokc q) ++ rd).
Proof.
  intros Hn Hin Hnt. destruct (remove_seq_split q c Hn Hin) as [l1 [l2 [-> ->]]].
  rewrite !map_app, !filter_app. simpl. rewrite Hnt.
  rewrite <- !app_assoc. apply Permutation_app_head. simpl.
  rewrite <- app_assoc. apply Permutation_middle.
Qed.

Lemma perm_drop0 (q : list call) c ran rd : NoDup (map dc_seq q) -> In c q -> nt (tokc c) = false ->
  filter nt (ran ++ [tokc c]) ++ filter nt (map tokc (remove_seq (dc_seq c) q)) ++ rd
  = filter nt ran ++ filter nt (map tokc q) ++ rd.
Proof.
  intros Hn Hin Hnt. destruct (remove_seq_split q c Hn Hin) as [l1 [l2 [-> ->]]].
  rewrite !map_app, !filter_app. simpl. rewrite Hnt. rewrite app_nil_r. reflexivity.
Qed.

(* ================= one run: the static context and the loop invariant ================= *)
Record ctx := mkCtx {
  c_n0 : time;            (* the reactor's clock when run() was called *)
  c_T : time;
  c_f : fn;
  c_s : nat;              (* handle of the timeout call *)
  c_sig : sigtab;         (* the signal table while the reactor spins *)
  c_re : option bool;
  c_saved : sigtab;
  c_rd : list nat         (* selectables registered by the function *)
}.

Section OneRun.
  Variable x : ctx.
  Notation T := (c_T x).
  Notation f := (c_f x).

  Definition estar : time := earliest (events T f).
  Definition mstar : time := c_n0 x + estar.

  Definition legit (c : call) : Prop :=
    (dc_seq c = c_s x -> dc_act c = ATimeout) /\
    match dc_act c with
    | ATimeout => dc_seq c = c_s x /\ dc_time c = c_n0 x + T
    | AFire o => exists t, f_shape f = Later t o /\ dc_time c = c_n0 x + t
    | AStopReq => exists st, f_stop f = Some st /\ dc_time c = c_n0 x + st
    | ANoop t => 10 <= t
    | ARunFunction _ _ => False
    end.

  (* every event that can end the run is still scheduled *)
  Definition present (w : world) : Prop :=
    forall k t, ev_time T f k = Some t ->
      exists c, In c (queue (w_r w)) /\ tokc c = k /\ dc_time c = c_n0 x + t.

  Inductive st_ok (w : world) : Prop :=
  | StA : timeout_pending w = true -> has 0 (E w) = false -> has 1 (E w) = false ->
          sp_success (w_sp w) = None -> sp_failure (w_sp w) = None -> st_ok w
  | StB : timeout_pending w = false -> has 0 (E w) = true -> sp_failure (w_sp w) = Some ETimeout -> st_ok w
  | StC : timeout_pending w = false -> has 0 (E w) = false -> has 1 (E w) = true ->
          (exists t o, f_shape f = Later t o /\ get_result (w_sp w) = result_of o) -> st_ok w.

  Record Inv (w : world) : Prop := {
    i_nodup : NoDup (map dc_seq (queue (w_r w)));
    i_legit : Forall legit (queue (w_r w));
    i_stop : w_stop w = SFake;
    i_rs : really_stopped (w_r w) = false;
    i_hooks : hooks (w_r w) = [];
    i_rd : readers (w_r w) = c_rd x;
    i_sig : w_sig w = c_sig x;
    i_flag : w_flag w = true;
    i_re : w_reentry w = c_re x;
    i_junk : sp_junk (w_sp w) = [];
    i_saved : sp_saved (w_sp w) = c_saved x;
    i_tc : sp_timeout_call (w_sp w) = Some (c_s x);
    i_st : st_ok w;
    i_phase : running (w_r w) = true -> E w = [] /\ sp_spinning (w_sp w) = true /\ present w;
    i_live : running (w_r w) = true \/ E w <> [];
    i_early : forall k, In k (E w) -> ev_time T f k = Some estar;
    i_perm : Permutation (filter nt (w_ran w) ++ filter nt (map tokc (queue (w_r w))) ++ c_rd x) (sched_tokens f)
  }.

  (* ---- events and their instants ---- *)
  Lemma ev_time_events k t : ev_time T f k = Some t -> exists r, In (t, r) (events T f).
  Proof.
    unfold ev_time, events. destruct k as [|[|[|k]]]; intro H.
    - injection H as <-. eexists; left; reflexivity.
    - destruct (f_shape f) as [| t' o |]; try discriminate. injection H as <-.
      eexists; right; left; reflexivity.
    - rewrite H. eexists; right. apply in_or_app; right. left; reflexivity.
    - discriminate.
  Qed.

  Lemma events_ev_time t : In t (map fst (events T f)) -> exists k, ev_time T f k = Some t.
  Proof.
    unfold events. simpl. intros [<-|H]; [exists 0; reflexivity|].
    rewrite map_app in H. apply in_app_or in H as [H|H].
    - destruct (f_shape f) as [| t' o |] eqn:Es; simpl in H; try destruct H as [<-|[]]; try destruct H.
      exists 1. simpl. rewrite Es. reflexivity.
    - destruct (f_stop f) as [st|] eqn:Es; simpl in H; [destruct H as [<-|[]] | destruct H].
      exists 2. simpl. exact Es.
  Qed.

  Lemma estar_least k t : ev_time T f k = Some t -> estar <= t.
  Proof.
    intro H. destruct (ev_time_events k t H) as [r Hin].
    destruct (earliest_spec (events T f) (events_ne T f)) as [_ Hle]. exact (Hle (t, r) Hin).
  Qed.

  Lemma estar_attained : exists k, ev_time T f k = Some estar.
  Proof.
    destruct (earliest_spec (events T f) (events_ne T f)) as [Hin _]. apply events_ev_time. exact Hin.
  Qed.

  Lemma ev_time_le2 k t : ev_time T f k = Some t -> k <= 2.
  Proof. destruct k as [|[|[|k]]]; simpl; intro H; try lia. discriminate. Qed.

  (* a legitimate call that can end the run carries its event's instant *)
  Lemma legit_ev c : legit c -> tokc c <= 2 -> exists t, ev_time T f (tokc c) = Some t /\ dc_time c = c_n0 x + t.
  Proof.
    unfold legit, tokc. intros [_ H] Hk. destruct (dc_act c) as [|o| |tk|]; simpl in *.
    - exists T. split; [reflexivity | apply H].
    - destruct H as [t [Es Ht]]. exists t. rewrite Es. split; [reflexivity | exact Ht].
    - destruct H as [st [Es Ht]]. exists st. split; assumption.
    - lia.
    - destruct H.
  Qed.

  (* the first call that ends the run is due at the earliest of the three instants *)
  Lemma first_time w c : Inv w -> In c (queue (w_r w)) ->
    (forall c', In c' (queue (w_r w)) -> dc_time c <= dc_time c') ->
    (E w <> [] -> dc_time c = mstar) ->
    forall t, ev_time T f (tokc c) = Some t -> dc_time c = c_n0 x + t -> t = estar.
  Proof.
    intros HI Hin Hmin HE t Hev Ht.
    pose proof (estar_least _ _ Hev) as Hle.
    destruct (E w) as [|e0 er] eqn:EE.
    - destruct (i_live w HI) as [Hrun|Hne]; [|congruence].
      destruct (i_phase w HI Hrun) as [_ [_ Hp]].
      destruct estar_attained as [k Hk]. destruct (Hp k estar Hk) as [c' [Hc' [_ Ht']]].
      specialize (Hmin c' Hc'). lia.
    - assert (Hm : dc_time c = mstar) by (apply HE; discriminate). unfold mstar in Hm. lia.
  Qed.

  (* the Deferred fires at most once *)
  Lemma count_app_nat (a b : list nat) k : count (a ++ b) k = count a k + count b k.
  Proof. unfold count. apply count_occ_app. Qed.

  Lemma count_fire_sched : count (sched_tokens f) 1 <= 1.
  Proof.
    unfold sched_tokens. rewrite !count_app_nat.
    rewrite (count_notin (map tok_extra _)), (count_notin (map tok_sel _)).
    - destruct (f_stop f), (f_shape f); simpl; lia.
    - intro H. apply in_map_iff in H as [j [Hj _]]. unfold tok_sel in Hj. lia.
    - intro H. apply in_map_iff in H as [j [Hj _]]. unfold tok_extra in Hj. lia.
  Qed.

  Lemma count_in_pos (l : list nat) k : In k l -> 1 <= count l k.
  Proof. intro H. unfold count. apply count_occ_In. exact H. Qed.

  Lemma fire_once w c o : Inv w -> has 1 (E w) = true -> In c (queue (w_r w)) -> dc_act c = AFire o -> False.
  Proof.
    intros HI Hh Hin Ha. pose proof (i_perm w HI) as P.
    assert (Hc : count (filter nt (w_ran w) ++ filter nt (map tokc (queue (w_r w))) ++ c_rd x) 1 <= 1).
    { unfold count. rewrite (Permutation_count_occ Nat.eq_dec P). apply count_fire_sched. }
    rewrite !count_app_nat in Hc.
    assert (H1 : 1 <= count (filter nt (w_ran w)) 1).
    { apply count_in_pos. apply filter_In. split; [|reflexivity].
      apply has_In in Hh. unfold E, crash_toks in Hh. apply filter_In in Hh. apply Hh. }
    assert (H2 : 1 <= count (filter nt (map tokc (queue (w_r w)))) 1).
    { apply count_in_pos. apply filter_In. split; [|reflexivity].
      apply in_map_iff. exists c. split; [|exact Hin]. unfold tokc. rewrite Ha. reflexivity. }
    lia.
  Qed.

  Lemma st_decided w : st_ok w -> get_result (w_sp w) = decided f (E w).
  Proof.
    unfold decided. intros [Hp H0 H1 Hs Hf | Hp H0 Hf | Hp H0 H1 [t [o [Es Hr]]]].
    - rewrite H0, H1. unfold get_result. rewrite Hf, Hs. reflexivity.
    - rewrite H0. unfold get_result. rewrite Hf. reflexivity.
    - rewrite H0, H1, Es. exact Hr.
  Qed.
End OneRun.
